"""Per-property configuration of vcheck: correspondence streams with observation projections, oracle."""

SQ_ALL = {'stream': 'sq', 'ops': 'tok,fp,is'}

PROPS = {
    'C01': {'streams': [{'stream': 'sq', 'ops': 'tok,fp,is', 'proj': {'tok': 'status', 'fp': 'status', 'is': 'status'}}],
            'oracle': 'C01', 'totality': True},
    'C02': {'streams': [{'stream': 'hx', 'ops': 'h5,xc,x', 'proj': {'h5': 'status', 'xc': 'status', 'x': 'status'}}],
            'oracle': 'C02', 'totality': True},
    'C03': {'streams': [{'stream': 'g3', 'ops': 'is', 'proj': {'is': 'verdict'}}], 'oracle': 'C03'},
    'C04': {'streams': [{'stream': 'g4', 'ops': 'x', 'proj': {'x': 'verdict'}}], 'oracle': 'C04'},
    'C05': {'streams': [{'stream': 'history', 'ops': 'is,x'}], 'oracle': 'history', 'race': True,
            'rule': 'history mode: distinct inputs asked once in a fresh process (compared with the model), then in random histories and from 32 goroutines; non-trivial = reported by at least one detector'},
    'C06': {'streams': [{'stream': 'sq', 'ops': 'tok,fp,is'}, {'stream': 'sc', 'ops': 'strcore'}], 'conformance': True, 'fuzz': ['FuzzSQL'],
            'rule': 'every generated SQL input in the six modes: raw token stream, folded tokens + fingerprint + verdict + statistics, and IsSQLi; non-trivial = at least two raw tokens as-is'},
    'C07': {'streams': [{'stream': 'hx', 'ops': 'h5,xc,x'}, {'stream': 'xu', 'ops': 'dec,url,tag,attr,esw'}], 'conformance': True, 'fuzz': ['FuzzHTML', 'FuzzXSSUnit'],
            'rule': 'every generated HTML input in the five contexts: token stream and verdict, IsXSS; decoder and the three classifiers on unit inputs; non-trivial = at least two tokens in the data state'},
    'C08': {'streams': [{'stream': 'sq', 'ops': 'fp,is', 'proj': {'fp': 'fpverdict'}}], 'oracle': 'C08'},
    'C09': {'streams': [], 'oracle': 'timing'},
    'C10': {'streams': [{'stream': 'sq', 'ops': 'is'}], 'oracle': 'C10'},
    'C11': {'streams': [{'stream': 'hx', 'ops': 'h5,xc,x'}], 'oracle': 'C11'},
    'C12': {'streams': [{'stream': 'sq', 'ops': 'fp,is', 'proj': {'fp': 'fpverdict'}}], 'oracle': 'C12'},
    'C13': {'streams': [{'stream': 'hx', 'ops': 'xc,x'}], 'oracle': 'C13'},
    'C14': {'streams': [{'stream': 'g14', 'ops': 'is'}], 'oracle': 'C14'},
    'C15': {'streams': [{'stream': 'g15', 'ops': 'xc,x'}], 'oracle': 'C15'},
    'C16': {'streams': [{'stream': 'sq', 'ops': 'tok', 'proj': {'tok': 'faithful'}}], 'oracle': 'C16'},
    'C17': {'streams': [{'stream': 'hx', 'ops': 'h5'}], 'oracle': 'C17'},
    'C18': {'streams': [{'stream': 'sq', 'ops': 'tok', 'proj': {'tok': 'strings'}}, {'stream': 'sc', 'ops': 'strcore'}], 'oracle': 'C18'},
    'C19': {'streams': [{'stream': 'xu', 'ops': 'dec,url'}], 'oracle': 'C19'},
    'C20': {'streams': [], 'oracle': 'tables', 'exhaustive': True,
            'rule': 'every entry of the five shipped tables against the well-formedness predicate, every entry of the pinned baseline against the current tables; all entries are non-trivial'},
}
