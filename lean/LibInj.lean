import LibInj.Bytes
import LibInj.Sqli.Check
import LibInj.Xss.IsXSS
