/-! Go string primitives over `List UInt8`, shared by all models.

Every Go index or slice expression is a *checked* operation in `Except Err`, so the model can
panic exactly where the Go code can; the totality theorems (C01, C02) say it never does. -/
namespace LibInj

abbrev Bytes := List UInt8

/-- the ways the Go code could fail: index out of range, slice bounds, token-vector index,
negative length, loop fuel exhausted (non-termination), call depth exhausted (stack),
a byte parser the model does not know -/
inductive Err | oob | slice | tv | neg | fuel | depth | parser
deriving Repr, DecidableEq, Inhabited

abbrev M := Except Err

/-- Bool-valued views of results, for kernel-evaluated examples -/
def isOkTrue : M Bool → Bool | .ok true => true | _ => false
def isOkFalse : M Bool → Bool | .ok false => true | _ => false
def isErr {α} : M α → Bool | .error _ => true | _ => false

/-- Go `s[i]` -/
def at' (s : Bytes) (i : Nat) : M UInt8 :=
  match s[i]? with
  | some b => .ok b
  | none => .error .oob

/-- `s[i] == c`, checked -/
def byteIs (s : Bytes) (i : Nat) (c : UInt8) : M Bool := do return (← at' s i) == c
def byteNe (s : Bytes) (i : Nat) (c : UInt8) : M Bool := do return (← at' s i) != c
/-- pure guard, to be combined with the short-circuit `<&&>` / `<||>` -/
abbrev g (b : Bool) : M Bool := pure b

/-- Go `s[a:b]` -/
def slice (s : Bytes) (a b : Nat) : M Bytes :=
  if a ≤ b ∧ b ≤ s.length then .ok ((s.drop a).take (b - a)) else .error .slice

/-- Go `s[a:]` -/
def sliceFrom (s : Bytes) (a : Nat) : M Bytes :=
  if a ≤ s.length then .ok (s.drop a) else .error .slice

/-- Go `pos -= k` on a non-negative quantity that later indexes an array -/
def sub (a b : Nat) : M Nat := if b ≤ a then .ok (a - b) else .error .neg

/-- `strings.IndexByte` -/
def indexByte (s : Bytes) (c : UInt8) : Option Nat :=
  match s with
  | [] => none
  | x :: xs => if x == c then some 0 else (indexByte xs c).map (· + 1)

def isPrefix : Bytes → Bytes → Bool
  | [], _ => true
  | _ :: _, [] => false
  | a :: as, b :: bs => a == b && isPrefix as bs

/-- `strings.Index` -/
def indexOf (h n : Bytes) : Option Nat :=
  if isPrefix n h then some 0 else
  match h with
  | [] => none
  | _ :: t => (indexOf t n).map (· + 1)

/-- `strings.Contains` -/
def contains (h n : Bytes) : Bool := (indexOf h n).isSome

/-- length of the longest prefix whose bytes satisfy `p` (single-increment scan loops) -/
def spn (p : UInt8 → Bool) : Bytes → Nat
  | [] => 0
  | x :: xs => if p x then spn p xs + 1 else 0

def mem (set : Bytes) (c : UInt8) : Bool := set.contains c

def isLowerAscii (c : UInt8) : Bool := 97 ≤ c && c ≤ 122
def isUpperAscii (c : UInt8) : Bool := 65 ≤ c && c ≤ 90
def upperAscii (c : UInt8) : UInt8 := if isLowerAscii c then c - 32 else c
def lowerAscii (c : UInt8) : UInt8 := if isUpperAscii c then c + 32 else c

/-- comparison-exact model of `strings.ToUpper` against ASCII-only keys (DESIGN §2.1, §7):
ASCII fold, `ı` (C4 B1) → `I`, `ſ` (C5 BF) → `S`, every other byte unchanged. -/
def goUpper : Bytes → Bytes
  | [] => []
  | 0xC4 :: 0xB1 :: t => 73 :: goUpper t
  | 0xC5 :: 0xBF :: t => 83 :: goUpper t
  | c :: t => upperAscii c :: goUpper t

/-- `strings.ToLower` is used once, on a 7-byte window compared with "doctype". No non-ASCII rune
lowers to a letter of "doctype" (the only ASCII-producing ones are U+0130 → `i̇`, U+212A → `k`), and an
invalid byte becomes U+FFFD, so byte-wise ASCII folding decides the comparison exactly. -/
def goLowerAscii (s : Bytes) : Bytes := s.map lowerAscii

def stripNul (s : Bytes) : Bytes := s.filter (· != 0)

def isInfix (n h : Bytes) : Bool :=
  match h with
  | [] => n.isEmpty
  | _ :: t => n.isPrefixOf h || isInfix n t

end LibInj
