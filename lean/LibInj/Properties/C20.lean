import LibInj.Proofs.Tables
import LibInj.Baseline.Keywords
import LibInj.Baseline.Xss
/-! # C20 — shipped detection tables are well-formed and never lose baseline entries

`Gen.*` is regenerated from /repo on every run; `Baseline.*` is the pinned snapshot (commit
0520984). Every theorem here is re-checked by the kernel against the regenerated tables. -/
namespace LibInj.Properties.C20
open LibInj LibInj.Tables

/-- the full statement of C20 -/
def C20_statement : Prop :=
  (∀ e ∈ Gen.keywords, kwOK e = true) ∧
  (∀ t ∈ Gen.blackTags, upperNulFree t = true) ∧
  (∀ a ∈ Gen.blacks, upperNulFree a.1 = true) ∧
  (∀ a ∈ Gen.blackEvents, upperNulFree a.1 = true) ∧
  (∀ e ∈ Baseline.keywords, e ∈ Gen.keywords) ∧
  (∀ t ∈ Baseline.blackTags, t ∈ Gen.blackTags) ∧
  (∀ a ∈ Baseline.blacks, a ∈ Gen.blacks) ∧
  (∀ a ∈ Baseline.blackEvents, a ∈ Gen.blackEvents)

set_option maxRecDepth 200000 in
theorem keywords_wf : Gen.keywords.all kwOK = true := by decide +kernel

set_option maxRecDepth 200000 in
theorem fingerprint_comment_only_last : Gen.keywords.all commentOnlyLast = true := by decide +kernel

theorem xss_lists_wf :
    Gen.blackTags.all upperNulFree = true ∧
    (Gen.blacks.all fun a => upperNulFree a.1) = true ∧
    (Gen.blackEvents.all fun a => upperNulFree a.1) = true ∧
    Gen.hexMap.length = 256 := by decide +kernel

set_option maxRecDepth 200000 in
theorem baseline_keywords_merge : subMerge Baseline.keywords Gen.keywords = true := by decide +kernel

theorem baseline_xss_lists :
    tagsSub Baseline.blackTags Gen.blackTags = true ∧
    namedSub Baseline.blacks Gen.blacks = true ∧
    namedSub Baseline.blackEvents Gen.blackEvents = true := by decide +kernel

/-- every baseline keyword/fingerprint is still looked up with the same class -/
theorem baseline_lookup_preserved : ∀ e ∈ Baseline.keywords, Sqli.lookupKw e.1 e.2.1 = some e.2.2 := by
  intro e he
  have hm := subMerge_sound _ _ baseline_keywords_merge e he
  exact lookupIn_of_mem _ Sqli.keywords_strictSorted e.1 e.2.1 e.2.2 hm

theorem tables_wellformed_and_baseline_preserved : C20_statement := by
  refine ⟨?_, ?_, ?_, ?_, ?_, ?_, ?_, ?_⟩
  · exact fun e he => List.all_eq_true.mp keywords_wf e he
  · exact fun t ht => List.all_eq_true.mp xss_lists_wf.1 t ht
  · exact fun a ha => List.all_eq_true.mp xss_lists_wf.2.1 a ha
  · exact fun a ha => List.all_eq_true.mp xss_lists_wf.2.2.1 a ha
  · exact subMerge_sound _ _ baseline_keywords_merge
  · intro t ht
    have := List.all_eq_true.mp baseline_xss_lists.1 t ht
    simpa using this
  · intro a ha
    have := List.all_eq_true.mp baseline_xss_lists.2.1 a ha
    simpa using this
  · intro a ha
    have := List.all_eq_true.mp baseline_xss_lists.2.2 a ha
    simpa using this

/-- non-vacuity: the tables are not empty and a well-known fingerprint is present -/
example : Gen.keywords.length > 9000 ∧ Sqli.lookupKw 4 0x30532631 = some 70 := by decide +kernel

end LibInj.Properties.C20
