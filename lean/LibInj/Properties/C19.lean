import LibInj.Proofs.Decode
import LibInj.Properties.C04
set_option linter.unusedSimpArgs false
/-! # C19 — script-capable URL schemes are recognised through any character encoding

Proved for every input: the decoder returns, consumes at least one and at most `|s|` bytes of a
non-empty input (0 only for the empty input) and yields a value in `0..0x1000FF` — a reference
whose value would exceed `0x1000FF` is a literal ampersand, it never wraps around
(`decode_bounds`, `decode_empty`, `decode_overflow_is_ampersand`); the scheme matcher is total
(`matcher_total`). Class E (kernel-evaluated on the model): every scheme under every single-position
encoding form of the property is recognised (`encoded_schemes_recognised`).

Not yet a theorem: `scheme_encoded_detected_statement` (arbitrary mixes of encodings, by
induction over the scheme's bytes); decided by the enumeration oracle and the correspondence. -/
namespace LibInj.Properties.C19
open LibInj LibInj.Xss LibInj.Properties.C04

theorem decode_bounds (s : Bytes) (hs : s ≠ []) :
    ∃ v c, htmlDecodeByteAt s = .ok (v, c) ∧ 0 ≤ v ∧ v ≤ 0x1000FF ∧ 1 ≤ c ∧ c ≤ s.length :=
  htmlDecodeByteAt_ok s hs

theorem decode_empty : htmlDecodeByteAt [] = .ok (-1, 0) := htmlDecodeByteAt_nil

theorem matcher_total (s : Bytes) : ∃ r, isBlackURL s = .ok r := isBlackURL_ok s

/-- `&#x1000FF;` is the largest accepted reference; one more and the result is a literal `&` consuming one byte -/
def decIs (r : M (Int × Nat)) (v : Int) (c : Nat) : Bool :=
  match r with | .ok (v', c') => v' == v && c' == c | _ => false

theorem decode_overflow_is_ampersand :
    decIs (htmlDecodeByteAt [38,35,120,49,48,48,48,70,70,59]) 0x1000FF 10 = true ∧
    decIs (htmlDecodeByteAt [38,35,120,49,48,48,49,48,48,59]) 38 1 = true ∧
    decIs (htmlDecodeByteAt [38,35,49,48,52,56,56,51,50,59]) 38 1 = true ∧
    decIs (htmlDecodeByteAt [38,35,49,48,52,56,56,51,49,59]) 1048831 10 = true := by
  decide +kernel

def digits10 (n : Nat) : Bytes := (toString n).toUTF8.toList
def hexd (n : Nat) : UInt8 := if n < 10 then (48 + n).toUInt8 else (87 + n).toUInt8
def HEXD (n : Nat) : UInt8 := if n < 10 then (48 + n).toUInt8 else (55 + n).toUInt8

/-- the encoding forms of one byte named by the property -/
def forms (c : UInt8) : List Bytes :=
  let n := c.toNat
  [[c], [upperAscii c],
   [38,35] ++ [(48 + n / 100).toUInt8, (48 + n / 10 % 10).toUInt8, (48 + n % 10).toUInt8] ++ [59],
   [38,35,48,48,48] ++ [(48 + n / 100).toUInt8, (48 + n / 10 % 10).toUInt8, (48 + n % 10).toUInt8] ++ [59],
   [38,35,120, hexd (n / 16), hexd (n % 16), 59],
   [38,35,88, HEXD (n / 16), HEXD (n % 16), 59]]

/-- every single-position re-encoding of `s` (junk before, NUL/LF around the encoded byte) -/
def variants (s : Bytes) : List Bytes :=
  (List.range s.length).flatMap fun i =>
    (forms (s.getD i 0)).flatMap fun f =>
      [s.take i ++ f ++ s.drop (i + 1) ++ [120],
       [1, 32, 0x7f] ++ s.take i ++ [0] ++ f ++ [10] ++ s.drop (i + 1) ++ [120]]

set_option maxRecDepth 100000 in
theorem encoded_schemes_recognised :
    [javascript, vbscript, dataS, viewSource].all (fun s => (variants s).all (fun v => isOkTrue (isBlackURL v))) = true := by
  decide +kernel

/-- references without `;`, each followed by a byte that cannot continue it:
`j&#x61vascript:`, `&#106avascript:`, `vb&#115cript:`, `d&#X41ta:` -/
theorem unterminated_references_recognised :
    [[106,38,35,120,54,49,118,97,115,99,114,105,112,116,58], [38,35,49,48,54,97,118,97,115,99,114,105,112,116,58],
     [118,98,38,35,49,49,53,99,114,105,112,116,58], [100,38,35,88,52,49,116,97,58]].all
      (fun v => isOkTrue (isBlackURL v)) = true := by decide +kernel

def scheme_encoded_detected_statement : Prop :=
  ∀ (junk rest : Bytes), (∀ c ∈ junk, c ≤ 32 ∨ c ≥ 127) → isBlackURL (junk ++ javascript ++ rest) = .ok true

example : (variants javascript).length = 132 := by decide +kernel

end LibInj.Properties.C19
