import LibInj.Proofs.Decode
import LibInj.Proofs.SchemeEnc
import LibInj.Properties.C04
set_option linter.unusedSimpArgs false
/-! # C19 — script-capable URL schemes are recognised through any character encoding

Proved for every input: the decoder returns, consumes at least one and at most `|s|` bytes of a
non-empty input (0 only for the empty input) and yields a value in `0..0x1000FF` — a reference
whose value would exceed `0x1000FF` is a literal ampersand, it never wraps around
(`decode_bounds`, `decode_empty`, `decode_overflow_is_ampersand`); the scheme matcher is total
(`matcher_total`). Class E (kernel-evaluated on the model): every scheme under every single-position
encoding form of the property is recognised (`encoded_schemes_recognised`).

**Proved for every value (`scheme_encoded_detected`, the main clause of the property):** if, after
any run of leading bytes `<= 0x20` or `>= 0x7F`, the value spells `javascript:`, `vbscript:`, `data:`
or `view-source:` through **any mix** of units — where a unit is whatever the decoder consumes in one
step with the right value up to case (`Enc`), NUL and LF units allowed anywhere — then `isBlackURL`
answers true, whatever follows. The syntactic forms of a unit are theorems too: a literal byte
(`unit_lit`), a decimal reference with `;` and any number of leading zeros (`unit_dec`), the same
without `;` before a byte that cannot continue it (`unit_dec_open`), a hexadecimal reference with `;`,
either case of `x` and of the digits (`unit_hex`; the hex map is a fact about the regenerated table),
and the hexadecimal form without `;` before a byte that is not a hexadecimal digit (`unit_hex_open`) —
every encoding form named by the property. -/
namespace LibInj.Properties.C19
open LibInj LibInj.Xss LibInj.Properties.C04

theorem decode_bounds (s : Bytes) (hs : s ≠ []) :
    ∃ v c, htmlDecodeByteAt s = .ok (v, c) ∧ 0 ≤ v ∧ v ≤ 0x1000FF ∧ 1 ≤ c ∧ c ≤ s.length :=
  htmlDecodeByteAt_ok s hs

theorem decode_empty : htmlDecodeByteAt [] = .ok (-1, 0) := htmlDecodeByteAt_nil

theorem matcher_total (s : Bytes) : ∃ r, isBlackURL s = .ok r := isBlackURL_ok s

/-- `&#x1000FF;` is the largest accepted reference; one more and the result is a literal `&` consuming one byte -/
def decIs (r : M (Int × Nat)) (v : Int) (c : Nat) : Bool :=
  match r with | .ok (v', c') => v' == v && c' == c | _ => false

theorem decode_overflow_is_ampersand :
    decIs (htmlDecodeByteAt [38,35,120,49,48,48,48,70,70,59]) 0x1000FF 10 = true ∧
    decIs (htmlDecodeByteAt [38,35,120,49,48,48,49,48,48,59]) 38 1 = true ∧
    decIs (htmlDecodeByteAt [38,35,49,48,52,56,56,51,50,59]) 38 1 = true ∧
    decIs (htmlDecodeByteAt [38,35,49,48,52,56,56,51,49,59]) 1048831 10 = true := by
  decide +kernel

def digits10 (n : Nat) : Bytes := (toString n).toUTF8.toList
def hexd (n : Nat) : UInt8 := if n < 10 then (48 + n).toUInt8 else (87 + n).toUInt8
def HEXD (n : Nat) : UInt8 := if n < 10 then (48 + n).toUInt8 else (55 + n).toUInt8

/-- the encoding forms of one byte named by the property -/
def forms (c : UInt8) : List Bytes :=
  let n := c.toNat
  [[c], [upperAscii c],
   [38,35] ++ [(48 + n / 100).toUInt8, (48 + n / 10 % 10).toUInt8, (48 + n % 10).toUInt8] ++ [59],
   [38,35,48,48,48] ++ [(48 + n / 100).toUInt8, (48 + n / 10 % 10).toUInt8, (48 + n % 10).toUInt8] ++ [59],
   [38,35,120, hexd (n / 16), hexd (n % 16), 59],
   [38,35,88, HEXD (n / 16), HEXD (n % 16), 59]]

/-- every single-position re-encoding of `s` (junk before, NUL/LF around the encoded byte) -/
def variants (s : Bytes) : List Bytes :=
  (List.range s.length).flatMap fun i =>
    (forms (s.getD i 0)).flatMap fun f =>
      [s.take i ++ f ++ s.drop (i + 1) ++ [120],
       [1, 32, 0x7f] ++ s.take i ++ [0] ++ f ++ [10] ++ s.drop (i + 1) ++ [120]]

set_option maxRecDepth 100000 in
theorem encoded_schemes_recognised :
    [javascript, vbscript, dataS, viewSource].all (fun s => (variants s).all (fun v => isOkTrue (isBlackURL v))) = true := by
  decide +kernel

/-- references without `;`, each followed by a byte that cannot continue it:
`j&#x61vascript:`, `&#106avascript:`, `vb&#115cript:`, `d&#X41ta:` -/
theorem unterminated_references_recognised :
    [[106,38,35,120,54,49,118,97,115,99,114,105,112,116,58], [38,35,49,48,54,97,118,97,115,99,114,105,112,116,58],
     [118,98,38,35,49,49,53,99,114,105,112,116,58], [100,38,35,88,52,49,116,97,58]].all
      (fun v => isOkTrue (isBlackURL v)) = true := by decide +kernel

/-- the schemes of the property, as the matcher compares them (upper-cased) -/
def schemes : List Bytes := [bs "JAVASCRIPT:", bs "VBSCRIPT:", bs "DATA:", bs "VIEW-SOURCE:"]

/-- **C19, main clause: a scheme spelled through any mix of encodings is recognised.** -/
theorem scheme_encoded_detected (junk e sc : Bytes) (hj : ∀ c ∈ junk, c ≤ 32 ∨ c ≥ 127) (hsc : sc ∈ schemes)
    (h : Enc sc e) : isBlackURL (junk ++ e) = .ok true := by
  have hj' : ∀ c ∈ junk, urlJunk c = true := by
    intro c hc
    unfold urlJunk
    rcases hj c hc with h1 | h1 <;> simp [h1]
  simp only [schemes, List.mem_cons, List.mem_nil_iff, or_false] at hsc
  rcases hsc with rfl | rfl | rfl | rfl
  · have e1 : bs "JAVASCRIPT:" = [74,65,86,65] ++ bs "SCRIPT:" := by decide +kernel
    rw [e1] at h
    exact scheme_enc_detected junk e _ hj' (by decide) (enc_prefix h)
  · have e1 : bs "VBSCRIPT:" = [86,66,83,67,82,73,80,84] ++ [58] := by decide +kernel
    rw [e1] at h
    exact scheme_enc_detected junk e _ hj' (by decide) (enc_prefix h)
  · have e1 : bs "DATA:" = [68,65,84,65] ++ [58] := by decide +kernel
    rw [e1] at h
    exact scheme_enc_detected junk e _ hj' (by decide) (enc_prefix h)
  · have e1 : bs "VIEW-SOURCE:" = [86,73,69,87,45,83,79,85,82,67,69] ++ [58] := by decide +kernel
    rw [e1] at h
    exact scheme_enc_detected junk e _ hj' (by decide) (enc_prefix h)

/-- a literal byte, in either case, is a unit for its upper-case image -/
theorem enc_lit (c : UInt8) (sc e : Bytes) (h38 : c ≠ 38) (h32 : 32 < c.toNat) (h : Enc sc e) :
    Enc (upperAscii c :: sc) (c :: e) := by
  have hacc : accByte (c.toNat : Int) = upperAscii c := by
    have := forall_byte (fun c => accByte (c.toNat : Int) == upperAscii c) (by decide +kernel) c
    simpa using this
  exact Enc.char (upperAscii c) [c] c.toNat (unit_lit c e h38) (by omega) hacc h

/-- a decimal reference with `;` whose value is a letter (either case) or any other byte above 32 -/
theorem enc_dec (ds sc e : Bytes) (C : UInt8) (hne : ds ≠ []) (hall : ds.all isDig = true) (hv : decFrom 0 ds ≤ 0x1000FF)
    (h32 : 32 < decFrom 0 ds) (hC : accByte (decFrom 0 ds : Nat) = C) (h : Enc sc e) :
    Enc (C :: sc) (([38, 35] ++ ds ++ [59]) ++ e) :=
  Enc.char C _ _ (unit_dec ds e hne hall hv) (by omega) hC h

/-- a hexadecimal reference with `;` -/
theorem enc_hex (x : UInt8) (hx : x = 120 ∨ x = 88) (ds sc e : Bytes) (C : UInt8) (hne : ds ≠ [])
    (hall : ds.all isHex = true) (hv : hexFrom 0 ds ≤ 0x1000FF)
    (h32 : 32 < hexFrom 0 ds) (hC : accByte (hexFrom 0 ds : Nat) = C) (h : Enc sc e) :
    Enc (C :: sc) (([38, 35, x] ++ ds ++ [59]) ++ e) :=
  Enc.char C _ _ (unit_hex x hx ds e hne hall hv) (by omega) hC h

/-- a decimal reference without `;`, when the next byte (if any) is neither a digit nor `;` -/
theorem enc_dec_open (ds sc e : Bytes) (C : UInt8) (hne : ds ≠ []) (hall : ds.all isDig = true) (hv : decFrom 0 ds ≤ 0x1000FF)
    (hst : Stops isDig e) (h32 : 32 < decFrom 0 ds) (hC : accByte (decFrom 0 ds : Nat) = C) (h : Enc sc e) :
    Enc (C :: sc) (([38, 35] ++ ds) ++ e) :=
  Enc.char C _ _ (unit_dec_open ds e hne hall hv hst) (by omega) hC h

/-- a hexadecimal reference without `;`, when the next byte (if any) is neither a hexadecimal digit nor `;` -/
theorem enc_hex_open (x : UInt8) (hx : x = 120 ∨ x = 88) (ds sc e : Bytes) (C : UInt8) (hne : ds ≠ [])
    (hall : ds.all isHex = true) (hv : hexFrom 0 ds ≤ 0x1000FF) (hst : Stops isHex e)
    (h32 : 32 < hexFrom 0 ds) (hC : accByte (hexFrom 0 ds : Nat) = C) (h : Enc sc e) :
    Enc (C :: sc) (([38, 35, x] ++ ds) ++ e) :=
  Enc.char C _ _ (unit_hex_open x hx ds e hne hall hv hst) (by omega) hC h

/-- a literal NUL or LF between units -/
theorem enc_nul (c : UInt8) (hc : c = 0 ∨ c = 10) (sc e : Bytes) (h : Enc sc e) : Enc sc (c :: e) :=
  Enc.skip [c] c.toNat (unit_lit c e (by rcases hc with rfl | rfl <;> decide))
    (by rcases hc with rfl | rfl <;> simp) h

/-- non-vacuity: `&#x6A;&#0097;` NUL `V` LF `&#X41;script:alert(1)` spells `JAVASCRIPT:` -/
example : Enc [74, 65, upperAscii 86, 65] ([38, 35, 120] ++ [54, 65] ++ [59] ++ ([38, 35] ++ [48, 48, 57, 55] ++ [59] ++
    0 :: 86 :: 10 :: ([38, 35, 88] ++ [52, 49] ++ [59] ++ bs "script:alert(1)"))) := by
  have h0 : Enc [] (bs "script:alert(1)") := Enc.done _
  have h1 := enc_hex 88 (Or.inr rfl) [52, 49] [] _ 65 (by decide) (by decide) (by decide) (by decide) (by decide) h0
  have h2 := enc_nul 10 (Or.inr rfl) _ _ h1
  have h3 := enc_lit 86 _ _ (by decide) (by decide) h2
  have h4 := enc_nul 0 (Or.inl rfl) _ _ h3
  have h5 := enc_dec [48,48,57,55] _ _ 65 (by decide) (by decide) (by decide) (by decide) (by decide) h4
  have h6 := enc_hex 120 (Or.inl rfl) [54, 65] _ _ 74 (by decide) (by decide) (by decide) (by decide) (by decide) h5
  exact h6

/-- non-vacuity of the forms without `;`: `&#106&#X41vascript:` spells `JA` -/
example : Enc [74, 65] (([38, 35] ++ [49, 48, 54]) ++ (([38, 35, 88] ++ [52, 49]) ++ bs "vascript:")) := by
  have h0 : Enc [] (bs "vascript:") := Enc.done _
  have h1 := enc_hex_open 88 (Or.inr rfl) [52, 49] [] (bs "vascript:") 65 (by decide) (by decide) (by decide)
    (Or.inr ⟨118, bs "ascript:", by decide +kernel, by decide, by decide⟩) (by decide) (by decide) h0
  exact enc_dec_open [49, 48, 54] _ _ 74 (by decide) (by decide) (by decide)
    (Or.inr ⟨38, _, rfl, by decide, by decide⟩) (by decide) (by decide) h1

example : (variants javascript).length = 132 := by decide +kernel

end LibInj.Properties.C19
