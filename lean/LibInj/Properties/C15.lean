import LibInj.Proofs.NoLtEq
set_option linter.unusedSimpArgs false
set_option linter.unusedVariables false
/-! # C15 — text without `<` and without `=` is never reported as XSS

`no_lt_eq_not_xss`: for **every** byte string that contains neither `<` nor `=`, `IsXSS` is false —
in each of the five contexts and for the disjunction. No bound on the input.

Proof: without `<` the data state emits one text token and stops; from the four attribute starts the
only reachable states are {before/after attribute name, self-closing, tag-name-close, data, eof,
after-quoted-value} and the only token types {attribute name, tag closers, text} plus the initial
attribute value of a quoted context, which is judged with no pending attribute; the state entered on
`=` (before-attribute-value) is unreachable. None of those token types can make the XSS loop return
true (`NoLtEq.next_shape`), and the loop terminates by the progress measure of C02. -/
namespace LibInj.Properties.C15
open LibInj LibInj.H5 LibInj.Xss

theorem xssLoop_safe (fuel : Nat) : ∀ (h : H) (attr : Nat), Inv h → NoLtEq h.s → SafeSt h.state → mu h < fuel →
    xssLoop h attr fuel = .ok false := by
  induction fuel with
  | zero => intro h _ _ _ _ hf; omega
  | succ fuel ih =>
    intro h attr hi hs hst hf
    obtain ⟨b, h', hr, hss, hb⟩ := next_spec h hi
    have hshape := next_shape h hs hst b h' hr
    unfold xssLoop
    simp only [hr, bind, Except.bind, pure, Except.pure]
    cases b with
    | false => simp
    | true =>
      obtain ⟨hmu, hinv, htok, _⟩ := hb rfl
      obtain ⟨hty, hst'⟩ := hshape rfl
      have hrec : ∀ a, xssLoop h' a fuel = .ok false := fun a => ih h' a hinv (hss ▸ hs) hst' (by omega)
      have htok' : h'.tokStart + h'.tokLen ≤ h'.s.length := by rw [hss]; exact htok
      have esl := Xss.slice_ok h'.s h'.tokStart (h'.tokStart + h'.tokLen) (by omega) htok'
      simp only [Bool.not_true, Bool.false_eq_true, ↓reduceIte]
      rcases hty with hty | hty | hty | hty <;> simp only [hty, esl] <;> exact hrec _

theorem ctx_safe (s : Bytes) (hs : NoLtEq s) (ctx : Nat) (hctx : ctx = 0 ∨ ctx = 1) : isXSSCtx s ctx = .ok false := by
  unfold isXSSCtx
  have hi := init_inv s ctx
  have hss : (init s ctx).s = s := by unfold init; rfl
  have hp : (init s ctx).pos = 0 := by unfold init; rfl
  have hst : SafeSt (init s ctx).state := by
    rcases hctx with rfl | rfl
    · exact Or.inr (Or.inr (Or.inr (Or.inr (Or.inl rfl))))
    · exact Or.inl rfl
  apply xssLoop_safe _ _ _ hi (hss ▸ hs) hst
  unfold mu xssFuel; rw [hss, hp]; have := rank_le (init s ctx).state; omega

/-- the quoted-value contexts: the initial attribute value is judged with no pending attribute -/
theorem ctx_quoted_safe (s : Bytes) (hs : NoLtEq s) (ctx : Nat) (hctx : 2 ≤ ctx) : isXSSCtx s ctx = .ok false := by
  unfold isXSSCtx
  have hi := init_inv s ctx
  have hss : (init s ctx).s = s := by unfold init; rfl
  have hp : (init s ctx).pos = 0 := by unfold init; rfl
  obtain ⟨b, h', hr, hs', hb⟩ := next_spec (init s ctx) hi
  -- shape of the first step: an attribute value, then a safe state
  have first : b = true → h'.tokType = .attrValue ∧ SafeSt h'.state := by
    intro hbt
    have hstate : (init s ctx).state = .valSingle ∨ (init s ctx).state = .valDouble ∨ (init s ctx).state = .valBack := by
      unfold init
      match ctx, hctx with
      | 2, _ => exact Or.inl rfl
      | 3, _ => exact Or.inr (Or.inl rfl)
      | n + 4, _ => exact Or.inr (Or.inr rfl)
    have key : ∀ q, stateAttributeValueQuote q (init s ctx) = .ok (b, h') → h'.tokType = .attrValue ∧ SafeSt h'.state := by
      intro q hq
      unfold stateAttributeValueQuote at hq
      simp only [hp, Nat.lt_irrefl, ↓reduceIte, offFrom_ok (Nat.zero_le _), bind, Except.bind, pure, Except.pure] at hq
      split at hq
      · simp only [Except.ok.injEq, Prod.mk.injEq] at hq
        obtain ⟨_, rfl⟩ := hq
        exact ⟨rfl, by simp [SafeSt]⟩
      · simp only [Except.ok.injEq, Prod.mk.injEq] at hq
        obtain ⟨_, rfl⟩ := hq
        exact ⟨rfl, by simp [SafeSt, emit]⟩
    unfold next at hr
    rcases hstate with h1 | h1 | h1 <;> rw [h1] at hr <;> exact key _ hr
  unfold xssFuel
  have hfuel : 3 * s.length + 4 = (3 * s.length + 3) + 1 := by omega
  rw [hfuel]
  unfold xssLoop
  simp only [hr, bind, Except.bind, pure, Except.pure]
  cases b with
  | false => simp
  | true =>
    obtain ⟨hmu, hinv, htok, _⟩ := hb rfl
    obtain ⟨hty, hst'⟩ := first rfl
    have hmu0 : mu (init s ctx) ≤ 3 * s.length + 3 := by
      unfold mu; rw [hss, hp]; have := rank_le (init s ctx).state; omega
    have hrec : ∀ a, xssLoop h' a (3 * s.length + 3) = .ok false :=
      fun a => xssLoop_safe _ h' a hinv (by rw [hs', hss]; exact hs) hst' (by omega)
    simp only [hty, Bool.not_true, Bool.false_eq_true, ↓reduceIte, bne_self_eq_false]
    exact hrec _

/-- **C15.** An input that contains neither `<` nor `=` is never reported as XSS. -/
theorem no_lt_eq_not_xss (s : Bytes) (h1 : (60 : UInt8) ∉ s) (h2 : (61 : UInt8) ∉ s) : isXSS s = .ok false := by
  have hs : NoLtEq s := ⟨h1, h2⟩
  unfold isXSS
  simp only [ctx_safe s hs 0 (Or.inl rfl), ctx_safe s hs 1 (Or.inr rfl), ctx_quoted_safe s hs 2 (by omega),
    ctx_quoted_safe s hs 3 (by omega), ctx_quoted_safe s hs 4 (by omega), bind, Except.bind, pure, Except.pure,
    Bool.false_eq_true, ↓reduceIte]

theorem no_lt_eq_no_context (s : Bytes) (h1 : (60 : UInt8) ∉ s) (h2 : (61 : UInt8) ∉ s) (ctx : Nat) :
    isXSSCtx s ctx = .ok false := by
  have hs : NoLtEq s := ⟨h1, h2⟩
  rcases Nat.lt_or_ge ctx 2 with h | h
  · exact ctx_safe s hs ctx (by omega)
  · exact ctx_quoted_safe s hs ctx h

/-- non-vacuity: `' onclick javascript:alert(1)>` has quotes, an event name, a scheme and `>`, but no `<`/`=` -/
example : (60 : UInt8) ∉ [39, 32, 111, 110, 99, 108, 105, 99, 107, 32, 106, 97, 118, 97, 58, 62] ∧
    (61 : UInt8) ∉ [39, 32, 111, 110, 99, 108, 105, 99, 107, 32, 106, 97, 118, 97, 58, 62] := by decide

end LibInj.Properties.C15
