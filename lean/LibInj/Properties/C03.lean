import LibInj.Proofs.Tables
import LibInj.Spec.GrammarFps
import LibInj.Sqli.Check
import LibInj.Proofs.GrammarEval
/-! # C03 — canonical SQL injection families are detected in every quoting context

The grammar `L` (skeletons × context prefixes × separators × case assignments × tails) is data of
the specification (`harness/oracle_sql.go: c03Skeletons, c03Prefixes, c03Seps, c03Tails`); the 95
fingerprints its exhaustive part produces are committed in `Spec/GrammarFps.lean`.

Proved (class E, against the table regenerated from /repo on every build): every one of those
fingerprints is a blacklist entry (`grammar_fingerprints_blacklisted`) — a deleted or retyped
fingerprint breaks this theorem without an input having to hit it — and a few members of the grammar
are evaluated end to end on the model by the kernel (`grammar_samples_detected`).

**Proved for the enumerated grammar in every letter case (`grammar_detected_any_case`):** for each of
the 51 skeletons × 6 context prefixes, with every one of the 12 tails (words separated by one space) and
with every one of the 13 separators (no tail) — 7 650 lower-case members, each evaluated end to end on
the model by the kernel (`Proofs/GrammarEval`, 51 modules; plus 5 parenthesis-closing skeletons × 6 prefixes × 25 and
the 74-entry comment-truncation table, `paren_and_truncation_detected`) — *every* re-assignment of ASCII letter case
of the member is reported as SQLi. The case dimension is closed universally by C10 (`isSQLi` commutes
with lower-casing outside the exempt positions, and the kernel checks that no member has one), not by
enumeration. The grammar lists live in `Spec/SqliGrammar.lean` and are compared with the harness's
lists on every run.

Not yet a theorem (`sqli_grammar_detected_statement`): arbitrary *runs* of SQL whitespace bytes and
inline comments as separators, and tail × separator combinations beyond the enumerated ones. Those
are enumerated exhaustively to the bound (and sampled beyond) on the implementation and compared with
the model on the same inputs. -/
namespace LibInj.Properties.C03
open LibInj LibInj.Tables LibInj.Sqli

set_option maxRecDepth 100000 in
/-- every fingerprint the grammar produces is a key of the regenerated table with class `F` -/
theorem grammar_fingerprints_blacklisted_merge : subMerge Spec.grammarFingerprints Gen.keywords = true := by
  decide +kernel

theorem grammar_fingerprints_blacklisted :
    ∀ e ∈ Spec.grammarFingerprints, lookupKw e.1 e.2.1 = some 70 ∧ e.2.2 = 70 := by
  intro e he
  have hm := subMerge_sound _ _ grammar_fingerprints_blacklisted_merge e he
  have hv : e.2.2 = 70 := by
    have : Spec.grammarFingerprints.all (fun e => Nat.beq e.2.2 70) = true := by decide +kernel
    exact Nat.eq_of_beq_eq_true (List.all_eq_true.mp this e he)
  refine ⟨?_, hv⟩
  have := lookupIn_of_mem _ keywords_strictSorted e.1 e.2.1 e.2.2 hm
  rw [hv] at this; exact this

def isTrue1 : M (Bool × Bytes) → Bool | .ok (true, _) => true | _ => false

/-- `1 or 1=1`, `x' OR 'a'='a`, `1 union select 1 --`, `1;drop table t`, `1 AnD sleep(5)#` with VT/NUL separators -/
def samples : List Bytes :=
  [[49,32,111,114,32,49,61,49], [120,39,32,79,82,32,39,97,39,61,39,97],
   [49,32,117,110,105,111,110,32,115,101,108,101,99,116,32,49,32,45,45],
   [49,59,100,114,111,112,32,116,97,98,108,101,32,116],
   [49,11,65,110,68,0,115,108,101,101,112,40,53,41,35]]

set_option maxRecDepth 100000 in
theorem grammar_samples_detected : samples.all (fun s => isTrue1 (isSQLi s)) = true := by decide +kernel

open Spec.SqliGrammar in
/-- the enumerated grammar, any letter case -/
def grammar_detected_any_case_statement : Prop :=
  ∀ sk ∈ skeletons, ∀ p ∈ prefixes,
    (∀ t ∈ tails, ∀ s', CaseEq (render p sk [32] t) s' → ∃ fp, isSQLi s' = .ok (true, fp)) ∧
    (∀ sp ∈ seps, ∀ s', CaseEq (render p sk sp []) s' → ∃ fp, isSQLi s' = .ok (true, fp))

open Spec.SqliGrammar in
/-- **C03 on the enumerated grammar, universally in the case dimension.** -/
theorem grammar_detected_any_case : grammar_detected_any_case_statement := by
  intro sk hsk p hp
  obtain ⟨k, hk, hget⟩ := List.mem_iff_getElem.mp hsk
  have hk' : k < 51 := by rw [← skeletons_length]; exact hk
  have hskel : skel k = sk := by
    unfold skel
    rw [List.getElem?_eq_getElem hk, hget]; rfl
  have hall := all_skeletons_ok k hk'
  rw [hskel, List.all_eq_true] at hall
  constructor
  · intro t ht s' hc
    refine memberOK_any_case _ s' (hall _ ?_) hc
    unfold membersOf membersTails
    exact List.mem_append_left _ (List.mem_flatMap.mpr ⟨p, hp, List.mem_map.mpr ⟨t, ht, rfl⟩⟩)
  · intro sp hsp s' hc
    refine memberOK_any_case _ s' (hall _ ?_) hc
    unfold membersOf membersSeps
    exact List.mem_append_right _ (List.mem_flatMap.mpr ⟨p, hp, List.mem_map.mpr ⟨sp, hsp, rfl⟩⟩)

open Spec.SqliGrammar in
/-- the parenthesis-closing skeletons (`1) or (1=1` …) and the comment-truncation table, any letter case -/
def paren_and_truncation_statement : Prop :=
  (∀ sk ∈ parenSkeletons, ∀ p ∈ parenPrefixes,
    (∀ t ∈ tails, ∀ s', CaseEq (render p sk [32] t) s' → ∃ fp, isSQLi s' = .ok (true, fp)) ∧
    (∀ sp ∈ seps, ∀ s', CaseEq (render p sk sp []) s' → ∃ fp, isSQLi s' = .ok (true, fp))) ∧
  (∀ a ∈ truncations, ∀ s', CaseEq a s' → ∃ fp, isSQLi s' = .ok (true, fp))

open Spec.SqliGrammar in
theorem paren_and_truncation_detected : paren_and_truncation_statement := by
  constructor
  · intro sk hsk p hp
    obtain ⟨k, hk, hget⟩ := List.mem_iff_getElem.mp hsk
    have hk' : k < 5 := by rw [← paren_skeletons_length]; exact hk
    have hskel : pskel k = sk := by
      unfold pskel
      rw [List.getElem?_eq_getElem hk, hget]; rfl
    have hall := all_paren_skeletons_ok k hk'
    rw [hskel, List.all_eq_true] at hall
    constructor
    · intro t ht s' hc
      refine memberOK_any_case _ s' (hall _ ?_) hc
      unfold membersOfParen
      exact List.mem_append_left _ (List.mem_flatMap.mpr ⟨p, hp, List.mem_map.mpr ⟨t, ht, rfl⟩⟩)
    · intro sp hsp s' hc
      refine memberOK_any_case _ s' (hall _ ?_) hc
      unfold membersOfParen
      exact List.mem_append_right _ (List.mem_flatMap.mpr ⟨p, hp, List.mem_map.mpr ⟨sp, hsp, rfl⟩⟩)
  · intro a ha s' hc
    exact memberOK_any_case a s' (List.all_eq_true.mp truncations_ok a ha) hc

/-- non-vacuity: `1) UnIoN/**/SeLeCt/**/1,2,3` is a case variant of a member -/
example : ∃ fp, isSQLi [49,41,32,85,110,73,111,78,47,42,42,47,83,101,76,101,67,116,47,42,42,47,49,44,50,44,51] = .ok (true, fp) := by
  refine (grammar_detected_any_case [[117,110,105,111,110],[115,101,108,101,99,116],[49,44,50,44,51]] (by decide)
    [49,41,32] (by decide)).2 [47,42,42,47] (by decide) _ ?_
  show List.map lowerAscii _ = List.map lowerAscii _
  decide

def sqli_grammar_detected_statement : Prop :=
  ∀ (ws1 ws2 ws3 : Bytes), ws1 ≠ [] → ws2 ≠ [] → (∀ c ∈ ws1 ++ ws2 ++ ws3, isWhite c = true) →
    ∃ fp, isSQLi ([49] ++ ws1 ++ [111, 114] ++ ws2 ++ [49] ++ ws3 ++ [61, 49]) = .ok (true, fp)

example : Spec.grammarFingerprints.length = 95 := by decide

end LibInj.Properties.C03
