import LibInj.Proofs.Tables
import LibInj.Spec.GrammarFps
import LibInj.Sqli.Check
/-! # C03 — canonical SQL injection families are detected in every quoting context

The grammar `L` (skeletons × context prefixes × separators × case assignments × tails) is data of
the specification (`harness/oracle_sql.go: c03Skeletons, c03Prefixes, c03Seps, c03Tails`); the 95
fingerprints its exhaustive part produces are committed in `Spec/GrammarFps.lean`.

Proved (class E, against the table regenerated from /repo on every build): every one of those
fingerprints is a blacklist entry (`grammar_fingerprints_blacklisted`) — a deleted or retyped
fingerprint breaks this theorem without an input having to hit it — and a few members of the grammar
are evaluated end to end on the model by the kernel (`grammar_samples_detected`).

Not yet a theorem (`sqli_grammar_detected_statement`): that every rendering of a skeleton (any run of
SQL whitespace bytes or `/**/` as separator, any case) tokenizes and folds to one of those
fingerprints. The grammar is enumerated exhaustively to its bound on the implementation and
compared with the model on the same inputs. -/
namespace LibInj.Properties.C03
open LibInj LibInj.Tables LibInj.Sqli

set_option maxRecDepth 100000 in
/-- every fingerprint the grammar produces is a key of the regenerated table with class `F` -/
theorem grammar_fingerprints_blacklisted_merge : subMerge Spec.grammarFingerprints Gen.keywords = true := by
  decide +kernel

theorem grammar_fingerprints_blacklisted :
    ∀ e ∈ Spec.grammarFingerprints, lookupKw e.1 e.2.1 = some 70 ∧ e.2.2 = 70 := by
  intro e he
  have hm := subMerge_sound _ _ grammar_fingerprints_blacklisted_merge e he
  have hv : e.2.2 = 70 := by
    have : Spec.grammarFingerprints.all (fun e => Nat.beq e.2.2 70) = true := by decide +kernel
    exact Nat.eq_of_beq_eq_true (List.all_eq_true.mp this e he)
  refine ⟨?_, hv⟩
  have := lookupIn_of_mem _ keywords_strictSorted e.1 e.2.1 e.2.2 hm
  rw [hv] at this; exact this

def isTrue1 : M (Bool × Bytes) → Bool | .ok (true, _) => true | _ => false

/-- `1 or 1=1`, `x' OR 'a'='a`, `1 union select 1 --`, `1;drop table t`, `1 AnD sleep(5)#` with VT/NUL separators -/
def samples : List Bytes :=
  [[49,32,111,114,32,49,61,49], [120,39,32,79,82,32,39,97,39,61,39,97],
   [49,32,117,110,105,111,110,32,115,101,108,101,99,116,32,49,32,45,45],
   [49,59,100,114,111,112,32,116,97,98,108,101,32,116],
   [49,11,65,110,68,0,115,108,101,101,112,40,53,41,35]]

set_option maxRecDepth 100000 in
theorem grammar_samples_detected : samples.all (fun s => isTrue1 (isSQLi s)) = true := by decide +kernel

def sqli_grammar_detected_statement : Prop :=
  ∀ (ws1 ws2 ws3 : Bytes), ws1 ≠ [] → ws2 ≠ [] → (∀ c ∈ ws1 ++ ws2 ++ ws3, isWhite c = true) →
    ∃ fp, isSQLi ([49] ++ ws1 ++ [111, 114] ++ ws2 ++ [49] ++ ws3 ++ [61, 49]) = .ok (true, fp)

example : Spec.grammarFingerprints.length = 95 := by decide

end LibInj.Properties.C03
