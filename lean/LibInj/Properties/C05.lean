import LibInj.Gen.Audit
import LibInj.Sqli.Check
import LibInj.Xss.IsXSS
/-! # C05 — both detectors are thread-safe and pure

What a Lean model can carry, and what it cannot:

* `audit_clean` (class E, regenerated from /repo's *source text* on every run by `vharness audit`):
  no function body writes, increments, appends to, deletes from, takes the address of, ranges into,
  or calls a pointer method on a package-level variable; there is no `go` statement, no `init`
  function, and no import of `sync`, `sync/atomic`, `unsafe`, `os`, `time`, `math/rand`, `runtime`, ….
  This is the side condition of the meta-theorem below for *this* package.
* `noninterference`: for any family of calls whose steps read a shared store and write only their
  own local state, every interleaving gives each call the state it reaches when run alone
  (induction over the schedule).
* `isSQLi_deterministic`, `isXSS_deterministic`: in the model the result is a function of the input.

Not exhibitable by a model: data races at the level of the Go memory model, scheduler effects. For
those the check runs the harness under `-race` with 32 goroutines over shared inputs, and history
mode (random call sequences, each answer compared with the model's fresh-state answer). -/
namespace LibInj.Properties.C05
open LibInj

/-- **C05, static side condition** — re-checked against the regenerated audit on every build. -/
theorem audit_clean :
    Gen.Audit.ok = true ∧ Gen.Audit.globalWrites = [] ∧ Gen.Audit.goStmts = 0 ∧
    Gen.Audit.initFuncs = 0 ∧ Gen.Audit.impureImports = [] := by decide

/-! ## Abstract non-interference -/

section NI
variable {G L : Type}

/-- one scheduling step: call `i` takes one step, reading the shared store `g`, writing only its own local -/
def stepAt (step : G → L → L) (g : G) (ls : List L) (i : Nat) : List L :=
  match ls[i]? with
  | some l => ls.set i (step g l)
  | none => ls

/-- run a schedule (a list of call indices) -/
def runSched (step : G → L → L) (g : G) (ls : List L) (sched : List Nat) : List L :=
  sched.foldl (stepAt step g) ls

/-- run one call alone for `n` steps -/
def runAlone (step : G → L → L) (g : G) (l : L) : Nat → L
  | 0 => l
  | n + 1 => runAlone step g (step g l) n

theorem stepAt_length (step : G → L → L) (g : G) (ls : List L) (i : Nat) :
    (stepAt step g ls i).length = ls.length := by
  unfold stepAt; split <;> simp

theorem stepAt_get (step : G → L → L) (g : G) (ls : List L) (i j : Nat) :
    (stepAt step g ls i)[j]? = if i = j then (ls[j]?).map (step g) else ls[j]? := by
  unfold stepAt
  by_cases hij : i = j
  · subst hij
    cases h : ls[i]? with
    | none => simp [h]
    | some l =>
      have hlt : i < ls.length := by
        rcases Nat.lt_or_ge i ls.length with h' | h'
        · exact h'
        · simp [List.getElem?_eq_none h'] at h
      simp [h, List.getElem?_set, hlt]
  · cases h : ls[i]? with
    | none => simp [h, hij]
    | some l => simp [h, hij, List.getElem?_set]

/-- **Non-interference.** After any schedule, call `j` holds exactly the state it reaches when run
alone for as many steps as the schedule gave it: what the other calls did is invisible to it. -/
theorem noninterference (step : G → L → L) (g : G) (sched : List Nat) :
    ∀ (ls : List L) (j : Nat), (runSched step g ls sched)[j]? =
      (ls[j]?).map (fun l => runAlone step g l (sched.count j)) := by
  induction sched with
  | nil => intro ls j; simp [runSched, runAlone]
  | cons i rest ih =>
    intro ls j
    have : runSched step g ls (i :: rest) = runSched step g (stepAt step g ls i) rest := rfl
    rw [this, ih, stepAt_get]
    by_cases hij : i = j
    · subst hij
      cases h : ls[i]? with
      | none => simp [h]
      | some l => simp [h, List.count_cons_self, runAlone]
    · have : (i == j) = false := by simpa using hij
      simp [hij, List.count_cons, this]

end NI

/-- in the model a verdict is a function of the input alone -/
theorem isSQLi_deterministic (s t : Bytes) (h : s = t) : Sqli.isSQLi s = Sqli.isSQLi t := by rw [h]
theorem isXSS_deterministic (s t : Bytes) (h : s = t) : Xss.isXSS s = Xss.isXSS t := by rw [h]

/-- non-vacuity: two calls, interleaved, each reaches what it reaches alone -/
example : runSched (fun (g : Nat) (l : Nat) => l + g) 3 [10, 20] [0, 1, 0] = [16, 23] := by decide

end LibInj.Properties.C05
