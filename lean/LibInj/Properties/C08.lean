import LibInj.Proofs.Tables
import LibInj.Proofs.WhitelistOK
import LibInj.Properties.C12
import LibInj.Properties.C01
set_option linter.unusedSimpArgs false
/-! # C08 — verdict and fingerprint returned by IsSQLi are mutually consistent

**Proved for every input (`verdict_fp_consistent`, the full statement):** a false verdict comes with
the empty fingerprint; a true verdict comes with a fingerprint of 1..5 bytes, each a documented token
class character, that is blacklisted (`"0" ++ upper f` has class `F` in the regenerated table) and is
the fingerprint of the input under one of the five contexts tried.

The alphabet clause combines the invariant "every token class in the window is 0 or a class character"
(through all lexers, `fold` and `sqliFingerprint`: `fingerprint_ok`) with the table fact that every
`F` key is `0` + 1..5 upper-cased class characters (`kw_wf`, re-checked on every build): a 0 byte in
the fingerprint would put a 0 byte into the key. `blacklisted_key_shape` additionally records that the
comment class occurs only in last position of a blacklisted key. -/
namespace LibInj.Properties.C08
open LibInj LibInj.Sqli LibInj.Tables LibInj.Properties.C12

def contexts : List Nat := [asisAnsi, asisMysql, singleAnsi, singleMysql, doubleMysql]

/-- `f` is blacklisted: non-empty and `"0" ++ upper f` has the fingerprint class in the table -/
def Blacklisted (f : Bytes) : Prop := f ≠ [] ∧ searchKeyword (fpKey f) = 70

theorem pass_true (s : Bytes) (F : Nat) (f : Bytes) (r : Bool) (h : pass s F = .ok (true, f, r)) :
    Blacklisted f ∧ ∃ st, fingerprint s F = .ok st ∧ st.fingerprint = f := by
  unfold pass at h
  cases hf : fingerprint s F with
  | error e => simp [hf, bind, Except.bind] at h
  | ok st =>
    simp only [hf, bind, Except.bind] at h
    cases hc : checkFingerprint st with
    | error e => simp [hc] at h
    | ok v =>
      simp only [hc, pure, Except.pure, Except.ok.injEq, Prod.mk.injEq] at h
      obtain ⟨hv, hfp, _⟩ := h
      subst hv
      refine ⟨?_, st, rfl, hfp⟩
      unfold checkFingerprint at hc
      by_cases hb : blacklist st = true
      · unfold blacklist at hb
        split at hb
        · cases hb
        · rename_i hlen
          subst hfp
          refine ⟨?_, by simpa using hb⟩
          intro hnil
          simp [hnil] at hlen
      · simp [hb, pure, Except.pure] at hc

theorem gated_true (g : Bool) (p : M (Bool × Bytes × Bool)) (f : Bytes) (r : Bool)
    (h : gated g p = .ok (true, f, r)) : p = .ok (true, f, r) := by
  cases g with
  | true => simpa [gated] using h
  | false => simp [gated, noPass, pure, Except.pure] at h

/-- one step of the cascade: a reading either fires with its own fingerprint or hands over -/
theorem step_ok (p : M (Bool × Bytes × Bool)) (k : Bool × Bytes × Bool → M (Bool × Bytes)) (b : Bool) (f : Bytes)
    (h : (do let a ← p; if a.1 then return (true, a.2.1) else k a) = .ok (b, f)) :
    (∃ r, p = .ok (true, f, r) ∧ b = true) ∨ (∃ a, k a = .ok (b, f)) := by
  cases hp : p with
  | error e => simp [hp, bind, Except.bind] at h
  | ok a =>
    obtain ⟨a1, a2, a3⟩ := a
    simp only [hp, bind, Except.bind] at h
    cases a1 with
    | true =>
      simp only [↓reduceIte, pure, Except.pure, Except.ok.injEq, Prod.mk.injEq] at h
      refine Or.inl ⟨a3, ?_, h.1.symm⟩
      rw [← h.2]
    | false =>
      simp only [Bool.false_eq_true, ↓reduceIte] at h
      exact Or.inr ⟨_, h⟩

/-- verdict/fingerprint relation without the alphabet clause -/
theorem verdict_fp_consistent_partial (s : Bytes) (b : Bool) (f : Bytes) (h : isSQLi s = .ok (b, f)) :
    (b = false → f = []) ∧
    (b = true → Blacklisted f ∧ ∃ F ∈ contexts, ∃ st, fingerprint s F = .ok st ∧ st.fingerprint = f) := by
  have fire : ∀ F ∈ contexts, ∀ r, pass s F = .ok (true, f, r) → b = true →
      (b = false → f = []) ∧
      (b = true → Blacklisted f ∧ ∃ F ∈ contexts, ∃ st, fingerprint s F = .ok st ∧ st.fingerprint = f) := by
    intro F hF r hp hb
    have := pass_true s F f r hp
    exact ⟨fun hb' => (by rw [hb] at hb'; cases hb'), fun _ => ⟨this.1, F, hF, this.2⟩⟩
  unfold isSQLi at h
  by_cases hlen : (s.length == 0) = true
  · simp [hlen, pure, Except.pure] at h
    obtain ⟨rfl, rfl⟩ := h
    simp
  · simp only [hlen, Bool.false_eq_true, ↓reduceIte] at h
    rcases step_ok _ _ b f h with ⟨r, hp, hb⟩ | ⟨_, h⟩
    · exact fire asisAnsi (by simp [contexts]) r hp hb
    rcases step_ok _ _ b f h with ⟨r, hp, hb⟩ | ⟨_, h⟩
    · exact fire asisMysql (by simp [contexts]) r (gated_true _ _ _ _ hp) hb
    rcases step_ok _ _ b f h with ⟨r, hp, hb⟩ | ⟨_, h⟩
    · exact fire singleAnsi (by simp [contexts]) r (gated_true _ _ _ _ hp) hb
    rcases step_ok _ _ b f h with ⟨r, hp, hb⟩ | ⟨_, h⟩
    · exact fire singleMysql (by simp [contexts]) r (gated_true _ _ _ _ hp) hb
    rcases step_ok _ _ b f h with ⟨r, hp, hb⟩ | ⟨_, h⟩
    · exact fire doubleMysql (by simp [contexts]) r (gated_true _ _ _ _ hp) hb
    simp only [pure, Except.pure, Except.ok.injEq, Prod.mk.injEq] at h
    obtain ⟨rfl, rfl⟩ := h
    simp

set_option maxRecDepth 200000 in
theorem kw_wf : Gen.keywords.all kwOK = true := by decide +kernel

set_option maxRecDepth 200000 in
theorem kw_comment : Gen.keywords.all commentOnlyLast = true := by decide +kernel

/-- table fact: a key with class `F` is `0` followed by 1..5 upper-cased class characters, the
comment class only in last position (`kwOK`, `commentOnlyLast` of C20, restated for the matched key) -/
theorem blacklisted_key_shape (l n : Nat) (h : lookupKw l n = some 70) :
    2 ≤ l ∧ l ≤ 6 ∧ fpBytes (l - 1) n = true ∧ noByte 67 (l - 1) (n / 256) = true := by
  have hm := lookupIn_some_mem _ _ _ _ h
  have h1 := List.all_eq_true.mp LibInj.Properties.C08.kw_wf _ hm
  have h2 := List.all_eq_true.mp LibInj.Properties.C08.kw_comment _ hm
  simp only [kwOK, Bool.and_eq_true, Bool.or_eq_true, Bool.not_eq_true', Nat.ble_eq] at h1
  simp only [commentOnlyLast, Bool.or_eq_true, Bool.not_eq_true'] at h2
  have e70 : Nat.beq 70 70 = true := rfl
  obtain ⟨⟨_, hfp⟩, _⟩ := h1
  rcases hfp with hfp | hfp
  · simp [e70] at hfp
  · rcases h2 with h2 | h2
    · simp [e70] at h2
    · exact ⟨hfp.1.1, hfp.1.2, hfp.2, h2⟩

theorem keyNat_snoc (w : Bytes) (c : UInt8) : keyNat (w ++ [c]) = keyNat w * 256 + c.toNat := by
  simp [keyNat, List.foldl_append]

theorem fpBytes_keyNat_rev : ∀ (r : Bytes), fpBytes r.length (keyNat (48 :: r.reverse)) = true →
    ∀ u ∈ r, isClassUpper u.toNat = true
  | [], _, u, hu => by cases hu
  | c :: r', h, u, hu => by
    have hc : c.toNat < 256 := c.toNat_lt
    have e : (48 : UInt8) :: (c :: r').reverse = (48 :: r'.reverse) ++ [c] := by simp
    rw [e, keyNat_snoc] at h
    simp only [List.length_cons, fpBytes, Bool.and_eq_true] at h
    have e1 : (keyNat (48 :: r'.reverse) * 256 + c.toNat) % 256 = c.toNat := by omega
    have e2 : (keyNat (48 :: r'.reverse) * 256 + c.toNat) / 256 = keyNat (48 :: r'.reverse) := by omega
    rw [e1, e2] at h
    rcases List.mem_cons.mp hu with rfl | hu
    · exact h.1
    · exact fpBytes_keyNat_rev r' h.2 u hu

theorem fpBytes_keyNat (us : Bytes) (h : fpBytes us.length (keyNat (48 :: us)) = true) :
    ∀ u ∈ us, isClassUpper u.toNat = true := by
  have := fpBytes_keyNat_rev us.reverse (by simpa using h)
  intro u hu
  exact this u (by simpa using hu)

/-- a class byte (or 0) whose upper-case image is an upper-cased class character is a class byte -/
theorem class_of_upper (c : UInt8) (h : c = 0 ∨ isClassU8 c = true) (hu : isClassUpper (upperAscii c).toNat = true) :
    isClassU8 c = true := by
  have := forall_byte (fun c => !((c == 0 || isClassU8 c) && isClassUpper (upperAscii c).toNat) || isClassU8 c)
    (by decide +kernel) c
  have hc : (c == 0 || isClassU8 c) = true := by
    rcases h with h | h <;> simp [h]
  simpa [hc, hu] using this

/-- **a blacklisted fingerprint over class-or-0 bytes has 1..5 bytes, all class characters** -/
theorem blacklisted_alphabet (fp : Bytes) (hcls : ∀ c ∈ fp, c = 0 ∨ isClassU8 c = true)
    (hb : searchKeyword (fpKey fp) = 70) :
    1 ≤ fp.length ∧ fp.length ≤ 5 ∧ ∀ c ∈ fp, isClassU8 c = true := by
  have hg : goUpper (fpKey fp) = 48 :: fp.map upperAscii := by
    unfold fpKey
    rw [goUpper_plain]
    · simp only [List.map_cons, List.map_map]
      congr 1
      apply List.map_congr_left
      intro c hc
      exact (class_upper c (hcls c hc)).2.2
    · intro x hx
      rcases List.mem_cons.mp hx with rfl | hx
      · decide
      · obtain ⟨c, hc, rfl⟩ := List.mem_map.mp hx
        exact ⟨(class_upper c (hcls c hc)).1, (class_upper c (hcls c hc)).2.1⟩
  unfold searchKeyword at hb
  simp only [hg] at hb
  cases hl : lookupKw ((48 : UInt8) :: fp.map upperAscii).length (keyNat (48 :: fp.map upperAscii)) with
  | none => rw [hl] at hb; simp at hb
  | some v =>
    rw [hl] at hb
    simp only [] at hb
    have hm := lookupIn_some_mem _ _ _ _ hl
    have hv := List.all_eq_true.mp keywords_valOK _ hm
    simp only [valOK, Bool.and_eq_true, Nat.blt_eq] at hv
    have hv128 : v < 128 := hv.1.1.1
    have hv70 : v = 70 := by
      have := congrArg UInt8.toNat hb
      simp at this
      omega
    subst hv70
    obtain ⟨k1, k2, k3, _⟩ := blacklisted_key_shape _ _ hl
    simp only [List.length_cons, List.length_map] at k1 k2 k3
    refine ⟨by omega, by omega, ?_⟩
    have hk : fpBytes (fp.map upperAscii).length (keyNat (48 :: fp.map upperAscii)) = true := by
      simpa using k3
    intro c hc
    exact class_of_upper c (hcls c hc) (fpBytes_keyNat _ hk (upperAscii c) (List.mem_map.mpr ⟨c, hc, rfl⟩))

/-- the bytes of a computed fingerprint are class characters or 0 -/
theorem fingerprint_classes (s : Bytes) (F : Nat) (st : State) (h : fingerprint s F = .ok st) :
    ∀ c ∈ st.fingerprint, c = 0 ∨ isClassU8 c = true := by
  obtain ⟨st', h', _, hfp⟩ := fingerprint_ok s F
  rw [h] at h'
  cases h'
  rcases hfp with hX | ⟨hw, n, _, hfpn, _⟩
  · intro c hc; rw [hX] at hc
    have : c = 88 := by simpa using hc
    rw [this]; right; decide
  · intro c hc
    rw [hfpn] at hc
    obtain ⟨t, ht, rfl⟩ := List.mem_map.mp hc
    exact (hw.2 t (List.mem_of_mem_take ht)).2

/-- **C08, full statement.** -/
theorem verdict_fp_consistent (s : Bytes) (b : Bool) (f : Bytes) (h : isSQLi s = .ok (b, f)) :
    (b = false → f = []) ∧
    (b = true → Blacklisted f ∧ 1 ≤ f.length ∧ f.length ≤ 5 ∧ (∀ c ∈ f, isClassU8 c = true) ∧
      ∃ F ∈ contexts, ∃ st, fingerprint s F = .ok st ∧ st.fingerprint = f) := by
  obtain ⟨h1, h2⟩ := verdict_fp_consistent_partial s b f h
  refine ⟨h1, fun hb => ?_⟩
  obtain ⟨hbl, F, hF, st, hst, hfp⟩ := h2 hb
  have hcls := fingerprint_classes s F st hst
  rw [hfp] at hcls
  obtain ⟨a1, a2, a3⟩ := blacklisted_alphabet f hcls hbl.2
  exact ⟨hbl, a1, a2, a3, F, hF, st, hst, hfp⟩

/-- the verdict exists for every input (C01), so the statement above is never vacuous -/
theorem verdict_exists (s : Bytes) : ∃ b f, isSQLi s = .ok (b, f) := by
  obtain ⟨r, hr⟩ := LibInj.Properties.C01.isSQLi_total s
  exact ⟨r.1, r.2, hr⟩

/-- non-vacuity: the classic `s&1` is blacklisted in the regenerated table -/
example : lookupKw 4 0x30532631 = some 70 := by decide +kernel

end LibInj.Properties.C08
