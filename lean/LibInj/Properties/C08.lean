import LibInj.Proofs.Tables
import LibInj.Properties.C12
set_option linter.unusedSimpArgs false
/-! # C08 — verdict and fingerprint returned by IsSQLi are mutually consistent

Proved for every input: a false verdict comes with the empty fingerprint; a true verdict comes with
a non-empty fingerprint that is blacklisted (`"0" ++ upper f` has class `F` in the regenerated
table) and is the fingerprint of the input under one of the five contexts tried. Table facts
(re-checked on every build): every `F` key is `0` + 1..5 class characters with the comment class
only in last position — so the *key* that matched has the documented shape.

Gap (`verdict_fp_consistent` is therefore labelled partial): that `f` itself (not only its
upper-cased key) is 1..5 bytes from the class alphabet needs the invariant "every token class is a
class character" through all lexers and `fold`; it is checked by the oracle. -/
namespace LibInj.Properties.C08
open LibInj LibInj.Sqli LibInj.Tables LibInj.Properties.C12

def contexts : List Nat := [asisAnsi, asisMysql, singleAnsi, singleMysql, doubleMysql]

/-- `f` is blacklisted: non-empty and `"0" ++ upper f` has the fingerprint class in the table -/
def Blacklisted (f : Bytes) : Prop := f ≠ [] ∧ searchKeyword (fpKey f) = 70

theorem pass_true (s : Bytes) (F : Nat) (f : Bytes) (r : Bool) (h : pass s F = .ok (true, f, r)) :
    Blacklisted f ∧ ∃ st, fingerprint s F = .ok st ∧ st.fingerprint = f := by
  unfold pass at h
  cases hf : fingerprint s F with
  | error e => simp [hf, bind, Except.bind] at h
  | ok st =>
    simp only [hf, bind, Except.bind] at h
    cases hc : checkFingerprint st with
    | error e => simp [hc] at h
    | ok v =>
      simp only [hc, pure, Except.pure, Except.ok.injEq, Prod.mk.injEq] at h
      obtain ⟨hv, hfp, _⟩ := h
      subst hv
      refine ⟨?_, st, rfl, hfp⟩
      unfold checkFingerprint at hc
      by_cases hb : blacklist st = true
      · unfold blacklist at hb
        split at hb
        · cases hb
        · rename_i hlen
          subst hfp
          refine ⟨?_, by simpa using hb⟩
          intro hnil
          simp [hnil] at hlen
      · simp [hb, pure, Except.pure] at hc

theorem gated_true (g : Bool) (p : M (Bool × Bytes × Bool)) (f : Bytes) (r : Bool)
    (h : gated g p = .ok (true, f, r)) : p = .ok (true, f, r) := by
  cases g with
  | true => simpa [gated] using h
  | false => simp [gated, noPass, pure, Except.pure] at h

/-- one step of the cascade: a reading either fires with its own fingerprint or hands over -/
theorem step_ok (p : M (Bool × Bytes × Bool)) (k : Bool × Bytes × Bool → M (Bool × Bytes)) (b : Bool) (f : Bytes)
    (h : (do let a ← p; if a.1 then return (true, a.2.1) else k a) = .ok (b, f)) :
    (∃ r, p = .ok (true, f, r) ∧ b = true) ∨ (∃ a, k a = .ok (b, f)) := by
  cases hp : p with
  | error e => simp [hp, bind, Except.bind] at h
  | ok a =>
    obtain ⟨a1, a2, a3⟩ := a
    simp only [hp, bind, Except.bind] at h
    cases a1 with
    | true =>
      simp only [↓reduceIte, pure, Except.pure, Except.ok.injEq, Prod.mk.injEq] at h
      refine Or.inl ⟨a3, ?_, h.1.symm⟩
      rw [← h.2]
    | false =>
      simp only [Bool.false_eq_true, ↓reduceIte] at h
      exact Or.inr ⟨_, h⟩

/-- **C08 (partial, see the module comment).** -/
theorem verdict_fp_consistent_partial (s : Bytes) (b : Bool) (f : Bytes) (h : isSQLi s = .ok (b, f)) :
    (b = false → f = []) ∧
    (b = true → Blacklisted f ∧ ∃ F ∈ contexts, ∃ st, fingerprint s F = .ok st ∧ st.fingerprint = f) := by
  have fire : ∀ F ∈ contexts, ∀ r, pass s F = .ok (true, f, r) → b = true →
      (b = false → f = []) ∧
      (b = true → Blacklisted f ∧ ∃ F ∈ contexts, ∃ st, fingerprint s F = .ok st ∧ st.fingerprint = f) := by
    intro F hF r hp hb
    have := pass_true s F f r hp
    exact ⟨fun hb' => (by rw [hb] at hb'; cases hb'), fun _ => ⟨this.1, F, hF, this.2⟩⟩
  unfold isSQLi at h
  by_cases hlen : (s.length == 0) = true
  · simp [hlen, pure, Except.pure] at h
    obtain ⟨rfl, rfl⟩ := h
    simp
  · simp only [hlen, Bool.false_eq_true, ↓reduceIte] at h
    rcases step_ok _ _ b f h with ⟨r, hp, hb⟩ | ⟨_, h⟩
    · exact fire asisAnsi (by simp [contexts]) r hp hb
    rcases step_ok _ _ b f h with ⟨r, hp, hb⟩ | ⟨_, h⟩
    · exact fire asisMysql (by simp [contexts]) r (gated_true _ _ _ _ hp) hb
    rcases step_ok _ _ b f h with ⟨r, hp, hb⟩ | ⟨_, h⟩
    · exact fire singleAnsi (by simp [contexts]) r (gated_true _ _ _ _ hp) hb
    rcases step_ok _ _ b f h with ⟨r, hp, hb⟩ | ⟨_, h⟩
    · exact fire singleMysql (by simp [contexts]) r (gated_true _ _ _ _ hp) hb
    rcases step_ok _ _ b f h with ⟨r, hp, hb⟩ | ⟨_, h⟩
    · exact fire doubleMysql (by simp [contexts]) r (gated_true _ _ _ _ hp) hb
    simp only [pure, Except.pure, Except.ok.injEq, Prod.mk.injEq] at h
    obtain ⟨rfl, rfl⟩ := h
    simp

set_option maxRecDepth 200000 in
theorem kw_wf : Gen.keywords.all kwOK = true := by decide +kernel

set_option maxRecDepth 200000 in
theorem kw_comment : Gen.keywords.all commentOnlyLast = true := by decide +kernel

/-- table fact: a key with class `F` is `0` followed by 1..5 upper-cased class characters, the
comment class only in last position (`kwOK`, `commentOnlyLast` of C20, restated for the matched key) -/
theorem blacklisted_key_shape (l n : Nat) (h : lookupKw l n = some 70) :
    2 ≤ l ∧ l ≤ 6 ∧ fpBytes (l - 1) n = true ∧ noByte 67 (l - 1) (n / 256) = true := by
  have hm := lookupIn_some_mem _ _ _ _ h
  have h1 := List.all_eq_true.mp LibInj.Properties.C08.kw_wf _ hm
  have h2 := List.all_eq_true.mp LibInj.Properties.C08.kw_comment _ hm
  simp only [kwOK, Bool.and_eq_true, Bool.or_eq_true, Bool.not_eq_true', Nat.ble_eq] at h1
  simp only [commentOnlyLast, Bool.or_eq_true, Bool.not_eq_true'] at h2
  have e70 : Nat.beq 70 70 = true := rfl
  obtain ⟨⟨_, hfp⟩, _⟩ := h1
  rcases hfp with hfp | hfp
  · simp [e70] at hfp
  · rcases h2 with h2 | h2
    · simp [e70] at h2
    · exact ⟨hfp.1.1, hfp.1.2, hfp.2, h2⟩

/-- non-vacuity: the classic `s&1` is blacklisted in the regenerated table -/
example : lookupKw 4 0x30532631 = some 70 := by decide +kernel

end LibInj.Properties.C08
