import LibInj.Proofs.Tables
import LibInj.Proofs.FpTable
import LibInj.Properties.C12
import LibInj.Properties.C01
set_option linter.unusedSimpArgs false
/-! # C08 — verdict and fingerprint returned by IsSQLi are mutually consistent

**Proved for every input (`verdict_fp_consistent`, the full statement):** a false verdict comes with
the empty fingerprint; a true verdict comes with a fingerprint of 1..5 bytes, each a documented token
class character, that is blacklisted (`"0" ++ upper f` has class `F` in the regenerated table) and is
the fingerprint of the input under one of the five contexts tried.

The alphabet clause combines the invariant "every token class in the window is 0 or a class character"
(through all lexers, `fold` and `sqliFingerprint`: `fingerprint_ok`) with the table fact that every
`F` key is `0` + 1..5 upper-cased class characters (`kw_wf`, re-checked on every build): a 0 byte in
the fingerprint would put a 0 byte into the key. `blacklisted_key_shape` additionally records that the
comment class occurs only in last position of a blacklisted key. -/
namespace LibInj.Properties.C08
open LibInj LibInj.Sqli LibInj.Tables LibInj.Properties.C12

def contexts : List Nat := [asisAnsi, asisMysql, singleAnsi, singleMysql, doubleMysql]

/-- `f` is blacklisted: non-empty and `"0" ++ upper f` has the fingerprint class in the table -/
def Blacklisted (f : Bytes) : Prop := f ≠ [] ∧ searchKeyword (fpKey f) = 70

theorem pass_true (s : Bytes) (F : Nat) (f : Bytes) (r : Bool) (h : pass s F = .ok (true, f, r)) :
    Blacklisted f ∧ ∃ st, fingerprint s F = .ok st ∧ st.fingerprint = f := by
  unfold pass at h
  cases hf : fingerprint s F with
  | error e => simp [hf, bind, Except.bind] at h
  | ok st =>
    simp only [hf, bind, Except.bind] at h
    cases hc : checkFingerprint st with
    | error e => simp [hc] at h
    | ok v =>
      simp only [hc, pure, Except.pure, Except.ok.injEq, Prod.mk.injEq] at h
      obtain ⟨hv, hfp, _⟩ := h
      subst hv
      refine ⟨?_, st, rfl, hfp⟩
      unfold checkFingerprint at hc
      by_cases hb : blacklist st = true
      · unfold blacklist at hb
        split at hb
        · cases hb
        · rename_i hlen
          subst hfp
          refine ⟨?_, by simpa using hb⟩
          intro hnil
          simp [hnil] at hlen
      · simp [hb, pure, Except.pure] at hc

theorem gated_true (g : Bool) (p : M (Bool × Bytes × Bool)) (f : Bytes) (r : Bool)
    (h : gated g p = .ok (true, f, r)) : p = .ok (true, f, r) := by
  cases g with
  | true => simpa [gated] using h
  | false => simp [gated, noPass, pure, Except.pure] at h

/-- one step of the cascade: a reading either fires with its own fingerprint or hands over -/
theorem step_ok (p : M (Bool × Bytes × Bool)) (k : Bool × Bytes × Bool → M (Bool × Bytes)) (b : Bool) (f : Bytes)
    (h : (do let a ← p; if a.1 then return (true, a.2.1) else k a) = .ok (b, f)) :
    (∃ r, p = .ok (true, f, r) ∧ b = true) ∨ (∃ a, k a = .ok (b, f)) := by
  cases hp : p with
  | error e => simp [hp, bind, Except.bind] at h
  | ok a =>
    obtain ⟨a1, a2, a3⟩ := a
    simp only [hp, bind, Except.bind] at h
    cases a1 with
    | true =>
      simp only [↓reduceIte, pure, Except.pure, Except.ok.injEq, Prod.mk.injEq] at h
      refine Or.inl ⟨a3, ?_, h.1.symm⟩
      rw [← h.2]
    | false =>
      simp only [Bool.false_eq_true, ↓reduceIte] at h
      exact Or.inr ⟨_, h⟩

/-- verdict/fingerprint relation without the alphabet clause -/
theorem verdict_fp_consistent_partial (s : Bytes) (b : Bool) (f : Bytes) (h : isSQLi s = .ok (b, f)) :
    (b = false → f = []) ∧
    (b = true → Blacklisted f ∧ ∃ F ∈ contexts, ∃ st, fingerprint s F = .ok st ∧ st.fingerprint = f) := by
  have fire : ∀ F ∈ contexts, ∀ r, pass s F = .ok (true, f, r) → b = true →
      (b = false → f = []) ∧
      (b = true → Blacklisted f ∧ ∃ F ∈ contexts, ∃ st, fingerprint s F = .ok st ∧ st.fingerprint = f) := by
    intro F hF r hp hb
    have := pass_true s F f r hp
    exact ⟨fun hb' => (by rw [hb] at hb'; cases hb'), fun _ => ⟨this.1, F, hF, this.2⟩⟩
  unfold isSQLi at h
  by_cases hlen : (s.length == 0) = true
  · simp [hlen, pure, Except.pure] at h
    obtain ⟨rfl, rfl⟩ := h
    simp
  · simp only [hlen, Bool.false_eq_true, ↓reduceIte] at h
    rcases step_ok _ _ b f h with ⟨r, hp, hb⟩ | ⟨_, h⟩
    · exact fire asisAnsi (by simp [contexts]) r hp hb
    rcases step_ok _ _ b f h with ⟨r, hp, hb⟩ | ⟨_, h⟩
    · exact fire asisMysql (by simp [contexts]) r (gated_true _ _ _ _ hp) hb
    rcases step_ok _ _ b f h with ⟨r, hp, hb⟩ | ⟨_, h⟩
    · exact fire singleAnsi (by simp [contexts]) r (gated_true _ _ _ _ hp) hb
    rcases step_ok _ _ b f h with ⟨r, hp, hb⟩ | ⟨_, h⟩
    · exact fire singleMysql (by simp [contexts]) r (gated_true _ _ _ _ hp) hb
    rcases step_ok _ _ b f h with ⟨r, hp, hb⟩ | ⟨_, h⟩
    · exact fire doubleMysql (by simp [contexts]) r (gated_true _ _ _ _ hp) hb
    simp only [pure, Except.pure, Except.ok.injEq, Prod.mk.injEq] at h
    obtain ⟨rfl, rfl⟩ := h
    simp

theorem kw_wf : Gen.keywords.all kwOK = true := LibInj.Sqli.kw_wf
theorem kw_comment : Gen.keywords.all commentOnlyLast = true := LibInj.Sqli.kw_comment

/-- table fact: a key with class `F` is `0` followed by 1..5 upper-cased class characters, the
comment class only in last position (`kwOK`, `commentOnlyLast` of C20, restated for the matched key) -/
theorem blacklisted_key_shape (l n : Nat) (h : lookupKw l n = some 70) :
    2 ≤ l ∧ l ≤ 6 ∧ fpBytes (l - 1) n = true ∧ noByte 67 (l - 1) (n / 256) = true :=
  LibInj.Sqli.blacklisted_key_shape l n h

/-- **a blacklisted fingerprint over class-or-0 bytes has 1..5 bytes, all class characters** -/
theorem blacklisted_alphabet (fp : Bytes) (hcls : ∀ c ∈ fp, c = 0 ∨ isClassU8 c = true)
    (hb : searchKeyword (fpKey fp) = 70) :
    1 ≤ fp.length ∧ fp.length ≤ 5 ∧ ∀ c ∈ fp, isClassU8 c = true :=
  LibInj.Sqli.blacklisted_alphabet fp hcls hb

/-- the bytes of a computed fingerprint are class characters or 0 -/
theorem fingerprint_classes (s : Bytes) (F : Nat) (st : State) (h : fingerprint s F = .ok st) :
    ∀ c ∈ st.fingerprint, c = 0 ∨ isClassU8 c = true := by
  obtain ⟨st', h', _, hfp⟩ := fingerprint_ok s F
  rw [h] at h'
  cases h'
  rcases hfp with hX | ⟨hw, n, _, hfpn, _⟩
  · intro c hc; rw [hX] at hc
    have : c = 88 := by simpa using hc
    rw [this]; right; decide
  · intro c hc
    rw [hfpn] at hc
    obtain ⟨t, ht, rfl⟩ := List.mem_map.mp hc
    exact (hw.2 t (List.mem_of_mem_take ht)).2

/-- **C08, full statement.** -/
theorem verdict_fp_consistent (s : Bytes) (b : Bool) (f : Bytes) (h : isSQLi s = .ok (b, f)) :
    (b = false → f = []) ∧
    (b = true → Blacklisted f ∧ 1 ≤ f.length ∧ f.length ≤ 5 ∧ (∀ c ∈ f, isClassU8 c = true) ∧
      ∃ F ∈ contexts, ∃ st, fingerprint s F = .ok st ∧ st.fingerprint = f) := by
  obtain ⟨h1, h2⟩ := verdict_fp_consistent_partial s b f h
  refine ⟨h1, fun hb => ?_⟩
  obtain ⟨hbl, F, hF, st, hst, hfp⟩ := h2 hb
  have hcls := fingerprint_classes s F st hst
  rw [hfp] at hcls
  obtain ⟨a1, a2, a3⟩ := blacklisted_alphabet f hcls hbl.2
  exact ⟨hbl, a1, a2, a3, F, hF, st, hst, hfp⟩

/-- the verdict exists for every input (C01), so the statement above is never vacuous -/
theorem verdict_exists (s : Bytes) : ∃ b f, isSQLi s = .ok (b, f) := by
  obtain ⟨r, hr⟩ := LibInj.Properties.C01.isSQLi_total s
  exact ⟨r.1, r.2, hr⟩

/-- non-vacuity: the classic `s&1` is blacklisted in the regenerated table -/
example : lookupKw 4 0x30532631 = some 70 := by decide +kernel

end LibInj.Properties.C08
