import LibInj.Proofs.H5Good
import LibInj.Proofs.H5Term
import LibInj.Proofs.H5Order
set_option linter.unusedSimpArgs false
/-! # C17 — HTML tokens stay inside the input, in order; constructs end at their first terminator

Proved for every input and start context: the tokenizer stops, every token lies inside the input
(`tokens_inside_input`), the scan offset never moves back and every emitting step makes progress
(`step_progress`), **there are at most `|s|+1` tokens and consecutive tokens never overlap**
(`order_and_count`: every state has a lower bound for the start of its next token and a potential
`|s| - bound + credit`; each emitting step puts its token between the old and the new bound and lowers
the potential — `Proofs/H5Order`). First-terminator
refinements proved here: `<! .. >`, `<? .. >`, `</! .. >` (bogus comment) and doctype end at the
first `>` and resume right after it (`bogus_comment_first_gt`, `doctype_first_gt`); a quoted
attribute value ends at the first matching quote (`quoted_value_first_quote`); **`<![CDATA[ .. ]]>`
ends at the first `]]>`, `<% .. %>` at the first `%>`, `<!-- ..` at the first `-` NUL* (`-`|`!`) `>`**
(`cdata_first_terminator`, `percent_first_terminator`, `comment_first_terminator`): the token spans
exactly the bytes from the scan offset to the terminator, the scan resumes right after it, and with no
terminator the token runs to end of input. So every delimited construct of the property has its
first-terminator theorem, and the order / count clause is closed: the full statement of C17 holds on the model. -/
namespace LibInj.Properties.C17
open LibInj LibInj.H5

theorem tokens_inside_input (s : Bytes) (ctx : Nat) :
    ∃ ts, tokens s ctx = .ok ts ∧ ∀ t ∈ ts, t.off + t.len ≤ s.length := by
  obtain ⟨ts, h1, h2, _⟩ := tokens_total s ctx
  exact ⟨ts, h1, h2⟩

theorem token_count_partial (s : Bytes) (ctx : Nat) :
    ∃ ts, tokens s ctx = .ok ts ∧ ts.length ≤ 3 * s.length + 3 := by
  obtain ⟨ts, h1, _, h3⟩ := tokens_total s ctx
  exact ⟨ts, h1, h3⟩

theorem step_progress (h : H) (hi : Inv h) :
    ∃ b h', next h = .ok (b, h') ∧ h'.s = h.s ∧
      (b = true → mu h' < mu h ∧ Inv h' ∧ h'.tokStart + h'.tokLen ≤ h.s.length ∧ h.pos ≤ h'.pos) :=
  next_spec h hi

/-- **bogus comment** (`<! ..`, `<? ..`, `</! ..`): the token spans exactly the bytes before the first
`>` (or the rest of the input) and tokenizing resumes right after that `>` -/
theorem bogus_comment_first_gt (h : H) (hp : h.pos ≤ h.s.length) :
    (∀ i, indexByte (h.s.drop h.pos) 62 = some i →
      ∃ h', stateBogusComment h = .ok (true, h') ∧ h'.tokStart = h.pos ∧ h'.tokLen = i ∧
        h'.pos = h.pos + i + 1 ∧ h'.state = .data ∧ h'.tokType = .tagComment ∧
        h.s[h.pos + i]? = some 62 ∧ ∀ j < i, h.s[h.pos + j]? ≠ some 62) ∧
    (indexByte (h.s.drop h.pos) 62 = none →
      ∃ h', stateBogusComment h = .ok (true, h') ∧ h'.tokStart = h.pos ∧ h'.tokLen = h.s.length - h.pos ∧
        h'.state = .eof ∧ (62 : UInt8) ∉ h.s.drop h.pos) := by
  constructor
  · intro i hi
    unfold stateBogusComment
    simp only [offFrom_ok hp, hi, bind, Except.bind, pure, Except.pure]
    refine ⟨_, rfl, rfl, rfl, rfl, rfl, rfl, ?_⟩
    have := (indexByte_some_iff _ _ _).mp hi
    simp only [List.getElem?_drop] at this
    exact this
  · intro hn
    unfold stateBogusComment
    simp only [offFrom_ok hp, hn, bind, Except.bind, pure, Except.pure]
    exact ⟨_, rfl, rfl, rfl, rfl, (indexByte_none_iff _ _).mp hn⟩

/-- **doctype**: the token ends at the first `>` -/
theorem doctype_first_gt (h : H) (hp : h.pos ≤ h.s.length) (i : Nat) (hi : indexByte (h.s.drop h.pos) 62 = some i) :
    ∃ h', stateDoctype h = .ok (true, h') ∧ h'.tokStart = h.pos ∧ h'.tokLen = i ∧ h'.pos = h.pos + i + 1 ∧
      h'.tokType = .docType ∧ h.s[h.pos + i]? = some 62 ∧ ∀ j < i, h.s[h.pos + j]? ≠ some 62 := by
  unfold stateDoctype
  simp only [offFrom_ok hp, hi, bind, Except.bind, pure, Except.pure]
  refine ⟨_, rfl, rfl, rfl, rfl, rfl, ?_⟩
  have := (indexByte_some_iff _ _ _).mp hi
  simp only [List.getElem?_drop] at this
  exact this

/-- **quoted attribute value** (inside a tag, `pos` at the opening quote): ends at the first matching quote -/
theorem quoted_value_first_quote (q : UInt8) (h : H) (h0 : 0 < h.pos) (hp : h.pos < h.s.length) (i : Nat)
    (hi : indexByte (h.s.drop (h.pos + 1)) q = some i) :
    ∃ h', stateAttributeValueQuote q h = .ok (true, h') ∧ h'.tokStart = h.pos + 1 ∧ h'.tokLen = i ∧
      h'.pos = h.pos + 1 + i + 1 ∧ h'.tokType = .attrValue ∧ ∀ j < i, h.s[h.pos + 1 + j]? ≠ some q := by
  unfold stateAttributeValueQuote
  simp only [h0, ↓reduceIte, offFrom_ok (show h.pos + 1 ≤ h.s.length by omega), hi, bind, Except.bind, pure, Except.pure]
  refine ⟨_, rfl, rfl, rfl, rfl, rfl, ?_⟩
  have := ((indexByte_some_iff _ _ _).mp hi).2
  simp only [List.getElem?_drop] at this
  exact this

/-- the order / sharp-count clauses of C17, full statement -/
def order_and_count_statement : Prop :=
  ∀ (s : Bytes) (ctx : Nat) (ts : List Tok), tokens s ctx = .ok ts →
    ts.length ≤ s.length + 1 ∧ ∀ i, ∀ h : i + 1 < ts.length, ts[i].off + ts[i].len ≤ ts[i+1].off

/-- **C17, order and count.** -/
theorem order_and_count : order_and_count_statement :=
  fun s ctx ts h => tokens_order_count s ctx ts h

example : (match tokens [60,33,97,62,98] 0 with | .ok [t1, t2] => t1.off == 2 && t1.len == 1 && t2.off == 4 | _ => false) = true := by
  decide +kernel

/-- **`<![CDATA[ .. ]]>`** ends at the first `]]>` -/
theorem cdata_first_terminator (h : H) (hp : h.pos ≤ h.s.length) :
    (∀ i, Term3 h.s 93 93 62 i → h.pos ≤ i → (∀ j, h.pos ≤ j → j < i → ¬ Term3 h.s 93 93 62 j) →
      stateCData h = foundAt h .dataText i 3) ∧
    ((∀ i, h.pos ≤ i → ¬ Term3 h.s 93 93 62 i) → stateCData h = ranOut h .dataText) :=
  LibInj.H5.cdata_first_terminator h hp

/-- **`<% .. %>`** ends at the first `%>` -/
theorem percent_first_terminator (h : H) (hp : h.pos ≤ h.s.length) :
    (∀ i, Term2 h.s 37 62 i → h.pos ≤ i → (∀ j, h.pos ≤ j → j < i → ¬ Term2 h.s 37 62 j) →
      stateBogusComment2 h = foundAt h .tagComment i 2) ∧
    ((∀ i, h.pos ≤ i → ¬ Term2 h.s 37 62 i) → stateBogusComment2 h = ranOutEnd h .tagComment) :=
  LibInj.H5.percent_first_terminator h hp

/-- **`<!-- .. -->` / `-!>`**, NULs tolerated after the first dash: ends at the first terminator -/
theorem comment_first_terminator (h : H) (hp : h.pos ≤ h.s.length) :
    (∀ i n, ComEnd h.s i n → h.pos ≤ i → (∀ j m, h.pos ≤ j → j < i → ¬ ComEnd h.s j m) →
      stateComment h = foundAt h .tagComment i (n + 3)) ∧
    ((∀ i n, h.pos ≤ i → ¬ ComEnd h.s i n) → stateComment h = ranOut h .tagComment) :=
  LibInj.H5.comment_first_terminator h hp

/-- non-vacuity: `a-\0\0->b` has a terminator at offset 1 with two NULs, none before -/
example : ComEnd [97, 45, 0, 0, 45, 62, 98] 1 2 := by
  refine ⟨rfl, fun k hk => ?_, Or.inl rfl, rfl⟩
  match k, hk with
  | 0, _ => rfl
  | 1, _ => rfl

/-- non-vacuity, kernel-evaluated: the comment of `<!--a-\0\0->b` is `a` (offset 4, length 1) -/
example : (match tokens [60, 33, 45, 45, 97, 45, 0, 0, 45, 62, 98] 0 with
    | .ok (t :: _) => t.off == 4 && t.len == 1
    | _ => false) = true := by decide +kernel

end LibInj.Properties.C17
