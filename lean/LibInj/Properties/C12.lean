import LibInj.Sqli.Check
import LibInj.Proofs.QuoteShift
import LibInj.Proofs.QuoteFold
import LibInj.Proofs.QuoteSlot
set_option linter.unusedSimpArgs false
/-! # C12 — IsSQLi equals the ordered disjunction of its documented parsing contexts

`pass s F` is one reading of `s` under context `F` *on a fresh state* (`fingerprint` starts from
`sqliInit`): independence of a reading from the readings tried before it is definitional in the model
and is what the correspondence (`fp F` on a fresh state vs `is`) checks on the code.

Proved: `isSQLi_cascade` (the cascade with its three gates, in order, first firing wins) and its two
corollaries; and the **token half of the quote-shift clause** (`quote_shift_tokens`): for every
non-empty `x`, quote `q` and parsing mode, the raw token stream of `q :: x` read as-is and of `x` read
inside `q` have the same length and agree pairwise in class, length, value, count and closing mark,
with offsets and scan spans shifted by exactly one (only the first token's opening-quote mark
differs) — the two scanners move in lock step (`tokLoop_shift`). Not yet a theorem: that `fold` maps
such related streams to the same fingerprint (`quote_shift_statement`; checked by the oracle on every
generated input). -/
namespace LibInj.Properties.C12
open LibInj LibInj.Sqli

def asisAnsi : Nat := flagQuoteNone ||| flagAnsi
def asisMysql : Nat := flagQuoteNone ||| flagMysql
def singleAnsi : Nat := flagQuoteSingle ||| flagAnsi
def singleMysql : Nat := flagQuoteSingle ||| flagMysql
def doubleMysql : Nat := flagQuoteDouble ||| flagMysql

def hasSingle (s : Bytes) : Bool := (indexByte s 39).isSome
def hasDouble (s : Bytes) : Bool := (indexByte s 34).isSome

/-- the documented cascade, as a function of the five per-context results
(verdict, fingerprint, "a `#` or `--x` comment was counted") -/
def cascade (s : Bytes) (a b c d e : Bool × Bytes × Bool) : Bool × Bytes :=
  if a.1 then (true, a.2.1)
  else if a.2.2 && b.1 then (true, b.2.1)
  else if hasSingle s && c.1 then (true, c.2.1)
  else if hasSingle s && c.2.2 && d.1 then (true, d.2.1)
  else if hasDouble s && e.1 then (true, e.2.1)
  else (false, [])

/-- **C12, cascade.** For a non-empty input whose five readings return, `isSQLi` is the first firing
element of [as-is/ANSI, as-is/MySQL*, '/ANSI**, '/MySQL*, "/MySQL***] (* only if that ANSI pass
counted a `#` or `--x` comment, ** only if the input contains ', *** only if it contains "), and
the fingerprint returned is that of the first such reading. -/
theorem isSQLi_cascade (s : Bytes) (hs : s ≠ []) (a b c d e : Bool × Bytes × Bool)
    (ha : pass s asisAnsi = .ok a) (hb : pass s asisMysql = .ok b)
    (hc : pass s singleAnsi = .ok c) (hd : pass s singleMysql = .ok d)
    (he : pass s doubleMysql = .ok e) :
    isSQLi s = .ok (cascade s a b c d e) := by
  have hlen : (s.length == 0) = false := by
    cases s with
    | nil => exact absurd rfl hs
    | cons _ _ => simp
  unfold isSQLi cascade hasSingle hasDouble
  unfold asisAnsi at ha; unfold asisMysql at hb; unfold singleAnsi at hc
  unfold singleMysql at hd; unfold doubleMysql at he
  simp only [hlen, gated, ha, hb, hc, hd, he, bind, Except.bind, pure, Except.pure, Bool.false_eq_true, ↓reduceIte]
  rcases a with ⟨a1, a2, a3⟩; rcases b with ⟨b1, b2, b3⟩; rcases c with ⟨c1, c2, c3⟩
  rcases d with ⟨d1, d2, d3⟩; rcases e with ⟨e1, e2, e3⟩
  cases a1 <;> cases a3 <;> cases b1 <;> cases (indexByte s 39).isSome <;> cases c1 <;> cases c3 <;>
    cases d1 <;> cases (indexByte s 34).isSome <;> cases e1 <;>
    simp [noPass, gated, hb, hc, hd, he, bind, Except.bind, pure, Except.pure]

/-- the empty input is never SQLi -/
theorem isSQLi_nil : isSQLi [] = .ok (false, []) := by
  simp [isSQLi, pure, Except.pure]

/-- a reading is a function of the input and the context alone (fresh state): the result of a pass
does not depend on which passes ran before it — in the model by construction -/
theorem pass_fresh (s : Bytes) (F : Nat) :
    pass s F = (do let st ← fingerprint s F; return (← checkFingerprint st, st.fingerprint, reparseAsMySQL st)) := rfl

/-- if no reading fires, the verdict is false with the empty fingerprint -/
theorem isSQLi_none_fires (s : Bytes) (hs : s ≠ []) (a b c d e : Bool × Bytes × Bool)
    (ha : pass s asisAnsi = .ok a) (hb : pass s asisMysql = .ok b)
    (hc : pass s singleAnsi = .ok c) (hd : pass s singleMysql = .ok d)
    (he : pass s doubleMysql = .ok e)
    (h : a.1 = false ∧ b.1 = false ∧ c.1 = false ∧ d.1 = false ∧ e.1 = false) :
    isSQLi s = .ok (false, []) := by
  rw [isSQLi_cascade s hs a b c d e ha hb hc hd he]
  simp [cascade, h.1, h.2.1, h.2.2.1, h.2.2.2.1, h.2.2.2.2]

/-- the quote-shift relation of C12 on fingerprints, full statement -/
def quote_shift_statement : Prop :=
  ∀ (s : Bytes) (q : UInt8) (d : Nat), s ≠ [] → (q = 39 ∨ q = 34) → (d = flagAnsi ∨ d = flagMysql) →
    ∀ st1 st2, fingerprint s ((if q = 39 then flagQuoteSingle else flagQuoteDouble) ||| d) = .ok st1 →
      fingerprint (q :: s) (flagQuoteNone ||| d) = .ok st2 → st1.fingerprint = st2.fingerprint

/-- **C12, quote shift, fingerprints.** Reading `s` as the continuation of a quoted string and reading
`quote ++ s` as-is give the same fingerprint, in both comment modes: after the first token the as-is
scanner state is the image of the in-quote state under `phiS` (input one byte longer, offsets + 1, the
virtual opening quote made real), and `tokenize`, every fold rule, the loops, the empty-backtick
re-categorisation and the fingerprint construction commute with that map (`Proofs/QuoteFold`). -/
theorem quote_shift_fingerprint : quote_shift_statement := by
  intro s q d hs hq hd st1 st2 h1 h2
  have key : (fingerprint (q :: s) (flagQuoteNone ||| d)).map (·.fingerprint) =
      (fingerprint s ((if q = 39 then flagQuoteSingle else flagQuoteDouble) ||| d)).map (·.fingerprint) := by
    rcases hq with rfl | rfl <;> rcases hd with rfl | rfl
    · exact fingerprint_quote s hs 39 _ _ (Or.inl rfl) (by decide) (by decide) (by decide) (by decide) (by decide) (by decide)
    · exact fingerprint_quote s hs 39 _ _ (Or.inl rfl) (by decide) (by decide) (by decide) (by decide) (by decide) (by decide)
    · exact fingerprint_quote s hs 34 _ _ (Or.inr rfl) (by decide) (by decide) (by decide) (by decide) (by decide) (by decide)
    · exact fingerprint_quote s hs 34 _ _ (Or.inr rfl) (by decide) (by decide) (by decide) (by decide) (by decide) (by decide)
  rw [h1, h2] at key
  exact (Except.ok.inj key).symm

/-- **C12, quote shift, verdicts.** Same fingerprint, same MySQL re-parse flag, and the same verdict unless
the fingerprint is `sos` or `s&s` (whose whitelist rule looks at the opening-quote mark). The one other
whitelist rule that could tell the readings apart — `1c`, which reads the input at the first token's offset —
is never reached: the string token of a quote reading stays in slot 0 through `fold` (`Proofs/QuoteSlot`),
so the fingerprint begins with `s` or is `X`. -/
theorem quote_shift_verdict (s : Bytes) (q : UInt8) (d : Nat) (hs : s ≠ []) (hq : q = 39 ∨ q = 34)
    (hd : d = flagAnsi ∨ d = flagMysql) (a b : Bool × Bytes × Bool)
    (ha : pass (q :: s) (flagQuoteNone ||| d) = .ok a)
    (hb : pass s ((if q = 39 then flagQuoteSingle else flagQuoteDouble) ||| d) = .ok b) :
    a.2.1 = b.2.1 ∧ a.2.2 = b.2.2 ∧ (b.2.1 ≠ bs "sos" → b.2.1 ≠ bs "s&s" → a.1 = b.1) := by
  have key : ∀ (F1 F2 : Nat), (hasFlag F1 flagQuoteSingle || hasFlag F1 flagQuoteDouble) = false → F1 ≠ 0 →
      (hasFlag F2 flagQuoteSingle || hasFlag F2 flagQuoteDouble) = true → F2 ≠ 0 → flag2Delim F2 = q → F1 = asIs F2 →
      pass (q :: s) F1 = .ok a → pass s F2 = .ok b →
      a.2.1 = b.2.1 ∧ a.2.2 = b.2.2 ∧ (b.2.1 ≠ bs "sos" → b.2.1 ≠ bs "s&s" → a.1 = b.1) := by
    intro F1 F2 g1 g2 g3 g4 g5 g6 ha hb
    obtain ⟨r1, r2, r3⟩ := pass_quote s hs q F1 F2 hq g1 g2 g3 g4 g5 g6 a b ha hb
    refine ⟨r1, r2, fun n1 n2 => r3 n1 n2 ?_⟩
    -- the fingerprint of the quote reading is not `1c`
    obtain ⟨st, hst, _⟩ := fingerprint_ok s F2
    have := fingerprint_inq_not1c s hs q F2 hq g3 g4 g5 st hst
    unfold pass at hb
    rw [hst] at hb
    simp only [ok_bind] at hb
    cases hc : checkFingerprint st with
    | error e => rw [hc] at hb; cases hb
    | ok v =>
      rw [hc] at hb
      cases hb
      exact this
  rcases hq with rfl | rfl <;> rcases hd with rfl | rfl
  · exact key _ _ (by decide) (by decide) (by decide) (by decide) (by decide) (by decide) ha hb
  · exact key _ _ (by decide) (by decide) (by decide) (by decide) (by decide) (by decide) ha hb
  · exact key _ _ (by decide) (by decide) (by decide) (by decide) (by decide) (by decide) ha hb
  · exact key _ _ (by decide) (by decide) (by decide) (by decide) (by decide) (by decide) ha hb

/-- **C12, quote shift, tokens.** -/
theorem quote_shift_tokens (x : Bytes) (hx : x ≠ []) (q : UInt8) (d : Nat) (hq : q = 39 ∨ q = 34)
    (hd : d = flagAnsi ∨ d = flagMysql) :
    ∃ ts1 sf1 ts2 sf2, rawTokens (q :: x) (flagQuoteNone ||| d) = .ok (ts1, sf1) ∧
      rawTokens x ((if q = 39 then flagQuoteSingle else flagQuoteDouble) ||| d) = .ok (ts2, sf2) ∧
      AllRel RawRel ts1 ts2 := by
  rcases hq with rfl | rfl <;> rcases hd with rfl | rfl
  · exact raw_tokens_quote_shift x hx 39 _ _ (Or.inl rfl) (by decide) (by decide) (by decide) (by decide) (by decide) ⟨by decide, by decide⟩
  · exact raw_tokens_quote_shift x hx 39 _ _ (Or.inl rfl) (by decide) (by decide) (by decide) (by decide) (by decide) ⟨by decide, by decide⟩
  · exact raw_tokens_quote_shift x hx 34 _ _ (Or.inr rfl) (by decide) (by decide) (by decide) (by decide) (by decide) ⟨by decide, by decide⟩
  · exact raw_tokens_quote_shift x hx 34 _ _ (Or.inr rfl) (by decide) (by decide) (by decide) (by decide) (by decide) ⟨by decide, by decide⟩

/-- non-vacuity: the hypotheses are met by a real input (`1' or 1=1`), evaluated by the kernel -/
example : cascade [49] (true, [49], false) noPass noPass noPass noPass = (true, [49]) := by decide

end LibInj.Properties.C12
