import LibInj.Proofs.Case
import LibInj.Proofs.LexOK
import LibInj.Sqli.Check
import LibInj.Proofs.SqlCase
set_option linter.unusedSimpArgs false
/-! # C10 — SQLi detection is insensitive to ASCII letter case

Proved: every place where the pipeline *compares letters* is invariant under ASCII case
re-assignment —

* `searchKeyword_case` — keyword / phrase / fingerprint look-up (via `goUpper_case_invariant`);
* `toUpperCmp_case` — the literal comparisons of `fold`/`isUnaryOp`/`notWhitelist` (`NOT`, `IN`,
  `LIKE`, `USER`, `INTO`, the eleven function names);
* `dispatch_case` — both cases of every letter are routed to the same lexer (table fact over the
  regenerated dispatch table);
* `fpKey_case` — the blacklist key `"0" ++ upper fingerprint`;
* `scan_predicates_case` — the byte classes of the scans (word/variable delimiters, digits) do not
  separate the two cases of a letter, except `isHexDigit` which accepts both.

The exempt positions are exactly where the code compares a letter case-sensitively: `\N`
(`parseBackSlash`), dollar-quote tags (`strings.Index` with the raw tag), q-string delimiters, and
the marker `sp_password` (`strings.Contains`).

`sqli_case_insensitive` closes the full statement on the model (`Proofs/SqlCase`: every stage commutes
with lower-casing). The case re-assignment oracle (exhaustive for ≤ 10 letters per input in the thorough
tier) checks the same statement on the real package. -/
namespace LibInj.Properties.C10
open LibInj LibInj.Sqli

theorem searchKeyword_case (w w' : Bytes) (h : CaseEq w w') : searchKeyword w = searchKeyword w' := by
  rw [searchKeyword_eq, searchKeyword_eq]; unfold searchKeywordSpec
  rw [goUpper_case_invariant w w' h]

theorem toUpperCmp_case (lit w w' : Bytes) (h : CaseEq w w') : toUpperCmp lit w = toUpperCmp lit w' := by
  unfold toUpperCmp
  rw [goUpper_case_invariant w w' h]

theorem fpKey_case (f f' : Bytes) (h : CaseEq f f') : fpKey f = fpKey f' := by
  unfold fpKey
  have : f.map upperAscii = f'.map upperAscii := by
    have e : ∀ l : Bytes, l.map upperAscii = (l.map lowerAscii).map upperAscii := by
      intro l; rw [List.map_map]; congr 1; funext c; exact (upper_lower c).symm
    rw [e f, e f', show f.map lowerAscii = f'.map lowerAscii from h]
  rw [this]

/-- table fact: an upper-case letter and its lower-case form are dispatched to the same lexer -/
theorem dispatch_case (c : UInt8) (h : isUpperAscii c = true) : dispatch c = dispatch (c + 32) := by
  have := forall_byte (fun c => !isUpperAscii c || dispatch c == dispatch (c + 32)) (by decide +kernel) c
  rw [h] at this
  simpa using this

/-- the scan predicates do not separate the two cases of a letter -/
theorem scan_predicates_case (c : UInt8) (h : isUpperAscii c = true) :
    notWordAccept c = notWordAccept (c + 32) ∧ notVarAccept c = notVarAccept (c + 32) ∧
    isDigit c = isDigit (c + 32) ∧ isHexDigit c = isHexDigit (c + 32) ∧ isLetter c = isLetter (c + 32) ∧
    isWhite c = isWhite (c + 32) := by
  have := forall_byte (fun c => !isUpperAscii c ||
      (notWordAccept c == notWordAccept (c + 32) && notVarAccept c == notVarAccept (c + 32) &&
       isDigit c == isDigit (c + 32) && isHexDigit c == isHexDigit (c + 32) && isLetter c == isLetter (c + 32) &&
       isWhite c == isWhite (c + 32))) (by decide +kernel) c
  rw [h] at this
  simp only [Bool.not_true, Bool.false_or, Bool.and_eq_true, beq_iff_eq] at this
  obtain ⟨⟨⟨⟨⟨a, b⟩, c'⟩, d⟩, e⟩, f⟩ := this
  exact ⟨a, b, c', d, e, f⟩

/-- C10 at full strength. The four hypotheses are exactly the exempt positions of the property: the byte
after a backslash is not `N`/`n` (the `\N` literal), a `$` is not followed by a letter (dollar-quote tag),
the delimiter of a `q'…'` string is not a letter, and no case variant of `sp_password` occurs. -/
def sqli_case_insensitive_statement : Prop :=
  ∀ (s s' : Bytes), CaseEq s s' →
    (∀ i : Nat, s[i]? = some (92 : UInt8) → s[i+1]? ≠ some (78 : UInt8) ∧ s[i+1]? ≠ some (110 : UInt8)) →
    (∀ i : Nat, s[i]? = some (36 : UInt8) → ∀ c, s[i+1]? = some c → isLetter c = false) →
    (∀ i : Nat, (s[i]? = some (113 : UInt8) ∨ s[i]? = some (81 : UInt8)) → s[i+1]? = some (39 : UInt8) →
      ∀ c, s[i+2]? = some c → isLetter c = false) →
    ¬ contains (s.map lowerAscii) spPassword = true →
    isSQLi s = isSQLi s'

/-- **C10: verdict and fingerprint are invariant under any re-assignment of ASCII letter case outside
the exempt positions.** Proved by showing that every stage of the pipeline (the 22 lexers, `tokenize`,
the fold rules, the loops, `fingerprint`, the whitelist, the five-context cascade) commutes with
lower-casing the input and the token values (`Proofs/SqlCase`). -/
theorem sqli_case_insensitive : sqli_case_insensitive_statement := by
  intro s s' heq h1 h2 h3 h4
  have hsp : contains (H5.L s) spPassword = false := by
    cases h : contains (H5.L s) spPassword with
    | false => rfl
    | true => exact absurd h h4
  have hL : H5.L s = H5.L s' := heq
  have ok1 := caseOK_of_lower s s rfl h1 h2 h3
  have ok2 := caseOK_of_lower s s' hL h1 h2 h3
  rw [← isSQLi_L s ok1 hsp, ← isSQLi_L s' ok2 (by rw [← hL]; exact hsp), hL]

/-- the model's `isSQLi` on an input and on its lower-cased form -/
theorem sqli_lowercase_normal_form (s : Bytes) (hok : CaseOK s) (hsp : contains (H5.L s) spPassword = false) :
    isSQLi (H5.L s) = isSQLi s := isSQLi_L s hok hsp

/-- non-vacuity: an input with a money literal, a bracketed q-string and an escaped quote meets the
hypotheses; its verdict is decided by the kernel -/
example : CaseOK (bs "1 UnIoN SeLeCt $1, q'[x]', 'a\\'b'") := by
  apply caseOKb_sound; decide +kernel

example : CaseEq [85, 110, 73, 111, 78] [117, 78, 105, 79, 110] ∧ searchKeyword [85, 110, 73, 111, 78] = 85 := by
  constructor
  · unfold CaseEq; decide
  · decide +kernel

end LibInj.Properties.C10
