import LibInj.Proofs.Case
import LibInj.Proofs.LexOK
import LibInj.Sqli.Check
set_option linter.unusedSimpArgs false
/-! # C10 — SQLi detection is insensitive to ASCII letter case

Proved: every place where the pipeline *compares letters* is invariant under ASCII case
re-assignment —

* `searchKeyword_case` — keyword / phrase / fingerprint look-up (via `goUpper_case_invariant`);
* `toUpperCmp_case` — the literal comparisons of `fold`/`isUnaryOp`/`notWhitelist` (`NOT`, `IN`,
  `LIKE`, `USER`, `INTO`, the eleven function names);
* `dispatch_case` — both cases of every letter are routed to the same lexer (table fact over the
  regenerated dispatch table);
* `fpKey_case` — the blacklist key `"0" ++ upper fingerprint`;
* `scan_predicates_case` — the byte classes of the scans (word/variable delimiters, digits) do not
  separate the two cases of a letter, except `isHexDigit` which accepts both.

The exempt positions are exactly where the code compares a letter case-sensitively: `\N`
(`parseBackSlash`), dollar-quote tags (`strings.Index` with the raw tag), q-string delimiters, and
the marker `sp_password` (`strings.Contains`).

Not yet a theorem (`sqli_case_insensitive_statement`): congruence of every lexer and of `fold` over
token values that are `CaseEq` — decided by the case re-assignment oracle (exhaustive for ≤ 10
letters per input in the thorough tier) over every generated input and every keyword of the table. -/
namespace LibInj.Properties.C10
open LibInj LibInj.Sqli

theorem searchKeyword_case (w w' : Bytes) (h : CaseEq w w') : searchKeyword w = searchKeyword w' := by
  unfold searchKeyword
  rw [goUpper_case_invariant w w' h]

theorem toUpperCmp_case (lit w w' : Bytes) (h : CaseEq w w') : toUpperCmp lit w = toUpperCmp lit w' := by
  unfold toUpperCmp
  rw [goUpper_case_invariant w w' h]

theorem fpKey_case (f f' : Bytes) (h : CaseEq f f') : fpKey f = fpKey f' := by
  unfold fpKey
  have : f.map upperAscii = f'.map upperAscii := by
    have e : ∀ l : Bytes, l.map upperAscii = (l.map lowerAscii).map upperAscii := by
      intro l; rw [List.map_map]; congr 1; funext c; exact (upper_lower c).symm
    rw [e f, e f', show f.map lowerAscii = f'.map lowerAscii from h]
  rw [this]

/-- table fact: an upper-case letter and its lower-case form are dispatched to the same lexer -/
theorem dispatch_case (c : UInt8) (h : isUpperAscii c = true) : dispatch c = dispatch (c + 32) := by
  have := forall_byte (fun c => !isUpperAscii c || dispatch c == dispatch (c + 32)) (by decide +kernel) c
  rw [h] at this
  simpa using this

/-- the scan predicates do not separate the two cases of a letter -/
theorem scan_predicates_case (c : UInt8) (h : isUpperAscii c = true) :
    notWordAccept c = notWordAccept (c + 32) ∧ notVarAccept c = notVarAccept (c + 32) ∧
    isDigit c = isDigit (c + 32) ∧ isHexDigit c = isHexDigit (c + 32) ∧ isLetter c = isLetter (c + 32) ∧
    isWhite c = isWhite (c + 32) := by
  have := forall_byte (fun c => !isUpperAscii c ||
      (notWordAccept c == notWordAccept (c + 32) && notVarAccept c == notVarAccept (c + 32) &&
       isDigit c == isDigit (c + 32) && isHexDigit c == isHexDigit (c + 32) && isLetter c == isLetter (c + 32) &&
       isWhite c == isWhite (c + 32))) (by decide +kernel) c
  rw [h] at this
  simp only [Bool.not_true, Bool.false_or, Bool.and_eq_true, beq_iff_eq] at this
  obtain ⟨⟨⟨⟨⟨a, b⟩, c'⟩, d⟩, e⟩, f⟩ := this
  exact ⟨a, b, c', d, e, f⟩

def sqli_case_insensitive_statement : Prop :=
  ∀ (s s' : Bytes), CaseEq s s' →
    (∀ i : Nat, s[i]? = some (92 : UInt8) → s[i+1]? ≠ some (78 : UInt8) ∧ s[i+1]? ≠ some (110 : UInt8)) →   -- no `\\N`
    (36 : UInt8) ∉ s →                                                     -- no dollar-quote tag
    (∀ i : Nat, (s[i]? = some (113 : UInt8) ∨ s[i]? = some (81 : UInt8)) → s[i+1]? ≠ some (39 : UInt8)) →      -- no q-string
    ¬ contains (s.map lowerAscii) spPassword = true →                      -- no case variant of sp_password
    isSQLi s = isSQLi s'

example : CaseEq [85, 110, 73, 111, 78] [117, 78, 105, 79, 110] ∧ searchKeyword [85, 110, 73, 111, 78] = 85 := by
  constructor
  · unfold CaseEq; decide
  · decide +kernel

end LibInj.Properties.C10
