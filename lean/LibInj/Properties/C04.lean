import LibInj.Xss.IsXSS
set_option linter.unusedSimpArgs false
/-! # C04 — canonical XSS vectors are detected in every HTML injection context

Proved (class E, over the lists regenerated from /repo on every build): every black tag, every
`on<event>` name and every black attribute is classified as dangerous by `isBlackTag` /
`isBlackAttr` in upper case, lower case, alternating case and with a NUL inserted after the first
byte; every scheme of the URL matcher is recognised by `isBlackURL` in lower case, behind leading
junk and with NUL/LF inside; the markup forms of the grammar are reported by `isXSS` on the model
(kernel-evaluated). A deleted or mistyped list entry, or a classifier that loses a spelling, breaks
these theorems without any test input having to hit it.

Not yet a theorem: the tokenizer lemmas that carry an arbitrary member of the grammar (any
breakout prefix, any separator run) to these classifier facts — `xss_grammar_detected_statement`;
the grammar is enumerated exhaustively to its bound on the implementation and on the model. -/
namespace LibInj.Properties.C04
open LibInj LibInj.Xss

def lowerB (s : Bytes) : Bytes := s.map lowerAscii
def altB : Bytes → Bytes
  | [] => []
  | [c] => [c]
  | c :: d :: t => c :: lowerAscii d :: altB t
def nulB : Bytes → Bytes
  | [] => []
  | c :: t => c :: 0 :: t

/-- the four spellings of a name used by the grammar -/
def spellings (s : Bytes) : List Bytes := [s, lowerB s, altB s, nulB (lowerB s)]

theorem black_tags_all_spellings :
    Gen.blackTags.all (fun t => (spellings t).all isBlackTag) = true := by decide +kernel

theorem black_attrs_all_spellings :
    Gen.blacks.all (fun a => (spellings a.1).all (fun s => isBlackAttr s == a.2) && a.2 != 0) = true := by
  decide +kernel

set_option maxRecDepth 100000 in
theorem black_events_all_spellings :
    Gen.blackEvents.all (fun e => (spellings (ON ++ e.1)).all (fun s => isBlackAttr s == e.2) && e.2 != 0) = true := by
  decide +kernel

def javascript : Bytes := [106,97,118,97,115,99,114,105,112,116,58]
def vbscript : Bytes := [118,98,115,99,114,105,112,116,58]
def dataS : Bytes := [100,97,116,97,58]
def viewSource : Bytes := [118,105,101,119,45,115,111,117,114,99,101,58]

theorem schemes_recognised :
    [javascript, vbscript, dataS, viewSource].all (fun s =>
      isOkTrue (isBlackURL s) && isOkTrue (isBlackURL ([1, 32, 0x7f, 0xe9] ++ s)) &&
      isOkTrue (isBlackURL (s.take 2 ++ [0, 10] ++ s.drop 2)) &&
      isOkTrue (isBlackURL ([38,35,49,48,54,59] ++ s.drop 1) ) == (s.head? == some 106)) = true := by
  decide +kernel

/-- `<!DOCTYPE x`, `<!ENTITY x>`, `<?import x>`, `<?xml x>`, `<!--[if x]>`, a back-tick inside `<!-- -->` and `<% %>` -/
def markupForms : List Bytes :=
  [[60,33,68,79,67,84,89,80,69,32,120], [60,33,69,78,84,73,84,89,32,120,62], [60,63,105,109,112,111,114,116,32,120,62],
   [60,63,120,109,108,32,120,62], [60,33,45,45,91,105,102,32,120,93,62], [60,33,45,45,96,45,45,62], [60,37,96,37,62]]

theorem markup_forms_detected : markupForms.all (fun s => isOkTrue (isXSS s)) = true := by decide +kernel

def xss_grammar_detected_statement : Prop :=
  ∀ (prefix_ : Bytes) (t : Bytes), t ∈ Gen.blackTags → (60 : UInt8) ∉ prefix_ →
    isXSS (prefix_ ++ [60] ++ t ++ [62]) = .ok true

example : isBlackTag [115, 0, 99, 114, 105, 112, 116] = true := by decide +kernel

end LibInj.Properties.C04
