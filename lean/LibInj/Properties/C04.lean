import LibInj.Xss.IsXSS
import LibInj.Proofs.XssLift
import LibInj.Proofs.XssShift
import LibInj.Proofs.SchemeEnc
import LibInj.Proofs.XssMarkup
set_option linter.unusedSimpArgs false
/-! # C04 — canonical XSS vectors are detected in every HTML injection context

Proved (class E, over the lists regenerated from /repo on every build): every black tag, every
`on<event>` name and every black attribute is classified as dangerous by `isBlackTag` /
`isBlackAttr` in upper case, lower case, alternating case and with a NUL inserted after the first
byte; every scheme of the URL matcher is recognised by `isBlackURL` in lower case, behind leading
junk and with NUL/LF inside; the markup forms of the grammar are reported by `isXSS` on the model
(kernel-evaluated). A deleted or mistyped list entry, or a classifier that loses a spelling, breaks
these theorems without any test input having to hit it.

**Proved for every input of these shapes (the tokenizer side, `Proofs/XssLift`):**

* `black_element_detected` — after any `<`-free text, `<name` followed by a byte that ends the name
  (white space, `/`, `>`) or by end of input, then by **anything**, is reported, for every name that
  is a case re-spelling of a listed element;
* `event_handler_detected_*`, `style_detected_*` — `name = value` with `name` a case re-spelling of
  `on<event>` for a listed event (or `style`/`filter`-class names the classifier rates 3), any blanks
  around `=`, and **any** value (quoted, back-quoted or bare) followed by anything, is reported: in
  the tag context itself, on any element in element content, and after breaking out of a single-,
  double- or back-quoted value;
* `listed_attribute_detected_in_tag` / `_in_element` — every **listed** attribute of the always-dangerous class
  (`datasrc`, `dataformatas`, `xmlns`, … class 1) or of the style class (`style`, `filter`), in any letter case, with any value;
* `script_url_detected_*` — a URL-bearing attribute with a quoted value that, after leading control
  bytes, spells a script-capable scheme through any mix of encodings (C19's `Enc`) is reported.

* `doctype_detected`, `pi_detected`, `decl_detected`, `comment_detected`, `percent_detected` — **the markup
  forms for arbitrary content**: after any `<`-free text, `<!doctype` in any letter case followed by anything;
  and a `<? … >`, `<! … >`, `<!-- … -->`, `<% … %>` construct (closed, or running to the end of input) whose
  text carries one of the markers the classifier looks for — a back-tick anywhere, or `[if`, `xml`, `import`,
  `entity` (any case, NULs tolerated in the last two) at its start — whatever follows the construct.

* `comment_detected_dashes`, `comment_detected_general` — **comment bodies with dashes**: the body may contain dashes
  (any text free of `>`, or more generally any text in which no terminator `-` NUL* (`-`|`!`) `>` starts), and the
  terminator may be `-->`, `-!>` or `--!>`.

NUL bytes inside names: C11's `nul_in_name` (every name token, every context). -/
namespace LibInj.Properties.C04
open LibInj LibInj.Xss LibInj.H5

def lowerB (s : Bytes) : Bytes := s.map lowerAscii
def altB : Bytes → Bytes
  | [] => []
  | [c] => [c]
  | c :: d :: t => c :: lowerAscii d :: altB t
def nulB : Bytes → Bytes
  | [] => []
  | c :: t => c :: 0 :: t

/-- the four spellings of a name used by the grammar -/
def spellings (s : Bytes) : List Bytes := [s, lowerB s, altB s, nulB (lowerB s)]

theorem black_tags_all_spellings :
    Gen.blackTags.all (fun t => (spellings t).all isBlackTag) = true := by decide +kernel

theorem black_attrs_all_spellings :
    Gen.blacks.all (fun a => (spellings a.1).all (fun s => isBlackAttr s == a.2) && a.2 != 0) = true := by
  decide +kernel

set_option maxRecDepth 100000 in
theorem black_events_all_spellings :
    Gen.blackEvents.all (fun e => (spellings (ON ++ e.1)).all (fun s => isBlackAttr s == e.2) && e.2 != 0) = true := by
  decide +kernel

def javascript : Bytes := [106,97,118,97,115,99,114,105,112,116,58]
def vbscript : Bytes := [118,98,115,99,114,105,112,116,58]
def dataS : Bytes := [100,97,116,97,58]
def viewSource : Bytes := [118,105,101,119,45,115,111,117,114,99,101,58]

theorem schemes_recognised :
    [javascript, vbscript, dataS, viewSource].all (fun s =>
      isOkTrue (isBlackURL s) && isOkTrue (isBlackURL ([1, 32, 0x7f, 0xe9] ++ s)) &&
      isOkTrue (isBlackURL (s.take 2 ++ [0, 10] ++ s.drop 2)) &&
      isOkTrue (isBlackURL ([38,35,49,48,54,59] ++ s.drop 1) ) == (s.head? == some 106)) = true := by
  decide +kernel

/-- `<!DOCTYPE x`, `<!ENTITY x>`, `<?import x>`, `<?xml x>`, `<!--[if x]>`, a back-tick inside `<!-- -->` and `<% %>` -/
def markupForms : List Bytes :=
  [[60,33,68,79,67,84,89,80,69,32,120], [60,33,69,78,84,73,84,89,32,120,62], [60,63,105,109,112,111,114,116,32,120,62],
   [60,63,120,109,108,32,120,62], [60,33,45,45,91,105,102,32,120,93,62], [60,33,45,45,96,45,45,62], [60,37,96,37,62]]

theorem markup_forms_detected : markupForms.all (fun s => isOkTrue (isXSS s)) = true := by decide +kernel

/-- **DOCTYPE** in any letter case, after any `<`-free text, followed by anything -/
theorem doctype_detected (p w rest : Bytes) (hp : (60 : UInt8) ∉ p) (hw : w.length = 7) (hlow : goLowerAscii w = doctypeLower) :
    isXSSCtx (p ++ 60 :: 33 :: (w ++ rest)) 0 = .ok true := Xss.doctype_detected p w rest hp hw hlow

/-- **processing instruction** `<? T >` / `<? T` to the end of input, `T` free of `>` and carrying a marker -/
theorem pi_detected (p T tail : Bytes) (hp : (60 : UInt8) ∉ p) (hT : (62 : UInt8) ∉ T) (htail : tail = [] ∨ ∃ r, tail = 62 :: r)
    (hm : Marker T) : isXSSCtx (p ++ 60 :: 63 :: (T ++ tail)) 0 = .ok true := Xss.pi_detected p T tail hp hT htail hm

/-- **declaration** `<! T >` that is not a doctype, CDATA section or comment (`<!ENTITY …`) -/
theorem decl_detected (p T' tail : Bytes) (c : UInt8) (hp : (60 : UInt8) ∉ p) (hT : (62 : UInt8) ∉ (c :: T'))
    (htail : tail = [] ∨ ∃ r, tail = 62 :: r) (h1 : lowerAscii c ≠ 100) (h2 : c ≠ 91) (h3 : c ≠ 45)
    (hm : Marker (c :: T')) : isXSSCtx (p ++ 60 :: 33 :: ((c :: T') ++ tail)) 0 = .ok true :=
  Xss.decl_detected p T' tail c hp hT htail h1 h2 h3 hm

/-- **comment** `<!-- T -->` (IE conditional comment, back-tick), `T` free of dashes -/
theorem comment_detected (p T tail : Bytes) (hp : (60 : UInt8) ∉ p) (hT : (45 : UInt8) ∉ T)
    (htail : tail = [] ∨ ∃ r, tail = 45 :: 45 :: 62 :: r) (hm : Marker T) :
    isXSSCtx (p ++ 60 :: 33 :: 45 :: 45 :: (T ++ tail)) 0 = .ok true := Xss.comment_detected p T tail hp hT htail hm

/-- **comment with dashes in its body**: `T` free of `>` (dashes allowed), followed by end of input, `-->` or `-!>` (hence
also `--!>`: the body then ends in a dash) -/
theorem comment_detected_dashes (p T tail : Bytes) (hp : (60 : UInt8) ∉ p) (hT : (62 : UInt8) ∉ T)
    (htail : tail = [] ∨ ∃ e r, (e = 45 ∨ e = 33) ∧ tail = 45 :: e :: 62 :: r) (hm : Marker T) :
    isXSSCtx (p ++ 60 :: 33 :: 45 :: 45 :: (T ++ tail)) 0 = .ok true := Xss.comment_detected_dashes p T tail hp hT htail hm

/-- **comment, general form**: any body in which no terminator `-` NUL* (`-`|`!`) `>` starts (the body is exactly the
text before the first terminator) -/
theorem comment_detected_general (p T tail : Bytes) (hp : (60 : UInt8) ∉ p)
    (hT : ∀ j n, j < T.length → ¬ ComEnd (T ++ tail) j n)
    (htail : tail = [] ∨ ∃ e r, (e = 45 ∨ e = 33) ∧ tail = 45 :: e :: 62 :: r) (hm : Marker T) :
    isXSSCtx (p ++ 60 :: 33 :: 45 :: 45 :: (T ++ tail)) 0 = .ok true := Xss.comment_detected_general p T tail hp hT htail hm

/-- non-vacuity: `x<!--[if IE-6]-a--!>y` — body `[if IE-6]-a-` (dashes, no `>`), terminator `-!>` -/
example : isXSSCtx ([120] ++ 60 :: 33 :: 45 :: 45 :: ([91, 105, 102, 32, 73, 69, 45, 54, 93, 45, 97, 45] ++ [45, 33, 62, 121])) 0 = .ok true :=
  comment_detected_dashes [120] [91, 105, 102, 32, 73, 69, 45, 54, 93, 45, 97, 45] [45, 33, 62, 121] (by decide) (by decide)
    (Or.inr ⟨33, [121], Or.inr rfl, rfl⟩) (Or.inr (Or.inl ⟨105, 102, 32, _, rfl, by decide⟩))

/-- **`<% T %>`**, `T` free of `%` -/
theorem percent_detected (p T tail : Bytes) (hp : (60 : UInt8) ∉ p) (hT : (37 : UInt8) ∉ T)
    (htail : tail = [] ∨ ∃ r, tail = 37 :: 62 :: r) (hm : Marker T) :
    isXSSCtx (p ++ 60 :: 37 :: (T ++ tail)) 0 = .ok true := Xss.percent_detected p T tail hp hT htail hm

/-- non-vacuity: `[if IE]>` carries the IE-conditional marker, `EnTiTy x` the entity marker -/
example : Marker [91, 105, 102, 32, 73, 69, 93, 62] ∧ Marker [69, 110, 84, 105, 84, 121, 32, 120] := by
  refine ⟨Or.inr (Or.inl ⟨105, 102, 32, _, rfl, by decide⟩), Or.inr (Or.inr (Or.inr ⟨69, 110, 84, 105, 84, 121, _, rfl, Or.inr (by decide)⟩))⟩

theorem isBlackTag_caseEq (s s' : Bytes) (h : CaseEq s s') : isBlackTag s = isBlackTag s' := by
  unfold isBlackTag
  rw [CaseEq.length h, goUpper_case_invariant _ _ (stripNul_caseEq s s' h)]

theorem isBlackAttr_caseEq (s s' : Bytes) (h : CaseEq s s') : isBlackAttr s = isBlackAttr s' := by
  unfold isBlackAttr
  rw [goUpper_case_invariant _ _ (stripNul_caseEq s s' h)]

theorem isXSS_of_ctx0 (s : Bytes) (h : isXSSCtx s 0 = .ok true) : isXSS s = .ok true := by
  unfold isXSS; simp [h, bind, Except.bind, pure, Except.pure]
theorem isXSS_of_ctx (s : Bytes) (c : Nat) (hc : c < 5) (h : isXSSCtx s c = .ok true) : isXSS s = .ok true := by
  obtain ⟨b0, h0⟩ := isXSSCtx_total s 0
  obtain ⟨b1, h1⟩ := isXSSCtx_total s 1
  obtain ⟨b2, h2⟩ := isXSSCtx_total s 2
  obtain ⟨b3, h3⟩ := isXSSCtx_total s 3
  obtain ⟨b4, h4⟩ := isXSSCtx_total s 4
  unfold isXSS
  simp only [h0, h1, h2, h3, h4, bind, Except.bind, pure, Except.pure]
  match c, hc with
  | 0, _ => rw [h] at h0; cases h0; simp
  | 1, _ => rw [h] at h1; cases h1; cases b0 <;> simp
  | 2, _ => rw [h] at h2; cases h2; cases b0 <;> cases b1 <;> simp
  | 3, _ => rw [h] at h3; cases h3; cases b0 <;> cases b1 <;> cases b2 <;> simp
  | 4, _ => rw [h] at h4; cases h4; cases b0 <;> cases b1 <;> cases b2 <;> cases b3 <;> simp

/-- a listed element is classified as dangerous (from `black_tags_all_spellings`) -/
theorem listed_tag_black (t : Bytes) (ht : t ∈ Gen.blackTags) : isBlackTag t = true := by
  have := List.all_eq_true.mp black_tags_all_spellings t ht
  simp only [spellings, List.all_cons, Bool.and_eq_true] at this
  exact this.1

/-- **C04, elements.** Any case re-spelling of a listed element, after any `<`-free text and before
any text, is reported as XSS. -/
theorem black_element_detected (t name p rest : Bytes) (ht : t ∈ Gen.blackTags) (hcase : CaseEq name t)
    (hp : (60 : UInt8) ∉ p) (hn : NameAt name rest) : isXSS (p ++ 60 :: (name ++ rest)) = .ok true := by
  apply isXSS_of_ctx0
  apply black_tag_in_content p name rest hp hn
  rw [isBlackTag_caseEq name t hcase]; exact listed_tag_black t ht

/-- every listed event has the black class 1 -/
theorem events_class_one : Gen.blackEvents.all (fun e => e.2 == 1) = true := by decide +kernel

theorem listed_event_black (e : Bytes × Nat) (he : e ∈ Gen.blackEvents) (name : Bytes) (hcase : CaseEq name (ON ++ e.1)) :
    isBlackAttr name = 1 := by
  have h1 := List.all_eq_true.mp black_events_all_spellings e he
  have h2 := List.all_eq_true.mp events_class_one e he
  simp only [spellings, List.all_cons, Bool.and_eq_true, beq_iff_eq] at h1 h2
  rw [isBlackAttr_caseEq name _ hcase, h1.1.1, h2]

/-- **C04, event handlers** in the tag context (`x onerror=…`, `<a x onerror=…`) -/
theorem event_handler_detected_in_tag (e : Bytes × Nat) (he : e ∈ Gen.blackEvents) (name ws ws2 rest : Bytes) (c : UInt8)
    (hcase : CaseEq name (ON ++ e.1)) (hws : ws.all isSkipWhite = true) (hws2 : ws2.all isSkipWhite = true)
    (hc : isSkipWhite c = false) (hn : AttrAt name) : isXSS (ws ++ name ++ 61 :: (ws2 ++ c :: rest)) = .ok true :=
  isXSS_of_ctx _ 1 (by omega) (black_attr_in_tag_context ws name ws2 rest c hws hws2 hc hn (Or.inl (listed_event_black e he name hcase)))

/-- … on any element in element content -/
theorem event_handler_detected_in_element (e : Bytes × Nat) (he : e ∈ Gen.blackEvents) (p tag name ws ws2 rest : Bytes) (w c : UInt8)
    (hcase : CaseEq name (ON ++ e.1)) (hp : (60 : UInt8) ∉ p)
    (hn : NameAt tag (w :: (ws ++ name ++ 61 :: (ws2 ++ c :: rest)))) (hw : isH5White w = true)
    (hws : ws.all isSkipWhite = true) (hws2 : ws2.all isSkipWhite = true) (hc : isSkipWhite c = false) (ha : AttrAt name) :
    isXSS (p ++ 60 :: (tag ++ w :: (ws ++ name ++ 61 :: (ws2 ++ c :: rest)))) = .ok true :=
  isXSS_of_ctx0 _ (black_attr_in_element p tag ws name ws2 rest w c hp hn hw hws hws2 hc ha (Or.inl (listed_event_black e he name hcase)))

/-- … after breaking out of a quoted attribute value (`'`, `"`, back-tick) -/
theorem event_handler_detected_after_breakout (e : Bytes × Nat) (he : e ∈ Gen.blackEvents) (q : UInt8)
    (hq : q = 39 ∨ q = 34 ∨ q = 96) (u name ws ws2 rest : Bytes) (w c : UInt8) (hcase : CaseEq name (ON ++ e.1))
    (hu : q ∉ u) (hw : isH5White w = true) (hws : ws.all isSkipWhite = true) (hws2 : ws2.all isSkipWhite = true)
    (hc : isSkipWhite c = false) (hn : AttrAt name) :
    isXSS (u ++ q :: w :: (ws ++ name ++ 61 :: (ws2 ++ c :: rest))) = .ok true := by
  have hb := Or.inl (b := isBlackAttr name = 3) (listed_event_black e he name hcase)
  rcases hq with rfl | rfl | rfl
  · exact isXSS_of_ctx _ 2 (by omega) (black_attr_after_breakout 2 39 (Or.inl ⟨rfl, rfl⟩) u ws name ws2 rest w c hu hw hws hws2 hc hn hb)
  · exact isXSS_of_ctx _ 3 (by omega) (black_attr_after_breakout 3 34 (Or.inr (Or.inl ⟨rfl, rfl⟩)) u ws name ws2 rest w c hu hw hws hws2 hc hn hb)
  · exact isXSS_of_ctx _ 4 (by omega) (black_attr_after_breakout 4 96 (Or.inr (Or.inr ⟨rfl, rfl⟩)) u ws name ws2 rest w c hu hw hws hws2 hc hn hb)

/-- **C04, `style`-class attributes** (the classifier's class 3), same three situations; here in the tag context -/
theorem style_detected_in_tag (name ws ws2 rest : Bytes) (c : UInt8) (h3 : isBlackAttr name = 3)
    (hws : ws.all isSkipWhite = true) (hws2 : ws2.all isSkipWhite = true) (hc : isSkipWhite c = false) (hn : AttrAt name) :
    isXSS (ws ++ name ++ 61 :: (ws2 ++ c :: rest)) = .ok true :=
  isXSS_of_ctx _ 1 (by omega) (black_attr_in_tag_context ws name ws2 rest c hws hws2 hc hn (Or.inr h3))

/-- **C04 with C19, script URLs**: a URL-bearing attribute (class 2) on any element in element
content whose quoted value, after leading control bytes, spells a script-capable scheme through any
mix of encodings -/
theorem script_url_detected_in_element (p tag name ws ws2 junk enc rest sc : Bytes) (w q : UInt8)
    (hq : q = 34 ∨ q = 39 ∨ q = 96) (hp : (60 : UInt8) ∉ p)
    (hn : NameAt tag (w :: (ws ++ name ++ 61 :: (ws2 ++ q :: ((junk ++ enc) ++ q :: rest))))) (hw : isH5White w = true)
    (hws : ws.all isSkipWhite = true) (hws2 : ws2.all isSkipWhite = true) (hu : q ∉ junk ++ enc) (ha : AttrAt name)
    (h2 : isBlackAttr name = 2) (hj : ∀ c ∈ junk, urlJunk c = true) (hsc : sc ∈ urls) (henc : Enc sc enc) :
    isXSS (p ++ 60 :: (tag ++ w :: (ws ++ name ++ 61 :: (ws2 ++ q :: ((junk ++ enc) ++ q :: rest))))) = .ok true :=
  isXSS_of_ctx0 _ (url_attr_in_element p tag ws name ws2 (junk ++ enc) rest w q hq hp hn hw hws hws2 hu ha h2
    (scheme_enc_detected junk enc sc hj hsc henc))

/-- **C04, `/` as separator**: an event handler right after `<tag/` -/
theorem event_handler_detected_after_slash (e : Bytes × Nat) (he : e ∈ Gen.blackEvents) (p tag name ws ws2 rest : Bytes) (c : UInt8)
    (hcase : CaseEq name (ON ++ e.1)) (hp : (60 : UInt8) ∉ p)
    (hn : NameAt tag (47 :: (ws ++ name ++ 61 :: (ws2 ++ c :: rest))))
    (hws : ws.all isSkipWhite = true) (hws2 : ws2.all isSkipWhite = true) (hc : isSkipWhite c = false) (ha : AttrAt name) :
    isXSS (p ++ 60 :: (tag ++ 47 :: (ws ++ name ++ 61 :: (ws2 ++ c :: rest)))) = .ok true :=
  isXSS_of_ctx0 _ (black_attr_in_element_slash p tag ws name ws2 rest c hp hn hws hws2 hc ha (Or.inl (listed_event_black e he name hcase)))

/-- … a script URL in a quoted value right after `<tag/` -/
theorem script_url_detected_after_slash (p tag name ws ws2 junk enc rest sc : Bytes) (q : UInt8)
    (hq : q = 34 ∨ q = 39 ∨ q = 96) (hp : (60 : UInt8) ∉ p)
    (hn : NameAt tag (47 :: (ws ++ name ++ 61 :: (ws2 ++ q :: ((junk ++ enc) ++ q :: rest)))))
    (hws : ws.all isSkipWhite = true) (hws2 : ws2.all isSkipWhite = true) (hu : q ∉ junk ++ enc) (ha : AttrAt name)
    (h2 : isBlackAttr name = 2) (hj : ∀ c ∈ junk, urlJunk c = true) (hsc : sc ∈ urls) (henc : Enc sc enc) :
    isXSS (p ++ 60 :: (tag ++ 47 :: (ws ++ name ++ 61 :: (ws2 ++ q :: ((junk ++ enc) ++ q :: rest))))) = .ok true :=
  isXSS_of_ctx0 _ (url_attr_in_element_slash p tag ws name ws2 (junk ++ enc) rest q hq hp hn hws hws2 hu ha h2
    (scheme_enc_detected junk enc sc hj hsc henc))

/-- **C04, any quoting of the value**: a script URL in an *unquoted* value (ended by white space, `>` or
the end of the input), on any element in element content -/
theorem script_url_detected_unquoted (p tag name ws ws2 junk enc rest sc : Bytes) (w : UInt8) (hp : (60 : UInt8) ∉ p)
    (hn : NameAt tag (w :: (ws ++ name ++ 61 :: (ws2 ++ (junk ++ enc) ++ rest)))) (hw : isH5White w = true)
    (hws : ws.all isSkipWhite = true) (hws2 : ws2.all isSkipWhite = true) (hv : ValAt (junk ++ enc) rest) (ha : AttrAt name)
    (h2 : isBlackAttr name = 2) (hj : ∀ c ∈ junk, urlJunk c = true) (hsc : sc ∈ urls) (henc : Enc sc enc) :
    isXSS (p ++ 60 :: (tag ++ w :: (ws ++ name ++ 61 :: (ws2 ++ (junk ++ enc) ++ rest)))) = .ok true :=
  isXSS_of_ctx0 _ (url_attr_unquoted_in_element p tag ws name ws2 (junk ++ enc) rest w hp hn hw hws hws2 hv ha h2
    (scheme_enc_detected junk enc sc hj hsc henc))

/-- … and in the tag context -/
theorem script_url_detected_unquoted_in_tag (name ws ws2 junk enc rest sc : Bytes)
    (hws : ws.all isSkipWhite = true) (hws2 : ws2.all isSkipWhite = true) (hv : ValAt (junk ++ enc) rest) (ha : AttrAt name)
    (h2 : isBlackAttr name = 2) (hj : ∀ c ∈ junk, urlJunk c = true) (hsc : sc ∈ urls) (henc : Enc sc enc) :
    isXSS (ws ++ name ++ 61 :: (ws2 ++ (junk ++ enc) ++ rest)) = .ok true :=
  isXSS_of_ctx _ 1 (by omega) (url_attr_unquoted_in_tag_context ws name ws2 (junk ++ enc) rest hws hws2 hv ha h2
    (scheme_enc_detected junk enc sc hj hsc henc))

/-- **C04 with C13, contexts compose**: whatever is detected in the tag context is detected in element
content when it follows `<a ` after any `<`-free text -/
theorem tag_context_lifts_to_content (v p : Bytes) (hp : (60 : UInt8) ∉ p) (h : isXSSCtx v 1 = .ok true) :
    isXSS (p ++ ([60, 97, 32] ++ v)) = .ok true := by
  apply isXSS_of_ctx0
  rw [data_prefix _ p hp, embed_ctx1]
  exact h

/-- … and whatever is detected inside a `'`, `"` or back-tick value is detected when it follows `<a b=` + that quote -/
theorem value_context_lifts_to_content (v p : Bytes) (c : Nat) (q : UInt8) (hp : (60 : UInt8) ∉ p)
    (hc : c = 2 ∧ q = 39 ∨ c = 3 ∧ q = 34 ∨ c = 4 ∧ q = 96) (h : isXSSCtx v c = .ok true) :
    isXSS (p ++ ([60, 97, 32, 98, 61, q] ++ v)) = .ok true := by
  apply isXSS_of_ctx0
  rw [data_prefix _ p hp]
  rcases hc with ⟨rfl, rfl⟩ | ⟨rfl, rfl⟩ | ⟨rfl, rfl⟩
  · rw [embed_quote 39 2 (Or.inl rfl) rfl]; exact h
  · rw [embed_quote 34 3 (Or.inr (Or.inl rfl)) rfl]; exact h
  · rw [embed_quote 96 4 (Or.inr (Or.inr rfl)) rfl]; exact h

/-- non-vacuity of the unquoted form: `<a href=javascript:x>` -/
example : isOkTrue (isXSS (bs "<a href=javascript:x>")) = true := by decide +kernel

/-- non-vacuity: `href` is a URL-bearing attribute, `onerror` an event handler, `style` class 3 -/
example : isBlackAttr [104, 114, 101, 102] = 2 ∧ isBlackAttr [111, 110, 101, 114, 114, 111, 114] = 1 ∧
    isBlackAttr [115, 116, 121, 108, 101] = 3 := by decide +kernel

example : isBlackTag [115, 0, 99, 114, 105, 112, 116] = true := by decide +kernel

/-- a listed attribute is classified with its listed class, in any letter case (from `black_attrs_all_spellings`) -/
theorem listed_attr_class (a : Bytes × Nat) (ha : a ∈ Gen.blacks) (name : Bytes) (hcase : CaseEq name a.1) :
    isBlackAttr name = a.2 := by
  have h1 := List.all_eq_true.mp black_attrs_all_spellings a ha
  simp only [spellings, List.all_cons, Bool.and_eq_true, beq_iff_eq] at h1
  rw [isBlackAttr_caseEq name _ hcase, h1.1.1]

/-- **C04, listed attributes of the "always dangerous" class** (`datasrc`, `dataformatas`, `xmlns`, …: class 1) and of the
**style class** (`style`, `filter`: class 3), in any letter case, with any value: in the tag context -/
theorem listed_attribute_detected_in_tag (a : Bytes × Nat) (ha : a ∈ Gen.blacks) (hcl : a.2 = 1 ∨ a.2 = 3)
    (name ws ws2 rest : Bytes) (c : UInt8) (hcase : CaseEq name a.1) (hws : ws.all isSkipWhite = true)
    (hws2 : ws2.all isSkipWhite = true) (hc : isSkipWhite c = false) (hn : AttrAt name) :
    isXSS (ws ++ name ++ 61 :: (ws2 ++ c :: rest)) = .ok true :=
  isXSS_of_ctx _ 1 (by omega) (black_attr_in_tag_context ws name ws2 rest c hws hws2 hc hn
    (by rw [listed_attr_class a ha name hcase]; exact hcl))

/-- … on any element in element content -/
theorem listed_attribute_detected_in_element (a : Bytes × Nat) (ha : a ∈ Gen.blacks) (hcl : a.2 = 1 ∨ a.2 = 3)
    (p tag name ws ws2 rest : Bytes) (w c : UInt8) (hcase : CaseEq name a.1) (hp : (60 : UInt8) ∉ p)
    (hn : NameAt tag (w :: (ws ++ name ++ 61 :: (ws2 ++ c :: rest)))) (hw : isH5White w = true)
    (hws : ws.all isSkipWhite = true) (hws2 : ws2.all isSkipWhite = true) (hc : isSkipWhite c = false) (hat : AttrAt name) :
    isXSS (p ++ 60 :: (tag ++ w :: (ws ++ name ++ 61 :: (ws2 ++ c :: rest)))) = .ok true :=
  isXSS_of_ctx0 _ (black_attr_in_element p tag ws name ws2 rest w c hp hn hw hws hws2 hc hat
    (by rw [listed_attr_class a ha name hcase]; exact hcl))

/-- non-vacuity: `DATASRC` is listed with class 1, `STYLE` with class 3 -/
example : (([68,65,84,65,83,82,67], 1) : Bytes × Nat) ∈ Gen.blacks ∧ (([83,84,89,76,69], 3) : Bytes × Nat) ∈ Gen.blacks := by
  decide +kernel

end LibInj.Properties.C04
