import LibInj.Proofs.Case
import LibInj.Xss.IsXSS
import LibInj.Proofs.XssCase
import LibInj.Proofs.NulClass
import LibInj.Proofs.XssNul
set_option linter.unusedSimpArgs false
/-! # C11 — XSS detection is insensitive to letter case and to NUL bytes inside names

**Proved for every pair of inputs (`xss_case_insensitive`, the letter-case clause of the property):**
if `s` and `s'` differ only in the case of ASCII letters and neither contains the marker `[CDATA[`
(the only case-sensitive one), then `isXSS s = isXSS s'`. The proof shows that every state function
of the HTML5 tokenizer commutes with lower-casing its input (`next_L` — the machine inspects letters
only through `isAlpha` and the `doctype` fold; every byte it searches for or compares with is a
non-letter), that the character-reference decoder consumes the same bytes and yields values equal up
to the case of a literal letter (`htmlDecodeByteAt_L`; the hex map is case-blind: table fact), that
the URL matcher, the comment tests and the classifiers are case-blind, and that the `isXSS` loop
therefore returns the same verdict (`xssLoop_L`).

Proved for every name (the classifiers are where names meet the black lists):

* `isBlackTag_case`, `isBlackAttr_case` — re-assigning the case of ASCII letters changes neither
  classification;
* `isBlackTag_nul`, `isBlackAttr_nul` — inserting a NUL byte anywhere in a name changes neither
  classification; for tags this needs the table fact that no black tag is shorter than 3 bytes
  (`black_tags_min_length`, re-checked on every build);
* `name_scan_nul` — a NUL is an ordinary name byte for both name scans.

**NUL clause at tokenizer level, first element name (`nul_in_first_element_name`):** after any `<`-free
text, inserting a NUL strictly inside the element name never changes the element-content verdict — the
verdict on `text <name rest` is "`name` is black, or the verdict of what follows", and what follows is read
from a machine state that depends on `rest` alone (shift naturality, C13). For names further inside the
input the clause is decided by the NUL metamorphic oracle over every generated input and every list entry. -/
namespace LibInj.Properties.C11
open LibInj LibInj.Xss LibInj.H5

theorem isBlackTag_case (s s' : Bytes) (h : CaseEq s s') : isBlackTag s = isBlackTag s' := by
  unfold isBlackTag
  rw [CaseEq.length h, goUpper_case_invariant _ _ (stripNul_caseEq s s' h)]

theorem isBlackAttr_case (s s' : Bytes) (h : CaseEq s s') : isBlackAttr s = isBlackAttr s' := by
  unfold isBlackAttr
  rw [goUpper_case_invariant _ _ (stripNul_caseEq s s' h)]

theorem isBlackAttr_nul (a b : Bytes) : isBlackAttr (a ++ 0 :: b) = isBlackAttr (a ++ b) := Xss.isBlackAttr_nul a b

/-- table fact: every black tag (and `SVT`, `XSL`) has at least 3 bytes -/
theorem black_tags_min_length : Gen.blackTags.all (fun t => decide (3 ≤ t.length)) = true ∧ SVT.length = 3 ∧ XSL.length = 3 :=
  Xss.black_tags_min_length

theorem isBlackTag_nul (a b : Bytes) : isBlackTag (a ++ 0 :: b) = isBlackTag (a ++ b) := Xss.isBlackTag_nul a b

/-- NUL is a name byte for the tag-name and attribute-name scans -/
theorem name_scan_nul : tagNameByte 0 = true ∧ attrNameByte 0 = true := by decide

def xss_case_insensitive_statement : Prop :=
  ∀ (s s' : Bytes), CaseEq s s' → (∀ i, (s.drop i).take 7 ≠ [91, 67, 68, 65, 84, 65, 91]) →
    (∀ i, (s'.drop i).take 7 ≠ [91, 67, 68, 65, 84, 65, 91]) → isXSS s = isXSS s'

example : CaseEq [83, 99, 82, 105, 112, 116] [115, 67, 114, 73, 80, 84] ∧ isBlackTag [83, 99, 0, 82, 105, 112, 116] = true := by
  constructor
  · unfold CaseEq; decide
  · decide +kernel

/-- **C11, NUL clause, first element name.** -/
theorem nul_in_first_element_name (p n1 n2 rest : Bytes) (hp : (60 : UInt8) ∉ p) (h1 : n1 ≠ []) (hn : NameAt (n1 ++ n2) rest) :
    isXSSCtx (p ++ 60 :: ((n1 ++ 0 :: n2) ++ rest)) 0 = isXSSCtx (p ++ 60 :: ((n1 ++ n2) ++ rest)) 0 :=
  nul_first_tag p n1 n2 rest hp h1 hn

/-- **C11, letter case: full clause.** -/
theorem xss_case_insensitive (s s' : Bytes) (h : CaseEq s s') (hno : NoCdata s) (hno' : NoCdata s') :
    isXSS s = isXSS s' := isXSS_case_insensitive s s' h hno hno'

/-- one step of the tokenizer commutes with lower-casing the input -/
theorem tokenizer_step_case (h : H) (hno : NoCdata h.s) : next (lowerH h) = mapR (next h) := next_L h hno

/-- non-vacuity: `<ScRiPt>` and `<script>` are case variants without a CDATA marker -/
example : CaseEq [60, 83, 99, 82, 105, 80, 116, 62] [60, 115, 99, 114, 105, 112, 116, 62] := by
  show List.map lowerAscii _ = List.map lowerAscii _
  decide

end LibInj.Properties.C11
