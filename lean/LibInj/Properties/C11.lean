import LibInj.Proofs.Case
import LibInj.Xss.IsXSS
set_option linter.unusedSimpArgs false
/-! # C11 — XSS detection is insensitive to letter case and to NUL bytes inside names

Proved for every name (the classifiers are where names meet the black lists):

* `isBlackTag_case`, `isBlackAttr_case` — re-assigning the case of ASCII letters changes neither
  classification (via `goUpper_case_invariant`: the model of `strings.ToUpper`, including its two
  non-ASCII special cases, is invariant under ASCII case re-assignment, and NUL-stripping commutes
  with it);
* `isBlackTag_nul`, `isBlackAttr_nul` — inserting a NUL byte anywhere in a name changes neither
  classification; for tags this needs the table fact that no black tag is shorter than 3 bytes
  (`black_tags_min_length`, re-checked on every build), because the raw-length guard `len < 3` is
  applied before the NULs are stripped;
* `name_scan_nul` — a NUL is an ordinary name byte for both name scans, so an inserted NUL moves
  the end of the name by exactly one.

Not yet a theorem (`xss_case_insensitive_statement`): congruence of the whole tokenizer under case
re-assignment (it inspects letters only through `isAlpha` and the `doctype` fold) — decided by the
case/NUL metamorphic oracle over every generated input and every list entry. -/
namespace LibInj.Properties.C11
open LibInj LibInj.Xss LibInj.H5

theorem isBlackTag_case (s s' : Bytes) (h : CaseEq s s') : isBlackTag s = isBlackTag s' := by
  unfold isBlackTag
  rw [CaseEq.length h, goUpper_case_invariant _ _ (stripNul_caseEq s s' h)]

theorem isBlackAttr_case (s s' : Bytes) (h : CaseEq s s') : isBlackAttr s = isBlackAttr s' := by
  unfold isBlackAttr
  rw [goUpper_case_invariant _ _ (stripNul_caseEq s s' h)]

theorem isBlackAttr_nul (a b : Bytes) : isBlackAttr (a ++ 0 :: b) = isBlackAttr (a ++ b) := by
  unfold isBlackAttr
  rw [stripNul_insert]

/-- table fact: every black tag (and `SVT`, `XSL`) has at least 3 bytes -/
theorem black_tags_min_length : Gen.blackTags.all (fun t => decide (3 ≤ t.length)) = true ∧ SVT.length = 3 ∧ XSL.length = 3 := by
  decide +kernel

theorem isBlackTag_nul (a b : Bytes) : isBlackTag (a ++ 0 :: b) = isBlackTag (a ++ b) := by
  unfold isBlackTag
  rw [stripNul_insert]
  by_cases h3 : (a ++ b).length < 3
  · -- the shorter name is rejected by the raw-length guard; the longer one cannot match a list entry
    have hl : ¬ (a ++ 0 :: b).length < 3 ∨ (a ++ 0 :: b).length < 3 := by omega
    simp only [h3, ↓reduceIte]
    by_cases h3' : (a ++ 0 :: b).length < 3
    · simp only [h3', ↓reduceIte]
    · simp only [h3', ↓reduceIte]
      have hu : (goUpper (stripNul (a ++ b))).length < 3 := by
        have h1 := goUpper_length_le _ (stripNul (a ++ b)) (Nat.le_refl _)
        have h2 : (stripNul (a ++ b)).length ≤ (a ++ b).length := by unfold stripNul; exact List.length_filter_le _ _
        omega
      obtain ⟨t1, t2, t3⟩ := black_tags_min_length
      have hc : Gen.blackTags.contains (goUpper (stripNul (a ++ b))) = false := by
        cases hcc : Gen.blackTags.contains (goUpper (stripNul (a ++ b))) with
        | false => rfl
        | true =>
          have hm : goUpper (stripNul (a ++ b)) ∈ Gen.blackTags := by simpa using hcc
          have := List.all_eq_true.mp t1 _ hm
          simp at this; omega
      have hs : (goUpper (stripNul (a ++ b)) == SVT) = false := by
        cases hcc : goUpper (stripNul (a ++ b)) == SVT with
        | false => rfl
        | true => have : goUpper (stripNul (a ++ b)) = SVT := by simpa using hcc
                  rw [this, t2] at hu; omega
      have hx : (goUpper (stripNul (a ++ b)) == XSL) = false := by
        cases hcc : goUpper (stripNul (a ++ b)) == XSL with
        | false => rfl
        | true => have : goUpper (stripNul (a ++ b)) = XSL := by simpa using hcc
                  rw [this, t3] at hu; omega
      rw [hc, hs, hx]; rfl
  · have h3' : ¬ (a ++ 0 :: b).length < 3 := by simp at h3 ⊢; omega
    simp only [h3, h3', ↓reduceIte]

/-- NUL is a name byte for the tag-name and attribute-name scans -/
theorem name_scan_nul : tagNameByte 0 = true ∧ attrNameByte 0 = true := by decide

def xss_case_insensitive_statement : Prop :=
  ∀ (s s' : Bytes), CaseEq s s' → (∀ i, (s.drop i).take 7 ≠ [91, 67, 68, 65, 84, 65, 91]) →
    (∀ i, (s'.drop i).take 7 ≠ [91, 67, 68, 65, 84, 65, 91]) → isXSS s = isXSS s'

example : CaseEq [83, 99, 82, 105, 112, 116] [115, 67, 114, 73, 80, 84] ∧ isBlackTag [83, 99, 0, 82, 105, 112, 116] = true := by
  constructor
  · unfold CaseEq; decide
  · decide +kernel

end LibInj.Properties.C11
