import LibInj.Proofs.Case
import LibInj.Xss.IsXSS
import LibInj.Proofs.XssCase
set_option linter.unusedSimpArgs false
/-! # C11 — XSS detection is insensitive to letter case and to NUL bytes inside names

**Proved for every pair of inputs (`xss_case_insensitive`, the letter-case clause of the property):**
if `s` and `s'` differ only in the case of ASCII letters and neither contains the marker `[CDATA[`
(the only case-sensitive one), then `isXSS s = isXSS s'`. The proof shows that every state function
of the HTML5 tokenizer commutes with lower-casing its input (`next_L` — the machine inspects letters
only through `isAlpha` and the `doctype` fold; every byte it searches for or compares with is a
non-letter), that the character-reference decoder consumes the same bytes and yields values equal up
to the case of a literal letter (`htmlDecodeByteAt_L`; the hex map is case-blind: table fact), that
the URL matcher, the comment tests and the classifiers are case-blind, and that the `isXSS` loop
therefore returns the same verdict (`xssLoop_L`).

Proved for every name (the classifiers are where names meet the black lists):

* `isBlackTag_case`, `isBlackAttr_case` — re-assigning the case of ASCII letters changes neither
  classification;
* `isBlackTag_nul`, `isBlackAttr_nul` — inserting a NUL byte anywhere in a name changes neither
  classification; for tags this needs the table fact that no black tag is shorter than 3 bytes
  (`black_tags_min_length`, re-checked on every build);
* `name_scan_nul` — a NUL is an ordinary name byte for both name scans.

Not yet a theorem: the NUL clause at tokenizer level (an inserted NUL shifts every later offset by
one) — decided by the NUL metamorphic oracle over every generated input and every list entry. -/
namespace LibInj.Properties.C11
open LibInj LibInj.Xss LibInj.H5

theorem isBlackTag_case (s s' : Bytes) (h : CaseEq s s') : isBlackTag s = isBlackTag s' := by
  unfold isBlackTag
  rw [CaseEq.length h, goUpper_case_invariant _ _ (stripNul_caseEq s s' h)]

theorem isBlackAttr_case (s s' : Bytes) (h : CaseEq s s') : isBlackAttr s = isBlackAttr s' := by
  unfold isBlackAttr
  rw [goUpper_case_invariant _ _ (stripNul_caseEq s s' h)]

theorem isBlackAttr_nul (a b : Bytes) : isBlackAttr (a ++ 0 :: b) = isBlackAttr (a ++ b) := by
  unfold isBlackAttr
  rw [stripNul_insert]

/-- table fact: every black tag (and `SVT`, `XSL`) has at least 3 bytes -/
theorem black_tags_min_length : Gen.blackTags.all (fun t => decide (3 ≤ t.length)) = true ∧ SVT.length = 3 ∧ XSL.length = 3 := by
  decide +kernel

theorem isBlackTag_nul (a b : Bytes) : isBlackTag (a ++ 0 :: b) = isBlackTag (a ++ b) := by
  unfold isBlackTag
  rw [stripNul_insert]
  by_cases h3 : (a ++ b).length < 3
  · -- the shorter name is rejected by the raw-length guard; the longer one cannot match a list entry
    have hl : ¬ (a ++ 0 :: b).length < 3 ∨ (a ++ 0 :: b).length < 3 := by omega
    simp only [h3, ↓reduceIte]
    by_cases h3' : (a ++ 0 :: b).length < 3
    · simp only [h3', ↓reduceIte]
    · simp only [h3', ↓reduceIte]
      have hu : (goUpper (stripNul (a ++ b))).length < 3 := by
        have h1 := goUpper_length_le _ (stripNul (a ++ b)) (Nat.le_refl _)
        have h2 : (stripNul (a ++ b)).length ≤ (a ++ b).length := by unfold stripNul; exact List.length_filter_le _ _
        omega
      obtain ⟨t1, t2, t3⟩ := black_tags_min_length
      have hc : Gen.blackTags.contains (goUpper (stripNul (a ++ b))) = false := by
        cases hcc : Gen.blackTags.contains (goUpper (stripNul (a ++ b))) with
        | false => rfl
        | true =>
          have hm : goUpper (stripNul (a ++ b)) ∈ Gen.blackTags := by simpa using hcc
          have := List.all_eq_true.mp t1 _ hm
          simp at this; omega
      have hs : (goUpper (stripNul (a ++ b)) == SVT) = false := by
        cases hcc : goUpper (stripNul (a ++ b)) == SVT with
        | false => rfl
        | true => have : goUpper (stripNul (a ++ b)) = SVT := by simpa using hcc
                  rw [this, t2] at hu; omega
      have hx : (goUpper (stripNul (a ++ b)) == XSL) = false := by
        cases hcc : goUpper (stripNul (a ++ b)) == XSL with
        | false => rfl
        | true => have : goUpper (stripNul (a ++ b)) = XSL := by simpa using hcc
                  rw [this, t3] at hu; omega
      rw [hc, hs, hx]; rfl
  · have h3' : ¬ (a ++ 0 :: b).length < 3 := by simp at h3 ⊢; omega
    simp only [h3, h3', ↓reduceIte]

/-- NUL is a name byte for the tag-name and attribute-name scans -/
theorem name_scan_nul : tagNameByte 0 = true ∧ attrNameByte 0 = true := by decide

def xss_case_insensitive_statement : Prop :=
  ∀ (s s' : Bytes), CaseEq s s' → (∀ i, (s.drop i).take 7 ≠ [91, 67, 68, 65, 84, 65, 91]) →
    (∀ i, (s'.drop i).take 7 ≠ [91, 67, 68, 65, 84, 65, 91]) → isXSS s = isXSS s'

example : CaseEq [83, 99, 82, 105, 112, 116] [115, 67, 114, 73, 80, 84] ∧ isBlackTag [83, 99, 0, 82, 105, 112, 116] = true := by
  constructor
  · unfold CaseEq; decide
  · decide +kernel

/-- **C11, letter case: full clause.** -/
theorem xss_case_insensitive (s s' : Bytes) (h : CaseEq s s') (hno : NoCdata s) (hno' : NoCdata s') :
    isXSS s = isXSS s' := isXSS_case_insensitive s s' h hno hno'

/-- one step of the tokenizer commutes with lower-casing the input -/
theorem tokenizer_step_case (h : H) (hno : NoCdata h.s) : next (lowerH h) = mapR (next h) := next_L h hno

/-- non-vacuity: `<ScRiPt>` and `<script>` are case variants without a CDATA marker -/
example : CaseEq [60, 83, 99, 82, 105, 80, 116, 62] [60, 115, 99, 114, 105, 112, 116, 62] := by
  show List.map lowerAscii _ = List.map lowerAscii _
  decide

end LibInj.Properties.C11
