import LibInj.Proofs.Case
import LibInj.Xss.IsXSS
import LibInj.Proofs.XssCase
import LibInj.Proofs.NulClass
import LibInj.Proofs.XssNul
import LibInj.Proofs.XssIns
set_option linter.unusedSimpArgs false
/-! # C11 — XSS detection is insensitive to letter case and to NUL bytes inside names

**Proved for every pair of inputs (`xss_case_insensitive`, the letter-case clause of the property):**
if `s` and `s'` differ only in the case of ASCII letters and neither contains the marker `[CDATA[`
(the only case-sensitive one), then `isXSS s = isXSS s'`. The proof shows that every state function
of the HTML5 tokenizer commutes with lower-casing its input (`next_L` — the machine inspects letters
only through `isAlpha` and the `doctype` fold; every byte it searches for or compares with is a
non-letter), that the character-reference decoder consumes the same bytes and yields values equal up
to the case of a literal letter (`htmlDecodeByteAt_L`; the hex map is case-blind: table fact), that
the URL matcher, the comment tests and the classifiers are case-blind, and that the `isXSS` loop
therefore returns the same verdict (`xssLoop_L`).

Proved for every name (the classifiers are where names meet the black lists):

* `isBlackTag_case`, `isBlackAttr_case` — re-assigning the case of ASCII letters changes neither
  classification;
* `isBlackTag_nul`, `isBlackAttr_nul` — inserting a NUL byte anywhere in a name changes neither
  classification; for tags this needs the table fact that no black tag is shorter than 3 bytes
  (`black_tags_min_length`, re-checked on every build);
* `name_scan_nul` — a NUL is an ordinary name byte for both name scans.

**NUL clause, full statement (`nul_in_name`):** for every input, every start context and every offset
strictly inside a tag-name or attribute-name token of that input in that context, inserting a NUL byte at
that offset does not change the context's verdict. The runs on `a ++ b` and `a ++ 0 :: b` are followed in lock
step: a tokenizer step that ends before the insertion point is the same step on both inputs (`Proofs/H5Ins`,
`next_loc`: all 20 state functions never look past what they consume, except for look-ahead the same step
consumes); the step that emits the name token containing the insertion point emits it one byte longer and
resumes one byte later — the classifiers ignore NULs; from there both machines read the same suffix (shift
naturality, C13). Non-overlap of tokens (C17) turns "offset inside a name token" into that lock-step run.
`nul_in_first_element_name` is the earlier special case (first element name after `<`-free text). -/
namespace LibInj.Properties.C11
open LibInj LibInj.Xss LibInj.H5

theorem isBlackTag_case (s s' : Bytes) (h : CaseEq s s') : isBlackTag s = isBlackTag s' := by
  unfold isBlackTag
  rw [CaseEq.length h, goUpper_case_invariant _ _ (stripNul_caseEq s s' h)]

theorem isBlackAttr_case (s s' : Bytes) (h : CaseEq s s') : isBlackAttr s = isBlackAttr s' := by
  unfold isBlackAttr
  rw [goUpper_case_invariant _ _ (stripNul_caseEq s s' h)]

theorem isBlackAttr_nul (a b : Bytes) : isBlackAttr (a ++ 0 :: b) = isBlackAttr (a ++ b) := Xss.isBlackAttr_nul a b

/-- table fact: every black tag (and `SVT`, `XSL`) has at least 3 bytes -/
theorem black_tags_min_length : Gen.blackTags.all (fun t => decide (3 ≤ t.length)) = true ∧ SVT.length = 3 ∧ XSL.length = 3 :=
  Xss.black_tags_min_length

theorem isBlackTag_nul (a b : Bytes) : isBlackTag (a ++ 0 :: b) = isBlackTag (a ++ b) := Xss.isBlackTag_nul a b

/-- NUL is a name byte for the tag-name and attribute-name scans -/
theorem name_scan_nul : tagNameByte 0 = true ∧ attrNameByte 0 = true := by decide

def xss_case_insensitive_statement : Prop :=
  ∀ (s s' : Bytes), CaseEq s s' → (∀ i, (s.drop i).take 7 ≠ [91, 67, 68, 65, 84, 65, 91]) →
    (∀ i, (s'.drop i).take 7 ≠ [91, 67, 68, 65, 84, 65, 91]) → isXSS s = isXSS s'

example : CaseEq [83, 99, 82, 105, 112, 116] [115, 67, 114, 73, 80, 84] ∧ isBlackTag [83, 99, 0, 82, 105, 112, 116] = true := by
  constructor
  · unfold CaseEq; decide
  · decide +kernel

/-- **C11, NUL clause, first element name.** -/
theorem nul_in_first_element_name (p n1 n2 rest : Bytes) (hp : (60 : UInt8) ∉ p) (h1 : n1 ≠ []) (hn : NameAt (n1 ++ n2) rest) :
    isXSSCtx (p ++ 60 :: ((n1 ++ 0 :: n2) ++ rest)) 0 = isXSSCtx (p ++ 60 :: ((n1 ++ n2) ++ rest)) 0 :=
  nul_first_tag p n1 n2 rest hp h1 hn

/-- the NUL clause of C11 at full strength -/
def nul_in_name_statement : Prop :=
  ∀ (s : Bytes) (ctx : Nat) (ts : List Tok), tokens s ctx = .ok ts → ∀ t ∈ ts,
    (t.ty = .tagNameOpen ∨ t.ty = .tagClose ∨ t.ty = .attrName) →
    ∀ m, t.off < m → m < t.off + t.len → isXSSCtx (s.take m ++ 0 :: s.drop m) ctx = isXSSCtx s ctx

/-- **C11, NUL clause: full statement.** -/
theorem nul_in_name : nul_in_name_statement :=
  fun s ctx ts hts t ht hname m hlo hhi => nul_in_name_token s ctx ts hts t ht hname m hlo hhi

def tokEq : M (List Tok) → List Tok → Bool
  | .ok a, b => a == b
  | _, _ => false

theorem tokEq_sound (r : M (List Tok)) (ts : List Tok) (h : tokEq r ts = true) : r = .ok ts := by
  cases r with
  | error e => cases h
  | ok a => simp only [tokEq, beq_iff_eq] at h; rw [h]

theorem isOkTrue_sound (r : M Bool) (h : isOkTrue r = true) : r = .ok true := by
  cases r with
  | error e => cases h
  | ok v => cases v <;> first | rfl | cases h

/-- non-vacuity: in `<a onclick=x>` (element content) the attribute name is the token at offset 3 of length 7;
a NUL after `on` leaves the verdict unchanged — and the verdict is `true` -/
example : isXSSCtx [60, 97, 32, 111, 110, 0, 99, 108, 105, 99, 107, 61, 120, 62] 0 = .ok true := by
  have h := nul_in_name [60, 97, 32, 111, 110, 99, 108, 105, 99, 107, 61, 120, 62] 0
    [⟨.tagNameOpen, 1, 1⟩, ⟨.attrName, 3, 7⟩, ⟨.attrValue, 11, 1⟩, ⟨.tagNameClose, 12, 1⟩] (tokEq_sound _ _ (by decide +kernel))
    ⟨.attrName, 3, 7⟩ (by simp) (Or.inr (Or.inr rfl)) 5 (by decide) (by decide)
  rw [show List.take 5 [60, 97, 32, 111, 110, 99, 108, 105, 99, 107, 61, 120, 62] ++ 0 :: List.drop 5 [60, 97, 32, 111, 110, 99, 108, 105, 99, 107, 61, 120, 62]
      = ([60, 97, 32, 111, 110, 0, 99, 108, 105, 99, 107, 61, 120, 62] : Bytes) from rfl] at h
  rw [h]
  exact isOkTrue_sound _ (by decide +kernel)

/-- **C11, letter case: full clause.** -/
theorem xss_case_insensitive (s s' : Bytes) (h : CaseEq s s') (hno : NoCdata s) (hno' : NoCdata s') :
    isXSS s = isXSS s' := isXSS_case_insensitive s s' h hno hno'

/-- one step of the tokenizer commutes with lower-casing the input -/
theorem tokenizer_step_case (h : H) (hno : NoCdata h.s) : next (lowerH h) = mapR (next h) := next_L h hno

/-- non-vacuity: `<ScRiPt>` and `<script>` are case variants without a CDATA marker -/
example : CaseEq [60, 83, 99, 82, 105, 80, 116, 62] [60, 115, 99, 114, 105, 112, 116, 62] := by
  show List.map lowerAscii _ = List.map lowerAscii _
  decide

end LibInj.Properties.C11
