import LibInj.Proofs.XssTotal
import LibInj.Proofs.TokenizeOK
import LibInj.Proofs.WhitelistOK
import LibInj.Properties.C01
import LibInj.Proofs.CoreCost
/-! # C09 — both detectors run in time linear in the input length

What a model can carry: **the number of loop iterations and of tokens is linear in `|s|`**. Every
loop of the model carries explicit fuel that is a linear function of the input length, and the
totality theorems show the fuel is never exhausted:

* `sql_scan_steps_linear` — one scan of the SQL tokenizer performs at most `|s|` emitting steps (each
  consumes at least one byte) — per parsing context, and `IsSQLi` runs at most five contexts;
* `fold_iterations_linear`, `fold_measure_decreases`, `fold_measure_linear` — the main loop of `fold`
  (which re-enters the tokenizer and rewrites its window in place, with rules that reset `left` to 0)
  performs at most `1015·|s| + 1015` iterations: each iteration that continues strictly lowers the
  measure `bigM ≤ 1015·|s| + 1014` or ends the input; the token-fetching loops inside consume a byte
  per round; and `sqli_all_loops_linear`: `IsSQLi` returns with every loop's (linear) fuel unexhausted;
* `closing_quote_iterations_linear` — the closing-quote search performs at most `|content|+1`
  `IndexByte` jumps (after the repair of the quadratic re-scan it is an invariant that the scan offset
  only moves forward: `coreLoop` recurses on `q+1`/`q+2` with `q >= k`);
* `string_scanner_work_linear` — **a cost model of the function the property names**: `coreLoopW` is `coreLoop`
  with a counter for the bytes examined (`IndexByte` up to and including the delimiter it finds, the backslashes
  immediately before it and the byte that ends their run, the byte after it for the doubled-delimiter test); it
  computes the same closing quote and examines at most `3·|content| + 3` bytes, for every content and delimiter —
  the search only moves forward (D4) and the backslash run it counts lies inside the segment just crossed (D5);
* `html_steps_linear` — from every context the HTML5 machine emits at most `3|s|+3` tokens and every
  emitting step strictly decreases `3·(bytes left) + rank(state)`;
* `decoder_steps_linear` — the character-reference decoder consumes at least one byte per call, so
  the scheme matcher makes at most `|value|` decoder calls per scheme.

What it cannot carry, and is **measured** instead: real CPU time; the cost of each iteration's
primitive (`IndexByte`, `strings.Index`, `ToUpper` on ≤ 32 bytes, `append`) and their amortisation
over the input (`fold` re-enters the tokenizer, the word lexer re-measures a word — the defects D4,
D5, D7 were exactly non-amortised primitives inside linearly many iterations). The check measures
min-of-5 wall time at n, 4n, 16n on ~125 adversarial families. The property is therefore claimed as
*partial proof + measured tie*. -/
namespace LibInj.Properties.C09
open LibInj LibInj.Sqli LibInj.H5 LibInj.Xss

theorem fun_isSQLi_total (s : Bytes) : ∃ r, isSQLi s = .ok r := LibInj.Properties.C01.isSQLi_total s

theorem sql_scan_steps_linear (input : Bytes) (flags : Nat) :
    ∃ ts sf, rawTokens input flags = .ok (ts, sf) ∧ ts.length ≤ input.length ∧
      ∀ rt ∈ ts, rt.before < rt.after := by
  obtain ⟨ts, sf, h, hok, _, hl, _⟩ := rawTokens_faithful input flags
  exact ⟨ts, sf, h, hl, fun rt hrt => (hok rt hrt).2.2.2.2.2.1⟩

/-- the main loop of `fold`, started after the leading skip loop, finishes within `1015·|s| + 1015`
iterations (`foldFuel`), for every input and flag word -/
theorem fold_iterations_linear (input : Bytes) (flags : Nat) :
    ∃ n s', fold (sqliInit input flags) = .ok (n, s') ∧ foldFuel input.length = 1015 * input.length + 1015 := by
  obtain ⟨n, s', h, _⟩ := fold_ok (sqliInit input flags) (sinv_init input flags) (init_empty input flags)
  exact ⟨n, s', h, rfl⟩

/-- every iteration that asks for another one ended the input or strictly lowered the measure -/
theorem fold_measure_decreases (f f' : FS) (hf : FInv f) (h : foldBody f = .ok (.cont f')) :
    f'.more = false ∨ bigM f' < bigM f := by
  obtain ⟨st, hst, hok⟩ := foldBody_ok f hf
  rw [h] at hst
  have e : Step.cont f' = st := Except.ok.inj hst
  subst e
  exact hok.2.2.2.2.2

/-- the measure is linear in the input length -/
theorem fold_measure_linear (f : FS) (hf : FInv f) : bigM f ≤ 1015 * f.s.input.length + 1014 := by
  have hm := mu_le f hf.2.2.1
  have hp := hf.2.2.1
  unfold bigM
  have h1 : (f.s.input.length - f.s.pos) * 1015 ≤ 1015 * f.s.input.length := by
    have : f.s.input.length - f.s.pos ≤ f.s.input.length := Nat.sub_le _ _
    omega
  have h2 : f.pos * 145 ≤ 870 := by omega
  generalize (f.s.input.length - f.s.pos) * 1015 = a at h1 ⊢
  generalize f.pos * 145 = b at h2 ⊢
  omega

/-- `IsSQLi` returns: no loop of the pipeline exhausts its fuel, and every fuel is a linear function
of the input length (`|s|+1`, `|s|+2`, `|s|+4`, `1015·|s|+1015`) -/
theorem sqli_all_loops_linear (s : Bytes) : ∃ r, isSQLi s = .ok r :=
  fun_isSQLi_total s

theorem closing_quote_iterations_linear (content : Bytes) (d : UInt8) (hd : d ≠ 92) :
    ∃ r, coreLoop content d 0 (content.length + 1) = .ok r := ⟨_, coreLoop_spec content d hd⟩

/-- the closing-quote search of `parseStringCore`, with its work counted: same result, at most `3·|content|+3` bytes examined -/
theorem string_scanner_work_linear (content : Bytes) (d : UInt8) (hd : d ≠ 92) :
    ∃ r, coreLoopW content d 0 (content.length + 1) = .ok r ∧ r.1 = Spec.closingQuote content d ∧ r.2 ≤ 3 * content.length + 3 :=
  coreLoopW_linear content d hd

/-- non-vacuity: on `\'\'\'x'` (three escaped quotes, then the closing one) the counter stays within the bound -/
example : (match coreLoopW [92, 39, 92, 39, 92, 39, 120, 39] 39 0 9 with | .ok (some 7, w) => decide (w ≤ 27) | _ => false) = true := by
  decide

theorem html_steps_linear (s : Bytes) (ctx : Nat) :
    ∃ ts, tokens s ctx = .ok ts ∧ ts.length ≤ 3 * s.length + 3 := by
  obtain ⟨ts, h1, _, h3⟩ := tokens_total s ctx
  exact ⟨ts, h1, h3⟩

theorem html_measure_decreases (h : H) (hi : Inv h) :
    ∃ b h', next h = .ok (b, h') ∧ (b = true → mu h' < mu h) := by
  obtain ⟨b, h', hr, _, hb⟩ := next_spec h hi
  exact ⟨b, h', hr, fun t => (hb t).1⟩

theorem decoder_steps_linear (s : Bytes) (hs : s ≠ []) :
    ∃ v c, htmlDecodeByteAt s = .ok (v, c) ∧ 1 ≤ c ∧ c ≤ s.length := by
  obtain ⟨v, c, h, _, _, h1, h2⟩ := htmlDecodeByteAt_ok s hs
  exact ⟨v, c, h, h1, h2⟩

/-- the full statement is about time and cannot be a theorem about a functional model -/
def C09_statement_informal : Prop := True

example : mu (init [60, 97, 62] 0) = 11 := by decide

end LibInj.Properties.C09
