import LibInj.Proofs.XssTotal
import LibInj.Proofs.TokenizeOK
/-! # C09 — both detectors run in time linear in the input length

What a model can carry: **the number of loop iterations and of tokens is linear in `|s|`**. Every
loop of the model carries explicit fuel that is a linear function of the input length, and the
totality theorems show the fuel is never exhausted:

* `sql_scan_steps_linear` — one scan of the SQL tokenizer performs at most `|s|` emitting steps (each
  consumes at least one byte) — per parsing context, and `IsSQLi` runs at most five contexts;
* `closing_quote_iterations_linear` — the closing-quote search performs at most `|content|+1`
  `IndexByte` jumps (after the repair of the quadratic re-scan it is an invariant that the scan offset
  only moves forward: `coreLoop` recurses on `q+1`/`q+2` with `q >= k`);
* `html_steps_linear` — from every context the HTML5 machine emits at most `3|s|+3` tokens and every
  emitting step strictly decreases `3·(bytes left) + rank(state)`;
* `decoder_steps_linear` — the character-reference decoder consumes at least one byte per call, so
  the scheme matcher makes at most `|value|` decoder calls per scheme.

What it cannot carry, and is **measured** instead: real CPU time; the cost of each iteration's
primitive (`IndexByte`, `strings.Index`, `ToUpper` on ≤ 32 bytes, `append`) and their amortisation
over the input (`fold` re-enters the tokenizer, the word lexer re-measures a word — the defects D4,
D5, D7 were exactly non-amortised primitives inside linearly many iterations). The check measures
min-of-5 wall time at n, 4n, 16n on ~125 adversarial families. The property is therefore claimed as
*partial proof + measured tie*. -/
namespace LibInj.Properties.C09
open LibInj LibInj.Sqli LibInj.H5 LibInj.Xss

theorem sql_scan_steps_linear (input : Bytes) (flags : Nat) :
    ∃ ts sf, rawTokens input flags = .ok (ts, sf) ∧ ts.length ≤ input.length ∧
      ∀ rt ∈ ts, rt.before < rt.after := by
  obtain ⟨ts, sf, h, hok, _, hl, _⟩ := rawTokens_faithful input flags
  exact ⟨ts, sf, h, hl, fun rt hrt => (hok rt hrt).2.2.2.2.2.1⟩

theorem closing_quote_iterations_linear (content : Bytes) (d : UInt8) (hd : d ≠ 92) :
    ∃ r, coreLoop content d 0 (content.length + 1) = .ok r := ⟨_, coreLoop_spec content d hd⟩

theorem html_steps_linear (s : Bytes) (ctx : Nat) :
    ∃ ts, tokens s ctx = .ok ts ∧ ts.length ≤ 3 * s.length + 3 := by
  obtain ⟨ts, h1, _, h3⟩ := tokens_total s ctx
  exact ⟨ts, h1, h3⟩

theorem html_measure_decreases (h : H) (hi : Inv h) :
    ∃ b h', next h = .ok (b, h') ∧ (b = true → mu h' < mu h) := by
  obtain ⟨b, h', hr, _, hb⟩ := next_spec h hi
  exact ⟨b, h', hr, fun t => (hb t).1⟩

theorem decoder_steps_linear (s : Bytes) (hs : s ≠ []) :
    ∃ v c, htmlDecodeByteAt s = .ok (v, c) ∧ 1 ≤ c ∧ c ≤ s.length := by
  obtain ⟨v, c, h, _, _, h1, h2⟩ := htmlDecodeByteAt_ok s hs
  exact ⟨v, c, h, h1, h2⟩

/-- the full statement is about time and cannot be a theorem about a functional model -/
def C09_statement_informal : Prop := True

example : mu (init [60, 97, 62] 0) = 11 := by decide

end LibInj.Properties.C09
