import LibInj.Proofs.TokenizeOK
/-! # C16 — SQL tokens are faithful, ordered slices of the input and scanning progresses

Proved for every input and every mode (`tokens_faithful`): the raw token stream exists; each token's
value is exactly the input bytes at its recorded offset (clipped to 31 bytes) — including the tokens
the code builds from constants (`#`, `-`, `.`, `$`): the dispatch-table facts show the input byte at
that offset *is* that constant; tokens lie inside the span consumed by their scan step; every scan
step consumes at least one byte; scan steps are adjacent and increasing from 0; the scan ends exactly
at end of input; the number of tokens is at most `|s|`.

The proof is the postcondition `LexOK` of each of the 22 lexers (`Proofs/LexOK`), the facts about the
regenerated dispatch table that justify each lexer's assumption about its first byte
(`dispatch_table_facts`, re-checked on every build), and induction over the scan.

The last clause — every token class is one of the documented class characters — is part of the
same theorem (`isClassU8 rt.tok.cat`): every lexer assigns a literal class, the class of a
keyword-table value (table fact `keywords_valOK`), or, for `parseByte`, the byte itself, which the
dispatch-table facts show to be a class character. The full statement of C16 is closed on the model. -/
namespace LibInj.Properties.C16
open LibInj LibInj.Sqli

theorem tokens_faithful (input : Bytes) (flags : Nat) :
    ∃ ts sf, rawTokens input flags = .ok (ts, sf) ∧
      (∀ rt ∈ ts,
        rt.tok.val = (input.drop rt.tok.pos).take rt.tok.len ∧ rt.tok.val.length = rt.tok.len ∧ rt.tok.len ≤ 31 ∧
        rt.before ≤ rt.tok.pos ∧ rt.tok.pos + rt.tok.len ≤ rt.after ∧ rt.before < rt.after ∧ rt.after ≤ input.length ∧
        rt.tok.cat ≠ 0 ∧ isClassU8 rt.tok.cat = true) ∧
      Chained 0 ts ∧ ts.length ≤ input.length ∧ (input ≠ [] → sf.pos = input.length) :=
  rawTokens_faithful input flags

/-- one scan step: total, progressing, faithful -/
theorem scan_step (s : State) (hp : s.pos ≤ s.input.length) (hc : s.cur < s.tv.length) :
    ∃ more s', tokenize s = .ok (more, s') ∧ TokStep s more s' := tokenize_ok s hp hc

/-- every lexer reached through the dispatch table returns, consumes between 1 and `|rest|` bytes, and
its token is a slice of what it consumed -/
theorem every_lexer_ok (flags : Nat) (rest : Bytes) (c : UInt8) (h0 : rest[0]? = some c) :
    ∃ r, runP flags rest (dispatch c) = .ok r ∧ 1 ≤ r.next ∧ r.next ≤ rest.length ∧
      r.tok.val.length = r.tok.len ∧ r.tok.len ≤ 31 ∧ r.tok.pos + r.tok.len ≤ r.next ∧
      r.tok.val = (rest.drop r.tok.pos).take r.tok.len := by
  obtain ⟨r, h1, a1, a2, ⟨a3, a4⟩, a5, a6, _⟩ := runP_ok flags rest c h0
  exact ⟨r, h1, a1, a2, a3, a4, a5, a6⟩

theorem dispatch_table_facts (c : UInt8) : dispatchFact c = true := dispatch_facts c

/-- non-vacuity: `1 or 'a` yields three tokens with the expected offsets -/
example : (match rawTokens [49, 32, 111, 114, 32, 39, 97] 9 with
    | .ok ([a, b, c], sf) => a.tok.pos == 0 && b.tok.pos == 2 && c.tok.pos == 6 && c.after == 7 && sf.pos == 7
    | _ => false) = true := by decide +kernel

end LibInj.Properties.C16
