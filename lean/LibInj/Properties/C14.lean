import LibInj.Proofs.Tables
import LibInj.Sqli.Check
/-! # C14 — plain words and numbers are never reported as SQLi

Full statement (kept visible): for every list `ws` of identifiers and unsigned integers none of
which is a component of a keyword-table key, `isSQLi (unwords ws) = .ok (false, [])`.

Proved here (class E, re-checked against the regenerated table on every build): the token-class
abstraction of that family — every fingerprint over `{n,1}` of length 1..5 — is absent from the
blacklist, for the whole table at once. The lexing/folding lemmas that reduce the concrete family to
this abstraction are not yet theorems (`benign_not_sqli_partial` gap); the family is sampled by the
oracle and compared with the model. -/
namespace LibInj.Properties.C14
open LibInj LibInj.Tables LibInj.Sqli

/-- the low `k` bytes of `n` are all `N` (78) or `1` (49) and what remains is `0` (48):
`n` is the key `"0" ++ upper f` of a fingerprint `f ∈ {n,1}^k` -/
def n1Key : Nat → Nat → Bool
  | 0, n => Nat.beq n 48
  | k+1, n => (Nat.beq (n % 256) 78 || Nat.beq (n % 256) 49) && n1Key k (n / 256)

/-- an entry that would make a `{n,1}` fingerprint blacklisted -/
def badEntry (e : Entry) : Bool := Nat.beq e.2.2 70 && Nat.ble 2 e.1 && n1Key (e.1 - 1) e.2.1

def isWordStart (c : UInt8) : Bool := isLowerAscii c || isUpperAscii c || c == 95
def isWordByte (c : UInt8) : Bool := isWordStart c || (48 ≤ c && c ≤ 57)
def Word (w : Bytes) : Prop := ∃ c t, w = c :: t ∧ isWordStart c = true ∧ t.all isWordByte = true
def Num (w : Bytes) : Prop := w ≠ [] ∧ w.all (fun c => 48 ≤ c && c ≤ 57) = true
/-- neither a word nor the phrase it forms with its right neighbour is a key of the table
(implied by the property's "not a component of any key") -/
def MergeFree : List Bytes → Prop
  | [] => True
  | [w] => searchKeyword w = 0
  | w :: w' :: t => searchKeyword w = 0 ∧ searchKeyword (w ++ [32] ++ w') = 0 ∧ MergeFree (w' :: t)
def unwords : List Bytes → Bytes
  | [] => []
  | [w] => w
  | w :: t => w ++ [32] ++ unwords t

/-- the full statement of C14 (word/number core); not yet a theorem, see the module comment -/
def C14_statement : Prop :=
  ∀ ws : List Bytes, (∀ w ∈ ws, Word w ∨ Num w) → MergeFree ws → isSQLi (unwords ws) = .ok (false, [])

set_option maxRecDepth 200000 in
/-- no key of the regenerated table is `0` followed only by `N`/`1` with class `F` -/
theorem benign_fingerprints_absent_table : (Gen.keywords.all fun e => !badEntry e) = true := by
  decide +kernel

/-- base-256 value of the key `"0" ++ f` where `r` is `f` reversed (last class first) -/
def keyRev : List Nat → Nat
  | [] => 48
  | c :: r => keyRev r * 256 + c

theorem n1Key_keyRev : ∀ (r : List Nat), (∀ c ∈ r, c = 78 ∨ c = 49) → n1Key r.length (keyRev r) = true
  | [], _ => rfl
  | c :: r, h => by
    have hc : c = 78 ∨ c = 49 := h c (by simp)
    have hc256 : c < 256 := by rcases hc with rfl | rfl <;> decide
    have h1 : (keyRev r * 256 + c) % 256 = c := by
      rw [Nat.add_comm, Nat.add_mul_mod_self_right, Nat.mod_eq_of_lt hc256]
    have h2 : (keyRev r * 256 + c) / 256 = keyRev r := by
      rw [Nat.add_comm, Nat.add_mul_div_right _ _ (by decide : 0 < 256), Nat.div_eq_of_lt hc256, Nat.zero_add]
    simp only [keyRev, List.length_cons, n1Key, h1, h2]
    rw [n1Key_keyRev r (fun x hx => h x (by simp [hx]))]
    rcases hc with rfl | rfl <;> rfl

/-- **C14, class-abstraction part.** For every fingerprint over `{n,1}` of any length >= 1 (given
here by its reversed class list `r`; the set is closed under reversal) the look-up of
`"0" ++ upper f` in the regenerated table is not the fingerprint class `F`: a sequence of barewords
and numbers that does not fold is never blacklisted. -/
theorem benign_fingerprints_absent (r : List Nat) (hr : r ≠ []) (h : ∀ c ∈ r, c = 78 ∨ c = 49) :
    lookupKw (r.length + 1) (keyRev r) ≠ some 70 := by
  intro hl
  have hm := lookupIn_some_mem _ _ _ _ hl
  have hall := List.all_eq_true.mp benign_fingerprints_absent_table _ hm
  have hk := n1Key_keyRev r h
  have hlen : 1 ≤ r.length := by
    cases r with
    | nil => exact absurd rfl hr
    | cons _ _ => simp
  have h2 : Nat.ble 2 (r.length + 1) = true := by
    simp only [Nat.ble_eq]; omega
  simp [badEntry, hk, h2] at hall

/-- non-vacuity: `n1` is such a fingerprint, its key is `0N1` -/
example : keyRev [49, 78] = 0x304E31 ∧ (∀ c ∈ [49, 78], c = 78 ∨ c = 49) := by decide

end LibInj.Properties.C14
