import LibInj.Proofs.BenignTop
import LibInj.Proofs.DotKeys
/-! # C14 — plain words and numbers are never reported as SQLi

**Proved for every such input (`benign_not_sqli`, the word/number core of the property):** for every
list `ws` of identifiers (`[A-Za-z_][A-Za-z0-9_]*`) and unsigned integers, where no identifier is a key
of the keyword table nor the first word of one of its phrases (what "not a component of an entry"
gives), `isSQLi (unwords ws) = .ok (false, [])` — any number of words, of any length.

The proof follows the pipeline: (1) lexing — every dispatch class a letter can select (`b'`, `e'`,
`n'`, `q'`, `u&'`, `x'` prefixes included) falls back to `parseWord`, which yields one bareword
spanning exactly the identifier; an integer yields one number (`runP_good`; dispatch-table facts
re-checked on every build); (2) folding — on a window that holds only such barewords and numbers no
two- or three-token rule fires and `merge` finds no phrase (`foldTwo_benign`, `foldThree_benign`), so
`fold` only moves its cursor (`foldLoop_benign`); (3) the fingerprint is a word over `{n,1}` of length
≤ 5, and **no such key is in the blacklist** (`benign_fingerprints_absent`, the whole regenerated table
at once); (4) no `'`/`"`, no `#`/`--` comment counted, so the other four readings are not tried.

**Also proved (`benign_items_not_sqli`, `email_not_sqli`, `email2_not_sqli`, `decimal_not_sqli`): both e-mail-like
families and the decimal family.** A dotted identifier `w1.w2` whose first part is no keyword is lexed as one bareword
(`parseWord_dotted`: the keyword-split loop of `parseWord` finds nothing).
A decimal number `digits.digits` is lexed as one number (`parseNumber_dec`: the fraction branch of `parseNumber`). A word may be followed
directly by `@` and a dotted identifier (`name@host.tld`), and such variables may stand alone: `@host.tld` is
lexed as one variable token (`parseVar_good`), variables are inert in `fold` like barewords and numbers (no rule
fires without an operator, comma or parenthesis between them), and **no key over `{n,1,v}` is in the blacklist**
(the table fact now covers the three classes).

**Also proved (`sentence_not_sqli`, `sentence3_not_sqli`, `enumeration_not_sqli`, `ones_not_sqli`, `scientific_not_sqli`, `benign_concat_not_sqli`, `txt_not_sqli`): two of
the three punctuated-sentence families and comma-separated enumerations of any length.** `,` `?` and `: ` are tokens of their own classes; a word or number with a trailing dot is one bareword / one
number; among tokens of the classes `{n,1,v,',','?',':'}` the only fold rule that can fire is `x , y` (drop two
tokens), which keeps the window benign; and **no key over these six classes is in the blacklist** (table fact).

Not a theorem (sampled by the oracle and compared with the model): the sentence family with `!`
(`w w! w?`): `!` is an operator token, rules fire around it, and some fingerprints over the enlarged class set are
blacklisted, so the claim depends on the particular shape. -/
namespace LibInj.Properties.C14
open LibInj LibInj.Tables LibInj.Sqli

def Word (w : Bytes) : Prop := ∃ c t, w = c :: t ∧ isWordStartB c = true ∧ t.all isWordByteB = true
def Num (w : Bytes) : Prop := w ≠ [] ∧ w.all isDigit = true
/-- the word is no key of the table and starts no phrase of the table -/
def NotKeywordLike (w : Bytes) : Prop := searchKeyword w = 0 ∧ ∀ y, searchKeyword (w ++ [32] ++ y) = 0
def unwords : List Bytes → Bytes
  | [] => []
  | [w] => w
  | w :: t => w ++ [32] ++ unwords t

/-- the statement of C14 (word/number core) -/
def C14_statement : Prop :=
  ∀ ws : List Bytes, (∀ w ∈ ws, (Word w ∧ NotKeywordLike w) ∨ Num w) → isSQLi (unwords ws) = .ok (false, [])

theorem txt_unwords : ∀ (ws : List Bytes), (∀ w ∈ ws, GoodWord w ∨ GoodNum w) → Txt (unwords ws)
  | [], _ => Txt.nil
  | [w], h => by
    have := Txt.word (h w (by simp)) (Or.inl rfl) Txt.nil
    simpa [unwords] using this
  | w :: w' :: t, h => by
    have ih := txt_unwords (w' :: t) (fun x hx => h x (List.mem_cons_of_mem _ hx))
    have := Txt.word (h w (by simp)) (Or.inr ⟨_, rfl⟩) (Txt.space ih)
    simpa [unwords] using this

/-- **C14, word/number core: full statement.** -/
theorem benign_not_sqli : C14_statement := by
  intro ws h
  apply isSQLi_txt
  apply txt_unwords
  intro w hw
  rcases h w hw with ⟨hword, hk1, hk2⟩ | hnum
  · exact Or.inl ⟨hword, fun _ => hk1, fun _ => hk2⟩
  · exact Or.inr hnum

/-- what may stand between single spaces: a word, an unsigned integer, `word@dotted.identifier`, `@dotted.identifier` -/
def Item (x : Bytes) : Prop :=
  (Word x ∧ NotKeywordLike x) ∨ Num x ∨
  (∃ w vw, x = w ++ 64 :: vw ∧ Word w ∧ NotKeywordLike w ∧ VarBody vw) ∨ (∃ vw, x = 64 :: vw ∧ VarBody vw) ∨
  (∃ d1 d2, x = d1 ++ 46 :: d2 ∧ Num d1 ∧ Num d2) ∨
  GoodDotted x ∨ (∃ w vw, x = w ++ 64 :: vw ∧ GoodDotted w ∧ VarBody vw)

theorem txt_item (x r : Bytes) (hx : Item x) (hsep : Sep r) (hr : Txt r) : Txt (x ++ r) := by
  rcases hx with ⟨hword, hk1, hk2⟩ | hnum | ⟨w, vw, rfl, hword, ⟨hk1, hk2⟩, hv⟩ | ⟨vw, rfl, hv⟩ | ⟨d1, d2, rfl, h1, h2⟩ | hdot |
    ⟨w, vw, rfl, hdot, hv⟩
  · exact Txt.word (Or.inl ⟨hword, fun _ => hk1, fun _ => hk2⟩) hsep hr
  · exact Txt.word (Or.inr hnum) hsep hr
  · have := Txt.wordAt (w := w) ⟨hword, fun _ => hk1, fun _ => hk2⟩ (by decide) (Txt.var hv hsep hr)
    simpa [List.append_assoc] using this
  · have := Txt.var hv hsep hr
    simpa using this
  · exact Txt.dec ⟨d1, d2, rfl, h1, h2.2⟩ hsep hr
  · exact Txt.dotted hdot hsep hr
  · have := Txt.dottedAt (w := w) hdot (by decide) (Txt.var hv hsep hr)
    simpa [List.append_assoc] using this

theorem txt_items : ∀ (xs : List Bytes), (∀ x ∈ xs, Item x) → Txt (unwords xs)
  | [], _ => Txt.nil
  | [x], h => by
    have := txt_item x [] (h x (by simp)) (Or.inl rfl) Txt.nil
    simpa [unwords] using this
  | x :: x' :: t, h => by
    have ih := txt_items (x' :: t) (fun y hy => h y (List.mem_cons_of_mem _ hy))
    have := txt_item x (32 :: unwords (x' :: t)) (h x (by simp)) (Or.inr ⟨_, rfl⟩) (Txt.space ih)
    simpa [unwords] using this

/-- **C14 with the e-mail-like family**: words, unsigned integers, `word@dotted.identifier` and `@dotted.identifier`,
separated by single spaces, are never reported as SQLi -/
theorem benign_items_not_sqli (xs : List Bytes) (h : ∀ x ∈ xs, Item x) : isSQLi (unwords xs) = .ok (false, []) :=
  isSQLi_txt _ (txt_items xs h)

/-- the e-mail shape of the property: `w1@w2.w3` -/
theorem email_not_sqli (w1 w2 w3 : Bytes) (h1 : Word w1) (hk : NotKeywordLike w1) (h2 : Word w2) (h3 : Word w3) :
    isSQLi (w1 ++ 64 :: (w2 ++ 46 :: w3)) = .ok (false, []) := by
  have hv : VarBody (w2 ++ 46 :: w3) := by
    obtain ⟨c, t, rfl, hc, ht⟩ := h2
    obtain ⟨c3, t3, rfl, hc3, ht3⟩ := h3
    refine ⟨c, t ++ 46 :: c3 :: t3, rfl, hc, ?_⟩
    simp only [List.all_append, List.all_cons, Bool.and_eq_true]
    refine ⟨?_, by decide, ?_, ?_⟩
    · exact List.all_eq_true.mpr (fun x hx => by simp [isVarBodyByte, List.all_eq_true.mp ht x hx])
    · simp [isVarBodyByte, isWordByteB, hc3]
    · exact List.all_eq_true.mpr (fun x hx => by simp [isVarBodyByte, List.all_eq_true.mp ht3 x hx])
  have := benign_items_not_sqli [w1 ++ 64 :: (w2 ++ 46 :: w3)] (fun x hx => by
    have : x = w1 ++ 64 :: (w2 ++ 46 :: w3) := by simpa using hx
    subst this
    exact Or.inr (Or.inr (Or.inl ⟨w1, _, rfl, h1, hk, hv⟩)))
  simpa [unwords] using this

/-- the second e-mail shape of the property: `w1.w2@w3.w4`, where `w1` is no keyword and `w1.w2` is no key and starts no phrase -/
theorem email2_not_sqli (w1 w2 w3 w4 : Bytes) (h1 : Word w1) (h2 : Word w2) (h3 : Word w3) (h4 : Word w4)
    (hk1 : searchKeyword w1 = 0 ∨ searchKeyword w1 = 110) (hk : NotKeywordLike (w1 ++ 46 :: w2)) :
    isSQLi ((w1 ++ 46 :: w2) ++ 64 :: (w3 ++ 46 :: w4)) = .ok (false, []) := by
  have hv : VarBody (w3 ++ 46 :: w4) := by
    obtain ⟨c, t, rfl, hc, ht⟩ := h3
    obtain ⟨c4, t4, rfl, hc4, ht4⟩ := h4
    refine ⟨c, t ++ 46 :: c4 :: t4, rfl, hc, ?_⟩
    simp only [List.all_append, List.all_cons, Bool.and_eq_true]
    refine ⟨?_, by decide, ?_, ?_⟩
    · exact List.all_eq_true.mpr (fun x hx => by simp [isVarBodyByte, List.all_eq_true.mp ht x hx])
    · simp [isVarBodyByte, isWordByteB, hc4]
    · exact List.all_eq_true.mpr (fun x hx => by simp [isVarBodyByte, List.all_eq_true.mp ht4 x hx])
  have hd : GoodDotted (w1 ++ 46 :: w2) := by
    obtain ⟨c2, t2, hw2, hc2, ht2⟩ := h2
    refine ⟨w1, w2, rfl, h1, by rw [hw2]; simp [isWordByteB, hc2, ht2], hk1, fun _ => hk.1, fun _ => hk.2⟩
  have := benign_items_not_sqli [(w1 ++ 46 :: w2) ++ 64 :: (w3 ++ 46 :: w4)] (fun x hx => by
    have : x = (w1 ++ 46 :: w2) ++ 64 :: (w3 ++ 46 :: w4) := by simpa using hx
    subst this
    exact Or.inr (Or.inr (Or.inr (Or.inr (Or.inr (Or.inr ⟨_, _, rfl, hd, hv⟩))))))
  simpa [unwords] using this

/-- the decimal shape of the property: `d1.d2` -/
theorem decimal_not_sqli (d1 d2 : Bytes) (h1 : Num d1) (h2 : Num d2) : isSQLi (d1 ++ 46 :: d2) = .ok (false, []) := by
  have := benign_items_not_sqli [d1 ++ 46 :: d2] (fun x hx => by
    have : x = d1 ++ 46 :: d2 := by simpa using hx
    subst this
    exact Or.inr (Or.inr (Or.inr (Or.inr (Or.inl ⟨d1, d2, rfl, h1, h2⟩)))))
  simpa [unwords] using this

/-- **the general form**: every text of the grammar `Txt` (`Proofs/BenignLex`: good words, unsigned integers, decimals,
dotted identifiers, `@` variables, single or repeated spaces, the punctuation marks `,` `?` and `: `) is not SQLi -/
theorem txt_not_sqli (input : Bytes) (h : Txt input) : isSQLi input = .ok (false, []) := isSQLi_txt input h

/-- the sentence shape of the property: `w1, w2 w3.` — the comma is a token of its own class (the one fold rule it can
trigger, `x , y` with both sides of the same benign class, only drops two tokens), the final `w3.` is one bareword (`w3`
itself may be any non-keyword or bareword-class word) -/
theorem sentence_not_sqli (w1 w2 w3 : Bytes) (h1 : Word w1) (k1 : NotKeywordLike w1) (h2 : Word w2) (k2 : NotKeywordLike w2)
    (h3 : Word w3) (k3 : searchKeyword w3 = 0 ∨ searchKeyword w3 = 110) :
    isSQLi (w1 ++ 44 :: 32 :: (w2 ++ 32 :: (w3 ++ [46]))) = .ok (false, []) := by
  apply isSQLi_txt
  have k3' : NotKeywordLike (w3 ++ [46]) := by
    obtain ⟨c, t, rfl, hc, ht⟩ := h3
    exact word_dot_free (c :: t) (by simp [isWordByteB, hc, ht])
  have g1 : GoodWord w1 := ⟨h1, fun _ => k1.1, fun _ => k1.2⟩
  have g2 : GoodWord w2 := ⟨h2, fun _ => k2.1, fun _ => k2.2⟩
  have g3 : GoodDotted (w3 ++ [46]) := ⟨w3, [], rfl, h3, rfl, k3, fun _ => k3'.1, fun _ => k3'.2⟩
  have t3 : Txt ((w3 ++ [46]) ++ []) := Txt.dotted g3 (Or.inl rfl) Txt.nil
  rw [List.append_nil] at t3
  have t2 := Txt.word (Or.inl g2) (Or.inr ⟨_, rfl⟩) (Txt.space t3)
  exact Txt.wordAt g1 (by decide) (Txt.punct (Or.inl rfl) (Txt.space t2))

/-- the third sentence shape of the property: `w1 w2: w3 d.` — `: ` is a token of class `:`, the final `d.` is one number -/
theorem sentence3_not_sqli (w1 w2 w3 d : Bytes) (h1 : Word w1) (k1 : NotKeywordLike w1) (h2 : Word w2) (k2 : NotKeywordLike w2)
    (h3 : Word w3) (k3 : NotKeywordLike w3) (hd : Num d) :
    isSQLi (w1 ++ 32 :: (w2 ++ 58 :: 32 :: (w3 ++ 32 :: (d ++ [46])))) = .ok (false, []) := by
  apply isSQLi_txt
  have g1 : GoodWord w1 := ⟨h1, fun _ => k1.1, fun _ => k1.2⟩
  have g2 : GoodWord w2 := ⟨h2, fun _ => k2.1, fun _ => k2.2⟩
  have g3 : GoodWord w3 := ⟨h3, fun _ => k3.1, fun _ => k3.2⟩
  have t4 : Txt ((d ++ [46]) ++ []) := Txt.dec ⟨d, [], rfl, hd, rfl⟩ (Or.inl rfl) Txt.nil
  rw [List.append_nil] at t4
  have t3 := Txt.word (Or.inl g3) (Or.inr ⟨_, rfl⟩) (Txt.space t4)
  have t2 := Txt.wordAt g2 (show isSepByte 58 = true by decide) (Txt.colon t3)
  exact Txt.word (Or.inl g1) (Or.inr ⟨_, rfl⟩) (Txt.space t2)

/-- numbers in exponent notation (`12e5`, `3E+10`, `7e-2`) between single spaces, among words and unsigned integers -/
theorem scientific_not_sqli (a b m x sg : Bytes) (e : UInt8) (ha : (Word a ∧ NotKeywordLike a) ∨ Num a)
    (hb : (Word b ∧ NotKeywordLike b) ∨ Num b) (hm : Num m) (hx : Num x) (he : e = 69 ∨ e = 101)
    (hs : sg = [] ∨ sg = [43] ∨ sg = [45]) :
    isSQLi (a ++ 32 :: ((m ++ e :: (sg ++ x)) ++ 32 :: b)) = .ok (false, []) := by
  apply isSQLi_txt
  have ga : GoodWord a ∨ GoodNum a := by
    rcases ha with ⟨h, k1, k2⟩ | h
    · exact Or.inl ⟨h, fun _ => k1, fun _ => k2⟩
    · exact Or.inr h
  have gb : GoodWord b ∨ GoodNum b := by
    rcases hb with ⟨h, k1, k2⟩ | h
    · exact Or.inl ⟨h, fun _ => k1, fun _ => k2⟩
    · exact Or.inr h
  have tb : Txt (b ++ []) := Txt.word gb (Or.inl rfl) Txt.nil
  rw [List.append_nil] at tb
  have tm := Txt.sci (w := m ++ e :: (sg ++ x)) ⟨m, x, e, sg, rfl, hm, hx, he, hs⟩ (Or.inr ⟨_, rfl⟩) (Txt.space tb)
  exact Txt.word ga (Or.inr ⟨_, rfl⟩) (Txt.space tm)

/-- non-vacuity: the conclusion on `rate 12e-3 today` is what the kernel computes -/
example : (match isSQLi (bs "rate 12e-3 today") with | .ok (false, []) => true | _ => false) = true := by
  decide +kernel

theorem sep_append {r : Bytes} (h : Sep r) (b : Bytes) : Sep (r ++ 32 :: b) := by
  rcases h with rfl | ⟨r', rfl⟩
  · exact Or.inr ⟨b, rfl⟩
  · exact Or.inr ⟨r' ++ 32 :: b, rfl⟩

/-- **benign texts compose**: two texts of the grammar joined by a space form a text of the grammar -/
theorem txt_append_space : ∀ {a : Bytes}, Txt a → ∀ {b : Bytes}, Txt b → Txt (a ++ 32 :: b)
  | _, .nil, b, hb => Txt.space hb
  | _, .space hr, b, hb => Txt.space (txt_append_space hr hb)
  | _, .word (w := w) (r := r) hw hsep hr, b, hb => by
    rw [List.append_assoc]; exact Txt.word hw (sep_append hsep _) (txt_append_space hr hb)
  | _, .wordAt (w := w) (r := r) (sp := sp) hw hsp hr, b, hb => by
    have := txt_append_space hr hb
    rw [List.append_assoc]; exact Txt.wordAt hw hsp this
  | _, .var (vw := vw) (r := r) hv hsep hr, b, hb => by
    have := Txt.var hv (sep_append hsep b) (txt_append_space hr hb)
    simpa [List.append_assoc] using this
  | _, .dec (w := w) (r := r) hw hsep hr, b, hb => by
    rw [List.append_assoc]; exact Txt.dec hw (sep_append hsep _) (txt_append_space hr hb)
  | _, .sci (w := w) (r := r) hw hsep hr, b, hb => by
    rw [List.append_assoc]; exact Txt.sci hw (sep_append hsep _) (txt_append_space hr hb)
  | _, .dotted (w := w) (r := r) hw hsep hr, b, hb => by
    rw [List.append_assoc]; exact Txt.dotted hw (sep_append hsep _) (txt_append_space hr hb)
  | _, .dottedAt (w := w) (r := r) (sp := sp) hw hsp hr, b, hb => by
    have := txt_append_space hr hb
    rw [List.append_assoc]; exact Txt.dottedAt hw hsp this
  | _, .numAt (w := w) (r := r) (sp := sp) hw hsp hr, b, hb => by
    have := txt_append_space hr hb
    rw [List.append_assoc]; exact Txt.numAt hw hsp this
  | _, .punct (p := p) (r := r) hp hr, b, hb => Txt.punct hp (txt_append_space hr hb)
  | _, .colon (r := r) hr, b, hb => Txt.colon (txt_append_space hr hb)

/-- two benign texts joined by a space are not SQLi -/
theorem benign_concat_not_sqli (a b : Bytes) (ha : Txt a) (hb : Txt b) : isSQLi (a ++ 32 :: b) = .ok (false, []) :=
  isSQLi_txt _ (txt_append_space ha hb)

/-- items joined by `, ` -/
def commaList : List Bytes → Bytes
  | [] => []
  | [x] => x
  | x :: t => x ++ 44 :: 32 :: commaList t

theorem txt_commaList : ∀ (xs : List Bytes), (∀ x ∈ xs, (Word x ∧ NotKeywordLike x) ∨ Num x) → Txt (commaList xs)
  | [], _ => Txt.nil
  | [x], h => by
    rcases h x (by simp) with ⟨hword, hk1, hk2⟩ | hnum
    · have := Txt.word (Or.inl ⟨hword, fun _ => hk1, fun _ => hk2⟩) (Or.inl rfl) Txt.nil
      simpa [commaList] using this
    · have := Txt.word (Or.inr hnum) (Or.inl rfl) Txt.nil
      simpa [commaList] using this
  | x :: x' :: t, h => by
    have ih := txt_commaList (x' :: t) (fun y hy => h y (List.mem_cons_of_mem _ hy))
    have rest : Txt (44 :: 32 :: commaList (x' :: t)) := Txt.punct (Or.inl rfl) (Txt.space ih)
    rcases h x (by simp) with ⟨hword, hk1, hk2⟩ | hnum
    · exact Txt.wordAt ⟨hword, fun _ => hk1, fun _ => hk2⟩ (by decide) rest
    · exact Txt.numAt hnum (by decide) rest

/-- **enumerations of any length**: words (no key, no start of a phrase) and unsigned integers joined by `, ` are never
reported — the comma rule of `fold` (`x , y` drops two tokens) consumes the list as fast as it is read, however long -/
theorem enumeration_not_sqli (xs : List Bytes) (h : ∀ x ∈ xs, (Word x ∧ NotKeywordLike x) ∨ Num x) :
    isSQLi (commaList xs) = .ok (false, []) := isSQLi_txt _ (txt_commaList xs h)

/-- in particular `1, 1, 1, …` with any number of items (a token or byte budget inside `fold` would cut such a list) -/
theorem ones_not_sqli (n : Nat) : isSQLi (commaList (List.replicate n [49])) = .ok (false, []) :=
  enumeration_not_sqli _ (fun x hx => by
    have := (List.mem_replicate.mp hx).2
    subst this
    exact Or.inr ⟨by decide, by decide⟩)

/-- non-vacuity: the conclusion on `hello, dear world.` and on `note to: self 42.` is what the kernel computes -/
example : (match isSQLi (bs "hello, dear world.") with | .ok (false, []) => true | _ => false) = true := by
  decide +kernel
example : (match isSQLi (bs "note to: self 42.") with | .ok (false, []) => true | _ => false) = true := by
  decide +kernel
/-- the last word needs no hypothesis about `w3.`: no key of the regenerated table ends in `.` and none contains `. `
(`Proofs/DotKeys`, `keys_dot_facts`) -/
theorem word_dot_not_keywordlike (w : Bytes) (h : Word w) : NotKeywordLike (w ++ [46]) := by
  obtain ⟨c, t, rfl, hc, ht⟩ := h
  exact word_dot_free (c :: t) (by simp [isWordByteB, hc, ht])

/-- non-vacuity: the conclusion on `joe@example.com 42` is what the kernel computes -/
example : (match isSQLi [106,111,101,64,101,120,97,109,112,108,101,46,99,111,109,32,52,50] with | .ok (false, []) => true | _ => false) = true := by
  decide +kernel

/-- non-vacuity: `hello` is a word that is neither a key nor the start of a phrase … -/
example : Word (bs "hello") := ⟨104, bs "ello", by decide +kernel, by decide +kernel, by decide +kernel⟩
/-- … and the statement's conclusion on a concrete instance is what the kernel computes -/
example : (match isSQLi (unwords [bs "hello", bs "42", bs "world_1"]) with | .ok (false, []) => true | _ => false) = true := by
  decide +kernel

theorem benign_fingerprints_absent_table : (Gen.keywords.all fun e => !badEntry e) = true :=
  LibInj.Sqli.benign_fingerprints_absent_table

/-- base-256 value of the key `"0" ++ f` where `r` is `f` reversed (last class first) -/
def keyRev : List Nat → Nat
  | [] => 48
  | c :: r => keyRev r * 256 + c

theorem n1Key_keyRev : ∀ (r : List Nat), (∀ c ∈ r, c = 78 ∨ c = 49) → n1Key r.length (keyRev r) = true
  | [], _ => rfl
  | c :: r, h => by
    have hc : c = 78 ∨ c = 49 := h c (by simp)
    have hc256 : c < 256 := by rcases hc with rfl | rfl <;> decide
    have h1 : (keyRev r * 256 + c) % 256 = c := by
      rw [Nat.add_comm, Nat.add_mul_mod_self_right, Nat.mod_eq_of_lt hc256]
    have h2 : (keyRev r * 256 + c) / 256 = keyRev r := by
      rw [Nat.add_comm, Nat.add_mul_div_right _ _ (by decide : 0 < 256), Nat.div_eq_of_lt hc256, Nat.zero_add]
    simp only [keyRev, List.length_cons, n1Key, h1, h2]
    rw [n1Key_keyRev r (fun x hx => h x (by simp [hx]))]
    rcases hc with rfl | rfl <;> rfl

/-- **C14, class-abstraction part.** For every fingerprint over `{n,1}` of any length >= 1 (given
here by its reversed class list `r`; the set is closed under reversal) the look-up of
`"0" ++ upper f` in the regenerated table is not the fingerprint class `F`: a sequence of barewords
and numbers that does not fold is never blacklisted. -/
theorem benign_fingerprints_absent (r : List Nat) (hr : r ≠ []) (h : ∀ c ∈ r, c = 78 ∨ c = 49) :
    lookupKw (r.length + 1) (keyRev r) ≠ some 70 := by
  intro hl
  have hm := lookupIn_some_mem _ _ _ _ hl
  have hall := List.all_eq_true.mp benign_fingerprints_absent_table _ hm
  have hk := n1Key_keyRev r h
  have hlen : 1 ≤ r.length := by
    cases r with
    | nil => exact absurd rfl hr
    | cons _ _ => simp
  have h2 : Nat.ble 2 (r.length + 1) = true := by
    simp only [Nat.ble_eq]; omega
  simp [badEntry, hk, h2] at hall

/-- non-vacuity: `n1` is such a fingerprint, its key is `0N1` -/
example : keyRev [49, 78] = 0x304E31 ∧ (∀ c ∈ [49, 78], c = 78 ∨ c = 49) := by decide

end LibInj.Properties.C14
