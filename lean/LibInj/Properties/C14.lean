import LibInj.Proofs.BenignTop
/-! # C14 — plain words and numbers are never reported as SQLi

**Proved for every such input (`benign_not_sqli`, the word/number core of the property):** for every
list `ws` of identifiers (`[A-Za-z_][A-Za-z0-9_]*`) and unsigned integers, where no identifier is a key
of the keyword table nor the first word of one of its phrases (what "not a component of an entry"
gives), `isSQLi (unwords ws) = .ok (false, [])` — any number of words, of any length.

The proof follows the pipeline: (1) lexing — every dispatch class a letter can select (`b'`, `e'`,
`n'`, `q'`, `u&'`, `x'` prefixes included) falls back to `parseWord`, which yields one bareword
spanning exactly the identifier; an integer yields one number (`runP_good`; dispatch-table facts
re-checked on every build); (2) folding — on a window that holds only such barewords and numbers no
two- or three-token rule fires and `merge` finds no phrase (`foldTwo_benign`, `foldThree_benign`), so
`fold` only moves its cursor (`foldLoop_benign`); (3) the fingerprint is a word over `{n,1}` of length
≤ 5, and **no such key is in the blacklist** (`benign_fingerprints_absent`, the whole regenerated table
at once); (4) no `'`/`"`, no `#`/`--` comment counted, so the other four readings are not tried.

Not theorems (sampled by the oracle and compared with the model): the e-mail-like, decimal-number
and punctuated-sentence families of the property. -/
namespace LibInj.Properties.C14
open LibInj LibInj.Tables LibInj.Sqli

def Word (w : Bytes) : Prop := ∃ c t, w = c :: t ∧ isWordStartB c = true ∧ t.all isWordByteB = true
def Num (w : Bytes) : Prop := w ≠ [] ∧ w.all isDigit = true
/-- the word is no key of the table and starts no phrase of the table -/
def NotKeywordLike (w : Bytes) : Prop := searchKeyword w = 0 ∧ ∀ y, searchKeyword (w ++ [32] ++ y) = 0
def unwords : List Bytes → Bytes
  | [] => []
  | [w] => w
  | w :: t => w ++ [32] ++ unwords t

/-- the statement of C14 (word/number core) -/
def C14_statement : Prop :=
  ∀ ws : List Bytes, (∀ w ∈ ws, (Word w ∧ NotKeywordLike w) ∨ Num w) → isSQLi (unwords ws) = .ok (false, [])

theorem txt_unwords : ∀ (ws : List Bytes), (∀ w ∈ ws, GoodWord w ∨ GoodNum w) → Txt (unwords ws)
  | [], _ => Txt.nil
  | [w], h => by
    have := Txt.word (h w (by simp)) (Or.inl rfl) Txt.nil
    simpa [unwords] using this
  | w :: w' :: t, h => by
    have ih := txt_unwords (w' :: t) (fun x hx => h x (List.mem_cons_of_mem _ hx))
    have := Txt.word (h w (by simp)) (Or.inr ⟨_, rfl⟩) (Txt.space ih)
    simpa [unwords] using this

/-- **C14, word/number core: full statement.** -/
theorem benign_not_sqli : C14_statement := by
  intro ws h
  apply isSQLi_txt
  apply txt_unwords
  intro w hw
  rcases h w hw with ⟨hword, hk1, hk2⟩ | hnum
  · exact Or.inl ⟨hword, fun _ => hk1, fun _ => hk2⟩
  · exact Or.inr hnum

/-- non-vacuity: `hello` is a word that is neither a key nor the start of a phrase … -/
example : Word (bs "hello") := ⟨104, bs "ello", by decide +kernel, by decide +kernel, by decide +kernel⟩
/-- … and the statement's conclusion on a concrete instance is what the kernel computes -/
example : (match isSQLi (unwords [bs "hello", bs "42", bs "world_1"]) with | .ok (false, []) => true | _ => false) = true := by
  decide +kernel

theorem benign_fingerprints_absent_table : (Gen.keywords.all fun e => !badEntry e) = true :=
  LibInj.Sqli.benign_fingerprints_absent_table

/-- base-256 value of the key `"0" ++ f` where `r` is `f` reversed (last class first) -/
def keyRev : List Nat → Nat
  | [] => 48
  | c :: r => keyRev r * 256 + c

theorem n1Key_keyRev : ∀ (r : List Nat), (∀ c ∈ r, c = 78 ∨ c = 49) → n1Key r.length (keyRev r) = true
  | [], _ => rfl
  | c :: r, h => by
    have hc : c = 78 ∨ c = 49 := h c (by simp)
    have hc256 : c < 256 := by rcases hc with rfl | rfl <;> decide
    have h1 : (keyRev r * 256 + c) % 256 = c := by
      rw [Nat.add_comm, Nat.add_mul_mod_self_right, Nat.mod_eq_of_lt hc256]
    have h2 : (keyRev r * 256 + c) / 256 = keyRev r := by
      rw [Nat.add_comm, Nat.add_mul_div_right _ _ (by decide : 0 < 256), Nat.div_eq_of_lt hc256, Nat.zero_add]
    simp only [keyRev, List.length_cons, n1Key, h1, h2]
    rw [n1Key_keyRev r (fun x hx => h x (by simp [hx]))]
    rcases hc with rfl | rfl <;> rfl

/-- **C14, class-abstraction part.** For every fingerprint over `{n,1}` of any length >= 1 (given
here by its reversed class list `r`; the set is closed under reversal) the look-up of
`"0" ++ upper f` in the regenerated table is not the fingerprint class `F`: a sequence of barewords
and numbers that does not fold is never blacklisted. -/
theorem benign_fingerprints_absent (r : List Nat) (hr : r ≠ []) (h : ∀ c ∈ r, c = 78 ∨ c = 49) :
    lookupKw (r.length + 1) (keyRev r) ≠ some 70 := by
  intro hl
  have hm := lookupIn_some_mem _ _ _ _ hl
  have hall := List.all_eq_true.mp benign_fingerprints_absent_table _ hm
  have hk := n1Key_keyRev r h
  have hlen : 1 ≤ r.length := by
    cases r with
    | nil => exact absurd rfl hr
    | cons _ _ => simp
  have h2 : Nat.ble 2 (r.length + 1) = true := by
    simp only [Nat.ble_eq]; omega
  simp [badEntry, hk, h2] at hall

/-- non-vacuity: `n1` is such a fingerprint, its key is `0N1` -/
example : keyRev [49, 78] = 0x304E31 ∧ (∀ c ∈ [49, 78], c = 78 ∨ c = 49) := by decide

end LibInj.Properties.C14
