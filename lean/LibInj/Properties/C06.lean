import LibInj.Proofs.QString
import LibInj.Properties.C12
/-! # C06 — the SQLi pipeline conforms to the reference algorithm

The reference is `LibInj/Spec` (declarative meanings: first real closing quote as a one-pass
automaton, first occurrence of a terminator) plus the rule tables shared with the model. The model is
*proved equal* to the reference where the code uses index arithmetic to find something the reference
defines declaratively; `fold`, the fingerprint construction, the blacklist and the whitelist are
defined once and are their own reference. Because of that, **every disagreement between the Go
package and the model on `tok`/`fold`/`fp`/`is` is a concrete C06 counterexample** and is reported
with the disagreeing input as the replay.

Refinements proved (all inputs): quoted strings in every form (`closing_quote_refines`,
`string_literal_refines`), Oracle q-strings for all 223 delimiters, dollar strings (both forms),
end-of-line comments, bracket words, the verdict cascade (`cascade_refines`). Not yet theorems: the
number grammar, the word split, the `/* */` lexer's evil classification (`conformance_statement`). -/
namespace LibInj.Properties.C06
open LibInj LibInj.Sqli LibInj.Spec

theorem closing_quote_refines (content : Bytes) (d : UInt8) (hd : d ≠ 92) :
    coreLoop content d 0 (content.length + 1) = .ok (closingQuote content d) := coreLoop_spec content d hd

theorem string_literal_refines (t : Token) (rest : Bytes) (offset : Nat) (d : UInt8) (hd : d ≠ 92)
    (ho : offset ≤ rest.length) : ∃ r, parseStringCore t rest offset d = .ok r ∧
      r.tok.cat = 115 ∧ r.tok.pos = offset ∧
      (closingQuote (rest.drop offset) d = none → r.next = rest.length ∧ r.tok.strClose = 0) ∧
      (∀ q, closingQuote (rest.drop offset) d = some q → r.next = offset + q + 1 ∧ r.tok.strClose = d ∧ r.tok.len = clip q) := by
  have hspec := parseStringCore_spec t rest offset d hd ho
  cases hq : closingQuote (rest.drop offset) d with
  | none =>
    simp only [hq] at hspec
    exact ⟨_, hspec, rfl, rfl, fun _ => ⟨rfl, rfl⟩, fun q h => (by cases h)⟩
  | some q =>
    simp only [hq] at hspec
    exact ⟨_, hspec, rfl, rfl, fun h => (by cases h), fun q' h => (by cases h; exact ⟨rfl, rfl, rfl⟩)⟩

/-- an end-of-line comment ends at the first line feed (or end of input) -/
theorem eol_comment_refines (rest : Bytes) :
    (∀ i, indexByte rest 10 = some i → ∃ r, parseEolComment rest = .ok r ∧ r.next = i + 1 ∧ r.tok.cat = 99 ∧ r.tok.len = clip i ∧
        rest[i]? = some 10 ∧ ∀ j < i, rest[j]? ≠ some 10) ∧
    (indexByte rest 10 = none → ∃ r, parseEolComment rest = .ok r ∧ r.next = rest.length ∧ r.tok.cat = 99) := by
  constructor
  · intro i hi
    have hlt := indexByte_lt hi
    unfold parseEolComment
    simp only [hi, bind, Except.bind, pure, Except.pure]
    rw [assign_ok _ _ _ _ _ (by have := clip_le i; omega)]
    exact ⟨_, rfl, rfl, rfl, rfl, (indexByte_some_iff _ _ _).mp hi⟩
  · intro hn
    unfold parseEolComment
    simp only [hn, bind, Except.bind, pure, Except.pure]
    rw [assign_ok _ _ _ _ _ (clip_le _)]
    exact ⟨_, rfl, rfl, rfl⟩

/-- a bracket word `[..]` ends at the first `]` -/
theorem bracket_word_refines (rest : Bytes) (i : Nat) (hi : indexByte rest 93 = some i) :
    ∃ r, parseBWord rest = .ok r ∧ r.next = i + 1 ∧ r.tok.cat = 110 ∧ ∀ j < i, rest[j]? ≠ some 93 := by
  have hlt := indexByte_lt hi
  unfold parseBWord
  simp only [hi, bind, Except.bind, pure, Except.pure]
  rw [assign_ok _ _ _ _ _ (by have := clip_le (i + 1); omega)]
  exact ⟨_, rfl, rfl, rfl, ((indexByte_some_iff _ _ _).mp hi).2⟩

theorem cascade_refines (s : Bytes) (hs : s ≠ []) (a b c d e : Bool × Bytes × Bool)
    (ha : pass s C12.asisAnsi = .ok a) (hb : pass s C12.asisMysql = .ok b)
    (hc : pass s C12.singleAnsi = .ok c) (hd : pass s C12.singleMysql = .ok d)
    (he : pass s C12.doubleMysql = .ok e) :
    isSQLi s = .ok (C12.cascade s a b c d e) := C12.isSQLi_cascade s hs a b c d e ha hb hc hd he

/-- what remains to be proved equal to a declarative reference (kept visible) -/
def conformance_statement : Prop :=
  ∀ (rest : Bytes), rest ≠ [] → ∃ r, parseNumber rest = .ok r ∧ 1 ≤ r.next ∧ r.next ≤ rest.length

example : closingQuote [97, 92, 39, 98, 39, 99] 39 = some 4 := by decide

end LibInj.Properties.C06
