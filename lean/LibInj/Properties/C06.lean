import LibInj.Proofs.QString
import LibInj.Properties.C12
import LibInj.Proofs.NumSci
/-! # C06 — the SQLi pipeline conforms to the reference algorithm

The reference is `LibInj/Spec` (declarative meanings: first real closing quote as a one-pass
automaton, first occurrence of a terminator) plus the rule tables shared with the model. The model is
*proved equal* to the reference where the code uses index arithmetic to find something the reference
defines declaratively; `fold`, the fingerprint construction, the blacklist and the whitelist are
defined once and are their own reference. Because of that, **every disagreement between the Go
package and the model on `tok`/`fold`/`fp`/`is` is a concrete C06 counterexample** and is reported
with the disagreeing input as the replay.

Refinements proved (all inputs): quoted strings in every form (`closing_quote_refines`,
`string_literal_refines`), Oracle q-strings for all 223 delimiters, dollar strings (both forms),
end-of-line comments, bracket words, `/* … */` comments with their class (`slash_comment_refines`: first `*/`
at or after the opener; class `X` iff a nested `/*` or `/*!`; `slash_operator_refines`), the verdict cascade
(`cascade_refines`), the word lexer with its keyword split (`word_refines`, `splitLoop_first`: the token is the keyword
before the *first* `.` / back-tick that follows a non-bareword keyword, else the whole run classified by the table).
The number lexer accepts the literal grammar (`number_literal_refines`: integers, decimals, exponent forms → one token
of class `1` spanning the literal); its prefixed / suffixed / malformed-exponent branches are characterised by the staged
model only (`conformance_statement`). -/
namespace LibInj.Properties.C06
open LibInj LibInj.Sqli LibInj.Spec

theorem closing_quote_refines (content : Bytes) (d : UInt8) (hd : d ≠ 92) :
    coreLoop content d 0 (content.length + 1) = .ok (closingQuote content d) := coreLoop_spec content d hd

theorem string_literal_refines (t : Token) (rest : Bytes) (offset : Nat) (d : UInt8) (hd : d ≠ 92)
    (ho : offset ≤ rest.length) : ∃ r, parseStringCore t rest offset d = .ok r ∧
      r.tok.cat = 115 ∧ r.tok.pos = offset ∧
      (closingQuote (rest.drop offset) d = none → r.next = rest.length ∧ r.tok.strClose = 0) ∧
      (∀ q, closingQuote (rest.drop offset) d = some q → r.next = offset + q + 1 ∧ r.tok.strClose = d ∧ r.tok.len = clip q) := by
  have hspec := parseStringCore_spec t rest offset d hd ho
  cases hq : closingQuote (rest.drop offset) d with
  | none =>
    simp only [hq] at hspec
    exact ⟨_, hspec, rfl, rfl, fun _ => ⟨rfl, rfl⟩, fun q h => (by cases h)⟩
  | some q =>
    simp only [hq] at hspec
    exact ⟨_, hspec, rfl, rfl, fun h => (by cases h), fun q' h => (by cases h; exact ⟨rfl, rfl, rfl⟩)⟩

/-- an end-of-line comment ends at the first line feed (or end of input) -/
theorem eol_comment_refines (rest : Bytes) :
    (∀ i, indexByte rest 10 = some i → ∃ r, parseEolComment rest = .ok r ∧ r.next = i + 1 ∧ r.tok.cat = 99 ∧ r.tok.len = clip i ∧
        rest[i]? = some 10 ∧ ∀ j < i, rest[j]? ≠ some 10) ∧
    (indexByte rest 10 = none → ∃ r, parseEolComment rest = .ok r ∧ r.next = rest.length ∧ r.tok.cat = 99) := by
  constructor
  · intro i hi
    have hlt := indexByte_lt hi
    unfold parseEolComment
    simp only [hi, bind, Except.bind, pure, Except.pure]
    rw [assign_ok _ _ _ _ _ (by have := clip_le i; omega)]
    exact ⟨_, rfl, rfl, rfl, rfl, (indexByte_some_iff _ _ _).mp hi⟩
  · intro hn
    unfold parseEolComment
    simp only [hn, bind, Except.bind, pure, Except.pure]
    rw [assign_ok _ _ _ _ _ (clip_le _)]
    exact ⟨_, rfl, rfl, rfl⟩

/-- a bracket word `[..]` ends at the first `]` -/
theorem bracket_word_refines (rest : Bytes) (i : Nat) (hi : indexByte rest 93 = some i) :
    ∃ r, parseBWord rest = .ok r ∧ r.next = i + 1 ∧ r.tok.cat = 110 ∧ ∀ j < i, rest[j]? ≠ some 93 := by
  have hlt := indexByte_lt hi
  unfold parseBWord
  simp only [hi, bind, Except.bind, pure, Except.pure]
  rw [assign_ok _ _ _ _ _ (by have := clip_le (i + 1); omega)]
  exact ⟨_, rfl, rfl, rfl, ((indexByte_some_iff _ _ _).mp hi).2⟩

theorem cascade_refines (s : Bytes) (hs : s ≠ []) (a b c d e : Bool × Bytes × Bool)
    (ha : pass s C12.asisAnsi = .ok a) (hb : pass s C12.asisMysql = .ok b)
    (hc : pass s C12.singleAnsi = .ok c) (hd : pass s C12.singleMysql = .ok d)
    (he : pass s C12.doubleMysql = .ok e) :
    isSQLi s = .ok (C12.cascade s a b c d e) := C12.isSQLi_cascade s hs a b c d e ha hb hc hd he

/-- what remains to be proved equal to a declarative reference (kept visible) -/
def conformance_statement : Prop :=
  ∀ (rest : Bytes), rest ≠ [] → ∃ r, parseNumber rest = .ok r ∧ 1 ≤ r.next ∧ r.next ≤ rest.length

example : closingQuote [97, 92, 39, 98, 39, 99] 39 = some 4 := by decide

/-- whether a `/* … */` comment whose terminator `*/` starts `i` bytes after the opening `/*` is "evil" (class `X`):
a nested `/*` in its text up to and including the terminator's `*`, or `!` right after the opener (MySQL `/*!`) -/
def slashEvil (rest : Bytes) (i : Nat) : Bool := contains ((rest.drop 2).take (i + 1)) [47, 42] || rest[2]? == some 33

theorem slash_comment_refines (rest : Bytes) (h1 : rest[1]? = some 42) :
    (∀ i, indexOf (rest.drop 2) [42, 47] = some i → ∃ r, parseSlash rest = .ok r ∧ r.next = i + 4 ∧
        r.tok.cat = (if slashEvil rest i then 88 else 99) ∧ r.tok.pos = 0 ∧ r.tok.len = clip (i + 4) ∧
        isPrefix [42, 47] (rest.drop (2 + i)) = true ∧ ∀ j < i, isPrefix [42, 47] (rest.drop (2 + j)) = false) ∧
    (indexOf (rest.drop 2) [42, 47] = none → ∃ r, parseSlash rest = .ok r ∧ r.next = rest.length ∧
        r.tok.cat = (if rest[2]? == some 33 then 88 else 99)) := by
  have hn2 : 2 ≤ rest.length := by
    rcases Nat.lt_or_ge 1 rest.length with h | h
    · omega
    · rw [List.getElem?_eq_none h] at h1; cases h1
  have hcond : (g (1 == rest.length) <||> byteNe rest 1 42) = .ok false := by
    have : (1 == rest.length) = false := by simp; omega
    simp [orM, g, byteNe, at', h1, this, bind, Except.bind, pure, Except.pure, toBool]
  constructor
  · intro i hi
    have hchar := (indexOf_some_iff _ _ _).mp hi
    have hile : i ≤ (rest.drop 2).length := hchar.1
    have hpre := hchar.2.1
    -- the terminator lies inside the input
    have hlen2 : i + 2 ≤ (rest.drop 2).length := by
      have := isPrefix_length _ _ hpre
      simp only [List.length_drop, List.length_cons, List.length_nil] at this ⊢
      omega
    simp only [List.length_drop] at hlen2 hile
    unfold parseSlash
    simp only [hcond, bind, Except.bind, pure, Except.pure, Bool.false_eq_true, ↓reduceIte, sliceFrom_ok rest 2 hn2, hi]
    rw [slice_ok rest 2 (2 + i + 1) (by omega) (by omega)]
    simp only [show 2 + i + 1 - 2 = i + 1 by omega]
    have h2n : 2 < rest.length := by omega
    have hat : at' rest 2 = .ok rest[2] := at'_ok h2n
    have hg2 : rest[2]? = some rest[2] := List.getElem?_eq_getElem h2n
    by_cases hc : contains ((rest.drop 2).take (i + 1)) [47, 42] = true
    · simp only [hc, ↓reduceIte]
      rw [assign_ok _ _ _ _ _ (by have := clip_le (2 + i + 2); omega)]
      refine ⟨_, rfl, by simp; omega, by simp [slashEvil, hc], rfl, by simp; congr 1; omega, ?_, ?_⟩
      · rw [← List.drop_drop]; exact hpre
      · intro j hj; rw [← List.drop_drop]; exact hchar.2.2 j hj
    · simp only [hc, Bool.false_eq_true, ↓reduceIte, h2n, hat]
      rw [assign_ok _ _ _ _ _ (by have := clip_le (2 + i + 2); omega)]
      refine ⟨_, rfl, by simp; omega, ?_, rfl, by simp; congr 1; omega, ?_, ?_⟩
      · have hcf : contains ((rest.drop 2).take (i + 1)) [47, 42] = false := by simpa using hc
        simp [slashEvil, hcf, hg2]
      · rw [← List.drop_drop]; exact hpre
      · intro j hj; rw [← List.drop_drop]; exact hchar.2.2 j hj
  · intro hn
    unfold parseSlash
    simp only [hcond, bind, Except.bind, pure, Except.pure, Bool.false_eq_true, ↓reduceIte, sliceFrom_ok rest 2 hn2, hn]
    by_cases h2n : 2 < rest.length
    · have hat : at' rest 2 = .ok rest[2] := at'_ok h2n
      have hg2 : rest[2]? = some rest[2] := List.getElem?_eq_getElem h2n
      simp only [h2n, ↓reduceIte, hat]
      rw [assign_ok _ _ _ _ _ (clip_le _)]
      exact ⟨_, rfl, rfl, by simp [hg2]⟩
    · simp only [h2n, ↓reduceIte]
      rw [assign_ok _ _ _ _ _ (clip_le _)]
      refine ⟨_, rfl, rfl, ?_⟩
      rw [List.getElem?_eq_none (by omega)]
      simp

/-- `/` not followed by `*` is an operator -/
theorem slash_operator_refines (rest : Bytes) (hne : rest ≠ []) (h1 : rest[1]? ≠ some 42) : parseSlash rest = parseOperator1 rest := by
  unfold parseSlash
  have hcond : (g (1 == rest.length) <||> byteNe rest 1 42) = .ok true := by
    by_cases hl : 1 == rest.length
    · simp [orM, g, hl, bind, Except.bind, pure, Except.pure, toBool]
    · have hl' : (1 == rest.length) = false := by simpa using hl
      cases hr : rest[1]? with
      | none =>
        exfalso
        have : rest.length ≤ 1 := by
          rcases Nat.lt_or_ge 1 rest.length with h | h
          · rw [List.getElem?_eq_getElem h] at hr; cases hr
          · exact h
        have h0 : ¬ 1 = rest.length := by simpa using hl'
        have : rest.length = 0 := by omega
        exact hne (List.length_eq_zero_iff.mp this)
      | some c =>
        have hc : c ≠ 42 := by intro e; rw [hr, e] at h1; exact h1 rfl
        simp [orM, g, hl', byteNe, at', hr, hc, bind, Except.bind, pure, Except.pure, toBool]
  simp only [hcond, bind, Except.bind, pure, Except.pure, ↓reduceIte]

/-- non-vacuity: `/*a/*b*/c` — terminator 6 bytes after the opener, nested `/*` makes it class `X`; `/*!1*/` is class `X`
by its `!`; `/*a*/` is a plain comment -/
example : slashEvil (bs "/*a/*b*/c") 4 = true ∧ slashEvil (bs "/*!1*/") 2 = true ∧ slashEvil (bs "/*a*/") 1 = false ∧
    indexOf ((bs "/*a/*b*/c").drop 2) [42, 47] = some 4 := by decide +kernel

/-- the keyword split of a word applies at offset `i`: a `.` or back-tick there, and the text before it is a keyword of a
class other than bareword -/
def SplitAt (v : Bytes) (i : Nat) : Prop :=
  (v[i]? = some 46 ∨ v[i]? = some 96) ∧ searchKeyword (v.take i) ≠ 0 ∧ searchKeyword (v.take i) ≠ 110

theorem splitLoop_first (rest : Bytes) (t : Token) (hv : t.val.length = t.len) (hr : t.len ≤ rest.length) :
    ∀ fuel i0, t.len - i0 < fuel →
      (∀ i, i0 ≤ i → SplitAt t.val i → (∀ j, i0 ≤ j → j < i → ¬ SplitAt t.val j) →
        splitLoop rest t i0 fuel = .ok (some { tok := { cat := searchKeyword (t.val.take i), pos := 0, len := clip i, val := rest.take (clip i) }, next := i })) ∧
      ((∀ j, i0 ≤ j → ¬ SplitAt t.val j) → splitLoop rest t i0 fuel = .ok none) := by
  intro fuel
  induction fuel with
  | zero => intro i0 h; omega
  | succ fuel ih =>
    intro i0 hf
    unfold splitLoop
    by_cases hi : i0 < t.len
    · have hlt : i0 < t.val.length := by omega
      have hg : t.val[i0]? = some t.val[i0] := List.getElem?_eq_getElem hlt
      simp only [hi, ↓reduceIte, at'_ok hlt, bind, Except.bind]
      obtain ⟨ih1, ih2⟩ := ih (i0 + 1) (by omega)
      by_cases hd : (t.val[i0] == 46 || t.val[i0] == 96) = true
      · have hd' : t.val[i0] = 46 ∨ t.val[i0] = 96 := by simpa using hd
        simp only [hd, ↓reduceIte, slice_ok t.val 0 i0 (Nat.zero_le _) (by omega), List.drop_zero, Nat.sub_zero]
        by_cases hk : (searchKeyword (t.val.take i0) != 0 && searchKeyword (t.val.take i0) != 110) = true
        · -- the split applies here
          have hk' : searchKeyword (t.val.take i0) ≠ 0 ∧ searchKeyword (t.val.take i0) ≠ 110 := by simpa using hk
          have hsp : SplitAt t.val i0 := ⟨by rw [hg]; rcases hd' with h | h <;> simp [h], hk'.1, hk'.2⟩
          simp only [hk, ↓reduceIte, pure, Except.pure]
          rw [assign_ok _ _ _ _ _ (by have := clip_le i0; omega)]
          constructor
          · intro i hi0 hsi hfirst
            have : i = i0 := by
              rcases Nat.lt_or_ge i0 i with h | h
              · exact absurd hsp (hfirst i0 (Nat.le_refl _) h)
              · omega
            subst this; rfl
          · intro hno; exact absurd hsp (hno i0 (Nat.le_refl _))
        · have hns : ¬ SplitAt t.val i0 := by
            intro ⟨_, h1, h2⟩; apply hk; simp [h1, h2]
          simp only [hk, Bool.false_eq_true, ↓reduceIte]
          constructor
          · intro i hi0 hsi hfirst
            have hne : i ≠ i0 := fun e => hns (e ▸ hsi)
            exact ih1 i (by omega) hsi (fun j hj hlt => hfirst j (by omega) hlt)
          · intro hno; exact ih2 (fun j hj => hno j (by omega))
      · have hns : ¬ SplitAt t.val i0 := by
          intro ⟨h0, _, _⟩
          rw [hg] at h0
          apply hd
          rcases h0 with h | h <;> (have := Option.some.inj h; simp [this])
        simp only [hd, Bool.false_eq_true, ↓reduceIte]
        constructor
        · intro i hi0 hsi hfirst
          have hne : i ≠ i0 := fun e => hns (e ▸ hsi)
          exact ih1 i (by omega) hsi (fun j hj hlt => hfirst j (by omega) hlt)
        · intro hno; exact ih2 (fun j hj => hno j (by omega))
    · simp only [hi, ↓reduceIte]
      constructor
      · intro i hi0 ⟨h0, _, _⟩ _
        rw [List.getElem?_eq_none (by omega)] at h0
        rcases h0 with h | h <;> cases h
      · intro _; trivial

/-- **the word lexer refines its declarative meaning**: the word is the longest run of non-delimiter bytes (clipped to 31
bytes for the value); if a keyword split applies inside the value, the token is the keyword before the *first* such `.` /
back-tick and scanning resumes at it; otherwise the token spans the run, classified by the table when shorter than 32 bytes -/
theorem word_refines (rest : Bytes) (L : Nat) (v : Bytes) (hLd : spn notWordAccept rest = L) (hvd : v = rest.take (clip L)) :
    (∀ i, SplitAt v i → (∀ j, j < i → ¬ SplitAt v j) →
      parseWord rest = .ok { tok := { cat := searchKeyword (v.take i), pos := 0, len := clip i, val := rest.take (clip i) }, next := i }) ∧
    ((∀ j, ¬ SplitAt v j) →
      parseWord rest = .ok { tok := { cat := if L < tokenSize then (if searchKeyword v == 0 then 110 else searchKeyword v) else 110,
                                      pos := 0, len := clip L, val := v }, next := L }) := by
  have hL : L ≤ rest.length := by rw [← hLd]; exact spn_le _ _
  have hcl : clip L ≤ rest.length := by have := clip_le L; omega
  have hvl : v.length = clip L := by rw [hvd]; simp [List.length_take]; omega
  have hass : assign {} 110 0 L rest = .ok { cat := 110, pos := 0, len := clip L, val := v } := by
    rw [assign_ok _ _ _ _ _ hcl, hvd]
  obtain ⟨h1, h2⟩ := splitLoop_first rest { cat := 110, pos := 0, len := clip L, val := v } hvl hcl (clip L + 1) 0 (by simp)
  constructor
  · intro i hs hfirst
    unfold parseWord
    simp only [hLd, bind, Except.bind, hass]
    rw [h1 i (Nat.zero_le _) hs (fun j _ hlt => hfirst j hlt)]
    rfl
  · intro hno
    unfold parseWord
    simp only [hLd, bind, Except.bind, hass]
    rw [h2 (fun j _ => hno j)]
    simp only [pure, Except.pure]
    by_cases hlt : L < tokenSize
    · have hcL : clip L = L := by unfold clip; simp [hlt]
      simp only [hlt, ↓reduceIte]
      rw [slice_ok v 0 L (Nat.zero_le _) (by omega)]
      simp only [List.drop_zero, Nat.sub_zero]
      have : v.take L = v := by rw [← hcL, ← hvl]; exact List.take_length
      rw [this]
    · simp only [hlt, ↓reduceIte]

/-- non-vacuity: in `select.x` the split applies at offset 6 (`SELECT` is a keyword of class `E`), and at no earlier offset -/
example : SplitAt (bs "select.x") 6 ∧ searchKeyword ((bs "select.x").take 6) = 69 := by
  refine ⟨⟨Or.inl (by decide +kernel), by decide +kernel, by decide +kernel⟩, by decide +kernel⟩

/-- **the number lexer accepts the literal grammar**: an unsigned integer, a decimal `digits.digits` / `digits.`, and an integer
with an exponent `digits e [+-] digits` (either case of `e`), followed by end of input, a blank or `,` `:` `?` (a blank or
end of input for the decimal form), is lexed as exactly one token of class `1` whose text is the literal (clipped to 31
bytes) and scanning resumes right after it. (The prefixed forms `0x…`/`0b…`, the Oracle suffixes and the malformed-exponent
case that yields a bareword are characterised by the staged model only.) -/
theorem number_literal_refines (w r : Bytes) :
    (GoodNum w → SepN r → parseNumber (w ++ r) = .ok { tok := goodTok 49 w, next := w.length }) ∧
    (GoodDec w → Sep r → parseNumber (w ++ r) = .ok { tok := goodTok 49 w, next := w.length }) ∧
    (GoodSci w → SepN r → parseNumber (w ++ r) = .ok { tok := goodTok 49 w, next := w.length }) :=
  ⟨fun hw hr => parseNumber_good w r hw hr, fun hw hr => parseNumber_dec w r hw hr, fun hw hr => parseNumber_sci w r hw hr⟩

/-- non-vacuity: `12e-3` is such a literal, and the kernel evaluates the lexer on `12e-3,` to a number of length 5 -/
example : GoodSci (bs "12e-3") := ⟨bs "12", bs "3", 101, [45], by decide +kernel, ⟨by decide +kernel, by decide +kernel⟩,
  ⟨by decide +kernel, by decide +kernel⟩, Or.inr rfl, Or.inr (Or.inr rfl)⟩
example : (match parseNumber (bs "12e-3,") with | .ok r => r.tok.cat == 49 && r.next == 5 | _ => false) = true := by decide +kernel

end LibInj.Properties.C06
