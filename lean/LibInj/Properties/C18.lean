import LibInj.Proofs.QString
/-! # C18 — SQL string literals end at their first real terminator, in every literal form

All three clauses of the property are theorems about the model, for every text, with no bound:

* `closing_quote_loop_spec`, `string_literal_spec`: the `IndexByte`-jumping, backward-counting loop of
  `parseStringCore` (used by real quotes, the virtual opening quote, back-ticks, `n'`/`e'`/`u&'`
  prefixes and `@'var'`) equals the one-pass automaton `Spec.scan` that carries the parity of the
  current backslash run — "first delimiter neither preceded by an odd number of backslashes nor
  immediately followed by the same delimiter" — and the token/resume offset are derived from it;
* `qstring_all_delimiters`: for every delimiter byte `b >= 33` (the statement quantifies over all
  223 bytes, including 0x80–0xFF and the four bracket pairs) a q-string ends at the first
  `close(b)` followed by a quote;
* `dollar_dollar_first`, `dollar_tag_first`: a dollar-quoted string ends at the first repetition of its tag;
* `first_occurrence_meaning`: what "first" means for `strings.Index` as modelled.

**The callers' glue is proved too** (`plain_string_glue`, `estring_glue`, `nstring_glue`, `ustring_glue`,
`quoted_variable_glue`): `'…'`/`"…"`, `e'…'`, `n'…'`, `u&'…'` and `@'…'`/`@"…"` each resume right after the first real
terminator of their content (or at the end of input) with the token at the content's offset. `parseTick` (back-ticks) is
the core at offset 1 followed by a table look-up of the value; it is covered by `string_literal_spec` with `d = 96`. -/
namespace LibInj.Properties.C18
open LibInj LibInj.Sqli LibInj.Spec

theorem closing_quote_loop_spec (content : Bytes) (d : UInt8) (hd : d ≠ 92) :
    coreLoop content d 0 (content.length + 1) = .ok (closingQuote content d) :=
  coreLoop_spec content d hd

theorem closing_quote_in_range (content : Bytes) (d : UInt8) (q : Nat) (h : closingQuote content d = some q) :
    q < content.length := closingQuote_lt content d q h

theorem string_literal_spec (t : Token) (rest : Bytes) (offset : Nat) (d : UInt8) (hd : d ≠ 92)
    (ho : offset ≤ rest.length) :
    parseStringCore t rest offset d = .ok (
      let content := rest.drop offset
      let t0 := { t with strOpen := if offset > 0 then d else 0 }
      match closingQuote content d with
      | none => { tok := { t0 with cat := 115, pos := offset, len := clip (rest.length - offset),
                                   val := content.take (clip (rest.length - offset)), strClose := 0 },
                  next := rest.length }
      | some q => { tok := { t0 with cat := 115, pos := offset, len := clip q,
                                     val := content.take (clip q), strClose := d },
                    next := offset + q + 1 }) :=
  parseStringCore_spec t rest offset d hd ho

theorem qstring_all_delimiters (qc b : UInt8) (hq : qc = 113 ∨ qc = 81) (hb : 33 ≤ b) (body : Bytes) :
    parseQStringCore (qc :: 39 :: b :: body) 0 = .ok (
      match indexOf body [qClose b, 39] with
      | none => { tok := { cat := 115, pos := 3, len := clip body.length, val := body.take (clip body.length),
                           strOpen := 113, strClose := 0 }, next := 3 + body.length }
      | some i => { tok := { cat := 115, pos := 3, len := clip i, val := body.take (clip i),
                             strOpen := 113, strClose := 113 }, next := 3 + i + 2 }) :=
  qstring_spec qc b hq hb body

theorem dollar_dollar_first (body : Bytes) :
    parseMoney (36 :: 36 :: body) = .ok (
      match indexOf body [36, 36] with
      | none => { tok := { cat := 115, pos := 2, len := clip body.length, val := body.take (clip body.length),
                           strOpen := 36, strClose := 0 }, next := 2 + body.length }
      | some i => { tok := { cat := 115, pos := 2, len := clip i, val := body.take (clip i),
                             strOpen := 36, strClose := 36 }, next := 2 + i + 2 }) :=
  dollar_dollar_spec body

theorem dollar_tag_first (t0 : UInt8) (tag body : Bytes) (h0 : isLetter t0 = true) (ht : tag.all isLetter = true) :
    parseMoney (36 :: t0 :: (tag ++ 36 :: body)) = .ok (
      let opener : Bytes := 36 :: t0 :: (tag ++ [36])
      match indexOf body opener with
      | none => { tok := { cat := 115, pos := opener.length, len := clip body.length, val := body.take (clip body.length),
                           strOpen := 36, strClose := 0 }, next := opener.length + body.length }
      | some i => { tok := { cat := 115, pos := opener.length, len := clip i, val := body.take (clip i),
                             strOpen := 36, strClose := 36 }, next := opener.length + i + opener.length }) :=
  dollar_tag_spec t0 tag body h0 ht

theorem first_occurrence_meaning (h n : Bytes) (i : Nat) :
    indexOf h n = some i ↔ (i ≤ h.length ∧ isPrefix n (h.drop i) = true ∧ ∀ j < i, isPrefix n (h.drop j) = false) :=
  indexOf_some_iff h n i

/-- non-vacuity and regression witnesses (kernel-evaluated): the tail-duplication input of the
repaired defect closes at the second quote; an escaped and a doubled quote are skipped -/
example : closingQuote [92, 39, 39] 39 = some 2 := by decide
example : closingQuote [97, 39, 39, 98, 92, 39, 39, 99] 39 = some 6 := by decide
example : closingQuote [92, 92, 39, 120] 39 = some 2 := by decide

/-- what every literal form reports about its end: resumes after the first real terminator of the content, or at the end
of input when there is none -/
def EndsAtFirst (r : Lex) (rest : Bytes) (offset : Nat) (d : UInt8) : Prop :=
  (∀ q, closingQuote (rest.drop offset) d = some q → r.next = offset + q + 1 ∧ r.tok.len = clip q ∧ r.tok.pos = offset) ∧
  (closingQuote (rest.drop offset) d = none → r.next = rest.length ∧ r.tok.pos = offset)

theorem core_endsAtFirst (t : Token) (rest : Bytes) (offset : Nat) (d : UInt8) (hd : d ≠ 92) (ho : offset ≤ rest.length) :
    ∃ r, parseStringCore t rest offset d = .ok r ∧ EndsAtFirst r rest offset d := by
  refine ⟨_, parseStringCore_spec t rest offset d hd ho, ?_, ?_⟩
  · intro q hq; simp [hq]
  · intro hq; simp [hq]

/-- **plain quoted string** `'…` / `"…`: `parseString` is the core at offset 1 with the opening byte as delimiter -/
theorem plain_string_glue (t : Token) (c : UInt8) (body : Bytes) (hc : c ≠ 92) :
    ∃ r, parseString t (c :: body) = .ok r ∧ EndsAtFirst r (c :: body) 1 c := by
  unfold parseString
  simp only [at', List.getElem?_cons_zero, bind, Except.bind]
  exact core_endsAtFirst t (c :: body) 1 c hc (by simp)

/-- **`e'…'`** (PostgreSQL escape string): the core at offset 2 with `'` -/
theorem estring_glue (c0 b : UInt8) (body : Bytes) :
    ∃ r, parseEString (c0 :: 39 :: b :: body) = .ok r ∧ EndsAtFirst r (c0 :: 39 :: b :: body) 2 39 := by
  unfold parseEString
  have hcond : (g (decide (2 ≥ (c0 :: 39 :: b :: body).length)) <||> byteNe (c0 :: 39 :: b :: body) 1 39) = .ok false := by
    simp [orM, g, byteNe, at', bind, Except.bind, pure, Except.pure, toBool]
  simp only [hcond, bind, Except.bind, Bool.false_eq_true, ↓reduceIte]
  exact core_endsAtFirst {} _ 2 39 (by decide) (by simp)

/-- **`n'…'`** (national string) goes through the same lexer as `e'…'` -/
theorem nstring_glue (c0 b : UInt8) (body : Bytes) :
    ∃ r, parseNqString (c0 :: 39 :: b :: body) = .ok r ∧ EndsAtFirst r (c0 :: 39 :: b :: body) 2 39 := by
  unfold parseNqString
  have hcond : (g (decide (2 < (c0 :: 39 :: b :: body).length)) <&&> byteIs (c0 :: 39 :: b :: body) 1 39) = .ok true := by
    simp [andM, g, byteIs, at', bind, Except.bind, pure, Except.pure, toBool]
  simp only [hcond, bind, Except.bind, ↓reduceIte]
  exact estring_glue c0 b body

/-- **`u&'…'`** (unicode string): a plain string lexed two bytes in, re-based -/
theorem ustring_glue (c0 : UInt8) (body : Bytes) :
    ∃ r, parseUString (c0 :: 38 :: 39 :: body) = .ok r ∧
      (∀ q, closingQuote body 39 = some q → r.next = 3 + q + 1 ∧ r.tok.len = clip q ∧ r.tok.pos = 3) ∧
      (closingQuote body 39 = none → r.next = (c0 :: 38 :: 39 :: body).length ∧ r.tok.pos = 3) := by
  unfold parseUString
  have hcond : (g (decide (2 < (c0 :: 38 :: 39 :: body).length)) <&&> byteIs (c0 :: 38 :: 39 :: body) 1 38 <&&> byteIs (c0 :: 38 :: 39 :: body) 2 39) = .ok true := by
    simp [andM, g, byteIs, at', bind, Except.bind, pure, Except.pure, toBool]
  simp only [hcond, bind, Except.bind, ↓reduceIte, sliceFrom]
  simp only [show (2 ≤ (c0 :: 38 :: 39 :: body).length) = True by simp, ↓reduceIte, List.drop_succ_cons, List.drop_zero]
  obtain ⟨r, hr, h1, h2⟩ := plain_string_glue {} 39 body (by decide)
  rw [hr]
  simp only [List.drop_succ_cons, List.drop_zero] at h1 h2
  refine ⟨_, rfl, ?_, ?_⟩
  · intro q hq
    obtain ⟨a, b, c⟩ := h1 q hq
    simp only [shift, pure, Except.pure]
    refine ⟨by rw [a]; omega, b, by rw [c]⟩
  · intro hq
    obtain ⟨a, c⟩ := h2 hq
    simp only [shift, pure, Except.pure]
    refine ⟨by rw [a]; simp, by rw [c]⟩
/-- **`@'…'` / `@"…"`** (quoted variable): a plain string lexed one byte in, re-based, re-classified as a variable -/
theorem quoted_variable_glue (q : UInt8) (hq : q = 39 ∨ q = 34) (body : Bytes) :
    ∃ r, parseVar (64 :: q :: body) = .ok r ∧ r.tok.cat = 118 ∧
      (∀ k, closingQuote body q = some k → r.next = 2 + k + 1 ∧ r.tok.len = clip k ∧ r.tok.pos = 2) ∧
      (closingQuote body q = none → r.next = (64 :: q :: body).length ∧ r.tok.pos = 2) := by
  have hq92 : q ≠ 92 := by rcases hq with rfl | rfl <;> decide
  have hq64 : (some q == some (64 : UInt8)) = false := by rcases hq with rfl | rfl <;> decide
  have hq96 : (q == 96) = false := by rcases hq with rfl | rfl <;> decide
  have hqq : (q == 39 || q == 34) = true := by rcases hq with rfl | rfl <;> decide
  unfold parseVar
  have hn : (1 < (64 :: q :: body).length) = True := by simp
  have h1 : (64 :: q :: body)[1]? = some q := rfl
  simp only [hn, decide_true, Bool.true_and, h1, hq64, Bool.false_eq_true, ↓reduceIte, bind, Except.bind]
  have hat : at' (64 :: q :: body) 1 = .ok q := rfl
  simp only [hat, hq96, Bool.false_eq_true, ↓reduceIte, hqq, sliceFrom, show (1 ≤ (64 :: q :: body).length) = True by simp,
    List.drop_succ_cons, List.drop_zero]
  obtain ⟨r, hr, h1, h2⟩ := plain_string_glue { count := 1 } q body hq92
  rw [hr]
  simp only [List.drop_succ_cons, List.drop_zero] at h1 h2
  refine ⟨_, rfl, rfl, ?_, ?_⟩
  · intro k hk
    obtain ⟨a, b, c⟩ := h1 k hk
    simp only [shift]
    refine ⟨by rw [a]; omega, b, by rw [c]⟩
  · intro hk
    obtain ⟨a, c⟩ := h2 hk
    simp only [shift]
    refine ⟨by rw [a]; simp, by rw [c]⟩

/-- non-vacuity: in `e'a\\'b'c` the content `a\'b'c` has its first real terminator at offset 4 (the quote at 2 is escaped) -/
example : closingQuote (bs "a\\'b'c") 39 = some 4 := by decide +kernel

end LibInj.Properties.C18
