import LibInj.Proofs.QString
/-! # C18 — SQL string literals end at their first real terminator, in every literal form

All three clauses of the property are theorems about the model, for every text, with no bound:

* `closing_quote_loop_spec`, `string_literal_spec`: the `IndexByte`-jumping, backward-counting loop of
  `parseStringCore` (used by real quotes, the virtual opening quote, back-ticks, `n'`/`e'`/`u&'`
  prefixes and `@'var'`) equals the one-pass automaton `Spec.scan` that carries the parity of the
  current backslash run — "first delimiter neither preceded by an odd number of backslashes nor
  immediately followed by the same delimiter" — and the token/resume offset are derived from it;
* `qstring_all_delimiters`: for every delimiter byte `b >= 33` (the statement quantifies over all
  223 bytes, including 0x80–0xFF and the four bracket pairs) a q-string ends at the first
  `close(b)` followed by a quote;
* `dollar_dollar_first`, `dollar_tag_first`: a dollar-quoted string ends at the first repetition of its tag;
* `first_occurrence_meaning`: what "first" means for `strings.Index` as modelled.

The callers' glue (`parseString` = `parseStringCore` at offset 1 with `rest[0]`, `parseTick`,
`parseEString`, `parseUString`, `parseVar`) is covered by the correspondence and the oracle. -/
namespace LibInj.Properties.C18
open LibInj LibInj.Sqli LibInj.Spec

theorem closing_quote_loop_spec (content : Bytes) (d : UInt8) (hd : d ≠ 92) :
    coreLoop content d 0 (content.length + 1) = .ok (closingQuote content d) :=
  coreLoop_spec content d hd

theorem closing_quote_in_range (content : Bytes) (d : UInt8) (q : Nat) (h : closingQuote content d = some q) :
    q < content.length := closingQuote_lt content d q h

theorem string_literal_spec (t : Token) (rest : Bytes) (offset : Nat) (d : UInt8) (hd : d ≠ 92)
    (ho : offset ≤ rest.length) :
    parseStringCore t rest offset d = .ok (
      let content := rest.drop offset
      let t0 := { t with strOpen := if offset > 0 then d else 0 }
      match closingQuote content d with
      | none => { tok := { t0 with cat := 115, pos := offset, len := clip (rest.length - offset),
                                   val := content.take (clip (rest.length - offset)), strClose := 0 },
                  next := rest.length }
      | some q => { tok := { t0 with cat := 115, pos := offset, len := clip q,
                                     val := content.take (clip q), strClose := d },
                    next := offset + q + 1 }) :=
  parseStringCore_spec t rest offset d hd ho

theorem qstring_all_delimiters (qc b : UInt8) (hq : qc = 113 ∨ qc = 81) (hb : 33 ≤ b) (body : Bytes) :
    parseQStringCore (qc :: 39 :: b :: body) 0 = .ok (
      match indexOf body [qClose b, 39] with
      | none => { tok := { cat := 115, pos := 3, len := clip body.length, val := body.take (clip body.length),
                           strOpen := 113, strClose := 0 }, next := 3 + body.length }
      | some i => { tok := { cat := 115, pos := 3, len := clip i, val := body.take (clip i),
                             strOpen := 113, strClose := 113 }, next := 3 + i + 2 }) :=
  qstring_spec qc b hq hb body

theorem dollar_dollar_first (body : Bytes) :
    parseMoney (36 :: 36 :: body) = .ok (
      match indexOf body [36, 36] with
      | none => { tok := { cat := 115, pos := 2, len := clip body.length, val := body.take (clip body.length),
                           strOpen := 36, strClose := 0 }, next := 2 + body.length }
      | some i => { tok := { cat := 115, pos := 2, len := clip i, val := body.take (clip i),
                             strOpen := 36, strClose := 36 }, next := 2 + i + 2 }) :=
  dollar_dollar_spec body

theorem dollar_tag_first (t0 : UInt8) (tag body : Bytes) (h0 : isLetter t0 = true) (ht : tag.all isLetter = true) :
    parseMoney (36 :: t0 :: (tag ++ 36 :: body)) = .ok (
      let opener : Bytes := 36 :: t0 :: (tag ++ [36])
      match indexOf body opener with
      | none => { tok := { cat := 115, pos := opener.length, len := clip body.length, val := body.take (clip body.length),
                           strOpen := 36, strClose := 0 }, next := opener.length + body.length }
      | some i => { tok := { cat := 115, pos := opener.length, len := clip i, val := body.take (clip i),
                             strOpen := 36, strClose := 36 }, next := opener.length + i + opener.length }) :=
  dollar_tag_spec t0 tag body h0 ht

theorem first_occurrence_meaning (h n : Bytes) (i : Nat) :
    indexOf h n = some i ↔ (i ≤ h.length ∧ isPrefix n (h.drop i) = true ∧ ∀ j < i, isPrefix n (h.drop j) = false) :=
  indexOf_some_iff h n i

/-- non-vacuity and regression witnesses (kernel-evaluated): the tail-duplication input of the
repaired defect closes at the second quote; an escaped and a doubled quote are skipped -/
example : closingQuote [92, 39, 39] 39 = some 2 := by decide
example : closingQuote [97, 39, 39, 98, 92, 39, 39, 99] 39 = some 6 := by decide
example : closingQuote [92, 92, 39, 120] 39 = some 2 := by decide

end LibInj.Properties.C18
