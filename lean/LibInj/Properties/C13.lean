import LibInj.Xss.IsXSS
set_option linter.unusedSimpArgs false
/-! # C13 — XSS contexts mean what they say; surrounding text cannot hide a vector

Proved: `isXSS_or` — `IsXSS` is exactly the disjunction of the five context verdicts (evaluated in
order, short-circuiting, which is invisible because the contexts are pure functions of the input).
Not yet theorems (statements kept; checked by the oracle on every generated input): the embedding
relation `ctx_embed_statement` and the prefix relation `data_prefix_statement`. -/
namespace LibInj.Properties.C13
open LibInj LibInj.Xss

/-- **C13, disjunction.** If each context returns, `isXSS` returns the OR of the five verdicts. -/
theorem isXSS_or (s : Bytes) (b0 b1 b2 b3 b4 : Bool)
    (h0 : isXSSCtx s 0 = .ok b0) (h1 : isXSSCtx s 1 = .ok b1) (h2 : isXSSCtx s 2 = .ok b2)
    (h3 : isXSSCtx s 3 = .ok b3) (h4 : isXSSCtx s 4 = .ok b4) :
    isXSS s = .ok (b0 || b1 || b2 || b3 || b4) := by
  unfold isXSS
  simp only [h0, h1, h2, h3, h4, bind, Except.bind, pure, Except.pure]
  cases b0 <;> cases b1 <;> cases b2 <;> cases b3 <;> cases b4 <;> simp

/-- a true verdict of `isXSS` is a true verdict of some context, whatever the other contexts do -/
theorem isXSS_true_some_ctx (s : Bytes) (h : isXSS s = .ok true) : ∃ c, c < 5 ∧ isXSSCtx s c = .ok true := by
  unfold isXSS at h
  simp only [bind, Except.bind, pure, Except.pure] at h
  cases h0 : isXSSCtx s 0 with
  | error e => simp [h0] at h
  | ok b0 =>
    cases b0 with
    | true => exact ⟨0, by decide, h0⟩
    | false =>
      simp only [h0, Bool.false_eq_true, ↓reduceIte] at h
      cases h1 : isXSSCtx s 1 with
      | error e => simp [h1] at h
      | ok b1 =>
        cases b1 with
        | true => exact ⟨1, by decide, h1⟩
        | false =>
          simp only [h1, Bool.false_eq_true, ↓reduceIte] at h
          cases h2 : isXSSCtx s 2 with
          | error e => simp [h2] at h
          | ok b2 =>
            cases b2 with
            | true => exact ⟨2, by decide, h2⟩
            | false =>
              simp only [h2, Bool.false_eq_true, ↓reduceIte] at h
              cases h3 : isXSSCtx s 3 with
              | error e => simp [h3] at h
              | ok b3 =>
                cases b3 with
                | true => exact ⟨3, by decide, h3⟩
                | false =>
                  simp only [h3, Bool.false_eq_true, ↓reduceIte] at h
                  exact ⟨4, by decide, h⟩

/-- harmless tag prefixes that put the machine into each attribute context -/
def embed : Nat → Bytes
  | 1 => [60, 97, 32]                 -- `<a `
  | 2 => [60, 97, 32, 98, 61, 39]     -- `<a b='`
  | 3 => [60, 97, 32, 98, 61, 34]     -- `<a b="`
  | 4 => [60, 97, 32, 98, 61, 96]     -- "<a b=" followed by a back-tick
  | _ => []

def ctx_embed_statement : Prop :=
  ∀ (s : Bytes) (c : Nat), 1 ≤ c → c ≤ 4 → isXSSCtx s c = isXSSCtx (embed c ++ s) 0

def data_prefix_statement : Prop :=
  ∀ (s t : Bytes), (60 : UInt8) ∉ t → isXSSCtx (t ++ s) 0 = isXSSCtx s 0

/-- non-vacuity / regression instances of the two open statements, evaluated by the kernel on the model -/
example : isOkTrue (isXSSCtx [111, 110, 99, 108, 105, 99, 107, 61, 120] 1) = true ∧
    isOkTrue (isXSSCtx (embed 1 ++ [111, 110, 99, 108, 105, 99, 107, 61, 120]) 0) = true := by decide +kernel

end LibInj.Properties.C13
