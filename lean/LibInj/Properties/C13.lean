import LibInj.Xss.IsXSS
import LibInj.Proofs.XssShift
set_option linter.unusedSimpArgs false
/-! # C13 — XSS contexts mean what they say; surrounding text cannot hide a vector

Proved: `isXSS_or` — `IsXSS` is exactly the disjunction of the five context verdicts (evaluated in
order, short-circuiting, which is invisible because the contexts are pure functions of the input).
`ctx_embed` and `data_prefix` close the other two clauses: the tokenizer and the `isXSS` loop commute with
prepending bytes to the input (`Proofs/H5Shift`, `Proofs/XssShift`: every state function on the shifted
state gives the shifted result, on the states that do not test `pos = 0`), the harmless tag prefixes
are stepped through by kernel evaluation, and a `<`-free prefix only lengthens the first text token. -/
namespace LibInj.Properties.C13
open LibInj LibInj.Xss

/-- **C13, disjunction.** If each context returns, `isXSS` returns the OR of the five verdicts. -/
theorem isXSS_or (s : Bytes) (b0 b1 b2 b3 b4 : Bool)
    (h0 : isXSSCtx s 0 = .ok b0) (h1 : isXSSCtx s 1 = .ok b1) (h2 : isXSSCtx s 2 = .ok b2)
    (h3 : isXSSCtx s 3 = .ok b3) (h4 : isXSSCtx s 4 = .ok b4) :
    isXSS s = .ok (b0 || b1 || b2 || b3 || b4) := by
  unfold isXSS
  simp only [h0, h1, h2, h3, h4, bind, Except.bind, pure, Except.pure]
  cases b0 <;> cases b1 <;> cases b2 <;> cases b3 <;> cases b4 <;> simp

/-- a true verdict of `isXSS` is a true verdict of some context, whatever the other contexts do -/
theorem isXSS_true_some_ctx (s : Bytes) (h : isXSS s = .ok true) : ∃ c, c < 5 ∧ isXSSCtx s c = .ok true := by
  unfold isXSS at h
  simp only [bind, Except.bind, pure, Except.pure] at h
  cases h0 : isXSSCtx s 0 with
  | error e => simp [h0] at h
  | ok b0 =>
    cases b0 with
    | true => exact ⟨0, by decide, h0⟩
    | false =>
      simp only [h0, Bool.false_eq_true, ↓reduceIte] at h
      cases h1 : isXSSCtx s 1 with
      | error e => simp [h1] at h
      | ok b1 =>
        cases b1 with
        | true => exact ⟨1, by decide, h1⟩
        | false =>
          simp only [h1, Bool.false_eq_true, ↓reduceIte] at h
          cases h2 : isXSSCtx s 2 with
          | error e => simp [h2] at h
          | ok b2 =>
            cases b2 with
            | true => exact ⟨2, by decide, h2⟩
            | false =>
              simp only [h2, Bool.false_eq_true, ↓reduceIte] at h
              cases h3 : isXSSCtx s 3 with
              | error e => simp [h3] at h
              | ok b3 =>
                cases b3 with
                | true => exact ⟨3, by decide, h3⟩
                | false =>
                  simp only [h3, Bool.false_eq_true, ↓reduceIte] at h
                  exact ⟨4, by decide, h⟩

/-- harmless tag prefixes that put the machine into each attribute context -/
def embed : Nat → Bytes
  | 1 => [60, 97, 32]                 -- `<a `
  | 2 => [60, 97, 32, 98, 61, 39]     -- `<a b='`
  | 3 => [60, 97, 32, 98, 61, 34]     -- `<a b="`
  | 4 => [60, 97, 32, 98, 61, 96]     -- "<a b=" followed by a back-tick
  | _ => []

def ctx_embed_statement : Prop :=
  ∀ (s : Bytes) (c : Nat), 1 ≤ c → c ≤ 4 → isXSSCtx s c = isXSSCtx (embed c ++ s) 0

def data_prefix_statement : Prop :=
  ∀ (s t : Bytes), (60 : UInt8) ∉ t → isXSSCtx (t ++ s) 0 = isXSSCtx s 0

/-- **C13, embedding.** The verdict of an attribute context is the element-content verdict of the input
placed at that position of a harmless tag. -/
theorem ctx_embed : ctx_embed_statement := by
  intro s c h1 h4
  have hc : c = 1 ∨ c = 2 ∨ c = 3 ∨ c = 4 := by omega
  rcases hc with rfl | rfl | rfl | rfl
  · exact (embed_ctx1 s).symm
  · exact (embed_quote 39 2 (Or.inl rfl) rfl s).symm
  · exact (embed_quote 34 3 (Or.inr (Or.inl rfl)) rfl s).symm
  · exact (embed_quote 96 4 (Or.inr (Or.inr rfl)) rfl s).symm

/-- **C13, prefix.** Text without `<` in front of the input never changes the element-content verdict. -/
theorem data_prefix : data_prefix_statement := fun s t ht => Xss.data_prefix s t ht

/-- **C13, full statement on the model**: `IsXSS` is the disjunction of the five context verdicts, each
attribute context is the element-content reading of the embedded input, and a `<`-free prefix is inert. -/
theorem xss_contexts (s : Bytes) :
    (∀ b0 b1 b2 b3 b4, isXSSCtx s 0 = .ok b0 → isXSSCtx s 1 = .ok b1 → isXSSCtx s 2 = .ok b2 →
      isXSSCtx s 3 = .ok b3 → isXSSCtx s 4 = .ok b4 → isXSS s = .ok (b0 || b1 || b2 || b3 || b4)) ∧
    (∀ c, 1 ≤ c → c ≤ 4 → isXSSCtx s c = isXSSCtx (embed c ++ s) 0) ∧
    (∀ t, (60 : UInt8) ∉ t → isXSSCtx (t ++ s) 0 = isXSSCtx s 0) :=
  ⟨fun b0 b1 b2 b3 b4 h0 h1 h2 h3 h4 => isXSS_or s b0 b1 b2 b3 b4 h0 h1 h2 h3 h4,
   fun c h1 h4 => ctx_embed s c h1 h4, fun t ht => data_prefix s t ht⟩

/-- non-vacuity / regression instances of the two open statements, evaluated by the kernel on the model -/
example : isOkTrue (isXSSCtx [111, 110, 99, 108, 105, 99, 107, 61, 120] 1) = true ∧
    isOkTrue (isXSSCtx (embed 1 ++ [111, 110, 99, 108, 105, 99, 107, 61, 120]) 0) = true := by decide +kernel

end LibInj.Properties.C13
