import LibInj.Proofs.XssTotal
import LibInj.Proofs.Regress
import LibInj.Gen.Audit
/-! # C02 — IsXSS is total: it returns for every byte string, never panics or overflows

The model panics where the Go code can (every index/slice is checked, loops carry explicit fuel,
call recursion carries an explicit depth). These theorems say it never does, for every input:

* `isXSS_total` — `IsXSS` returns a verdict for every byte string: no index/slice error, no fuel
  exhaustion with loop fuel `3|s|+4`, no depth exhaustion with recursion depths 4 (attribute states)
  and 6 (data/tag-open/end-tag-open) — the formal reading of "does not exhaust the goroutine stack";
* `tokenizer_total` — the same for the token stream from each of the five start contexts;
* `decoder_total`, `url_matcher_total` — the character-reference decoder and the scheme matcher;
* `cdata_shipped_guard_panics` — the guard shipped at 0520984 is refuted in the kernel on
  `<![CDATA[]]]` (regression witness of the repaired defect).

* `go_calls_within_model` — **the call structure the stack bound rests on is re-checked against the source on
  every run**: the direct calls between `state*` methods that the translator finds in `/repo`'s `html5.go`
  (`Gen.Audit.h5Calls`, regenerated) all occur in the model's call graph `modelCalls`, whose only cycles are
  `stateData → stateTagOpen (→ stateEndTagOpen) → stateData` and `stateBeforeAttributeName ↔
  stateSelfClosingStartTag` — the two recursions the model bounds by depths 6 and 4 and `isXSS_total` proves
  sufficient. A new state-to-state call in the Go code (a state that starts calling itself per input byte, say)
  falsifies this theorem without any input having to exercise it.

Proof: a postcondition `Good` for each of the 20 state functions (no error, input untouched, `pos`
inside and monotone, token inside the input, progress), the invariant `Inv` re-established by every
emitting step, and the measure `3·(bytes left) + rank(state)` that strictly decreases. -/
namespace LibInj.Properties.C02
open LibInj LibInj.H5 LibInj.Xss

/-- the direct calls between state functions in the model (`Html5/Machine.lean`), under their Go names; the three
`stateAttributeValue{Single,Double,Back}Quote` wrappers are the model's `stateAttributeValueQuote q` -/
def modelCalls : List (String × String) := [
  ("stateAfterAttributeName", "stateAttributeName"), ("stateAfterAttributeName", "stateBeforeAttributeValue"),
  ("stateAfterAttributeName", "stateSelfClosingStartTag"), ("stateAfterAttributeName", "stateTagNameClose"),
  ("stateAfterAttributeValueQuotedState", "stateBeforeAttributeName"), ("stateAfterAttributeValueQuotedState", "stateSelfClosingStartTag"),
  ("stateAttributeValueBackQuote", "stateAttributeValueQuote"), ("stateAttributeValueDoubleQuote", "stateAttributeValueQuote"),
  ("stateAttributeValueSingleQuote", "stateAttributeValueQuote"),
  ("stateBeforeAttributeName", "stateAttributeName"), ("stateBeforeAttributeName", "stateSelfClosingStartTag"),
  ("stateBeforeAttributeValue", "stateAttributeValueBackQuote"), ("stateBeforeAttributeValue", "stateAttributeValueDoubleQuote"),
  ("stateBeforeAttributeValue", "stateAttributeValueNoQuote"), ("stateBeforeAttributeValue", "stateAttributeValueSingleQuote"),
  ("stateData", "stateTagOpen"),
  ("stateEndTagOpen", "stateBogusComment"), ("stateEndTagOpen", "stateData"), ("stateEndTagOpen", "stateTagName"),
  ("stateMarkupDeclarationOpen", "stateBogusComment"), ("stateMarkupDeclarationOpen", "stateCData"),
  ("stateMarkupDeclarationOpen", "stateComment"), ("stateMarkupDeclarationOpen", "stateDoctype"),
  ("stateSelfClosingStartTag", "stateBeforeAttributeName"),
  ("stateTagOpen", "stateBogusComment"), ("stateTagOpen", "stateBogusComment2"), ("stateTagOpen", "stateData"),
  ("stateTagOpen", "stateEndTagOpen"), ("stateTagOpen", "stateMarkupDeclarationOpen"), ("stateTagOpen", "stateTagName")]

/-- every direct call between state methods found in `/repo`'s source is a call the model makes -/
theorem go_calls_within_model : Gen.Audit.h5Calls.all (fun e => modelCalls.contains e) = true := by decide

theorem isXSS_total (s : Bytes) : ∃ b, isXSS s = .ok b := Xss.isXSS_total s

theorem isXSS_ctx_total (s : Bytes) (ctx : Nat) : ∃ b, isXSSCtx s ctx = .ok b := Xss.isXSSCtx_total s ctx

theorem tokenizer_total (s : Bytes) (ctx : Nat) :
    ∃ ts, tokens s ctx = .ok ts ∧ (∀ t ∈ ts, t.off + t.len ≤ s.length) ∧ ts.length ≤ 3 * s.length + 3 :=
  H5.tokens_total s ctx

theorem decoder_total (s : Bytes) (hs : s ≠ []) :
    ∃ v c, htmlDecodeByteAt s = .ok (v, c) ∧ 0 ≤ v ∧ v ≤ 0x1000FF ∧ 1 ≤ c ∧ c ≤ s.length :=
  htmlDecodeByteAt_ok s hs

theorem url_matcher_total (s : Bytes) : ∃ r, isBlackURL s = .ok r := isBlackURL_ok s

/-- every emitting step stays inside the input, makes progress and re-establishes the invariant -/
theorem step_progress (h : H) (hi : Inv h) :
    ∃ b h', next h = .ok (b, h') ∧ h'.s = h.s ∧
      (b = true → mu h' < mu h ∧ Inv h' ∧ h'.tokStart + h'.tokLen ≤ h.s.length ∧ h.pos ≤ h'.pos) :=
  next_spec h hi

/-- the input `<![CDATA[]]]`, positioned after the opener (offset 9) -/
def cdataWitness : H := { s := [60,33,91,67,68,65,84,65,91,93,93,93], pos := 9 }

/-- the shipped end-of-input guard reads out of range on `<![CDATA[]]]` … -/
theorem cdata_shipped_guard_panics :
    (match cdataLoopShipped cdataWitness 9 13 with | .error .oob => true | _ => false) = true := by decide

/-- … the repaired loop does not -/
theorem cdata_repaired_ok :
    (match cdataLoop cdataWitness 9 13 with | .ok (true, h) => h.tokLen == 3 && h.state == .eof | _ => false) = true := by
  decide

/-- non-vacuity: a multi-token input goes through several states -/
example : (match tokens [60,97,32,98,61,39,99,39,47,62,60,33,45,45,120,45,45,62] 0 with | .ok ts => ts.length | _ => 0) = 5 := by
  decide +kernel

end LibInj.Properties.C02
