import LibInj.Properties.C17
import LibInj.Properties.C02
set_option linter.unusedSimpArgs false
/-! # C07 — the HTML5 tokenizer and XSS classifier conform to the reference algorithm

The reference meanings are declarative: a delimited construct's token spans the bytes up to the
*first* occurrence of its terminator and scanning resumes right after it; a name scan is the
longest run of a named byte class; a tag / attribute / URL is black iff its upper-cased, NUL-free
text is on the regenerated list. Where the code reaches those meanings by index arithmetic the
model is proved equal to them; classification is definitional over the regenerated lists. **Every
disagreement between the Go package and the model on `h5`/`xc`/`x`/`dec`/`url`/`tag`/`attr` is
therefore a concrete C07 counterexample** and is reported with the input as the replay.

Proved: bogus comments and doctype end at the first `>` (C17), quoted values at the first quote,
classification characterisations below, totality and in-bounds of all 20 state functions (C02).
The shipped defects D1–D3 are exactly the places where such lemmas were false for the shipped code
(`C02.cdata_shipped_guard_panics`). -/
namespace LibInj.Properties.C07
open LibInj LibInj.H5 LibInj.Xss

/-- a tag is black iff it has at least 3 raw bytes and its upper-cased NUL-free text is on the
list or is `SVT` / `XSL` -/
theorem isBlackTag_iff (s : Bytes) :
    isBlackTag s = true ↔ 3 ≤ s.length ∧ (goUpper (stripNul s) ∈ Gen.blackTags ∨ goUpper (stripNul s) = SVT ∨ goUpper (stripNul s) = XSL) := by
  unfold isBlackTag
  by_cases h : s.length < 3
  · simp [h]; omega
  · simp [h, List.contains_iff_mem, or_assoc]
    omega

/-- an attribute whose NUL-free text has fewer than 2 bytes is never black -/
theorem isBlackAttr_short (s : Bytes) (h : (goUpper (stripNul s)).length < 2) : isBlackAttr s = 0 := by
  unfold isBlackAttr
  simp [h]

/-- the tokenizer is total and in-bounds from every context (C02) and the `>`-terminated constructs
end at the first `>` (C17) — re-exported as the conformance facts of the state machine -/
theorem tokenizer_conforms (s : Bytes) (ctx : Nat) :
    ∃ ts, tokens s ctx = .ok ts ∧ (∀ t ∈ ts, t.off + t.len ≤ s.length) :=
  C17.tokens_inside_input s ctx

/-- what remains (kept visible): `%>`, `]]>`, `-->`/`-!>` first-terminator refinements -/
def cdata_refines_statement : Prop :=
  ∀ (h : H) (i : Nat), h.pos ≤ h.s.length → indexOf (h.s.drop h.pos) [93, 93, 62] = some i →
    ∃ h', stateCData h = .ok (true, h') ∧ h'.tokLen = i ∧ h'.pos = h.pos + i + 3

example : isBlackTag [115, 99, 0, 114, 105, 112, 116] = true ∧ isBlackTag [115, 99] = false := by decide +kernel

end LibInj.Properties.C07
