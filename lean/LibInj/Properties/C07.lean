import LibInj.Properties.C17
import LibInj.Properties.C02
set_option linter.unusedSimpArgs false
/-! # C07 — the HTML5 tokenizer and XSS classifier conform to the reference algorithm

The reference meanings are declarative: a delimited construct's token spans the bytes up to the
*first* occurrence of its terminator and scanning resumes right after it; a name scan is the
longest run of a named byte class; a tag / attribute / URL is black iff its upper-cased, NUL-free
text is on the regenerated list. Where the code reaches those meanings by index arithmetic the
model is proved equal to them; classification is definitional over the regenerated lists. **Every
disagreement between the Go package and the model on `h5`/`xc`/`x`/`dec`/`url`/`tag`/`attr` is
therefore a concrete C07 counterexample** and is reported with the input as the replay.

Proved: every delimited construct ends at its first terminator and scanning resumes right after it —
bogus comments and doctype at the first `>`, quoted values at the first quote, `<![CDATA[` at the first
`]]>`, `<% %>` at the first `%>`, `<!-- -->` at the first `-` NUL* (`-`|`!`) `>` (C17); `IsXSS` is the
disjunction of the five contexts; classification characterisations below; totality and in-bounds of
all 20 state functions (C02).
The shipped defects D1–D3 are exactly the places where such lemmas were false for the shipped code
(`C02.cdata_shipped_guard_panics`). -/
namespace LibInj.Properties.C07
open LibInj LibInj.H5 LibInj.Xss

/-- a tag is black iff it has at least 3 raw bytes and its upper-cased NUL-free text is on the
list or is `SVT` / `XSL` -/
theorem isBlackTag_iff (s : Bytes) :
    isBlackTag s = true ↔ 3 ≤ s.length ∧ (goUpper (stripNul s) ∈ Gen.blackTags ∨ goUpper (stripNul s) = SVT ∨ goUpper (stripNul s) = XSL) := by
  unfold isBlackTag
  by_cases h : s.length < 3
  · simp [h]; omega
  · simp [h, List.contains_iff_mem, or_assoc]
    omega

/-- an attribute whose NUL-free text has fewer than 2 bytes is never black -/
theorem isBlackAttr_short (s : Bytes) (h : (goUpper (stripNul s)).length < 2) : isBlackAttr s = 0 := by
  unfold isBlackAttr
  simp [h]

/-- the tokenizer is total and in-bounds from every context (C02) and the `>`-terminated constructs
end at the first `>` (C17) — re-exported as the conformance facts of the state machine -/
theorem tokenizer_conforms (s : Bytes) (ctx : Nat) :
    ∃ ts, tokens s ctx = .ok ts ∧ (∀ t ∈ ts, t.off + t.len ≤ s.length) :=
  C17.tokens_inside_input s ctx

/-- `<![CDATA[ .. ]]>` ends at the first `]]>` (the shipped guard, defect D1, made this false) -/
theorem cdata_refines (h : H) (hp : h.pos ≤ h.s.length) :
    (∀ i, Term3 h.s 93 93 62 i → h.pos ≤ i → (∀ j, h.pos ≤ j → j < i → ¬ Term3 h.s 93 93 62 j) →
      stateCData h = foundAt h .dataText i 3) ∧
    ((∀ i, h.pos ≤ i → ¬ Term3 h.s 93 93 62 i) → stateCData h = ranOut h .dataText) :=
  C17.cdata_first_terminator h hp

/-- `<% .. %>` ends at the first `%>` (defect D2 made this false) -/
theorem percent_refines (h : H) (hp : h.pos ≤ h.s.length) :
    (∀ i, Term2 h.s 37 62 i → h.pos ≤ i → (∀ j, h.pos ≤ j → j < i → ¬ Term2 h.s 37 62 j) →
      stateBogusComment2 h = foundAt h .tagComment i 2) ∧
    ((∀ i, h.pos ≤ i → ¬ Term2 h.s 37 62 i) → stateBogusComment2 h = ranOutEnd h .tagComment) :=
  C17.percent_first_terminator h hp

/-- `<!-- ..` ends at the first `-` NUL* (`-`|`!`) `>` -/
theorem comment_refines (h : H) (hp : h.pos ≤ h.s.length) :
    (∀ i n, ComEnd h.s i n → h.pos ≤ i → (∀ j m, h.pos ≤ j → j < i → ¬ ComEnd h.s j m) →
      stateComment h = foundAt h .tagComment i (n + 3)) ∧
    ((∀ i n, h.pos ≤ i → ¬ ComEnd h.s i n) → stateComment h = ranOut h .tagComment) :=
  C17.comment_first_terminator h hp

/-- bogus comments (`<!x`, `<?x`, `</!x`) and doctype end at the first `>` -/
theorem bogus_refines (h : H) (hp : h.pos ≤ h.s.length) (i : Nat) (hi : indexByte (h.s.drop h.pos) 62 = some i) :
    (∃ h', stateBogusComment h = .ok (true, h') ∧ h'.tokStart = h.pos ∧ h'.tokLen = i ∧ h'.pos = h.pos + i + 1) ∧
    (∃ h', stateDoctype h = .ok (true, h') ∧ h'.tokStart = h.pos ∧ h'.tokLen = i ∧ h'.pos = h.pos + i + 1) := by
  obtain ⟨h1, e1, a1, b1, c1, _⟩ := (C17.bogus_comment_first_gt h hp).1 i hi
  obtain ⟨h2, e2, a2, b2, c2, _⟩ := C17.doctype_first_gt h hp i hi
  exact ⟨⟨h1, e1, a1, b1, c1⟩, ⟨h2, e2, a2, b2, c2⟩⟩

/-- the five contexts are tried in order and `IsXSS` is their disjunction (C13) -/
def contexts_statement : Prop :=
  ∀ (s : Bytes) (a b c d e : Bool), isXSSCtx s 0 = .ok a → isXSSCtx s 1 = .ok b → isXSSCtx s 2 = .ok c →
    isXSSCtx s 3 = .ok d → isXSSCtx s 4 = .ok e → isXSS s = .ok (a || b || c || d || e)

theorem contexts_refine : contexts_statement := by
  intro s a b c d e ha hb hc hd he
  unfold isXSS
  simp only [ha, hb, hc, hd, he, bind, Except.bind, pure, Except.pure]
  cases a <;> cases b <;> cases c <;> cases d <;> cases e <;> rfl

example : isBlackTag [115, 99, 0, 114, 105, 112, 116] = true ∧ isBlackTag [115, 99] = false := by decide +kernel

end LibInj.Properties.C07
