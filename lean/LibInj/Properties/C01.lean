import LibInj.Proofs.TokenizeOK
import LibInj.Properties.C12
/-! # C01 — IsSQLi is total: it returns for every byte string, never panics

The model panics where the Go code can: every index, slice and token-vector access is a checked
operation, loops carry explicit fuel. Proved for every input and every mode:

* `tokenizer_total` — the scanner (all 22 lexers, the dispatch, the virtual opening quote) never errs,
  consumes at least one byte per step and stops at end of input (fuel `|s|+1` per scan loop is never
  exhausted);
* `raw_stream_total` — the whole raw token stream exists;
* `isSQLi_total_of_passes` — if the five per-context passes return, `isSQLi` returns (the cascade
  itself adds no failure), and `isSQLi_nil`.

`isSQLi_total_partial`: what is **not yet a theorem** is that `fold` (≈40 rewrite rules over the
8-slot window, termination by the lexicographic measure of DESIGN §6) and `notWhitelist` (the two raw
indexings `input[tv[0].len]`, `tv[1].val[0]`) never err; the full statement is `C01_statement`. That part
rests on the correspondence (model and code agree on error status on every generated input, the model
erring on none) and on the panic/timeout oracle on the real package. -/
namespace LibInj.Properties.C01
open LibInj LibInj.Sqli

def C01_statement : Prop := ∀ s : Bytes, ∃ r, isSQLi s = .ok r

theorem tokenizer_total (s : State) (hp : s.pos ≤ s.input.length) (hc : s.cur < s.tv.length) :
    ∃ more s', tokenize s = .ok (more, s') ∧ TokStep s more s' := tokenize_ok s hp hc

theorem raw_stream_total (input : Bytes) (flags : Nat) :
    ∃ ts sf, rawTokens input flags = .ok (ts, sf) ∧ ts.length ≤ input.length := by
  obtain ⟨ts, sf, h, _, _, hl, _⟩ := rawTokens_faithful input flags
  exact ⟨ts, sf, h, hl⟩

theorem every_lexer_total (flags : Nat) (rest : Bytes) (c : UInt8) (h0 : rest[0]? = some c) :
    ∃ r, runP flags rest (dispatch c) = .ok r ∧ 1 ≤ r.next ∧ r.next ≤ rest.length := by
  obtain ⟨r, h1, a1, a2, _⟩ := runP_ok flags rest c h0
  exact ⟨r, h1, a1, a2⟩

theorem isSQLi_nil : isSQLi [] = .ok (false, []) := C12.isSQLi_nil

/-- the cascade adds no failure of its own -/
theorem isSQLi_total_of_passes (s : Bytes) (hp : ∀ F, ∃ r, pass s F = .ok r) : ∃ r, isSQLi s = .ok r := by
  by_cases hs : s = []
  · subst hs; exact ⟨_, isSQLi_nil⟩
  · obtain ⟨a, ha⟩ := hp C12.asisAnsi
    obtain ⟨b, hb⟩ := hp C12.asisMysql
    obtain ⟨c, hc⟩ := hp C12.singleAnsi
    obtain ⟨d, hd⟩ := hp C12.singleMysql
    obtain ⟨e, he⟩ := hp C12.doubleMysql
    exact ⟨_, C12.isSQLi_cascade s hs a b c d e ha hb hc hd he⟩

/-- non-vacuity: a truncated construct at end of input goes through every stage (kernel-evaluated) -/
example : (match isSQLi [49, 32, 111, 114, 32, 113, 39, 40] with | .ok _ => true | _ => false) = true := by
  decide +kernel

end LibInj.Properties.C01
