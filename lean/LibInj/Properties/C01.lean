import LibInj.Proofs.TokenizeOK
import LibInj.Proofs.FingerprintOK
import LibInj.Properties.C12
/-! # C01 — IsSQLi is total: it returns for every byte string, never panics

The model panics where the Go code can: every index, slice and token-vector access is a checked
operation, loops carry explicit fuel. Proved for every input and every mode:

* `tokenizer_total` — the scanner (all 22 lexers, the dispatch, the virtual opening quote) never errs,
  consumes at least one byte per step and stops at end of input (fuel `|s|+1` per scan loop is never
  exhausted);
* `raw_stream_total` — the whole raw token stream exists;
* `isSQLi_total_of_passes` — if the five per-context passes return, `isSQLi` returns (the cascade
  itself adds no failure), and `isSQLi_nil`.

* `fold_safe`, `fingerprint_safe` — **no panic in `fold` / `sqliFingerprint`**: for every input and
  every mode the folding stage (the 5-token special cases, the token-fetching loops, all two- and
  three-token rewrite rules with their `val[0]`, `val[1]`, `val[:3]` reads, `merge`, the epilogue, the
  fingerprint construction) performs no out-of-range index, slice or token-vector access; the only
  failure the model can still report there is exhaustion of the main loop's fuel, i.e. non-termination.

What is **not yet a theorem**: termination of `fold`'s main loop (lexicographic measure of DESIGN §6)
and the raw indexings in `notWhitelist` (`input[tv[0].len]`, `input[tv[0].len+1]`, `tv[1].val[0]`); the
full statement is `C01_statement`. That part rests on the correspondence (model and code agree on
error status on every generated input, the model erring on none) and on the panic/timeout oracle on
the real package. -/
namespace LibInj.Properties.C01
open LibInj LibInj.Sqli

def C01_statement : Prop := ∀ s : Bytes, ∃ r, isSQLi s = .ok r

theorem tokenizer_total (s : State) (hp : s.pos ≤ s.input.length) (hc : s.cur < s.tv.length) :
    ∃ more s', tokenize s = .ok (more, s') ∧ TokStep s more s' := tokenize_ok s hp hc

theorem raw_stream_total (input : Bytes) (flags : Nat) :
    ∃ ts sf, rawTokens input flags = .ok (ts, sf) ∧ ts.length ≤ input.length := by
  obtain ⟨ts, sf, h, _, _, hl, _⟩ := rawTokens_faithful input flags
  exact ⟨ts, sf, h, hl⟩

theorem every_lexer_total (flags : Nat) (rest : Bytes) (c : UInt8) (h0 : rest[0]? = some c) :
    ∃ r, runP flags rest (dispatch c) = .ok r ∧ 1 ≤ r.next ∧ r.next ≤ rest.length := by
  obtain ⟨r, h1, a1, a2, _⟩ := runP_ok flags rest c h0
  exact ⟨r, h1, a1, a2⟩

/-- **no panic in `fold`**, from any state satisfying the scanner invariant (in particular the
initial one): the result is a token count `≤ 7` or fuel exhaustion -/
theorem fold_safe (s : State) (hs : SInv s) :
    (∃ n s', fold s = .ok (n, s') ∧ SInv s' ∧ s'.input = s.input ∧ n ≤ 7) ∨ fold s = .error .fuel :=
  fold_ok s hs

/-- **no panic in `sqliFingerprint`**, for every input and flag word -/
theorem fingerprint_safe (input : Bytes) (flags : Nat) :
    (∃ st, fingerprint input flags = .ok st ∧ FpInv input st) ∨ fingerprint input flags = .error .fuel :=
  fingerprint_ok input flags

/-- non-vacuity: the initial state satisfies the invariant the safety theorems start from -/
example (input : Bytes) (flags : Nat) : SInv (sqliInit input flags) := sinv_init input flags

theorem isSQLi_nil : isSQLi [] = .ok (false, []) := C12.isSQLi_nil

/-- the cascade adds no failure of its own -/
theorem isSQLi_total_of_passes (s : Bytes) (hp : ∀ F, ∃ r, pass s F = .ok r) : ∃ r, isSQLi s = .ok r := by
  by_cases hs : s = []
  · subst hs; exact ⟨_, isSQLi_nil⟩
  · obtain ⟨a, ha⟩ := hp C12.asisAnsi
    obtain ⟨b, hb⟩ := hp C12.asisMysql
    obtain ⟨c, hc⟩ := hp C12.singleAnsi
    obtain ⟨d, hd⟩ := hp C12.singleMysql
    obtain ⟨e, he⟩ := hp C12.doubleMysql
    exact ⟨_, C12.isSQLi_cascade s hs a b c d e ha hb hc hd he⟩

/-- non-vacuity: a truncated construct at end of input goes through every stage (kernel-evaluated) -/
example : (match isSQLi [49, 32, 111, 114, 32, 113, 39, 40] with | .ok _ => true | _ => false) = true := by
  decide +kernel

end LibInj.Properties.C01
