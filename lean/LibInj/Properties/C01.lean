import LibInj.Proofs.TokenizeOK
import LibInj.Proofs.WhitelistOK
import LibInj.Properties.C12
/-! # C01 — IsSQLi is total: it returns for every byte string, never panics

The model panics where the Go code can: every index, slice and token-vector access is a checked
operation, loops carry explicit fuel. **Proved for every input (`isSQLi_total`, the full statement
`C01_statement`)**: `isSQLi s` returns a verdict — no out-of-range index, slice bound or token-vector
access is reachable and no loop runs out of fuel. The proof goes through every stage:

* `tokenizer_total` — the scanner (all 22 lexers, the dispatch, the virtual opening quote) never errs,
  consumes at least one byte per step and stops at end of input;
* `fold_total` — the folding stage: the 5-token special cases, the token-fetching loops, all two- and
  three-token rewrite rules with their `val[0]`, `val[1]`, `val[:3]` reads, `merge`, the epilogue.
  **Termination of the main loop** is by the measure `bigM` (`Proofs/FoldRel`): unread input, then
  window size, then a weight of the token classes that every in-place re-categorisation lowers, then
  the distance `pos - left`; each iteration that asks for another one lowers it or ends the input
  (`foldBody_ok`), so the fuel `1015·|s| + 1015` is never exhausted;
* `fingerprint_total` — `sqliFingerprint`;
* `every_pass_total` — blacklist and whitelist: `notWhitelist`'s raw reads `tv[1].val[0]`,
  `input[tv[0].len]`, `input[tv[0].len+1]` are in range. This needs (i) the table fact that a
  blacklisted two-class fingerprint ends in `c` or `U` (so `tv[1]` is a non-empty comment), and (ii) an
  invariant of the whole run that holds while at most two tokens have been emitted (`XInv`): a
  number token ends before the offset at which a later comment was dispatched, and a comment
  dispatched on `/` or `-` has two bytes (`/*`, `--`);
* the cascade adds no failure of its own (`isSQLi_total_of_passes`).

Table facts used (re-checked by the kernel against the regenerated tables on every build):
`keywords_valOK`, `keywords_phraseOK` (a phrase is never a number, a backslash or a comment),
`keywords_twoFpOK`, `dispatch_facts_table`. -/
namespace LibInj.Properties.C01
open LibInj LibInj.Sqli

def C01_statement : Prop := ∀ s : Bytes, ∃ r, isSQLi s = .ok r

theorem tokenizer_total (s : State) (hp : s.pos ≤ s.input.length) (hc : s.cur < s.tv.length) :
    ∃ more s', tokenize s = .ok (more, s') ∧ TokStep s more s' := tokenize_ok s hp hc

theorem raw_stream_total (input : Bytes) (flags : Nat) :
    ∃ ts sf, rawTokens input flags = .ok (ts, sf) ∧ ts.length ≤ input.length := by
  obtain ⟨ts, sf, h, _, _, hl, _⟩ := rawTokens_faithful input flags
  exact ⟨ts, sf, h, hl⟩

theorem every_lexer_total (flags : Nat) (rest : Bytes) (c : UInt8) (h0 : rest[0]? = some c) :
    ∃ r, runP flags rest (dispatch c) = .ok r ∧ 1 ≤ r.next ∧ r.next ≤ rest.length := by
  obtain ⟨r, h1, a1, a2, _⟩ := runP_ok flags rest c h0
  exact ⟨r, h1, a1, a2⟩

/-- **`fold` is total**, from any state satisfying the scanner invariant with an empty window beyond
slot 0 (in particular the initial one): it returns a token count `≤ 7` -/
theorem fold_total (s : State) (hs : SInv s) (hz : ∀ j t, j ≠ 0 → s.tv[j]? = some t → t.cat = 0) :
    ∃ n s', fold s = .ok (n, s') ∧ SInv s' ∧ s'.input = s.input ∧ n ≤ 7 := by
  obtain ⟨n, s', h1, h2, h3, h4, _⟩ := fold_ok s hs hz
  exact ⟨n, s', h1, h2, h3, h4⟩

/-- one iteration of `fold`'s main loop: never errs; when it asks for another iteration, the input
has ended or the measure has strictly decreased -/
theorem fold_iteration (f : FS) (hf : FInv f) : ∃ st, foldBody f = .ok st ∧ BodyOK f st := foldBody_ok f hf

/-- **`sqliFingerprint` is total**, for every input and flag word -/
theorem fingerprint_total (input : Bytes) (flags : Nat) :
    ∃ st, fingerprint input flags = .ok st ∧ FpInv input st := fingerprint_ok input flags

/-- **every parsing context is total** (fingerprint, blacklist, whitelist) -/
theorem every_pass_total (input : Bytes) (flags : Nat) : ∃ r, pass input flags = .ok r := pass_ok input flags

/-- non-vacuity: the initial state satisfies the invariant the safety theorems start from -/
example (input : Bytes) (flags : Nat) : SInv (sqliInit input flags) := sinv_init input flags

theorem isSQLi_nil : isSQLi [] = .ok (false, []) := C12.isSQLi_nil

/-- the cascade adds no failure of its own -/
theorem isSQLi_total_of_passes (s : Bytes) (hp : ∀ F, ∃ r, pass s F = .ok r) : ∃ r, isSQLi s = .ok r := by
  by_cases hs : s = []
  · subst hs; exact ⟨_, isSQLi_nil⟩
  · obtain ⟨a, ha⟩ := hp C12.asisAnsi
    obtain ⟨b, hb⟩ := hp C12.asisMysql
    obtain ⟨c, hc⟩ := hp C12.singleAnsi
    obtain ⟨d, hd⟩ := hp C12.singleMysql
    obtain ⟨e, he⟩ := hp C12.doubleMysql
    exact ⟨_, C12.isSQLi_cascade s hs a b c d e ha hb hc hd he⟩

/-- **C01, full statement: `IsSQLi` returns for every byte string.** -/
theorem isSQLi_total : C01_statement :=
  fun s => isSQLi_total_of_passes s (fun F => pass_ok s F)

/-- non-vacuity of the whitelist branch that reads the input next to a leading number: `1--` and
`1/*` reach it and return (kernel-evaluated) -/
example : (match isSQLi [49, 45, 45] with | .ok (true, _) => true | _ => false) = true := by decide +kernel
example : (match isSQLi [49, 47, 42] with | .ok (true, _) => true | _ => false) = true := by decide +kernel

/-- non-vacuity: a truncated construct at end of input goes through every stage (kernel-evaluated) -/
example : (match isSQLi [49, 32, 111, 114, 32, 113, 39, 40] with | .ok _ => true | _ => false) = true := by
  decide +kernel

end LibInj.Properties.C01
