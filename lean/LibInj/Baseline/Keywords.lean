import LibInj.Baseline.Kw0
import LibInj.Baseline.Kw1
import LibInj.Baseline.Kw2
import LibInj.Baseline.Kw3
import LibInj.Baseline.Kw4
import LibInj.Baseline.Kw5
import LibInj.Baseline.Kw6
import LibInj.Baseline.Kw7
/-! GENERATED from /repo by vharness tables — do not edit.
The keyword / fingerprint table `sqlKeywords`: (key length, key as base-256 number, class byte),
sorted by (length, key). 9352 entries. -/
namespace LibInj.Baseline

def keywords : List (Nat × Nat × Nat) := [kwChunk0, kwChunk1, kwChunk2, kwChunk3, kwChunk4, kwChunk5, kwChunk6, kwChunk7].flatten

end LibInj.Baseline
