import LibInj.Sqli.P
/-! GENERATED from /repo by vharness tables — do not edit. Dispatch table, accept sets, constants. -/
namespace LibInj.Baseline
open LibInj.Sqli

def dispatch : List P := [
  .white,.white,.white,.white,.white,.white,.white,.white,
  .white,.white,.white,.white,.white,.white,.white,.white,
  .white,.white,.white,.white,.white,.white,.white,.white,
  .white,.white,.white,.white,.white,.white,.white,.white,
  .white,.op2,.string,.hash,.money,.op1,.op2,.string,
  .byte,.byte,.op2,.op1,.byte,.dash,.number,.slash,
  .number,.number,.number,.number,.number,.number,.number,.number,
  .number,.number,.op2,.byte,.op2,.op2,.op2,.other,
  .var,.word,.bstring,.word,.word,.estring,.word,.word,
  .word,.word,.word,.word,.word,.word,.nqstring,.word,
  .word,.qstring,.word,.word,.word,.ustring,.word,.word,
  .xstring,.word,.word,.bword,.backslash,.other,.op1,.word,
  .tick,.word,.bstring,.word,.word,.estring,.word,.word,
  .word,.word,.word,.word,.word,.word,.nqstring,.word,
  .word,.qstring,.word,.word,.word,.ustring,.word,.word,
  .xstring,.word,.word,.byte,.op2,.byte,.op1,.white,
  .word,.word,.word,.word,.word,.word,.word,.word,
  .word,.word,.word,.word,.word,.word,.word,.word,
  .word,.word,.word,.word,.word,.word,.word,.word,
  .word,.word,.word,.word,.word,.word,.word,.word,
  .white,.word,.word,.word,.word,.word,.word,.word,
  .word,.word,.word,.word,.word,.word,.word,.word,
  .word,.word,.word,.word,.word,.word,.word,.word,
  .word,.word,.word,.word,.word,.word,.word,.word,
  .word,.word,.word,.word,.word,.word,.word,.word,
  .word,.word,.word,.word,.word,.word,.word,.word,
  .word,.word,.word,.word,.word,.word,.word,.word,
  .word,.word,.word,.word,.word,.word,.word,.word,
  .word,.word,.word,.word,.word,.word,.word,.word,
  .word,.word,.word,.word,.word,.word,.word,.word,
  .word,.word,.word,.word,.word,.word,.word,.word,
  .word,.word,.word,.word,.word,.word,.word,.word]

def wordAccept : List UInt8 := [0,9,10,11,12,13,32,33,34,35,37,38,39,40,41,42,43,44,45,47,58,59,60,61,62,63,64,91,92,93,94,123,124,125,126,160]

def varAccept : List UInt8 := [9,10,11,12,13,32,33,34,35,37,38,39,40,41,42,43,44,45,47,58,59,60,61,62,63,64,92,94,96,124,126]

def maxTokens : Nat := 5

def tokenSize : Nat := 32

end LibInj.Baseline
