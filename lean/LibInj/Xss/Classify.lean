import LibInj.Bytes
import LibInj.Gen.Xss
/-! `isBlackTag`, `isBlackAttr`, `htmlDecodeByteAt`, `htmlEncodeStartsWith`, `isBlackURL`
(xss_helpers.go) over the regenerated black lists. -/
namespace LibInj.Xss

def bs (s : String) : Bytes := s.toUTF8.toList

def SVT : Bytes := [83, 86, 84]
def XSL : Bytes := [88, 83, 76]
def XMLNS : Bytes := [88, 77, 76, 78, 83]
def XLINK : Bytes := [88, 76, 73, 78, 75]
def ON : Bytes := [79, 78]

def isBlackTag (s : Bytes) : Bool :=
  if s.length < 3 then false
  else
    let u := goUpper (stripNul s)
    Gen.blackTags.contains u || u == SVT || u == XSL

def lookupTy (l : List (Bytes × Nat)) (k : Bytes) : Option Nat :=
  match l with
  | [] => none
  | (n, t) :: r => if n == k then some t else lookupTy r k

/-- `isBlackAttr`: attribute type 0..4 -/
def isBlackAttr (s : Bytes) : Nat :=
  let u := goUpper (stripNul s)
  let length := u.length
  if length < 2 then 0
  else
    let r : Option Nat :=
      if length ≥ 5 then
        if u == XMLNS || u == XLINK then some 1
        else if u.take 2 == ON then lookupTy Gen.blackEvents (u.drop 2)
        else none
      else none
    match r with
    | some t => t
    | none => (lookupTy Gen.blacks u).getD 0

/-- `gsHexDecodeMap[c]` -/
def hexDec (c : UInt8) : M Nat :=
  match Gen.hexMap[c.toNat]? with
  | some v => .ok v
  | none => .error .oob

def decHexLoop (s : Bytes) (val i : Nat) : Nat → M (Int × Nat)
  | 0 => .error .fuel
  | fuel + 1 =>
    if i < s.length then do
      let ch ← at' s i
      if ch == 59 then return (val, i + 1)
      let d ← hexDec ch
      if d == 256 then return (val, i)
      let val := val * 16 + d
      if val > 0x1000FF then return (38, 1)
      decHexLoop s val (i + 1) fuel
    else return (val, i)

def decDecLoop (s : Bytes) (val i : Nat) : Nat → M (Int × Nat)
  | 0 => .error .fuel
  | fuel + 1 =>
    if i < s.length then do
      let ch ← at' s i
      if ch == 59 then return (val, i + 1)
      if ch < 48 || ch > 57 then return (val, i)
      let val := val * 10 + (ch.toNat - 48)
      if val > 0x1000FF then return (38, 1)
      decDecLoop s val (i + 1) fuel
    else return (val, i)

/-- `htmlDecodeByteAt`: (value, or -1 for end of input; bytes consumed) -/
def htmlDecodeByteAt (s : Bytes) : M (Int × Nat) := do
  let length := s.length
  if length == 0 then return (-1, 0)
  let c0 ← at' s 0
  if c0 != 38 || length < 2 then return (c0.toNat, 1)
  let c1 ← at' s 1
  if c1 != 35 || length < 3 then return (38, 1)
  let c2 ← at' s 2
  if c2 == 120 || c2 == 88 then
    if length < 4 then return (38, 1)
    let d ← hexDec (← at' s 3)
    if d == 256 then return (38, 1)
    decHexLoop s d 4 (length + 1)
  else
    if c2 < 48 || c2 > 57 then return (38, 1)
    decDecLoop s (c2.toNat - 48) 3 (length + 1)

/-- the decoding loop of `htmlEncodeStartsWith`: the decoded, upper-cased, NUL/LF-free text -/
def startsLoop (b : Bytes) (first : Bool) (acc : Bytes) : Nat → M Bytes
  | 0 => .error .fuel
  | fuel + 1 =>
    if b.length > 0 then do
      let (cb, consumed) ← htmlDecodeByteAt b
      let b ← (if consumed ≤ b.length then pure (b.drop consumed) else .error .slice)
      if first && cb ≤ 32 then startsLoop b first acc fuel
      else if cb == 0 || cb == 10 then startsLoop b false acc fuel
      else
        let cb := if cb ≥ 97 && cb ≤ 122 then cb - 32 else cb
        startsLoop b false (acc ++ [UInt8.ofNat (cb.toNat % 256)]) fuel
    else return acc

def htmlEncodeStartsWith (a b : Bytes) : M Bool := do
  let acc ← startsLoop b true [] (b.length + 1)
  return isInfix a acc

/-- the scheme list local to `isBlackURL` -/
def urls : List Bytes := [[68,65,84,65], [86,73,69,87,45,83,79,85,82,67,69], [86,66,83,67,82,73,80,84], [74,65,86,65]]

def urlJunk (c : UInt8) : Bool := c ≤ 32 || c ≥ 127

def anyStarts (str : Bytes) : List Bytes → M Bool
  | [] => pure false
  | u :: us => do
    if ← htmlEncodeStartsWith u str then return true
    anyStarts str us

def isBlackURL (s : Bytes) : M Bool :=
  anyStarts (s.dropWhile urlJunk) urls

end LibInj.Xss
