import LibInj.Html5.Machine
import LibInj.Xss.Classify
/-! `isXSS` per context and `IsXSS` (xss.go). -/
namespace LibInj.Xss
open LibInj.H5

def IF_ : Bytes := [73, 70]
def XML : Bytes := [88, 77, 76]
def IMPORT : Bytes := [73, 77, 80, 79, 82, 84]
def ENTITY : Bytes := [69, 78, 84, 73, 84, 89]

/-- the comment-token tests of `isXSS` -/
def commentIsXSS (h : H) : M Bool := do
  let t ← slice h.s h.tokStart (h.tokStart + h.tokLen)
  if t.contains 96 then return true
  let start ← offFrom h.s h.tokStart
  let ts := h.s.drop start
  if h.tokLen > 3 then
    if (← at' ts 0) == 91 && goUpper (← slice ts 1 3) == IF_ then return true
    if goUpper (← slice ts 0 3) == XML then return true
  if h.tokLen > 5 then
    let u := goUpper (stripNul (← slice ts 0 6))
    if u == IMPORT || u == ENTITY then return true
  return false

/-- the `for h5.next()` loop of `isXSS`; `attr` is the pending attribute type -/
def xssLoop (h : H) (attr : Nat) : Nat → M Bool
  | 0 => .error .fuel
  | fuel + 1 => do
    let (more, h) ← next h
    if !more then return false
    let attr := if h.tokType != .attrValue then 0 else attr
    let tok : M Bytes := slice h.s h.tokStart (h.tokStart + h.tokLen)
    match h.tokType with
    | .docType => return true
    | .tagNameOpen => if isBlackTag (← tok) then return true else xssLoop h attr fuel
    | .attrName => xssLoop h (isBlackAttr (← tok)) fuel
    | .attrValue =>
      match attr with
      | 1 => return true
      | 2 => if ← isBlackURL (← tok) then return true else xssLoop h 0 fuel
      | 3 => return true
      | 4 => if isBlackAttr (← tok) == 1 then return true else xssLoop h 0 fuel
      | _ => xssLoop h 0 fuel
    | .tagComment => if ← commentIsXSS h then return true else xssLoop h attr fuel
    | _ => xssLoop h attr fuel

def xssFuel (n : Nat) : Nat := 3 * n + 4

def isXSSCtx (s : Bytes) (ctx : Nat) : M Bool := xssLoop (init s ctx) 0 (xssFuel s.length)

/-- `IsXSS` -/
def isXSS (s : Bytes) : M Bool := do
  if ← isXSSCtx s 0 then return true
  if ← isXSSCtx s 1 then return true
  if ← isXSSCtx s 2 then return true
  if ← isXSSCtx s 3 then return true
  isXSSCtx s 4

end LibInj.Xss
