/-! Search tree over the keyword table, so that the kernel (and the compiled driver) find a key in
`O(log n)` steps instead of scanning 9 352 entries. The regenerated table comes both as the sorted list
`Gen.keywords` (the specification of the look-up) and as the forest `Gen.kwTrees` (one balanced tree per
chunk); `Sqli/Keyword.lean` proves, with the kernel, that the forest lists exactly the table and that
tree search equals linear search. -/
namespace LibInj.Sqli

inductive KwTree
  | leaf
  | node (l : KwTree) (len key val : Nat) (r : KwTree)

def KwTree.toList : KwTree → List (Nat × Nat × Nat)
  | .leaf => []
  | .node l a b v r => l.toList ++ (a, b, v) :: r.toList

/-- binary search by (length, key) -/
def KwTree.lookup : KwTree → Nat → Nat → Option Nat
  | .leaf, _, _ => none
  | .node l a b v r, x, y =>
    bif Nat.blt x a || (Nat.beq x a && Nat.blt y b) then l.lookup x y
    else bif Nat.beq x a && Nat.beq y b then some v
    else r.lookup x y

def lookupForest : List KwTree → Nat → Nat → Option Nat
  | [], _, _ => none
  | t :: ts, x, y =>
    match t.lookup x y with
    | some v => some v
    | none => lookupForest ts x y

def forestToList : List KwTree → List (Nat × Nat × Nat)
  | [] => []
  | t :: ts => t.toList ++ forestToList ts

end LibInj.Sqli
