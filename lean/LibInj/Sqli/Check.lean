import LibInj.Sqli.Fold
/-! Fingerprint construction, blacklist, whitelist and the five-context cascade (`IsSQLi`). -/
namespace LibInj.Sqli

def sqliInit (input : Bytes) (flags : Nat) : State :=
  { input := input, flags := if flags == 0 then flagQuoteNone ||| flagAnsi else flags }

/-- builds the fingerprint from the first `length` token classes; `none` when an evil token is met -/
def buildFp (s : State) (length : Nat) (i : Nat) (acc : Bytes) : Nat → M (Option Bytes)
  | 0 => .ok (some acc)
  | fuel + 1 =>
    if i < length then do
      let c := (← tvGet s i).cat
      if c == 88 then return none else buildFp s length (i + 1) (acc ++ [c]) fuel
    else return some acc

/-- an empty backtick bareword in last position of a fingerprint longer than two is a comment -/
def recatLast (s : State) (length : Nat) : M State :=
  if length > 2 then do
    let t ← tvGet s (length - 1)
    if t.cat == 110 && t.strOpen == 96 && t.len == 0 && t.strClose == 0 then
      tvSet s (length - 1) { t with cat := 99 }
    else pure s
  else pure s

/-- `sqliFingerprint` on a fresh state -/
def fingerprint (input : Bytes) (flags : Nat) : M State := do
  let s := sqliInit input flags
  let (length, s) ← fold s
  let s ← recatLast s length
  match ← buildFp s length 0 [] 8 with
  | none =>
    let t0 ← tvGet s 0
    let s ← tvSet s 0 { t0 with cat := 88, val := [88] }
    return { s with fingerprint := [88] }
  | some fp => return { s with fingerprint := fp }

def fpKey (fp : Bytes) : Bytes := (48 : UInt8) :: fp.map upperAscii

def blacklist (s : State) : Bool :=
  if s.fingerprint.length < 1 then false
  else searchKeyword (fpKey s.fingerprint) == 70

def spPassword : Bytes := bs "sp_password"

/-- fingerprint `1c`, at most two tokens emitted: is the number followed by white space, `/*` or `--`?
(reads `input[tv[0].len]`, `input[tv[0].len+1]`) -/
def wlNumComment (s : State) (t0 : Token) : M Bool := do
  if s.toks > 2 then return true
  let ch ← at' s.input t0.len
  if ch ≤ 32 then return true
  if ← (g (ch == 47) <&&> byteIs s.input (t0.len + 1) 42) then return true
  if ← (g (ch == 45) <&&> byteIs s.input (t0.len + 1) 45) then return true
  return false

/-- `notWhitelist`, fingerprints of length 2 -/
def wlTwo (s : State) (fp : Bytes) : M Bool := do
  let t0 ← tvGet s 0
  let t1 ← tvGet s 1
  if fp[1]? == some 85 then return s.toks != 2
  let v0 ← at' t1.val 0
  if v0 == 35 then return false
  if t0.cat == 110 && t1.cat == 99 && v0 != 47 then return false
  if t0.cat == 49 && t1.cat == 99 && v0 != 47 then return true
  if t0.cat == 49 && t1.cat == 99 then wlNumComment s t0
  else
    if t1.len > 2 && v0 == 45 then return false
    return true

/-- a keyword in the middle of a three-class fingerprint counts only if it is `INTO …` (reads `val[:4]`) -/
def wlInto (t1 : Token) : M Bool := do
  if t1.cat == 107 then
    if t1.len < 5 then return false
    if !toUpperCmp (bs "INTO") (← slice t1.val 0 4) then return false
  return true

/-- `notWhitelist`, fingerprints of length 3 -/
def wlThree (s : State) (fp : Bytes) : M Bool := do
  let t0 ← tvGet s 0
  let t1 ← tvGet s 1
  let t2 ← tvGet s 2
  if fp == bs "sos" || fp == bs "s&s" then
    if t0.strOpen == 0 && t2.strClose == 0 && t0.strClose == t2.strOpen then return true
    return false
  if fp == bs "s&n" || fp == bs "n&1" || fp == bs "1&1" || fp == bs "1&v" || fp == bs "1&s" then
    if s.toks == 3 then return false
  wlInto t1

def notWhitelist (s : State) : M Bool := do
  let fp := s.fingerprint
  let length := fp.length
  if length > 1 && fp[length - 1]? == some 99 then
    if contains s.input spPassword then return true
  if length == 2 then wlTwo s fp
  else if length == 3 then wlThree s fp
  else return true

def checkFingerprint (s : State) : M Bool := do
  if blacklist s then notWhitelist s else return false

def reparseAsMySQL (s : State) : Bool := s.ddx != 0 || s.hash != 0

/-- one parsing context on a fresh state: (verdict, fingerprint, reparse-as-MySQL?) -/
def pass (input : Bytes) (flags : Nat) : M (Bool × Bytes × Bool) := do
  let s ← fingerprint input flags
  return (← checkFingerprint s, s.fingerprint, reparseAsMySQL s)

def noPass : Bool × Bytes × Bool := (false, [], false)

/-- a reading that is only tried when its gate is open -/
def gated (gate : Bool) (p : M (Bool × Bytes × Bool)) : M (Bool × Bytes × Bool) :=
  if gate then p else pure noPass

/-- `IsSQLi`: the ordered cascade of the five parsing contexts -/
def isSQLi (input : Bytes) : M (Bool × Bytes) := do
  if input.length == 0 then return (false, [])
  let a ← pass input (flagQuoteNone ||| flagAnsi)
  if a.1 then return (true, a.2.1)
  let b ← gated a.2.2 (pass input (flagQuoteNone ||| flagMysql))
  if b.1 then return (true, b.2.1)
  let hasSingle := (indexByte input 39).isSome
  let c ← gated hasSingle (pass input (flagQuoteSingle ||| flagAnsi))
  if c.1 then return (true, c.2.1)
  let d ← gated (hasSingle && c.2.2) (pass input (flagQuoteSingle ||| flagMysql))
  if d.1 then return (true, d.2.1)
  let e ← gated (indexByte input 34).isSome (pass input (flagQuoteDouble ||| flagMysql))
  if e.1 then return (true, e.2.1)
  return (false, [])

end LibInj.Sqli
