import LibInj.Sqli.Lexers
/-! `sqliState`, `tokenize`, `merge`, `fold` (sqli.go). -/
namespace LibInj.Sqli

structure State where
  input : Bytes
  flags : Nat
  pos : Nat := 0
  tv : List Token := List.replicate 8 {}
  cur : Nat := 0
  fingerprint : Bytes := []
  ddx : Nat := 0
  hash : Nat := 0
  folds : Nat := 0
  toks : Nat := 0
deriving Repr

/-- `s.tokenVec[i]` -/
def tvGet (s : State) (i : Nat) : M Token :=
  match s.tv[i]? with
  | some t => .ok t
  | none => .error .tv

/-- `s.tokenVec[i] = t` -/
def tvSet (s : State) (i : Nat) (t : Token) : M State :=
  if i < s.tv.length then .ok { s with tv := s.tv.set i t } else .error .tv

def flag2Delim (flags : Nat) : UInt8 :=
  if hasFlag flags flagQuoteSingle then 39 else if hasFlag flags flagQuoteDouble then 34 else 0

/-- the `for s.pos < s.length` loop of `tokenize` -/
def tokLoop (s : State) : Nat → M (Bool × State)
  | 0 => .error .fuel
  | fuel + 1 =>
    if s.pos < s.input.length then do
      let rest ← sliceFrom s.input s.pos
      let r ← runP s.flags rest (dispatch (← at' rest 0))
      let tok := { r.tok with pos := r.tok.pos + s.pos }
      let s ← tvSet s s.cur tok
      let s := { s with pos := s.pos + r.next, ddx := s.ddx + r.ddx, hash := s.hash + r.hash }
      if tok.cat != 0 then return (true, { s with toks := s.toks + 1 })
      else tokLoop s fuel
    else return (false, s)

def tokenize (s : State) : M (Bool × State) := do
  if s.input.length == 0 then return (false, s)
  let s ← tvSet s s.cur {}
  if s.pos == 0 && (hasFlag s.flags flagQuoteSingle || hasFlag s.flags flagQuoteDouble) then
    let r ← parseStringCore {} s.input 0 (flag2Delim s.flags)
    let s ← tvSet s s.cur r.tok
    return (true, { s with pos := r.next, toks := s.toks + 1 })
  tokLoop s (s.input.length + 1)

def Token.isUnaryOp (t : Token) : M Bool := do
  if t.cat != 111 then return false
  match t.len with
  | 1 => let c ← at' t.val 0; return c == 43 || c == 45 || c == 33 || c == 126
  | 2 => byteIs t.val 0 33 <&&> byteIs t.val 1 33
  | 3 => return toUpperCmp [78, 79, 84] (← slice t.val 0 3)
  | _ => return false

def Token.isArithmeticOp (t : Token) : M Bool := do
  if t.cat == 111 && t.len == 1 then
    let c ← at' t.val 0
    return c == 42 || c == 47 || c == 43 || c == 45 || c == 37
  else return false

def mergeA (c : UInt8) : Bool :=
  c == 107 || c == 110 || c == 111 || c == 85 || c == 102 || c == 69 || c == 84 || c == 116
def mergeB (c : UInt8) : Bool := mergeA c || c == 38

/-- `merge`: `some a'` when the two tokens form a known phrase -/
def merge (a b : Token) : M (Option Token) := do
  if !mergeA a.cat then return none
  if !mergeB b.cat then return none
  if a.len + b.len + 1 > tokenSize then return none
  let tmp := (← slice a.val 0 a.len) ++ [32] ++ (← slice b.val 0 b.len)
  let ch := searchKeyword tmp
  if ch != 0 then return some (← assign a ch a.pos tmp.length tmp) else return none

def valOf (t : Token) : M Bytes := slice t.val 0 t.len

/-- loop variables of `fold` -/
structure FS where
  s : State
  pos : Nat
  left : Nat
  more : Bool
  lastComment : Token
deriving Repr

/-- `for more && pos <= maxTokens && pos-left < k` -/
def fetch (f : FS) (k : Nat) : Nat → M FS
  | 0 => .error .fuel
  | fuel + 1 =>
    if f.more && f.pos ≤ maxTokens && f.pos - f.left < k then do
      let s := { f.s with cur := f.pos }
      let (more, s) ← tokenize s
      let f := { f with s := s, more := more }
      if more then
        let cur ← tvGet s s.cur
        if cur.cat == 99 then fetch { f with lastComment := cur } k fuel
        else fetch { f with lastComment := { f.lastComment with cat := 0 }, pos := f.pos + 1 } k fuel
      else fetch f k fuel
    else return f

inductive Step | cont (f : FS) | brk (f : FS) | ret (n : Nat) (f : FS)

/-- names compared by `toUpperCmp` in the "bareword followed by ( is a function" rule -/
def funcNames : List Bytes :=
  [bs "USER_ID", bs "USER_NAME", bs "DATABASE", bs "PASSWORD", bs "USER", bs "CURRENT_USER",
   bs "CURRENT_DATE", bs "CURRENT_TIME", bs "CURRENT_TIMESTAMP", bs "LOCALTIME", bs "LOCALTIMESTAMP"]

def special5 (s : State) : M Bool := do
  let c0 := (← tvGet s 0).cat; let c1 := (← tvGet s 1).cat; let c2 := (← tvGet s 2).cat
  let c3 := (← tvGet s 3).cat; let c4 := (← tvGet s 4).cat
  return (c0 == 49 && (c1 == 111 || c1 == 44) && c2 == 40 && c3 == 49 && c4 == 41) ||
    (c0 == 110 && c1 == 111 && c2 == 40 && (c3 == 110 || c3 == 49) && c4 == 41) ||
    (c0 == 49 && c1 == 41 && c2 == 44 && c3 == 40 && c4 == 49) ||
    (c0 == 110 && c1 == 41 && c2 == 111 && c3 == 40 && c4 == 110)

def FS.dec (f : FS) (k : Nat) : M FS := do return { f with pos := ← sub f.pos k }
def FS.folds (f : FS) (k : Nat) : FS := { f with s := { f.s with folds := f.s.folds + k } }

/-- the 5-token special cases at the top of the loop -/
def foldSpecial (f : FS) : M FS := do
  if f.pos ≥ maxTokens then
    if ← special5 f.s then
      if f.pos > maxTokens then
        let s ← tvSet f.s 1 (← tvGet f.s 5)
        pure { f with s := s, pos := 2, left := 0 }
      else pure { f with pos := 1, left := 0 }
    else pure f
  else pure f

/-- outcome of the two-token stage: a rule fired and the iteration is over, or control falls
through to the three-token stage (no rule matched, or the `LIKE (` / `COLLATE n_` cases, which
re-categorise a token and break out of the switch) -/
inductive Two | done (s : Step) | next (f : FS)

/-- `;` followed by the function `IF` (any case): reads `val[0]`, `val[1]` of the function token -/
def isIfToken (a b : Token) : M Bool :=
  if a.cat == 59 && b.cat == 102 then do
    let v0 ← at' b.val 0
    if v0 == 73 || v0 == 105 then do
      let v1 ← at' b.val 1
      pure (v1 == 70 || v1 == 102)
    else pure false
  else pure false

/-- the two-token rules, in source order (`left + 1 < pos`) -/
def foldTwo (f : FS) : M Two := do
  let left := f.left
  let a ← tvGet f.s left
  let b ← tvGet f.s (left + 1)
  let bUnary ← b.isUnaryOp
  if a.cat == 115 && b.cat == 115 then return .done (.cont ((← f.dec 1).folds 1))
  if a.cat == 59 && b.cat == 59 then return .done (.cont ((← f.dec 1).folds 1))
  if (a.cat == 111 || a.cat == 38) && (bUnary || b.cat == 116) then
    return .done (.cont { (← f.dec 1).folds 1 with left := 0 })
  if a.cat == 40 && bUnary then
    let f := (← f.dec 1).folds 1
    return .done (.cont { f with left := if f.left > 0 then f.left - 1 else f.left })
  match ← merge a b with
  | some a' =>
    let s ← tvSet f.s left a'
    let f := (← FS.dec { f with s := s } 1).folds 1
    return .done (.cont { f with left := if f.left > 0 then f.left - 1 else f.left })
  | none =>
  let isIF ← isIfToken a b
  if isIF then
    let s ← tvSet f.s (left + 1) { b with cat := 84 }
    return .done (.cont { f with s := s })
  let av ← valOf a
  if (a.cat == 110 || a.cat == 118) && b.cat == 40 && funcNames.any (fun n => toUpperCmp n av) then
    let s ← tvSet f.s left { a with cat := 102 }
    return .done (.cont { f with s := s })
  if a.cat == 107 && (toUpperCmp (bs "IN") av || toUpperCmp (bs "NOT IN") av) then
    let s ← tvSet f.s left { a with cat := if b.cat == 40 then 111 else 110 }
    return .done (.cont { f with s := s })
  -- LIKE: re-categorise and fall through to the three-token stage
  if a.cat == 111 && (toUpperCmp (bs "LIKE") av || toUpperCmp (bs "NOT LIKE") av) then
    if b.cat == 40 then return .next { f with s := ← tvSet f.s left { a with cat := 102 } }
    else return .next f
  if a.cat == 116 && (b.cat == 110 || b.cat == 49 || b.cat == 116 || b.cat == 40 || b.cat == 102 || b.cat == 118 || b.cat == 115) then
    let s ← tvSet f.s left b
    return .done (.cont { (← FS.dec { f with s := s } 1).folds 1 with left := 0 })
  -- collate: re-categorise and fall through
  if a.cat == 65 && b.cat == 110 then
    if (indexByte b.val 95).isSome then
      return .next { f with s := ← tvSet f.s (left + 1) { b with cat := 116 }, left := 0 }
    else return .next f
  if a.cat == 92 then
    if ← b.isArithmeticOp then
      let s ← tvSet f.s left { a with cat := 49 }
      return .done (.cont { f with s := s, left := 0 })
    else
      let s ← tvSet f.s left b
      return .done (.cont { (← FS.dec { f with s := s } 1).folds 1 with left := 0 })
  if a.cat == 40 && b.cat == 40 then return .done (.cont { (← f.dec 1).folds 1 with left := 0 })
  if a.cat == 41 && b.cat == 41 then return .done (.cont { (← f.dec 1).folds 1 with left := 0 })
  if a.cat == 123 && b.cat == 110 then
    if b.len == 0 then
      let s ← tvSet f.s (left + 1) { b with cat := 88 }
      return .done (.ret (left + 2) { f with s := s })
    return .done (.cont { (← f.dec 2).folds 2 with left := 0 })
  if b.cat == 125 then return .done (.cont { (← f.dec 1).folds 1 with left := 0 })
  return .next f

/-- the three-token rules (`left + 2 < pos`) -/
def foldThree (f : FS) : M Step := do
  let left := f.left
  let a ← tvGet f.s left
  let b ← tvGet f.s (left + 1)
  let c ← tvGet f.s (left + 2)
  let bUnary ← b.isUnaryOp
  if a.cat == 49 && b.cat == 111 && c.cat == 49 then return .cont { (← f.dec 2) with left := 0 }
  if a.cat == 111 && b.cat != 40 && c.cat == 111 then return .cont { (← f.dec 2) with left := 0 }
  if a.cat == 38 && c.cat == 38 then return .cont { (← f.dec 2) with left := 0 }
  if a.cat == 118 && b.cat == 111 && (c.cat == 118 || c.cat == 49 || c.cat == 110) then
    return .cont { (← f.dec 2) with left := 0 }
  if (a.cat == 110 || a.cat == 49) && b.cat == 111 && (c.cat == 49 || c.cat == 110) then
    return .cont { (← f.dec 2) with left := 0 }
  if (a.cat == 110 || a.cat == 49 || a.cat == 118 || a.cat == 115) && b.cat == 111 &&
      (← valOf b) == [58, 58] && c.cat == 116 then
    return .cont { (← f.dec 2).folds 2 with left := 0 }
  if (a.cat == 110 || a.cat == 49 || a.cat == 115 || a.cat == 118) && b.cat == 44 &&
      (c.cat == 49 || c.cat == 110 || c.cat == 115 || c.cat == 118) then
    return .cont { (← f.dec 2) with left := 0 }
  if (a.cat == 69 || a.cat == 66 || a.cat == 44) && bUnary && c.cat == 40 then
    let s ← tvSet f.s (left + 1) c
    return .cont { (← FS.dec { f with s := s } 1) with left := 0 }
  if (a.cat == 107 || a.cat == 69 || a.cat == 66) && bUnary &&
      (c.cat == 49 || c.cat == 110 || c.cat == 118 || c.cat == 115 || c.cat == 102) then
    let s ← tvSet f.s (left + 1) c
    return .cont { (← FS.dec { f with s := s } 1) with left := 0 }
  if a.cat == 44 && bUnary && (c.cat == 49 || c.cat == 110 || c.cat == 118 || c.cat == 115) then
    let s ← tvSet f.s (left + 1) c
    return .cont { (← FS.dec { f with s := s } 3) with left := 0 }
  if a.cat == 44 && bUnary && c.cat == 102 then
    let s ← tvSet f.s (left + 1) c
    return .cont { (← FS.dec { f with s := s } 1) with left := 0 }
  if a.cat == 110 && b.cat == 46 && c.cat == 110 then return .cont { (← f.dec 2) with left := 0 }
  if a.cat == 69 && b.cat == 46 && c.cat == 110 then
    let s ← tvSet f.s (left + 1) c
    return .cont { (← FS.dec { f with s := s } 1) with left := 0 }
  let f ← (if a.cat == 102 && b.cat == 40 && c.cat != 41 then do
      if toUpperCmp (bs "USER") (← valOf a) then
        pure { f with s := ← tvSet f.s left { a with cat := 110 } }
      else pure f
    else pure f)
  return .cont { f with left := f.left + 1 }

/-- fuel of the token-fetching loops inside one iteration -/
def fetchFuel (n : Nat) : Nat := n + 4

/-- one iteration of the main `for` loop of `fold` -/
def foldBody (f : FS) : M Step := do
  let f ← foldSpecial f
  if !f.more || f.left ≥ maxTokens then return .brk { f with left := f.pos }
  let f ← fetch f 2 (fetchFuel f.s.input.length)
  if f.pos - f.left < 2 then return .cont { f with left := f.pos }
  match ← foldTwo f with
  | .done st => return st
  | .next f =>
    let f ← fetch f 3 (fetchFuel f.s.input.length)
    if f.pos - f.left < 3 then return .cont { f with left := f.pos }
    foldThree f

def foldLoop (f : FS) : Nat → M (Nat × FS)
  | 0 => .error .fuel
  | fuel + 1 => do
    match ← foldBody f with
    | .cont f => foldLoop f fuel
    | .brk f =>
      -- epilogue
      let f ← (if f.left < maxTokens && f.lastComment.cat == 99 then do
          let s ← tvSet f.s f.left f.lastComment
          pure { f with s := s, left := f.left + 1 }
        else pure f)
      let left := if f.left > maxTokens then maxTokens else f.left
      return (left, f)
    | .ret n f => return (n, f)

/-- the leading loop of `fold`: skip comments, `(`, SQL types and unary operators -/
def skipLoop (s : State) : Nat → M (Bool × State)
  | 0 => .error .fuel
  | fuel + 1 => do
    let (more, s) ← tokenize s
    if !more then return (false, s)
    let cur ← tvGet s s.cur
    if !(← (g (cur.cat == 99 || cur.cat == 40 || cur.cat == 116) <||> cur.isUnaryOp)) then return (true, s)
    skipLoop s fuel

/-- fuel of the main loop: above the proven termination measure (`Proofs/FoldRel`: unread input ×1015,
window size ×145, token weights and distance < 145) -/
def foldFuel (n : Nat) : Nat := 1015 * n + 1015

def fold (s : State) : M (Nat × State) := do
  let s := { s with cur := 0 }
  let (more, s) ← skipLoop s (s.input.length + 2)
  if !more then return (0, s)
  let f : FS := { s := s, pos := 1, left := 0, more := more, lastComment := {} }
  let (n, f) ← foldLoop f (foldFuel s.input.length)
  return (n, f.s)

end LibInj.Sqli
