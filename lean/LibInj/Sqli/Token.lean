import LibInj.Sqli.Keyword
import LibInj.Gen.SqliConsts
/-! `sqliToken`, `assign`, and the closing-quote loop `parseStringCore` (sqli_token.go). -/
namespace LibInj.Sqli

structure Token where
  pos : Nat := 0
  len : Nat := 0
  count : Nat := 0
  cat : UInt8 := 0
  strOpen : UInt8 := 0
  strClose : UInt8 := 0
  val : Bytes := []
deriving Repr, DecidableEq, Inhabited

/-- result of one byte-dispatched lexer, positions relative to the dispatch offset -/
structure Lex where
  tok : Token := {}
  next : Nat
  ddx : Nat := 0
  hash : Nat := 0
deriving Repr, DecidableEq

abbrev tokenSize : Nat := Gen.tokenSize
abbrev maxTokens : Nat := Gen.maxTokens

/-- `sqliToken.assign`: clip the value to `tokenSize-1` bytes -/
def assign (t : Token) (cat : UInt8) (pos length : Nat) (value : Bytes) : M Token := do
  let last := if length < tokenSize then length else tokenSize - 1
  let v ← slice value 0 last
  return { t with cat := cat, pos := pos, len := last, val := v }

def isWhite (c : UInt8) : Bool :=
  c == 32 || c == 9 || c == 10 || c == 11 || c == 12 || c == 13 || c == 0xA0 || c == 0

def flagQuoteNone : Nat := 1
def flagQuoteSingle : Nat := 2
def flagQuoteDouble : Nat := 4
def flagAnsi : Nat := 8
def flagMysql : Nat := 16

def hasFlag (flags f : Nat) : Bool := flags &&& f != 0

def isBackslash (c : UInt8) : Bool := c == 92
def trailingBs (s : Bytes) : Nat := (s.reverse.takeWhile isBackslash).length
/-- `isBackslashEscaped`: odd number of trailing backslashes -/
def isBackslashEscaped (p : Bytes) : Bool := trailingBs p % 2 == 1

/-- the closing-quote loop of `parseStringCore`; `k = len(content) - len(str)`.
Returns the offset of the closing delimiter in `content`, or `none` when unterminated. -/
def coreLoop (content : Bytes) (d : UInt8) (k : Nat) : Nat → M (Option Nat)
  | 0 => .error .fuel
  | fuel + 1 =>
    match indexByte (content.drop k) d with
    | none => .ok none
    | some i =>
      let q := k + i
      if isBackslashEscaped (content.take q) then coreLoop content d (q + 1) fuel
      else if content[q+1]? = some d then coreLoop content d (q + 2) fuel
      else .ok (some q)

/-- `parseStringCore` relative to `rest = s[pos:]` -/
def parseStringCore (t : Token) (rest : Bytes) (offset : Nat) (delim : UInt8) : M Lex := do
  let content ← sliceFrom rest offset
  let t := { t with strOpen := if offset > 0 then delim else 0 }
  match ← coreLoop content delim 0 (content.length + 1) with
  | none =>
    let t ← assign t 115 offset (rest.length - offset) content
    return { tok := { t with strClose := 0 }, next := rest.length }
  | some q =>
    let t ← assign t 115 offset q content
    return { tok := { t with strClose := delim }, next := offset + q + 1 }

end LibInj.Sqli
