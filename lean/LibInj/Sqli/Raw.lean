import LibInj.Sqli.Check
/-! The raw token stream of an input under a mode: repeated `tokenize` into slot 0, with the scan
offsets before and after each call (what the `tok` operation of the line protocol prints). -/
namespace LibInj.Sqli

structure RawTok where
  tok : Token
  before : Nat
  after : Nat
deriving Repr

def rawLoop (s : State) : Nat → M (List RawTok × State)
  | 0 => .error .fuel
  | fuel + 1 => do
    let before := s.pos
    let (more, s') ← tokenize s
    if more then
      let t ← tvGet s' s'.cur
      let (rest, sf) ← rawLoop s' fuel
      return ({ tok := t, before := before, after := s'.pos } :: rest, sf)
    else return ([], s')

def rawFuel (n : Nat) : Nat := n + 2

/-- raw tokens of `input` under `flags`, and the final scanner state (statistics, end offset) -/
def rawTokens (input : Bytes) (flags : Nat) : M (List RawTok × State) :=
  rawLoop (sqliInit input flags) (rawFuel input.length)

end LibInj.Sqli
