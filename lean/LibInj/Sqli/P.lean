/-! Names of the byte-dispatched SQL lexers (`byteParsers` in sqli_data.go). -/
namespace LibInj.Sqli

inductive P
  | white | op1 | op2 | other | byte | hash | dash | slash | backslash | string | word | var | number
  | tick | ustring | qstring | nqstring | xstring | bstring | estring | bword | money
  | unknown
deriving Repr, DecidableEq, Inhabited

end LibInj.Sqli
