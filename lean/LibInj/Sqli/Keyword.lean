import LibInj.Bytes
import LibInj.Gen.Keywords
import Std.Data.HashMap
import LibInj.Sqli.KwTree
/-! Keyword / fingerprint look-up (`searchKeyword` in sqli_helpers.go) over the regenerated table.

The logical definition is a linear search of `Gen.keywords`, which is what the kernel evaluates in
`decide`-style theorems. The compiled driver uses a hash map; the two are connected by the
kernel-checked `@[csimp]` lemma `lookupKw_eq_fast` (no `implemented_by`). -/
namespace LibInj.Sqli

def keyNat (w : Bytes) : Nat := w.foldl (fun a c => a * 256 + c.toNat) 0

/-- linear look-up by (length, base-256 key) -/
def lookupIn : List (Nat × Nat × Nat) → Nat → Nat → Option Nat
  | [], _, _ => none
  | (l', n', v) :: t, l, n => if Nat.beq l l' && Nat.beq n n' then some v else lookupIn t l n

def lookupKw (l n : Nat) : Option Nat := lookupIn Gen.keywords l n

def kwMap : Std.HashMap (Nat × Nat) Nat :=
  Std.HashMap.ofList (Gen.keywords.map fun e => ((e.1, e.2.1), e.2.2))

def lookupKwFast (l n : Nat) : Option Nat := kwMap[(l, n)]?

/-- strictly increasing in (length, key): implies pairwise distinct keys -/
def strictSorted : List (Nat × Nat × Nat) → Bool
  | a :: b :: t => (Nat.blt a.1 b.1 || (Nat.beq a.1 b.1 && Nat.blt a.2.1 b.2.1)) && strictSorted (b :: t)
  | _ => true

def keyLt (a b : Nat × Nat × Nat) : Prop := a.1 < b.1 ∨ (a.1 = b.1 ∧ a.2.1 < b.2.1)

theorem keyLt_trans {a b c : Nat × Nat × Nat} (h1 : keyLt a b) (h2 : keyLt b c) : keyLt a c := by
  unfold keyLt at *; omega

theorem strictSorted_cons {a b : Nat × Nat × Nat} {t} (h : strictSorted (a :: b :: t) = true) :
    keyLt a b ∧ strictSorted (b :: t) = true := by
  simp only [strictSorted, Bool.and_eq_true, Bool.or_eq_true, Nat.blt_eq] at h
  refine ⟨?_, h.2⟩
  rcases h.1 with h1 | ⟨h1, h2⟩
  · exact Or.inl h1
  · exact Or.inr ⟨Nat.eq_of_beq_eq_true h1, h2⟩

theorem strictSorted_head_lt : ∀ (l : List (Nat × Nat × Nat)) (a : Nat × Nat × Nat),
    strictSorted (a :: l) = true → ∀ x ∈ l, keyLt a x
  | [], _, _, x, hx => by cases hx
  | b :: t, a, h, x, hx => by
    obtain ⟨hab, ht⟩ := strictSorted_cons h
    rcases List.mem_cons.mp hx with rfl | hx
    · exact hab
    · exact keyLt_trans hab (strictSorted_head_lt t b ht x hx)

theorem strictSorted_tail : ∀ (l : List (Nat × Nat × Nat)) (a : Nat × Nat × Nat),
    strictSorted (a :: l) = true → strictSorted l = true
  | [], _, _ => rfl
  | _ :: _, _, h => (strictSorted_cons h).2

theorem pairwise_of_strictSorted : ∀ (l : List (Nat × Nat × Nat)), strictSorted l = true →
    (l.map fun e => ((e.1, e.2.1), e.2.2)).Pairwise (fun a b => (a.1 == b.1) = false)
  | [], _ => List.Pairwise.nil
  | a :: t, h => by
    simp only [List.map_cons, List.pairwise_cons]
    refine ⟨?_, pairwise_of_strictSorted t (strictSorted_tail t a h)⟩
    intro p hp
    obtain ⟨x, hx, rfl⟩ := List.mem_map.mp hp
    have := strictSorted_head_lt t a h x hx
    simp only [beq_eq_false_iff_ne, ne_eq, Prod.mk.injEq, not_and]
    unfold keyLt at this
    omega

theorem lookupIn_some_mem : ∀ (t : List (Nat × Nat × Nat)) (l n v : Nat),
    lookupIn t l n = some v → (l, n, v) ∈ t
  | [], _, _, _, h => by simp [lookupIn] at h
  | (l', n', v') :: t, l, n, v, h => by
    simp only [lookupIn] at h
    split at h
    · rename_i hc
      simp only [Bool.and_eq_true] at hc
      cases h
      rw [Nat.eq_of_beq_eq_true hc.1, Nat.eq_of_beq_eq_true hc.2]
      exact List.mem_cons_self
    · exact List.mem_cons_of_mem _ (lookupIn_some_mem t l n v h)

theorem lookupIn_none_not_mem : ∀ (t : List (Nat × Nat × Nat)) (l n : Nat),
    lookupIn t l n = none → ((t.map fun e => ((e.1, e.2.1), e.2.2)).map Prod.fst).contains (l, n) = false
  | [], _, _, _ => by simp
  | (l', n', v') :: t, l, n, h => by
    simp only [lookupIn] at h
    split at h
    · cases h
    · rename_i hc
      have ih := lookupIn_none_not_mem t l n h
      simp only [List.map_cons, List.contains_cons, Bool.or_eq_false_iff]
      refine ⟨?_, ih⟩
      simp only [Bool.and_eq_true, not_and] at hc
      simp only [beq_eq_false_iff_ne, ne_eq, Prod.mk.injEq, not_and]
      intro h1 h2
      subst h1; subst h2
      exact hc (Nat.beq_refl _) (Nat.beq_refl _)

set_option maxRecDepth 200000 in
/-- table fact, re-checked by the kernel against the regenerated table on every build -/
theorem keywords_strictSorted : strictSorted Gen.keywords = true := by decide +kernel

theorem lookupKw_eq_fast_apply (l n : Nat) : lookupKw l n = lookupKwFast l n := by
  unfold lookupKw lookupKwFast kwMap
  have hd := pairwise_of_strictSorted Gen.keywords keywords_strictSorted
  cases h : lookupIn Gen.keywords l n with
  | none =>
    exact (Std.HashMap.getElem?_ofList_of_contains_eq_false (lookupIn_none_not_mem _ _ _ h)).symm
  | some v =>
    have hm := lookupIn_some_mem _ _ _ _ h
    have hm' : ((l, n), v) ∈ Gen.keywords.map fun e => ((e.1, e.2.1), e.2.2) :=
      List.mem_map.mpr ⟨(l, n, v), hm, rfl⟩
    exact (Std.HashMap.getElem?_ofList_of_mem (k := (l, n)) (by simp) hd hm').symm

@[csimp] theorem lookupKw_eq_fast : @lookupKw = @lookupKwFast := by
  funext l n; exact lookupKw_eq_fast_apply l n

/-! ### tree search = linear search -/

theorem lookupIn_append (xs ys : List (Nat × Nat × Nat)) (l n : Nat) :
    lookupIn (xs ++ ys) l n = (match lookupIn xs l n with | some v => some v | none => lookupIn ys l n) := by
  induction xs with
  | nil => rfl
  | cons x xs ih =>
    obtain ⟨l', n', v⟩ := x
    simp only [List.cons_append, lookupIn]
    split
    · rfl
    · exact ih

theorem strictSorted_append_left : ∀ (xs ys : List (Nat × Nat × Nat)), strictSorted (xs ++ ys) = true → strictSorted xs = true
  | [], _, _ => rfl
  | [_], _, _ => rfl
  | a :: b :: t, ys, h => by
    have h' : strictSorted (a :: b :: (t ++ ys)) = true := h
    obtain ⟨hab, ht⟩ := strictSorted_cons h'
    have ih := strictSorted_append_left (b :: t) ys ht
    simp only [strictSorted, Bool.and_eq_true, Bool.or_eq_true, Nat.blt_eq]
    simp only [strictSorted, Bool.and_eq_true, Bool.or_eq_true, Nat.blt_eq] at h'
    exact ⟨h'.1, ih⟩

theorem strictSorted_append_right : ∀ (xs ys : List (Nat × Nat × Nat)), strictSorted (xs ++ ys) = true → strictSorted ys = true
  | [], _, h => h
  | a :: t, ys, h => strictSorted_append_right t ys (strictSorted_tail (t ++ ys) a h)

/-- every element of `xs` is below every element of `ys` in a sorted `xs ++ ys` -/
theorem strictSorted_append_lt : ∀ (xs ys : List (Nat × Nat × Nat)), strictSorted (xs ++ ys) = true →
    ∀ x ∈ xs, ∀ y ∈ ys, keyLt x y
  | [], _, _, _, hx, _, _ => by cases hx
  | a :: t, ys, h, x, hx, y, hy => by
    rcases List.mem_cons.mp hx with rfl | hx
    · exact strictSorted_head_lt (t ++ ys) _ h y (List.mem_append_right _ hy)
    · exact strictSorted_append_lt t ys (strictSorted_tail (t ++ ys) a h) x hx y hy

theorem lookupIn_none_of_lt (t : List (Nat × Nat × Nat)) (l n : Nat) (h : ∀ e ∈ t, keyLt (l, n, 0) e) : lookupIn t l n = none := by
  induction t with
  | nil => rfl
  | cons e t ih =>
    obtain ⟨l', n', v⟩ := e
    have he := h (l', n', v) List.mem_cons_self
    simp only [lookupIn]
    split
    · rename_i hc
      simp only [Bool.and_eq_true] at hc
      have h1 := Nat.eq_of_beq_eq_true hc.1
      have h2 := Nat.eq_of_beq_eq_true hc.2
      unfold keyLt at he; simp only at he; omega
    · exact ih (fun e he => h e (List.mem_cons_of_mem _ he))

theorem lookupIn_none_of_gt (t : List (Nat × Nat × Nat)) (l n : Nat) (h : ∀ e ∈ t, keyLt e (l, n, 0)) : lookupIn t l n = none := by
  induction t with
  | nil => rfl
  | cons e t ih =>
    obtain ⟨l', n', v⟩ := e
    have he := h (l', n', v) List.mem_cons_self
    simp only [lookupIn]
    split
    · rename_i hc
      simp only [Bool.and_eq_true] at hc
      have h1 := Nat.eq_of_beq_eq_true hc.1
      have h2 := Nat.eq_of_beq_eq_true hc.2
      unfold keyLt at he; simp only at he; omega
    · exact ih (fun e he => h e (List.mem_cons_of_mem _ he))

theorem blt_false {x a : Nat} (h : Nat.blt x a = false) : ¬ x < a := by
  intro hlt
  rw [(Nat.blt_eq).mpr hlt] at h
  cases h

theorem KwTree.lookup_eq : ∀ (t : KwTree) (x y : Nat), strictSorted t.toList = true → t.lookup x y = lookupIn t.toList x y
  | .leaf, _, _, _ => rfl
  | .node l a b v r, x, y, hs => by
    have hs' : strictSorted (l.toList ++ (a, b, v) :: r.toList) = true := hs
    have hl := strictSorted_append_left _ _ hs'
    have hr0 := strictSorted_append_right _ _ hs'
    have hr := strictSorted_tail _ _ hr0
    have ihl := KwTree.lookup_eq l x y hl
    have ihr := KwTree.lookup_eq r x y hr
    have hlt_l : ∀ e ∈ l.toList, keyLt e (a, b, v) := fun e he => strictSorted_append_lt _ _ hs' e he _ List.mem_cons_self
    have hlt_r : ∀ e ∈ r.toList, keyLt (a, b, v) e := strictSorted_head_lt _ _ hr0
    simp only [KwTree.lookup, KwTree.toList]
    rw [lookupIn_append]
    cases h1 : (Nat.blt x a || (Nat.beq x a && Nat.blt y b))
    · simp only [cond_false]
      have hnl : lookupIn l.toList x y = none := by
        apply lookupIn_none_of_gt
        intro e he
        have := hlt_l e he
        simp only [Bool.or_eq_false_iff, Bool.and_eq_false_iff] at h1
        have h1a : ¬ x < a := blt_false h1.1
        unfold keyLt at this ⊢; simp only at this ⊢
        rcases h1.2 with h2 | h2
        · have : x ≠ a := by intro e; rw [e, Nat.beq_refl] at h2; cases h2
          omega
        · have : ¬ y < b := blt_false h2
          by_cases hxa : x = a
          · cases h12 : Nat.beq x a && Nat.beq y b <;> omega
          · omega
      rw [hnl]
      simp only [lookupIn]
      cases h2 : (Nat.beq x a && Nat.beq y b)
      · simp only [cond_false, Bool.false_eq_true, ↓reduceIte]; exact ihr
      · simp only [cond_true, ↓reduceIte]
    · simp only [cond_true]
      rw [ihl]
      have hlt : keyLt (x, y, 0) (a, b, v) := by
        simp only [Bool.or_eq_true, Bool.and_eq_true, Nat.blt_eq] at h1
        unfold keyLt; simp only
        rcases h1 with h | ⟨h, h'⟩
        · exact Or.inl h
        · exact Or.inr ⟨Nat.eq_of_beq_eq_true h, h'⟩
      have hnr : lookupIn ((a, b, v) :: r.toList) x y = none := by
        apply lookupIn_none_of_lt
        intro e he
        rcases List.mem_cons.mp he with rfl | he
        · exact hlt
        · exact keyLt_trans hlt (hlt_r e he)
      rw [hnr]
      cases lookupIn l.toList x y <;> rfl

theorem lookupForest_eq : ∀ (ts : List KwTree) (x y : Nat), strictSorted (forestToList ts) = true →
    lookupForest ts x y = lookupIn (forestToList ts) x y
  | [], _, _, _ => rfl
  | t :: ts, x, y, hs => by
    have hs' : strictSorted (t.toList ++ forestToList ts) = true := hs
    simp only [lookupForest, forestToList]
    rw [lookupIn_append, KwTree.lookup_eq t x y (strictSorted_append_left _ _ hs'),
      lookupForest_eq ts x y (strictSorted_append_right _ _ hs')]
    cases lookupIn t.toList x y <;> rfl

/-- Bool-valued equality of two tables (kernel-friendly) -/
def eqEntries : List (Nat × Nat × Nat) → List (Nat × Nat × Nat) → Bool
  | [], [] => true
  | a :: as, b :: bs => Nat.beq a.1 b.1 && Nat.beq a.2.1 b.2.1 && Nat.beq a.2.2 b.2.2 && eqEntries as bs
  | _, _ => false

theorem eqEntries_sound : ∀ (a b : List (Nat × Nat × Nat)), eqEntries a b = true → a = b
  | [], [], _ => rfl
  | [], _ :: _, h => by cases h
  | _ :: _, [], h => by cases h
  | (a1, a2, a3) :: as, (b1, b2, b3) :: bs, h => by
    simp only [eqEntries, Bool.and_eq_true] at h
    obtain ⟨⟨⟨h1, h2⟩, h3⟩, h4⟩ := h
    rw [Nat.eq_of_beq_eq_true h1, Nat.eq_of_beq_eq_true h2, Nat.eq_of_beq_eq_true h3, eqEntries_sound as bs h4]

set_option maxRecDepth 200000 in
/-- table fact, re-checked by the kernel on every build: the regenerated forest lists exactly the regenerated table -/
theorem kwTrees_toList : forestToList Gen.kwTrees = Gen.keywords :=
  eqEntries_sound _ _ (by decide +kernel)

/-- look-up used by the executable model (and by kernel evaluation): tree search -/
def lookupKwT (l n : Nat) : Option Nat := lookupForest Gen.kwTrees l n

theorem lookupKwT_eq (l n : Nat) : lookupKwT l n = lookupKw l n := by
  unfold lookupKwT lookupKw
  rw [← kwTrees_toList]
  exact lookupForest_eq _ _ _ (by rw [kwTrees_toList]; exact keywords_strictSorted)

/-- `searchKeyword(key, sqlKeywords)`: class byte, or 0 -/
def searchKeyword (w : Bytes) : UInt8 :=
  let u := goUpper w
  match lookupKwT u.length (keyNat u) with
  | some v => v.toUInt8
  | none => 0

/-- the specification form of `searchKeyword`: linear search of the sorted table -/
def searchKeywordSpec (w : Bytes) : UInt8 :=
  let u := goUpper w
  match lookupKw u.length (keyNat u) with
  | some v => v.toUInt8
  | none => 0

theorem searchKeyword_eq (w : Bytes) : searchKeyword w = searchKeywordSpec w := by
  unfold searchKeyword searchKeywordSpec
  simp only [lookupKwT_eq]

/-- `toUpperCmp(a, b)` with `a` an ASCII literal -/
def toUpperCmp (a : Bytes) (b : Bytes) : Bool := a == goUpper b

end LibInj.Sqli
