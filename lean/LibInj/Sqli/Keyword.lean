import LibInj.Bytes
import LibInj.Gen.Keywords
import Std.Data.HashMap
/-! Keyword / fingerprint look-up (`searchKeyword` in sqli_helpers.go) over the regenerated table.

The logical definition is a linear search of `Gen.keywords`, which is what the kernel evaluates in
`decide`-style theorems. The compiled driver uses a hash map; the two are connected by the
kernel-checked `@[csimp]` lemma `lookupKw_eq_fast` (no `implemented_by`). -/
namespace LibInj.Sqli

def keyNat (w : Bytes) : Nat := w.foldl (fun a c => a * 256 + c.toNat) 0

/-- linear look-up by (length, base-256 key) -/
def lookupIn : List (Nat × Nat × Nat) → Nat → Nat → Option Nat
  | [], _, _ => none
  | (l', n', v) :: t, l, n => if Nat.beq l l' && Nat.beq n n' then some v else lookupIn t l n

def lookupKw (l n : Nat) : Option Nat := lookupIn Gen.keywords l n

def kwMap : Std.HashMap (Nat × Nat) Nat :=
  Std.HashMap.ofList (Gen.keywords.map fun e => ((e.1, e.2.1), e.2.2))

def lookupKwFast (l n : Nat) : Option Nat := kwMap[(l, n)]?

/-- strictly increasing in (length, key): implies pairwise distinct keys -/
def strictSorted : List (Nat × Nat × Nat) → Bool
  | a :: b :: t => (Nat.blt a.1 b.1 || (Nat.beq a.1 b.1 && Nat.blt a.2.1 b.2.1)) && strictSorted (b :: t)
  | _ => true

def keyLt (a b : Nat × Nat × Nat) : Prop := a.1 < b.1 ∨ (a.1 = b.1 ∧ a.2.1 < b.2.1)

theorem keyLt_trans {a b c : Nat × Nat × Nat} (h1 : keyLt a b) (h2 : keyLt b c) : keyLt a c := by
  unfold keyLt at *; omega

theorem strictSorted_cons {a b : Nat × Nat × Nat} {t} (h : strictSorted (a :: b :: t) = true) :
    keyLt a b ∧ strictSorted (b :: t) = true := by
  simp only [strictSorted, Bool.and_eq_true, Bool.or_eq_true, Nat.blt_eq] at h
  refine ⟨?_, h.2⟩
  rcases h.1 with h1 | ⟨h1, h2⟩
  · exact Or.inl h1
  · exact Or.inr ⟨Nat.eq_of_beq_eq_true h1, h2⟩

theorem strictSorted_head_lt : ∀ (l : List (Nat × Nat × Nat)) (a : Nat × Nat × Nat),
    strictSorted (a :: l) = true → ∀ x ∈ l, keyLt a x
  | [], _, _, x, hx => by cases hx
  | b :: t, a, h, x, hx => by
    obtain ⟨hab, ht⟩ := strictSorted_cons h
    rcases List.mem_cons.mp hx with rfl | hx
    · exact hab
    · exact keyLt_trans hab (strictSorted_head_lt t b ht x hx)

theorem strictSorted_tail : ∀ (l : List (Nat × Nat × Nat)) (a : Nat × Nat × Nat),
    strictSorted (a :: l) = true → strictSorted l = true
  | [], _, _ => rfl
  | _ :: _, _, h => (strictSorted_cons h).2

theorem pairwise_of_strictSorted : ∀ (l : List (Nat × Nat × Nat)), strictSorted l = true →
    (l.map fun e => ((e.1, e.2.1), e.2.2)).Pairwise (fun a b => (a.1 == b.1) = false)
  | [], _ => List.Pairwise.nil
  | a :: t, h => by
    simp only [List.map_cons, List.pairwise_cons]
    refine ⟨?_, pairwise_of_strictSorted t (strictSorted_tail t a h)⟩
    intro p hp
    obtain ⟨x, hx, rfl⟩ := List.mem_map.mp hp
    have := strictSorted_head_lt t a h x hx
    simp only [beq_eq_false_iff_ne, ne_eq, Prod.mk.injEq, not_and]
    unfold keyLt at this
    omega

theorem lookupIn_some_mem : ∀ (t : List (Nat × Nat × Nat)) (l n v : Nat),
    lookupIn t l n = some v → (l, n, v) ∈ t
  | [], _, _, _, h => by simp [lookupIn] at h
  | (l', n', v') :: t, l, n, v, h => by
    simp only [lookupIn] at h
    split at h
    · rename_i hc
      simp only [Bool.and_eq_true] at hc
      cases h
      rw [Nat.eq_of_beq_eq_true hc.1, Nat.eq_of_beq_eq_true hc.2]
      exact List.mem_cons_self
    · exact List.mem_cons_of_mem _ (lookupIn_some_mem t l n v h)

theorem lookupIn_none_not_mem : ∀ (t : List (Nat × Nat × Nat)) (l n : Nat),
    lookupIn t l n = none → ((t.map fun e => ((e.1, e.2.1), e.2.2)).map Prod.fst).contains (l, n) = false
  | [], _, _, _ => by simp
  | (l', n', v') :: t, l, n, h => by
    simp only [lookupIn] at h
    split at h
    · cases h
    · rename_i hc
      have ih := lookupIn_none_not_mem t l n h
      simp only [List.map_cons, List.contains_cons, Bool.or_eq_false_iff]
      refine ⟨?_, ih⟩
      simp only [Bool.and_eq_true, not_and] at hc
      simp only [beq_eq_false_iff_ne, ne_eq, Prod.mk.injEq, not_and]
      intro h1 h2
      subst h1; subst h2
      exact hc (Nat.beq_refl _) (Nat.beq_refl _)

set_option maxRecDepth 200000 in
/-- table fact, re-checked by the kernel against the regenerated table on every build -/
theorem keywords_strictSorted : strictSorted Gen.keywords = true := by decide +kernel

theorem lookupKw_eq_fast_apply (l n : Nat) : lookupKw l n = lookupKwFast l n := by
  unfold lookupKw lookupKwFast kwMap
  have hd := pairwise_of_strictSorted Gen.keywords keywords_strictSorted
  cases h : lookupIn Gen.keywords l n with
  | none =>
    exact (Std.HashMap.getElem?_ofList_of_contains_eq_false (lookupIn_none_not_mem _ _ _ h)).symm
  | some v =>
    have hm := lookupIn_some_mem _ _ _ _ h
    have hm' : ((l, n), v) ∈ Gen.keywords.map fun e => ((e.1, e.2.1), e.2.2) :=
      List.mem_map.mpr ⟨(l, n, v), hm, rfl⟩
    exact (Std.HashMap.getElem?_ofList_of_mem (k := (l, n)) (by simp) hd hm').symm

@[csimp] theorem lookupKw_eq_fast : @lookupKw = @lookupKwFast := by
  funext l n; exact lookupKw_eq_fast_apply l n

/-- `searchKeyword(key, sqlKeywords)`: class byte, or 0 -/
def searchKeyword (w : Bytes) : UInt8 :=
  let u := goUpper w
  match lookupKw u.length (keyNat u) with
  | some v => v.toUInt8
  | none => 0

/-- `toUpperCmp(a, b)` with `a` an ASCII literal -/
def toUpperCmp (a : Bytes) (b : Bytes) : Bool := a == goUpper b

end LibInj.Sqli
