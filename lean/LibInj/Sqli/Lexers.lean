import LibInj.Sqli.Token
/-! The 22 byte-dispatched lexers of sqli_parse.go / sqli_data.go.
Every lexer takes `rest = input[pos:]` and returns offsets relative to `pos`. -/
namespace LibInj.Sqli

def bs (s : String) : Bytes := s.toUTF8.toList

def notWordAccept (c : UInt8) : Bool := !mem Gen.wordAccept c
def notVarAccept (c : UInt8) : Bool := !mem Gen.varAccept c
def isDigit (c : UInt8) : Bool := c - 48 ≤ 9
def hexDigits : Bytes := [48,49,50,51,52,53,54,55,56,57,65,66,67,68,69,70,97,98,99,100,101,102]
def hexDigitsLU : Bytes := [48,49,50,51,52,53,54,55,56,57,97,98,99,100,101,102,65,66,67,68,69,70]
def binDigits : Bytes := [48,49]
def moneyChars : Bytes := [48,49,50,51,52,53,54,55,56,57,46,44]
def isHexDigit (c : UInt8) : Bool := mem hexDigits c
def isBinDigit (c : UInt8) : Bool := mem binDigits c
def isMoneyChar (c : UInt8) : Bool := mem moneyChars c
def isLetter (c : UInt8) : Bool := isLowerAscii c || isUpperAscii c

def parseWhite (_ : Bytes) : M Lex := return { next := 1 }
def parseOperator1 (rest : Bytes) : M Lex := do
  return { tok := ← assign {} 111 0 1 rest, next := 1 }
def parseOther (rest : Bytes) : M Lex := do
  return { tok := ← assign {} 63 0 1 rest, next := 1 }
def parseByte (rest : Bytes) : M Lex := do
  return { tok := ← assign {} (← at' rest 0) 0 1 rest, next := 1 }

def parseEolComment (rest : Bytes) : M Lex := do
  match indexByte rest 10 with
  | none => return { tok := ← assign {} 99 0 rest.length rest, next := rest.length }
  | some i => return { tok := ← assign {} 99 0 i rest, next := i + 1 }

def parseHash (flags : Nat) (rest : Bytes) : M Lex := do
  if hasFlag flags flagMysql then
    let r ← parseEolComment rest
    return { r with hash := 2 }
  else return { tok := ← assign {} 111 0 1 [35], next := 1, hash := 1 }

def parseDash (flags : Nat) (rest : Bytes) : M Lex := do
  let n := rest.length
  if ← (g (2 < n) <&&> byteIs rest 1 45 <&&> (do return isWhite (← at' rest 2))) then parseEolComment rest
  else if ← (g (2 == n) <&&> byteIs rest 1 45) then parseEolComment rest
  else if ← (g (1 < n) <&&> byteIs rest 1 45 <&&> g (hasFlag flags flagAnsi)) then
    let r ← parseEolComment rest
    return { r with ddx := 1 }
  else return { tok := ← assign {} 111 0 1 [45], next := 1 }

def parseSlash (rest : Bytes) : M Lex := do
  let n := rest.length
  if ← (g (1 == n) <||> byteNe rest 1 42) then parseOperator1 rest
  else
    let tail ← sliceFrom rest 2
    let index := indexOf tail [42, 47]
    let length := match index with | none => n | some i => 2 + i + 2
    let evil ← (match index with
      | some i => do
        let inner ← slice rest 2 (2 + i + 1)
        if contains inner [47, 42] then pure true
        else if 2 < n then pure ((← at' rest 2) == 33) else pure false
      | none => if 2 < n then do pure ((← at' rest 2) == 33) else pure false)
    return { tok := ← assign {} (if evil then 88 else 99) 0 length rest, next := length }

def parseBackSlash (rest : Bytes) : M Lex := do
  if ← (g (1 < rest.length) <&&> byteIs rest 1 78) then return { tok := ← assign {} 49 0 2 rest, next := 2 }
  else return { tok := ← assign {} 92 0 1 rest, next := 1 }

def parseOperator2 (rest : Bytes) : M Lex := do
  let n := rest.length
  if 1 ≥ n then parseOperator1 rest
  else if ← (g (2 < n) <&&> byteIs rest 0 60 <&&> byteIs rest 1 61 <&&> byteIs rest 2 62) then
    return { tok := ← assign {} 111 0 3 rest, next := 3 }
  else
    let ch := searchKeyword (← slice rest 0 2)
    if ch != 0 then return { tok := ← assign {} ch 0 2 rest, next := 2 }
    else if (← at' rest 0) == 58 then return { tok := ← assign {} 58 0 1 rest, next := 1 }
    else parseOperator1 rest

def parseString (t : Token) (rest : Bytes) : M Lex := do
  parseStringCore t rest 1 (← at' rest 0)

/-- the keyword-split loop of `parseWord` over the clipped value -/
def splitLoop (rest : Bytes) (t : Token) : Nat → Nat → M (Option Lex)
  | _, 0 => .ok none
  | i, fuel + 1 =>
    if i < t.len then do
      let delim ← at' t.val i
      if delim == 46 || delim == 96 then
        let ch := searchKeyword (← slice t.val 0 i)
        if ch != 0 && ch != 110 then
          return some { tok := ← assign {} ch 0 i rest, next := i }
        else splitLoop rest t (i + 1) fuel
      else splitLoop rest t (i + 1) fuel
    else .ok none

def parseWord (rest : Bytes) : M Lex := do
  let length := spn notWordAccept rest
  let t ← assign {} 110 0 length rest
  match ← splitLoop rest t 0 (t.len + 1) with
  | some r => return r
  | none =>
    if length < tokenSize then
      let ch := searchKeyword (← slice t.val 0 length)
      return { tok := { t with cat := if ch == 0 then 110 else ch }, next := length }
    else return { tok := t, next := length }

/-- re-base a lexer result that was computed on `rest[p:]` -/
def shift (r : Lex) (p : Nat) : Lex := { r with tok := { r.tok with pos := r.tok.pos + p }, next := r.next + p }

def parseTick (t : Token) (rest : Bytes) : M Lex := do
  let r ← parseStringCore t rest 1 96
  let ch := searchKeyword (← slice r.tok.val 0 r.tok.len)
  return { r with tok := { r.tok with cat := if ch == 102 then 102 else 110 } }

def parseVar (rest : Bytes) : M Lex := do
  let n := rest.length
  let (p, count) := if 1 < n && rest[1]? == some 64 then (2, 2) else (1, 1)
  let t : Token := { count := count }
  if p < n then
    let c ← at' rest p
    if c == 96 then
      let r ← parseTick t (← sliceFrom rest p)
      return shift { r with tok := { r.tok with cat := 118 } } p
    else if c == 39 || c == 34 then
      let r ← parseString t (← sliceFrom rest p)
      return shift { r with tok := { r.tok with cat := 118 } } p
    else
      let tail ← sliceFrom rest p
      let length := spn notVarAccept tail
      return { tok := ← assign t 118 p length tail, next := p + length }
  else
    let tail ← sliceFrom rest p
    return { tok := ← assign t 118 p 0 tail, next := p }

/-- `0x…` / `0b…`: digits after the two-byte prefix, or the bareword `0x` -/
def numPrefixed (ds : Bytes) (rest : Bytes) : M Lex := do
  let length := spn (mem ds) (← sliceFrom rest 2)
  if length == 0 then return { tok := ← assign {} 110 0 2 rest, next := 2 }
  else return { tok := ← assign {} 49 0 (2 + length) rest, next := 2 + length }

/-- which digit set follows a leading `0`, if any -/
def numDigitSet (rest : Bytes) (c0 : UInt8) : M (Option Bytes) :=
  if c0 == 48 && 1 < rest.length then do
    let c1 ← at' rest 1
    if c1 == 88 || c1 == 120 then pure (some hexDigits)
    else if c1 == 66 || c1 == 98 then pure (some binDigits)
    else pure none
  else pure none

/-- the optional fraction: new position, and whether only a lone `.` was read -/
def numDot (rest : Bytes) (pos : Nat) : M (Nat × Bool) := do
  if ← (g (pos < rest.length) <&&> byteIs rest pos 46) then
    let pos1 := pos + 1
    let pos2 := pos1 + spn isDigit (← sliceFrom rest pos1)
    pure (pos2, pos2 == 1)
  else pure (pos, false)

/-- the optional exponent: new position, saw `e`, saw exponent digits -/
def numExp (rest : Bytes) (pos : Nat) : M (Nat × Bool × Bool) := do
  if pos < rest.length then
    let c ← at' rest pos
    if c == 69 || c == 101 then
      let pos := pos + 1
      let pos ← (if pos < rest.length then do
          let c ← at' rest pos
          pure (if c == 43 || c == 45 then pos + 1 else pos)
        else pure pos)
      let k := spn isDigit (← sliceFrom rest pos)
      pure (pos + k, true, k != 0)
    else pure (pos, false, false)
  else pure (pos, false, false)

/-- Oracle's `d`/`f` suffix -/
def numSuffix (rest : Bytes) (pos : Nat) : M Nat := do
  if pos < rest.length then
    let c ← at' rest pos
    if c == 100 || c == 68 || c == 102 || c == 70 then
      if pos + 1 == rest.length then pure (pos + 1)
      else do
        let c1 ← at' rest (pos + 1)
        if isWhite c1 || c1 == 59 then pure (pos + 1)
        else if c1 == 117 || c1 == 85 then pure (pos + 1)
        else pure pos
    else pure pos
  else pure pos

def parseNumber (rest : Bytes) : M Lex := do
  let c0 ← at' rest 0
  match ← numDigitSet rest c0 with
  | some ds => numPrefixed ds rest
  | none =>
    let (pos, dotOnly) ← numDot rest (spn isDigit rest)
    if dotOnly then return { tok := ← assign {} 46 0 1 [46], next := pos }
    else
      let (pos, haveE, haveExp) ← numExp rest pos
      let pos ← numSuffix rest pos
      if haveE && !haveExp then return { tok := ← assign {} 110 0 pos rest, next := pos }
      else return { tok := ← assign {} 49 0 pos rest, next := pos }

def parseUString (rest : Bytes) : M Lex := do
  let n := rest.length
  if ← (g (2 < n) <&&> byteIs rest 1 38 <&&> byteIs rest 2 39) then
    let r ← parseString {} (← sliceFrom rest 2)
    let r := shift r 2
    return { r with tok := { r.tok with strOpen := 117, strClose := if r.tok.strClose == 39 then 117 else r.tok.strClose } }
  else parseWord rest

def parseEString (rest : Bytes) : M Lex := do
  let n := rest.length
  if ← (g (2 ≥ n) <||> byteNe rest 1 39) then parseWord rest
  else parseStringCore {} rest 2 39

/-- closing delimiter of an Oracle q-string -/
def qClose (ch : UInt8) : UInt8 :=
  if ch == 40 then 41 else if ch == 91 then 93 else if ch == 123 then 125 else if ch == 60 then 62 else ch

def parseQStringCore (rest : Bytes) (offset : Nat) : M Lex := do
  let n := rest.length
  let p := offset
  let bad ← (if p ≥ n then pure true else do
    let c ← at' rest p
    if c != 113 && c != 81 then pure true
    else if p + 2 ≥ n then pure true
    else pure ((← at' rest (p + 1)) != 39))
  if bad then parseWord rest
  else
    let ch ← at' rest (p + 2)
    if ch < 33 then parseWord rest
    else
      let ch := qClose ch
      let tail ← sliceFrom rest (p + 3)
      match indexOf tail [ch, 39] with
      | none =>
        let t ← assign {} 115 (p + 3) (n - p - 3) tail
        return { tok := { t with strOpen := 113, strClose := 0 }, next := n }
      | some i =>
        let t ← assign {} 115 (p + 3) i tail
        return { tok := { t with strOpen := 113, strClose := 113 }, next := p + 3 + i + 2 }

def parseNqString (rest : Bytes) : M Lex := do
  if ← (g (2 < rest.length) <&&> byteIs rest 1 39) then parseEString rest
  else parseQStringCore rest 1

/-- `parseXString` / `parseBString`: `x'<digits>'` as a number, else a word -/
def parseXBString (digits : Bytes) (rest : Bytes) : M Lex := do
  let n := rest.length
  if ← (g (2 ≥ n) <||> byteNe rest 1 39) then parseWord rest
  else
    let length := spn (mem digits) (← sliceFrom rest 2)
    if ← (g (2 + length ≥ n) <||> byteNe rest (2 + length) 39) then parseWord rest
    else return { tok := ← assign {} 49 0 (length + 3) rest, next := 2 + length + 1 }

def parseBWord (rest : Bytes) : M Lex := do
  match indexByte rest 93 with
  | none => return { tok := ← assign {} 110 0 rest.length rest, next := rest.length }
  | some e => return { tok := ← assign {} 110 0 (e + 1) rest, next := e + 1 }

def parseMoney (rest : Bytes) : M Lex := do
  let n := rest.length
  if 1 == n then return { tok := ← assign {} 110 0 1 [36], next := n }
  else
    let tail1 ← sliceFrom rest 1
    let length := spn isMoneyChar tail1
    if length == 0 then
      if (← at' rest 1) == 36 then
        let tail2 ← sliceFrom rest 2
        match indexOf tail2 [36, 36] with
        | none =>
          let t ← assign {} 115 2 (n - 2) tail2
          return { tok := { t with strOpen := 36, strClose := 0 }, next := n }
        | some i =>
          let t ← assign {} 115 2 i tail2
          return { tok := { t with strOpen := 36, strClose := 36 }, next := 2 + i + 2 }
      else
        let xlen := spn isLetter tail1
        if xlen == 0 then return { tok := ← assign {} 110 0 1 [36], next := 1 }
        else if ← (g (xlen + 1 == n) <||> byteNe rest (xlen + 1) 36) then
          return { tok := ← assign {} 110 0 1 [36], next := 1 }
        else
          let body ← sliceFrom rest (xlen + 2)
          let tag ← slice rest 0 (xlen + 2)
          match indexOf body tag with
          | none =>
            let t ← assign {} 115 (xlen + 2) (n - xlen - 2) body
            return { tok := { t with strOpen := 36, strClose := 0 }, next := n }
          | some i =>
            let t ← assign {} 115 (xlen + 2) i body
            return { tok := { t with strOpen := 36, strClose := 36 }, next := xlen + 2 + i + xlen + 2 }
    else if ← (g (length == 1) <&&> byteIs rest 1 46) then parseWord rest
    else return { tok := ← assign {} 49 0 (length + 1) rest, next := length + 1 }

/-- `byteParsers[c]`, from the regenerated dispatch table -/
def dispatch (c : UInt8) : P := (Gen.dispatch[c.toNat]?).getD .unknown

def runP (flags : Nat) (rest : Bytes) : P → M Lex
  | .white => parseWhite rest | .op1 => parseOperator1 rest | .op2 => parseOperator2 rest
  | .other => parseOther rest | .byte => parseByte rest | .hash => parseHash flags rest
  | .dash => parseDash flags rest | .slash => parseSlash rest | .backslash => parseBackSlash rest
  | .string => parseString {} rest | .word => parseWord rest | .var => parseVar rest
  | .number => parseNumber rest | .tick => parseTick {} rest | .ustring => parseUString rest
  | .qstring => parseQStringCore rest 0 | .nqstring => parseNqString rest
  | .xstring => parseXBString hexDigitsLU rest | .bstring => parseXBString binDigits rest
  | .estring => parseEString rest | .bword => parseBWord rest | .money => parseMoney rest
  | .unknown => .error .parser

end LibInj.Sqli
