import LibInj.Proofs.BenignLex
import LibInj.Proofs.FpTable
import LibInj.Proofs.Case
set_option linter.unusedSimpArgs false
set_option linter.unusedVariables false
/-! C14: a word with a trailing dot (`w.`) is no key of the keyword table and starts none of its phrases — from two facts
about the regenerated table (no key ends in `.`, no key contains `. `), so that the sentence theorems need hypotheses
about the words only. -/
namespace LibInj.Sqli
open LibInj LibInj.Spec LibInj.Tables

/-- some two adjacent base-256 digits of `n` (among its `k` low digits and the one above) are `.` and a blank -/
def hasDotBlank : Nat → Nat → Bool
  | 0, _ => false
  | k + 1, n => Nat.beq (n % 65536) (46 * 256 + 32) || hasDotBlank k (n / 256)

/-- table facts: no key ends in `.`, no key contains `. ` -/
theorem keys_dot_facts :
    (Gen.keywords.all fun e => !(Nat.beq (e.2.1 % 256) 46) && !(hasDotBlank e.1 e.2.1)) = true := by decide +kernel

theorem goUpper_word_append (w : Bytes) (hw : w.all isWordByteB = true) (t : Bytes) :
    goUpper (w ++ t) = w.map upperAscii ++ goUpper t := by
  induction w with
  | nil => rfl
  | cons c w ih =>
    have hc : isWordByteB c = true := by simp only [List.all_cons, Bool.and_eq_true] at hw; exact hw.1
    have hw' : w.all isWordByteB = true := by simp only [List.all_cons, Bool.and_eq_true] at hw; exact hw.2
    have hne : c ≠ 0xC4 ∧ c ≠ 0xC5 := by
      constructor <;> (intro e; rw [e] at hc; revert hc; decide)
    simp only [List.cons_append, List.map_cons]
    rw [← ih hw']
    exact goUpper_cons_generic c (w ++ t) (fun h => hne.1 h.1) (fun h => hne.2 h.1)

theorem keyNat_append_snoc (a : Bytes) (c : UInt8) : keyNat (a ++ [c]) = keyNat a * 256 + c.toNat := keyNat_snoc a c

theorem keyNat_mod (a : Bytes) (c : UInt8) : keyNat (a ++ [c]) % 256 = c.toNat := by
  rw [keyNat_snoc]
  have := c.toNat_lt
  omega

theorem hasDotBlank_mono : ∀ (k n : Nat), hasDotBlank k n = true → hasDotBlank (k + 1) n = true
  | 0, _, h => by cases h
  | k + 1, n, h => by
    unfold hasDotBlank at h ⊢
    simp only [Bool.or_eq_true] at h ⊢
    rcases h with h | h
    · exact Or.inl h
    · exact Or.inr (hasDotBlank_mono k _ h)

/-- a key that contains `. ` has the digit pair -/
theorem hasDotBlank_keyNat (a : Bytes) : ∀ (r : Bytes), hasDotBlank (a ++ 46 :: 32 :: r.reverse).length (keyNat (a ++ 46 :: 32 :: r.reverse)) = true
  | [] => by
    have e : a ++ [46, 32] = (a ++ [46]) ++ [32] := by simp
    simp only [List.reverse_nil]
    rw [e, keyNat_snoc, keyNat_snoc]
    simp only [List.length_append, List.length_cons, List.length_nil]
    unfold hasDotBlank
    have : ((keyNat a * 256 + (46 : UInt8).toNat) * 256 + (32 : UInt8).toNat) % 65536 = 46 * 256 + 32 := by
      have h1 : (46 : UInt8).toNat = 46 := rfl
      have h2 : (32 : UInt8).toNat = 32 := rfl
      rw [h1, h2]; omega
    have h1 : (46 : UInt8).toNat = 46 := rfl
    have h2 : (32 : UInt8).toNat = 32 := rfl
    rw [h1, h2] at this ⊢
    simp only [Bool.or_eq_true]
    exact Or.inl (by rw [this]; rfl)
  | c :: r => by
    have ih := hasDotBlank_keyNat a r
    have e : a ++ 46 :: 32 :: (c :: r).reverse = (a ++ 46 :: 32 :: r.reverse) ++ [c] := by simp
    rw [e, keyNat_snoc]
    simp only [List.length_append, List.length_cons, List.length_nil]
    unfold hasDotBlank
    have hdiv : (keyNat (a ++ 46 :: 32 :: r.reverse) * 256 + c.toNat) / 256 = keyNat (a ++ 46 :: 32 :: r.reverse) := by
      have := c.toNat_lt; omega
    rw [hdiv]
    simp only [List.length_append, List.length_cons, List.length_reverse] at ih ⊢
    simp only [Bool.or_eq_true]
    exact Or.inr ih

theorem searchKeyword_ne_zero_mem (x : Bytes) (h : searchKeyword x ≠ 0) :
    ∃ v, ((goUpper x).length, keyNat (goUpper x), v) ∈ Gen.keywords := by
  rw [searchKeyword_eq] at h
  unfold searchKeywordSpec at h
  simp only [] at h
  cases hl : lookupKw (goUpper x).length (keyNat (goUpper x)) with
  | none => rw [hl] at h; exact absurd rfl h
  | some v => exact ⟨v, lookupIn_some_mem _ _ _ _ hl⟩

/-- **a word followed by a dot is no key and starts no phrase** -/
theorem word_dot_free (w : Bytes) (hw : w.all isWordByteB = true) :
    searchKeyword (w ++ [46]) = 0 ∧ PhraseFree (w ++ [46]) := by
  constructor
  · apply Decidable.byContradiction
    intro h
    obtain ⟨v, hm⟩ := searchKeyword_ne_zero_mem _ h
    have hf := List.all_eq_true.mp keys_dot_facts _ hm
    simp only [Bool.and_eq_true, Bool.not_eq_true'] at hf
    have hu : goUpper (w ++ [46]) = w.map upperAscii ++ [46] := by
      rw [goUpper_word_append w hw]; rfl
    rw [hu, keyNat_mod] at hf
    exact absurd hf.1 (by decide)
  · intro y
    apply Decidable.byContradiction
    intro h
    obtain ⟨v, hm⟩ := searchKeyword_ne_zero_mem _ h
    have hf := List.all_eq_true.mp keys_dot_facts _ hm
    simp only [Bool.and_eq_true, Bool.not_eq_true'] at hf
    have hu : goUpper (w ++ [46] ++ [32] ++ y) = w.map upperAscii ++ 46 :: 32 :: (goUpper y).reverse.reverse := by
      rw [List.append_assoc, List.append_assoc, goUpper_word_append w hw, List.reverse_reverse]; rfl
    rw [hu, hasDotBlank_keyNat] at hf
    exact absurd hf.2 (by decide)

end LibInj.Sqli
