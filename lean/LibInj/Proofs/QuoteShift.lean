import LibInj.Proofs.TokenizeOK
set_option linter.unusedSimpArgs false
set_option linter.unusedVariables false
/-! C12: reading `x` as the continuation of a quoted string yields the same tokens as reading
`quote ++ x` as-is (offsets shifted by one; only the first token's opening-quote mark differs). -/
namespace LibInj.Sqli
open LibInj LibInj.Spec

/-- token of the as-is reading (`t1`) against token of the in-quote reading (`t2`) -/
def TokRel (t1 t2 : Token) : Prop :=
  t1.cat = t2.cat ∧ t1.len = t2.len ∧ t1.val = t2.val ∧ t1.count = t2.count ∧ t1.strClose = t2.strClose ∧
  t1.pos = t2.pos + 1 ∧ (t2.pos ≠ 0 → t1.strOpen = t2.strOpen)

/-- the parsing-mode bits agree -/
def ModeEq (f1 f2 : Nat) : Prop :=
  hasFlag f1 flagMysql = hasFlag f2 flagMysql ∧ hasFlag f1 flagAnsi = hasFlag f2 flagAnsi

theorem runP_mode (f1 f2 : Nat) (h : ModeEq f1 f2) (rest : Bytes) (p : P) : runP f1 rest p = runP f2 rest p := by
  cases p <;> simp only [runP]
  · unfold parseHash; rw [h.1]
  · unfold parseDash; rw [h.2]

/-- the two scanners are at the same place of `x`, past its first token -/
structure SR (s1 s2 : State) : Prop where
  input : ∃ q, s1.input = q :: s2.input
  pos : s1.pos = s2.pos + 1
  past : 1 ≤ s2.pos
  inb : s2.pos ≤ s2.input.length
  cur : s1.cur = s2.cur
  tv1 : s1.cur < s1.tv.length
  tv2 : s2.cur < s2.tv.length
  mode : ModeEq s1.flags s2.flags
  ddx : s1.ddx = s2.ddx
  hash : s1.hash = s2.hash
  toks : s1.toks = s2.toks

theorem sr_drop {s1 s2 : State} (h : SR s1 s2) : s1.input.drop s1.pos = s2.input.drop s2.pos := by
  obtain ⟨q, hq⟩ := h.input
  rw [hq, h.pos]; rfl

/-- **the scan loops of the two readings move in lock step** -/
theorem tokLoop_shift : ∀ (f1 f2 : Nat) (s1 s2 : State), SR s1 s2 →
    s2.input.length - s2.pos < f1 → s2.input.length - s2.pos < f2 →
    ∃ more s1' s2', tokLoop s1 f1 = .ok (more, s1') ∧ tokLoop s2 f2 = .ok (more, s2') ∧ SR s1' s2' ∧
      (more = true → ∃ t1 t2, s1'.tv[s1.cur]? = some t1 ∧ s2'.tv[s2.cur]? = some t2 ∧ TokRel t1 t2 ∧ t2.pos ≠ 0) := by
  intro f1
  induction f1 with
  | zero => intro f2 s1 s2 _ h; omega
  | succ f1 ih =>
    intro f2 s1 s2 hsr h1 h2
    cases f2 with
    | zero => omega
    | succ f2 =>
      obtain ⟨q, hq⟩ := hsr.input
      have hl1 : s1.input.length = s2.input.length + 1 := by rw [hq]; simp
      have hd := sr_drop hsr
      unfold tokLoop
      by_cases hlt : s2.pos < s2.input.length
      · have hlt1 : s1.pos < s1.input.length := by rw [hl1, hsr.pos]; omega
        have hrl : 0 < (s2.input.drop s2.pos).length := by simp; omega
        obtain ⟨r, hr, n1, n2, _⟩ := runP_ok s2.flags (s2.input.drop s2.pos) s2.input[s2.pos]
          (by simp [List.getElem?_drop, List.getElem?_eq_getElem hlt])
        rw [List.length_drop] at n2
        have h0 : (s2.input.drop s2.pos)[0] = s2.input[s2.pos] := by simp
        simp only [hlt, hlt1, ↓reduceIte, sliceFrom_ok s1.input s1.pos (Nat.le_of_lt hlt1),
          sliceFrom_ok s2.input s2.pos (Nat.le_of_lt hlt), hd, at'_ok hrl, h0, runP_mode _ _ hsr.mode, hr,
          bind, Except.bind, pure, Except.pure, tvSet_ok s1 s1.cur _ hsr.tv1, tvSet_ok s2 s2.cur _ hsr.tv2]
        have hsr' : SR { s1 with tv := s1.tv.set s1.cur { r.tok with pos := r.tok.pos + s1.pos }, pos := s1.pos + r.next,
                                 ddx := s1.ddx + r.ddx, hash := s1.hash + r.hash }
                       { s2 with tv := s2.tv.set s2.cur { r.tok with pos := r.tok.pos + s2.pos }, pos := s2.pos + r.next,
                                 ddx := s2.ddx + r.ddx, hash := s2.hash + r.hash } :=
          ⟨⟨q, hq⟩, by show s1.pos + r.next = s2.pos + r.next + 1; rw [hsr.pos]; omega, by show 1 ≤ s2.pos + r.next; omega,
            by show s2.pos + r.next ≤ s2.input.length; omega, hsr.cur, by simp; exact hsr.tv1, by simp; exact hsr.tv2,
            hsr.mode, by show s1.ddx + r.ddx = s2.ddx + r.ddx; rw [hsr.ddx], by show s1.hash + r.hash = s2.hash + r.hash; rw [hsr.hash],
            hsr.toks⟩
        by_cases hcat : (r.tok.cat != 0) = true
        · simp only [show (({ r.tok with pos := r.tok.pos + s1.pos } : Token).cat != 0) = true from hcat,
            show (({ r.tok with pos := r.tok.pos + s2.pos } : Token).cat != 0) = true from hcat, ↓reduceIte]
          refine ⟨true, _, _, rfl, rfl, ?_, fun _ => ⟨{ r.tok with pos := r.tok.pos + s1.pos }, { r.tok with pos := r.tok.pos + s2.pos },
            by simp [List.getElem?_set, hsr.tv1], by simp [List.getElem?_set, hsr.tv2], ?_, ?_⟩⟩
          · exact ⟨hsr'.input, hsr'.pos, hsr'.past, hsr'.inb, hsr'.cur, hsr'.tv1, hsr'.tv2, hsr'.mode, hsr'.ddx, hsr'.hash,
              by show s1.toks + 1 = s2.toks + 1; rw [hsr.toks]⟩
          · exact ⟨rfl, rfl, rfl, rfl, rfl, by show r.tok.pos + s1.pos = r.tok.pos + s2.pos + 1; rw [hsr.pos]; omega, fun _ => rfl⟩
          · show r.tok.pos + s2.pos ≠ 0
            have := hsr.past; omega
        · simp only [show (({ r.tok with pos := r.tok.pos + s1.pos } : Token).cat != 0) = false by simpa using hcat,
            show (({ r.tok with pos := r.tok.pos + s2.pos } : Token).cat != 0) = false by simpa using hcat,
            Bool.false_eq_true, ↓reduceIte]
          obtain ⟨more, s1', s2', e1, e2, hsr'', htok⟩ := ih f2 _ _ hsr'
            (by show s2.input.length - (s2.pos + r.next) < f1; omega) (by show s2.input.length - (s2.pos + r.next) < f2; omega)
          exact ⟨more, s1', s2', e1, e2, hsr'', htok⟩
      · have hlt1 : ¬ s1.pos < s1.input.length := by rw [hl1, hsr.pos]; omega
        simp only [hlt, hlt1, ↓reduceIte, pure, Except.pure]
        exact ⟨false, s1, s2, rfl, rfl, hsr, fun h => by cases h⟩

theorem tokenize_shift (s1 s2 : State) (hsr : SR s1 s2)
    (hq1 : (hasFlag s1.flags flagQuoteSingle || hasFlag s1.flags flagQuoteDouble) = false) :
    ∃ more s1' s2', tokenize s1 = .ok (more, s1') ∧ tokenize s2 = .ok (more, s2') ∧ SR s1' s2' ∧
      (hasFlag s1'.flags flagQuoteSingle || hasFlag s1'.flags flagQuoteDouble) = false ∧
      (more = true → ∃ t1 t2, s1'.tv[s1.cur]? = some t1 ∧ s2'.tv[s2.cur]? = some t2 ∧ TokRel t1 t2 ∧ t2.pos ≠ 0) := by
  obtain ⟨q, hq⟩ := hsr.input
  have hl1 : s1.input.length = s2.input.length + 1 := by rw [hq]; simp
  have hpast := hsr.past
  have hinb := hsr.inb
  unfold tokenize
  have e1 : (s1.input.length == 0) = false := by rw [hl1]; simp
  have e2 : (s2.input.length == 0) = false := by
    have : s2.input.length ≠ 0 := by omega
    simpa using this
  have p2 : (s2.pos == 0) = false := by
    have : s2.pos ≠ 0 := by omega
    simpa using this
  simp only [e1, e2, Bool.false_eq_true, ↓reduceIte, tvSet_ok s1 s1.cur _ hsr.tv1, tvSet_ok s2 s2.cur _ hsr.tv2, bind, Except.bind,
    pure, Except.pure, hq1, Bool.and_false, p2, Bool.false_and]
  obtain ⟨more, s1', s2', a1, a2, hsr', htok⟩ := tokLoop_shift (s1.input.length + 1) (s2.input.length + 1)
    { s1 with tv := s1.tv.set s1.cur {} } { s2 with tv := s2.tv.set s2.cur {} }
    ⟨⟨q, hq⟩, hsr.pos, hsr.past, hsr.inb, hsr.cur, by simp; exact hsr.tv1, by simp; exact hsr.tv2, hsr.mode, hsr.ddx, hsr.hash, hsr.toks⟩
    (by show s2.input.length - s2.pos < s1.input.length + 1; omega) (by show s2.input.length - s2.pos < s2.input.length + 1; omega)
  refine ⟨more, s1', s2', a1, a2, hsr', ?_, htok⟩
  -- the flags are untouched by the scan
  obtain ⟨m', s1'', h', q1, q2, _⟩ := tokLoop_ok (s1.input.length + 1) { s1 with tv := s1.tv.set s1.cur {} }
    (by show s1.pos ≤ s1.input.length; rw [hl1, hsr.pos]; omega) (by simp; exact hsr.tv1) (by show s1.input.length - s1.pos < _; omega)
  rw [a1] at h'
  have : s1' = s1'' := by cases h'; rfl
  rw [this, q2]; exact hq1

/-- the string token over content `x` closed (or not) by `q`, and how many bytes of `x` it consumes -/
def strTok (x : Bytes) (q : UInt8) (off : Nat) (op : UInt8) : Token × Nat :=
  match closingQuote x q with
  | none => ({ cat := 115, pos := off, len := clip x.length, val := x.take (clip x.length), strOpen := op, strClose := 0 }, x.length)
  | some k => ({ cat := 115, pos := off, len := clip k, val := x.take (clip k), strOpen := op, strClose := q }, k + 1)

theorem psc_eq (rest : Bytes) (offset : Nat) (d : UInt8) (hd : d ≠ 92) (ho : offset ≤ rest.length) :
    parseStringCore {} rest offset d =
      .ok { tok := (strTok (rest.drop offset) d offset (if offset > 0 then d else 0)).1,
            next := offset + (strTok (rest.drop offset) d offset (if offset > 0 then d else 0)).2 } := by
  rw [parseStringCore_spec {} rest offset d hd ho]
  unfold strTok
  have e : offset + (rest.length - offset) = rest.length := by omega
  cases hq : closingQuote (rest.drop offset) d with
  | none => simp only [List.length_drop, e, hq]
  | some k => simp only [Nat.add_assoc, hq]

theorem strTok_cat (x : Bytes) (q : UInt8) (off : Nat) (op : UInt8) : (strTok x q off op).1.cat = 115 := by
  unfold strTok; split <;> rfl
theorem strTok_pos (x : Bytes) (q : UInt8) (off : Nat) (op : UInt8) : (strTok x q off op).1.pos = off := by
  unfold strTok; split <;> rfl
theorem strTok_rel (x : Bytes) (q : UInt8) (op1 op2 : UInt8) : TokRel (strTok x q 1 op1).1 (strTok x q 0 op2).1 := by
  unfold strTok; split <;> exact ⟨rfl, rfl, rfl, rfl, rfl, rfl, fun h => absurd rfl h⟩
theorem strTok_next (x : Bytes) (q : UInt8) (o1 o2 : Nat) (op1 op2 : UInt8) : (strTok x q o1 op1).2 = (strTok x q o2 op2).2 := by
  unfold strTok; split <;> rfl
theorem strTok_bounds (x : Bytes) (hx : x ≠ []) (q : UInt8) (off : Nat) (op : UInt8) :
    1 ≤ (strTok x q off op).2 ∧ (strTok x q off op).2 ≤ x.length := by
  have hxl : 1 ≤ x.length := by cases x with | nil => exact absurd rfl hx | cons _ _ => simp
  unfold strTok
  cases hq : closingQuote x q with
  | none => exact ⟨hxl, Nat.le_refl _⟩
  | some k => have := closingQuote_lt x q k hq; simp only []; omega

/-- the as-is reading of `q :: x` and the in-quote reading of `x`, after their first token -/
theorem first_token_shift (x : Bytes) (hx : x ≠ []) (q : UInt8) (F1 F2 : Nat) (hq : q = 39 ∨ q = 34)
    (hF1 : (hasFlag F1 flagQuoteSingle || hasFlag F1 flagQuoteDouble) = false) (hF10 : F1 ≠ 0)
    (hF2 : (hasFlag F2 flagQuoteSingle || hasFlag F2 flagQuoteDouble) = true) (hF20 : F2 ≠ 0)
    (hd : flag2Delim F2 = q) (hm : ModeEq F1 F2) :
    ∃ s1' s2', tokenize (sqliInit (q :: x) F1) = .ok (true, s1') ∧ tokenize (sqliInit x F2) = .ok (true, s2') ∧ SR s1' s2' ∧
      (hasFlag s1'.flags flagQuoteSingle || hasFlag s1'.flags flagQuoteDouble) = false ∧
      ∃ t1 t2, s1'.tv[0]? = some t1 ∧ s2'.tv[0]? = some t2 ∧ TokRel t1 t2 := by
  have hxl : 1 ≤ x.length := by cases x with | nil => exact absurd rfl hx | cons _ _ => simp
  have hq92 : q ≠ 92 := by rcases hq with rfl | rfl <;> decide
  have hdisp : dispatch q = .string := by rcases hq with rfl | rfl <;> decide +kernel
  have hfl1 : (sqliInit (q :: x) F1).flags = F1 := by simp [sqliInit, hF10]
  have hfl2 : (sqliInit x F2).flags = F2 := by simp [sqliInit, hF20]
  have spec1 := psc_eq (q :: x) 1 q hq92 (by simp)
  have spec2 := psc_eq x 0 q hq92 (by omega)
  simp only [List.drop_succ_cons, List.drop_zero, Nat.lt_irrefl, ↓reduceIte, Nat.zero_lt_one, Nat.zero_add] at spec1 spec2
  obtain ⟨b1, b2⟩ := strTok_bounds x hx q 1 q
  have hnext := strTok_next x q 1 0 q 0
  -- as-is reading: the first byte dispatches to the string lexer
  have e1 : tokenize (sqliInit (q :: x) F1) = .ok (true,
      { (sqliInit (q :: x) F1) with
          tv := ((sqliInit (q :: x) F1).tv.set 0 {}).set 0 { (strTok x q 1 q).1 with pos := (strTok x q 1 q).1.pos + 0 },
          pos := 0 + (1 + (strTok x q 1 q).2), ddx := 0 + 0, hash := 0 + 0, toks := 0 + 1 }) := by
    unfold tokenize
    have hlen : ((sqliInit (q :: x) F1).input.length == 0) = false := by simp [sqliInit]
    have hcur : (sqliInit (q :: x) F1).cur < (sqliInit (q :: x) F1).tv.length := by simp [sqliInit]
    simp only [hlen, Bool.false_eq_true, ↓reduceIte, tvSet_ok _ _ _ hcur, bind, Except.bind, pure, Except.pure, hfl1, hF1,
      Bool.and_false]
    have hin : (sqliInit (q :: x) F1).input = q :: x := rfl
    have hp0 : (sqliInit (q :: x) F1).pos = 0 := rfl
    have hc0 : (sqliInit (q :: x) F1).cur = 0 := rfl
    unfold tokLoop
    simp only [hin, hp0, hc0, hfl1, List.length_cons, Nat.zero_lt_succ, ↓reduceIte, sliceFrom, Nat.zero_le, List.drop_zero, at',
      List.getElem?_cons_zero, bind, Except.bind, pure, Except.pure, hdisp, runP, parseString, spec1]
    rw [tvSet_ok _ _ _ (by simp [sqliInit])]
    simp only [strTok_cat, show ((115 : UInt8) != 0) = true by decide, ↓reduceIte]
    rfl
  -- in-quote reading: the virtual opening quote
  have e2 : tokenize (sqliInit x F2) = .ok (true,
      { (sqliInit x F2) with tv := (((sqliInit x F2).tv.set 0 {}).set 0 ((strTok x q 0 0).1)),
                             pos := (strTok x q 0 0).2, toks := 0 + 1 }) := by
    unfold tokenize
    have hlen : ((sqliInit x F2).input.length == 0) = false := by simp [sqliInit]; omega
    have hcur : (sqliInit x F2).cur < (sqliInit x F2).tv.length := by simp [sqliInit]
    have hp0 : ((sqliInit x F2).pos == 0) = true := rfl
    simp only [hlen, Bool.false_eq_true, ↓reduceIte, tvSet_ok _ _ _ hcur, bind, Except.bind, pure, Except.pure, hfl2, hF2,
      hp0, Bool.and_self, hd]
    have hin : (sqliInit x F2).input = x := rfl
    have hc0 : (sqliInit x F2).cur = 0 := rfl
    simp only [hin, hc0, spec2]
    rw [tvSet_ok _ _ _ (by simp [sqliInit])]
    rfl
  refine ⟨_, _, e1, e2, ?_, by simpa [hfl1] using hF1, ?_⟩
  · refine ⟨⟨q, rfl⟩, ?_, ?_, ?_, rfl, by simp [sqliInit], by simp [sqliInit], by rw [hfl1, hfl2]; exact hm, rfl, rfl, rfl⟩
    · show 0 + (1 + (strTok x q 1 q).2) = (strTok x q 0 0).2 + 1
      rw [hnext]; omega
    · show 1 ≤ (strTok x q 0 0).2
      rw [← hnext]; omega
    · show (strTok x q 0 0).2 ≤ x.length
      rw [← hnext]; omega
  · refine ⟨{ (strTok x q 1 q).1 with pos := (strTok x q 1 q).1.pos + 0 }, (strTok x q 0 0).1, by simp [sqliInit], by simp [sqliInit], ?_⟩
    have := strTok_rel x q q 0
    obtain ⟨r1, r2, r3, r4, r5, r6, r7⟩ := this
    exact ⟨r1, r2, r3, r4, r5, by show (strTok x q 1 q).1.pos + 0 = _; rw [Nat.add_zero]; exact r6, r7⟩

/-- pointwise relation of two lists -/
inductive AllRel {α β : Type} (R : α → β → Prop) : List α → List β → Prop
  | nil : AllRel R [] []
  | cons {a b l1 l2} : R a b → AllRel R l1 l2 → AllRel R (a :: l1) (b :: l2)

theorem AllRel.length_eq {α β : Type} {R : α → β → Prop} {l1 : List α} {l2 : List β} (h : AllRel R l1 l2) : l1.length = l2.length := by
  induction h with
  | nil => rfl
  | cons _ _ ih => simp [ih]

/-- raw tokens of the two readings: same token up to the offset shift, same scan span shifted by one -/
def RawRel (r1 r2 : RawTok) : Prop := TokRel r1.tok r2.tok ∧ r1.after = r2.after + 1

theorem rawLoop_shift : ∀ (f1 f2 : Nat) (s1 s2 : State), SR s1 s2 →
    (hasFlag s1.flags flagQuoteSingle || hasFlag s1.flags flagQuoteDouble) = false →
    s2.input.length - s2.pos + 1 < f1 → s2.input.length - s2.pos + 1 < f2 →
    ∃ ts1 sf1 ts2 sf2, rawLoop s1 f1 = .ok (ts1, sf1) ∧ rawLoop s2 f2 = .ok (ts2, sf2) ∧ AllRel RawRel ts1 ts2 ∧
      (∀ r1 ∈ ts1, ∀ r2 ∈ ts2, r1.before + 0 = r1.before) := by
  intro f1
  induction f1 with
  | zero => intro f2 s1 s2 _ _ h; omega
  | succ f1 ih =>
    intro f2 s1 s2 hsr hq h1 h2
    cases f2 with
    | zero => omega
    | succ f2 =>
      obtain ⟨more, s1', s2', a1, a2, hsr', hq', htok⟩ := tokenize_shift s1 s2 hsr hq
      unfold rawLoop
      simp only [a1, a2, bind, Except.bind, pure, Except.pure]
      cases more with
      | false =>
        simp only [Bool.false_eq_true, ↓reduceIte]
        exact ⟨[], s1', [], s2', rfl, rfl, AllRel.nil, fun _ h => by cases h⟩
      | true =>
        obtain ⟨t1, t2, g1, g2, hrel, _⟩ := htok rfl
        -- the scan moved on: fuel for the rest
        obtain ⟨m', s2'', e2', q1, _, _, _, q5, q6, _, q8, _⟩ := tokenize_ok s2 hsr.inb hsr.tv2
        rw [a2] at e2'
        have hm : m' = true := by cases e2'; rfl
        have hs : s2'' = s2' := by cases e2'; rfl
        rw [hs] at q1 q5 q6 q8
        have hadv := (q8 hm).1
        have get1 : tvGet s1' s1'.cur = .ok t1 := by
          unfold tvGet
          have : s1'.cur = s1.cur := by
            obtain ⟨_, _, e1', _, _, c3, _⟩ := tokenize_ok s1 (by
              obtain ⟨q, hq0⟩ := hsr.input
              have : s1.input.length = s2.input.length + 1 := by rw [hq0]; simp
              rw [this, hsr.pos]; have := hsr.inb; omega) hsr.tv1
            rw [a1] at e1'
            cases e1'; exact c3
          rw [this, g1]
        have get2 : tvGet s2' s2'.cur = .ok t2 := by
          unfold tvGet
          have : s2'.cur = s2.cur := by
            obtain ⟨_, _, e2'', _, _, c3, _⟩ := tokenize_ok s2 hsr.inb hsr.tv2
            rw [a2] at e2''
            cases e2''; exact c3
          rw [this, g2]
        simp only [↓reduceIte, get1, get2]
        obtain ⟨ts1, sf1, ts2, sf2, r1, r2, hall, _⟩ := ih f2 s1' s2' hsr' hq'
          (by rw [q1]; omega) (by rw [q1]; omega)
        simp only [r1, r2]
        exact ⟨_, sf1, _, sf2, rfl, rfl, AllRel.cons ⟨hrel, hsr'.pos⟩ hall, fun _ _ _ _ => rfl⟩

/-- **C12, token half of the quote-shift clause**: the raw token stream of `q :: x` read as-is and of
`x` read inside the quote `q` have the same length and are pairwise equal up to the offset shift (the
first pair differs only in the opening-quote mark) -/
theorem raw_tokens_quote_shift (x : Bytes) (hx : x ≠ []) (q : UInt8) (F1 F2 : Nat) (hq : q = 39 ∨ q = 34)
    (hF1 : (hasFlag F1 flagQuoteSingle || hasFlag F1 flagQuoteDouble) = false) (hF10 : F1 ≠ 0)
    (hF2 : (hasFlag F2 flagQuoteSingle || hasFlag F2 flagQuoteDouble) = true) (hF20 : F2 ≠ 0)
    (hd : flag2Delim F2 = q) (hm : ModeEq F1 F2) :
    ∃ ts1 sf1 ts2 sf2, rawTokens (q :: x) F1 = .ok (ts1, sf1) ∧ rawTokens x F2 = .ok (ts2, sf2) ∧
      AllRel RawRel ts1 ts2 := by
  obtain ⟨s1', s2', e1, e2, hsr, hq', t1, t2, g1, g2, hrel⟩ := first_token_shift x hx q F1 F2 hq hF1 hF10 hF2 hF20 hd hm
  unfold rawTokens rawFuel
  have hc1 : s1'.cur = 0 := by
    obtain ⟨_, _, e', _, _, c3, _⟩ := tokenize_ok (sqliInit (q :: x) F1) (Nat.zero_le _) (by simp [sqliInit])
    rw [e1] at e'; cases e'; exact c3
  have hc2 : s2'.cur = 0 := by
    obtain ⟨_, _, e', _, _, c3, _⟩ := tokenize_ok (sqliInit x F2) (Nat.zero_le _) (by simp [sqliInit])
    rw [e2] at e'; cases e'; exact c3
  have hin2 : s2'.input = x := by
    obtain ⟨_, _, e', c1, _⟩ := tokenize_ok (sqliInit x F2) (Nat.zero_le _) (by simp [sqliInit])
    rw [e2] at e'; cases e'; exact c1
  unfold rawLoop
  have get1 : tvGet s1' s1'.cur = .ok t1 := by unfold tvGet; rw [hc1, g1]
  have get2 : tvGet s2' s2'.cur = .ok t2 := by unfold tvGet; rw [hc2, g2]
  simp only [e1, e2, bind, Except.bind, pure, Except.pure, ↓reduceIte, get1, get2, List.length_cons]
  obtain ⟨ts1, sf1, ts2, sf2, r1, r2, hall, _⟩ := rawLoop_shift (x.length + 1 + 1) (x.length + 1) s1' s2' hsr hq'
    (by rw [hin2]; have := hsr.past; have := hsr.inb; rw [hin2] at this; omega)
    (by rw [hin2]; have := hsr.past; have := hsr.inb; rw [hin2] at this; omega)
  simp only [r1, r2]
  exact ⟨_, sf1, _, sf2, rfl, rfl, AllRel.cons ⟨hrel, hsr.pos⟩ hall⟩

end LibInj.Sqli
