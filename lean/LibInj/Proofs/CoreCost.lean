import LibInj.Proofs.StringCore
import LibInj.Proofs.Index
set_option linter.unusedSimpArgs false
set_option linter.unusedVariables false
/-! C09, cost model of the closing-quote search (`parseStringCore`, the function whose two quadratic defects D4 / D5 the
property names): a twin of `coreLoop` that also counts the bytes it examines — `IndexByte` looks at every byte up to
and including the delimiter it finds, the escape test looks at the backslashes immediately before that delimiter and at
the byte that ends their run, the doubled-delimiter test at one more byte. The twin computes the same result
(`coreLoopW_erase`) and examines at most `3·|content| + 3` bytes (`coreLoopW_linear`): the search only moves forward and
the backslash run it counts lies inside the segment `IndexByte` has just crossed, because the byte before the segment is
the previous candidate delimiter, not a backslash. -/
namespace LibInj.Sqli
open LibInj

/-- `coreLoop` with a work counter -/
def coreLoopW (content : Bytes) (d : UInt8) (k : Nat) : Nat → M (Option Nat × Nat)
  | 0 => .error .fuel
  | fuel + 1 =>
    match indexByte (content.drop k) d with
    | none => .ok (none, content.length - k)
    | some i =>
      let q := k + i
      let w := (i + 1) + (trailingBs (content.take q) + 1) + 1
      if isBackslashEscaped (content.take q) then (coreLoopW content d (q + 1) fuel).map (fun r => (r.1, r.2 + w))
      else if content[q + 1]? = some d then (coreLoopW content d (q + 2) fuel).map (fun r => (r.1, r.2 + w))
      else .ok (some q, w)

/-- the twin computes what `coreLoop` computes -/
theorem coreLoopW_erase (content : Bytes) (d : UInt8) : ∀ (fuel k : Nat),
    (coreLoopW content d k fuel).map (·.1) = coreLoop content d k fuel
  | 0, _ => rfl
  | fuel + 1, k => by
    unfold coreLoopW coreLoop
    cases indexByte (content.drop k) d with
    | none => rfl
    | some i =>
      simp only []
      split
      · rw [← coreLoopW_erase content d fuel (k + i + 1)]
        cases coreLoopW content d (k + i + 1) fuel <;> rfl
      · split
        · rw [← coreLoopW_erase content d fuel (k + i + 2)]
          cases coreLoopW content d (k + i + 2) fuel <;> rfl
        · rfl

theorem takeWhile_append_stop (p : UInt8 → Bool) : ∀ (x y : Bytes) (c : UInt8), p c = false →
    ((x ++ c :: y).takeWhile p).length ≤ x.length
  | [], y, c, hc => by simp [List.takeWhile, hc]
  | e :: x, y, c, hc => by
    simp only [List.cons_append, List.takeWhile]
    split
    · simp only [List.length_cons]
      have := takeWhile_append_stop p x y c hc
      omega
    · simp

theorem takeWhile_len_le (p : UInt8 → Bool) : ∀ (l : Bytes), (l.takeWhile p).length ≤ l.length
  | [] => by simp
  | e :: l => by
    simp only [List.takeWhile]
    split
    · simp only [List.length_cons]; have := takeWhile_len_le p l; omega
    · simp

theorem lt_of_get_some {s : Bytes} {i : Nat} {c : UInt8} (h : s[i]? = some c) : i < s.length := by
  rcases Nat.lt_or_ge i s.length with h' | h'
  · exact h'
  · rw [List.getElem?_eq_none h'] at h; cases h

/-- the backslash run before offset `q` does not reach back past a byte that is not a backslash -/
theorem trailingBs_le (content : Bytes) (k q : Nat) (c : UInt8) (hk : 1 ≤ k) (hkq : k ≤ q) (hq : q ≤ content.length)
    (hc : content[k - 1]? = some c) (hne : c ≠ 92) : trailingBs (content.take q) ≤ q - k := by
  unfold trailingBs
  -- content.take q = A ++ c :: B with |B| = q - k
  have hsplit : content.take q = content.take (k - 1) ++ c :: (content.take q).drop k := by
    have h1 : content.take q = (content.take q).take (k - 1) ++ (content.take q).drop (k - 1) := (List.take_append_drop _ _).symm
    have h2 : (content.take q).take (k - 1) = content.take (k - 1) := by
      rw [List.take_take]; congr 1; omega
    have h3 : (content.take q).drop (k - 1) = c :: (content.take q).drop k := by
      have hlt : k - 1 < (content.take q).length := by simp; omega
      have hg : (content.take q)[k - 1]? = some c := by
        rw [List.getElem?_take]; simp only [show k - 1 < q by omega, ↓reduceIte]; exact hc
      have := List.drop_eq_getElem_cons hlt
      rw [this, show k - 1 + 1 = k by omega]
      congr 1
      rw [List.getElem?_eq_getElem hlt] at hg
      exact Option.some.inj hg
    rw [h2, h3] at h1
    exact h1
  rw [hsplit, List.reverse_append, List.reverse_cons, List.append_assoc]
  have hb : isBackslash c = false := by unfold isBackslash; simp [hne]
  have := takeWhile_append_stop isBackslash ((content.take q).drop k).reverse (content.take (k - 1)).reverse c hb
  simp only [List.singleton_append] at this ⊢
  simp only [List.length_reverse, List.length_drop, List.length_take] at this
  omega

/-- **linear work**: from offset `k` (the start of the content, or right after a candidate delimiter) the search examines
at most `3·(|content| − k) + 3` bytes -/
theorem coreLoopW_work (content : Bytes) (d : UInt8) (hd : d ≠ 92) : ∀ (fuel k : Nat) (r : Option Nat × Nat),
    k ≤ content.length → (k = 0 ∨ content[k - 1]? = some d) → coreLoopW content d k fuel = .ok r →
    r.2 ≤ 3 * (content.length - k) + 3
  | 0, _, _, _, _, h => by cases h
  | fuel + 1, k, r, hk, hinv, h => by
    unfold coreLoopW at h
    cases hi : indexByte (content.drop k) d with
    | none =>
      rw [hi] at h
      simp only [Except.ok.injEq] at h
      subst h; simp only; omega
    | some i =>
      rw [hi] at h
      simp only [] at h
      have hlt := indexByte_lt hi
      simp only [List.length_drop] at hlt
      have hqd : content[k + i]? = some d := by
        have := ((indexByte_some_iff _ _ _).mp hi).1
        rwa [List.getElem?_drop] at this
      -- the backslash run lies inside the segment just crossed
      have hbs : trailingBs (content.take (k + i)) ≤ i := by
        rcases hinv with h0 | hprev
        · subst h0
          unfold trailingBs
          have := takeWhile_len_le isBackslash (content.take (0 + i)).reverse
          simp only [List.length_reverse, List.length_take] at this
          omega
        · by_cases hk0 : k = 0
          · subst hk0
            unfold trailingBs
            have := takeWhile_len_le isBackslash (content.take (0 + i)).reverse
            simp only [List.length_reverse, List.length_take] at this
            omega
          · have := trailingBs_le content k (k + i) d (by omega) (by omega) (by omega) hprev hd
            omega
      split at h
      · cases hrec : coreLoopW content d (k + i + 1) fuel with
        | error e => rw [hrec] at h; cases h
        | ok r' =>
          rw [hrec] at h
          simp only [Except.map, Except.ok.injEq] at h
          subst h
          have ih := coreLoopW_work content d hd fuel (k + i + 1) r' (by omega) (Or.inr (by simpa using hqd)) hrec
          simp only
          omega
      · split at h
        · rename_i _ hdd
          have hlt2 : k + i + 1 < content.length := lt_of_get_some hdd
          cases hrec : coreLoopW content d (k + i + 2) fuel with
          | error e => rw [hrec] at h; cases h
          | ok r' =>
            rw [hrec] at h
            simp only [Except.map, Except.ok.injEq] at h
            subst h
            have ih := coreLoopW_work content d hd fuel (k + i + 2) r' (by omega) (Or.inr (by simpa using hdd)) hrec
            simp only
            omega
        · simp only [Except.ok.injEq] at h
          subst h
          simp only
          omega

/-- **C09, cost model of the string scanner**: the whole closing-quote search examines at most `3·|content| + 3` bytes -/
theorem coreLoopW_linear (content : Bytes) (d : UInt8) (hd : d ≠ 92) :
    ∃ r, coreLoopW content d 0 (content.length + 1) = .ok r ∧ r.1 = Spec.closingQuote content d ∧ r.2 ≤ 3 * content.length + 3 := by
  have he := coreLoopW_erase content d (content.length + 1) 0
  rw [coreLoop_spec content d hd] at he
  cases hr : coreLoopW content d 0 (content.length + 1) with
  | error e => rw [hr] at he; cases he
  | ok r =>
    rw [hr] at he
    simp only [Except.map, Except.ok.injEq] at he
    have := coreLoopW_work content d hd (content.length + 1) 0 r (Nat.zero_le _) (Or.inl rfl) hr
    exact ⟨r, rfl, he, by omega⟩

end LibInj.Sqli
