import LibInj.Proofs.H5Order
import LibInj.Proofs.H5Shift
import LibInj.Proofs.H5Term
set_option linter.unusedSimpArgs false
set_option linter.unusedVariables false
/-! C11, NUL clause: one tokenizer step on `a ++ b` and on `a ++ 0 :: b` (a NUL inserted at offset `|a|`).

For every state function: if the step on `a ++ b` ends strictly before the insertion point (and not at end
of input), the step on `a ++ 0 :: b` is the same step (`re`: only the input differs) — the tokenizer never
looks past the end of what it consumes, except for look-ahead that is itself consumed by the same step; and
if the step emits a tag-name / attribute-name token that strictly contains the insertion point, the step on
`a ++ 0 :: b` emits the same token one byte longer and resumes one byte later (`insN`). -/
namespace LibInj.H5
open LibInj

/-- the same machine state over the input with the NUL inserted -/
def re (a b : Bytes) (h : H) : H := { h with s := a ++ 0 :: b }

/-- the state after a name token that contains the inserted NUL -/
def insN (a b : Bytes) (h : H) : H :=
  { h with s := a ++ 0 :: b, tokLen := h.tokLen + 1, pos := h.pos + min 1 (h.pos - a.length) }

def IsName (t : Ty) : Prop := t = .tagNameOpen ∨ t = .tagClose ∨ t = .attrName

/-- the token of `h` is a name token that strictly contains offset `m` -/
def Straddle (m : Nat) (h : H) : Prop := IsName h.tokType ∧ h.tokStart < m ∧ m < h.tokStart + h.tokLen

/-- the step ended strictly before offset `m`, and not at end of input -/
def Before (m : Nat) (h : H) : Prop := h.pos < m ∧ h.state ≠ .eof

/-- what one step on `a ++ b` (result `r`) says about the step on `a ++ 0 :: b` (result `r'`) -/
def Loc (a b : Bytes) (r r' : M (Bool × H)) : Prop :=
  ∀ h1, r = .ok (true, h1) →
    (Before a.length h1 → r' = .ok (true, re a b h1)) ∧ (Straddle a.length h1 → r' = .ok (true, insN a b h1))

@[simp] theorem re_s (a b : Bytes) (h : H) : (re a b h).s = a ++ 0 :: b := rfl
@[simp] theorem re_pos (a b : Bytes) (h : H) : (re a b h).pos = h.pos := rfl
@[simp] theorem re_state (a b : Bytes) (h : H) : (re a b h).state = h.state := rfl
@[simp] theorem re_isClose (a b : Bytes) (h : H) : (re a b h).isClose = h.isClose := rfl

theorem len_ins (a b : Bytes) : (a ++ 0 :: b).length = (a ++ b).length + 1 := by simp; omega

theorem get_lt (a b : Bytes) (i : Nat) (h : i < a.length) : (a ++ 0 :: b)[i]? = (a ++ b)[i]? := by
  rw [List.getElem?_append_left h, List.getElem?_append_left h]

theorem get_ge (a b : Bytes) (i : Nat) (h : a.length ≤ i) : (a ++ 0 :: b)[i + 1]? = (a ++ b)[i]? := by
  rw [List.getElem?_append_right (by omega), List.getElem?_append_right h]
  rw [show i + 1 - a.length = (i - a.length) + 1 by omega]
  rfl

theorem drop_le (a y : Bytes) (p : Nat) (h : p ≤ a.length) : (a ++ y).drop p = a.drop p ++ y := by
  rw [List.drop_append_of_le_length h]

theorem indexByte_pre (c : UInt8) : ∀ (x y y' : Bytes) (i : Nat), indexByte (x ++ y) c = some i → i < x.length →
    indexByte (x ++ y') c = some i
  | [], _, _, _, _, h => by cases h
  | e :: x, y, y', i, hi, hl => by
    simp only [List.cons_append, indexByte] at hi ⊢
    split
    · rename_i he; simp only [he, ↓reduceIte] at hi; exact hi
    · rename_i he
      simp only [he, Bool.false_eq_true, ↓reduceIte] at hi
      cases hr : indexByte (x ++ y) c with
      | none => rw [hr] at hi; cases hi
      | some j =>
        rw [hr] at hi
        simp only [Option.map_some, Option.some.injEq] at hi
        subst hi
        rw [indexByte_pre c x y y' j hr (by simp at hl; omega)]
        rfl

theorem spn_pre (p : UInt8 → Bool) : ∀ (x y y' : Bytes), spn p (x ++ y) < x.length → spn p (x ++ y') = spn p (x ++ y)
  | [], _, _, h => by cases h
  | e :: x, y, y', h => by
    simp only [List.cons_append, spn] at h ⊢
    split
    · rename_i he
      simp only [he, ↓reduceIte] at h
      rw [spn_pre p x y y' (by simp at h; omega)]
    · rfl

/-- a scan that covers all of `x` runs through an inserted byte it accepts -/
theorem spn_cross (p : UInt8 → Bool) (hp : p 0 = true) : ∀ (x y : Bytes), x.length ≤ spn p (x ++ y) →
    spn p (x ++ 0 :: y) = spn p (x ++ y) + 1
  | [], y, _ => by simp [spn, hp]
  | e :: x, y, h => by
    simp only [List.cons_append, spn] at h ⊢
    split
    · rename_i he
      simp only [he, ↓reduceIte] at h
      rw [spn_cross p hp x y (by simp at h; omega)]
    · rename_i he
      simp only [he, Bool.false_eq_true, ↓reduceIte] at h
      simp at h

theorem nul_name_bytes : tagNameByte 0 = true ∧ attrNameByte 0 = true := by decide

theorem offFrom_re (a b : Bytes) (i : Nat) (h : i ≤ (a ++ b).length) : offFrom (a ++ 0 :: b) i = .ok i := by
  unfold offFrom
  rw [len_ins]
  simp only [show i ≤ (a ++ b).length + 1 by omega, ↓reduceIte]

/-! ### the two name scans -/

/-- closes one branch of a name scan that stops inside `a`: same step -/
macro "loc_same" : tactic =>
  `(tactic| (intro h1 hn; simp only [Except.ok.injEq, Prod.mk.injEq, true_and] at hn; subst hn
             refine ⟨fun _ => rfl, fun hst => ?_⟩
             exfalso; unfold Straddle IsName at hst; simp [emit] at hst <;> omega))

/-- closes one branch whose result lies at or beyond the insertion point and is not a name token -/
macro "loc_far" : tactic =>
  `(tactic| (intro h1 hn; simp only [Except.ok.injEq, Prod.mk.injEq, true_and] at hn; subst hn
             refine ⟨fun hb => ?_, fun hst => ?_⟩
             · exfalso; unfold Before at hb; simp [emit] at hb <;> omega
             · exfalso; unfold Straddle IsName at hst; simp [emit] at hst <;> omega))

/-- closes one branch of a name scan that runs through the insertion point -/
macro "loc_cross" : tactic =>
  `(tactic| (intro h1 hn; simp only [Except.ok.injEq, Prod.mk.injEq, true_and] at hn; subst hn
             refine ⟨fun hb => ?_, fun hst => ?_⟩
             · exfalso; unfold Before at hb; simp [emit] at hb <;> omega
             · unfold Straddle at hst; simp [emit] at hst
               refine congrArg (fun x => Except.ok (true, x)) (H_eq _ _ rfl ?_ rfl rfl rfl ?_ rfl) <;> simp [insN, re, emit] <;> omega))

theorem stateTagName_loc (a b : Bytes) (h : H) (hs : h.s = a ++ b) (hp : h.pos < a.length) :
    Loc a b (stateTagName h) (stateTagName (re a b h)) := by
  have hlen : h.pos ≤ (a ++ b).length := by simp; omega
  have hd : (a ++ b).drop h.pos = a.drop h.pos ++ b := drop_le a b h.pos (by omega)
  have hd' : (a ++ 0 :: b).drop h.pos = a.drop h.pos ++ 0 :: b := drop_le a (0 :: b) h.pos (by omega)
  have hxl : (a.drop h.pos).length = a.length - h.pos := by simp
  unfold stateTagName
  simp only [re_s, re_pos, re_isClose, hs, hd, hd', offFrom_re a b h.pos hlen, offFrom_ok hlen, bind, Except.bind, pure, Except.pure]
  generalize hn0 : spn tagNameByte (a.drop h.pos ++ b) = n
  by_cases hcase : h.pos + n < a.length
  · -- the scan stops inside `a`
    have hsp : spn tagNameByte (a.drop h.pos ++ 0 :: b) = n := by
      rw [spn_pre tagNameByte _ b (0 :: b) (by rw [hn0, hxl]; omega), hn0]
    rw [hsp, get_lt a b _ hcase]
    cases hg : (a ++ b)[h.pos + n]? with
    | none => exact absurd (List.getElem?_eq_none_iff.mp hg) (by simp; omega)
    | some ch =>
      simp only []
      by_cases hw : isH5White ch = true
      · simp only [hw, ↓reduceIte]; loc_same
      · simp only [hw, Bool.false_eq_true, ↓reduceIte]
        by_cases h47 : (ch == 47) = true
        · simp only [h47, ↓reduceIte]; loc_same
        · simp only [h47, Bool.false_eq_true, ↓reduceIte]
          by_cases hc : h.isClose = true
          · simp only [hc, ↓reduceIte]; loc_same
          · simp only [hc, Bool.false_eq_true, ↓reduceIte]; loc_same
  · -- the scan runs through all of `a`
    have hsp : spn tagNameByte (a.drop h.pos ++ 0 :: b) = n + 1 := by
      rw [spn_cross tagNameByte nul_name_bytes.1 _ b (by rw [hn0, hxl]; omega), hn0]
    rw [hsp, show h.pos + (n + 1) = (h.pos + n) + 1 by omega, get_ge a b _ (by omega)]
    cases hg : (a ++ b)[h.pos + n]? with
    | none =>
      simp only []
      intro h1 hn
      simp only [Except.ok.injEq, Prod.mk.injEq, true_and] at hn
      subst hn
      refine ⟨fun hb => absurd rfl hb.2, fun _ => ?_⟩
      rw [len_ins]
      refine congrArg (fun x => Except.ok (true, x)) (H_eq _ _ rfl ?_ rfl rfl rfl ?_ rfl) <;> simp [insN, re] <;> omega
    | some ch =>
      simp only []
      by_cases hw : isH5White ch = true
      · simp only [hw, ↓reduceIte]; loc_cross
      · simp only [hw, Bool.false_eq_true, ↓reduceIte]
        by_cases h47 : (ch == 47) = true
        · simp only [h47, ↓reduceIte]; loc_cross
        · simp only [h47, Bool.false_eq_true, ↓reduceIte]
          by_cases hc : h.isClose = true
          · simp only [hc, ↓reduceIte]; loc_cross
          · simp only [hc, Bool.false_eq_true, ↓reduceIte]; loc_cross

theorem stateAttributeName_loc (a b : Bytes) (h : H) (hs : h.s = a ++ b) (hp : h.pos < a.length) :
    Loc a b (stateAttributeName h) (stateAttributeName (re a b h)) := by
  have hlen : h.pos ≤ (a ++ b).length := by simp; omega
  have hd : (a ++ b).drop (h.pos + 1) = a.drop (h.pos + 1) ++ b := drop_le a b (h.pos + 1) (by omega)
  have hd' : (a ++ 0 :: b).drop (h.pos + 1) = a.drop (h.pos + 1) ++ 0 :: b := drop_le a (0 :: b) (h.pos + 1) (by omega)
  have hxl : (a.drop (h.pos + 1)).length = a.length - (h.pos + 1) := by simp
  unfold stateAttributeName
  simp only [re_s, re_pos, re_isClose, hs, hd, hd', offFrom_re a b h.pos hlen, offFrom_ok hlen, bind, Except.bind, pure, Except.pure]
  generalize hn0 : spn attrNameByte (a.drop (h.pos + 1) ++ b) = n
  by_cases hcase : h.pos + 1 + n < a.length
  · have hsp : spn attrNameByte (a.drop (h.pos + 1) ++ 0 :: b) = n := by
      rw [spn_pre attrNameByte _ b (0 :: b) (by rw [hn0, hxl]; omega), hn0]
    rw [hsp, get_lt a b _ hcase]
    cases hg : (a ++ b)[h.pos + 1 + n]? with
    | none => exact absurd (List.getElem?_eq_none_iff.mp hg) (by simp; omega)
    | some ch =>
      simp only []
      by_cases hw : isH5White ch = true
      · simp only [hw, ↓reduceIte]; loc_same
      · simp only [hw, Bool.false_eq_true, ↓reduceIte]
        by_cases h47 : (ch == 47) = true
        · simp only [h47, ↓reduceIte]; loc_same
        · simp only [h47, Bool.false_eq_true, ↓reduceIte]
          by_cases h61 : (ch == 61) = true
          · simp only [h61, ↓reduceIte]; loc_same
          · simp only [h61, Bool.false_eq_true, ↓reduceIte]; loc_same
  · have hsp : spn attrNameByte (a.drop (h.pos + 1) ++ 0 :: b) = n + 1 := by
      rw [spn_cross attrNameByte nul_name_bytes.2 _ b (by rw [hn0, hxl]; omega), hn0]
    rw [hsp, show h.pos + 1 + (n + 1) = (h.pos + 1 + n) + 1 by omega, get_ge a b _ (by omega)]
    cases hg : (a ++ b)[h.pos + 1 + n]? with
    | none =>
      simp only []
      have hl : (a ++ b).length ≤ h.pos + 1 + n := List.getElem?_eq_none_iff.mp hg
      have hl2 := spn_le attrNameByte (a.drop (h.pos + 1) ++ b)
      rw [hn0] at hl2
      simp at hl hl2
      rw [len_ins]
      loc_cross
    | some ch =>
      simp only []
      by_cases hw : isH5White ch = true
      · simp only [hw, ↓reduceIte]; loc_cross
      · simp only [hw, Bool.false_eq_true, ↓reduceIte]
        by_cases h47 : (ch == 47) = true
        · simp only [h47, ↓reduceIte]; loc_cross
        · simp only [h47, Bool.false_eq_true, ↓reduceIte]
          by_cases h61 : (ch == 61) = true
          · simp only [h61, ↓reduceIte]; loc_cross
          · simp only [h61, Bool.false_eq_true, ↓reduceIte]; loc_cross

/-! ### searching states: the construct ends before the insertion point, or runs to end of input -/

theorem exists_least (P : Nat → Prop) : ∀ n, P n → ∃ k, P k ∧ ∀ j, j < k → ¬ P j := by
  intro n
  induction n using Nat.strongRecOn with
  | _ n ih =>
    intro hn
    by_cases h : ∃ j, j < n ∧ P j
    · obtain ⟨j, hj, hpj⟩ := h
      exact ih j hj hpj
    · exact ⟨n, hn, fun j hj hp => h ⟨j, hj, hp⟩⟩

theorem not_name_comment : ¬ IsName Ty.tagComment := by unfold IsName; simp
theorem not_name_text : ¬ IsName Ty.dataText := by unfold IsName; simp
theorem not_name_doctype : ¬ IsName Ty.docType := by unfold IsName; simp
theorem not_name_value : ¬ IsName Ty.attrValue := by unfold IsName; simp
theorem not_name_close : ¬ IsName Ty.tagNameClose := by unfold IsName; simp
theorem not_name_self : ¬ IsName Ty.tagNameSelfClose := by unfold IsName; simp

/-- a state that searches for a terminator `T` (at offset `i`, of width `wd`) and otherwise runs to end of input -/
theorem term_loc (a b : Bytes) (f : H → M (Bool × H)) (T : Bytes → Nat → Nat → Prop) (ty : Ty) (hty : ¬ IsName ty)
    (hF : ∀ h : H, h.pos ≤ h.s.length → ∀ i wd, T h.s i wd → h.pos ≤ i → (∀ j wd', h.pos ≤ j → j < i → ¬ T h.s j wd') →
      f h = foundAt h ty i wd)
    (hR : ∀ h : H, h.pos ≤ h.s.length → (∀ i wd, h.pos ≤ i → ¬ T h.s i wd) → ∃ x, f h = .ok (true, x) ∧ x.state = .eof ∧ x.tokType = ty)
    (hT1 : ∀ i wd, T (a ++ b) i wd → i + wd < a.length → T (a ++ 0 :: b) i wd)
    (hT2 : ∀ i wd j wd', T (a ++ b) i wd → i + wd < a.length → j < i → T (a ++ 0 :: b) j wd' → T (a ++ b) j wd')
    (h : H) (hs : h.s = a ++ b) (hp : h.pos ≤ h.s.length) : Loc a b (f h) (f (re a b h)) := by
  intro h1 hn
  by_cases hex : ∃ i, ∃ wd, h.pos ≤ i ∧ T h.s i wd
  · obtain ⟨i0, hi0⟩ := hex
    obtain ⟨i, ⟨wd, hpi, hTi⟩, hleast⟩ := exists_least (fun i => ∃ wd, h.pos ≤ i ∧ T h.s i wd) i0 hi0
    have hfound := hF h hp i wd hTi hpi (fun j wd' hj hji hTj => hleast j hji ⟨wd', hj, hTj⟩)
    rw [hfound] at hn
    unfold foundAt at hn
    simp only [Except.ok.injEq, Prod.mk.injEq, true_and] at hn
    subst hn
    refine ⟨fun hb => ?_, fun hst => absurd hst.1 (by simpa [emit] using hty)⟩
    have hlt : i + wd < a.length := by unfold Before at hb; simp [emit] at hb; exact hb
    rw [hs] at hTi
    have hp' : (re a b h).pos ≤ (re a b h).s.length := by
      simp only [re_pos, re_s, len_ins]; rw [hs] at hp; omega
    have := hF (re a b h) hp' i wd (hT1 i wd hTi hlt) hpi (fun j wd' hj hji hTj =>
      hleast j hji ⟨wd', hj, by rw [hs]; exact hT2 i wd j wd' hTi hlt hji hTj⟩)
    rw [this]
    rfl
  · obtain ⟨x, hx, hxe, hxt⟩ := hR h hp (fun i wd hpi hTi => hex ⟨i, wd, hpi, hTi⟩)
    rw [hx] at hn
    simp only [Except.ok.injEq, Prod.mk.injEq, true_and] at hn
    subst hn
    exact ⟨fun hb => absurd hxe hb.2, fun hst => absurd hst.1 (by rw [hxt]; exact hty)⟩

theorem term3_ins (a b : Bytes) (x y z : UInt8) (i : Nat) (h : i + 3 ≤ a.length) :
    Term3 (a ++ 0 :: b) x y z i ↔ Term3 (a ++ b) x y z i := by
  unfold Term3
  rw [get_lt a b i (by omega), get_lt a b (i + 1) (by omega), get_lt a b (i + 2) (by omega)]

theorem term2_ins (a b : Bytes) (x y : UInt8) (i : Nat) (h : i + 2 ≤ a.length) :
    Term2 (a ++ 0 :: b) x y i ↔ Term2 (a ++ b) x y i := by
  unfold Term2
  rw [get_lt a b i (by omega), get_lt a b (i + 1) (by omega)]

theorem stateCData_loc (a b : Bytes) (h : H) (hs : h.s = a ++ b) (hp : h.pos ≤ h.s.length) :
    Loc a b (stateCData h) (stateCData (re a b h)) := by
  refine term_loc a b stateCData (fun s i wd => Term3 s 93 93 62 i ∧ wd = 3) .dataText not_name_text ?_ ?_ ?_ ?_ h hs hp
  · intro h hp i wd hT hpi hl
    obtain ⟨hT, rfl⟩ := hT
    exact (cdata_first_terminator h hp).1 i hT hpi (fun j hj hji hTj => hl j 3 hj hji ⟨hTj, rfl⟩)
  · intro h hp hno
    exact ⟨_, (cdata_first_terminator h hp).2 (fun i hpi hT => hno i 3 hpi ⟨hT, rfl⟩), rfl, rfl⟩
  · intro i wd hT hlt
    obtain ⟨hT, rfl⟩ := hT
    exact ⟨(term3_ins a b _ _ _ i (by omega)).mpr hT, rfl⟩
  · intro i wd j wd' hT hlt hji hTj
    obtain ⟨hT, rfl⟩ := hT
    obtain ⟨hTj, rfl⟩ := hTj
    exact ⟨(term3_ins a b _ _ _ j (by omega)).mp hTj, rfl⟩

theorem stateBogusComment2_loc (a b : Bytes) (h : H) (hs : h.s = a ++ b) (hp : h.pos ≤ h.s.length) :
    Loc a b (stateBogusComment2 h) (stateBogusComment2 (re a b h)) := by
  refine term_loc a b stateBogusComment2 (fun s i wd => Term2 s 37 62 i ∧ wd = 2) .tagComment not_name_comment ?_ ?_ ?_ ?_ h hs hp
  · intro h hp i wd hT hpi hl
    obtain ⟨hT, rfl⟩ := hT
    exact (percent_first_terminator h hp).1 i hT hpi (fun j hj hji hTj => hl j 2 hj hji ⟨hTj, rfl⟩)
  · intro h hp hno
    exact ⟨_, (percent_first_terminator h hp).2 (fun i hpi hT => hno i 2 hpi ⟨hT, rfl⟩), rfl, rfl⟩
  · intro i wd hT hlt
    obtain ⟨hT, rfl⟩ := hT
    exact ⟨(term2_ins a b _ _ i (by omega)).mpr hT, rfl⟩
  · intro i wd j wd' hT hlt hji hTj
    obtain ⟨hT, rfl⟩ := hT
    obtain ⟨hTj, rfl⟩ := hTj
    exact ⟨(term2_ins a b _ _ j (by omega)).mp hTj, rfl⟩

theorem stateComment_loc (a b : Bytes) (h : H) (hs : h.s = a ++ b) (hp : h.pos ≤ h.s.length) :
    Loc a b (stateComment h) (stateComment (re a b h)) := by
  refine term_loc a b stateComment (fun s i wd => ∃ n, ComEnd s i n ∧ wd = n + 3) .tagComment not_name_comment ?_ ?_ ?_ ?_ h hs hp
  · intro h hp i wd hT hpi hl
    obtain ⟨n, hT, rfl⟩ := hT
    exact (comment_first_terminator h hp).1 i n hT hpi (fun j m hj hji hTj => hl j (m + 3) hj hji ⟨m, hTj, rfl⟩)
  · intro h hp hno
    exact ⟨_, (comment_first_terminator h hp).2 (fun i n hpi hT => hno i (n + 3) hpi ⟨n, hT, rfl⟩), rfl, rfl⟩
  · intro i wd hT hlt
    obtain ⟨n, ⟨h0, hz, hc, h62⟩, rfl⟩ := hT
    refine ⟨n, ⟨?_, ?_, ?_, ?_⟩, rfl⟩
    · rw [get_lt a b i (by omega)]; exact h0
    · intro k hk; rw [get_lt a b _ (by omega)]; exact hz k hk
    · rw [get_lt a b _ (by omega)]; exact hc
    · rw [get_lt a b _ (by omega)]; exact h62
  · intro i wd j wd' hT hlt hji hTj
    obtain ⟨n, ⟨h0, _, _, _⟩, rfl⟩ := hT
    obtain ⟨n', ⟨g0, gz, gc, g62⟩, rfl⟩ := hTj
    -- the NUL run after `j` ends before the dash at `i`
    have hn' : j + 1 + n' ≤ i := by
      apply Nat.le_of_not_lt
      intro hlt'
      have hk := gz (i - (j + 1)) (by omega)
      rw [show j + 1 + (i - (j + 1)) = i by omega, get_lt a b i (by omega), h0] at hk
      cases hk
    refine ⟨n', ⟨?_, ?_, ?_, ?_⟩, rfl⟩
    · rw [← get_lt a b j (by omega)]; exact g0
    · intro k hk; rw [← get_lt a b _ (by omega)]; exact gz k hk
    · rw [← get_lt a b _ (by omega)]; exact gc
    · rw [← get_lt a b _ (by omega)]; exact g62

theorem indexByte_ins (a b : Bytes) (c : UInt8) (p i : Nat) (hi : indexByte ((a ++ b).drop p) c = some i) (hlt : p + i < a.length) :
    indexByte ((a ++ 0 :: b).drop p) c = some i := by
  rw [drop_le a b p (by omega)] at hi
  rw [drop_le a (0 :: b) p (by omega)]
  exact indexByte_pre c _ b (0 :: b) i hi (by simp; omega)

theorem stateBogusComment_loc (a b : Bytes) (h : H) (hs : h.s = a ++ b) (hp : h.pos ≤ h.s.length) :
    Loc a b (stateBogusComment h) (stateBogusComment (re a b h)) := by
  rw [hs] at hp
  unfold stateBogusComment
  simp only [re_s, re_pos, hs, offFrom_re a b h.pos hp, offFrom_ok hp, bind, Except.bind, pure, Except.pure]
  cases hi : indexByte ((a ++ b).drop h.pos) 62 with
  | none =>
    intro h1 hn
    simp only [Except.ok.injEq, Prod.mk.injEq, true_and] at hn; subst hn
    exact ⟨fun hb => absurd rfl hb.2, fun hst => absurd hst.1 not_name_comment⟩
  | some i =>
    intro h1 hn
    simp only [Except.ok.injEq, Prod.mk.injEq, true_and] at hn; subst hn
    refine ⟨fun hb => ?_, fun hst => absurd hst.1 not_name_comment⟩
    have hlt : h.pos + i < a.length := by unfold Before at hb; simp [emit] at hb; omega
    rw [indexByte_ins a b 62 h.pos i hi hlt]
    rfl

theorem stateDoctype_loc (a b : Bytes) (h : H) (hs : h.s = a ++ b) (hp : h.pos ≤ h.s.length) :
    Loc a b (stateDoctype h) (stateDoctype (re a b h)) := by
  rw [hs] at hp
  unfold stateDoctype
  simp only [re_s, re_pos, hs, offFrom_re a b h.pos hp, offFrom_ok hp, bind, Except.bind, pure, Except.pure]
  cases hi : indexByte ((a ++ b).drop h.pos) 62 with
  | none =>
    intro h1 hn
    simp only [Except.ok.injEq, Prod.mk.injEq, true_and] at hn; subst hn
    exact ⟨fun hb => absurd rfl hb.2, fun hst => absurd hst.1 not_name_doctype⟩
  | some i =>
    intro h1 hn
    simp only [Except.ok.injEq, Prod.mk.injEq, true_and] at hn; subst hn
    refine ⟨fun hb => ?_, fun hst => absurd hst.1 not_name_doctype⟩
    have hlt : h.pos + i < a.length := by unfold Before at hb; simp [emit] at hb; omega
    rw [indexByte_ins a b 62 h.pos i hi hlt]
    rfl

/-- a computation whose tokens start at or after the insertion point says nothing: nothing to show -/
theorem loc_vac (a b : Bytes) (base c : Nat) (h0 : H) (r r' : M (Bool × H)) (o : Ord base c h0 r) (hge : a.length ≤ base) :
    Loc a b r r' := by
  intro h1 hn
  obtain ⟨o1, o2, _⟩ := o h1 hn
  refine ⟨fun hb => ?_, fun hst => ?_⟩
  · exfalso; unfold Before at hb; unfold lbN at o2; rw [if_neg hb.2] at o2; omega
  · exfalso; unfold Straddle at hst; omega

theorem loc_false (a b : Bytes) (x : H) (r' : M (Bool × H)) : Loc a b (.ok (false, x)) r' := by
  intro h1 hn
  simp only [Except.ok.injEq, Prod.mk.injEq] at hn
  exact absurd hn.1 (by decide)

theorem stateTagNameClose_loc (a b : Bytes) (h : H) (hs : h.s = a ++ b) (hp : h.pos < h.s.length) :
    Loc a b (stateTagNameClose h) (stateTagNameClose (re a b h)) := by
  rw [hs] at hp
  unfold stateTagNameClose
  simp only [re_s, re_pos, hs, offFrom_re a b h.pos (Nat.le_of_lt hp), offFrom_ok (Nat.le_of_lt hp), bind, Except.bind, pure, Except.pure]
  intro h1 hn
  simp only [Except.ok.injEq, Prod.mk.injEq, true_and] at hn; subst hn
  refine ⟨fun hb => ?_, fun hst => absurd hst.1 not_name_close⟩
  unfold Before at hb
  simp only at hb
  have h1 : h.pos + 1 < (a ++ b).length := by
    have := hb.2; simp at this; simp; omega
  have h2 : h.pos + 1 < (a ++ 0 :: b).length := by rw [len_ins]; omega
  simp only [h1, h2, ↓reduceIte]
  rfl

theorem stateAttributeValueNoQuote_loc (a b : Bytes) (h : H) (hs : h.s = a ++ b) (hp : h.pos < a.length) :
    Loc a b (stateAttributeValueNoQuote h) (stateAttributeValueNoQuote (re a b h)) := by
  have hlen : h.pos ≤ (a ++ b).length := by simp; omega
  have hd : (a ++ b).drop h.pos = a.drop h.pos ++ b := drop_le a b h.pos (by omega)
  have hd' : (a ++ 0 :: b).drop h.pos = a.drop h.pos ++ 0 :: b := drop_le a (0 :: b) h.pos (by omega)
  have hxl : (a.drop h.pos).length = a.length - h.pos := by simp
  unfold stateAttributeValueNoQuote
  simp only [re_s, re_pos, hs, hd, hd', offFrom_re a b h.pos hlen, offFrom_ok hlen, bind, Except.bind, pure, Except.pure]
  generalize hn0 : spn noQuoteByte (a.drop h.pos ++ b) = n
  by_cases hcase : h.pos + n < a.length
  · have hsp : spn noQuoteByte (a.drop h.pos ++ 0 :: b) = n := by
      rw [spn_pre noQuoteByte _ b (0 :: b) (by rw [hn0, hxl]; omega), hn0]
    rw [hsp, get_lt a b _ hcase]
    cases hg : (a ++ b)[h.pos + n]? with
    | none => exact absurd (List.getElem?_eq_none_iff.mp hg) (by simp; omega)
    | some ch =>
      simp only []
      by_cases hw : isH5White ch = true
      · simp only [hw, ↓reduceIte]; loc_same
      · simp only [hw, Bool.false_eq_true, ↓reduceIte]; loc_same
  · cases hg : (a ++ b)[h.pos + n]? with
    | none =>
      simp only []
      intro h1 hn
      simp only [Except.ok.injEq, Prod.mk.injEq, true_and] at hn; subst hn
      exact ⟨fun hb => absurd rfl hb.2, fun hst => absurd hst.1 not_name_value⟩
    | some ch =>
      simp only []
      by_cases hw : isH5White ch = true
      · simp only [hw, ↓reduceIte]; loc_far
      · simp only [hw, Bool.false_eq_true, ↓reduceIte]; loc_far

theorem stateAttributeValueQuote_loc (q : UInt8) (a b : Bytes) (h : H) (hs : h.s = a ++ b) (hp : h.pos < h.s.length ∨ h.pos = 0) :
    Loc a b (stateAttributeValueQuote q h) (stateAttributeValueQuote q (re a b h)) := by
  rw [hs] at hp
  unfold stateAttributeValueQuote
  by_cases h0 : h.pos > 0
  · have hl : h.pos + 1 ≤ (a ++ b).length := by rcases hp with hp | hp <;> omega
    simp only [h0, re_pos, ↓reduceIte, re_s, hs, offFrom_re a b (h.pos + 1) hl, offFrom_ok hl, bind, Except.bind, pure, Except.pure]
    show Loc a b (match indexByte ((a ++ b).drop (h.pos + 1)) q with | none => _ | some i => _)
      (match indexByte ((a ++ 0 :: b).drop (h.pos + 1)) q with | none => _ | some i => _)
    cases hi : indexByte ((a ++ b).drop (h.pos + 1)) q with
    | none =>
      intro h1 hn
      simp only [Except.ok.injEq, Prod.mk.injEq, true_and] at hn; subst hn
      exact ⟨fun hb => absurd rfl hb.2, fun hst => absurd hst.1 not_name_value⟩
    | some i =>
      intro h1 hn
      simp only [Except.ok.injEq, Prod.mk.injEq, true_and] at hn; subst hn
      refine ⟨fun hb => ?_, fun hst => absurd hst.1 not_name_value⟩
      have hlt : h.pos + 1 + i < a.length := by unfold Before at hb; simp [emit] at hb; omega
      rw [indexByte_ins a b q (h.pos + 1) i hi hlt]
      rfl
  · have hz : h.pos = 0 := by omega
    have hl : h.pos ≤ (a ++ b).length := by omega
    simp only [h0, re_pos, ↓reduceIte, re_s, hs, offFrom_re a b h.pos hl, offFrom_ok hl, bind, Except.bind, pure, Except.pure]
    cases hi : indexByte ((a ++ b).drop h.pos) q with
    | none =>
      intro h1 hn
      simp only [Except.ok.injEq, Prod.mk.injEq, true_and] at hn; subst hn
      exact ⟨fun hb => absurd rfl hb.2, fun hst => absurd hst.1 not_name_value⟩
    | some i =>
      intro h1 hn
      simp only [Except.ok.injEq, Prod.mk.injEq, true_and] at hn; subst hn
      refine ⟨fun hb => ?_, fun hst => absurd hst.1 not_name_value⟩
      have hlt : h.pos + i < a.length := by unfold Before at hb; simp [emit] at hb; omega
      rw [indexByte_ins a b q h.pos i hi hlt]
      rfl

/-- skipping white space that ends before the insertion point is the same on both inputs -/
theorem skipWhite_re (a b : Bytes) (h : H) (hs : h.s = a ++ b) (hlt : (skipWhite h).1.pos < a.length) :
    skipWhite (re a b h) = (re a b (skipWhite h).1, (skipWhite h).2) := by
  unfold skipWhite at hlt ⊢
  simp only [hs] at hlt
  have hp : h.pos ≤ a.length := by omega
  have hxl : (a.drop h.pos).length = a.length - h.pos := by simp
  rw [drop_le a b h.pos hp] at hlt
  simp only [re_s, re_pos, hs, drop_le a b h.pos hp, drop_le a (0 :: b) h.pos hp]
  have hsp : spn isSkipWhite (a.drop h.pos ++ 0 :: b) = spn isSkipWhite (a.drop h.pos ++ b) :=
    spn_pre isSkipWhite _ b (0 :: b) (by rw [hxl]; omega)
  rw [hsp, get_lt a b _ hlt]
  rfl

theorem stateBeforeAttributeValue_loc (a b : Bytes) (h : H) (hs : h.s = a ++ b) (hp : h.pos ≤ h.s.length) :
    Loc a b (stateBeforeAttributeValue h) (stateBeforeAttributeValue (re a b h)) := by
  obtain ⟨e1, e2, e3, e4, e5⟩ := skipWhite_spec h hp
  by_cases hlt : (skipWhite h).1.pos < a.length
  · unfold stateBeforeAttributeValue
    rw [skipWhite_re a b h hs hlt]
    generalize skipWhite h = sw at e1 e2 e3 e4 e5 hlt ⊢
    obtain ⟨h1, ch⟩ := sw
    simp only at e1 e2 e3 e4 e5 hlt ⊢
    have hs1 : h1.s = a ++ b := by rw [e1, hs]
    cases ch with
    | none => exact loc_false a b _ _
    | some c =>
      have hlt1 : h1.pos < h1.s.length := by rw [e1]; exact getElem?_some_lt e4.symm
      simp only []
      split
      · exact stateAttributeValueQuote_loc 34 a b h1 hs1 (Or.inl hlt1)
      · split
        · exact stateAttributeValueQuote_loc 39 a b h1 hs1 (Or.inl hlt1)
        · split
          · exact stateAttributeValueQuote_loc 96 a b h1 hs1 (Or.inl hlt1)
          · exact stateAttributeValueNoQuote_loc a b h1 hs1 hlt
  · refine loc_vac a b (skipWhite h).1.pos 2 h _ _ ?_ (by omega)
    have := stateBeforeAttributeValue_ord h hp
    unfold stateBeforeAttributeValue at this ⊢
    generalize skipWhite h = sw at e1 e2 e3 e4 e5 hlt this ⊢
    obtain ⟨h1, ch⟩ := sw
    simp only at e1 e2 e3 e4 e5 hlt this ⊢
    cases ch with
    | none => exact ord_false _ _ _ _
    | some c =>
      have hlt1 : h1.pos < h1.s.length := by rw [e1]; exact getElem?_some_lt e4.symm
      have hq : ∀ q, Ord h1.pos 2 h (stateAttributeValueQuote q h1) := fun q =>
        Ord.mono (h0 := h) e1 (Nat.le_refl _) (by omega) (stateAttributeValueQuote_ord q h1 (Or.inl hlt1))
      simp only []
      split
      · exact hq _
      · split
        · exact hq _
        · split
          · exact hq _
          · exact Ord.mono (h0 := h) e1 (Nat.le_refl _) (by omega) (stateAttributeValueNoQuote_ord h1 (Nat.le_of_lt hlt1))

/-! ### `<!` dispatch: doctype / CDATA / comment / bogus comment -/

theorem win_get (s : Bytes) (q n k : Nat) (hk : k < n) : ((s.drop q).take n)[k]? = s[q + k]? := by
  rw [List.getElem?_take_of_lt hk, List.getElem?_drop]

theorem no_gt_doctype (w : Bytes) (k : Nat) (hk : w[k]? = some 62) : (goLowerAscii w == doctypeLower) = false := by
  cases hc : goLowerAscii w == doctypeLower with
  | false => rfl
  | true =>
    exfalso
    have he : goLowerAscii w = doctypeLower := by simpa using hc
    have h1 : (goLowerAscii w)[k]? = some 62 := by
      unfold goLowerAscii; rw [List.getElem?_map, hk]; rfl
    rw [he] at h1
    have : (62 : UInt8) ∈ doctypeLower := List.mem_of_getElem? h1
    revert this; decide

theorem no_gt_cdata (w : Bytes) (k : Nat) (hk : w[k]? = some 62) : (w == cdataOpen) = false := by
  cases hc : w == cdataOpen with
  | false => rfl
  | true =>
    exfalso
    have he : w = cdataOpen := by simpa using hc
    rw [he] at hk
    have : (62 : UInt8) ∈ cdataOpen := List.mem_of_getElem? hk
    revert this; decide

theorem take_ins (a b : Bytes) (q n : Nat) (h : q + n ≤ a.length) :
    ((a ++ 0 :: b).drop q).take n = ((a ++ b).drop q).take n := by
  rw [drop_le a (0 :: b) q (by omega), drop_le a b q (by omega)]
  rw [List.take_append_of_le_length (by simp; omega), List.take_append_of_le_length (by simp; omega)]

/-- the token type of a terminator-searching state -/
theorem term_ty (f : H → M (Bool × H)) (T : Bytes → Nat → Nat → Prop) (ty : Ty)
    (hF : ∀ h : H, h.pos ≤ h.s.length → ∀ i wd, T h.s i wd → h.pos ≤ i → (∀ j wd', h.pos ≤ j → j < i → ¬ T h.s j wd') →
      f h = foundAt h ty i wd)
    (hR : ∀ h : H, h.pos ≤ h.s.length → (∀ i wd, h.pos ≤ i → ¬ T h.s i wd) → ∃ x, f h = .ok (true, x) ∧ x.state = .eof ∧ x.tokType = ty)
    (h : H) (hp : h.pos ≤ h.s.length) (h1 : H) (hn : f h = .ok (true, h1)) : h1.tokType = ty := by
  by_cases hex : ∃ i, ∃ wd, h.pos ≤ i ∧ T h.s i wd
  · obtain ⟨i0, hi0⟩ := hex
    obtain ⟨i, ⟨wd, hpi, hTi⟩, hleast⟩ := exists_least (fun i => ∃ wd, h.pos ≤ i ∧ T h.s i wd) i0 hi0
    rw [hF h hp i wd hTi hpi (fun j wd' hj hji hTj => hleast j hji ⟨wd', hj, hTj⟩)] at hn
    unfold foundAt at hn
    simp only [Except.ok.injEq, Prod.mk.injEq, true_and] at hn
    subst hn; rfl
  · obtain ⟨x, hx, _, hxt⟩ := hR h hp (fun i wd hpi hTi => hex ⟨i, wd, hpi, hTi⟩)
    rw [hx] at hn
    simp only [Except.ok.injEq, Prod.mk.injEq, true_and] at hn
    subst hn; exact hxt

theorem stateCData_ty (h : H) (hp : h.pos ≤ h.s.length) (h1 : H) (hn : stateCData h = .ok (true, h1)) : h1.tokType = .dataText :=
  term_ty stateCData (fun s i wd => Term3 s 93 93 62 i ∧ wd = 3) .dataText
    (fun h hp i wd hT hpi hl => by
      obtain ⟨hT, rfl⟩ := hT
      exact (cdata_first_terminator h hp).1 i hT hpi (fun j hj hji hTj => hl j 3 hj hji ⟨hTj, rfl⟩))
    (fun h hp hno => ⟨_, (cdata_first_terminator h hp).2 (fun i hpi hT => hno i 3 hpi ⟨hT, rfl⟩), rfl, rfl⟩) h hp h1 hn

theorem stateComment_ty (h : H) (hp : h.pos ≤ h.s.length) (h1 : H) (hn : stateComment h = .ok (true, h1)) : h1.tokType = .tagComment :=
  term_ty stateComment (fun s i wd => ∃ n, ComEnd s i n ∧ wd = n + 3) .tagComment
    (fun h hp i wd hT hpi hl => by
      obtain ⟨n, hT, rfl⟩ := hT
      exact (comment_first_terminator h hp).1 i n hT hpi (fun j m hj hji hTj => hl j (m + 3) hj hji ⟨m, hTj, rfl⟩))
    (fun h hp hno => ⟨_, (comment_first_terminator h hp).2 (fun i n hpi hT => hno i (n + 3) hpi ⟨n, hT, rfl⟩), rfl, rfl⟩) h hp h1 hn

theorem stateBogusComment_res (h : H) (hp : h.pos ≤ h.s.length) (h1 : H) (hn : stateBogusComment h = .ok (true, h1)) :
    h1.tokType = .tagComment ∧ (h1.state ≠ .eof → ∃ i, h1.pos = h.pos + i + 1 ∧ h.s[h.pos + i]? = some 62) := by
  unfold stateBogusComment at hn
  simp only [offFrom_ok hp, bind, Except.bind, pure, Except.pure] at hn
  cases hi : indexByte (h.s.drop h.pos) 62 with
  | none =>
    rw [hi] at hn
    simp only [Except.ok.injEq, Prod.mk.injEq, true_and] at hn; subst hn
    exact ⟨rfl, fun hne => absurd rfl hne⟩
  | some i =>
    rw [hi] at hn
    simp only [Except.ok.injEq, Prod.mk.injEq, true_and] at hn; subst hn
    have := ((indexByte_some_iff _ _ _).mp hi).1
    rw [List.getElem?_drop] at this
    exact ⟨rfl, fun _ => ⟨i, rfl, this⟩⟩

theorem stateDoctype_res (h : H) (hp : h.pos ≤ h.s.length) (h1 : H) (hn : stateDoctype h = .ok (true, h1)) :
    h1.tokType = .docType ∧ (h1.state ≠ .eof → ∃ i, h1.pos = h.pos + i + 1 ∧ h.s[h.pos + i]? = some 62) := by
  unfold stateDoctype at hn
  simp only [offFrom_ok hp, bind, Except.bind, pure, Except.pure] at hn
  cases hi : indexByte (h.s.drop h.pos) 62 with
  | none =>
    rw [hi] at hn
    simp only [Except.ok.injEq, Prod.mk.injEq, true_and] at hn; subst hn
    exact ⟨rfl, fun hne => absurd rfl hne⟩
  | some i =>
    rw [hi] at hn
    simp only [Except.ok.injEq, Prod.mk.injEq, true_and] at hn; subst hn
    have := ((indexByte_some_iff _ _ _).mp hi).1
    rw [List.getElem?_drop] at this
    exact ⟨rfl, fun _ => ⟨i, rfl, this⟩⟩

theorem no_byte_doctype (w : Bytes) (k : Nat) (c : UInt8) (hk : w[k]? = some c) (hc : lowerAscii c ∉ doctypeLower) :
    (goLowerAscii w == doctypeLower) = false := by
  cases hcmp : goLowerAscii w == doctypeLower with
  | false => rfl
  | true =>
    exfalso
    have he : goLowerAscii w = doctypeLower := by simpa using hcmp
    have h1 : (goLowerAscii w)[k]? = some (lowerAscii c) := by
      unfold goLowerAscii; rw [List.getElem?_map, hk]; rfl
    rw [he] at h1
    exact hc (List.mem_of_getElem? h1)

theorem no_byte_cdata (w : Bytes) (k : Nat) (c : UInt8) (hk : w[k]? = some c) (hc : c ∉ cdataOpen) : (w == cdataOpen) = false := by
  cases hcmp : w == cdataOpen with
  | false => rfl
  | true =>
    exfalso
    have he : w = cdataOpen := by simpa using hcmp
    rw [he] at hk
    exact hc (List.mem_of_getElem? hk)

/-- on the input with the NUL, `<!` followed (before the insertion point) by a byte that is neither a letter of
`doctype` nor of `[CDATA[` is not a doctype / CDATA section -/
theorem markup_re_tests (a b : Bytes) (h : H) (k : Nat) (c : UInt8) (hk7 : k < 7) (hkm : h.pos + k < a.length)
    (hc : (a ++ b)[h.pos + k]? = some c) (h1 : lowerAscii c ∉ doctypeLower) (h2 : c ∉ cdataOpen) :
    (goLowerAscii (((a ++ 0 :: b).drop h.pos).take 7) == doctypeLower) = false ∧
    ((((a ++ 0 :: b).drop h.pos).take 7) == cdataOpen) = false := by
  have hw : (((a ++ 0 :: b).drop h.pos).take 7)[k]? = some c := by
    rw [win_get _ _ _ _ hk7, get_lt a b _ hkm]; exact hc
  exact ⟨no_byte_doctype _ k c hw h1, no_byte_cdata _ k c hw h2⟩

theorem stateMarkupDeclarationOpen_loc (a b : Bytes) (h : H) (hs : h.s = a ++ b) (hp : h.pos ≤ h.s.length) :
    Loc a b (stateMarkupDeclarationOpen h) (stateMarkupDeclarationOpen (re a b h)) := by
  have hl : (a ++ b).length = a.length + b.length := by simp
  by_cases hq7 : h.pos + 7 ≤ a.length
  · -- both windows lie inside `a`
    have hl' : h.s.length = a.length + b.length := by rw [hs, hl]
    unfold stateMarkupDeclarationOpen
    simp only [re_s, re_pos, take_ins a b h.pos 7 hq7, take_ins a b h.pos 2 (by omega), len_ins, ← hs]
    have r7 : decide (h.s.length - h.pos ≥ 7) = true := by simp; omega
    have r7' : decide (h.s.length + 1 - h.pos ≥ 7) = true := by simp; omega
    have r2 : decide (h.s.length - h.pos ≥ 2) = true := by simp; omega
    have r2' : decide (h.s.length + 1 - h.pos ≥ 2) = true := by simp; omega
    simp only [r7, r7', r2, r2', Bool.true_and]
    by_cases c1 : (goLowerAscii ((h.s.drop h.pos).take 7) == doctypeLower) = true
    · simp only [c1, ↓reduceIte]; exact stateDoctype_loc a b h hs hp
    · simp only [c1, Bool.false_eq_true, ↓reduceIte]
      by_cases c2 : (((h.s.drop h.pos).take 7) == cdataOpen) = true
      · simp only [c2, ↓reduceIte]
        exact stateCData_loc a b { h with pos := h.pos + 7 } hs (by simp only [hl']; omega)
      · simp only [c2, Bool.false_eq_true, ↓reduceIte]
        by_cases c3 : (((h.s.drop h.pos).take 2) == [45, 45]) = true
        · simp only [c3, ↓reduceIte]
          exact stateComment_loc a b { h with pos := h.pos + 2 } hs (by simp only [hl']; omega)
        · simp only [c3, Bool.false_eq_true, ↓reduceIte]; exact stateBogusComment_loc a b h hs hp
  · intro h1 hn
    rw [hs] at hp
    have hty : ¬ IsName h1.tokType := by
      unfold stateMarkupDeclarationOpen at hn
      simp only [] at hn
      split at hn
      · rw [(stateDoctype_res h (hs ▸ hp) h1 hn).1]; exact not_name_doctype
      · split at hn
        · rename_i _ hc
          have h7 : h.s.length - h.pos ≥ 7 := by
            simp only [Bool.and_eq_true, decide_eq_true_eq] at hc; exact hc.1
          rw [stateCData_ty { h with pos := h.pos + 7 } (by simp; omega) h1 hn]; exact not_name_text
        · split at hn
          · rename_i _ _ hc
            have h2 : h.s.length - h.pos ≥ 2 := by
              simp only [Bool.and_eq_true, decide_eq_true_eq] at hc; exact hc.1
            rw [stateComment_ty { h with pos := h.pos + 2 } (by simp; omega) h1 hn]; exact not_name_comment
          · rw [(stateBogusComment_res h (hs ▸ hp) h1 hn).1]; exact not_name_comment
    refine ⟨fun hb => ?_, fun hst => absurd hst.1 hty⟩
    unfold stateMarkupDeclarationOpen at hn ⊢
    simp only [] at hn ⊢
    simp only [re_s, re_pos, len_ins]
    split at hn
    · -- doctype on `a ++ b`: its `>` would lie inside the window
      rename_i hc
      obtain ⟨i, hpos, h62⟩ := (stateDoctype_res h (hs ▸ hp) h1 hn).2 hb.2
      exfalso
      have hi7 : i < 7 := by unfold Before at hb; omega
      have := no_byte_doctype ((h.s.drop h.pos).take 7) i 62 (by rw [win_get _ _ _ _ hi7]; exact h62) (by decide)
      simp [this] at hc
    · split at hn
      · -- CDATA: the section starts beyond the insertion point
        exfalso
        rename_i _ hc
        have h7 : h.s.length - h.pos ≥ 7 := by
          simp only [Bool.and_eq_true, decide_eq_true_eq] at hc; exact hc.1
        obtain ⟨b', h', hr, _, _, hge, _⟩ := stateCData_good { h with pos := h.pos + 7 } (by simp; omega)
        rw [hn] at hr
        simp only [Except.ok.injEq, Prod.mk.injEq] at hr
        obtain ⟨_, rfl⟩ := hr
        unfold Before at hb; simp at hge; omega
      · split at hn
        · -- comment
          rename_i _ _ hc
          simp only [Bool.and_eq_true, decide_eq_true_eq, beq_iff_eq] at hc
          obtain ⟨h2r, hw2⟩ := hc
          by_cases h2 : h.pos + 2 ≤ a.length
          · have hl1 := (stateComment_loc a b { h with pos := h.pos + 2 } hs (by simp only [hs, hl]; omega) h1 hn).1 hb
            have hc0 : (a ++ b)[h.pos + 0]? = some 45 := by
              have := congrArg (fun l => l[0]?) hw2
              simp only [hs] at this
              rw [win_get _ _ _ _ (by omega)] at this
              simpa using this
            obtain ⟨t1, t2⟩ := markup_re_tests a b h 0 45 (by omega) (by omega) hc0 (by decide) (by decide)
            have t3 : ((((a ++ 0 :: b).drop h.pos).take 2) == [45, 45]) = true := by
              rw [take_ins a b h.pos 2 h2, ← hs, hw2]; rfl
            have r2' : decide ((a ++ b).length + 1 - h.pos ≥ 2) = true := by simp; omega
            simp only [t1, t2, t3, r2', Bool.and_false, Bool.false_eq_true, ↓reduceIte, Bool.and_self]
            exact hl1
          · exfalso
            obtain ⟨b', h', hr, _, _, hge, _⟩ := stateComment_good { h with pos := h.pos + 2 } (by simp; omega)
            rw [hn] at hr
            simp only [Except.ok.injEq, Prod.mk.injEq] at hr
            obtain ⟨_, rfl⟩ := hr
            unfold Before at hb; simp at hge; omega
        · -- bogus comment: its `>` lies inside the window, before the insertion point
          rename_i c1 c2 c3
          obtain ⟨i, hpos, h62⟩ := (stateBogusComment_res h (hs ▸ hp) h1 hn).2 hb.2
          have hl1 := (stateBogusComment_loc a b h hs (hs ▸ hp) h1 hn).1 hb
          have him : h.pos + i + 1 < a.length := by unfold Before at hb; omega
          rw [hs] at h62
          obtain ⟨t1, t2⟩ := markup_re_tests a b h i 62 (by omega) (by omega) h62 (by decide) (by decide)
          have t3 : (decide ((a ++ b).length + 1 - h.pos ≥ 2) && (((a ++ 0 :: b).drop h.pos).take 2) == [45, 45]) = false := by
            cases hcmp : (((a ++ 0 :: b).drop h.pos).take 2) == [45, 45] with
            | false => simp
            | true =>
              exfalso
              have he : ((a ++ 0 :: b).drop h.pos).take 2 = [45, 45] := by simpa using hcmp
              by_cases hi2 : i < 2
              · have := congrArg (fun l => l[i]?) he
                rw [win_get _ _ _ _ hi2, get_lt a b _ (by omega), h62] at this
                have hi01 : i = 0 ∨ i = 1 := by omega
                rcases hi01 with rfl | rfl <;> simp at this
              · -- both bytes lie before the `>`: the same two bytes as on `a ++ b`
                rw [take_ins a b h.pos 2 (by omega)] at he
                apply c3
                rw [hs, he]
                simp only [beq_self_eq_true, Bool.and_true, decide_eq_true_eq]
                omega
          simp only [t1, t2, t3, Bool.and_false, Bool.false_eq_true, ↓reduceIte]
          exact hl1

/-! ### white space and slashes before an attribute name -/

theorem banLoop_re (a b : Bytes) : ∀ (fuel fuel' : Nat) (h : H), h.s = a ++ b → h.pos ≤ h.s.length →
    h.s.length - h.pos < fuel → h.s.length + 1 - h.pos < fuel' →
    ∀ h' ch sl, banLoop h fuel = .ok (h', ch, sl) → h'.pos < a.length →
      banLoop (re a b h) fuel' = .ok (re a b h', ch, sl) := by
  intro fuel
  induction fuel with
  | zero => intro fuel' h _ _ hf; omega
  | succ fuel ih =>
    intro fuel' h hs hp hf hf' h' ch sl hb hlt
    cases fuel' with
    | zero => omega
    | succ fuel' =>
    have hl : (a ++ b).length = a.length + b.length := by simp
    unfold banLoop at hb ⊢
    by_cases hpl : h.pos < h.s.length
    · have hpl' : (re a b h).pos < (re a b h).s.length := by simp only [re_pos, re_s, len_ins, ← hs]; omega
      simp only [hpl, hpl', ↓reduceIte] at hb ⊢
      obtain ⟨e1, e2, e3, e4, e5⟩ := skipWhite_spec h hp
      -- the position after the white space is at most the final position
      have hmono : (skipWhite h).1.pos ≤ h'.pos := by
        generalize skipWhite h = sw at e1 e2 e3 e4 e5 hb
        obtain ⟨h1, c⟩ := sw
        simp only at e1 e2 e3 e4 e5 hb ⊢
        cases c with
        | none => simp only [Except.ok.injEq, Prod.mk.injEq] at hb; rw [← hb.1]; exact Nat.le_refl _
        | some c =>
          simp only [] at hb
          split at hb
          · split at hb
            · split at hb
              · obtain ⟨h2, ch2, sl2, hr, _, b2, _⟩ := banLoop_spec { h1 with pos := h1.pos + 1 } (by simp [e1]; have := getElem?_some_lt e4.symm; omega) fuel (by simp [e1]; omega)
                rw [hr] at hb
                simp only [Except.ok.injEq, Prod.mk.injEq] at hb
                rw [← hb.1]; simp at b2; omega
              · simp only [Except.ok.injEq, Prod.mk.injEq] at hb; rw [← hb.1]; simp
            · simp only [Except.ok.injEq, Prod.mk.injEq] at hb; rw [← hb.1]; simp
          · simp only [Except.ok.injEq, Prod.mk.injEq] at hb; rw [← hb.1]; exact Nat.le_refl _
      rw [skipWhite_re a b h hs (by omega)]
      generalize skipWhite h = sw at e1 e2 e3 e4 e5 hb hmono ⊢
      obtain ⟨h1, c⟩ := sw
      simp only at e1 e2 e3 e4 e5 hb hmono ⊢
      have hs1 : h1.s = a ++ b := by rw [e1, hs]
      cases c with
      | none =>
        simp only [Except.ok.injEq, Prod.mk.injEq] at hb ⊢
        obtain ⟨rfl, rfl, rfl⟩ := hb
        exact ⟨rfl, rfl, rfl⟩
      | some c =>
        have h1lt : h1.pos < h.s.length := getElem?_some_lt e4.symm
        simp only [] at hb ⊢
        by_cases c47 : (c == 47) = true
        · simp only [c47, ↓reduceIte] at hb ⊢
          simp only [re_s, re_pos]
          cases hg : h1.s[h1.pos + 1]? with
          | none =>
            rw [hg] at hb
            simp only [Except.ok.injEq, Prod.mk.injEq] at hb
            exfalso
            have hle : h1.s.length ≤ h1.pos + 1 := List.getElem?_eq_none_iff.mp hg
            rw [hs1, hl] at hle
            have : h'.pos = h1.pos + 1 := by rw [← hb.1]
            omega
          | some c2 =>
            rw [hg] at hb
            simp only [] at hb
            by_cases c62 : (c2 != 62) = true
            · simp only [c62, ↓reduceIte] at hb
              obtain ⟨h2, ch2, sl2, hr, _, b2, _⟩ := banLoop_spec { h1 with pos := h1.pos + 1 } (by simp [e1]; omega) fuel (by simp [e1]; omega)
              have hb' := hb
              rw [hr] at hb'
              simp only [Except.ok.injEq, Prod.mk.injEq] at hb'
              have hp2 : h1.pos + 1 ≤ h'.pos := by rw [← hb'.1]; simpa using b2
              have hg' : (a ++ 0 :: b)[h1.pos + 1]? = some c2 := by
                rw [get_lt a b _ (by omega), ← hs1]; exact hg
              rw [hg']
              simp only [c62, ↓reduceIte]
              exact ih fuel' { h1 with pos := h1.pos + 1 } hs1 (by simp [e1]; omega) (by simp [e1]; omega) (by simp [e1]; omega) h' ch sl hb hlt
            · simp only [c62, Bool.false_eq_true, ↓reduceIte, Except.ok.injEq, Prod.mk.injEq] at hb
              obtain ⟨rfl, rfl, rfl⟩ := hb
              simp only at hlt
              have hg' : (a ++ 0 :: b)[h1.pos + 1]? = some c2 := by
                rw [get_lt a b _ (by omega), ← hs1]; exact hg
              rw [hg']
              simp only [c62, Bool.false_eq_true, ↓reduceIte]
              rfl
        · simp only [c47, Bool.false_eq_true, ↓reduceIte, Except.ok.injEq, Prod.mk.injEq] at hb ⊢
          obtain ⟨rfl, rfl, rfl⟩ := hb
          exact ⟨rfl, rfl, rfl⟩
    · exfalso
      simp only [hpl, ↓reduceIte, Except.ok.injEq, Prod.mk.injEq] at hb
      have : h'.pos = h.pos := by rw [← hb.1]
      rw [hs, hl] at hpl
      omega

/-- at or beyond the insertion point the self-closing state has nothing to say -/
theorem sc_vac (a b : Bytes) (d : Nat) (h : H) (hp : h.pos ≤ h.s.length) (h1 : 1 ≤ h.pos) (hge : a.length ≤ h.pos)
    (r' : M (Bool × H)) : Loc a b (stateSelfClosingStartTag d h) r' := by
  cases d with
  | zero => intro x hx; cases hx
  | succ d =>
    unfold stateSelfClosingStartTag
    by_cases hg : h.pos ≥ h.s.length
    · simp only [hg, ↓reduceIte, pure, Except.pure]; exact loc_false a b _ _
    · have hlt : h.pos < h.s.length := by omega
      simp only [hg, ↓reduceIte, at'_ok hlt, bind, Except.bind, pure, Except.pure]
      split
      · have h0 : ¬ (h.pos = 0) := by omega
        simp only [h0, ↓reduceIte]
        loc_far
      · exact loc_vac a b h.pos 1 h _ _ ((sc_ban_ord d).2 h hp) hge

theorem sc_ban_loc (a b : Bytes) : ∀ (d : Nat),
    (∀ h : H, h.s = a ++ b → h.pos ≤ h.s.length → 1 ≤ h.pos →
      Loc a b (stateSelfClosingStartTag d h) (stateSelfClosingStartTag d (re a b h))) ∧
    (∀ h : H, h.s = a ++ b → h.pos ≤ h.s.length →
      Loc a b (stateBeforeAttributeName d h) (stateBeforeAttributeName d (re a b h)))
  | 0 => by
    constructor
    · intro h _ _ _ x hx; cases hx
    · intro h _ _ x hx; cases hx
  | d + 1 => by
    obtain ⟨ihS, ihB⟩ := sc_ban_loc a b d
    have hl : (a ++ b).length = a.length + b.length := by simp
    constructor
    · intro h hs hp h1
      by_cases hm : h.pos < a.length
      · unfold stateSelfClosingStartTag
        have hlt : h.pos < h.s.length := by rw [hs, hl]; omega
        have hg : ¬ h.pos ≥ h.s.length := by omega
        have hg' : ¬ (re a b h).pos ≥ (re a b h).s.length := by simp only [re_pos, re_s, len_ins, ← hs]; omega
        have hat : at' (re a b h).s (re a b h).pos = .ok h.s[h.pos] := by
          unfold at'
          simp only [re_s, re_pos, get_lt a b _ hm, ← hs, List.getElem?_eq_getElem hlt]
        simp only [hg, hg', ↓reduceIte, at'_ok hlt, hat, bind, Except.bind, pure, Except.pure]
        split
        · have h0 : ¬ (h.pos = 0) := by omega
          simp only [h0, re_pos, ↓reduceIte]
          loc_same
        · exact ihB h hs hp
      · exact sc_vac a b (d + 1) h hp h1 (by omega) _
    · intro h hs hp
      unfold stateBeforeAttributeName
      obtain ⟨h', ch, slash, hr, a1, a2, a3, a4, a5⟩ := banLoop_spec h hp (h.s.length + 1) (by omega)
      have hs' : h'.s = a ++ b := by rw [a1, hs]
      by_cases hm : h'.pos < a.length
      · have hr' := banLoop_re a b (h.s.length + 1) ((re a b h).s.length + 1) h hs hp (by omega)
          (by simp only [re_s, len_ins, ← hs]; omega) h' ch slash hr hm
        simp only [hr, hr', bind, Except.bind]
        cases slash with
        | true =>
          simp only [↓reduceIte]
          obtain ⟨b1, _⟩ := a4 rfl
          exact ihS h' hs' (by rw [a1]; exact a3) (by omega)
        | false =>
          simp only [Bool.false_eq_true, ↓reduceIte]
          obtain ⟨c1, _⟩ := a5 rfl
          cases ch with
          | none => exact loc_false a b _ _
          | some c =>
            have hlt : h'.pos < h.s.length := getElem?_some_lt c1.symm
            have hle : h'.pos ≤ (a ++ b).length := by rw [← hs]; omega
            simp only []
            split
            · simp only [re_s, re_pos, hs', offFrom_re a b h'.pos hle, offFrom_ok hle, bind, Except.bind, pure, Except.pure]
              loc_same
            · exact stateAttributeName_loc a b h' hs' hm
      · simp only [hr, bind, Except.bind]
        cases slash with
        | true =>
          simp only [↓reduceIte]
          obtain ⟨b1, _⟩ := a4 rfl
          exact sc_vac a b d h' (by rw [a1]; exact a3) (by omega) (by omega) _
        | false =>
          simp only [Bool.false_eq_true, ↓reduceIte]
          obtain ⟨c1, _⟩ := a5 rfl
          cases ch with
          | none => exact loc_false a b _ _
          | some c =>
            have hlt : h'.pos < h.s.length := getElem?_some_lt c1.symm
            simp only []
            split
            · simp only [offFrom_ok (show h'.pos ≤ h'.s.length by rw [a1]; omega), bind, Except.bind, pure, Except.pure]
              loc_far
            · exact loc_vac a b h'.pos 1 h' _ _ (stateAttributeName_ord h' (by rw [a1]; exact hlt)) (by omega)

theorem stateAfterAttributeName_loc (a b : Bytes) (h : H) (hs : h.s = a ++ b) (hp : h.pos ≤ h.s.length) :
    Loc a b (stateAfterAttributeName h) (stateAfterAttributeName (re a b h)) := by
  obtain ⟨e1, e2, e3, e4, e5⟩ := skipWhite_spec h hp
  unfold stateAfterAttributeName
  by_cases hlt : (skipWhite h).1.pos < a.length
  · rw [skipWhite_re a b h hs hlt]
    generalize skipWhite h = sw at e1 e2 e3 e4 e5 hlt ⊢
    obtain ⟨h1, ch⟩ := sw
    simp only at e1 e2 e3 e4 e5 hlt ⊢
    have hs1 : h1.s = a ++ b := by rw [e1, hs]
    cases ch with
    | none => exact loc_false a b _ _
    | some c =>
      have hlt1 : h1.pos < h1.s.length := by rw [e1]; exact getElem?_some_lt e4.symm
      simp only []
      split
      · exact (sc_ban_loc a b callDepth).1 { h1 with pos := h1.pos + 1 } hs1 (by simp; omega) (by simp)
      · split
        · exact stateBeforeAttributeValue_loc a b { h1 with pos := h1.pos + 1 } hs1 (by simp; omega)
        · split
          · exact stateTagNameClose_loc a b h1 hs1 hlt1
          · exact stateAttributeName_loc a b h1 hs1 hlt
  · generalize skipWhite h = sw at e1 e2 e3 e4 e5 hlt ⊢
    obtain ⟨h1, ch⟩ := sw
    simp only at e1 e2 e3 e4 e5 hlt ⊢
    cases ch with
    | none => exact loc_false a b _ _
    | some c =>
      have hlt1 : h1.pos < h1.s.length := by rw [e1]; exact getElem?_some_lt e4.symm
      simp only []
      split
      · exact sc_vac a b callDepth { h1 with pos := h1.pos + 1 } (by simp; omega) (by simp) (by simp; omega) _
      · split
        · exact loc_vac a b (h1.pos + 1) 2 { h1 with pos := h1.pos + 1 } _ _
            (stateBeforeAttributeValue_ord { h1 with pos := h1.pos + 1 } (by simp; omega)) (by omega)
        · split
          · exact loc_vac a b h1.pos 1 h1 _ _ (stateTagNameClose_ord h1 hlt1) (by omega)
          · exact loc_vac a b h1.pos 1 h1 _ _ (stateAttributeName_ord h1 hlt1) (by omega)

theorem stateAfterAttributeValueQuotedState_loc (a b : Bytes) (h : H) (hs : h.s = a ++ b) (hp : h.pos ≤ h.s.length) :
    Loc a b (stateAfterAttributeValueQuotedState h) (stateAfterAttributeValueQuotedState (re a b h)) := by
  have hl : (a ++ b).length = a.length + b.length := by simp
  unfold stateAfterAttributeValueQuotedState
  by_cases hg : h.pos ≥ h.s.length
  · simp only [hg, ↓reduceIte, pure, Except.pure]; exact loc_false a b _ _
  · have hlt : h.pos < h.s.length := by omega
    by_cases hm : h.pos < a.length
    · have hg' : ¬ (re a b h).pos ≥ (re a b h).s.length := by simp only [re_pos, re_s, len_ins, ← hs]; omega
      have hat : at' (re a b h).s (re a b h).pos = .ok h.s[h.pos] := by
        unfold at'
        simp only [re_s, re_pos, get_lt a b _ hm, ← hs, List.getElem?_eq_getElem hlt]
      have hle : h.pos ≤ (a ++ b).length := by rw [← hs]; omega
      simp only [hg, hg', ↓reduceIte, at'_ok hlt, hat, bind, Except.bind, pure, Except.pure]
      split
      · exact (sc_ban_loc a b callDepth).2 { h with pos := h.pos + 1 } hs (by simp; omega)
      · split
        · exact (sc_ban_loc a b callDepth).1 { h with pos := h.pos + 1 } hs (by simp; omega) (by simp)
        · split
          · simp only [re_s, re_pos, hs, offFrom_re a b h.pos hle, offFrom_ok hle, bind, Except.bind, pure, Except.pure]
            loc_same
          · exact (sc_ban_loc a b callDepth).2 h hs hp
    · simp only [hg, ↓reduceIte, at'_ok hlt, bind, Except.bind, pure, Except.pure]
      split
      · exact loc_vac a b (h.pos + 1) 1 { h with pos := h.pos + 1 } _ _
          ((sc_ban_ord callDepth).2 { h with pos := h.pos + 1 } (by simp; omega)) (by omega)
      · split
        · exact sc_vac a b callDepth { h with pos := h.pos + 1 } (by simp; omega) (by simp) (by simp; omega) _
        · split
          · simp only [offFrom_ok hp, bind, Except.bind, pure, Except.pure]
            loc_far
          · exact loc_vac a b h.pos 1 h _ _ ((sc_ban_ord callDepth).2 h hp) (by omega)

/-! ### element content: `<`, `</`, text -/

theorem data_trio_loc (a b : Bytes) : ∀ (d : Nat),
    (∀ h : H, h.s = a ++ b → h.pos ≤ h.s.length → Loc a b (stateEndTagOpen d h) (stateEndTagOpen d (re a b h))) ∧
    (∀ h : H, h.s = a ++ b → h.pos ≤ h.s.length → 1 ≤ h.pos → Loc a b (stateTagOpen d h) (stateTagOpen d (re a b h))) ∧
    (∀ h : H, h.s = a ++ b → h.pos ≤ h.s.length → Loc a b (stateData d h) (stateData d (re a b h)))
  | 0 => by
    refine ⟨?_, ?_, ?_⟩
    · intro h _ _ x hx; cases hx
    · intro h _ _ _ x hx; cases hx
    · intro h _ _ x hx; cases hx
  | d + 1 => by
    obtain ⟨ihE, ihT, ihD⟩ := data_trio_loc a b d
    obtain ⟨oE, oT, oD⟩ := data_trio_ord d
    have hl : (a ++ b).length = a.length + b.length := by simp
    refine ⟨?_, ?_, ?_⟩
    · intro h hs hp
      unfold stateEndTagOpen
      by_cases hg : h.pos ≥ h.s.length
      · simp only [hg, ↓reduceIte, pure, Except.pure]; exact loc_false a b _ _
      · have hlt : h.pos < h.s.length := by omega
        by_cases hm : h.pos < a.length
        · have hg' : ¬ (re a b h).pos ≥ (re a b h).s.length := by simp only [re_pos, re_s, len_ins, ← hs]; omega
          have hat : at' (re a b h).s (re a b h).pos = .ok h.s[h.pos] := by
            unfold at'
            simp only [re_s, re_pos, get_lt a b _ hm, ← hs, List.getElem?_eq_getElem hlt]
          simp only [hg, hg', ↓reduceIte, at'_ok hlt, hat, bind, Except.bind, pure, Except.pure]
          split
          · exact ihD h hs hp
          · split
            · exact stateTagName_loc a b h hs hm
            · exact stateBogusComment_loc a b { h with isClose := false } hs hp
        · simp only [hg, ↓reduceIte, at'_ok hlt, bind, Except.bind, pure, Except.pure]
          split
          · exact loc_vac a b h.pos 1 h _ _ (oD h hp) (by omega)
          · split
            · exact loc_vac a b h.pos 2 h _ _ (stateTagName_ord h hlt) (by omega)
            · exact loc_vac a b h.pos 1 { h with isClose := false } _ _ (stateBogusComment_ord { h with isClose := false } hp) (by omega)
    · intro h hs hp h1
      unfold stateTagOpen
      by_cases hg : h.pos ≥ h.s.length
      · simp only [hg, ↓reduceIte, pure, Except.pure]; exact loc_false a b _ _
      · have hlt : h.pos < h.s.length := by omega
        have h0 : (h.pos == 0) = false := by simp; omega
        by_cases hm : h.pos < a.length
        · have hg' : ¬ (re a b h).pos ≥ (re a b h).s.length := by simp only [re_pos, re_s, len_ins, ← hs]; omega
          have hat : at' (re a b h).s (re a b h).pos = .ok h.s[h.pos] := by
            unfold at'
            simp only [re_s, re_pos, get_lt a b _ hm, ← hs, List.getElem?_eq_getElem hlt]
          simp only [hg, hg', ↓reduceIte, at'_ok hlt, hat, bind, Except.bind, pure, Except.pure]
          split
          · exact stateMarkupDeclarationOpen_loc a b { h with pos := h.pos + 1 } hs (by simp; omega)
          · split
            · exact ihE { h with pos := h.pos + 1, isClose := true } hs (by simp; omega)
            · split
              · exact stateBogusComment_loc a b { h with pos := h.pos + 1 } hs (by simp; omega)
              · split
                · exact stateBogusComment2_loc a b { h with pos := h.pos + 1 } hs (by simp; omega)
                · split
                  · exact stateTagName_loc a b h hs hm
                  · split
                    · exact stateTagName_loc a b h hs hm
                    · simp only [h0, re_pos, Bool.false_eq_true, ↓reduceIte]
                      loc_same
        · simp only [hg, ↓reduceIte, at'_ok hlt, bind, Except.bind, pure, Except.pure]
          split
          · exact loc_vac a b (h.pos + 1) 1 { h with pos := h.pos + 1 } _ _
              (stateMarkupDeclarationOpen_ord { h with pos := h.pos + 1 } (by simp; omega)) (by omega)
          · split
            · exact loc_vac a b (h.pos + 1) 2 { h with pos := h.pos + 1, isClose := true } _ _
                (oE { h with pos := h.pos + 1, isClose := true } (by simp; omega)) (by omega)
            · split
              · exact loc_vac a b (h.pos + 1) 1 { h with pos := h.pos + 1 } _ _
                  (stateBogusComment_ord { h with pos := h.pos + 1 } (by simp; omega)) (by omega)
              · split
                · exact loc_vac a b (h.pos + 1) 1 { h with pos := h.pos + 1 } _ _
                    (stateBogusComment2_ord { h with pos := h.pos + 1 } (by simp; omega)) (by omega)
                · split
                  · exact loc_vac a b h.pos 2 h _ _ (stateTagName_ord h hlt) (by omega)
                  · split
                    · exact loc_vac a b h.pos 2 h _ _ (stateTagName_ord h hlt) (by omega)
                    · simp only [h0, Bool.false_eq_true, ↓reduceIte]
                      loc_far
    · intro h hs hp
      have hle : h.pos ≤ (a ++ b).length := by rw [← hs]; exact hp
      unfold stateData
      simp only [re_s, re_pos, offFrom_re a b h.pos hle, offFrom_ok hp, bind, Except.bind, pure, Except.pure]
      cases hi : indexByte (h.s.drop h.pos) 60 with
      | none =>
        simp only []
        intro h1 hn
        simp only [Except.ok.injEq, Prod.mk.injEq] at hn
        obtain ⟨_, rfl⟩ := hn
        exact ⟨fun hb => absurd rfl hb.2, fun hst => absurd hst.1 not_name_text⟩
      | some i =>
        simp only []
        by_cases hi0 : i = 0
        · subst hi0
          simp only [beq_self_eq_true, ↓reduceIte]
          by_cases hm : h.pos < a.length
          · have hi' : indexByte ((a ++ 0 :: b).drop h.pos) 60 = some 0 := by
              rw [hs] at hi; exact indexByte_ins a b 60 h.pos 0 hi (by omega)
            rw [hi']
            simp only [beq_self_eq_true, ↓reduceIte]
            exact ihT (emit h h.pos 0 .dataText (h.pos + 0 + 1) .tagOpen) hs
              (by have := indexByte_lt hi; simp at this; simp [emit]; omega) (by simp [emit])
          · exact loc_vac a b h.pos 1 (emit h h.pos 0 .dataText (h.pos + 0 + 1) .tagOpen) _ _
              (by have := oT (emit h h.pos 0 .dataText (h.pos + 0 + 1) .tagOpen)
                    (by have := indexByte_lt hi; simp at this; simp [emit]; omega) (by simp [emit])
                  simpa [emit] using this) (by omega)
        · have hb0 : (i == 0) = false := by simp [hi0]
          simp only [hb0, Bool.false_eq_true, ↓reduceIte]
          intro h1 hn
          simp only [Except.ok.injEq, Prod.mk.injEq, true_and] at hn; subst hn
          refine ⟨fun hb => ?_, fun hst => absurd hst.1 not_name_text⟩
          have hlt : h.pos + i < a.length := by unfold Before at hb; simp [emit] at hb; omega
          rw [hs] at hi
          rw [indexByte_ins a b 60 h.pos i hi hlt]
          simp only [hb0, Bool.false_eq_true, ↓reduceIte]
          rfl

/-- **one step of the tokenizer, with and without the inserted NUL** -/
theorem next_loc (a b : Bytes) (h : H) (hs : h.s = a ++ b) (hi : Inv h) (h2 : h.state = .tagOpen → 1 ≤ h.pos) :
    Loc a b (next h) (next (re a b h)) := by
  obtain ⟨hp, i1, i2, i3⟩ := hi
  unfold next
  simp only [re_state]
  cases hst : h.state with
  | eof => exact loc_false a b _ _
  | data => exact (data_trio_loc a b dataDepth).2.2 h hs hp
  | tagOpen => exact (data_trio_loc a b dataDepth).2.1 h hs hp (h2 hst)
  | beforeAttrName => exact (sc_ban_loc a b callDepth).2 h hs hp
  | selfClosing => exact (sc_ban_loc a b callDepth).1 h hs hp (i1 hst)
  | tagNameClose => exact stateTagNameClose_loc a b h hs (i2 hst)
  | afterAttrName => exact stateAfterAttributeName_loc a b h hs hp
  | beforeAttrValue => exact stateBeforeAttributeValue_loc a b h hs hp
  | afterAttrValueQuoted => exact stateAfterAttributeValueQuotedState_loc a b h hs hp
  | valSingle => exact stateAttributeValueQuote_loc 39 a b h hs (Or.inr (i3 (Or.inl hst)))
  | valDouble => exact stateAttributeValueQuote_loc 34 a b h hs (Or.inr (i3 (Or.inr (Or.inl hst))))
  | valBack => exact stateAttributeValueQuote_loc 96 a b h hs (Or.inr (i3 (Or.inr (Or.inr hst))))

end LibInj.H5
