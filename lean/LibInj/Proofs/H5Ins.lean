import LibInj.Proofs.H5Order
import LibInj.Proofs.H5Shift
import LibInj.Proofs.H5Term
set_option linter.unusedSimpArgs false
set_option linter.unusedVariables false
/-! C11, NUL clause: one tokenizer step on `a ++ b` and on `a ++ 0 :: b` (a NUL inserted at offset `|a|`).

For every state function: if the step on `a ++ b` ends strictly before the insertion point (and not at end
of input), the step on `a ++ 0 :: b` is the same step (`re`: only the input differs) — the tokenizer never
looks past the end of what it consumes, except for look-ahead that is itself consumed by the same step; and
if the step emits a tag-name / attribute-name token that strictly contains the insertion point, the step on
`a ++ 0 :: b` emits the same token one byte longer and resumes one byte later (`insN`). -/
namespace LibInj.H5
open LibInj

/-- the same machine state over the input with the NUL inserted -/
def re (a b : Bytes) (h : H) : H := { h with s := a ++ 0 :: b }

/-- the state after a name token that contains the inserted NUL -/
def insN (a b : Bytes) (h : H) : H :=
  { h with s := a ++ 0 :: b, tokLen := h.tokLen + 1, pos := h.pos + min 1 (h.pos - a.length) }

def IsName (t : Ty) : Prop := t = .tagNameOpen ∨ t = .tagClose ∨ t = .attrName

/-- the token of `h` is a name token that strictly contains offset `m` -/
def Straddle (m : Nat) (h : H) : Prop := IsName h.tokType ∧ h.tokStart < m ∧ m < h.tokStart + h.tokLen

/-- the step ended strictly before offset `m`, and not at end of input -/
def Before (m : Nat) (h : H) : Prop := h.pos < m ∧ h.state ≠ .eof

/-- what one step on `a ++ b` (result `r`) says about the step on `a ++ 0 :: b` (result `r'`) -/
def Loc (a b : Bytes) (r r' : M (Bool × H)) : Prop :=
  ∀ h1, r = .ok (true, h1) →
    (Before a.length h1 → r' = .ok (true, re a b h1)) ∧ (Straddle a.length h1 → r' = .ok (true, insN a b h1))

@[simp] theorem re_s (a b : Bytes) (h : H) : (re a b h).s = a ++ 0 :: b := rfl
@[simp] theorem re_pos (a b : Bytes) (h : H) : (re a b h).pos = h.pos := rfl
@[simp] theorem re_state (a b : Bytes) (h : H) : (re a b h).state = h.state := rfl
@[simp] theorem re_isClose (a b : Bytes) (h : H) : (re a b h).isClose = h.isClose := rfl

theorem len_ins (a b : Bytes) : (a ++ 0 :: b).length = (a ++ b).length + 1 := by simp; omega

theorem get_lt (a b : Bytes) (i : Nat) (h : i < a.length) : (a ++ 0 :: b)[i]? = (a ++ b)[i]? := by
  rw [List.getElem?_append_left h, List.getElem?_append_left h]

theorem get_ge (a b : Bytes) (i : Nat) (h : a.length ≤ i) : (a ++ 0 :: b)[i + 1]? = (a ++ b)[i]? := by
  rw [List.getElem?_append_right (by omega), List.getElem?_append_right h]
  rw [show i + 1 - a.length = (i - a.length) + 1 by omega]
  rfl

theorem drop_le (a y : Bytes) (p : Nat) (h : p ≤ a.length) : (a ++ y).drop p = a.drop p ++ y := by
  rw [List.drop_append_of_le_length h]

theorem indexByte_pre (c : UInt8) : ∀ (x y y' : Bytes) (i : Nat), indexByte (x ++ y) c = some i → i < x.length →
    indexByte (x ++ y') c = some i
  | [], _, _, _, _, h => by cases h
  | e :: x, y, y', i, hi, hl => by
    simp only [List.cons_append, indexByte] at hi ⊢
    split
    · rename_i he; simp only [he, ↓reduceIte] at hi; exact hi
    · rename_i he
      simp only [he, Bool.false_eq_true, ↓reduceIte] at hi
      cases hr : indexByte (x ++ y) c with
      | none => rw [hr] at hi; cases hi
      | some j =>
        rw [hr] at hi
        simp only [Option.map_some, Option.some.injEq] at hi
        subst hi
        rw [indexByte_pre c x y y' j hr (by simp at hl; omega)]
        rfl

theorem spn_pre (p : UInt8 → Bool) : ∀ (x y y' : Bytes), spn p (x ++ y) < x.length → spn p (x ++ y') = spn p (x ++ y)
  | [], _, _, h => by cases h
  | e :: x, y, y', h => by
    simp only [List.cons_append, spn] at h ⊢
    split
    · rename_i he
      simp only [he, ↓reduceIte] at h
      rw [spn_pre p x y y' (by simp at h; omega)]
    · rfl

/-- a scan that covers all of `x` runs through an inserted byte it accepts -/
theorem spn_cross (p : UInt8 → Bool) (hp : p 0 = true) : ∀ (x y : Bytes), x.length ≤ spn p (x ++ y) →
    spn p (x ++ 0 :: y) = spn p (x ++ y) + 1
  | [], y, _ => by simp [spn, hp]
  | e :: x, y, h => by
    simp only [List.cons_append, spn] at h ⊢
    split
    · rename_i he
      simp only [he, ↓reduceIte] at h
      rw [spn_cross p hp x y (by simp at h; omega)]
    · rename_i he
      simp only [he, Bool.false_eq_true, ↓reduceIte] at h
      simp at h

theorem nul_name_bytes : tagNameByte 0 = true ∧ attrNameByte 0 = true := by decide

theorem offFrom_re (a b : Bytes) (i : Nat) (h : i ≤ (a ++ b).length) : offFrom (a ++ 0 :: b) i = .ok i := by
  unfold offFrom
  rw [len_ins]
  simp only [show i ≤ (a ++ b).length + 1 by omega, ↓reduceIte]

/-! ### the two name scans -/

/-- closes one branch of a name scan that stops inside `a`: same step -/
macro "loc_same" : tactic =>
  `(tactic| (intro h1 hn; simp only [Except.ok.injEq, Prod.mk.injEq, true_and] at hn; subst hn
             refine ⟨fun _ => rfl, fun hst => ?_⟩
             exfalso; unfold Straddle IsName at hst; simp [emit] at hst <;> omega))

/-- closes one branch whose result lies at or beyond the insertion point and is not a name token -/
macro "loc_far" : tactic =>
  `(tactic| (intro h1 hn; simp only [Except.ok.injEq, Prod.mk.injEq, true_and] at hn; subst hn
             refine ⟨fun hb => ?_, fun hst => ?_⟩
             · exfalso; unfold Before at hb; simp [emit] at hb <;> omega
             · exfalso; unfold Straddle IsName at hst; simp [emit] at hst <;> omega))

/-- closes one branch of a name scan that runs through the insertion point -/
macro "loc_cross" : tactic =>
  `(tactic| (intro h1 hn; simp only [Except.ok.injEq, Prod.mk.injEq, true_and] at hn; subst hn
             refine ⟨fun hb => ?_, fun hst => ?_⟩
             · exfalso; unfold Before at hb; simp [emit] at hb <;> omega
             · unfold Straddle at hst; simp [emit] at hst
               refine congrArg (fun x => Except.ok (true, x)) (H_eq _ _ rfl ?_ rfl rfl rfl ?_ rfl) <;> simp [insN, re, emit] <;> omega))

theorem stateTagName_loc (a b : Bytes) (h : H) (hs : h.s = a ++ b) (hp : h.pos < a.length) :
    Loc a b (stateTagName h) (stateTagName (re a b h)) := by
  have hlen : h.pos ≤ (a ++ b).length := by simp; omega
  have hd : (a ++ b).drop h.pos = a.drop h.pos ++ b := drop_le a b h.pos (by omega)
  have hd' : (a ++ 0 :: b).drop h.pos = a.drop h.pos ++ 0 :: b := drop_le a (0 :: b) h.pos (by omega)
  have hxl : (a.drop h.pos).length = a.length - h.pos := by simp
  unfold stateTagName
  simp only [re_s, re_pos, re_isClose, hs, hd, hd', offFrom_re a b h.pos hlen, offFrom_ok hlen, bind, Except.bind, pure, Except.pure]
  generalize hn0 : spn tagNameByte (a.drop h.pos ++ b) = n
  by_cases hcase : h.pos + n < a.length
  · -- the scan stops inside `a`
    have hsp : spn tagNameByte (a.drop h.pos ++ 0 :: b) = n := by
      rw [spn_pre tagNameByte _ b (0 :: b) (by rw [hn0, hxl]; omega), hn0]
    rw [hsp, get_lt a b _ hcase]
    cases hg : (a ++ b)[h.pos + n]? with
    | none => exact absurd (List.getElem?_eq_none_iff.mp hg) (by simp; omega)
    | some ch =>
      simp only []
      by_cases hw : isH5White ch = true
      · simp only [hw, ↓reduceIte]; loc_same
      · simp only [hw, Bool.false_eq_true, ↓reduceIte]
        by_cases h47 : (ch == 47) = true
        · simp only [h47, ↓reduceIte]; loc_same
        · simp only [h47, Bool.false_eq_true, ↓reduceIte]
          by_cases hc : h.isClose = true
          · simp only [hc, ↓reduceIte]; loc_same
          · simp only [hc, Bool.false_eq_true, ↓reduceIte]; loc_same
  · -- the scan runs through all of `a`
    have hsp : spn tagNameByte (a.drop h.pos ++ 0 :: b) = n + 1 := by
      rw [spn_cross tagNameByte nul_name_bytes.1 _ b (by rw [hn0, hxl]; omega), hn0]
    rw [hsp, show h.pos + (n + 1) = (h.pos + n) + 1 by omega, get_ge a b _ (by omega)]
    cases hg : (a ++ b)[h.pos + n]? with
    | none =>
      simp only []
      intro h1 hn
      simp only [Except.ok.injEq, Prod.mk.injEq, true_and] at hn
      subst hn
      refine ⟨fun hb => absurd rfl hb.2, fun _ => ?_⟩
      rw [len_ins]
      refine congrArg (fun x => Except.ok (true, x)) (H_eq _ _ rfl ?_ rfl rfl rfl ?_ rfl) <;> simp [insN, re] <;> omega
    | some ch =>
      simp only []
      by_cases hw : isH5White ch = true
      · simp only [hw, ↓reduceIte]; loc_cross
      · simp only [hw, Bool.false_eq_true, ↓reduceIte]
        by_cases h47 : (ch == 47) = true
        · simp only [h47, ↓reduceIte]; loc_cross
        · simp only [h47, Bool.false_eq_true, ↓reduceIte]
          by_cases hc : h.isClose = true
          · simp only [hc, ↓reduceIte]; loc_cross
          · simp only [hc, Bool.false_eq_true, ↓reduceIte]; loc_cross

theorem stateAttributeName_loc (a b : Bytes) (h : H) (hs : h.s = a ++ b) (hp : h.pos < a.length) :
    Loc a b (stateAttributeName h) (stateAttributeName (re a b h)) := by
  have hlen : h.pos ≤ (a ++ b).length := by simp; omega
  have hd : (a ++ b).drop (h.pos + 1) = a.drop (h.pos + 1) ++ b := drop_le a b (h.pos + 1) (by omega)
  have hd' : (a ++ 0 :: b).drop (h.pos + 1) = a.drop (h.pos + 1) ++ 0 :: b := drop_le a (0 :: b) (h.pos + 1) (by omega)
  have hxl : (a.drop (h.pos + 1)).length = a.length - (h.pos + 1) := by simp
  unfold stateAttributeName
  simp only [re_s, re_pos, re_isClose, hs, hd, hd', offFrom_re a b h.pos hlen, offFrom_ok hlen, bind, Except.bind, pure, Except.pure]
  generalize hn0 : spn attrNameByte (a.drop (h.pos + 1) ++ b) = n
  by_cases hcase : h.pos + 1 + n < a.length
  · have hsp : spn attrNameByte (a.drop (h.pos + 1) ++ 0 :: b) = n := by
      rw [spn_pre attrNameByte _ b (0 :: b) (by rw [hn0, hxl]; omega), hn0]
    rw [hsp, get_lt a b _ hcase]
    cases hg : (a ++ b)[h.pos + 1 + n]? with
    | none => exact absurd (List.getElem?_eq_none_iff.mp hg) (by simp; omega)
    | some ch =>
      simp only []
      by_cases hw : isH5White ch = true
      · simp only [hw, ↓reduceIte]; loc_same
      · simp only [hw, Bool.false_eq_true, ↓reduceIte]
        by_cases h47 : (ch == 47) = true
        · simp only [h47, ↓reduceIte]; loc_same
        · simp only [h47, Bool.false_eq_true, ↓reduceIte]
          by_cases h61 : (ch == 61) = true
          · simp only [h61, ↓reduceIte]; loc_same
          · simp only [h61, Bool.false_eq_true, ↓reduceIte]; loc_same
  · have hsp : spn attrNameByte (a.drop (h.pos + 1) ++ 0 :: b) = n + 1 := by
      rw [spn_cross attrNameByte nul_name_bytes.2 _ b (by rw [hn0, hxl]; omega), hn0]
    rw [hsp, show h.pos + 1 + (n + 1) = (h.pos + 1 + n) + 1 by omega, get_ge a b _ (by omega)]
    cases hg : (a ++ b)[h.pos + 1 + n]? with
    | none =>
      simp only []
      have hl : (a ++ b).length ≤ h.pos + 1 + n := List.getElem?_eq_none_iff.mp hg
      have hl2 := spn_le attrNameByte (a.drop (h.pos + 1) ++ b)
      rw [hn0] at hl2
      simp at hl hl2
      rw [len_ins]
      loc_cross
    | some ch =>
      simp only []
      by_cases hw : isH5White ch = true
      · simp only [hw, ↓reduceIte]; loc_cross
      · simp only [hw, Bool.false_eq_true, ↓reduceIte]
        by_cases h47 : (ch == 47) = true
        · simp only [h47, ↓reduceIte]; loc_cross
        · simp only [h47, Bool.false_eq_true, ↓reduceIte]
          by_cases h61 : (ch == 61) = true
          · simp only [h61, ↓reduceIte]; loc_cross
          · simp only [h61, Bool.false_eq_true, ↓reduceIte]; loc_cross

/-! ### searching states: the construct ends before the insertion point, or runs to end of input -/

theorem exists_least (P : Nat → Prop) : ∀ n, P n → ∃ k, P k ∧ ∀ j, j < k → ¬ P j := by
  intro n
  induction n using Nat.strongRecOn with
  | _ n ih =>
    intro hn
    by_cases h : ∃ j, j < n ∧ P j
    · obtain ⟨j, hj, hpj⟩ := h
      exact ih j hj hpj
    · exact ⟨n, hn, fun j hj hp => h ⟨j, hj, hp⟩⟩

theorem not_name_comment : ¬ IsName Ty.tagComment := by unfold IsName; simp
theorem not_name_text : ¬ IsName Ty.dataText := by unfold IsName; simp
theorem not_name_doctype : ¬ IsName Ty.docType := by unfold IsName; simp
theorem not_name_value : ¬ IsName Ty.attrValue := by unfold IsName; simp
theorem not_name_close : ¬ IsName Ty.tagNameClose := by unfold IsName; simp
theorem not_name_self : ¬ IsName Ty.tagNameSelfClose := by unfold IsName; simp

/-- a state that searches for a terminator `T` (at offset `i`, of width `wd`) and otherwise runs to end of input -/
theorem term_loc (a b : Bytes) (f : H → M (Bool × H)) (T : Bytes → Nat → Nat → Prop) (ty : Ty) (hty : ¬ IsName ty)
    (hF : ∀ h : H, h.pos ≤ h.s.length → ∀ i wd, T h.s i wd → h.pos ≤ i → (∀ j wd', h.pos ≤ j → j < i → ¬ T h.s j wd') →
      f h = foundAt h ty i wd)
    (hR : ∀ h : H, h.pos ≤ h.s.length → (∀ i wd, h.pos ≤ i → ¬ T h.s i wd) → ∃ x, f h = .ok (true, x) ∧ x.state = .eof ∧ x.tokType = ty)
    (hT1 : ∀ i wd, T (a ++ b) i wd → i + wd < a.length → T (a ++ 0 :: b) i wd)
    (hT2 : ∀ i wd j wd', T (a ++ b) i wd → i + wd < a.length → j < i → T (a ++ 0 :: b) j wd' → T (a ++ b) j wd')
    (h : H) (hs : h.s = a ++ b) (hp : h.pos ≤ h.s.length) : Loc a b (f h) (f (re a b h)) := by
  intro h1 hn
  by_cases hex : ∃ i, ∃ wd, h.pos ≤ i ∧ T h.s i wd
  · obtain ⟨i0, hi0⟩ := hex
    obtain ⟨i, ⟨wd, hpi, hTi⟩, hleast⟩ := exists_least (fun i => ∃ wd, h.pos ≤ i ∧ T h.s i wd) i0 hi0
    have hfound := hF h hp i wd hTi hpi (fun j wd' hj hji hTj => hleast j hji ⟨wd', hj, hTj⟩)
    rw [hfound] at hn
    unfold foundAt at hn
    simp only [Except.ok.injEq, Prod.mk.injEq, true_and] at hn
    subst hn
    refine ⟨fun hb => ?_, fun hst => absurd hst.1 (by simpa [emit] using hty)⟩
    have hlt : i + wd < a.length := by unfold Before at hb; simp [emit] at hb; exact hb
    rw [hs] at hTi
    have hp' : (re a b h).pos ≤ (re a b h).s.length := by
      simp only [re_pos, re_s, len_ins]; rw [hs] at hp; omega
    have := hF (re a b h) hp' i wd (hT1 i wd hTi hlt) hpi (fun j wd' hj hji hTj =>
      hleast j hji ⟨wd', hj, by rw [hs]; exact hT2 i wd j wd' hTi hlt hji hTj⟩)
    rw [this]
    rfl
  · obtain ⟨x, hx, hxe, hxt⟩ := hR h hp (fun i wd hpi hTi => hex ⟨i, wd, hpi, hTi⟩)
    rw [hx] at hn
    simp only [Except.ok.injEq, Prod.mk.injEq, true_and] at hn
    subst hn
    exact ⟨fun hb => absurd hxe hb.2, fun hst => absurd hst.1 (by rw [hxt]; exact hty)⟩

theorem term3_ins (a b : Bytes) (x y z : UInt8) (i : Nat) (h : i + 3 ≤ a.length) :
    Term3 (a ++ 0 :: b) x y z i ↔ Term3 (a ++ b) x y z i := by
  unfold Term3
  rw [get_lt a b i (by omega), get_lt a b (i + 1) (by omega), get_lt a b (i + 2) (by omega)]

theorem term2_ins (a b : Bytes) (x y : UInt8) (i : Nat) (h : i + 2 ≤ a.length) :
    Term2 (a ++ 0 :: b) x y i ↔ Term2 (a ++ b) x y i := by
  unfold Term2
  rw [get_lt a b i (by omega), get_lt a b (i + 1) (by omega)]

theorem stateCData_loc (a b : Bytes) (h : H) (hs : h.s = a ++ b) (hp : h.pos ≤ h.s.length) :
    Loc a b (stateCData h) (stateCData (re a b h)) := by
  refine term_loc a b stateCData (fun s i wd => Term3 s 93 93 62 i ∧ wd = 3) .dataText not_name_text ?_ ?_ ?_ ?_ h hs hp
  · intro h hp i wd hT hpi hl
    obtain ⟨hT, rfl⟩ := hT
    exact (cdata_first_terminator h hp).1 i hT hpi (fun j hj hji hTj => hl j 3 hj hji ⟨hTj, rfl⟩)
  · intro h hp hno
    exact ⟨_, (cdata_first_terminator h hp).2 (fun i hpi hT => hno i 3 hpi ⟨hT, rfl⟩), rfl, rfl⟩
  · intro i wd hT hlt
    obtain ⟨hT, rfl⟩ := hT
    exact ⟨(term3_ins a b _ _ _ i (by omega)).mpr hT, rfl⟩
  · intro i wd j wd' hT hlt hji hTj
    obtain ⟨hT, rfl⟩ := hT
    obtain ⟨hTj, rfl⟩ := hTj
    exact ⟨(term3_ins a b _ _ _ j (by omega)).mp hTj, rfl⟩

theorem stateBogusComment2_loc (a b : Bytes) (h : H) (hs : h.s = a ++ b) (hp : h.pos ≤ h.s.length) :
    Loc a b (stateBogusComment2 h) (stateBogusComment2 (re a b h)) := by
  refine term_loc a b stateBogusComment2 (fun s i wd => Term2 s 37 62 i ∧ wd = 2) .tagComment not_name_comment ?_ ?_ ?_ ?_ h hs hp
  · intro h hp i wd hT hpi hl
    obtain ⟨hT, rfl⟩ := hT
    exact (percent_first_terminator h hp).1 i hT hpi (fun j hj hji hTj => hl j 2 hj hji ⟨hTj, rfl⟩)
  · intro h hp hno
    exact ⟨_, (percent_first_terminator h hp).2 (fun i hpi hT => hno i 2 hpi ⟨hT, rfl⟩), rfl, rfl⟩
  · intro i wd hT hlt
    obtain ⟨hT, rfl⟩ := hT
    exact ⟨(term2_ins a b _ _ i (by omega)).mpr hT, rfl⟩
  · intro i wd j wd' hT hlt hji hTj
    obtain ⟨hT, rfl⟩ := hT
    obtain ⟨hTj, rfl⟩ := hTj
    exact ⟨(term2_ins a b _ _ j (by omega)).mp hTj, rfl⟩

theorem stateComment_loc (a b : Bytes) (h : H) (hs : h.s = a ++ b) (hp : h.pos ≤ h.s.length) :
    Loc a b (stateComment h) (stateComment (re a b h)) := by
  refine term_loc a b stateComment (fun s i wd => ∃ n, ComEnd s i n ∧ wd = n + 3) .tagComment not_name_comment ?_ ?_ ?_ ?_ h hs hp
  · intro h hp i wd hT hpi hl
    obtain ⟨n, hT, rfl⟩ := hT
    exact (comment_first_terminator h hp).1 i n hT hpi (fun j m hj hji hTj => hl j (m + 3) hj hji ⟨m, hTj, rfl⟩)
  · intro h hp hno
    exact ⟨_, (comment_first_terminator h hp).2 (fun i n hpi hT => hno i (n + 3) hpi ⟨n, hT, rfl⟩), rfl, rfl⟩
  · intro i wd hT hlt
    obtain ⟨n, ⟨h0, hz, hc, h62⟩, rfl⟩ := hT
    refine ⟨n, ⟨?_, ?_, ?_, ?_⟩, rfl⟩
    · rw [get_lt a b i (by omega)]; exact h0
    · intro k hk; rw [get_lt a b _ (by omega)]; exact hz k hk
    · rw [get_lt a b _ (by omega)]; exact hc
    · rw [get_lt a b _ (by omega)]; exact h62
  · intro i wd j wd' hT hlt hji hTj
    obtain ⟨n, ⟨h0, _, _, _⟩, rfl⟩ := hT
    obtain ⟨n', ⟨g0, gz, gc, g62⟩, rfl⟩ := hTj
    -- the NUL run after `j` ends before the dash at `i`
    have hn' : j + 1 + n' ≤ i := by
      apply Nat.le_of_not_lt
      intro hlt'
      have hk := gz (i - (j + 1)) (by omega)
      rw [show j + 1 + (i - (j + 1)) = i by omega, get_lt a b i (by omega), h0] at hk
      cases hk
    refine ⟨n', ⟨?_, ?_, ?_, ?_⟩, rfl⟩
    · rw [← get_lt a b j (by omega)]; exact g0
    · intro k hk; rw [← get_lt a b _ (by omega)]; exact gz k hk
    · rw [← get_lt a b _ (by omega)]; exact gc
    · rw [← get_lt a b _ (by omega)]; exact g62

theorem indexByte_ins (a b : Bytes) (c : UInt8) (p i : Nat) (hi : indexByte ((a ++ b).drop p) c = some i) (hlt : p + i < a.length) :
    indexByte ((a ++ 0 :: b).drop p) c = some i := by
  rw [drop_le a b p (by omega)] at hi
  rw [drop_le a (0 :: b) p (by omega)]
  exact indexByte_pre c _ b (0 :: b) i hi (by simp; omega)

theorem stateBogusComment_loc (a b : Bytes) (h : H) (hs : h.s = a ++ b) (hp : h.pos ≤ h.s.length) :
    Loc a b (stateBogusComment h) (stateBogusComment (re a b h)) := by
  rw [hs] at hp
  unfold stateBogusComment
  simp only [re_s, re_pos, hs, offFrom_re a b h.pos hp, offFrom_ok hp, bind, Except.bind, pure, Except.pure]
  cases hi : indexByte ((a ++ b).drop h.pos) 62 with
  | none =>
    intro h1 hn
    simp only [Except.ok.injEq, Prod.mk.injEq, true_and] at hn; subst hn
    exact ⟨fun hb => absurd rfl hb.2, fun hst => absurd hst.1 not_name_comment⟩
  | some i =>
    intro h1 hn
    simp only [Except.ok.injEq, Prod.mk.injEq, true_and] at hn; subst hn
    refine ⟨fun hb => ?_, fun hst => absurd hst.1 not_name_comment⟩
    have hlt : h.pos + i < a.length := by unfold Before at hb; simp [emit] at hb; omega
    rw [indexByte_ins a b 62 h.pos i hi hlt]
    rfl

theorem stateDoctype_loc (a b : Bytes) (h : H) (hs : h.s = a ++ b) (hp : h.pos ≤ h.s.length) :
    Loc a b (stateDoctype h) (stateDoctype (re a b h)) := by
  rw [hs] at hp
  unfold stateDoctype
  simp only [re_s, re_pos, hs, offFrom_re a b h.pos hp, offFrom_ok hp, bind, Except.bind, pure, Except.pure]
  cases hi : indexByte ((a ++ b).drop h.pos) 62 with
  | none =>
    intro h1 hn
    simp only [Except.ok.injEq, Prod.mk.injEq, true_and] at hn; subst hn
    exact ⟨fun hb => absurd rfl hb.2, fun hst => absurd hst.1 not_name_doctype⟩
  | some i =>
    intro h1 hn
    simp only [Except.ok.injEq, Prod.mk.injEq, true_and] at hn; subst hn
    refine ⟨fun hb => ?_, fun hst => absurd hst.1 not_name_doctype⟩
    have hlt : h.pos + i < a.length := by unfold Before at hb; simp [emit] at hb; omega
    rw [indexByte_ins a b 62 h.pos i hi hlt]
    rfl

/-- a computation whose tokens start at or after the insertion point says nothing: nothing to show -/
theorem loc_vac (a b : Bytes) (base c : Nat) (h0 : H) (r r' : M (Bool × H)) (o : Ord base c h0 r) (hge : a.length ≤ base) :
    Loc a b r r' := by
  intro h1 hn
  obtain ⟨o1, o2, _⟩ := o h1 hn
  refine ⟨fun hb => ?_, fun hst => ?_⟩
  · exfalso; unfold Before at hb; unfold lbN at o2; rw [if_neg hb.2] at o2; omega
  · exfalso; unfold Straddle at hst; omega

theorem loc_false (a b : Bytes) (x : H) (r' : M (Bool × H)) : Loc a b (.ok (false, x)) r' := by
  intro h1 hn
  simp only [Except.ok.injEq, Prod.mk.injEq] at hn
  exact absurd hn.1 (by decide)

theorem stateTagNameClose_loc (a b : Bytes) (h : H) (hs : h.s = a ++ b) (hp : h.pos < h.s.length) :
    Loc a b (stateTagNameClose h) (stateTagNameClose (re a b h)) := by
  rw [hs] at hp
  unfold stateTagNameClose
  simp only [re_s, re_pos, hs, offFrom_re a b h.pos (Nat.le_of_lt hp), offFrom_ok (Nat.le_of_lt hp), bind, Except.bind, pure, Except.pure]
  intro h1 hn
  simp only [Except.ok.injEq, Prod.mk.injEq, true_and] at hn; subst hn
  refine ⟨fun hb => ?_, fun hst => absurd hst.1 not_name_close⟩
  unfold Before at hb
  simp only at hb
  have h1 : h.pos + 1 < (a ++ b).length := by
    have := hb.2; simp at this; simp; omega
  have h2 : h.pos + 1 < (a ++ 0 :: b).length := by rw [len_ins]; omega
  simp only [h1, h2, ↓reduceIte]
  rfl

theorem stateAttributeValueNoQuote_loc (a b : Bytes) (h : H) (hs : h.s = a ++ b) (hp : h.pos < a.length) :
    Loc a b (stateAttributeValueNoQuote h) (stateAttributeValueNoQuote (re a b h)) := by
  have hlen : h.pos ≤ (a ++ b).length := by simp; omega
  have hd : (a ++ b).drop h.pos = a.drop h.pos ++ b := drop_le a b h.pos (by omega)
  have hd' : (a ++ 0 :: b).drop h.pos = a.drop h.pos ++ 0 :: b := drop_le a (0 :: b) h.pos (by omega)
  have hxl : (a.drop h.pos).length = a.length - h.pos := by simp
  unfold stateAttributeValueNoQuote
  simp only [re_s, re_pos, hs, hd, hd', offFrom_re a b h.pos hlen, offFrom_ok hlen, bind, Except.bind, pure, Except.pure]
  generalize hn0 : spn noQuoteByte (a.drop h.pos ++ b) = n
  by_cases hcase : h.pos + n < a.length
  · have hsp : spn noQuoteByte (a.drop h.pos ++ 0 :: b) = n := by
      rw [spn_pre noQuoteByte _ b (0 :: b) (by rw [hn0, hxl]; omega), hn0]
    rw [hsp, get_lt a b _ hcase]
    cases hg : (a ++ b)[h.pos + n]? with
    | none => exact absurd (List.getElem?_eq_none_iff.mp hg) (by simp; omega)
    | some ch =>
      simp only []
      by_cases hw : isH5White ch = true
      · simp only [hw, ↓reduceIte]; loc_same
      · simp only [hw, Bool.false_eq_true, ↓reduceIte]; loc_same
  · cases hg : (a ++ b)[h.pos + n]? with
    | none =>
      simp only []
      intro h1 hn
      simp only [Except.ok.injEq, Prod.mk.injEq, true_and] at hn; subst hn
      exact ⟨fun hb => absurd rfl hb.2, fun hst => absurd hst.1 not_name_value⟩
    | some ch =>
      simp only []
      by_cases hw : isH5White ch = true
      · simp only [hw, ↓reduceIte]; loc_far
      · simp only [hw, Bool.false_eq_true, ↓reduceIte]; loc_far

theorem stateAttributeValueQuote_loc (q : UInt8) (a b : Bytes) (h : H) (hs : h.s = a ++ b) (hp : h.pos < h.s.length ∨ h.pos = 0) :
    Loc a b (stateAttributeValueQuote q h) (stateAttributeValueQuote q (re a b h)) := by
  rw [hs] at hp
  unfold stateAttributeValueQuote
  by_cases h0 : h.pos > 0
  · have hl : h.pos + 1 ≤ (a ++ b).length := by rcases hp with hp | hp <;> omega
    simp only [h0, re_pos, ↓reduceIte, re_s, hs, offFrom_re a b (h.pos + 1) hl, offFrom_ok hl, bind, Except.bind, pure, Except.pure]
    show Loc a b (match indexByte ((a ++ b).drop (h.pos + 1)) q with | none => _ | some i => _)
      (match indexByte ((a ++ 0 :: b).drop (h.pos + 1)) q with | none => _ | some i => _)
    cases hi : indexByte ((a ++ b).drop (h.pos + 1)) q with
    | none =>
      intro h1 hn
      simp only [Except.ok.injEq, Prod.mk.injEq, true_and] at hn; subst hn
      exact ⟨fun hb => absurd rfl hb.2, fun hst => absurd hst.1 not_name_value⟩
    | some i =>
      intro h1 hn
      simp only [Except.ok.injEq, Prod.mk.injEq, true_and] at hn; subst hn
      refine ⟨fun hb => ?_, fun hst => absurd hst.1 not_name_value⟩
      have hlt : h.pos + 1 + i < a.length := by unfold Before at hb; simp [emit] at hb; omega
      rw [indexByte_ins a b q (h.pos + 1) i hi hlt]
      rfl
  · have hz : h.pos = 0 := by omega
    have hl : h.pos ≤ (a ++ b).length := by omega
    simp only [h0, re_pos, ↓reduceIte, re_s, hs, offFrom_re a b h.pos hl, offFrom_ok hl, bind, Except.bind, pure, Except.pure]
    cases hi : indexByte ((a ++ b).drop h.pos) q with
    | none =>
      intro h1 hn
      simp only [Except.ok.injEq, Prod.mk.injEq, true_and] at hn; subst hn
      exact ⟨fun hb => absurd rfl hb.2, fun hst => absurd hst.1 not_name_value⟩
    | some i =>
      intro h1 hn
      simp only [Except.ok.injEq, Prod.mk.injEq, true_and] at hn; subst hn
      refine ⟨fun hb => ?_, fun hst => absurd hst.1 not_name_value⟩
      have hlt : h.pos + i < a.length := by unfold Before at hb; simp [emit] at hb; omega
      rw [indexByte_ins a b q h.pos i hi hlt]
      rfl

/-- skipping white space that ends before the insertion point is the same on both inputs -/
theorem skipWhite_re (a b : Bytes) (h : H) (hs : h.s = a ++ b) (hlt : (skipWhite h).1.pos < a.length) :
    skipWhite (re a b h) = (re a b (skipWhite h).1, (skipWhite h).2) := by
  unfold skipWhite at hlt ⊢
  simp only [hs] at hlt
  have hp : h.pos ≤ a.length := by omega
  have hxl : (a.drop h.pos).length = a.length - h.pos := by simp
  rw [drop_le a b h.pos hp] at hlt
  simp only [re_s, re_pos, hs, drop_le a b h.pos hp, drop_le a (0 :: b) h.pos hp]
  have hsp : spn isSkipWhite (a.drop h.pos ++ 0 :: b) = spn isSkipWhite (a.drop h.pos ++ b) :=
    spn_pre isSkipWhite _ b (0 :: b) (by rw [hxl]; omega)
  rw [hsp, get_lt a b _ hlt]
  rfl

end LibInj.H5
