import LibInj.Proofs.QString
import LibInj.Proofs.KwFacts
set_option linter.unusedSimpArgs false
set_option linter.unusedVariables false
/-! Totality, progress and faithfulness of the 22 byte-dispatched SQL lexers (C01, C16). -/
namespace LibInj.Sqli
open LibInj LibInj.Spec

theorem at'_ok {s : Bytes} {i : Nat} (h : i < s.length) : at' s i = .ok s[i] := by
  simp [at', List.getElem?_eq_getElem h]

theorem slice_ok (s : Bytes) (a b : Nat) (h1 : a ≤ b) (h2 : b ≤ s.length) :
    slice s a b = .ok ((s.drop a).take (b - a)) := by
  simp [slice, h1, h2]

theorem sliceFrom_ok (s : Bytes) (a : Nat) (h : a ≤ s.length) : sliceFrom s a = .ok (s.drop a) := by
  simp [sliceFrom, h]

theorem clip_le_31 (n : Nat) : clip n ≤ 31 := by
  unfold clip tokenSize; simp only [Gen.tokenSize]; by_cases h : n < 32 <;> simp [h] <;> omega

/-- token well-formedness: the value has exactly `len` bytes, at most 31 -/
def TokInv (t : Token) : Prop := t.val.length = t.len ∧ t.len ≤ 31

/-- a class byte assigned to a token of `len` bytes: no token (0) or a documented class; a function
name has at least two bytes (`fold` reads `val[1]` of an `f` token) -/
def CatV (cat : UInt8) (len : Nat) : Prop :=
  (cat = 0 ∨ isClassU8 cat = true) ∧ (cat = 102 → 2 ≤ len) ∧ (cat = 99 → 1 ≤ len)
def CatOK (t : Token) : Prop := CatV t.cat t.len
/-- a literal class other than `f` (function name: two bytes needed) and `c` (comment: non-empty) -/
abbrev CatLit (cat : UInt8) : Prop := (cat = 0 ∨ isClassU8 cat = true) ∧ cat ≠ 102 ∧ cat ≠ 99

theorem catLit_ok {cat : UInt8} {len : Nat} (h : CatLit cat) : CatV cat len :=
  ⟨h.1, fun h' => absurd h' h.2.1, fun h' => absurd h' h.2.2⟩

/-- a comment class on a non-empty token -/
theorem catComment_ok {len : Nat} (h : 1 ≤ len) : CatV 99 len :=
  ⟨Or.inr (by decide), (fun h' => absurd h' (by decide)), fun _ => h⟩

theorem clip_pos {n : Nat} (h : 1 ≤ n) : 1 ≤ clip n := by
  unfold clip tokenSize; simp only [Gen.tokenSize]; by_cases h' : n < 32 <;> simp [h'] <;> omega

theorem clip_two {n : Nat} (h : 2 ≤ n) : 2 ≤ clip n := by
  unfold clip tokenSize; simp only [Gen.tokenSize]; by_cases h' : n < 32 <;> simp [h'] <;> omega

macro "cat_lit" : tactic => `(tactic| first | exact catLit_ok (by decide) | assumption)

/-- postcondition of a lexer run on `rest`: it consumes at least one byte and at most `rest`, the
token is well-formed, lies inside the consumed span, its value is the input at its offset, and its
class is a documented one -/
def LexOK (rest : Bytes) (r : Lex) : Prop :=
  1 ≤ r.next ∧ r.next ≤ rest.length ∧ TokInv r.tok ∧ r.tok.pos + r.tok.len ≤ r.next ∧
  r.tok.val = (rest.drop r.tok.pos).take r.tok.len ∧ CatOK r.tok

def Lexes (rest : Bytes) (x : M Lex) : Prop := ∃ r, x = .ok r ∧ LexOK rest r

/-- `assign` of a length that fits into the value, at an offset of `rest` -/
theorem assign_lex (t : Token) (cat : UInt8) (pos length : Nat) (rest : Bytes) (next : Nat)
    (h1 : pos + length ≤ rest.length) (hn1 : 1 ≤ next) (hn2 : next ≤ rest.length) (hn3 : pos + clip length ≤ next)
    (k : Token → Lex) (hk : ∀ t', (k t').next = next ∧ (k t').tok.pos = t'.pos ∧ (k t').tok.len = t'.len ∧ (k t').tok.val = t'.val ∧ (k t').tok.cat = t'.cat)
    (hcat : CatV cat (clip length)) :
    Lexes rest (do let t' ← assign t cat pos length (rest.drop pos); return k t') := by
  have hc := clip_le length
  rw [assign_ok _ _ _ _ _ (by simp; omega)]
  simp only [bind, Except.bind, pure, Except.pure]
  obtain ⟨k1, k2, k3, k4, k5⟩ := hk { t with cat := cat, pos := pos, len := clip length, val := (rest.drop pos).take (clip length) }
  refine ⟨_, rfl, by rw [k1]; exact hn1, by rw [k1]; exact hn2, ⟨by rw [k4, k3]; simp; omega, by rw [k3]; exact clip_le_31 _⟩, by rw [k1, k2, k3]; exact hn3, by rw [k4, k2, k3], ?_⟩
  unfold CatOK; rw [k5, k3]; exact hcat

theorem parseWhite_ok (rest : Bytes) (h : rest ≠ []) : Lexes rest (parseWhite rest) := by
  have : 1 ≤ rest.length := by cases rest with | nil => exact absurd rfl h | cons _ _ => simp
  exact ⟨_, rfl, by simp, by simpa using this, ⟨rfl, by simp⟩, by simp, by simp, ⟨Or.inl rfl, (fun h => absurd h (by decide)), (fun h => absurd h (by decide))⟩⟩

theorem clip_one : clip 1 = 1 := by decide

/-- a one-byte token at offset 0 -/
theorem one_byte_ok (cat : UInt8) (rest : Bytes) (h : rest ≠ []) (hcat : CatV cat (clip 1) := by cat_lit) :
    Lexes rest (do return { tok := ← assign {} cat 0 1 rest, next := 1 }) := by
  have hl : 1 ≤ rest.length := by cases rest with | nil => exact absurd rfl h | cons _ _ => simp
  have := assign_lex {} cat 0 1 rest 1 (by omega) (by omega) hl (by rw [clip_one]; omega) (fun t' => { tok := t', next := 1 })
    (fun t' => ⟨rfl, rfl, rfl, rfl, rfl⟩) hcat
  simpa using this

theorem parseOperator1_ok (rest : Bytes) (h : rest ≠ []) : Lexes rest (parseOperator1 rest) := one_byte_ok 111 rest h
theorem parseOther_ok (rest : Bytes) (h : rest ≠ []) : Lexes rest (parseOther rest) := one_byte_ok 63 rest h

theorem parseByte_ok (rest : Bytes) (c : UInt8) (h0 : rest[0]? = some c) (hcl : CatLit c) : Lexes rest (parseByte rest) := by
  have h : rest ≠ [] := by intro hn; simp [hn] at h0
  have hl : 0 < rest.length := by cases rest with | nil => exact absurd rfl h | cons _ _ => simp
  have hc0 : rest[0] = c := by simpa [List.getElem?_eq_getElem hl] using h0
  unfold parseByte
  simp only [at'_ok hl, bind, Except.bind, hc0]
  exact one_byte_ok _ rest h (catLit_ok hcl)

/-- a one-byte token whose value is the constant `[c]`, where `c` is the first input byte -/
theorem const_byte_ok (cat c : UInt8) (rest : Bytes) (hc : rest[0]? = some c) (extra : Lex → Lex)
    (he : ∀ r, (extra r).tok = r.tok ∧ (extra r).next = r.next) (hcat : CatV cat (clip 1) := by cat_lit) :
    Lexes rest (do return extra { tok := ← assign {} cat 0 1 [c], next := 1 }) := by
  have hl : 0 < rest.length := by
    rcases Nat.lt_or_ge 0 rest.length with h | h
    · exact h
    · simp [List.getElem?_eq_none h] at hc
  rw [assign_ok _ _ _ _ _ (by rw [clip_one]; simp)]
  simp only [bind, Except.bind, pure, Except.pure]
  obtain ⟨e1, e2⟩ := he { tok := { cat := cat, pos := 0, len := clip 1, val := [c].take (clip 1) }, next := 1 }
  refine ⟨_, rfl, by rw [e2]; simp, by rw [e2]; exact hl, by rw [e1]; simp [TokInv, clip_one], by rw [e1, e2]; simp [clip_one], ?_, by rw [e1]; exact hcat⟩
  rw [e1]
  simp only [clip_one, List.take_succ_cons, List.take_zero, List.drop_zero]
  cases rest with
  | nil => simp at hl
  | cons x xs => simp at hc; simp [hc]

theorem parseEolComment_ok (rest : Bytes) (h : rest ≠ []) (hnl : rest[0]? ≠ some 10) (extra : Lex → Lex)
    (he : ∀ r, (extra r).tok = r.tok ∧ (extra r).next = r.next) :
    Lexes rest (do let r ← parseEolComment rest; return extra r) := by
  have hl : 1 ≤ rest.length := by cases rest with | nil => exact absurd rfl h | cons _ _ => simp
  unfold parseEolComment
  cases hi : indexByte rest 10 with
  | none =>
    simp only [bind, Except.bind, pure, Except.pure]
    rw [assign_ok _ _ _ _ _ (clip_le _)]
    simp only []
    obtain ⟨e1, e2⟩ := he { tok := { cat := 99, pos := 0, len := clip rest.length, val := rest.take (clip rest.length) }, next := rest.length }
    refine ⟨_, rfl, by rw [e2]; exact hl, by rw [e2]; simp, by rw [e1]; exact ⟨by have := clip_le rest.length; simp; omega, clip_le_31 _⟩, by rw [e1, e2]; simp; exact clip_le _, by rw [e1]; simp, by rw [e1]; exact catComment_ok (clip_pos hl)⟩
  | some i =>
    have hlt := indexByte_lt hi
    have hi1 : 1 ≤ i := by
      rcases Nat.eq_zero_or_pos i with h0 | h0
      · subst h0
        exact absurd ((indexByte_some_iff _ _ _).mp hi).1 hnl
      · exact h0
    simp only [bind, Except.bind, pure, Except.pure]
    rw [assign_ok _ _ _ _ _ (by have := clip_le i; omega)]
    simp only []
    obtain ⟨e1, e2⟩ := he { tok := { cat := 99, pos := 0, len := clip i, val := rest.take (clip i) }, next := i + 1 }
    have := clip_le i
    refine ⟨_, rfl, by rw [e2]; simp, by rw [e2]; simp; omega, by rw [e1]; exact ⟨by simp; omega, clip_le_31 _⟩, by rw [e1, e2]; simp; omega, by rw [e1]; simp, by rw [e1]; exact catComment_ok (clip_pos hi1)⟩

set_option maxRecDepth 100000 in
/-- table fact: no key is empty, so the empty word is never a keyword -/
theorem searchKeyword_nil : searchKeyword [] = 0 := by decide +kernel

theorem clip_of_lt {n : Nat} (h : n < 32) : clip n = n := by
  unfold clip tokenSize; simp only [Gen.tokenSize]; simp [h]

theorem splitLoop_ok (rest : Bytes) (t : Token) (ht : t.val.length = t.len) (hl : t.len ≤ 31) (hr : t.len ≤ rest.length) :
    ∀ fuel i, (splitLoop rest t i fuel = .ok none) ∨ (∃ r, splitLoop rest t i fuel = .ok (some r) ∧ LexOK rest r) := by
  intro fuel
  induction fuel with
  | zero => intro i; left; rfl
  | succ fuel ih =>
    intro i
    unfold splitLoop
    by_cases hi : i < t.len
    · simp only [hi, ↓reduceIte, at'_ok (show i < t.val.length by omega), bind, Except.bind, pure, Except.pure]
      split
      · simp only [slice_ok t.val 0 i (by omega) (by omega)]
        split
        · rename_i hch
          by_cases hi0 : i = 0
          · subst hi0
            simp [searchKeyword_nil] at hch
          · right
            rw [assign_ok _ _ _ _ _ (by have := clip_le i; omega)]
            have hci : clip i = i := clip_of_lt (by omega)
            have hw : ((t.val.drop 0).take (i - 0)).length = i := by simp; omega
            refine ⟨_, rfl, by simp; omega, by simp; omega, ⟨by simp [hci]; omega, by simp; exact clip_le_31 _⟩, by simp [hci], by simp, ?_⟩
            rcases searchKeyword_cases ((t.val.drop 0).take (i - 0)) with h0 | ⟨hcl, hf, hw1⟩
            · simp only [List.drop_zero, Nat.sub_zero] at h0
              simp [h0] at hch
            · exact ⟨Or.inr hcl, (fun h102 => by have := hf h102; rw [hw] at this; show 2 ≤ clip i; omega), (fun _ => by rw [hw] at hw1; show 1 ≤ clip i; omega)⟩
        · exact ih (i + 1)
      · exact ih (i + 1)
    · simp only [hi, ↓reduceIte]
      first | (left; rfl) | simp

theorem spn_pos (p : UInt8 → Bool) (rest : Bytes) (c : UInt8) (h0 : rest[0]? = some c) (hp : p c = true) :
    1 ≤ spn p rest := by
  cases rest with
  | nil => simp at h0
  | cons x xs => simp at h0; subst h0; simp [spn, hp]

/-- `parseWord` on a run that starts with a non-delimiter byte -/
theorem parseWord_ok (rest : Bytes) (c : UInt8) (h0 : rest[0]? = some c) (hc : notWordAccept c = true) :
    Lexes rest (parseWord rest) := by
  have h1 := spn_pos notWordAccept rest c h0 hc
  have h2 := spn_le notWordAccept rest
  unfold parseWord
  generalize spn notWordAccept rest = length at h1 h2 ⊢
  have hcl := clip_le length
  simp only []
  rw [assign_ok _ _ _ _ _ (by omega)]
  simp only [bind, Except.bind, pure, Except.pure]
  rcases splitLoop_ok rest { cat := 110, pos := 0, len := clip length, val := rest.take (clip length) }
      (by simp; omega) (clip_le_31 _) (by simp; omega) (clip length + 1) 0 with hs | ⟨r, hs, hr⟩
  · simp only [hs]
    by_cases hlt : length < tokenSize
    · have hc32 : clip length = length := clip_of_lt hlt
      simp only [hlt, ↓reduceIte, slice_ok (rest.take (clip length)) 0 length (by omega) (by rw [List.length_take, hc32]; omega)]
      refine ⟨_, rfl, h1, h2, ⟨?_, clip_le_31 length⟩, ?_, ?_, ?_⟩
      · show (rest.take (clip length)).length = clip length
        rw [List.length_take]; omega
      · show 0 + clip length ≤ length
        omega
      · show rest.take (clip length) = (rest.drop 0).take (clip length)
        simp
      · -- the class is 'n' or the class of the whole word in the table
        have hw : (((rest.take (clip length)).drop 0).take (length - 0)).length = length := by
          simp [List.length_take, hc32]; omega
        show CatV (if (searchKeyword (((rest.take (clip length)).drop 0).take (length - 0)) == 0) = true then 110
                   else searchKeyword (((rest.take (clip length)).drop 0).take (length - 0))) (clip length)
        rcases searchKeyword_cases (((rest.take (clip length)).drop 0).take (length - 0)) with h0 | ⟨hcl, hf, hw1⟩
        · rw [h0]; exact catLit_ok (cat := 110) (by decide)
        · split
          · exact catLit_ok (cat := 110) (by decide)
          · exact ⟨Or.inr hcl, (fun h102 => by have := hf h102; rw [hw] at this; omega), (fun _ => by rw [hw] at hw1; omega)⟩
    · simp only [hlt, ↓reduceIte]
      refine ⟨_, rfl, h1, h2, ⟨?_, clip_le_31 length⟩, ?_, ?_, catLit_ok (cat := 110) (by decide)⟩
      · show (rest.take (clip length)).length = clip length
        rw [List.length_take]; omega
      · show 0 + clip length ≤ length
        omega
      · show rest.take (clip length) = (rest.drop 0).take (clip length)
        simp
  · simp only [hs]
    exact ⟨r, rfl, hr⟩

theorem length_pos_of_ne_nil {rest : Bytes} (h : rest ≠ []) : 1 ≤ rest.length := by
  cases rest with | nil => exact absurd rfl h | cons _ _ => simp

/-- every literal that goes through `parseStringCore` -/
theorem parseStringCore_lex (t : Token) (rest : Bytes) (offset : Nat) (d : UInt8) (hd : d ≠ 92)
    (ho : offset ≤ rest.length) (h1 : 1 ≤ rest.length) :
    ∃ r, parseStringCore t rest offset d = .ok r ∧ LexOK rest r ∧ r.tok.cat = 115 ∧ r.tok.count = t.count := by
  have hspec := parseStringCore_spec t rest offset d hd ho
  cases hq : closingQuote (rest.drop offset) d with
  | none =>
    have hc := clip_le (rest.length - offset)
    simp only [hq] at hspec
    refine ⟨_, hspec, ⟨h1, Nat.le_refl _, ⟨?_, clip_le_31 _⟩, ?_, rfl, catLit_ok (cat := 115) (by decide)⟩, rfl, rfl⟩
    · show ((rest.drop offset).take (clip (rest.length - offset))).length = clip (rest.length - offset)
      rw [List.length_take, List.length_drop]; omega
    · show offset + clip (rest.length - offset) ≤ rest.length
      omega
  | some q =>
    have hlt := closingQuote_lt _ _ _ hq
    rw [List.length_drop] at hlt
    have hc := clip_le q
    simp only [hq] at hspec
    refine ⟨_, hspec, ⟨by show 1 ≤ offset + q + 1; omega, by show offset + q + 1 ≤ rest.length; omega, ⟨?_, clip_le_31 _⟩, ?_, rfl, catLit_ok (cat := 115) (by decide)⟩, rfl, rfl⟩
    · show ((rest.drop offset).take (clip q)).length = clip q
      rw [List.length_take, List.length_drop]; omega
    · show offset + clip q ≤ offset + q + 1
      omega

/-- changing class, marks or count of the token keeps `LexOK` -/
theorem LexOK.retag {rest : Bytes} {r : Lex} (h : LexOK rest r) (t' : Token)
    (hp : t'.pos = r.tok.pos) (hl : t'.len = r.tok.len) (hv : t'.val = r.tok.val) (ddx hash : Nat)
    (hc : t'.cat = r.tok.cat ∨ CatOK t') :
    LexOK rest { tok := t', next := r.next, ddx := ddx, hash := hash } := by
  obtain ⟨a1, a2, ⟨a3, a4⟩, a5, a6, a7⟩ := h
  refine ⟨a1, a2, ⟨by rw [hv, hl]; exact a3, by rw [hl]; exact a4⟩, by rw [hp, hl]; exact a5, by rw [hv, hp, hl]; exact a6, ?_⟩
  rcases hc with hc | hc
  · show CatV t'.cat t'.len
    rw [hc, hl]; exact a7
  · exact hc

theorem LexOK.shift {rest : Bytes} {p : Nat} {r : Lex} (hp : p ≤ rest.length) (h : LexOK (rest.drop p) r) :
    LexOK rest (shift r p) := by
  obtain ⟨a1, a2, ⟨a3, a4⟩, a5, a6, a7⟩ := h
  rw [List.length_drop] at a2
  refine ⟨by show 1 ≤ r.next + p; omega, by show r.next + p ≤ rest.length; omega, ⟨a3, a4⟩,
    by show r.tok.pos + p + r.tok.len ≤ r.next + p; omega, ?_, a7⟩
  show r.tok.val = (rest.drop (r.tok.pos + p)).take r.tok.len
  rw [a6, List.drop_drop]
  congr 1
  rw [Nat.add_comm]

theorem parseString_ok (t : Token) (rest : Bytes) (c : UInt8) (h0 : rest[0]? = some c) (hc : c ≠ 92) :
    ∃ r, parseString t rest = .ok r ∧ LexOK rest r ∧ r.tok.cat = 115 := by
  have hl : 0 < rest.length := by
    rcases Nat.lt_or_ge 0 rest.length with h | h
    · exact h
    · simp [List.getElem?_eq_none h] at h0
  have hc0 : rest[0] = c := by simpa [List.getElem?_eq_getElem hl] using h0
  unfold parseString
  simp only [at'_ok hl, bind, Except.bind, hc0]
  obtain ⟨r, h1, h2, h3, _⟩ := parseStringCore_lex t rest 1 c hc (by omega) (by omega)
  exact ⟨r, h1, h2, h3⟩

theorem parseTick_ok (t : Token) (rest : Bytes) (h : rest ≠ []) : Lexes rest (parseTick t rest) := by
  have hl := length_pos_of_ne_nil h
  unfold parseTick
  obtain ⟨r, h1, h2, h3, _⟩ := parseStringCore_lex t rest 1 96 (by decide) (by omega) hl
  have hv : r.tok.val.length = r.tok.len := h2.2.2.1.1
  simp only [h1, bind, Except.bind, slice_ok r.tok.val 0 r.tok.len (by omega) (by omega), pure, Except.pure]
  refine ⟨_, rfl, h2.retag { r.tok with cat := if (searchKeyword ((r.tok.val.drop 0).take (r.tok.len - 0)) == 102) = true then 102 else 110 }
    rfl rfl rfl r.ddx r.hash (Or.inr ?_)⟩
  show CatV (if (searchKeyword ((r.tok.val.drop 0).take (r.tok.len - 0)) == 102) = true then 102 else 110) r.tok.len
  split
  · rename_i h102
    have hw : ((r.tok.val.drop 0).take (r.tok.len - 0)).length = r.tok.len := by simp; omega
    rcases searchKeyword_cases ((r.tok.val.drop 0).take (r.tok.len - 0)) with h0 | ⟨_, hf, _⟩
    · rw [h0] at h102; simp at h102
    · exact ⟨Or.inr (by decide), (fun _ => by have := hf (by simpa using h102); omega), (fun h => absurd h (by decide))⟩
  · exact catLit_ok (cat := 110) (by decide)

theorem parseEString_ok (rest : Bytes) (c : UInt8) (h0 : rest[0]? = some c) (hc : notWordAccept c = true) :
    Lexes rest (parseEString rest) := by
  have hl : 0 < rest.length := by
    rcases Nat.lt_or_ge 0 rest.length with h | h
    · exact h
    · simp [List.getElem?_eq_none h] at h0
  unfold parseEString
  by_cases h2 : 2 ≥ rest.length
  · simp only [g, h2, decide_true, orM, toBool, bind, Except.bind, pure, Except.pure, ↓reduceIte]
    exact parseWord_ok rest c h0 hc
  · simp only [g, h2, decide_false, orM, toBool, bind, Except.bind, pure, Except.pure, Bool.false_eq_true, ↓reduceIte,
      byteNe, at'_ok (show 1 < rest.length by omega)]
    split
    · exact parseWord_ok rest c h0 hc
    · obtain ⟨r, h1, h2, _, _⟩ := parseStringCore_lex {} rest 2 39 (by decide) (by omega) (by omega)
      exact ⟨r, h1, h2⟩

theorem parseUString_ok (rest : Bytes) (c : UInt8) (h0 : rest[0]? = some c) (hc : notWordAccept c = true) :
    Lexes rest (parseUString rest) := by
  have hl : 0 < rest.length := by
    rcases Nat.lt_or_ge 0 rest.length with h | h
    · exact h
    · simp [List.getElem?_eq_none h] at h0
  unfold parseUString
  by_cases h2 : 2 < rest.length
  · simp only [g, h2, decide_true, andM, toBool, bind, Except.bind, pure, Except.pure, ↓reduceIte, byteIs,
      at'_ok (show 1 < rest.length by omega), at'_ok (show 2 < rest.length by omega)]
    cases hb1 : rest[1] == 38 <;> cases hb2 : rest[2] == 39 <;>
      simp only [hb1, hb2, Bool.false_eq_true, ↓reduceIte] <;> try exact parseWord_ok rest c h0 hc
    simp only [sliceFrom_ok rest 2 (by omega)]
    have hq : (rest.drop 2)[0]? = some 39 := by
      have : rest[2] = 39 := by simpa using hb2
      simp [List.getElem?_drop, List.getElem?_eq_getElem h2, this]
    obtain ⟨r, h1, hok, _⟩ := parseString_ok {} (rest.drop 2) 39 hq (by decide)
    simp only [h1]
    have := LexOK.shift (p := 2) (by omega) hok
    exact ⟨_, rfl, this.retag _ rfl rfl rfl (shift r 2).ddx (shift r 2).hash (Or.inl rfl)⟩
  · simp only [g, h2, decide_false, andM, toBool, bind, Except.bind, pure, Except.pure, Bool.false_eq_true, ↓reduceIte]
    exact parseWord_ok rest c h0 hc

theorem first_lt {rest : Bytes} {c : UInt8} (h0 : rest[0]? = some c) : 0 < rest.length := by
  rcases Nat.lt_or_ge 0 rest.length with h | h
  · exact h
  · simp [List.getElem?_eq_none h] at h0

theorem ne_nil_of_first {rest : Bytes} {c : UInt8} (h0 : rest[0]? = some c) : rest ≠ [] := by
  intro h; simp [h] at h0

theorem Lexes.of_eq {rest : Bytes} {x y : M Lex} (h : Lexes rest x) (e : y = x) : Lexes rest y := e ▸ h

theorem parseHash_ok (flags : Nat) (rest : Bytes) (h0 : rest[0]? = some 35) : Lexes rest (parseHash flags rest) := by
  unfold parseHash
  split
  · have := parseEolComment_ok rest (ne_nil_of_first h0) (by rw [h0]; decide) (fun r => { r with hash := 2 }) (fun r => ⟨rfl, rfl⟩)
    exact this
  · exact const_byte_ok 111 35 rest h0 (fun r => { r with hash := 1 }) (fun r => ⟨rfl, rfl⟩)

theorem parseDash_ok (flags : Nat) (rest : Bytes) (h0 : rest[0]? = some 45) : Lexes rest (parseDash flags rest) := by
  have hne := ne_nil_of_first h0
  have eol := parseEolComment_ok rest hne (by rw [h0]; decide) (fun r => r) (fun r => ⟨rfl, rfl⟩)
  have eol' : Lexes rest (parseEolComment rest) := by
    obtain ⟨r, hr, hok⟩ := eol
    cases hp : parseEolComment rest with
    | error e => simp [hp, bind, Except.bind] at hr
    | ok v =>
      simp only [hp, bind, Except.bind, pure, Except.pure, Except.ok.injEq] at hr
      exact ⟨v, rfl, hr ▸ hok⟩
  have eolx := parseEolComment_ok rest hne (by rw [h0]; decide) (fun r => { r with ddx := 1 }) (fun r => ⟨rfl, rfl⟩)
  have dash := const_byte_ok 111 45 rest h0 (fun r => r) (fun r => ⟨rfl, rfl⟩)
  unfold parseDash
  simp only [g, andM, toBool, byteIs, bind, Except.bind, pure, Except.pure]
  by_cases h2 : 2 < rest.length
  · simp only [h2, decide_true, ↓reduceIte, at'_ok (show 1 < rest.length by omega), at'_ok (show 2 < rest.length by omega)]
    cases hb : rest[1] == 45 <;> simp only [hb, Bool.false_eq_true, ↓reduceIte]
    · have h2' : ¬ ((2 == rest.length) = true) := by simp; omega
      have h1 : 1 < rest.length := by omega
      simp only [h2', h1, decide_true, Bool.false_eq_true, ↓reduceIte, at'_ok h1, hb]
      simpa [bind, Except.bind, pure, Except.pure] using dash
    · split
      · exact eol'
      · have h2' : ¬ ((2 == rest.length) = true) := by simp; omega
        have h1 : 1 < rest.length := by omega
        simp only [h2', h1, decide_true, Bool.false_eq_true, ↓reduceIte, at'_ok h1, hb]
        split
        · exact eolx
        · simpa [bind, Except.bind, pure, Except.pure] using dash
  · simp only [h2, decide_false, Bool.false_eq_true, ↓reduceIte]
    by_cases h22 : (2 == rest.length) = true
    · have h1 : 1 < rest.length := by simp at h22; omega
      simp only [h22, ↓reduceIte, at'_ok h1]
      cases hb : rest[1] == 45 <;> simp only [hb, Bool.false_eq_true, ↓reduceIte]
      · simp only [h1, decide_true, ↓reduceIte, at'_ok h1, hb, Bool.false_eq_true]
        simpa [bind, Except.bind, pure, Except.pure] using dash
      · exact eol'
    · simp only [h22, Bool.false_eq_true, ↓reduceIte]
      by_cases h1 : 1 < rest.length
      · have : rest.length = 2 := by omega
        simp at h22; omega
      · simp only [h1, decide_false, Bool.false_eq_true, ↓reduceIte]
        simpa [bind, Except.bind, pure, Except.pure] using dash

theorem parseBackSlash_ok (rest : Bytes) (h : rest ≠ []) : Lexes rest (parseBackSlash rest) := by
  have hl := length_pos_of_ne_nil h
  unfold parseBackSlash
  simp only [g, andM, toBool, byteIs, bind, Except.bind, pure, Except.pure]
  by_cases h1 : 1 < rest.length
  · simp only [h1, decide_true, ↓reduceIte, at'_ok h1]
    cases hb : rest[1] == 78 <;> simp only [hb, Bool.false_eq_true, ↓reduceIte]
    · simpa [bind, Except.bind, pure, Except.pure] using one_byte_ok 92 rest h
    · have := assign_lex {} 49 0 2 rest 2 (by omega) (by omega) (by omega) (by have := clip_le 2; omega)
        (fun t' => { tok := t', next := 2 }) (fun t' => ⟨rfl, rfl, rfl, rfl, rfl⟩) (catLit_ok (cat := 49) (by decide))
      simpa [bind, Except.bind, pure, Except.pure] using this
  · simp only [h1, decide_false, Bool.false_eq_true, ↓reduceIte]
    simpa [bind, Except.bind, pure, Except.pure] using one_byte_ok 92 rest h

theorem parseBWord_ok (rest : Bytes) (h : rest ≠ []) : Lexes rest (parseBWord rest) := by
  have hl := length_pos_of_ne_nil h
  unfold parseBWord
  cases hi : indexByte rest 93 with
  | none =>
    have := assign_lex {} 110 0 rest.length rest rest.length (by omega) hl (Nat.le_refl _) (by have := clip_le rest.length; omega)
      (fun t' => { tok := t', next := rest.length }) (fun t' => ⟨rfl, rfl, rfl, rfl, rfl⟩) (catLit_ok (cat := 110) (by decide))
    simpa [bind, Except.bind, pure, Except.pure] using this
  | some e =>
    have hlt := indexByte_lt hi
    have := assign_lex {} 110 0 (e + 1) rest (e + 1) (by omega) (by omega) (by omega) (by have := clip_le (e + 1); omega)
      (fun t' => { tok := t', next := e + 1 }) (fun t' => ⟨rfl, rfl, rfl, rfl, rfl⟩) (catLit_ok (cat := 110) (by decide))
    simpa [bind, Except.bind, pure, Except.pure] using this

/-- generic closing step: a token of `length` bytes at offset 0, `next` bytes consumed -/
theorem tok0_ok (cat : UInt8) (length next : Nat) (rest : Bytes) (h1 : length ≤ rest.length) (hn1 : 1 ≤ next)
    (hn2 : next ≤ rest.length) (hn3 : clip length ≤ next) (hcat : CatV cat (clip length) := by cat_lit) :
    Lexes rest (do return { tok := ← assign {} cat 0 length rest, next := next }) := by
  have := assign_lex {} cat 0 length rest next (by omega) hn1 hn2 (by omega)
    (fun t' => { tok := t', next := next }) (fun t' => ⟨rfl, rfl, rfl, rfl, rfl⟩) hcat
  simpa using this

theorem isPrefix_length : ∀ (n l : Bytes), isPrefix n l = true → n.length ≤ l.length
  | [], _, _ => by simp
  | _ :: _, [], h => by simp [isPrefix] at h
  | a :: as, b :: bs, h => by
    simp only [isPrefix, Bool.and_eq_true] at h
    have := isPrefix_length as bs h.2
    simp; omega

theorem parseSlash_ok (rest : Bytes) (h : rest ≠ []) : Lexes rest (parseSlash rest) := by
  have hl := length_pos_of_ne_nil h
  unfold parseSlash
  simp only [g, orM, toBool, byteNe, bind, Except.bind, pure, Except.pure]
  by_cases h1 : (1 == rest.length) = true
  · simp only [h1, ↓reduceIte]
    exact parseOperator1_ok rest h
  · have hl2 : 1 < rest.length := by simp at h1; omega
    simp only [h1, Bool.false_eq_true, ↓reduceIte, at'_ok hl2]
    cases hb : rest[1] != 42 <;> simp only [hb, Bool.false_eq_true, ↓reduceIte]
    · simp only [sliceFrom_ok rest 2 (by omega)]
      cases hi : indexOf (rest.drop 2) [42, 47] with
      | none =>
        simp only []
        have fin : ∀ cat : UInt8, (cat = 88 ∨ cat = 99) → Lexes rest (do return { tok := ← assign {} cat 0 rest.length rest, next := rest.length }) :=
          fun cat hcl => tok0_ok cat rest.length rest.length rest (Nat.le_refl _) hl (Nat.le_refl _) (clip_le _)
            (by rcases hcl with rfl | rfl
                · exact catLit_ok (by decide)
                · exact catComment_ok (clip_pos hl))
        by_cases h2 : 2 < rest.length
        · simp only [h2, ↓reduceIte, at'_ok h2]
          have := fin (if (rest[2] == 33) = true then 88 else 99) (by split <;> simp)
          simpa [bind, Except.bind, pure, Except.pure] using this
        · simp only [h2, ↓reduceIte]
          have := fin 99 (Or.inr rfl)
          simpa [bind, Except.bind, pure, Except.pure] using this
      | some i =>
        have hle := indexOf_le hi
        rw [List.length_drop] at hle
        have hpre := ((indexOf_some_iff _ _ _).mp hi).2.1
        have hi2 : i + 2 ≤ rest.length - 2 := by
          have := isPrefix_length _ _ hpre
          simp at this; omega
        have h2 : 2 < rest.length := by omega
        simp only []
        rw [slice_ok rest 2 (2 + i + 1) (by omega) (by omega)]
        have fin : ∀ cat : UInt8, (cat = 88 ∨ cat = 99) → Lexes rest (do return { tok := ← assign {} cat 0 (2 + i + 2) rest, next := 2 + i + 2 }) :=
          fun cat hcl => tok0_ok cat (2 + i + 2) (2 + i + 2) rest (by omega) (by omega) (by omega) (clip_le _)
            (by rcases hcl with rfl | rfl
                · exact catLit_ok (by decide)
                · exact catComment_ok (clip_pos (by omega)))
        by_cases hcn : contains ((rest.drop 2).take (2 + i + 1 - 2)) [47, 42] = true
        · simp only [hcn, ↓reduceIte]
          simpa [bind, Except.bind, pure, Except.pure] using fin 88 (Or.inl rfl)
        · simp only [hcn, Bool.false_eq_true, ↓reduceIte, h2, at'_ok h2]
          have := fin (if (rest[2] == 33) = true then 88 else 99) (by split <;> simp)
          simpa [bind, Except.bind, pure, Except.pure] using this
    · exact parseOperator1_ok rest h

theorem parseOperator2_ok (rest : Bytes) (h : rest ≠ []) : Lexes rest (parseOperator2 rest) := by
  have hl := length_pos_of_ne_nil h
  unfold parseOperator2
  simp only [g, andM, toBool, byteIs, bind, Except.bind, pure, Except.pure]
  by_cases h1 : 1 ≥ rest.length
  · simp only [h1, ↓reduceIte]
    exact parseOperator1_ok rest h
  · simp only [h1, ↓reduceIte]
    have h2 : 2 ≤ rest.length := by omega
    have h0 : 0 < rest.length := by omega
    have fin3 : 2 < rest.length → Lexes rest (do return { tok := ← assign {} 111 0 3 rest, next := 3 }) :=
      fun h3 => tok0_ok 111 3 3 rest (by omega) (by omega) (by omega) (clip_le _)
    have tail : Lexes rest (
        if (searchKeyword ((rest.drop 0).take (2 - 0)) != 0) = true then
          (do return { tok := ← assign {} (searchKeyword ((rest.drop 0).take (2 - 0))) 0 2 rest, next := 2 })
        else if (rest[0] == 58) = true then (do return { tok := ← assign {} 58 0 1 rest, next := 1 })
        else parseOperator1 rest) := by
      split
      · rename_i hsk
        refine tok0_ok _ 2 2 rest h2 (by omega) h2 (clip_le _) ?_
        rcases searchKeyword_cases ((rest.drop 0).take (2 - 0)) with h0 | ⟨hcl, _, _⟩
        · rw [h0] at hsk; simp at hsk
        · exact ⟨Or.inr hcl, (fun _ => by decide), (fun _ => by decide)⟩
      · split
        · exact one_byte_ok 58 rest h
        · exact parseOperator1_ok rest h
    by_cases h3 : 2 < rest.length
    · simp only [h3, decide_true, ↓reduceIte, at'_ok h0, at'_ok (show 1 < rest.length by omega), at'_ok h3,
        slice_ok rest 0 2 (by omega) h2]
      cases hb0 : rest[0] == 60 <;> cases hb1 : rest[1] == 61 <;> cases hb2 : rest[2] == 62 <;>
        simp only [hb0, hb1, hb2, Bool.false_eq_true, ↓reduceIte] <;>
        first
        | (simpa [bind, Except.bind, pure, Except.pure] using fin3 h3)
        | (simpa [bind, Except.bind, pure, Except.pure] using tail)
    · simp only [h3, decide_false, Bool.false_eq_true, ↓reduceIte, at'_ok h0, slice_ok rest 0 2 (by omega) h2]
      simpa [bind, Except.bind, pure, Except.pure] using tail

theorem parseXBString_ok (digits : Bytes) (rest : Bytes) (c : UInt8) (h0 : rest[0]? = some c) (hc : notWordAccept c = true) :
    Lexes rest (parseXBString digits rest) := by
  have hl := first_lt h0
  have word := parseWord_ok rest c h0 hc
  unfold parseXBString
  simp only [g, orM, toBool, byteNe, bind, Except.bind, pure, Except.pure]
  by_cases h2 : 2 ≥ rest.length
  · simp only [h2, decide_true, ↓reduceIte]; exact word
  · simp only [h2, decide_false, Bool.false_eq_true, ↓reduceIte, at'_ok (show 1 < rest.length by omega)]
    cases hb : rest[1] != 39 <;> simp only [hb, Bool.false_eq_true, ↓reduceIte]
    · simp only [sliceFrom_ok rest 2 (by omega)]
      have hs := spn_le (mem digits) (rest.drop 2)
      rw [List.length_drop] at hs
      generalize spn (mem digits) (rest.drop 2) = length at hs ⊢
      by_cases h3 : 2 + length ≥ rest.length
      · simp only [h3, decide_true, ↓reduceIte]; exact word
      · simp only [h3, decide_false, Bool.false_eq_true, ↓reduceIte, at'_ok (show 2 + length < rest.length by omega)]
        cases hb2 : rest[2 + length] != 39 <;> simp only [hb2, Bool.false_eq_true, ↓reduceIte]
        · exact tok0_ok 49 (length + 3) (2 + length + 1) rest (by omega) (by omega) (by omega) (by have := clip_le (length + 3); omega)
        · exact word
    · exact word

/-- `assign` at an offset `p` of `rest` with the tail as value -/
theorem tokp_ok (t : Token) (cat : UInt8) (p length next : Nat) (rest : Bytes) (h1 : p + length ≤ rest.length)
    (hn1 : 1 ≤ next) (hn2 : next ≤ rest.length) (hn3 : p + clip length ≤ next) (hcat : CatV cat (clip length) := by cat_lit) :
    Lexes rest (do return { tok := ← assign t cat p length (rest.drop p), next := next }) := by
  have := assign_lex t cat p length rest next h1 hn1 hn2 hn3
    (fun t' => { tok := t', next := next }) (fun t' => ⟨rfl, rfl, rfl, rfl, rfl⟩) hcat
  simpa using this

theorem parseVar_ok (rest : Bytes) (h : rest ≠ []) : Lexes rest (parseVar rest) := by
  have hl := length_pos_of_ne_nil h
  unfold parseVar
  simp only []
  -- the two shapes of (p, count)
  have key : ∀ (p count : Nat), 1 ≤ p → p ≤ rest.length →
      Lexes rest (
        if p < rest.length then do
          let c ← at' rest p
          if c == 96 then
            let r ← parseTick { count := count } (← sliceFrom rest p)
            return shift { r with tok := { r.tok with cat := 118 } } p
          else if c == 39 || c == 34 then
            let r ← parseString { count := count } (← sliceFrom rest p)
            return shift { r with tok := { r.tok with cat := 118 } } p
          else
            let tail ← sliceFrom rest p
            let length := spn notVarAccept tail
            return { tok := ← assign { count := count } 118 p length tail, next := p + length }
        else do
          let tail ← sliceFrom rest p
          return { tok := ← assign { count := count } 118 p 0 tail, next := p }) := by
    intro p count hp1 hp2
    by_cases hlt : p < rest.length
    · simp only [hlt, ↓reduceIte, at'_ok hlt, sliceFrom_ok rest p hp2, bind, Except.bind, pure, Except.pure]
      have hdne : rest.drop p ≠ [] := by
        intro hn; have := congrArg List.length hn; simp at this; omega
      split
      · obtain ⟨r, h1, h2⟩ := parseTick_ok { count := count } (rest.drop p) hdne
        simp only [h1]
        have h3 : LexOK (rest.drop p) { r with tok := { r.tok with cat := 118 } } := h2.retag { r.tok with cat := 118 } rfl rfl rfl r.ddx r.hash (Or.inr (show CatV 118 r.tok.len from catLit_ok (by decide)))
        exact ⟨_, rfl, LexOK.shift hp2 h3⟩
      · split
        · rename_i hq
          have hq0 : (rest.drop p)[0]? = some rest[p] := by simp [List.getElem?_drop, List.getElem?_eq_getElem hlt]
          have hne92 : rest[p] ≠ 92 := by
            intro h92; rw [h92] at hq; simp at hq
          obtain ⟨r, h1, h2, _⟩ := parseString_ok { count := count } (rest.drop p) rest[p] hq0 hne92
          simp only [h1]
          have h3 : LexOK (rest.drop p) { r with tok := { r.tok with cat := 118 } } := h2.retag { r.tok with cat := 118 } rfl rfl rfl r.ddx r.hash (Or.inr (show CatV 118 r.tok.len from catLit_ok (by decide)))
          exact ⟨_, rfl, LexOK.shift hp2 h3⟩
        · have hs := spn_le notVarAccept (rest.drop p)
          rw [List.length_drop] at hs
          generalize spn notVarAccept (rest.drop p) = length at hs ⊢
          have := tokp_ok { count := count } 118 p length (p + length) rest (by omega) (by omega) (by omega) (by have := clip_le length; omega)
          simpa [bind, Except.bind, pure, Except.pure] using this
    · simp only [hlt, ↓reduceIte, sliceFrom_ok rest p hp2, bind, Except.bind, pure, Except.pure]
      have := tokp_ok { count := count } 118 p 0 p rest (by omega) hp1 hp2 (by have := clip_le 0; omega)
      simpa [bind, Except.bind, pure, Except.pure] using this
  by_cases hat : (decide (1 < rest.length) && rest[1]? == some 64) = true
  · have h2 : 2 ≤ rest.length := by
      simp only [Bool.and_eq_true, decide_eq_true_eq] at hat; omega
    simp only [hat, ↓reduceIte]
    exact key 2 2 (by omega) h2
  · simp only [hat, Bool.false_eq_true, ↓reduceIte]
    exact key 1 1 (by omega) hl

theorem parseQStringCore_ok (rest : Bytes) (offset : Nat) (c : UInt8) (h0 : rest[0]? = some c) (hc : notWordAccept c = true) :
    Lexes rest (parseQStringCore rest offset) := by
  have hl := first_lt h0
  have word := parseWord_ok rest c h0 hc
  unfold parseQStringCore
  simp only [bind, Except.bind, pure, Except.pure]
  by_cases hp : offset ≥ rest.length
  · simp only [hp, ↓reduceIte]; exact word
  · have hlt : offset < rest.length := by omega
    simp only [hp, ↓reduceIte, at'_ok hlt]
    by_cases hq : (rest[offset] != 113 && rest[offset] != 81) = true
    · simp only [hq, ↓reduceIte]; exact word
    · simp only [hq, Bool.false_eq_true, ↓reduceIte]
      by_cases hp2 : offset + 2 ≥ rest.length
      · simp only [hp2, ↓reduceIte]; exact word
      · simp only [hp2, ↓reduceIte, at'_ok (show offset + 1 < rest.length by omega)]
        cases hb : rest[offset + 1] != 39 <;> simp only [hb, Bool.false_eq_true, ↓reduceIte]
        · simp only [at'_ok (show offset + 2 < rest.length by omega)]
          split
          · exact word
          · simp only [sliceFrom_ok rest (offset + 3) (by omega)]
            cases hi : indexOf (rest.drop (offset + 3)) [qClose rest[offset + 2], 39] with
            | none =>
              simp only []
              have := tokp_ok {} 115 (offset + 3) (rest.length - offset - 3) rest.length rest (by omega) (by omega) (Nat.le_refl _)
                (by have := clip_le (rest.length - offset - 3); omega)
              obtain ⟨r, hr, hok⟩ := this
              cases ha : assign {} 115 (offset + 3) (rest.length - offset - 3) (rest.drop (offset + 3)) with
              | error e => simp [ha, bind, Except.bind] at hr
              | ok t =>
                simp only [ha, bind, Except.bind, pure, Except.pure, Except.ok.injEq] at hr
                subst hr
                exact ⟨_, rfl, hok.retag _ rfl rfl rfl 0 0 (Or.inl rfl)⟩
            | some i =>
              have hle := indexOf_le hi
              rw [List.length_drop] at hle
              have hpre := ((indexOf_some_iff _ _ _).mp hi).2.1
              have hi2 : i + 2 ≤ rest.length - (offset + 3) := by
                have := isPrefix_length _ _ hpre
                simp at this; omega
              simp only []
              have := tokp_ok {} 115 (offset + 3) i (offset + 3 + i + 2) rest (by omega) (by omega) (by omega)
                (by have := clip_le i; omega)
              obtain ⟨r, hr, hok⟩ := this
              cases ha : assign {} 115 (offset + 3) i (rest.drop (offset + 3)) with
              | error e => simp [ha, bind, Except.bind] at hr
              | ok t =>
                simp only [ha, bind, Except.bind, pure, Except.pure, Except.ok.injEq] at hr
                subst hr
                exact ⟨_, rfl, hok.retag _ rfl rfl rfl 0 0 (Or.inl rfl)⟩
        · exact word

theorem parseNqString_ok (rest : Bytes) (c : UInt8) (h0 : rest[0]? = some c) (hc : notWordAccept c = true) :
    Lexes rest (parseNqString rest) := by
  unfold parseNqString
  simp only [g, andM, toBool, byteIs, bind, Except.bind, pure, Except.pure]
  by_cases h2 : 2 < rest.length
  · simp only [h2, decide_true, ↓reduceIte, at'_ok (show 1 < rest.length by omega)]
    split
    · exact parseEString_ok rest c h0 hc
    · exact parseQStringCore_ok rest 1 c h0 hc
  · simp only [h2, decide_false, Bool.false_eq_true, ↓reduceIte]
    exact parseQStringCore_ok rest 1 c h0 hc

theorem notWordAccept_36 : notWordAccept 36 = true := by decide

/-- re-tag the token of a successful `assign … ; return {tok := {t with …}, next}` step -/
theorem tokp_retag_ok (cat : UInt8) (p length next : Nat) (rest : Bytes) (f : Token → Token)
    (hf : ∀ t, (f t).pos = t.pos ∧ (f t).len = t.len ∧ (f t).val = t.val ∧ (f t).cat = t.cat)
    (h1 : p + length ≤ rest.length) (hn1 : 1 ≤ next) (hn2 : next ≤ rest.length) (hn3 : p + clip length ≤ next)
    (hcat : CatV cat (clip length) := by cat_lit) :
    Lexes rest (do let t ← assign {} cat p length (rest.drop p); return { tok := f t, next := next }) := by
  obtain ⟨r, hr, hok⟩ := tokp_ok {} cat p length next rest h1 hn1 hn2 hn3 hcat
  cases ha : assign {} cat p length (rest.drop p) with
  | error e => simp [ha, bind, Except.bind] at hr
  | ok t =>
    simp only [ha, bind, Except.bind, pure, Except.pure, Except.ok.injEq] at hr ⊢
    subst hr
    obtain ⟨f1, f2, f3, f4⟩ := hf t
    exact ⟨_, rfl, hok.retag _ f1 f2 f3 0 0 (Or.inl f4)⟩

theorem parseMoney_ok (rest : Bytes) (h0 : rest[0]? = some 36) : Lexes rest (parseMoney rest) := by
  have hl := first_lt h0
  have dollar1 : Lexes rest (do return { tok := ← assign {} 110 0 1 [36], next := 1 }) := by
    have := const_byte_ok 110 36 rest h0 (fun r => r) (fun r => ⟨rfl, rfl⟩)
    simpa using this
  unfold parseMoney
  simp only [bind, Except.bind, pure, Except.pure]
  by_cases h1 : (1 == rest.length) = true
  · have : rest.length = 1 := by simp at h1; omega
    simp only [h1, ↓reduceIte, this]
    simpa [bind, Except.bind, pure, Except.pure] using dollar1
  · have h2 : 2 ≤ rest.length := by simp at h1; omega
    simp only [h1, Bool.false_eq_true, ↓reduceIte, sliceFrom_ok rest 1 (by omega)]
    have hs := spn_le isMoneyChar (rest.drop 1)
    rw [List.length_drop] at hs
    generalize spn isMoneyChar (rest.drop 1) = length at hs ⊢
    by_cases hz : (length == 0) = true
    · simp only [hz, ↓reduceIte, at'_ok (show 1 < rest.length by omega)]
      split
      · -- $$ string
        simp only [sliceFrom_ok rest 2 h2]
        cases hi : indexOf (rest.drop 2) [36, 36] with
        | none =>
          simp only []
          have := tokp_retag_ok 115 2 (rest.length - 2) rest.length rest (fun t => { t with strOpen := 36, strClose := 0 })
            (fun t => ⟨rfl, rfl, rfl, rfl⟩) (by omega) (by omega) (Nat.le_refl _) (by have := clip_le (rest.length - 2); omega)
          simpa [bind, Except.bind, pure, Except.pure] using this
        | some i =>
          have hpre := ((indexOf_some_iff _ _ _).mp hi).2.1
          have hi2 : i + 2 ≤ rest.length - 2 := by
            have := isPrefix_length _ _ hpre
            have hle := indexOf_le hi
            simp at this hle; omega
          simp only []
          have := tokp_retag_ok 115 2 i (2 + i + 2) rest (fun t => { t with strOpen := 36, strClose := 36 })
            (fun t => ⟨rfl, rfl, rfl, rfl⟩) (by omega) (by omega) (by omega) (by have := clip_le i; omega)
          simpa [bind, Except.bind, pure, Except.pure] using this
      · have hx := spn_le isLetter (rest.drop 1)
        rw [List.length_drop] at hx
        generalize spn isLetter (rest.drop 1) = xlen at hx ⊢
        by_cases hxz : (xlen == 0) = true
        · simp only [hxz, ↓reduceIte]
          simpa [bind, Except.bind, pure, Except.pure] using dollar1
        · simp only [hxz, Bool.false_eq_true, ↓reduceIte, g, orM, toBool, byteNe, bind, Except.bind, pure, Except.pure]
          by_cases hedge : (xlen + 1 == rest.length) = true
          · simp only [hedge, ↓reduceIte]
            simpa [bind, Except.bind, pure, Except.pure] using dollar1
          · have hlt : xlen + 1 < rest.length := by simp at hedge; omega
            simp only [hedge, Bool.false_eq_true, ↓reduceIte, at'_ok hlt]
            cases hb : rest[xlen + 1] != 36 <;> simp only [hb, Bool.false_eq_true, ↓reduceIte]
            · simp only [sliceFrom_ok rest (xlen + 2) (by omega), slice_ok rest 0 (xlen + 2) (by omega) (by omega)]
              cases hi : indexOf (rest.drop (xlen + 2)) ((rest.drop 0).take (xlen + 2 - 0)) with
              | none =>
                simp only []
                have := tokp_retag_ok 115 (xlen + 2) (rest.length - xlen - 2) rest.length rest (fun t => { t with strOpen := 36, strClose := 0 })
                  (fun t => ⟨rfl, rfl, rfl, rfl⟩) (by omega) (by omega) (Nat.le_refl _) (by have := clip_le (rest.length - xlen - 2); omega)
                simpa [bind, Except.bind, pure, Except.pure] using this
              | some i =>
                have hpre := ((indexOf_some_iff _ _ _).mp hi).2.1
                have hi2 : i + (xlen + 2) ≤ rest.length - (xlen + 2) := by
                  have := isPrefix_length _ _ hpre
                  have hle := indexOf_le hi
                  simp at this hle; omega
                simp only []
                have := tokp_retag_ok 115 (xlen + 2) i (xlen + 2 + i + xlen + 2) rest (fun t => { t with strOpen := 36, strClose := 36 })
                  (fun t => ⟨rfl, rfl, rfl, rfl⟩) (by omega) (by omega) (by omega) (by have := clip_le i; omega)
                simpa [bind, Except.bind, pure, Except.pure] using this
            · simpa [bind, Except.bind, pure, Except.pure] using dollar1
    · simp only [hz, Bool.false_eq_true, ↓reduceIte, g, andM, toBool, byteIs, bind, Except.bind, pure, Except.pure]
      have num : Lexes rest (do return { tok := ← assign {} 49 0 (length + 1) rest, next := length + 1 }) :=
        tok0_ok 49 (length + 1) (length + 1) rest (by omega) (by omega) (by omega) (clip_le _)
      by_cases h11 : (length == 1) = true
      · simp only [h11, ↓reduceIte, at'_ok (show 1 < rest.length by omega)]
        split
        · exact parseWord_ok rest 36 h0 notWordAccept_36
        · simpa [bind, Except.bind, pure, Except.pure] using num
      · simp only [h11, Bool.false_eq_true, ↓reduceIte]
        simpa [bind, Except.bind, pure, Except.pure] using num

theorem isDigit_46 : isDigit 46 = false := by decide

theorem numPrefixed_ok (ds rest : Bytes) (h2 : 2 ≤ rest.length) : Lexes rest (numPrefixed ds rest) := by
  unfold numPrefixed
  simp only [sliceFrom_ok rest 2 h2, bind, Except.bind, pure, Except.pure]
  have hs := spn_le (mem ds) (rest.drop 2)
  rw [List.length_drop] at hs
  generalize spn (mem ds) (rest.drop 2) = k at hs ⊢
  split
  · have := tok0_ok 110 2 2 rest h2 (by omega) h2 (clip_le _)
    simpa [bind, Except.bind, pure, Except.pure] using this
  · have := tok0_ok 49 (2 + k) (2 + k) rest (by omega) (by omega) (by omega) (clip_le _)
    simpa [bind, Except.bind, pure, Except.pure] using this

theorem numDigitSet_ok (rest : Bytes) (c0 : UInt8) :
    ∃ od, numDigitSet rest c0 = .ok od ∧ (od.isSome = true → 2 ≤ rest.length) := by
  unfold numDigitSet
  by_cases hcnd : (c0 == 48 && decide (1 < rest.length)) = true
  · have h1 : 1 < rest.length := by
      simp only [Bool.and_eq_true, decide_eq_true_eq] at hcnd; exact hcnd.2
    simp only [hcnd, ↓reduceIte, at'_ok h1, bind, Except.bind, pure, Except.pure]
    split
    · exact ⟨_, rfl, fun _ => by omega⟩
    · split
      · exact ⟨_, rfl, fun _ => by omega⟩
      · exact ⟨_, rfl, fun h => by simp at h⟩
  · simp only [hcnd, Bool.false_eq_true, ↓reduceIte, pure, Except.pure]
    exact ⟨_, rfl, fun h => by simp at h⟩

theorem numDot_ok (rest : Bytes) (pos : Nat) (hp : pos ≤ rest.length) :
    ∃ p1 d, numDot rest pos = .ok (p1, d) ∧ pos ≤ p1 ∧ p1 ≤ rest.length ∧
      (d = true → p1 = 1 ∧ pos = 0 ∧ rest[0]? = some 46) ∧ (p1 = pos ∨ (pos < rest.length ∧ rest[pos]? = some 46 ∧ pos < p1)) := by
  unfold numDot
  simp only [g, andM, toBool, byteIs, bind, Except.bind, pure, Except.pure]
  by_cases hlt : pos < rest.length
  · simp only [hlt, decide_true, ↓reduceIte, at'_ok hlt]
    by_cases hdot : (rest[pos] == 46) = true
    · simp only [hdot, ↓reduceIte, sliceFrom_ok rest (pos + 1) (by omega)]
      have hk := spn_le isDigit (rest.drop (pos + 1))
      rw [List.length_drop] at hk
      generalize spn isDigit (rest.drop (pos + 1)) = k1 at hk ⊢
      have h46 : rest[pos]? = some 46 := by
        rw [List.getElem?_eq_getElem hlt]; simpa using hdot
      refine ⟨_, _, rfl, by omega, by omega, ?_, Or.inr ⟨trivial, h46, by omega⟩⟩
      intro hd
      have h1 : pos + 1 + k1 = 1 := by simpa using hd
      have hp0 : pos = 0 := by omega
      subst hp0
      exact ⟨h1, rfl, h46⟩
    · simp only [hdot, Bool.false_eq_true, ↓reduceIte]
      exact ⟨_, _, rfl, Nat.le_refl _, hp, by simp, Or.inl rfl⟩
  · simp only [hlt, decide_false, Bool.false_eq_true, ↓reduceIte]
    exact ⟨_, _, rfl, Nat.le_refl _, hp, by simp, Or.inl rfl⟩

theorem numExp_ok (rest : Bytes) (pos : Nat) (hp : pos ≤ rest.length) :
    ∃ p2 e x, numExp rest pos = .ok (p2, e, x) ∧ pos ≤ p2 ∧ p2 ≤ rest.length := by
  unfold numExp
  simp only [bind, Except.bind, pure, Except.pure]
  by_cases hlt : pos < rest.length
  · simp only [hlt, ↓reduceIte, at'_ok hlt]
    split
    · by_cases hlt2 : pos + 1 < rest.length
      · simp only [hlt2, ↓reduceIte, at'_ok hlt2]
        by_cases hsg : (rest[pos + 1] == 43 || rest[pos + 1] == 45) = true
        · simp only [hsg, ↓reduceIte, sliceFrom_ok rest (pos + 1 + 1) (by omega)]
          have hk := spn_le isDigit (rest.drop (pos + 1 + 1))
          rw [List.length_drop] at hk
          exact ⟨_, _, _, rfl, by omega, by omega⟩
        · simp only [hsg, Bool.false_eq_true, ↓reduceIte, sliceFrom_ok rest (pos + 1) (by omega)]
          have hk := spn_le isDigit (rest.drop (pos + 1))
          rw [List.length_drop] at hk
          exact ⟨_, _, _, rfl, by omega, by omega⟩
      · simp only [hlt2, ↓reduceIte, sliceFrom_ok rest (pos + 1) (by omega)]
        have hk := spn_le isDigit (rest.drop (pos + 1))
        rw [List.length_drop] at hk
        exact ⟨_, _, _, rfl, by omega, by omega⟩
    · exact ⟨_, _, _, rfl, Nat.le_refl _, hp⟩
  · simp only [hlt, ↓reduceIte]
    exact ⟨_, _, _, rfl, Nat.le_refl _, hp⟩

theorem numSuffix_ok (rest : Bytes) (pos : Nat) (hp : pos ≤ rest.length) :
    ∃ p3, numSuffix rest pos = .ok p3 ∧ pos ≤ p3 ∧ p3 ≤ rest.length := by
  unfold numSuffix
  simp only [bind, Except.bind, pure, Except.pure]
  by_cases hlt : pos < rest.length
  · simp only [hlt, ↓reduceIte, at'_ok hlt]
    split
    · split
      · exact ⟨_, rfl, by omega, by omega⟩
      · rename_i hne
        have hlt2 : pos + 1 < rest.length := by
          have : ¬ (pos + 1 = rest.length) := by simpa using hne
          omega
        simp only [at'_ok hlt2]
        split
        · exact ⟨_, rfl, by omega, by omega⟩
        · split
          · exact ⟨_, rfl, by omega, by omega⟩
          · exact ⟨_, rfl, Nat.le_refl _, hp⟩
    · exact ⟨_, rfl, Nat.le_refl _, hp⟩
  · simp only [hlt, ↓reduceIte]
    exact ⟨_, rfl, Nat.le_refl _, hp⟩

/-- `parseNumber` on an input that starts with a digit or a `.` -/
theorem parseNumber_ok (rest : Bytes) (c : UInt8) (h0 : rest[0]? = some c) (hc : isDigit c = true ∨ c = 46) :
    Lexes rest (parseNumber rest) := by
  have hl := first_lt h0
  have hc0 : rest[0] = c := by simpa [List.getElem?_eq_getElem hl] using h0
  unfold parseNumber
  obtain ⟨od, hds, hds2⟩ := numDigitSet_ok rest c
  simp only [at'_ok hl, hc0, hds, bind, Except.bind, pure, Except.pure]
  cases od with
  | some ds => exact numPrefixed_ok ds rest (hds2 rfl)
  | none =>
    have hp0 := spn_le isDigit rest
    obtain ⟨p1, d, h1, a1, a2, a3, a4⟩ := numDot_ok rest (spn isDigit rest) hp0
    simp only [h1]
    -- after the dot stage at least one byte has been read
    have hp1 : 1 ≤ p1 := by
      rcases hc with hc | hc
      · have := spn_pos isDigit rest c h0 hc; omega
      · rcases a4 with a4 | a4
        · -- no dot found although the first byte is a dot: impossible
          have hz : spn isDigit rest = 0 := by
            cases rest with
            | nil => simp at hl
            | cons x xs => simp at hc0; subst hc0; subst hc; simp [spn, isDigit_46]
          exfalso
          have hnd := numDot_ok rest 0 (by omega)
          rw [hz] at h1 a4
          unfold numDot at h1
          simp [g, andM, toBool, byteIs, bind, Except.bind, pure, Except.pure, hl, at'_ok hl, hc0, hc, sliceFrom_ok rest 1 (by omega)] at h1
          omega
        · omega
    cases d with
    | true =>
      obtain ⟨b1, b2, b3⟩ := a3 rfl
      simp only [↓reduceIte]
      have := const_byte_ok 46 46 rest b3 (fun r => r) (fun r => ⟨rfl, rfl⟩)
      rw [b1]
      simpa [bind, Except.bind, pure, Except.pure] using this
    | false =>
      simp only [Bool.false_eq_true, ↓reduceIte]
      obtain ⟨p2, e, x, h2, c1, c2⟩ := numExp_ok rest p1 a2
      obtain ⟨p3, h3, d1, d2⟩ := numSuffix_ok rest p2 c2
      simp only [h2, h3]
      split
      · have := tok0_ok 110 p3 p3 rest d2 (by omega) d2 (clip_le _)
        simpa [bind, Except.bind, pure, Except.pure] using this
      · have := tok0_ok 49 p3 p3 rest d2 (by omega) d2 (clip_le _)
        simpa [bind, Except.bind, pure, Except.pure] using this

/-- what the dispatch table guarantees about the first byte handed to each lexer -/
def dispatchFact (c : UInt8) : Bool :=
  match dispatch c with
  | .hash => c == 35
  | .dash => c == 45
  | .money => c == 36
  | .string => c != 92
  | .word | .ustring | .qstring | .nqstring | .xstring | .bstring | .estring => notWordAccept c
  | .number => isDigit c || c == 46
  | .unknown => false
  | .byte => isClassU8 c && c != 102 && c != 99
  | _ => true

/-- table fact, re-checked against the regenerated dispatch table on every build -/
theorem dispatch_facts_table : (List.range 256).all (fun n => dispatchFact n.toUInt8) = true := by decide +kernel

theorem dispatch_facts (c : UInt8) : dispatchFact c = true := by
  have h := List.all_eq_true.mp dispatch_facts_table c.toNat (List.mem_range.mpr c.toNat_lt)
  simpa using h

/-- **every lexer, reached through the dispatch table, returns and makes progress** -/
theorem runP_ok (flags : Nat) (rest : Bytes) (c : UInt8) (h0 : rest[0]? = some c) :
    Lexes rest (runP flags rest (dispatch c)) := by
  have hne := ne_nil_of_first h0
  have hf := dispatch_facts c
  unfold dispatchFact at hf
  unfold runP
  cases hd : dispatch c <;> simp only [hd] at hf ⊢
  case white => exact parseWhite_ok rest hne
  case op1 => exact parseOperator1_ok rest hne
  case op2 => exact parseOperator2_ok rest hne
  case other => exact parseOther_ok rest hne
  case byte =>
    have hcl : CatLit c := by
      simp only [Bool.and_eq_true, bne_iff_ne, ne_eq] at hf
      exact ⟨Or.inr hf.1.1, hf.1.2, hf.2⟩
    exact parseByte_ok rest c h0 hcl
  case hash => have : c = 35 := by simpa using hf
               subst this; exact parseHash_ok flags rest h0
  case dash => have : c = 45 := by simpa using hf
               subst this; exact parseDash_ok flags rest h0
  case slash => exact parseSlash_ok rest hne
  case backslash => exact parseBackSlash_ok rest hne
  case string =>
    have : c ≠ 92 := by simpa using hf
    obtain ⟨r, h1, h2, _⟩ := parseString_ok {} rest c h0 this
    exact ⟨r, h1, h2⟩
  case word => exact parseWord_ok rest c h0 hf
  case var => exact parseVar_ok rest hne
  case number =>
    have : isDigit c = true ∨ c = 46 := by simpa using hf
    exact parseNumber_ok rest c h0 this
  case tick => exact parseTick_ok {} rest hne
  case ustring => exact parseUString_ok rest c h0 hf
  case qstring => exact parseQStringCore_ok rest 0 c h0 hf
  case nqstring => exact parseNqString_ok rest c h0 hf
  case xstring => exact parseXBString_ok _ rest c h0 hf
  case bstring => exact parseXBString_ok _ rest c h0 hf
  case estring => exact parseEString_ok rest c h0 hf
  case bword => exact parseBWord_ok rest hne
  case money => have : c = 36 := by simpa using hf
                subst this; exact parseMoney_ok rest h0
  case unknown => cases hf

end LibInj.Sqli
