import LibInj.Proofs.FoldRules
set_option linter.unusedSimpArgs false
set_option linter.unusedVariables false
/-! Safety of `fold`, part 5: one iteration of the main loop, termination of the loop, the leading
skip loop, `fold` (C01). -/
namespace LibInj.Sqli
open LibInj

theorem maxTokens_eq : maxTokens = 5 := rfl

/-- what one iteration of the main loop guarantees -/
def BodyOK (f : FS) : Step → Prop
  | .cont f' => FInv f' ∧ f'.s.input = f.s.input ∧ (XInv f → XInv f') ∧ f.more = true ∧ f.s.pos ≤ f'.s.pos ∧
      (f'.more = false ∨ bigM f' < bigM f)
  | .brk f' => FInv f' ∧ f'.s.input = f.s.input ∧ (XInv f → XInv f')
  | .ret n f' => FInv f' ∧ f'.s.input = f.s.input ∧ (XInv f → XInv f') ∧ n ≤ 7

theorem bigM_reset (f : FS) : bigM { f with left := f.pos } + 2 * (f.pos - f.left) = bigM f := by
  unfold bigM mu
  show (f.s.input.length - f.s.pos) * 1015 + f.pos * 145 + (phi f.s.tv f.pos + 2 * (f.pos - f.pos)) + 2 * (f.pos - f.left) = _
  omega

theorem xinv_left (f : FS) (l : Nat) (h : XInv f) : XInv { f with left := l } := h

/-- a finished stage seen from the start of the iteration -/
theorem body_of_step (f g : FS) (st : Step) (hin : g.s.input = f.s.input) (hx : XInv f → XInv g) (hsp : f.s.pos ≤ g.s.pos)
    (hmore : f.more = true) (hm : g.more = false ∨ bigM g ≤ bigM f) (hp6 : g.pos ≤ 6)
    (hok : StepOK g.s.input st) (hrel : StepRel g st) : BodyOK f st := by
  cases st with
  | cont f' =>
    obtain ⟨hev, hlt⟩ := hrel
    refine ⟨hok.1, by rw [hok.2]; exact hin, fun h => xinv_evol hev (hx h), hmore, by rw [hev.2.1]; exact hsp, ?_⟩
    rcases hm with hm | hm
    · left; rw [hev.2.2.2.2.1]; exact hm
    · right
      have := bigM_lt_of_Lt g f' hev hlt hok.1.2.2.1
      omega
  | brk f' => exact ⟨hok.1, by rw [hok.2]; exact hin, fun h => xinv_evol hrel (hx h)⟩
  | ret n f' => exact ⟨hok.1, by rw [hok.2.1]; exact hin, fun h => xinv_evol hrel (hx h), hok.2.2⟩

set_option maxHeartbeats 1000000 in
/-- **one iteration of the main loop never errs, keeps the invariants, and — when it asks for another
iteration — has lowered the measure or ended the input** -/
theorem foldBody_ok (f : FS) (hf : FInv f) : ∃ st, foldBody f = .ok st ∧ BodyOK f st := by
  unfold foldBody
  obtain ⟨f1, h1, hf1, hev1, hd1, _⟩ := foldSpecial_ok' f hf
  have hi1 := hev1.1
  have hm1 : f1.more = f.more := hev1.2.2.2.2.1
  have hx1 : XInv f → XInv f1 := fun h => xinv_evol hev1 h
  have hb1 : bigM f1 ≤ bigM f := by
    apply bigM_le_of_Le f f1 hev1 _ hf1.2.2.1
    rcases hd1 with h | h
    · rw [h]; exact Or.inr ⟨rfl, Nat.le_refl _⟩
    · exact Or.inl h
  simp only [h1, bind, Except.bind, pure, Except.pure]
  by_cases cb : (!f1.more || decide (f1.left ≥ maxTokens)) = true
  · rw [if_pos cb]
    exact ⟨_, rfl, ⟨hf1.1, Nat.le_refl _, hf1.2.2.1, hf1.2.2.2⟩, hi1, fun h => xinv_left f1 _ (hx1 h)⟩
  rw [if_neg cb]
  have hmore1 : f1.more = true := by
    cases hmm : f1.more with
    | true => rfl
    | false => simp [hmm] at cb
  have hleft1 : f1.left < 5 := by
    have : ¬ (f1.left ≥ maxTokens) := by
      intro h; simp [h] at cb
    rw [maxTokens_eq] at this; omega
  have hmore : f.more = true := by rw [← hm1]; exact hmore1
  obtain ⟨f2, h2, hf2, hl2, hp2, hi2, hsp2, hx2, htri2, _⟩ := fetch_ok' 2 _ f1 hf1 (fetch_fuel_ok f1)
  simp only [h2]
  have hin2 : f2.s.input = f.s.input := by rw [hi2, hi1]
  have hpos2 : f.s.pos ≤ f2.s.pos := by rw [← hev1.2.1]; exact hsp2
  have hxf2 : XInv f → XInv f2 := fun h => hx2 (hx1 h)
  have hb2 : f2.more = false ∨ bigM f2 ≤ bigM f := by
    rcases htri2 with ⟨he, _⟩ | hmf | hsc
    · right; rw [he]; exact hb1
    · left; exact hmf
    · right
      have := bigM_lt_of_scan f1 f2 hi2 hsc hf2.1.2.1 hf2.2.2.1
      omega
  by_cases c2 : f2.pos - f2.left < 2
  · rw [if_pos c2]
    refine ⟨_, rfl, ⟨hf2.1, Nat.le_refl _, hf2.2.2.1, hf2.2.2.2⟩, hin2, fun h => xinv_left f2 _ (hxf2 h), hmore, hpos2, ?_⟩
    rcases htri2 with ⟨he, hnc⟩ | hmf | hsc
    · exfalso
      apply hnc
      unfold fetchCond
      rw [he] at c2
      rw [hmore1, maxTokens_eq]
      have hp5 : f1.pos ≤ 5 := by omega
      simp [hp5, c2]
    · left; exact hmf
    · right
      have := bigM_lt_of_scan f1 f2 hi2 hsc hf2.1.2.1 hf2.2.2.1
      have := bigM_reset f2
      show bigM { f2 with left := f2.pos } < bigM f
      omega
  rw [if_neg c2]
  obtain ⟨r, hr, hrok, hrrel⟩ := foldTwo_ok f2 hf2 (by omega)
  simp only [hr]
  cases r with
  | done st =>
    simp only []
    exact ⟨_, rfl, body_of_step f f2 st hin2 hxf2 hpos2 hmore hb2 hf2.2.2.1 hrok hrrel⟩
  | next f3 =>
    obtain ⟨hf3, hi3, hp3, hl3, hm3, hsp3⟩ := hrok
    obtain ⟨hev3, hle3⟩ := hrrel
    simp only []
    obtain ⟨f4, h4, hf4, hl4, hp4, hi4, hsp4, hx4, htri4, hstay4⟩ := fetch_ok' 3 _ f3 hf3 (fetch_fuel_ok f3)
    simp only [h4]
    have hin4 : f4.s.input = f.s.input := by rw [hi4, hi3, hin2]
    have hpos4 : f.s.pos ≤ f4.s.pos := by
      have : f3.s.pos = f2.s.pos := hsp3
      have : f3.s.pos ≤ f4.s.pos := hsp4
      omega
    have hxf4 : XInv f → XInv f4 := fun h => hx4 (xinv_evol hev3 (hxf2 h))
    have hb3 : bigM f3 ≤ bigM f2 := bigM_le_of_Le f2 f3 hev3 hle3 hf3.2.2.1
    have hb4 : f4.more = false ∨ bigM f4 ≤ bigM f := by
      rcases hb2 with hmf2 | hb2
      · left
        have : f3.more = false := by rw [hm3]; exact hmf2
        rw [hstay4 this]; exact this
      · rcases htri4 with ⟨he, _⟩ | hmf | hsc
        · right; rw [he]; omega
        · left; exact hmf
        · right
          have := bigM_lt_of_scan f3 f4 hi4 hsc hf4.1.2.1 hf4.2.2.1
          omega
    by_cases c3 : f4.pos - f4.left < 3
    · rw [if_pos c3]
      refine ⟨_, rfl, ⟨hf4.1, Nat.le_refl _, hf4.2.2.1, hf4.2.2.2⟩, hin4, fun h => xinv_left f4 _ (hxf4 h), hmore, hpos4, ?_⟩
      rcases hb4 with hmf | hb4
      · left; exact hmf
      · rcases htri4 with ⟨he, _⟩ | hmf | hsc
        · right
          have hr4 := bigM_reset f4
          have : 2 ≤ f4.pos - f4.left := by rw [he, hp3]; omega
          show bigM { f4 with left := f4.pos } < bigM f
          omega
        · left; exact hmf
        · rcases hb2 with hmf2 | hb2
          · left
            have : f3.more = false := by rw [hm3]; exact hmf2
            rw [hstay4 this]; exact this
          · right
            have := bigM_lt_of_scan f3 f4 hi4 hsc hf4.1.2.1 hf4.2.2.1
            have := bigM_reset f4
            show bigM { f4 with left := f4.pos } < bigM f
            omega
    rw [if_neg c3]
    obtain ⟨st, hst, hstok, hstrel⟩ := foldThree_ok f4 hf4 (by omega)
    exact ⟨st, hst, body_of_step f f4 st hin4 hxf4 hpos4 hmore hb4 hf4.2.2.1 hstok hstrel⟩

end LibInj.Sqli

namespace LibInj.Sqli
open LibInj

/-- what `notWhitelist` needs from the final scanner state -/
def XFin (s : State) : Prop :=
  s.toks ≤ 2 → ∀ t ∈ s.tv, isNum t → (∃ u ∈ s.tv, u.cat = 99) → Wit s.input (t.pos + t.len)

theorem xfin_of_xinv (f : FS) (h : XInv f) : XFin f.s := by
  intro htk t ht hn ⟨u, hu, h99⟩
  exact (h.2.2 htk t ht hn).2 ⟨u, Or.inl hu, h99⟩

/-- fuel that suffices for the main loop from `f` -/
def loopT (f : FS) : Nat := if f.more then bigM f + 1 else 0

/-- **the main loop of `fold` terminates and never errs**: with fuel above the measure it returns a
token count `≤ 7` with the scanner invariants intact -/
theorem foldLoop_ok (fuel : Nat) : ∀ (f : FS), FInv f → loopT f < fuel →
    ∃ n f', foldLoop f fuel = .ok (n, f') ∧ SInv f'.s ∧ f'.s.input = f.s.input ∧ n ≤ 7 ∧ (XInv f → XFin f'.s) := by
  induction fuel with
  | zero => intro f _ h; omega
  | succ fuel ih =>
    intro f hf hfu
    unfold foldLoop
    obtain ⟨st, hst, hok⟩ := foldBody_ok f hf
    simp only [hst, bind, Except.bind, pure, Except.pure]
    cases st with
    | cont f' =>
      simp only []
      obtain ⟨hf', hin', hx', hmore, _, hdec⟩ := hok
      have hfu' : loopT f' < fuel := by
        unfold loopT at hfu ⊢
        rw [hmore] at hfu
        simp only [↓reduceIte] at hfu
        rcases hdec with hd | hd
        · rw [hd]; simp only [Bool.false_eq_true, ↓reduceIte]; omega
        · split <;> omega
      obtain ⟨n, f'', h1, h2, h3, h4, h5⟩ := ih f' hf' hfu'
      exact ⟨n, f'', h1, h2, by rw [h3]; exact hin', h4, fun h => h5 (hx' h)⟩
    | ret n f' =>
      simp only []
      exact ⟨n, f', rfl, hok.1.1, hok.2.1, hok.2.2.2, fun h => xfin_of_xinv f' (hok.2.2.1 h)⟩
    | brk f' =>
      simp only []
      obtain ⟨⟨hs, hlp, hp6, hlc⟩, hin, hx'⟩ := hok
      by_cases ce : (decide (f'.left < maxTokens) && f'.lastComment.cat == 99) = true
      · rw [if_pos ce]
        have hl5 : f'.left < 5 := by simp only [Bool.and_eq_true, maxTokens_eq] at ce; exact of_decide_eq_true ce.1
        have hlc99 : f'.lastComment.cat = 99 := by simp only [Bool.and_eq_true, beq_iff_eq] at ce; exact ce.2
        obtain ⟨s', h1, h2, h3, _⟩ := tvSet_inv f'.s hs f'.left (by omega) f'.lastComment hlc
        simp only [h1]
        refine ⟨_, _, rfl, h2, by rw [← hin]; exact h3, ?_, ?_⟩
        · show (if f'.left + 1 > maxTokens then maxTokens else f'.left + 1) ≤ 7
          rw [maxTokens_eq]; split <;> omega
        · intro hx
          obtain ⟨x1, x2, x3⟩ := hx' hx
          have e := tvSet_eq h1
          show XFin s'
          intro htk t ht hn _
          rw [e] at htk ht ⊢
          have htold : t ∈ f'.s.tv := by
            rcases List.mem_or_eq_of_mem_set ht with h | h
            · exact h
            · rw [h] at hn
              rcases hn with hn | hn <;> (rw [hlc99] at hn; exact absurd hn (by decide))
          exact (x3 htk t htold hn).2 ⟨f'.lastComment, Or.inr rfl, hlc99⟩
      · rw [if_neg ce]
        refine ⟨_, _, rfl, hs, hin, ?_, fun h => xfin_of_xinv f' (hx' h)⟩
        show (if f'.left > maxTokens then maxTokens else f'.left) ≤ 7
        rw [maxTokens_eq]; split <;> omega

/-- the state handed to the main loop by the leading skip loop -/
def SkipPost (s : State) : Prop :=
  1 ≤ s.toks ∧ (∀ u ∈ s.tv, u.cat ≠ 99) ∧ (∀ t ∈ s.tv, isNum t → t.pos + t.len ≤ s.pos)

/-- the leading loop of `fold` is total and keeps the scanner invariant -/
theorem skipLoop_ok (fuel : Nat) : ∀ (s : State), SInv s → s.cur = 0 →
    (∀ j t, j ≠ 0 → s.tv[j]? = some t → t.cat = 0) → s.input.length - s.pos + 1 < fuel →
    ∃ more s', skipLoop s fuel = .ok (more, s') ∧ SInv s' ∧ s'.input = s.input ∧ s'.cur = 0 ∧
      (more = true → SkipPost s') := by
  induction fuel with
  | zero => intro s _ _ _ h; omega
  | succ fuel ih =>
    intro s hs hc hz hfu
    unfold skipLoop
    obtain ⟨more, s', hr, hs', hstep⟩ := tokenize_sinv s hs (by omega)
    have hstep0 := hstep
    obtain ⟨q1, q2, q3, q4, q5, q6, q7, q8, q9, q10, q11, q12, q13⟩ := hstep
    simp only [hr, bind, Except.bind, pure, Except.pure]
    have hz' : ∀ j t, j ≠ 0 → s'.tv[j]? = some t → t.cat = 0 := by
      intro j t hj ht
      rw [q7 j (by rw [hc]; exact hj)] at ht
      exact hz j t hj ht
    cases more with
    | false =>
      simp only [Bool.not_false, ↓reduceIte]
      exact ⟨_, _, rfl, hs', q1, by rw [q3]; exact hc, fun h => by cases h⟩
    | true =>
      simp only [Bool.not_true, Bool.false_eq_true, ↓reduceIte]
      obtain ⟨t, ht, htf⟩ := tvGet_ok s' hs' s'.cur (by rw [q3]; omega)
      obtain ⟨bu, hbu⟩ := isUnaryOp_ok t htf
      simp only [ht, hbu, g, orM, toBool, bind, Except.bind, pure, Except.pure]
      obtain ⟨hadv, t', ht', htc, ⟨_, _, thi, _, _⟩⟩ := q8 rfl
      have htt : t' = t := by
        have := tvGet_some ht
        rw [q3] at this
        rw [ht'] at this
        exact Option.some.inj this
      have hnext : ∃ more s'', skipLoop s' fuel = .ok (more, s'') ∧ SInv s'' ∧ s''.input = s.input ∧ s''.cur = 0 ∧
          (more = true → SkipPost s'') := by
        obtain ⟨m, s'', h1, h2, h3, h4, h5⟩ := ih s' hs' (by rw [q3]; exact hc) hz' (by rw [q1]; omega)
        exact ⟨m, s'', h1, h2, by rw [h3]; exact q1, h4, h5⟩
      have hpost : (t.cat == 99 || t.cat == 40 || t.cat == 116) = false → SkipPost s' := by
        intro hcat
        have hmem : ∀ u ∈ s'.tv, u = t ∨ u.cat = 0 := by
          intro u hu
          obtain ⟨j, hj, hju⟩ := List.mem_iff_getElem.mp hu
          have hget : s'.tv[j]? = some u := by rw [List.getElem?_eq_getElem hj, hju]
          by_cases hj0 : j = 0
          · left
            rw [hj0, ← hc, ht'] at hget
            rw [← htt]; exact (Option.some.inj hget).symm
          · right; exact hz' j u hj0 hget
        refine ⟨by have := (q12 rfl).1; omega, ?_, ?_⟩
        · intro u hu h99
          rcases hmem u hu with h | h
          · rw [h] at h99; simp [h99] at hcat
          · rw [h] at h99; exact absurd h99 (by decide)
        · intro u hu hn
          rcases hmem u hu with h | h
          · rw [h, ← htt]; exact thi
          · rcases hn with hn | hn <;> (rw [h] at hn; exact absurd hn (by decide))
      by_cases c1 : (t.cat == 99 || t.cat == 40 || t.cat == 116) = true
      · simp only [c1, ↓reduceIte, Bool.not_true, Bool.false_eq_true]
        exact hnext
      · simp only [c1, Bool.false_eq_true, ↓reduceIte]
        cases bu with
        | true => simp only [Bool.not_true, Bool.false_eq_true, ↓reduceIte]; exact hnext
        | false =>
          simp only [Bool.not_false, ↓reduceIte]
          exact ⟨_, _, rfl, hs', q1, by rw [q3]; exact hc, fun _ => hpost (by simpa using c1)⟩

end LibInj.Sqli
