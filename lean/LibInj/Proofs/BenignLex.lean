import LibInj.Proofs.Benign
set_option linter.unusedSimpArgs false
set_option linter.unusedVariables false
/-! C14: lexing of identifiers and unsigned integers separated by spaces. -/
namespace LibInj.Sqli
open LibInj LibInj.Spec

def isWordStartB (c : UInt8) : Bool := isLowerAscii c || isUpperAscii c || c == 95
def isWordByteB (c : UInt8) : Bool := isWordStartB c || isDigit c

/-- an identifier that is not a keyword and starts no phrase of the keyword table -/
def GoodWord (w : Bytes) : Prop :=
  (∃ c t, w = c :: t ∧ isWordStartB c = true ∧ t.all isWordByteB = true) ∧
  (w.length < 32 → searchKeyword w = 0) ∧ (w.length ≤ 31 → PhraseFree w)

/-- an unsigned integer -/
def GoodNum (w : Bytes) : Prop := w ≠ [] ∧ w.all isDigit = true

/-- what follows a word: end of input or a space -/
def Sep (r : Bytes) : Prop := r = [] ∨ ∃ r', r = 32 :: r'

/-- the bytes that may follow a word directly: a space, the `@` of a variable (`name@host.tld`), or one of the
punctuation marks `,` `:` `?` -/
def isSepByte (d : UInt8) : Bool := d == 32 || d == 64 || d == 44 || d == 58 || d == 63

/-- what may follow a word: end of input or a separator byte -/
def SepW (r : Bytes) : Prop := r = [] ∨ ∃ d r', r = d :: r' ∧ isSepByte d = true

theorem Sep.toW {r : Bytes} (h : Sep r) : SepW r := by
  rcases h with h | ⟨r', h⟩
  · exact Or.inl h
  · exact Or.inr ⟨32, r', h, rfl⟩

/-- table facts about the bytes of words (re-checked against the regenerated tables on every build) -/
theorem wordByte_facts (c : UInt8) (h : isWordByteB c = true) :
    notWordAccept c = true ∧ c ≠ 46 ∧ c ≠ 96 ∧ c ≠ 39 ∧ c ≠ 38 ∧ c ≠ 32 := by
  have := forall_byte (fun c => !isWordByteB c ||
    (notWordAccept c && c != 46 && c != 96 && c != 39 && c != 38 && c != 32)) (by decide +kernel) c
  simp only [h, Bool.not_true, Bool.false_or, Bool.and_eq_true, bne_iff_ne, ne_eq] at this
  obtain ⟨⟨⟨⟨⟨a, b⟩, c'⟩, d⟩, e⟩, f⟩ := this
  exact ⟨a, b, c', d, e, f⟩

theorem space_facts : notWordAccept 32 = false ∧ isDigit 32 = false := by decide +kernel
theorem sepByte_facts (d : UInt8) (h : isSepByte d = true) :
    notWordAccept d = false ∧ d ≠ 39 ∧ d ≠ 38 ∧ d ≠ 113 ∧ d ≠ 81 := by
  unfold isSepByte at h
  simp only [Bool.or_eq_true, beq_iff_eq] at h
  rcases h with (((rfl | rfl) | rfl) | rfl) | rfl <;> decide +kernel

theorem spn_all (p : UInt8 → Bool) : ∀ (l : Bytes), l.all p = true → spn p l = l.length
  | [], _ => rfl
  | x :: xs, h => by
    simp only [List.all_cons, Bool.and_eq_true] at h
    simp [spn, h.1, spn_all p xs h.2]

/-- scanning a run followed by end of input or a stopping byte -/
theorem spn_run (p : UInt8 → Bool) (w r : Bytes) (hw : w.all p = true) (hr : r = [] ∨ ∃ r', r = 32 :: r') (h32 : p 32 = false) :
    spn p (w ++ r) = w.length := by
  rcases hr with rfl | ⟨r', rfl⟩
  · simp [spn_all p w hw]
  · exact spn_append_stop p w 32 r' hw h32

theorem spn_runW (p : UInt8 → Bool) (w r : Bytes) (hw : w.all p = true) (hr : SepW r) (hsep : ∀ d, isSepByte d = true → p d = false) :
    spn p (w ++ r) = w.length := by
  rcases hr with rfl | ⟨d, r', rfl, hd⟩
  · simp [spn_all p w hw]
  · exact spn_append_stop p w d r' hw (hsep d hd)

theorem goodWord_bytes {w : Bytes} (h : GoodWord w) : w.all isWordByteB = true ∧ 1 ≤ w.length := by
  obtain ⟨⟨c, t, rfl, hc, ht⟩, _⟩ := h
  simp [isWordByteB, hc, ht]

theorem all_imp {p q : UInt8 → Bool} {l : Bytes} (h : l.all p = true) (hpq : ∀ c, p c = true → q c = true) : l.all q = true := by
  rw [List.all_eq_true] at h ⊢
  exact fun x hx => hpq x (h x hx)

/-- no `.` or back-tick inside the value: the keyword-split loop finds nothing -/
theorem splitLoop_none (rest : Bytes) (t : Token) (hv : t.val.length = t.len)
    (hno : ∀ c ∈ t.val, c ≠ 46 ∧ c ≠ 96) : ∀ fuel i, splitLoop rest t i fuel = .ok none := by
  intro fuel
  induction fuel with
  | zero => intro i; rfl
  | succ fuel ih =>
    intro i
    unfold splitLoop
    by_cases hi : i < t.len
    · have hlt : i < t.val.length := by omega
      have hc := hno t.val[i] (List.getElem_mem hlt)
      have e : (t.val[i] == 46 || t.val[i] == 96) = false := by simp [hc.1, hc.2]
      simp only [hi, ↓reduceIte, at'_ok hlt, bind, Except.bind, e, Bool.false_eq_true]
      exact ih (i + 1)
    · simp only [hi, ↓reduceIte]

/-- the keyword-split loop finds nothing when the text before every `.` / back-tick is no keyword (class 0) or a bareword -/
theorem splitLoop_safe (rest : Bytes) (t : Token) (hv : t.val.length = t.len)
    (hdots : ∀ i, ∀ hi : i < t.val.length, (t.val[i] = 46 ∨ t.val[i] = 96) →
      searchKeyword (t.val.take i) = 0 ∨ searchKeyword (t.val.take i) = 110) : ∀ fuel i, splitLoop rest t i fuel = .ok none := by
  intro fuel
  induction fuel with
  | zero => intro i; rfl
  | succ fuel ih =>
    intro i
    unfold splitLoop
    by_cases hi : i < t.len
    · have hlt : i < t.val.length := by omega
      simp only [hi, ↓reduceIte, at'_ok hlt, bind, Except.bind]
      by_cases hd : (t.val[i] == 46 || t.val[i] == 96) = true
      · have hd' : t.val[i] = 46 ∨ t.val[i] = 96 := by simpa using hd
        have hk := hdots i hlt hd'
        simp only [hd, ↓reduceIte, slice_ok t.val 0 i (Nat.zero_le _) (by omega), List.drop_zero, Nat.sub_zero]
        have e : (searchKeyword (t.val.take i) != 0 && searchKeyword (t.val.take i) != 110) = false := by
          rcases hk with h | h <;> simp [h]
        simp only [e, Bool.false_eq_true, ↓reduceIte]
        exact ih (i + 1)
      · simp only [hd, Bool.false_eq_true, ↓reduceIte]
        exact ih (i + 1)
    · simp only [hi, ↓reduceIte]

/-- a dotted identifier `w1.w2` that is no key, starts no phrase, and whose first part is no keyword -/
def GoodDotted (w : Bytes) : Prop :=
  ∃ w1 w2, w = w1 ++ 46 :: w2 ∧ (∃ c t, w1 = c :: t ∧ isWordStartB c = true ∧ t.all isWordByteB = true) ∧
    w2.all isWordByteB = true ∧ (searchKeyword w1 = 0 ∨ searchKeyword w1 = 110) ∧
    (w.length < 32 → searchKeyword w = 0) ∧ (w.length ≤ 31 → PhraseFree w)

theorem dot_word_facts : notWordAccept 46 = true := by decide +kernel

/-- **a good dotted identifier is lexed as one bareword** spanning exactly its text -/
theorem parseWord_dotted (w r : Bytes) (hw : GoodDotted w) (hr : SepW r) :
    parseWord (w ++ r) = .ok { tok := { cat := 110, pos := 0, len := clip w.length, val := w.take (clip w.length) },
                               next := w.length } := by
  obtain ⟨w1, w2, hwe, ⟨c, t, hw1, hc, ht⟩, hall2, hk1, hkw, _⟩ := hw
  have hall1 : w1.all isWordByteB = true := by rw [hw1]; simp [isWordByteB, hc, ht]
  have hnw : w.all notWordAccept = true := by
    rw [hwe]
    simp only [List.all_append, List.all_cons, Bool.and_eq_true]
    exact ⟨all_imp hall1 (fun c hc => (wordByte_facts c hc).1), dot_word_facts, all_imp hall2 (fun c hc => (wordByte_facts c hc).1)⟩
  have hlen : 1 ≤ w.length := by rw [hwe]; simp; omega
  have hspn := spn_runW notWordAccept w r hnw hr (fun d hd => (sepByte_facts d hd).1)
  have hcl := clip_le w.length
  unfold parseWord
  simp only [hspn]
  rw [assign_ok _ _ _ _ _ (by simp; omega)]
  simp only [bind, Except.bind, pure, Except.pure]
  have htake : (w ++ r).take (clip w.length) = w.take (clip w.length) := by
    rw [List.take_append_of_le_length (by omega)]
  rw [htake]
  rw [splitLoop_safe (w ++ r) _ (by simp; omega) (by
    intro i hi hd
    simp only [List.length_take] at hi
    have hiw : i < w.length := by omega
    have hgi : (w.take (clip w.length))[i]'(by simp; omega) = w[i] := by simp
    simp only [hgi] at hd
    -- the only `.` of `w` is the one after `w1`
    have hi1 : i = w1.length := by
      rcases Nat.lt_trichotomy i w1.length with h | h | h
      · exfalso
        have hm : w[i] ∈ w1 := by
          have := List.getElem?_append_left (l₁ := w1) (l₂ := 46 :: w2) h
          rw [← hwe, List.getElem?_eq_getElem hiw] at this
          exact List.mem_of_getElem? this.symm
        have := wordByte_facts _ (List.all_eq_true.mp hall1 _ hm)
        rcases hd with hd | hd
        · exact this.2.1 hd
        · exact this.2.2.1 hd
      · exact h
      · exfalso
        have hm : w[i] ∈ w2 := by
          have h1 : w[i]? = (46 :: w2)[i - w1.length]? := by
            rw [← List.getElem?_append_right (by omega : w1.length ≤ i), ← hwe]
          rw [List.getElem?_eq_getElem hiw, show i - w1.length = (i - w1.length - 1) + 1 by omega] at h1
          simp only [List.getElem?_cons_succ] at h1
          exact List.mem_of_getElem? h1.symm
        have := wordByte_facts _ (List.all_eq_true.mp hall2 _ hm)
        rcases hd with hd | hd
        · exact this.2.1 hd
        · exact this.2.2.1 hd
    have htk : (w.take (clip w.length)).take i = w1 := by
      rw [List.take_take, hi1, Nat.min_eq_left (by omega), hwe, List.take_left]
    rw [htk]; exact hk1)]
  simp only []
  by_cases hlt : w.length < tokenSize
  · have hc' : clip w.length = w.length := clip_of_lt hlt
    simp only [hlt, ↓reduceIte, hc']
    rw [slice_ok _ 0 w.length (by omega) (by simp)]
    have e : ((w.take w.length).drop 0).take (w.length - 0) = w := by simp
    rw [e]
    simp only [hkw hlt]
    simp
  · simp only [hlt, ↓reduceIte]

/-- **a good word is lexed as one bareword** spanning exactly the word -/
theorem parseWord_good (w r : Bytes) (hw : GoodWord w) (hr : SepW r) :
    parseWord (w ++ r) = .ok { tok := { cat := 110, pos := 0, len := clip w.length, val := w.take (clip w.length) },
                               next := w.length } := by
  obtain ⟨hall, hlen⟩ := goodWord_bytes hw
  have hnw : w.all notWordAccept = true := all_imp hall (fun c hc => (wordByte_facts c hc).1)
  have hspn := spn_runW notWordAccept w r hnw hr (fun d hd => (sepByte_facts d hd).1)
  have hcl := clip_le w.length
  unfold parseWord
  simp only [hspn]
  rw [assign_ok _ _ _ _ _ (by simp; omega)]
  simp only [bind, Except.bind, pure, Except.pure]
  have htake : (w ++ r).take (clip w.length) = w.take (clip w.length) := by
    rw [List.take_append_of_le_length (by omega)]
  rw [htake]
  rw [splitLoop_none (w ++ r) _ (by simp; omega) (by
    intro c hc
    have hcw : c ∈ w := List.mem_of_mem_take hc
    have := wordByte_facts c (List.all_eq_true.mp hall c hcw)
    exact ⟨this.2.1, this.2.2.1⟩)]
  simp only []
  by_cases hlt : w.length < tokenSize
  · have hc : clip w.length = w.length := clip_of_lt hlt
    simp only [hlt, ↓reduceIte, hc]
    rw [slice_ok _ 0 w.length (by omega) (by simp)]
    have e : ((w.take w.length).drop 0).take (w.length - 0) = w := by simp
    rw [e]
    simp only [hw.2.1 hlt]
    simp
  · simp only [hlt, ↓reduceIte]

/-- the bytes of `w ++ r` up to and including the separator -/
theorem rest_idx (w r : Bytes) (hall : w.all isWordByteB = true) (hr : SepW r) (i : Nat) (x : UInt8)
    (hi : i ≤ w.length) (h : (w ++ r)[i]? = some x) : isWordByteB x = true ∨ isSepByte x = true := by
  rcases Nat.lt_or_ge i w.length with hl | hg
  · rw [List.getElem?_append_left hl] at h
    exact Or.inl (List.all_eq_true.mp hall x (List.mem_of_getElem? h))
  · have : i = w.length := by omega
    subst this
    rw [List.getElem?_append_right (Nat.le_refl _)] at h
    simp only [Nat.sub_self] at h
    rcases hr with rfl | ⟨d, r', rfl, hd⟩
    · simp at h
    · have hx : x = d := by simpa using h.symm
      exact Or.inr (hx ▸ hd)

theorem idx_ne (x : UInt8) (h : isWordByteB x = true ∨ isSepByte x = true) : x ≠ 39 ∧ x ≠ 38 := by
  rcases h with h | h
  · have := wordByte_facts x h; exact ⟨this.2.2.2.1, this.2.2.2.2.1⟩
  · have := sepByte_facts x h; exact ⟨this.2.1, this.2.2.1⟩

/-- what the prefix lexers (`b'`, `e'`, `n'`, `q'`, `u&'`, `x'`) look at before falling back to `parseWord` -/
structure NoQuote (rest : Bytes) : Prop where
  one : ∀ x, rest[1]? = some x → x ≠ 39 ∧ x ≠ 38
  two : (rest[1]? = some 113 ∨ rest[1]? = some 81) → ∀ x, rest[2]? = some x → x ≠ 39

theorem noQuote_good (w r : Bytes) (hw : GoodWord w) (hr : SepW r) : NoQuote (w ++ r) := by
  obtain ⟨hall, hlen⟩ := goodWord_bytes hw
  refine ⟨fun x hx => idx_ne x (rest_idx w r hall hr 1 x hlen hx), fun hq x hx => ?_⟩
  have h2 : 2 ≤ w.length := by
    rcases Nat.lt_or_ge 1 w.length with h | h
    · omega
    · exfalso
      have e1 : w.length = 1 := by omega
      have h32 : ∀ y, (w ++ r)[1]? = some y → isSepByte y = true := by
        intro y hy
        rw [List.getElem?_append_right (by omega), e1] at hy
        rcases hr with rfl | ⟨d, r', rfl, hd⟩
        · simp at hy
        · have : y = d := by simpa using hy.symm
          exact this ▸ hd
      rcases hq with hq | hq
      · exact absurd rfl (sepByte_facts _ (h32 _ hq)).2.2.2.1
      · exact absurd rfl (sepByte_facts _ (h32 _ hq)).2.2.2.2
  exact (idx_ne x (rest_idx w r hall hr 2 x h2 hx)).1

theorem getElem_of (rest : Bytes) (i : Nat) (h : i < rest.length) : rest[i]? = some rest[i] :=
  List.getElem?_eq_getElem h

theorem parseXBString_word (digits rest : Bytes) (hq : NoQuote rest) : parseXBString digits rest = parseWord rest := by
  unfold parseXBString
  simp only [g, orM, toBool, byteNe, bind, Except.bind, pure, Except.pure]
  by_cases h2 : 2 ≥ rest.length
  · simp only [h2, decide_true, ↓reduceIte]
  · have h1 : 1 < rest.length := by omega
    have := (hq.one _ (getElem_of rest 1 h1)).1
    have e : (rest[1] != 39) = true := by simpa using this
    simp only [h2, decide_false, Bool.false_eq_true, ↓reduceIte, at'_ok h1, e]

theorem parseEString_word (rest : Bytes) (hq : NoQuote rest) : parseEString rest = parseWord rest := by
  unfold parseEString
  simp only [g, orM, toBool, byteNe, bind, Except.bind, pure, Except.pure]
  by_cases h2 : 2 ≥ rest.length
  · simp only [h2, decide_true, ↓reduceIte]
  · have h1 : 1 < rest.length := by omega
    have := (hq.one _ (getElem_of rest 1 h1)).1
    have e : (rest[1] != 39) = true := by simpa using this
    simp only [h2, decide_false, Bool.false_eq_true, ↓reduceIte, at'_ok h1, e]

theorem parseUString_word (rest : Bytes) (hq : NoQuote rest) : parseUString rest = parseWord rest := by
  unfold parseUString
  simp only [g, andM, toBool, byteIs, bind, Except.bind, pure, Except.pure]
  by_cases h2 : 2 < rest.length
  · have h1 : 1 < rest.length := by omega
    have := (hq.one _ (getElem_of rest 1 h1)).2
    have e : (rest[1] == 38) = false := by simpa using this
    simp only [h2, decide_true, ↓reduceIte, at'_ok h1, e, Bool.false_eq_true]
  · simp only [h2, decide_false, Bool.false_eq_true, ↓reduceIte]

theorem parseQStringCore_word (rest : Bytes) (offset : Nat) (ho : offset ≤ 1) (hne : rest ≠ []) (hq : NoQuote rest) :
    parseQStringCore rest offset = parseWord rest := by
  have hl : 1 ≤ rest.length := length_pos_of_ne_nil hne
  unfold parseQStringCore
  simp only [bind, Except.bind, pure, Except.pure]
  by_cases hp : offset ≥ rest.length
  · simp only [hp, ↓reduceIte]
  · have hlt : offset < rest.length := by omega
    simp only [hp, ↓reduceIte, at'_ok hlt]
    by_cases hc : (rest[offset] != 113 && rest[offset] != 81) = true
    · simp only [hc, ↓reduceIte]
    · simp only [hc, Bool.false_eq_true, ↓reduceIte]
      by_cases hp2 : offset + 2 ≥ rest.length
      · simp only [hp2, ↓reduceIte]
      · have hlt1 : offset + 1 < rest.length := by omega
        simp only [hp2, ↓reduceIte, at'_ok hlt1]
        have hne39 : rest[offset + 1] ≠ 39 := by
          rcases Nat.eq_zero_or_pos offset with h0 | h0
          · subst h0
            exact (hq.one _ (getElem_of rest 1 hlt1)).1
          · have e1 : offset = 1 := by omega
            subst e1
            have hq1 : rest[1]? = some 113 ∨ rest[1]? = some 81 := by
              rw [getElem_of rest 1 hlt]
              simp only [Bool.and_eq_true, bne_iff_ne, ne_eq, not_and, Decidable.not_not] at hc
              by_cases h113 : rest[1] = 113
              · left; rw [h113]
              · right; rw [hc h113]
            exact hq.two hq1 _ (getElem_of rest 2 hlt1)
        have e : (rest[offset + 1] != 39) = true := by simpa using hne39
        simp only [e, ↓reduceIte]

theorem parseNqString_word (rest : Bytes) (hne : rest ≠ []) (hq : NoQuote rest) : parseNqString rest = parseWord rest := by
  unfold parseNqString
  simp only [g, andM, toBool, byteIs, bind, Except.bind, pure, Except.pure]
  by_cases h2 : 2 < rest.length
  · have h1 : 1 < rest.length := by omega
    have := (hq.one _ (getElem_of rest 1 h1)).1
    have e : (rest[1] == 39) = false := by simpa using this
    simp only [h2, decide_true, ↓reduceIte, at'_ok h1, e, Bool.false_eq_true]
    exact parseQStringCore_word rest 1 (Nat.le_refl _) hne hq
  · simp only [h2, decide_false, Bool.false_eq_true, ↓reduceIte]
    exact parseQStringCore_word rest 1 (Nat.le_refl _) hne hq

theorem digit_facts (c : UInt8) (h : isDigit c = true) :
    c ≠ 88 ∧ c ≠ 120 ∧ c ≠ 66 ∧ c ≠ 98 ∧ c ≠ 46 ∧ c ≠ 32 := by
  have := forall_byte (fun c => !isDigit c || (c != 88 && c != 120 && c != 66 && c != 98 && c != 46 && c != 32))
    (by decide +kernel) c
  simp only [h, Bool.not_true, Bool.false_or, Bool.and_eq_true, bne_iff_ne, ne_eq] at this
  obtain ⟨⟨⟨⟨⟨a, b⟩, c'⟩, d⟩, e⟩, f⟩ := this
  exact ⟨a, b, c', d, e, f⟩

/-- the bytes that may follow an unsigned integer directly: a space or one of the punctuation marks `,` `:` `?` -/
def isNumSep (d : UInt8) : Bool := d == 32 || d == 44 || d == 58 || d == 63

/-- what may follow an unsigned integer: end of input or such a byte -/
def SepN (r : Bytes) : Prop := r = [] ∨ ∃ d r', r = d :: r' ∧ isNumSep d = true

theorem Sep.toN {r : Bytes} (h : Sep r) : SepN r := by
  rcases h with h | ⟨r', h⟩
  · exact Or.inl h
  · exact Or.inr ⟨32, r', h, rfl⟩

theorem numSep_facts (d : UInt8) (h : isNumSep d = true) :
    isDigit d = false ∧ d ≠ 88 ∧ d ≠ 120 ∧ d ≠ 66 ∧ d ≠ 98 ∧ d ≠ 46 ∧ d ≠ 69 ∧ d ≠ 101 ∧ d ≠ 100 ∧ d ≠ 68 ∧ d ≠ 102 ∧ d ≠ 70 := by
  unfold isNumSep at h
  simp only [Bool.or_eq_true, beq_iff_eq] at h
  rcases h with ((rfl | rfl) | rfl) | rfl <;> decide

/-- **an unsigned integer is lexed as one number** spanning exactly its digits -/
theorem parseNumber_good (w r : Bytes) (hw : GoodNum w) (hr : SepN r) :
    parseNumber (w ++ r) = .ok { tok := { cat := 49, pos := 0, len := clip w.length, val := w.take (clip w.length) },
                                 next := w.length } := by
  obtain ⟨hne, hall⟩ := hw
  have hlen : 1 ≤ w.length := length_pos_of_ne_nil hne
  have hl0 : 0 < (w ++ r).length := by simp; omega
  have hspn : spn isDigit (w ++ r) = w.length := by
    rcases hr with rfl | ⟨d, r', rfl, hd⟩
    · simp [spn_all isDigit w hall]
    · exact spn_append_stop isDigit w d r' hall (numSep_facts d hd).1
  -- the byte right after the digits, if any, is a separator
  have hafter : ∀ x, (w ++ r)[w.length]? = some x → isNumSep x = true := by
    intro x hx
    rw [List.getElem?_append_right (Nat.le_refl _), Nat.sub_self] at hx
    rcases hr with rfl | ⟨d, r', rfl, hd⟩
    · simp at hx
    · have : x = d := by simpa using hx.symm
      exact this ▸ hd
  unfold parseNumber
  simp only [at'_ok hl0, bind, Except.bind, pure, Except.pure]
  -- no `0x` / `0b` prefix
  have hds : numDigitSet (w ++ r) (w ++ r)[0] = .ok none := by
    unfold numDigitSet
    by_cases hc : ((w ++ r)[0] == 48 && decide (1 < (w ++ r).length)) = true
    · have h1 : 1 < (w ++ r).length := by simp only [Bool.and_eq_true, decide_eq_true_eq] at hc; exact hc.2
      simp only [hc, ↓reduceIte, at'_ok h1, bind, Except.bind, pure, Except.pure]
      have hx : (w ++ r)[1] ≠ 88 ∧ (w ++ r)[1] ≠ 120 ∧ (w ++ r)[1] ≠ 66 ∧ (w ++ r)[1] ≠ 98 := by
        rcases Nat.lt_or_ge 1 w.length with hl | hg
        · have hm : (w ++ r)[1] ∈ w := by
            have := List.getElem?_append_left (l₂ := r) hl
            rw [getElem_of _ 1 h1] at this
            exact List.mem_of_getElem? this.symm
          have := digit_facts _ (List.all_eq_true.mp hall _ hm)
          exact ⟨this.1, this.2.1, this.2.2.1, this.2.2.2.1⟩
        · have e1 : w.length = 1 := by omega
          have := numSep_facts _ (hafter (w ++ r)[1] (by rw [e1]; exact getElem_of _ 1 h1))
          exact ⟨this.2.1, this.2.2.1, this.2.2.2.1, this.2.2.2.2.1⟩
      have e1 : ((w ++ r)[1] == 88 || (w ++ r)[1] == 120) = false := by simp [hx.1, hx.2.1]
      have e2 : ((w ++ r)[1] == 66 || (w ++ r)[1] == 98) = false := by simp [hx.2.2.1, hx.2.2.2]
      simp only [e1, e2, Bool.false_eq_true, ↓reduceIte]
    · simp only [hc, Bool.false_eq_true, ↓reduceIte, pure, Except.pure]
  simp only [hds, hspn]
  have hdot : numDot (w ++ r) w.length = .ok (w.length, false) := by
    unfold numDot
    simp only [g, andM, toBool, byteIs, bind, Except.bind, pure, Except.pure]
    by_cases hlt : w.length < (w ++ r).length
    · have := numSep_facts _ (hafter _ (getElem_of _ _ hlt))
      have e : ((w ++ r)[w.length] == 46) = false := beq_eq_false_iff_ne.mpr this.2.2.2.2.2.1
      simp only [hlt, decide_true, ↓reduceIte, at'_ok hlt, e, Bool.false_eq_true]
    · simp only [hlt, decide_false, Bool.false_eq_true, ↓reduceIte]
  have hexp : numExp (w ++ r) w.length = .ok (w.length, false, false) := by
    unfold numExp
    simp only [bind, Except.bind, pure, Except.pure]
    by_cases hlt : w.length < (w ++ r).length
    · have := numSep_facts _ (hafter _ (getElem_of _ _ hlt))
      have e : ((w ++ r)[w.length] == 69 || (w ++ r)[w.length] == 101) = false := by
        rw [beq_eq_false_iff_ne.mpr this.2.2.2.2.2.2.1, beq_eq_false_iff_ne.mpr this.2.2.2.2.2.2.2.1]; rfl
      simp only [hlt, ↓reduceIte, at'_ok hlt, e, Bool.false_eq_true]
    · simp only [hlt, ↓reduceIte]
  have hsuf : numSuffix (w ++ r) w.length = .ok w.length := by
    unfold numSuffix
    simp only [bind, Except.bind, pure, Except.pure]
    by_cases hlt : w.length < (w ++ r).length
    · have := numSep_facts _ (hafter _ (getElem_of _ _ hlt))
      have e : ((w ++ r)[w.length] == 100 || (w ++ r)[w.length] == 68 || (w ++ r)[w.length] == 102 || (w ++ r)[w.length] == 70) = false := by
        rw [beq_eq_false_iff_ne.mpr this.2.2.2.2.2.2.2.2.1, beq_eq_false_iff_ne.mpr this.2.2.2.2.2.2.2.2.2.1,
          beq_eq_false_iff_ne.mpr this.2.2.2.2.2.2.2.2.2.2.1, beq_eq_false_iff_ne.mpr this.2.2.2.2.2.2.2.2.2.2.2]; rfl
      simp only [hlt, ↓reduceIte, at'_ok hlt, e, Bool.false_eq_true]
    · simp only [hlt, ↓reduceIte]
  simp only [hdot, Bool.false_eq_true, ↓reduceIte, hexp, hsuf, Bool.false_and]
  have hcl := clip_le w.length
  rw [assign_ok _ _ _ _ _ (by simp; omega)]
  simp only []
  rw [List.take_append_of_le_length (by omega)]

/-- a decimal number: digits, a dot, digits -/
def GoodDec (w : Bytes) : Prop := ∃ d1 d2, w = d1 ++ 46 :: d2 ∧ GoodNum d1 ∧ d2.all isDigit = true

theorem dot_facts : isDigit 46 = false := by decide

/-- **a decimal number is lexed as one number** spanning exactly its text -/
theorem parseNumber_dec (w r : Bytes) (hw : GoodDec w) (hr : Sep r) :
    parseNumber (w ++ r) = .ok { tok := { cat := 49, pos := 0, len := clip w.length, val := w.take (clip w.length) },
                                 next := w.length } := by
  obtain ⟨d1, d2, hwe, ⟨hne1, hall1⟩, hall2⟩ := hw
  have hl1 : 1 ≤ d1.length := length_pos_of_ne_nil hne1
  have hwl : w.length = d1.length + (d2.length + 1) := by rw [hwe]; simp
  -- the whole remaining input, kept opaque
  generalize hR : w ++ r = R
  have hRd : R = d1 ++ (46 :: (d2 ++ r)) := by rw [← hR, hwe]; simp
  have hRl : R.length = w.length + r.length := by rw [← hR]; simp
  have hl0 : 0 < R.length := by omega
  have hspn : spn isDigit R = d1.length := by
    rw [hRd]; exact spn_append_stop isDigit d1 46 (d2 ++ r) hall1 dot_facts
  have hget : ∀ i, R[d1.length + i]? = (46 :: (d2 ++ r))[i]? := by
    intro i; rw [hRd, List.getElem?_append_right (by omega)]; congr 1; omega
  have hafter : ∀ x, R[w.length]? = some x → x = 32 := by
    intro x hx
    rw [← hR, List.getElem?_append_right (Nat.le_refl _), Nat.sub_self] at hx
    rcases hr with rfl | ⟨r', rfl⟩
    · simp at hx
    · simpa using hx.symm
  unfold parseNumber
  simp only [at'_ok hl0, bind, Except.bind, pure, Except.pure]
  have hds : numDigitSet R R[0] = .ok none := by
    unfold numDigitSet
    by_cases hc : (R[0] == 48 && decide (1 < R.length)) = true
    · have h1 : 1 < R.length := by simp only [Bool.and_eq_true, decide_eq_true_eq] at hc; exact hc.2
      simp only [hc, ↓reduceIte, at'_ok h1, bind, Except.bind, pure, Except.pure]
      have hx : R[1] ≠ 88 ∧ R[1] ≠ 120 ∧ R[1] ≠ 66 ∧ R[1] ≠ 98 := by
        rcases Nat.lt_or_ge 1 d1.length with hl | hg
        · have hm : R[1] ∈ d1 := by
            have := List.getElem?_append_left (l₂ := 46 :: (d2 ++ r)) hl
            rw [← hRd, getElem_of _ 1 h1] at this
            exact List.mem_of_getElem? this.symm
          have := digit_facts _ (List.all_eq_true.mp hall1 _ hm)
          exact ⟨this.1, this.2.1, this.2.2.1, this.2.2.2.1⟩
        · have e1 : d1.length = 1 := by omega
          have := hget 0
          rw [e1, getElem_of _ 1 h1] at this
          have e46 : R[1] = 46 := by simpa using this
          rw [e46]; decide
      have e1 : (R[1] == 88 || R[1] == 120) = false := by simp [hx.1, hx.2.1]
      have e2 : (R[1] == 66 || R[1] == 98) = false := by simp [hx.2.2.1, hx.2.2.2]
      simp only [e1, e2, Bool.false_eq_true, ↓reduceIte]
    · simp only [hc, Bool.false_eq_true, ↓reduceIte, pure, Except.pure]
  simp only [hds, hspn]
  have hdot : numDot R d1.length = .ok (w.length, false) := by
    unfold numDot
    simp only [g, andM, toBool, byteIs, bind, Except.bind, pure, Except.pure]
    have hlt : d1.length < R.length := by omega
    have h46 : R[d1.length] = 46 := by
      have := hget 0
      rw [Nat.add_zero, getElem_of _ _ hlt] at this
      simpa using this
    simp only [hlt, decide_true, ↓reduceIte, at'_ok hlt, h46, beq_self_eq_true]
    have hsl : sliceFrom R (d1.length + 1) = .ok (d2 ++ r) := by
      unfold sliceFrom
      have : d1.length + 1 ≤ R.length := by omega
      simp only [this, ↓reduceIte]
      rw [hRd, ← List.drop_drop, List.drop_left]
      rfl
    rw [hsl]
    simp only []
    have hs2 := spn_run isDigit d2 r hall2 hr space_facts.2
    rw [hs2]
    have e1 : (d1.length + 1 + d2.length == 1) = false := by simp; omega
    simp only [e1]
    congr 2
    omega
  have hexp : numExp R w.length = .ok (w.length, false, false) := by
    unfold numExp
    simp only [bind, Except.bind, pure, Except.pure]
    by_cases hlt : w.length < R.length
    · have := hafter _ (getElem_of _ _ hlt)
      have e : (R[w.length] == 69 || R[w.length] == 101) = false := by rw [this]; decide
      simp only [hlt, ↓reduceIte, at'_ok hlt, e, Bool.false_eq_true]
    · simp only [hlt, ↓reduceIte]
  have hsuf : numSuffix R w.length = .ok w.length := by
    unfold numSuffix
    simp only [bind, Except.bind, pure, Except.pure]
    by_cases hlt : w.length < R.length
    · have := hafter _ (getElem_of _ _ hlt)
      have e : (R[w.length] == 100 || R[w.length] == 68 || R[w.length] == 102 || R[w.length] == 70) = false := by
        rw [this]; decide
      simp only [hlt, ↓reduceIte, at'_ok hlt, e, Bool.false_eq_true]
    · simp only [hlt, ↓reduceIte]
  simp only [hdot, Bool.false_eq_true, ↓reduceIte, hexp, hsuf, Bool.false_and]
  have hcl := clip_le w.length
  rw [assign_ok _ _ _ _ _ (by omega)]
  simp only []
  rw [← hR, List.take_append_of_le_length (by omega)]

/-! the exponent branch of `parseNumber`: `digits e [+-] digits` is lexed as one number -/
/-- an unsigned integer with an exponent: `m e x`, `m e+x`, `m e-x` (either case of `e`) -/
def GoodSci (w : Bytes) : Prop :=
  ∃ m x : Bytes, ∃ e : UInt8, ∃ s : Bytes, w = m ++ e :: (s ++ x) ∧ GoodNum m ∧ GoodNum x ∧ (e = 69 ∨ e = 101) ∧
    (s = [] ∨ s = [43] ∨ s = [45])

theorem e_facts (e : UInt8) (h : e = 69 ∨ e = 101) : isDigit e = false ∧ e ≠ 46 ∧ e ≠ 88 ∧ e ≠ 120 ∧ e ≠ 66 ∧ e ≠ 98 := by
  rcases h with rfl | rfl <;> decide

theorem get_app (m l : Bytes) (i : Nat) : (m ++ l)[m.length + i]? = l[i]? := by
  rw [List.getElem?_append_right (by omega)]; congr 1; omega

theorem sliceFrom_app (m l : Bytes) (k : Nat) (hk : k ≤ l.length) : sliceFrom (m ++ l) (m.length + k) = .ok (l.drop k) := by
  unfold sliceFrom
  have : m.length + k ≤ (m ++ l).length := by simp; omega
  simp only [this, ↓reduceIte]
  rw [← List.drop_drop, List.drop_left]

theorem spn_digits_sepN (x r : Bytes) (hallx : x.all isDigit = true) (hr : SepN r) : spn isDigit (x ++ r) = x.length := by
  rcases hr with rfl | ⟨d, r', rfl, hd⟩
  · simp [spn_all isDigit x hallx]
  · exact spn_append_stop isDigit x d r' hallx (numSep_facts d hd).1

/-- the exponent stage on `m e s x r` -/
theorem numExp_sci (m x r : Bytes) (e : UInt8) (s : Bytes) (he : e = 69 ∨ e = 101) (hs : s = [] ∨ s = [43] ∨ s = [45])
    (hnex : x ≠ []) (hallx : x.all isDigit = true) (hr : SepN r) :
    numExp (m ++ e :: (s ++ (x ++ r))) m.length = .ok (m.length + 1 + s.length + x.length, true, true) := by
  obtain ⟨x0, xt, rfl⟩ := List.exists_cons_of_ne_nil hnex
  have hx0 : isDigit x0 = true := by simp only [List.all_cons, Bool.and_eq_true] at hallx; exact hallx.1
  have hx0s : (x0 == 43 || x0 == 45) = false := by
    have : x0 ≠ 43 ∧ x0 ≠ 45 := by
      constructor <;> (intro h; rw [h] at hx0; revert hx0; decide)
    rw [beq_eq_false_iff_ne.mpr this.1, beq_eq_false_iff_ne.mpr this.2]; rfl
  have hspn := spn_digits_sepN (x0 :: xt) r hallx hr
  have hk : ((x0 :: xt).length != 0) = true := by simp
  unfold numExp
  have hlt : m.length < (m ++ e :: (s ++ (x0 :: xt ++ r))).length := by simp
  have hge : (m ++ e :: (s ++ (x0 :: xt ++ r)))[m.length]? = some e := by
    have := get_app m (e :: (s ++ (x0 :: xt ++ r))) 0
    simpa using this
  have hat0 : at' (m ++ e :: (s ++ (x0 :: xt ++ r))) m.length = .ok e := by unfold at'; rw [hge]
  have ee : (e == 69 || e == 101) = true := by rcases he with rfl | rfl <;> rfl
  simp only [hlt, ↓reduceIte, hat0, bind, Except.bind, pure, Except.pure, ee]
  have hlt1 : m.length + 1 < (m ++ e :: (s ++ (x0 :: xt ++ r))).length := by simp; omega
  simp only [hlt1, ↓reduceIte]
  rcases hs with rfl | rfl | rfl
  · have hg1 : (m ++ e :: ([] ++ (x0 :: xt ++ r)))[m.length + 1]? = some x0 := by
      have := get_app m (e :: ([] ++ (x0 :: xt ++ r))) 1
      simpa using this
    have hat1 : at' (m ++ e :: ([] ++ (x0 :: xt ++ r))) (m.length + 1) = .ok x0 := by unfold at'; rw [hg1]
    simp only [hat1, hx0s, Bool.false_eq_true, ↓reduceIte]
    have hsl := sliceFrom_app m (e :: ([] ++ (x0 :: xt ++ r))) 1 (by simp)
    simp only [List.drop_succ_cons, List.drop_zero, List.nil_append] at hsl
    simp only [List.nil_append] at hsl ⊢
    rw [hsl]
    simp only [hspn, hk, List.length_nil, Nat.add_zero]
  · have hg1 : (m ++ e :: ([43] ++ (x0 :: xt ++ r)))[m.length + 1]? = some 43 := by
      have := get_app m (e :: ([43] ++ (x0 :: xt ++ r))) 1
      simpa using this
    have hat1 : at' (m ++ e :: ([43] ++ (x0 :: xt ++ r))) (m.length + 1) = .ok 43 := by unfold at'; rw [hg1]
    simp only [hat1, show ((43 : UInt8) == 43 || (43 : UInt8) == 45) = true from rfl, ↓reduceIte]
    have hsl := sliceFrom_app m (e :: ([43] ++ (x0 :: xt ++ r))) 2 (by simp)
    simp only [List.drop_succ_cons, List.drop_zero, List.singleton_append] at hsl
    rw [show m.length + 1 + 1 = m.length + 2 by omega]
    simp only [List.singleton_append] at hsl ⊢
    rw [hsl]
    simp only [hspn, hk, List.length_cons, List.length_nil]
    congr 2
  · have hg1 : (m ++ e :: ([45] ++ (x0 :: xt ++ r)))[m.length + 1]? = some 45 := by
      have := get_app m (e :: ([45] ++ (x0 :: xt ++ r))) 1
      simpa using this
    have hat1 : at' (m ++ e :: ([45] ++ (x0 :: xt ++ r))) (m.length + 1) = .ok 45 := by unfold at'; rw [hg1]
    simp only [hat1, show ((45 : UInt8) == 43 || (45 : UInt8) == 45) = true from rfl, ↓reduceIte]
    have hsl := sliceFrom_app m (e :: ([45] ++ (x0 :: xt ++ r))) 2 (by simp)
    simp only [List.drop_succ_cons, List.drop_zero, List.singleton_append] at hsl
    rw [show m.length + 1 + 1 = m.length + 2 by omega]
    simp only [List.singleton_append] at hsl ⊢
    rw [hsl]
    simp only [hspn, hk, List.length_cons, List.length_nil]
    congr 2

/-- **an integer with an exponent is lexed as one number** spanning exactly its text -/
theorem parseNumber_sci (w r : Bytes) (hw : GoodSci w) (hr : SepN r) :
    parseNumber (w ++ r) = .ok { tok := { cat := 49, pos := 0, len := clip w.length, val := w.take (clip w.length) },
                                 next := w.length } := by
  obtain ⟨m, x, e, s, hwe, ⟨hnem, hallm⟩, ⟨hnex, hallx⟩, he, hs⟩ := hw
  have hlm : 1 ≤ m.length := length_pos_of_ne_nil hnem
  have hlx : 1 ≤ x.length := length_pos_of_ne_nil hnex
  have hwl : w.length = m.length + 1 + s.length + x.length := by rw [hwe]; simp; omega
  have hef := e_facts e he
  generalize hR : w ++ r = R
  have hRd : R = m ++ (e :: (s ++ (x ++ r))) := by rw [← hR, hwe]; simp
  have hRl : R.length = w.length + r.length := by rw [← hR]; simp
  have hl0 : 0 < R.length := by omega
  have hspn : spn isDigit R = m.length := by
    rw [hRd]; exact spn_append_stop isDigit m e _ hallm hef.1
  have hget : ∀ i, R[m.length + i]? = (e :: (s ++ (x ++ r)))[i]? := by
    intro i; rw [hRd, List.getElem?_append_right (by omega)]; congr 1; omega
  have hafter : ∀ y, R[w.length]? = some y → isNumSep y = true := by
    intro y hy
    rw [← hR, List.getElem?_append_right (Nat.le_refl _), Nat.sub_self] at hy
    rcases hr with rfl | ⟨d, r', rfl, hd⟩
    · simp at hy
    · have : y = d := by simpa using hy.symm
      exact this ▸ hd
  have hlte : m.length < R.length := by omega
  have hRe : R[m.length] = e := by
    have := hget 0
    rw [Nat.add_zero, getElem_of _ _ hlte] at this
    simpa using this
  unfold parseNumber
  simp only [at'_ok hl0, bind, Except.bind, pure, Except.pure]
  have hds : numDigitSet R R[0] = .ok none := by
    unfold numDigitSet
    by_cases hc : (R[0] == 48 && decide (1 < R.length)) = true
    · have h1 : 1 < R.length := by simp only [Bool.and_eq_true, decide_eq_true_eq] at hc; exact hc.2
      simp only [hc, ↓reduceIte, at'_ok h1, bind, Except.bind, pure, Except.pure]
      have hx : R[1] ≠ 88 ∧ R[1] ≠ 120 ∧ R[1] ≠ 66 ∧ R[1] ≠ 98 := by
        rcases Nat.lt_or_ge 1 m.length with hl | hg
        · have hm : R[1] ∈ m := by
            have := List.getElem?_append_left (l₂ := e :: (s ++ (x ++ r))) hl
            rw [← hRd, getElem_of _ 1 h1] at this
            exact List.mem_of_getElem? this.symm
          have := digit_facts _ (List.all_eq_true.mp hallm _ hm)
          exact ⟨this.1, this.2.1, this.2.2.1, this.2.2.2.1⟩
        · have e1 : m.length = 1 := by omega
          have h1e : R[1] = e := by
            have := hRe
            simp only [e1] at this
            exact this
          rw [h1e]; exact ⟨hef.2.2.1, hef.2.2.2.1, hef.2.2.2.2.1, hef.2.2.2.2.2⟩
      have e1 : (R[1] == 88 || R[1] == 120) = false := by
        rw [beq_eq_false_iff_ne.mpr hx.1, beq_eq_false_iff_ne.mpr hx.2.1]; rfl
      have e2 : (R[1] == 66 || R[1] == 98) = false := by
        rw [beq_eq_false_iff_ne.mpr hx.2.2.1, beq_eq_false_iff_ne.mpr hx.2.2.2]; rfl
      simp only [e1, e2, Bool.false_eq_true, ↓reduceIte]
    · simp only [hc, Bool.false_eq_true, ↓reduceIte, pure, Except.pure]
  simp only [hds, hspn]
  have hdot : numDot R m.length = .ok (m.length, false) := by
    unfold numDot
    simp only [g, andM, toBool, byteIs, bind, Except.bind, pure, Except.pure]
    have e46 : (R[m.length] == 46) = false := by rw [hRe]; exact beq_eq_false_iff_ne.mpr hef.2.1
    simp only [hlte, decide_true, ↓reduceIte, at'_ok hlte, e46, Bool.false_eq_true]
  have hexp : numExp R m.length = .ok (w.length, true, true) := by
    rw [hRd, hwl]
    exact numExp_sci m x r e s he hs hnex hallx hr
  have hsuf : numSuffix R w.length = .ok w.length := by
    unfold numSuffix
    simp only [bind, Except.bind, pure, Except.pure]
    by_cases hlt : w.length < R.length
    · have := numSep_facts _ (hafter _ (getElem_of _ _ hlt))
      have e4 : (R[w.length] == 100 || R[w.length] == 68 || R[w.length] == 102 || R[w.length] == 70) = false := by
        rw [beq_eq_false_iff_ne.mpr this.2.2.2.2.2.2.2.2.1, beq_eq_false_iff_ne.mpr this.2.2.2.2.2.2.2.2.2.1,
          beq_eq_false_iff_ne.mpr this.2.2.2.2.2.2.2.2.2.2.1, beq_eq_false_iff_ne.mpr this.2.2.2.2.2.2.2.2.2.2.2]; rfl
      simp only [hlt, ↓reduceIte, at'_ok hlt, e4, Bool.false_eq_true]
    · simp only [hlt, ↓reduceIte]
  simp only [hdot, Bool.false_eq_true, ↓reduceIte, hexp, hsuf, Bool.true_and, Bool.not_true]
  have hcl := clip_le w.length
  rw [assign_ok _ _ _ _ _ (by omega)]
  simp only []
  rw [← hR, List.take_append_of_le_length (by omega)]

/-- dispatch classes whose lexer falls back to `parseWord` -/
def wordyP : P → Bool
  | .word | .bstring | .estring | .nqstring | .qstring | .ustring | .xstring => true
  | _ => false

/-- table facts about the regenerated dispatch table -/
theorem dispatch_wordStart (c : UInt8) (h : isWordStartB c = true) : wordyP (dispatch c) = true := by
  have := forall_byte (fun c => !isWordStartB c || wordyP (dispatch c)) (by decide +kernel) c
  simpa [h] using this

theorem dispatch_digit (c : UInt8) (h : isDigit c = true) : dispatch c = .number := by
  have := forall_byte (fun c => !isDigit c || (dispatch c == .number)) (by decide +kernel) c
  simpa [h] using this

theorem dispatch_space : dispatch 32 = .white := by decide +kernel

/-- the token a good word or number is lexed to -/
def goodTok (cat : UInt8) (w : Bytes) : Token := { cat := cat, pos := 0, len := clip w.length, val := w.take (clip w.length) }

/-- through the dispatch table, a good word followed by end of input, a space or `@` becomes one bareword -/
theorem runP_goodWord (flags : Nat) (w r : Bytes) (hw : GoodWord w) (hr : SepW r) (c : UInt8) (hc : (w ++ r)[0]? = some c) :
    runP flags (w ++ r) (dispatch c) = .ok { tok := goodTok 110 w, next := w.length } := by
  have hw0 := hw
  obtain ⟨⟨c0, t, hwe, hc0, ht⟩, _⟩ := hw0
  have hcc : c = c0 := by
    rw [hwe] at hc; simpa using hc.symm
  subst hcc
  have hne : w ++ r ≠ [] := by rw [hwe]; simp
  have hq := noQuote_good w r hw hr
  have hword := parseWord_good w r hw hr
  have hd := dispatch_wordStart c hc0
  unfold runP
  cases hdc : dispatch c <;> simp only [hdc, wordyP] at hd ⊢ <;> (try (exact absurd hd (by decide)))
  · exact hword
  · rw [parseUString_word _ hq]; exact hword
  · rw [parseQStringCore_word _ 0 (by omega) hne hq]; exact hword
  · rw [parseNqString_word _ hne hq]; exact hword
  · rw [parseXBString_word _ _ hq]; exact hword
  · rw [parseXBString_word _ _ hq]; exact hword
  · rw [parseEString_word _ hq]; exact hword

theorem dotted_bytes {w : Bytes} (h : GoodDotted w) : (∀ x ∈ w, isWordByteB x = true ∨ x = 46) ∧ 2 ≤ w.length ∧
    ∃ c t, w = c :: t ∧ isWordStartB c = true := by
  obtain ⟨w1, w2, hwe, ⟨c, t, hw1, hc, ht⟩, hall2, _⟩ := h
  have hall1 : w1.all isWordByteB = true := by rw [hw1]; simp [isWordByteB, hc, ht]
  refine ⟨?_, by rw [hwe, hw1]; simp; omega, c, t ++ 46 :: w2, by rw [hwe, hw1]; simp, hc⟩
  intro x hx
  rw [hwe] at hx
  rcases List.mem_append.mp hx with h | h
  · exact Or.inl (List.all_eq_true.mp hall1 x h)
  · rcases List.mem_cons.mp h with rfl | h
    · exact Or.inr rfl
    · exact Or.inl (List.all_eq_true.mp hall2 x h)

theorem noQuote_dotted (w r : Bytes) (hw : GoodDotted w) (hr : SepW r) : NoQuote (w ++ r) := by
  obtain ⟨hb, hl3, _⟩ := dotted_bytes hw
  have key : ∀ i x, i ≤ w.length → (w ++ r)[i]? = some x → x ≠ 39 ∧ x ≠ 38 := by
    intro i x hi hx
    rcases Nat.lt_or_ge i w.length with hi' | hi'
    · rw [List.getElem?_append_left hi'] at hx
      rcases hb x (List.mem_of_getElem? hx) with h | h
      · have := wordByte_facts x h; exact ⟨this.2.2.2.1, this.2.2.2.2.1⟩
      · subst h; decide
    · have : i = w.length := by omega
      subst this
      rw [List.getElem?_append_right (Nat.le_refl _)] at hx
      simp only [Nat.sub_self] at hx
      rcases hr with rfl | ⟨d, r', rfl, hd⟩
      · simp at hx
      · have hx' : x = d := by simpa using hx.symm
        have := sepByte_facts x (hx' ▸ hd); exact ⟨this.2.1, this.2.2.1⟩
  exact ⟨fun x hx => key 1 x (by omega) hx, fun _ x hx => (key 2 x (by omega) hx).1⟩

/-- through the dispatch table, a good dotted identifier becomes one bareword -/
theorem runP_goodDotted (flags : Nat) (w r : Bytes) (hw : GoodDotted w) (hr : SepW r) (c : UInt8) (hc : (w ++ r)[0]? = some c) :
    runP flags (w ++ r) (dispatch c) = .ok { tok := goodTok 110 w, next := w.length } := by
  obtain ⟨_, _, c0, t, hwe, hc0⟩ := dotted_bytes hw
  have hcc : c = c0 := by
    rw [hwe] at hc; simpa using hc.symm
  subst hcc
  have hne : w ++ r ≠ [] := by rw [hwe]; simp
  have hq := noQuote_dotted w r hw hr
  have hword := parseWord_dotted w r hw hr
  have hd := dispatch_wordStart c hc0
  unfold runP
  cases hdc : dispatch c <;> simp only [hdc, wordyP] at hd ⊢ <;> (try (exact absurd hd (by decide)))
  · exact hword
  · rw [parseUString_word _ hq]; exact hword
  · rw [parseQStringCore_word _ 0 (by omega) hne hq]; exact hword
  · rw [parseNqString_word _ hne hq]; exact hword
  · rw [parseXBString_word _ _ hq]; exact hword
  · rw [parseXBString_word _ _ hq]; exact hword
  · rw [parseEString_word _ hq]; exact hword

theorem dottedTok_benign (w : Bytes) (hw : GoodDotted w) (p : Nat) : BenignTok { goodTok 110 w with pos := p } := by
  right; right; left
  obtain ⟨_, hl3, _⟩ := dotted_bytes hw
  refine ⟨rfl, clip_pos (by omega), ?_⟩
  show clip w.length = 31 ∨ PhraseFree (w.take (clip w.length))
  obtain ⟨_, _, _, _, _, _, _, hpf⟩ := hw
  by_cases hl : w.length ≤ 31
  · right
    have hc : clip w.length = w.length := clip_of_lt (by show w.length < 32; omega)
    rw [hc, List.take_length]
    exact hpf hl
  · left
    unfold clip tokenSize
    simp only [Gen.tokenSize]
    have : ¬ w.length < 32 := by omega
    simp [this]

/-- **through the dispatch table, a good word becomes one bareword and an unsigned integer one number** -/
theorem runP_good (flags : Nat) (w r : Bytes) (hw : GoodWord w ∨ GoodNum w) (hr : Sep r) (c : UInt8)
    (hc : (w ++ r)[0]? = some c) :
    ∃ cat, (cat = 110 ∧ GoodWord w ∨ cat = 49 ∧ GoodNum w) ∧
      runP flags (w ++ r) (dispatch c) = .ok { tok := goodTok cat w, next := w.length } := by
  rcases hw with hw | hw
  · refine ⟨110, Or.inl ⟨rfl, hw⟩, ?_⟩
    have hw0 := hw
    obtain ⟨⟨c0, t, hwe, hc0, ht⟩, _⟩ := hw0
    have hcc : c = c0 := by
      rw [hwe] at hc; simpa using hc.symm
    subst hcc
    have hne : w ++ r ≠ [] := by rw [hwe]; simp
    have hq := noQuote_good w r hw hr.toW
    have hword := parseWord_good w r hw hr.toW
    have hd := dispatch_wordStart c hc0
    unfold runP
    cases hdc : dispatch c <;> simp only [hdc, wordyP] at hd ⊢ <;> (try (exact absurd hd (by decide)))
    · exact hword
    · rw [parseUString_word _ hq]; exact hword
    · rw [parseQStringCore_word _ 0 (by omega) hne hq]; exact hword
    · rw [parseNqString_word _ hne hq]; exact hword
    · rw [parseXBString_word _ _ hq]; exact hword
    · rw [parseXBString_word _ _ hq]; exact hword
    · rw [parseEString_word _ hq]; exact hword
  · refine ⟨49, Or.inr ⟨rfl, hw⟩, ?_⟩
    have hcm : c ∈ w := by
      have hl : 0 < w.length := length_pos_of_ne_nil hw.1
      rw [List.getElem?_append_left hl] at hc
      exact List.mem_of_getElem? hc
    have hd := dispatch_digit c (List.all_eq_true.mp hw.2 c hcm)
    unfold runP
    rw [hd]
    exact parseNumber_good w r hw hr.toN

/-- the part of a variable after its `@`: an identifier, possibly with dots (`host.tld`) -/
def isVarBodyByte (c : UInt8) : Bool := isWordByteB c || c == 46
def VarBody (vw : Bytes) : Prop := ∃ c t, vw = c :: t ∧ isWordStartB c = true ∧ t.all isVarBodyByte = true

theorem varByte_facts (c : UInt8) (h : isVarBodyByte c = true) :
    notVarAccept c = true ∧ c ≠ 96 ∧ c ≠ 39 ∧ c ≠ 34 ∧ c ≠ 64 := by
  have := forall_byte (fun c => !isVarBodyByte c || (notVarAccept c && c != 96 && c != 39 && c != 34 && c != 64)) (by decide +kernel) c
  simp only [h, Bool.not_true, Bool.false_or, Bool.and_eq_true, bne_iff_ne, ne_eq] at this
  obtain ⟨⟨⟨⟨a, b⟩, c'⟩, d⟩, e⟩ := this
  exact ⟨a, b, c', d, e⟩

theorem var_space_facts : notVarAccept 32 = false ∧ dispatch 64 = .var := by decide +kernel

theorem varBody_bytes {vw : Bytes} (h : VarBody vw) : vw.all isVarBodyByte = true ∧ 1 ≤ vw.length := by
  obtain ⟨c, t, rfl, hc, ht⟩ := h
  simp [isVarBodyByte, isWordByteB, hc, ht]

/-- **`@name.with.dots` followed by a space or end of input is lexed as one variable** -/
def varTok (vw : Bytes) : Token :=
  { count := 1, cat := 118, pos := 1, len := clip vw.length, val := vw.take (clip vw.length) }

theorem parseVar_good (vw r : Bytes) (hv : VarBody vw) (hr : Sep r) :
    parseVar (64 :: (vw ++ r)) = .ok { tok := varTok vw, next := 1 + vw.length } := by
  obtain ⟨hall, hlen⟩ := varBody_bytes hv
  obtain ⟨c, t, hvw, hc, ht⟩ := hv
  have hc0 : isVarBodyByte c = true := by simp [isVarBodyByte, isWordByteB, hc]
  have hf := varByte_facts c hc0
  have hnv : vw.all notVarAccept = true := all_imp hall (fun x hx => (varByte_facts x hx).1)
  have hspn := spn_run notVarAccept vw r hnv hr var_space_facts.1
  have hcl := clip_le vw.length
  unfold parseVar
  have h1 : (64 :: (vw ++ r))[1]? = some c := by rw [hvw]; rfl
  have hn : 1 < (64 :: (vw ++ r)).length := by simp; omega
  have hne64 : ((some c : Option UInt8) == some 64) = false := by
    simp only [Option.some_beq_some, beq_eq_false_iff_ne, ne_eq]; exact hf.2.2.2.2
  simp only [h1, hn, decide_true, Bool.true_and, hne64, Bool.false_eq_true, ↓reduceIte, bind, Except.bind, pure, Except.pure]
  have hat : at' (64 :: (vw ++ r)) 1 = .ok c := by unfold at'; rw [h1]
  rw [hat]
  have e96 : (c == 96) = false := by simp [hf.2.1]
  have eq : (c == 39 || c == 34) = false := by simp [hf.2.2.1, hf.2.2.2.1]
  simp only [e96, eq, Bool.false_eq_true, ↓reduceIte]
  have hsl : sliceFrom (64 :: (vw ++ r)) 1 = .ok (vw ++ r) := by
    unfold sliceFrom; simp
  rw [hsl]
  simp only [hspn]
  rw [assign_ok _ _ _ _ _ (by simp; omega)]
  simp only []
  rw [List.take_append_of_le_length (by omega)]
  rfl

/-! punctuation: `,` (its own class), `?` (class `?`), `:` followed by a space (class `:`) -/
def punctTok (p : UInt8) : Token := { cat := p, pos := 0, len := 1, val := [p] }

theorem punct_dispatch : dispatch 44 = .byte ∧ dispatch 63 = .other ∧ dispatch 58 = .op2 ∧ searchKeyword [58, 32] = 0 := by
  decide +kernel

theorem runP_comma (flags : Nat) (r : Bytes) :
    runP flags (44 :: r) (dispatch 44) = .ok { tok := punctTok 44, next := 1 } := by
  rw [punct_dispatch.1]
  unfold runP parseByte
  simp only [bind, Except.bind, pure, Except.pure]
  have : at' (44 :: r) 0 = .ok 44 := rfl
  rw [this]
  simp only []
  rw [assign_ok _ _ _ _ _ (by simp [clip_one])]
  rfl

theorem runP_qmark (flags : Nat) (r : Bytes) :
    runP flags (63 :: r) (dispatch 63) = .ok { tok := punctTok 63, next := 1 } := by
  rw [punct_dispatch.2.1]
  unfold runP parseOther
  simp only [bind, Except.bind, pure, Except.pure]
  rw [assign_ok _ _ _ _ _ (by simp [clip_one])]
  rfl

theorem runP_colon (flags : Nat) (r : Bytes) :
    runP flags (58 :: 32 :: r) (dispatch 58) = .ok { tok := punctTok 58, next := 1 } := by
  rw [punct_dispatch.2.2.1]
  unfold runP parseOperator2
  have hand : (g (2 < (58 :: 32 :: r).length) <&&> byteIs (58 :: 32 :: r) 0 60 <&&> byteIs (58 :: 32 :: r) 1 61 <&&> byteIs (58 :: 32 :: r) 2 62) = .ok false := by
    cases r <;> simp [andM, g, byteIs, at', bind, Except.bind, pure, Except.pure, toBool]
  simp only [hand]
  simp [bind, Except.bind, pure, Except.pure, slice, at', punct_dispatch.2.2.2]
  rw [assign_ok _ _ _ _ _ (by simp [clip_one])]
  rfl

/-- the text that remains to be scanned: good words and numbers, each followed by end of input or a
space, with any number of spaces in between; a word may also be followed directly by a variable
(`name@host.tld`), and a variable may stand alone -/
inductive Txt : Bytes → Prop
  | nil : Txt []
  | space {r : Bytes} : Txt r → Txt (32 :: r)
  | word {w r : Bytes} : (GoodWord w ∨ GoodNum w) → Sep r → Txt r → Txt (w ++ r)
  | wordAt {w r : Bytes} {sp : UInt8} : GoodWord w → isSepByte sp = true → Txt (sp :: r) → Txt (w ++ sp :: r)
  | var {vw r : Bytes} : VarBody vw → Sep r → Txt r → Txt (64 :: (vw ++ r))
  | dec {w r : Bytes} : GoodDec w → Sep r → Txt r → Txt (w ++ r)
  | sci {w r : Bytes} : GoodSci w → Sep r → Txt r → Txt (w ++ r)
  | dotted {w r : Bytes} : GoodDotted w → Sep r → Txt r → Txt (w ++ r)
  | dottedAt {w r : Bytes} {sp : UInt8} : GoodDotted w → isSepByte sp = true → Txt (sp :: r) → Txt (w ++ sp :: r)
  | punct {p : UInt8} {r : Bytes} : (p = 44 ∨ p = 63) → Txt r → Txt (p :: r)
  | numAt {w r : Bytes} {sp : UInt8} : GoodNum w → isNumSep sp = true → Txt (sp :: r) → Txt (w ++ sp :: r)
  | colon {r : Bytes} : Txt r → Txt (58 :: 32 :: r)

theorem goodTok_benign (cat : UInt8) (w : Bytes) (h : cat = 110 ∧ GoodWord w ∨ cat = 49 ∧ GoodNum w) (p : Nat) :
    BenignTok { goodTok cat w with pos := p } := by
  rcases h with ⟨rfl, hw⟩ | ⟨rfl, _⟩
  · right; right; left
    obtain ⟨_, hlen⟩ := goodWord_bytes hw
    refine ⟨rfl, clip_pos hlen, ?_⟩
    show clip w.length = 31 ∨ PhraseFree (w.take (clip w.length))
    by_cases hl : w.length ≤ 31
    · right
      have hc : clip w.length = w.length := clip_of_lt (by show w.length < 32; omega)
      rw [hc, List.take_length]
      exact hw.2.2 hl
    · left
      unfold clip tokenSize
      simp only [Gen.tokenSize]
      have : ¬ w.length < 32 := by omega
      simp [this]
  · right; left; rfl

theorem drop_succ_of (l : Bytes) (p : Nat) (x : UInt8) (r : Bytes) (h : l.drop p = x :: r) : l.drop (p + 1) = r := by
  have : l.drop (p + 1) = (l.drop p).drop 1 := by rw [List.drop_drop]
  rw [this, h]; rfl

theorem drop_add_of (l : Bytes) (p : Nat) (w r : Bytes) (h : l.drop p = w ++ r) : l.drop (p + w.length) = r := by
  have : l.drop (p + w.length) = (l.drop p).drop w.length := by rw [List.drop_drop]
  rw [this, h, List.drop_left]

theorem lt_of_drop_cons (l : Bytes) (p : Nat) (x : UInt8) (r : Bytes) (h : l.drop p = x :: r) : p < l.length := by
  rcases Nat.lt_or_ge p l.length with hl | hg
  · exact hl
  · rw [List.drop_of_length_le hg] at h; cases h

/-- what a scan step over the remaining text guarantees -/
def TxtStep (s : State) (more : Bool) (s' : State) : Prop :=
  Txt (s'.input.drop s'.pos) ∧ s'.ddx = s.ddx ∧ s'.hash = s.hash ∧ s'.input = s.input ∧ s'.flags = s.flags ∧
  (more = true → ∃ t, s'.tv[s.cur]? = some t ∧ BenignTok t)

/-- **the scan loop over words, numbers and spaces** emits benign tokens and stays on the text -/
theorem tokLoop_txt (fuel : Nat) : ∀ (s : State), Txt (s.input.drop s.pos) → s.cur < s.tv.length →
    s.input.length - s.pos < fuel → ∃ more s', tokLoop s fuel = .ok (more, s') ∧ TxtStep s more s' := by
  induction fuel with
  | zero => intro s _ _ hf; omega
  | succ fuel ih =>
    intro s htxt hc hf
    unfold tokLoop
    generalize hd : s.input.drop s.pos = d at htxt
    cases htxt with
    | nil =>
      have hge : ¬ s.pos < s.input.length := by
        intro hlt
        have := congrArg List.length hd
        simp at this; omega
      simp only [hge, ↓reduceIte, pure, Except.pure]
      exact ⟨false, s, rfl, by rw [hd]; exact Txt.nil, rfl, rfl, rfl, rfl, fun h => by cases h⟩
    | @space r hr =>
      have hlt := lt_of_drop_cons _ _ _ _ hd
      have hl0 : 0 < (s.input.drop s.pos).length := by rw [hd]; simp
      have h0 : (s.input.drop s.pos)[0] = 32 := by simp [hd]
      simp only [hlt, ↓reduceIte, sliceFrom_ok s.input s.pos (Nat.le_of_lt hlt), at'_ok hl0, h0, dispatch_space,
        bind, Except.bind, pure, Except.pure, runP, parseWhite, tvSet_ok s s.cur _ hc]
      split
      · rename_i hcat
        exact absurd hcat (by simp)
      · obtain ⟨more, s', h1, t1, t2, t3, t4, t5, t6⟩ := ih
          { s with tv := s.tv.set s.cur { ({} : Token) with pos := ({} : Token).pos + s.pos }, pos := s.pos + 1,
                   ddx := s.ddx + 0, hash := s.hash + 0 }
          (by show Txt (s.input.drop (s.pos + 1)); rw [drop_succ_of _ _ _ _ hd]; exact hr)
          (by simp; exact hc) (by show s.input.length - (s.pos + 1) < fuel; omega)
        exact ⟨more, s', h1, t1, t2, t3, t4, t5, t6⟩
    | @word w r hw hsep hr =>
      have hwl : 1 ≤ w.length := by
        rcases hw with hw | hw
        · exact (goodWord_bytes hw).2
        · exact length_pos_of_ne_nil hw.1
      have hlt : s.pos < s.input.length := by
        rcases Nat.lt_or_ge s.pos s.input.length with hl | hg
        · exact hl
        · rw [List.drop_of_length_le hg] at hd
          have := congrArg List.length hd
          simp at this; omega
      have hl0 : 0 < (s.input.drop s.pos).length := by rw [hd]; simp; omega
      have hwr : 0 < (w ++ r).length := by simp; omega
      obtain ⟨cat, hcat, hrun⟩ := runP_good s.flags w r hw hsep ((w ++ r)[0]'hwr) (List.getElem?_eq_getElem hwr)
      have h0 : (s.input.drop s.pos)[0] = (w ++ r)[0]'hwr := by simp [hd]
      simp only [hlt, ↓reduceIte, sliceFrom_ok s.input s.pos (Nat.le_of_lt hlt), at'_ok hl0, h0,
        bind, Except.bind, pure, Except.pure]
      rw [hd, hrun]
      simp only [tvSet_ok s s.cur _ hc]
      have hne0 : (({ goodTok cat w with pos := (goodTok cat w).pos + s.pos } : Token).cat != 0) = true := by
        rcases hcat with ⟨rfl, _⟩ | ⟨rfl, _⟩ <;> rfl
      simp only [hne0, ↓reduceIte]
      refine ⟨true, _, rfl, ?_, rfl, rfl, rfl, rfl, fun _ => ⟨{ goodTok cat w with pos := (goodTok cat w).pos + s.pos },
        by simp [List.getElem?_set, hc], goodTok_benign cat w hcat _⟩⟩
      show Txt (s.input.drop (s.pos + w.length))
      rw [drop_add_of _ _ _ _ hd]; exact hr
    | @wordAt w r sp hw hsp hr =>
      have hwl : 1 ≤ w.length := (goodWord_bytes hw).2
      have hlt : s.pos < s.input.length := by
        rcases Nat.lt_or_ge s.pos s.input.length with hl | hg
        · exact hl
        · rw [List.drop_of_length_le hg] at hd
          have := congrArg List.length hd
          simp at this
      have hl0 : 0 < (s.input.drop s.pos).length := by rw [hd]; simp; omega
      have hwr : 0 < (w ++ sp :: r).length := by simp; omega
      have hrun := runP_goodWord s.flags w (sp :: r) hw (Or.inr ⟨sp, r, rfl, hsp⟩) ((w ++ sp :: r)[0]'hwr) (List.getElem?_eq_getElem hwr)
      have h0 : (s.input.drop s.pos)[0] = (w ++ sp :: r)[0]'hwr := by simp [hd]
      simp only [hlt, ↓reduceIte, sliceFrom_ok s.input s.pos (Nat.le_of_lt hlt), at'_ok hl0, h0,
        bind, Except.bind, pure, Except.pure]
      rw [hd, hrun]
      simp only [tvSet_ok s s.cur _ hc]
      have hne0 : (({ goodTok 110 w with pos := (goodTok 110 w).pos + s.pos } : Token).cat != 0) = true := rfl
      simp only [hne0, ↓reduceIte]
      refine ⟨true, _, rfl, ?_, rfl, rfl, rfl, rfl, fun _ => ⟨{ goodTok 110 w with pos := (goodTok 110 w).pos + s.pos },
        by simp [List.getElem?_set, hc], goodTok_benign 110 w (Or.inl ⟨rfl, hw⟩) _⟩⟩
      show Txt (s.input.drop (s.pos + w.length))
      rw [drop_add_of _ _ _ _ hd]; exact hr
    | @sci w r hw hsep hr =>
      have hw0 := hw
      obtain ⟨d1, x, e, sg, hwe, ⟨hne1, hall1⟩, _, _, _⟩ := hw0
      have hl1 : 1 ≤ d1.length := length_pos_of_ne_nil hne1
      have hwl : 1 ≤ w.length := by rw [hwe]; simp; omega
      have hlt : s.pos < s.input.length := by
        rcases Nat.lt_or_ge s.pos s.input.length with hl | hg
        · exact hl
        · rw [List.drop_of_length_le hg] at hd
          have := congrArg List.length hd
          simp at this; omega
      have hl0 : 0 < (s.input.drop s.pos).length := by rw [hd]; simp; omega
      have hwr : 0 < (w ++ r).length := by simp; omega
      have hc0 : (w ++ r)[0]'hwr ∈ d1 := by
        have h1 : (w ++ r)[0]? = d1[0]? := by
          rw [hwe, List.append_assoc, List.getElem?_append_left (by omega)]
        rw [List.getElem?_eq_getElem hwr] at h1
        exact List.mem_of_getElem? h1.symm
      have hdisp := dispatch_digit _ (List.all_eq_true.mp hall1 _ hc0)
      have hrun : parseNumber (w ++ r) = .ok { tok := goodTok 49 w, next := w.length } :=
        parseNumber_sci w r hw hsep.toN
      have h0 : (s.input.drop s.pos)[0] = (w ++ r)[0]'hwr := by simp [hd]
      simp only [hlt, ↓reduceIte, sliceFrom_ok s.input s.pos (Nat.le_of_lt hlt), at'_ok hl0, h0, hdisp,
        bind, Except.bind, pure, Except.pure, runP]
      rw [hd, hrun]
      simp only [tvSet_ok s s.cur _ hc]
      have hne0 : (({ goodTok 49 w with pos := (goodTok 49 w).pos + s.pos } : Token).cat != 0) = true := rfl
      simp only [hne0, ↓reduceIte]
      refine ⟨true, _, rfl, ?_, rfl, rfl, rfl, rfl, fun _ => ⟨{ goodTok 49 w with pos := (goodTok 49 w).pos + s.pos },
        by simp [List.getElem?_set, hc], Or.inr (Or.inl rfl)⟩⟩
      show Txt (s.input.drop (s.pos + w.length))
      rw [drop_add_of _ _ _ _ hd]; exact hr
    | @dec w r hw hsep hr =>
      obtain ⟨d1, d2, hwe, ⟨hne1, hall1⟩, hd2⟩ := hw
      have hl1 : 1 ≤ d1.length := length_pos_of_ne_nil hne1
      have hwl : 1 ≤ w.length := by rw [hwe]; simp; omega
      have hlt : s.pos < s.input.length := by
        rcases Nat.lt_or_ge s.pos s.input.length with hl | hg
        · exact hl
        · rw [List.drop_of_length_le hg] at hd
          have := congrArg List.length hd
          simp at this; omega
      have hl0 : 0 < (s.input.drop s.pos).length := by rw [hd]; simp; omega
      have hwr : 0 < (w ++ r).length := by simp; omega
      have hc0 : (w ++ r)[0]'hwr ∈ d1 := by
        have h1 : (w ++ r)[0]? = d1[0]? := by
          rw [hwe, List.append_assoc, List.getElem?_append_left (by omega)]
        rw [List.getElem?_eq_getElem hwr] at h1
        exact List.mem_of_getElem? h1.symm
      have hdisp := dispatch_digit _ (List.all_eq_true.mp hall1 _ hc0)
      have hrun : parseNumber (w ++ r) = .ok { tok := goodTok 49 w, next := w.length } :=
        parseNumber_dec w r ⟨d1, d2, hwe, ⟨hne1, hall1⟩, hd2⟩ hsep
      have h0 : (s.input.drop s.pos)[0] = (w ++ r)[0]'hwr := by simp [hd]
      simp only [hlt, ↓reduceIte, sliceFrom_ok s.input s.pos (Nat.le_of_lt hlt), at'_ok hl0, h0, hdisp,
        bind, Except.bind, pure, Except.pure, runP]
      rw [hd, hrun]
      simp only [tvSet_ok s s.cur _ hc]
      have hne0 : (({ goodTok 49 w with pos := (goodTok 49 w).pos + s.pos } : Token).cat != 0) = true := rfl
      simp only [hne0, ↓reduceIte]
      refine ⟨true, _, rfl, ?_, rfl, rfl, rfl, rfl, fun _ => ⟨{ goodTok 49 w with pos := (goodTok 49 w).pos + s.pos },
        by simp [List.getElem?_set, hc], Or.inr (Or.inl rfl)⟩⟩
      show Txt (s.input.drop (s.pos + w.length))
      rw [drop_add_of _ _ _ _ hd]; exact hr
    | @dotted w r hw hsep hr =>
      have hwl : 1 ≤ w.length := by have := (dotted_bytes hw).2.1; omega
      have hlt : s.pos < s.input.length := by
        rcases Nat.lt_or_ge s.pos s.input.length with hl | hg
        · exact hl
        · rw [List.drop_of_length_le hg] at hd
          have := congrArg List.length hd
          simp at this; omega
      have hl0 : 0 < (s.input.drop s.pos).length := by rw [hd]; simp; omega
      have hwr : 0 < (w ++ r).length := by simp; omega
      have hrun := runP_goodDotted s.flags w r hw hsep.toW ((w ++ r)[0]'hwr) (List.getElem?_eq_getElem hwr)
      have h0 : (s.input.drop s.pos)[0] = (w ++ r)[0]'hwr := by simp [hd]
      simp only [hlt, ↓reduceIte, sliceFrom_ok s.input s.pos (Nat.le_of_lt hlt), at'_ok hl0, h0,
        bind, Except.bind, pure, Except.pure]
      rw [hd, hrun]
      simp only [tvSet_ok s s.cur _ hc]
      have hne0 : (({ goodTok 110 w with pos := (goodTok 110 w).pos + s.pos } : Token).cat != 0) = true := rfl
      simp only [hne0, ↓reduceIte]
      refine ⟨true, _, rfl, ?_, rfl, rfl, rfl, rfl, fun _ => ⟨{ goodTok 110 w with pos := (goodTok 110 w).pos + s.pos },
        by simp [List.getElem?_set, hc], dottedTok_benign w hw _⟩⟩
      show Txt (s.input.drop (s.pos + w.length))
      rw [drop_add_of _ _ _ _ hd]; exact hr
    | @dottedAt w r sp hw hsp hr =>
      have hwl : 1 ≤ w.length := by have := (dotted_bytes hw).2.1; omega
      have hlt : s.pos < s.input.length := by
        rcases Nat.lt_or_ge s.pos s.input.length with hl | hg
        · exact hl
        · rw [List.drop_of_length_le hg] at hd
          have := congrArg List.length hd
          simp at this
      have hl0 : 0 < (s.input.drop s.pos).length := by rw [hd]; simp; omega
      have hwr : 0 < (w ++ sp :: r).length := by simp; omega
      have hrun := runP_goodDotted s.flags w (sp :: r) hw (Or.inr ⟨sp, r, rfl, hsp⟩) ((w ++ sp :: r)[0]'hwr) (List.getElem?_eq_getElem hwr)
      have h0 : (s.input.drop s.pos)[0] = (w ++ sp :: r)[0]'hwr := by simp [hd]
      simp only [hlt, ↓reduceIte, sliceFrom_ok s.input s.pos (Nat.le_of_lt hlt), at'_ok hl0, h0,
        bind, Except.bind, pure, Except.pure]
      rw [hd, hrun]
      simp only [tvSet_ok s s.cur _ hc]
      have hne0 : (({ goodTok 110 w with pos := (goodTok 110 w).pos + s.pos } : Token).cat != 0) = true := rfl
      simp only [hne0, ↓reduceIte]
      refine ⟨true, _, rfl, ?_, rfl, rfl, rfl, rfl, fun _ => ⟨{ goodTok 110 w with pos := (goodTok 110 w).pos + s.pos },
        by simp [List.getElem?_set, hc], dottedTok_benign w hw _⟩⟩
      show Txt (s.input.drop (s.pos + w.length))
      rw [drop_add_of _ _ _ _ hd]; exact hr
    | @numAt w r sp hw hsp hr =>
      have hwl : 1 ≤ w.length := length_pos_of_ne_nil hw.1
      have hlt : s.pos < s.input.length := by
        rcases Nat.lt_or_ge s.pos s.input.length with hl | hg
        · exact hl
        · rw [List.drop_of_length_le hg] at hd
          have := congrArg List.length hd
          simp at this
      have hl0 : 0 < (s.input.drop s.pos).length := by rw [hd]; simp; omega
      have hwr : 0 < (w ++ sp :: r).length := by simp; omega
      have hcm : (w ++ sp :: r)[0]'hwr ∈ w := by
        have h1 : (w ++ sp :: r)[0]? = w[0]? := List.getElem?_append_left (by omega)
        rw [List.getElem?_eq_getElem hwr] at h1
        exact List.mem_of_getElem? h1.symm
      have hdisp := dispatch_digit _ (List.all_eq_true.mp hw.2 _ hcm)
      have hrun : parseNumber (w ++ sp :: r) = .ok { tok := goodTok 49 w, next := w.length } :=
        parseNumber_good w (sp :: r) hw (Or.inr ⟨sp, r, rfl, hsp⟩)
      have h0 : (s.input.drop s.pos)[0] = (w ++ sp :: r)[0]'hwr := by simp [hd]
      simp only [hlt, ↓reduceIte, sliceFrom_ok s.input s.pos (Nat.le_of_lt hlt), at'_ok hl0, h0, hdisp,
        bind, Except.bind, pure, Except.pure, runP]
      rw [hd, hrun]
      simp only [tvSet_ok s s.cur _ hc]
      have hne0 : (({ goodTok 49 w with pos := (goodTok 49 w).pos + s.pos } : Token).cat != 0) = true := rfl
      simp only [hne0, ↓reduceIte]
      refine ⟨true, _, rfl, ?_, rfl, rfl, rfl, rfl, fun _ => ⟨{ goodTok 49 w with pos := (goodTok 49 w).pos + s.pos },
        by simp [List.getElem?_set, hc], goodTok_benign 49 w (Or.inr ⟨rfl, hw⟩) _⟩⟩
      show Txt (s.input.drop (s.pos + w.length))
      rw [drop_add_of _ _ _ _ hd]; exact hr
    | @punct p r hp hr =>
      have hlt := lt_of_drop_cons _ _ _ _ hd
      have hl0 : 0 < (s.input.drop s.pos).length := by rw [hd]; simp
      have h0 : (s.input.drop s.pos)[0] = p := by simp [hd]
      have hrun : runP s.flags (p :: r) (dispatch p) = .ok { tok := punctTok p, next := 1 } := by
        rcases hp with rfl | rfl
        · exact runP_comma _ _
        · exact runP_qmark _ _
      simp only [hlt, ↓reduceIte, sliceFrom_ok s.input s.pos (Nat.le_of_lt hlt), at'_ok hl0, h0,
        bind, Except.bind, pure, Except.pure]
      rw [hd, hrun]
      simp only [tvSet_ok s s.cur _ hc]
      have hne0 : (({ punctTok p with pos := (punctTok p).pos + s.pos } : Token).cat != 0) = true := by
        rcases hp with rfl | rfl <;> rfl
      simp only [hne0, ↓reduceIte]
      refine ⟨true, _, rfl, ?_, rfl, rfl, rfl, rfl, fun _ => ⟨{ punctTok p with pos := (punctTok p).pos + s.pos },
        by simp [List.getElem?_set, hc], ?_⟩⟩
      · show Txt (s.input.drop (s.pos + 1))
        rw [drop_succ_of _ _ _ _ hd]; exact hr
      · rcases hp with rfl | rfl
        · right; right; right; right; left; rfl
        · right; right; right; right; right; left; rfl
    | @colon r hr =>
      have hlt := lt_of_drop_cons _ _ _ _ hd
      have hl0 : 0 < (s.input.drop s.pos).length := by rw [hd]; simp
      have h0 : (s.input.drop s.pos)[0] = 58 := by simp [hd]
      simp only [hlt, ↓reduceIte, sliceFrom_ok s.input s.pos (Nat.le_of_lt hlt), at'_ok hl0, h0,
        bind, Except.bind, pure, Except.pure]
      rw [hd, runP_colon]
      simp only [tvSet_ok s s.cur _ hc]
      have hne0 : (({ punctTok 58 with pos := (punctTok 58).pos + s.pos } : Token).cat != 0) = true := rfl
      simp only [hne0, ↓reduceIte]
      refine ⟨true, _, rfl, ?_, rfl, rfl, rfl, rfl, fun _ => ⟨{ punctTok 58 with pos := (punctTok 58).pos + s.pos },
        by simp [List.getElem?_set, hc], ?_⟩⟩
      · show Txt (s.input.drop (s.pos + 1))
        rw [drop_succ_of _ _ _ _ hd]; exact Txt.space hr
      · right; right; right; right; right; right; rfl
    | @var vw r hv hsep hr =>
      have hvl : 1 ≤ vw.length := (varBody_bytes hv).2
      have hlt : s.pos < s.input.length := lt_of_drop_cons _ _ _ _ hd
      have hl0 : 0 < (s.input.drop s.pos).length := by rw [hd]; simp
      have h0 : (s.input.drop s.pos)[0] = 64 := by simp [hd]
      simp only [hlt, ↓reduceIte, sliceFrom_ok s.input s.pos (Nat.le_of_lt hlt), at'_ok hl0, h0, var_space_facts.2,
        bind, Except.bind, pure, Except.pure, runP]
      rw [hd, parseVar_good vw r hv hsep]
      simp only [tvSet_ok s s.cur _ hc]
      have hne0 : (({ varTok vw with pos := (varTok vw).pos + s.pos } : Token).cat != 0) = true := rfl
      simp only [hne0, ↓reduceIte]
      refine ⟨true, _, rfl, ?_, rfl, rfl, rfl, rfl, fun _ => ⟨{ varTok vw with pos := (varTok vw).pos + s.pos },
        by simp [List.getElem?_set, hc], Or.inr (Or.inr (Or.inr (Or.inl rfl)))⟩⟩
      show Txt (s.input.drop (s.pos + (1 + vw.length)))
      have : s.input.drop s.pos = (64 :: vw) ++ r := by rw [hd]; rfl
      have := drop_add_of _ _ _ _ this
      simp only [List.length_cons] at this
      rw [show s.pos + (1 + vw.length) = s.pos + (vw.length + 1) by omega]
      rw [this]; exact hr

/-- no virtual opening quote (the as-is readings) -/
def NoQ (flags : Nat) : Prop := (hasFlag flags flagQuoteSingle || hasFlag flags flagQuoteDouble) = false

theorem tokenize_txt (s : State) (htxt : Txt (s.input.drop s.pos)) (hc : s.cur < s.tv.length) (hq : NoQ s.flags) :
    ∃ more s', tokenize s = .ok (more, s') ∧ TxtStep s more s' := by
  unfold tokenize
  by_cases he : (s.input.length == 0) = true
  · simp only [he, ↓reduceIte, pure, Except.pure]
    exact ⟨false, s, rfl, htxt, rfl, rfl, rfl, rfl, fun h => by cases h⟩
  · simp only [he, Bool.false_eq_true, ↓reduceIte, tvSet_ok s s.cur _ hc, bind, Except.bind, pure, Except.pure]
    unfold NoQ at hq
    simp only [hq, Bool.and_false, Bool.false_eq_true, ↓reduceIte]
    obtain ⟨more, s', h1, t1, t2, t3, t4, t5, t6⟩ := tokLoop_txt (s.input.length + 1) { s with tv := s.tv.set s.cur {} }
      htxt (by simp; exact hc) (by show s.input.length - s.pos < s.input.length + 1; omega)
    exact ⟨more, s', h1, t1, t2, t3, t4, t5, t6⟩

/-- the scanner-side part of the benign invariant -/
def ScanOK (s : State) : Prop :=
  s.tv.length = 8 ∧ s.pos ≤ s.input.length ∧ Txt (s.input.drop s.pos) ∧ NoQ s.flags ∧ s.ddx = 0 ∧ s.hash = 0

/-- one `tokenize` call on the text: scanner invariant kept, and every token of the new window is an
old one or (when a token is reported) benign, or an empty slot -/
theorem tokenize_scan (s : State) (hs : ScanOK s) (hc : s.cur < 8) :
    ∃ more s', tokenize s = .ok (more, s') ∧ ScanOK s' ∧ s'.cur = s.cur ∧ s'.input = s.input ∧
      (∀ t ∈ s'.tv, t ∈ s.tv ∨ BenignTok t) ∧
      (more = true → ∃ t, s'.tv[s.cur]? = some t ∧ BenignTok t ∧ t.cat ≠ 0) := by
  obtain ⟨hlen, hpos, htxt, hq, hd, hh⟩ := hs
  have hcur : s.cur < s.tv.length := by rw [hlen]; exact hc
  obtain ⟨more, s', h1, t1, t2, t3, t4, t5, t6⟩ := tokenize_txt s htxt hcur hq
  obtain ⟨more2, s2, h2, hstep⟩ := tokenize_ok s hpos hcur
  rw [h1] at h2
  have e1 : more2 = more := by cases h2; rfl
  have e2 : s2 = s' := by cases h2; rfl
  subst e1; subst e2
  have hstep0 := hstep
  obtain ⟨q1, q2, q3, q4, q5, q6, q7, q8, q9, q10, q11, q12, q13⟩ := hstep
  refine ⟨more2, s2, h1, ⟨by rw [q4]; exact hlen, by rw [q1]; exact q6, t1, by rw [t5]; exact hq, by rw [t2]; exact hd,
    by rw [t3]; exact hh⟩, q3, q1, ?_, ?_⟩
  · intro t ht
    rcases mem_of_step hstep0 t ht with h | h
    · exact Or.inl h
    · cases more2 with
      | true =>
        obtain ⟨t', ht', hb⟩ := t6 rfl
        rw [ht'] at h
        rw [← Option.some.inj h]; exact Or.inr hb
      | false =>
        rcases q13 rfl t h with h0 | h0
        · exact Or.inr (Or.inl h0)
        · exact Or.inl (List.mem_of_getElem? h0)
  · intro hm
    obtain ⟨t', ht', hb⟩ := t6 hm
    obtain ⟨_, t'', ht'', hne, _⟩ := q8 hm
    rw [ht'] at ht''
    rw [← Option.some.inj ht''] at hne
    exact ⟨t', ht', hb, hne⟩

/-- the token-fetching loop on the text keeps the window benign and the scanner on the text -/
theorem fetch_txt (k : Nat) (fuel : Nat) : ∀ (f f' : FS), ScanOK f.s → BInv f → fetch f k fuel = .ok f' →
    ScanOK f'.s ∧ BInv f' := by
  induction fuel with
  | zero => intro f f' _ _ h; simp [fetch] at h
  | succ fuel ih =>
    intro f f' hs hb h
    unfold fetch at h
    by_cases hc : (f.more && decide (f.pos ≤ maxTokens) && decide (f.pos - f.left < k)) = true
    · have hp5 : f.pos ≤ 5 := by
        simp only [Bool.and_eq_true, decide_eq_true_eq] at hc; exact hc.1.2
      have hs1 : ScanOK { f.s with cur := f.pos } := hs
      obtain ⟨more, s', hr, hs', hcur, _, hmem, hnew⟩ := tokenize_scan { f.s with cur := f.pos } hs1 (by show f.pos < 8; omega)
      simp only [hc, ↓reduceIte, hr, bind, Except.bind, pure, Except.pure] at h
      have hbtv : ∀ t ∈ s'.tv, BenignTok t := by
        intro t ht
        rcases hmem t ht with h' | h'
        · exact hb.1 t h'
        · exact h'
      cases more with
      | false =>
        simp only [Bool.false_eq_true, ↓reduceIte] at h
        exact ih { f with s := s', more := false } f' hs' ⟨hbtv, hb.2⟩ h
      | true =>
        obtain ⟨t, ht, hbt, hne⟩ := hnew rfl
        have hget : tvGet s' s'.cur = .ok t := by
          unfold tvGet; rw [hcur]
          show (match s'.tv[f.pos]? with | some t => Except.ok t | none => Except.error Err.tv) = _
          have : s'.tv[f.pos]? = some t := ht
          rw [this]
        simp only [↓reduceIte, hget] at h
        have h99 : (t.cat == 99) = false := hbt.ne 99 (by decide) (by decide) (by decide) (by decide)
        simp only [h99, Bool.false_eq_true, ↓reduceIte] at h
        exact ih _ f' hs' ⟨hbtv, Or.inl rfl⟩ h
    · simp only [hc, Bool.false_eq_true, ↓reduceIte, pure, Except.pure, Except.ok.injEq] at h
      rw [← h]; exact ⟨hs, hb⟩

end LibInj.Sqli
