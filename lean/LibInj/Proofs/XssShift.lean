import LibInj.Proofs.H5Shift
import LibInj.Proofs.XssTotal
set_option linter.unusedSimpArgs false
set_option linter.unusedVariables false
/-! C13: the `isXSS` loop gives the same verdict on a machine state and on the same state over a longer
input whose extra bytes were prepended (positions shifted). -/
namespace LibInj.Xss
open LibInj LibInj.H5

theorem slice_sh (t s : Bytes) (a l : Nat) :
    slice (t ++ s) (a + t.length) (a + t.length + l) = slice s a (a + l) := by
  unfold slice
  rw [len_sh]
  by_cases h : a ≤ a + l ∧ a + l ≤ s.length
  · rw [if_pos h, if_pos (by omega), drop_sh]
    congr 2; omega
  · rw [if_neg h, if_neg (by omega)]

@[simp] theorem shiftH_s (t : Bytes) (h : H) : (shiftH t h).s = t ++ h.s := rfl
@[simp] theorem shiftH_tokStart (t : Bytes) (h : H) : (shiftH t h).tokStart = h.tokStart + t.length := rfl
@[simp] theorem shiftH_tokLen (t : Bytes) (h : H) : (shiftH t h).tokLen = h.tokLen := rfl
@[simp] theorem shiftH_tokType (t : Bytes) (h : H) : (shiftH t h).tokType = h.tokType := rfl

theorem commentIsXSS_sh (t : Bytes) (h : H) : commentIsXSS (shiftH t h) = commentIsXSS h := by
  unfold commentIsXSS
  simp only [shiftH_s, shiftH_tokStart, shiftH_tokLen, slice_sh, off_sh]
  cases slice h.s h.tokStart (h.tokStart + h.tokLen) with
  | error e => rfl
  | ok tk =>
    simp only [bind, Except.bind]
    split
    · rfl
    · cases offFrom h.s h.tokStart with
      | error e => rfl
      | ok start => simp only [Except.map, drop_sh]

theorem xssLoop_sh (t : Bytes) : ∀ (fuel fuel' : Nat) (a b : Nat) (c : Ty) (h : H) (attr : Nat),
    Inv h → ShOK h → mu h < fuel → mu h < fuel' →
    xssLoop (shiftG t a b c h) attr fuel' = xssLoop h attr fuel
  | 0, _, _, _, _, _, _, _, _, hf, _ => by omega
  | _ + 1, 0, _, _, _, _, _, _, _, _, hf => by omega
  | fuel + 1, fuel' + 1, a, b, c, h, attr, hi, ho, hf, hf' => by
    obtain ⟨bb, h', hn, hs, hrest⟩ := next_spec h hi
    have hsh := next_sh t a b c h hi.1 ho
    rw [hn] at hsh
    unfold xssLoop
    cases bb with
    | false =>
      obtain ⟨x, hx⟩ := sh_ok_false t _ _ hsh
      rw [hx, hn]; rfl
    | true =>
      have hx := sh_ok_true t _ _ hsh
      obtain ⟨hmu, hinv, htok, _⟩ := hrest rfl
      have ho' := next_shok h hi h' hn
      have ih : ∀ attr', xssLoop (shiftH t h') attr' fuel' = xssLoop h' attr' fuel := fun attr' =>
        xssLoop_sh t fuel fuel' _ _ _ h' attr' hinv ho' (by omega) (by omega)
      rw [hx, hn]
      simp only [bind, Except.bind, pure, Except.pure, Bool.not_true, Bool.false_eq_true, ↓reduceIte,
        shiftH_s, shiftH_tokStart, shiftH_tokLen, shiftH_tokType, slice_sh, commentIsXSS_sh, ih]
      rfl

/-- one iteration of the loop, given only that the two `next` steps agree up to the shift -/
theorem xssLoop_of_next_sh (t : Bytes) (X h : H) (attr fuel fuel' : Nat) (hi : Inv h)
    (hsh : Sh t (next X) (next h)) (hf : mu h < fuel + 1) (hf' : mu h < fuel' + 1) :
    xssLoop X attr (fuel' + 1) = xssLoop h attr (fuel + 1) := by
  obtain ⟨bb, h', hn, hs, hrest⟩ := next_spec h hi
  rw [hn] at hsh
  unfold xssLoop
  cases bb with
  | false =>
    obtain ⟨x, hx⟩ := sh_ok_false t _ _ hsh
    rw [hx, hn]; rfl
  | true =>
    have hx := sh_ok_true t _ _ hsh
    obtain ⟨hmu, hinv, htok, _⟩ := hrest rfl
    have ho' := next_shok h hi h' hn
    have ih : ∀ attr', xssLoop (shiftH t h') attr' fuel' = xssLoop h' attr' fuel := fun attr' =>
      xssLoop_sh t fuel fuel' _ _ _ h' attr' hinv ho' (by omega) (by omega)
    rw [hx, hn]
    simp only [bind, Except.bind, pure, Except.pure, Bool.not_true, Bool.false_eq_true, ↓reduceIte,
      shiftH_s, shiftH_tokStart, shiftH_tokLen, shiftH_tokType, slice_sh, commentIsXSS_sh, ih]
    rfl

theorem xssLoop_eof (h : H) (hs : h.state = .eof) (attr fuel : Nat) : xssLoop h attr (fuel + 1) = .ok false := by
  unfold xssLoop next
  rw [hs]
  rfl

/-- a text token is ignored by the loop -/
theorem xssLoop_text (h h' : H) (attr fuel : Nat) (hn : next h = .ok (true, h')) (ht : h'.tokType = .dataText) :
    xssLoop h attr (fuel + 1) = xssLoop h' 0 fuel := by
  conv => lhs; unfold xssLoop
  rw [hn]
  simp only [bind, Except.bind, pure, Except.pure, Bool.not_true, Bool.false_eq_true, ↓reduceIte, ht]
  rfl

theorem indexByte_append (c : UInt8) (s : Bytes) : ∀ (t : Bytes), c ∉ t →
    indexByte (t ++ s) c = (indexByte s c).map (· + t.length)
  | [], _ => by simp
  | x :: t, h => by
    have hx : (x == c) = false := by
      rw [beq_eq_false_iff_ne]; intro e; exact h (by rw [e]; simp)
    have ht : c ∉ t := fun hm => h (by simp [hm])
    have e : indexByte (x :: (t ++ s)) c = if x == c then some 0 else (indexByte (t ++ s) c).map (· + 1) := rfl
    show indexByte (x :: (t ++ s)) c = _
    rw [e, hx, indexByte_append c s t ht]
    cases indexByte s c with
    | none => rfl
    | some i => simp [Nat.add_assoc]

/-- `stateData` at the start of `s`, with the position of the first `<` known -/
theorem stateData_some (d : Nat) (h : H) (i : Nat) (hp : h.pos ≤ h.s.length) (hi : indexByte (h.s.drop h.pos) 60 = some i) :
    stateData (d + 1) h = (if (i == 0) = true then stateTagOpen d (emit h h.pos i .dataText (h.pos + i + 1) .tagOpen)
      else .ok (true, emit h h.pos i .dataText (h.pos + i + 1) .tagOpen)) := by
  unfold stateData
  simp only [offFrom_ok hp, hi, bind, Except.bind, pure, Except.pure]

theorem stateData_none (d : Nat) (h : H) (hp : h.pos ≤ h.s.length) (hi : indexByte (h.s.drop h.pos) 60 = none) :
    stateData (d + 1) h = .ok (h.s.length - h.pos != 0,
      { h with tokStart := h.pos, tokLen := h.s.length - h.pos, tokType := .dataText, state := .eof }) := by
  unfold stateData
  simp only [offFrom_ok hp, hi, bind, Except.bind, pure, Except.pure]

/-- no `<` at all: the data context reports nothing -/
theorem isXSSCtx_noLT (s : Bytes) (hi : indexByte s 60 = none) : isXSSCtx s 0 = .ok false := by
  unfold isXSSCtx xssFuel
  have hn : next (init s 0) = .ok (s.length - 0 != 0,
      { init s 0 with tokStart := 0, tokLen := s.length - 0, tokType := .dataText, state := .eof }) :=
    stateData_none 5 (init s 0) (Nat.zero_le _) hi
  cases hb : (s.length - 0 != 0) with
  | false =>
    rw [hb] at hn
    show xssLoop (init s 0) 0 (3 * s.length + 3 + 1) = _
    unfold xssLoop
    rw [hn]; rfl
  | true =>
    rw [hb] at hn
    show xssLoop (init s 0) 0 (3 * s.length + 3 + 1) = _
    rw [xssLoop_text _ _ _ _ hn rfl]
    exact xssLoop_eof _ rfl 0 _

theorem data_prefix (s t : Bytes) (ht : (60 : UInt8) ∉ t) : isXSSCtx (t ++ s) 0 = isXSSCtx s 0 := by
  cases htn : t with
  | nil => rfl
  | cons x t0 =>
  rw [← htn]
  have hn1 : 1 ≤ t.length := by rw [htn]; simp
  cases hi : indexByte s 60 with
  | none =>
    rw [isXSSCtx_noLT s hi, isXSSCtx_noLT (t ++ s) (by rw [indexByte_append 60 s t ht, hi]; rfl)]
  | some i =>
    have hlt : i < s.length := indexByte_lt hi
    -- the state after the leading text, on `s`
    let h1 : H := emit (init s 0) 0 i .dataText (0 + i + 1) .tagOpen
    have hinv1 : Inv h1 := by
      refine ⟨?_, ?_, ?_, ?_⟩
      · show 0 + i + 1 ≤ s.length; omega
      · intro h; cases h
      · intro h; cases h
      · intro h; rcases h with h | h | h <;> cases h
    have hok1 : ShOK h1 := by
      refine ⟨?_, ?_, ?_, ?_, ?_, ?_⟩
      · intro h; cases h
      · intro _; show 1 ≤ 0 + i + 1; omega
      · intro h; cases h
      · intro h; cases h
      · intro h; cases h
      · intro h; cases h
    have hmu1 : mu h1 ≤ 3 * s.length := by
      show 3 * (s.length - (0 + i + 1)) + 3 ≤ 3 * s.length
      omega
    -- the run on `t ++ s`: one text token, then the shifted state
    have hT : next (init (t ++ s) 0) = .ok (true, shiftG t 0 (i + t.length) .dataText h1) := by
      have e := stateData_some 5 (init (t ++ s) 0) (i + t.length) (Nat.zero_le _)
        (by show indexByte ((t ++ s).drop 0) 60 = _; rw [List.drop_zero, indexByte_append 60 s t ht, hi]; rfl)
      have e0 : (i + t.length == 0) = false := by rw [beq_eq_false_iff_ne]; omega
      rw [e0] at e
      show stateData 6 (init (t ++ s) 0) = _
      rw [e]
      simp only [Bool.false_eq_true, ↓reduceIte]
      congr 2
      refine H_eq _ _ rfl ?_ rfl rfl rfl rfl rfl
      show 0 + (i + t.length) + 1 = 0 + i + 1 + t.length
      omega
    have hL : isXSSCtx (t ++ s) 0 = xssLoop (shiftG t 0 (i + t.length) .dataText h1) 0 (3 * (t ++ s).length + 3) := by
      unfold isXSSCtx xssFuel
      exact xssLoop_text _ _ _ _ hT rfl
    rw [hL]
    -- the run on `s`
    have hS := stateData_some 5 (init s 0) i (Nat.zero_le _) (by show indexByte (s.drop 0) 60 = _; rw [List.drop_zero]; exact hi)
    by_cases hi0 : (i == 0) = true
    · rw [if_pos hi0] at hS
      -- `next (init s 0)` and `next h1` are the same call at depths 5 and 6
      obtain ⟨b, h', hr, _⟩ := stateTagOpen_good 0 h1 hinv1.1
      have h6 : stateTagOpen 6 h1 = .ok (b, h') := (depth_mono 5).2.1 h1 _ hr
      have hnext : next (init s 0) = next h1 := by
        show stateData 6 (init s 0) = stateTagOpen 6 h1
        rw [hS, h6]; exact hr
      have hR : isXSSCtx s 0 = xssLoop h1 0 (3 * s.length + 3 + 1) := by
        unfold isXSSCtx xssFuel
        show xssLoop (init s 0) 0 (3 * s.length + 3 + 1) = xssLoop h1 0 (3 * s.length + 3 + 1)
        conv => lhs; unfold xssLoop
        conv => rhs; unfold xssLoop
        rw [hnext]
      rw [hR]
      exact xssLoop_sh t _ _ _ _ _ h1 0 hinv1 hok1 (by omega) (by rw [len_sh]; omega)
    · rw [if_neg hi0] at hS
      have hR : isXSSCtx s 0 = xssLoop h1 0 (3 * s.length + 3) := by
        unfold isXSSCtx xssFuel
        exact xssLoop_text _ _ _ _ hS rfl
      rw [hR]
      exact xssLoop_sh t _ _ _ _ _ h1 0 hinv1 hok1 (by omega) (by rw [len_sh]; omega)

/-! ### the harmless tag prefixes of the attribute contexts -/

theorem embed1_next (s : Bytes) :
    next (init ([60, 97, 32] ++ s) 0) = .ok (true, shiftG [60, 97, 32] 1 1 .tagNameOpen (init s 1)) := rfl

/-- `<a b=` followed by a quote `q`: the first three steps -/
theorem embedq_next1 (q : UInt8) (s : Bytes) :
    next (init ([60, 97, 32, 98, 61, q] ++ s) 0) =
      .ok (true, { s := [60, 97, 32, 98, 61, q] ++ s, pos := 3, state := .beforeAttrName, tokStart := 1, tokLen := 1, tokType := .tagNameOpen }) := rfl

theorem embedq_next2 (q : UInt8) (s : Bytes) :
    next { s := [60, 97, 32, 98, 61, q] ++ s, pos := 3, state := .beforeAttrName, tokStart := 1, tokLen := 1, tokType := .tagNameOpen } =
      .ok (true, { s := [60, 97, 32, 98, 61, q] ++ s, pos := 5, state := .beforeAttrValue, tokStart := 3, tokLen := 1, tokType := .attrName }) := rfl

theorem xssLoop_tag (h h' : H) (attr fuel : Nat) (v : Bytes) (hn : next h = .ok (true, h')) (ht : h'.tokType = .tagNameOpen)
    (hv : slice h'.s h'.tokStart (h'.tokStart + h'.tokLen) = .ok v) (hb : isBlackTag v = false) :
    xssLoop h attr (fuel + 1) = xssLoop h' 0 fuel := by
  conv => lhs; unfold xssLoop
  rw [hn]
  simp only [bind, Except.bind, pure, Except.pure, Bool.not_true, Bool.false_eq_true, ↓reduceIte, ht, hv, hb]
  rfl

theorem xssLoop_attrName (h h' : H) (attr fuel : Nat) (v : Bytes) (hn : next h = .ok (true, h')) (ht : h'.tokType = .attrName)
    (hv : slice h'.s h'.tokStart (h'.tokStart + h'.tokLen) = .ok v) :
    xssLoop h attr (fuel + 1) = xssLoop h' (isBlackAttr v) fuel := by
  conv => lhs; unfold xssLoop
  rw [hn]
  simp only [bind, Except.bind, pure, Except.pure, Bool.not_true, Bool.false_eq_true, ↓reduceIte, ht, hv]

theorem blackTag_a : isBlackTag [97] = false := by decide +kernel
theorem blackAttr_b : isBlackAttr [98] = 0 := by decide +kernel

theorem init_inv1 (s : Bytes) : ShOK (init s 1) := by
  refine ⟨?_, ?_, ?_, ?_, ?_, ?_⟩ <;> (intro h; cases h)

theorem embed_ctx1 (s : Bytes) : isXSSCtx ([60, 97, 32] ++ s) 0 = isXSSCtx s 1 := by
  unfold isXSSCtx xssFuel
  have hF : 3 * ([60, 97, 32] ++ s).length + 4 = (3 * s.length + 12) + 1 := by
    rw [len_sh]; show 3 * (s.length + 3) + 4 = _; omega
  rw [hF, xssLoop_tag _ _ _ _ [97] (embed1_next s) rfl rfl blackTag_a]
  have hm : mu (init s 1) ≤ 3 * s.length + 3 := by
    show 3 * (s.length - 0) + 3 ≤ _
    omega
  exact xssLoop_sh _ _ _ _ _ _ (init s 1) 0 (init_inv s 1) (init_inv1 s) (Nat.lt_succ_of_le hm) (by omega)

theorem valueQuoteCore_state (q : UInt8) (h : H) (st : St) : valueQuoteCore q { h with state := st } = valueQuoteCore q h := rfl

theorem embed_quote (q : UInt8) (c : Nat) (hc : c = 2 ∨ c = 3 ∨ c = 4) (hq : q = (if c = 2 then 39 else if c = 3 then 34 else 96))
    (s : Bytes) : isXSSCtx ([60, 97, 32, 98, 61, q] ++ s) 0 = isXSSCtx s c := by
  unfold isXSSCtx xssFuel
  have hF : 3 * ([60, 97, 32, 98, 61, q] ++ s).length + 4 = (3 * s.length + 19) + 1 + 1 + 1 := by
    rw [len_sh]; show 3 * (s.length + 6) + 4 = _; omega
  have hF2 : 3 * s.length + 4 = (3 * s.length + 3) + 1 := rfl
  rw [hF, hF2, xssLoop_tag _ _ _ _ [97] (embedq_next1 q s) rfl rfl blackTag_a,
    xssLoop_attrName _ _ _ _ [98] (embedq_next2 q s) rfl rfl, blackAttr_b]
  have hm : mu (init s c) ≤ 3 * s.length + 3 := by
    have := rank_le (init s c).state
    show 3 * (s.length - 0) + rank (init s c).state ≤ _
    omega
  refine xssLoop_of_next_sh [60, 97, 32, 98, 61, q] _ (init s c) 0 _ _ (init_inv s c) ?_ (by omega) (by omega)
  have key : ∀ (st : St), Sh [60, 97, 32, 98, 61, q]
      (valueQuoteCore q { s := [60, 97, 32, 98, 61, q] ++ s, pos := 6, state := .beforeAttrValue, tokStart := 3, tokLen := 1, tokType := .attrName })
      (valueQuoteCore q { s := s, pos := 0, state := st }) := by
    intro st
    have := valueQuoteCore_sh q [60, 97, 32, 98, 61, q] 3 1 .attrName { s := s, pos := 0, state := .beforeAttrValue }
    rw [← valueQuoteCore_state q { s := s, pos := 0, state := st } .beforeAttrValue]
    exact this
  rcases hc with rfl | rfl | rfl <;> subst hq <;> exact key _
