import LibInj.Proofs.H5Good
set_option linter.unusedSimpArgs false
set_option linter.unusedVariables false
/-! First-terminator refinements of the searching loops of the HTML5 tokenizer (C17):
`<![CDATA[ .. ]]>`, `<% .. %>`. -/
namespace LibInj.H5
open LibInj

/-- the two bytes `a b` stand at offset `i` -/
def Term2 (s : Bytes) (a b : UInt8) (i : Nat) : Prop := s[i]? = some a ∧ s[i + 1]? = some b
/-- the three bytes `a b c` stand at offset `i` -/
def Term3 (s : Bytes) (a b c : UInt8) (i : Nat) : Prop := s[i]? = some a ∧ s[i + 1]? = some b ∧ s[i + 2]? = some c

/-- result of a searching loop that found its terminator at `i`, of width `w` -/
def foundAt (h : H) (ty : Ty) (i w : Nat) : M (Bool × H) := .ok (true, emit h h.pos (i - h.pos) ty (i + w) .data)
/-- result of a searching loop that ran to end of input -/
def ranOut (h : H) (ty : Ty) : M (Bool × H) :=
  .ok (true, { h with state := .eof, tokStart := h.pos, tokLen := h.s.length - h.pos, tokType := ty })

theorem drop_get (s : Bytes) (p k : Nat) : (s.drop p)[k]? = s[p + k]? := by
  simp [List.getElem?_drop]

theorem cdataLoop_first (h : H) (hp : h.pos ≤ h.s.length) :
    ∀ fuel pos, h.pos ≤ pos → pos ≤ h.s.length → h.s.length - pos < fuel →
      (∀ j, h.pos ≤ j → j < pos → ¬ Term3 h.s 93 93 62 j) →
      (∀ i, Term3 h.s 93 93 62 i → h.pos ≤ i → (∀ j, h.pos ≤ j → j < i → ¬ Term3 h.s 93 93 62 j) →
        cdataLoop h pos fuel = foundAt h .dataText i 3) ∧
      ((∀ i, h.pos ≤ i → ¬ Term3 h.s 93 93 62 i) → cdataLoop h pos fuel = ranOut h .dataText) := by
  intro fuel
  induction fuel with
  | zero => intro pos _ _ hf; omega
  | succ fuel ih =>
    intro pos h1 h2 hf hbefore
    unfold cdataLoop
    simp only [offFrom_ok h2, offFrom_ok hp, bind, Except.bind, pure, Except.pure]
    cases hi : indexByte (h.s.drop pos) 93 with
    | none =>
      have hno : ∀ k, pos ≤ k → h.s[k]? ≠ some 93 := by
        intro k hk hk93
        have := (indexByte_none_iff _ _).mp hi
        apply this
        have : (h.s.drop pos)[k - pos]? = some 93 := by rw [drop_get]; rw [show pos + (k - pos) = k by omega]; exact hk93
        exact List.mem_of_getElem? this
      simp only []
      refine ⟨fun i hti hpi hfirst => ?_, fun _ => rfl⟩
      exfalso
      rcases Nat.lt_or_ge i pos with hlt | hge
      · exact hbefore i hpi hlt hti
      · exact hno i hge hti.1
    | some index =>
      have hlt := indexByte_lt hi
      simp at hlt
      obtain ⟨hat, hnone⟩ := (indexByte_some_iff _ _ _).mp hi
      rw [drop_get] at hat
      have hno : ∀ k, pos ≤ k → k < pos + index → h.s[k]? ≠ some 93 := by
        intro k hk1 hk2 hk93
        have := hnone (k - pos) (by omega)
        rw [drop_get, show pos + (k - pos) = k by omega] at this
        exact this hk93
      simp only []
      by_cases hg : pos + index + 3 > h.s.length
      · rw [if_pos hg]
        refine ⟨fun i hti hpi hfirst => ?_, fun _ => rfl⟩
        exfalso
        rcases Nat.lt_or_ge i pos with hl | hge
        · exact hbefore i hpi hl hti
        · rcases Nat.lt_or_ge i (pos + index) with hl2 | hge2
          · exact hno i hge hl2 hti.1
          · have := getElem?_some_lt hti.2.2
            omega
      · rw [if_neg hg]
        have h3 : pos + index + 2 < h.s.length := by omega
        rw [at'_ok (by omega : pos + index + 1 < h.s.length)]
        simp only []
        -- no terminator strictly before `pos + index`
        have hb2 : ∀ j, h.pos ≤ j → j < pos + index → ¬ Term3 h.s 93 93 62 j := by
          intro j hj1 hj2 ht
          rcases Nat.lt_or_ge j pos with hl | hge
          · exact hbefore j hj1 hl ht
          · exact hno j hge hj2 ht.1
        have recurse : ¬ Term3 h.s 93 93 62 (pos + index) →
            (∀ i, Term3 h.s 93 93 62 i → h.pos ≤ i → (∀ j, h.pos ≤ j → j < i → ¬ Term3 h.s 93 93 62 j) →
              cdataLoop h (pos + index + 1) fuel = foundAt h .dataText i 3) ∧
            ((∀ i, h.pos ≤ i → ¬ Term3 h.s 93 93 62 i) → cdataLoop h (pos + index + 1) fuel = ranOut h .dataText) := by
          intro hnt
          apply ih (pos + index + 1) (by omega) (by omega) (by omega)
          intro j hj1 hj2
          rcases Nat.lt_or_ge j (pos + index) with hl | hge
          · exact hb2 j hj1 hl
          · have : j = pos + index := by omega
            rw [this]; exact hnt
        by_cases hc1 : h.s[pos + index + 1] = 93
        · simp only [hc1, beq_self_eq_true, ite_true, at'_ok h3]
          by_cases hc2 : h.s[pos + index + 2] = 62
          · have e2 : (h.s[pos + index + 2] == 62) = true := by simp [hc2]
            simp only [e2, ite_true]
            have hterm : Term3 h.s 93 93 62 (pos + index) :=
              ⟨hat, by rw [List.getElem?_eq_getElem (by omega), hc1], by rw [List.getElem?_eq_getElem h3, hc2]⟩
            refine ⟨fun i hti hpi hfirst => ?_, fun hnone' => absurd hterm (hnone' _ (by omega))⟩
            have hi_eq : i = pos + index := by
              rcases Nat.lt_trichotomy i (pos + index) with hl | he | hg'
              · exact absurd hti (hb2 i hpi hl)
              · exact he
              · exact absurd hterm (hfirst _ (by omega) hg')
            subst hi_eq
            rfl
          · have e2 : (h.s[pos + index + 2] == 62) = false := by simpa using hc2
            simp only [e2, Bool.false_eq_true, ite_false]
            apply recurse
            intro ht
            have := ht.2.2
            rw [List.getElem?_eq_getElem h3] at this
            exact hc2 (Option.some.inj this)
        · have e1 : (h.s[pos + index + 1] == 93) = false := by simpa using hc1
          simp only [e1, Bool.false_eq_true, ite_false]
          apply recurse
          intro ht
          have := ht.2.1
          rw [List.getElem?_eq_getElem (by omega)] at this
          exact hc1 (Option.some.inj this)

/-- **`<![CDATA[ .. ]]>`**: the token spans exactly the bytes before the first `]]>` at or after the
scan offset and tokenizing resumes right after it; without one the token runs to end of input -/
theorem cdata_first_terminator (h : H) (hp : h.pos ≤ h.s.length) :
    (∀ i, Term3 h.s 93 93 62 i → h.pos ≤ i → (∀ j, h.pos ≤ j → j < i → ¬ Term3 h.s 93 93 62 j) →
      stateCData h = foundAt h .dataText i 3) ∧
    ((∀ i, h.pos ≤ i → ¬ Term3 h.s 93 93 62 i) → stateCData h = ranOut h .dataText) :=
  cdataLoop_first h hp _ _ (Nat.le_refl _) hp (by omega) (fun j h1 h2 => by omega)

/-- result of `<% ..` without `%>`: the token runs to end of input and the scan offset moves there -/
def ranOutEnd (h : H) (ty : Ty) : M (Bool × H) := .ok (true, emit h h.pos (h.s.length - h.pos) ty h.s.length .eof)

theorem bogus2Loop_first (h : H) (hp : h.pos ≤ h.s.length) :
    ∀ fuel pos, h.pos ≤ pos → pos ≤ h.s.length → h.s.length - pos < fuel →
      (∀ j, h.pos ≤ j → j < pos → ¬ Term2 h.s 37 62 j) →
      (∀ i, Term2 h.s 37 62 i → h.pos ≤ i → (∀ j, h.pos ≤ j → j < i → ¬ Term2 h.s 37 62 j) →
        bogus2Loop h pos fuel = foundAt h .tagComment i 2) ∧
      ((∀ i, h.pos ≤ i → ¬ Term2 h.s 37 62 i) → bogus2Loop h pos fuel = ranOutEnd h .tagComment) := by
  intro fuel
  induction fuel with
  | zero => intro pos _ _ hf; omega
  | succ fuel ih =>
    intro pos h1 h2 hf hbefore
    unfold bogus2Loop
    simp only [offFrom_ok h2, offFrom_ok hp, bind, Except.bind, pure, Except.pure]
    cases hi : indexByte (h.s.drop pos) 37 with
    | none =>
      have hno : ∀ k, pos ≤ k → h.s[k]? ≠ some 37 := by
        intro k hk hk37
        have := (indexByte_none_iff _ _).mp hi
        apply this
        have : (h.s.drop pos)[k - pos]? = some 37 := by rw [drop_get]; rw [show pos + (k - pos) = k by omega]; exact hk37
        exact List.mem_of_getElem? this
      simp only []
      refine ⟨fun i hti hpi hfirst => ?_, fun _ => rfl⟩
      exfalso
      rcases Nat.lt_or_ge i pos with hlt | hge
      · exact hbefore i hpi hlt hti
      · exact hno i hge hti.1
    | some index =>
      have hlt := indexByte_lt hi
      simp at hlt
      obtain ⟨hat, hnone⟩ := (indexByte_some_iff _ _ _).mp hi
      rw [drop_get] at hat
      have hno : ∀ k, pos ≤ k → k < pos + index → h.s[k]? ≠ some 37 := by
        intro k hk1 hk2 hk37
        have := hnone (k - pos) (by omega)
        rw [drop_get, show pos + (k - pos) = k by omega] at this
        exact this hk37
      have hb2 : ∀ j, h.pos ≤ j → j < pos + index → ¬ Term2 h.s 37 62 j := by
        intro j hj1 hj2 ht
        rcases Nat.lt_or_ge j pos with hl | hge
        · exact hbefore j hj1 hl ht
        · exact hno j hge hj2 ht.1
      simp only []
      by_cases hg : pos + index + 1 ≥ h.s.length
      · rw [if_pos hg]
        refine ⟨fun i hti hpi hfirst => ?_, fun _ => rfl⟩
        exfalso
        rcases Nat.lt_or_ge i (pos + index) with hl2 | hge2
        · exact hb2 i hpi hl2 hti
        · have := getElem?_some_lt hti.2
          omega
      · rw [if_neg hg]
        have h3 : pos + index + 1 < h.s.length := by omega
        rw [at'_ok h3]
        simp only []
        by_cases hc : h.s[pos + index + 1] = 62
        · have e : (h.s[pos + index + 1] != 62) = false := by simp [hc]
          simp only [e, Bool.false_eq_true, ite_false]
          have hterm : Term2 h.s 37 62 (pos + index) := ⟨hat, by rw [List.getElem?_eq_getElem h3, hc]⟩
          refine ⟨fun i hti hpi hfirst => ?_, fun hnone' => absurd hterm (hnone' _ (by omega))⟩
          have hi_eq : i = pos + index := by
            rcases Nat.lt_trichotomy i (pos + index) with hl | he | hg'
            · exact absurd hti (hb2 i hpi hl)
            · exact he
            · exact absurd hterm (hfirst _ (by omega) hg')
          subst hi_eq
          rfl
        · have e : (h.s[pos + index + 1] != 62) = true := by simpa using hc
          simp only [e, ite_true]
          apply ih (pos + index + 1) (by omega) (by omega) (by omega)
          intro j hj1 hj2
          rcases Nat.lt_or_ge j (pos + index) with hl | hge
          · exact hb2 j hj1 hl
          · have : j = pos + index := by omega
            rw [this]
            intro ht
            have := ht.2
            rw [List.getElem?_eq_getElem h3] at this
            exact hc (Option.some.inj this)

/-- **`<% .. %>`**: the token spans exactly the bytes before the first `%>` at or after the scan
offset and tokenizing resumes right after it; without one the token runs to end of input -/
theorem percent_first_terminator (h : H) (hp : h.pos ≤ h.s.length) :
    (∀ i, Term2 h.s 37 62 i → h.pos ≤ i → (∀ j, h.pos ≤ j → j < i → ¬ Term2 h.s 37 62 j) →
      stateBogusComment2 h = foundAt h .tagComment i 2) ∧
    ((∀ i, h.pos ≤ i → ¬ Term2 h.s 37 62 i) → stateBogusComment2 h = ranOutEnd h .tagComment) :=
  bogus2Loop_first h hp _ _ (Nat.le_refl _) hp (by omega) (fun j h1 h2 => by omega)

/-- a comment terminator at `i` with `n` NULs after its first dash: `-` NUL^n (`-`|`!`) `>` -/
def ComEnd (s : Bytes) (i n : Nat) : Prop :=
  s[i]? = some 45 ∧ (∀ k, k < n → s[i + 1 + k]? = some 0) ∧
  (s[i + 1 + n]? = some 45 ∨ s[i + 1 + n]? = some 33) ∧ s[i + 2 + n]? = some 62

theorem spn_isNul_eq : ∀ (l : Bytes) (n : Nat) (c : UInt8), (∀ k, k < n → l[k]? = some 0) → l[n]? = some c → c ≠ 0 →
    spn isNul l = n
  | [], n, c, _, h, _ => by simp at h
  | x :: xs, 0, c, _, h, hc => by
    have : x = c := by simpa using h
    subst this
    have : isNul x = false := by simp [isNul, hc]
    simp [spn, this]
  | x :: xs, n + 1, c, hz, h, hc => by
    have hx : x = 0 := by simpa using hz 0 (by omega)
    subst hx
    have ih := spn_isNul_eq xs n c (fun k hk => by simpa using hz (k + 1) (by omega)) (by simpa using h) hc
    simp [spn, isNul, ih]

theorem spn_isNul_all : ∀ (l : Bytes) (k : Nat), k < spn isNul l → l[k]? = some 0
  | [], k, h => by simp [spn] at h
  | x :: xs, k, h => by
    by_cases hx : isNul x = true
    · have hx0 : x = 0 := by simpa [isNul] using hx
      simp only [spn, hx, ↓reduceIte] at h
      cases k with
      | zero => simp [hx0]
      | succ k => simpa using spn_isNul_all xs k (by omega)
    · simp [spn, hx] at h

/-- at most one NUL-run length fits a terminator at a given dash -/
theorem comEnd_nulls (s : Bytes) (i n : Nat) (h : ComEnd s i n) : spn isNul (s.drop (i + 1)) = n := by
  obtain ⟨_, hz, hc, _⟩ := h
  rcases hc with hc | hc
  · exact spn_isNul_eq _ n 45 (fun k hk => by rw [drop_get]; exact hz k hk) (by rw [drop_get]; exact hc) (by decide)
  · exact spn_isNul_eq _ n 33 (fun k hk => by rw [drop_get]; exact hz k hk) (by rw [drop_get]; exact hc) (by decide)

theorem commentLoop_first (h : H) (hp : h.pos ≤ h.s.length) :
    ∀ fuel pos, h.pos ≤ pos → pos ≤ h.s.length → h.s.length - pos < fuel →
      (∀ j n, h.pos ≤ j → j < pos → ¬ ComEnd h.s j n) →
      (∀ i n, ComEnd h.s i n → h.pos ≤ i → (∀ j m, h.pos ≤ j → j < i → ¬ ComEnd h.s j m) →
        commentLoop h pos fuel = foundAt h .tagComment i (n + 3)) ∧
      ((∀ i n, h.pos ≤ i → ¬ ComEnd h.s i n) → commentLoop h pos fuel = ranOut h .tagComment) := by
  intro fuel
  induction fuel with
  | zero => intro pos _ _ hf; omega
  | succ fuel ih =>
    intro pos h1 h2 hf hbefore
    unfold commentLoop
    simp only [offFrom_ok h2, offFrom_ok hp, bind, Except.bind, pure, Except.pure]
    cases hi : indexByte (h.s.drop pos) 45 with
    | none =>
      have hno : ∀ k, pos ≤ k → h.s[k]? ≠ some 45 := by
        intro k hk hk45
        have := (indexByte_none_iff _ _).mp hi
        apply this
        have : (h.s.drop pos)[k - pos]? = some 45 := by rw [drop_get]; rw [show pos + (k - pos) = k by omega]; exact hk45
        exact List.mem_of_getElem? this
      simp only []
      refine ⟨fun i n hti hpi hfirst => ?_, fun _ => rfl⟩
      exfalso
      rcases Nat.lt_or_ge i pos with hlt | hge
      · exact hbefore i n hpi hlt hti
      · exact hno i hge hti.1
    | some index =>
      have hlt := indexByte_lt hi
      simp at hlt
      obtain ⟨hat, hnone⟩ := (indexByte_some_iff _ _ _).mp hi
      rw [drop_get] at hat
      have hno : ∀ k, pos ≤ k → k < pos + index → h.s[k]? ≠ some 45 := by
        intro k hk1 hk2 hk45
        have := hnone (k - pos) (by omega)
        rw [drop_get, show pos + (k - pos) = k by omega] at this
        exact this hk45
      have hb2 : ∀ j n, h.pos ≤ j → j < pos + index → ¬ ComEnd h.s j n := by
        intro j n hj1 hj2 ht
        rcases Nat.lt_or_ge j pos with hl | hge
        · exact hbefore j n hj1 hl ht
        · exact hno j hge hj2 ht.1
      -- nothing can end at or after a point from which fewer than three bytes remain
      have tooLate : ∀ b, h.s.length < b + 3 → (∀ j n, h.pos ≤ j → j < b → ¬ ComEnd h.s j n) →
          (∀ i n, ComEnd h.s i n → h.pos ≤ i → (∀ j m, h.pos ≤ j → j < i → ¬ ComEnd h.s j m) →
            ranOut h .tagComment = foundAt h .tagComment i (n + 3)) ∧
          ((∀ i n, h.pos ≤ i → ¬ ComEnd h.s i n) → ranOut h .tagComment = ranOut h .tagComment) := by
        intro b hb hnb
        refine ⟨fun i n hti hpi _ => ?_, fun _ => rfl⟩
        exfalso
        rcases Nat.lt_or_ge i b with hl | hge
        · exact hnb i n hpi hl hti
        · have := getElem?_some_lt hti.2.2.2
          omega
      -- the loop continues past a dash that does not start a terminator
      have recurse : (∀ n, ¬ ComEnd h.s (pos + index) n) →
          (∀ i n, ComEnd h.s i n → h.pos ≤ i → (∀ j m, h.pos ≤ j → j < i → ¬ ComEnd h.s j m) →
            commentLoop h (pos + index + 1) fuel = foundAt h .tagComment i (n + 3)) ∧
          ((∀ i n, h.pos ≤ i → ¬ ComEnd h.s i n) → commentLoop h (pos + index + 1) fuel = ranOut h .tagComment) := by
        intro hnt
        apply ih (pos + index + 1) (by omega) (by omega) (by omega)
        intro j n hj1 hj2
        rcases Nat.lt_or_ge j (pos + index) with hl | hge
        · exact hb2 j n hj1 hl
        · have : j = pos + index := by omega
          rw [this]; exact hnt n
      simp only []
      by_cases hg : pos + index + 3 > h.s.length
      · rw [if_pos hg]
        exact tooLate (pos + index) (by omega) hb2
      · rw [if_neg hg]
        have hn := spn_le isNul (h.s.drop (pos + index + 1))
        simp at hn
        have hnul := spn_isNul_all (h.s.drop (pos + index + 1))
        have hcom := comEnd_nulls h.s (pos + index)
        generalize spn isNul (h.s.drop (pos + index + 1)) = nulls at hn hnul hcom ⊢
        -- a terminator at this dash has exactly `nulls` NULs
        have hfit : ∀ n, ComEnd h.s (pos + index) n → n = nulls := fun n hce => (hcom n hce).symm
        -- after a dash followed only by NULs (and at most one more byte) nothing can end
        have lateEnd : h.s.length ≤ pos + index + 1 + nulls + 1 → (∀ n, ¬ ComEnd h.s (pos + index) n) →
            (∀ i n, ComEnd h.s i n → h.pos ≤ i → (∀ j m, h.pos ≤ j → j < i → ¬ ComEnd h.s j m) →
              ranOut h .tagComment = foundAt h .tagComment i (n + 3)) ∧
            ((∀ i n, h.pos ≤ i → ¬ ComEnd h.s i n) → ranOut h .tagComment = ranOut h .tagComment) := by
          intro he2 hnt
          refine ⟨fun i n hti hpi _ => ?_, fun _ => rfl⟩
          exfalso
          rcases Nat.lt_trichotomy i (pos + index) with hl | he | hgt
          · exact hb2 i n hpi hl hti
          · rw [he] at hti; exact hnt n hti
          · -- a later dash: it is not among the NULs, so it is at `e` or later; too late
            have hlen := getElem?_some_lt hti.2.2.2
            rcases Nat.lt_or_ge i (pos + index + 1 + nulls) with hl2 | hge2
            · have := hnul (i - (pos + index + 1)) (by omega)
              rw [drop_get, show pos + index + 1 + (i - (pos + index + 1)) = i by omega] at this
              rw [hti.1] at this
              exact absurd (Option.some.inj this) (by decide)
            · omega
        by_cases he1 : (pos + index + (1 + nulls) == h.s.length) = true
        · rw [if_pos he1]
          have : pos + index + (1 + nulls) = h.s.length := by simpa using he1
          apply lateEnd (by omega)
          intro n hce
          have hn' := hfit n hce
          subst hn'
          have := getElem?_some_lt hce.2.2.2
          omega
        · rw [if_neg he1]
          have hb1 : pos + index + (1 + nulls) < h.s.length := by
            have : ¬ (pos + index + (1 + nulls) = h.s.length) := by simpa using he1
            omega
          rw [at'_ok hb1]
          simp only []
          by_cases hch : (h.s[pos + index + (1 + nulls)] != 45 && h.s[pos + index + (1 + nulls)] != 33) = true
          · rw [if_pos hch]
            apply recurse
            intro n hce
            have hn' := hfit n hce
            subst hn'
            have hc := hce.2.2.1
            rw [show pos + index + 1 + n = pos + index + (1 + n) by omega, List.getElem?_eq_getElem hb1] at hc
            simp only [Bool.and_eq_true, bne_iff_ne, ne_eq] at hch
            rcases hc with hc | hc
            · exact hch.1 (Option.some.inj hc)
            · exact hch.2 (Option.some.inj hc)
          · rw [if_neg hch]
            by_cases he2 : (pos + index + (1 + nulls + 1) == h.s.length) = true
            · rw [if_pos he2]
              have : pos + index + (1 + nulls + 1) = h.s.length := by simpa using he2
              apply lateEnd (by omega)
              intro n hce
              have hn' := hfit n hce
              subst hn'
              have := getElem?_some_lt hce.2.2.2
              omega
            · rw [if_neg he2]
              have hb2' : pos + index + (1 + nulls + 1) < h.s.length := by
                have : ¬ (pos + index + (1 + nulls + 1) = h.s.length) := by simpa using he2
                omega
              rw [at'_ok hb2']
              simp only []
              by_cases hc2 : (h.s[pos + index + (1 + nulls + 1)] != 62) = true
              · rw [if_pos hc2]
                apply recurse
                intro n hce
                have hn' := hfit n hce
                subst hn'
                have hc := hce.2.2.2
                rw [show pos + index + 2 + n = pos + index + (1 + n + 1) by omega, List.getElem?_eq_getElem hb2'] at hc
                simp only [bne_iff_ne, ne_eq] at hc2
                exact hc2 (Option.some.inj hc)
              · rw [if_neg hc2]
                have hgt : h.s[pos + index + (1 + nulls + 1)] = 62 := by simpa using hc2
                have hchv : h.s[pos + index + (1 + nulls)] = 45 ∨ h.s[pos + index + (1 + nulls)] = 33 := by
                  simp only [Bool.and_eq_true, bne_iff_ne, ne_eq, not_and, Decidable.not_not] at hch
                  by_cases h45 : h.s[pos + index + (1 + nulls)] = 45
                  · exact Or.inl h45
                  · exact Or.inr (hch h45)
                have hterm : ComEnd h.s (pos + index) nulls := by
                  refine ⟨hat, fun k hk => ?_, ?_, ?_⟩
                  · have := hnul k hk
                    rw [drop_get] at this
                    exact this
                  · rw [show pos + index + 1 + nulls = pos + index + (1 + nulls) by omega, List.getElem?_eq_getElem hb1]
                    rcases hchv with hv | hv
                    · left; rw [hv]
                    · right; rw [hv]
                  · rw [show pos + index + 2 + nulls = pos + index + (1 + nulls + 1) by omega, List.getElem?_eq_getElem hb2', hgt]
                refine ⟨fun i n hti hpi hfirst => ?_, fun hnone' => absurd hterm (hnone' _ _ (by omega))⟩
                have hi_eq : i = pos + index := by
                  rcases Nat.lt_trichotomy i (pos + index) with hl | he | hg'
                  · exact absurd hti (hb2 i n hpi hl)
                  · exact he
                  · exact absurd hterm (hfirst _ _ (by omega) hg')
                subst hi_eq
                have hn' := hfit n hti
                subst hn'
                show Except.ok (true, emit h h.pos (index + pos - h.pos) Ty.tagComment (pos + index + (1 + n + 1 + 1)) St.data) = foundAt h .tagComment (pos + index) (n + 3)
                unfold foundAt
                rw [show index + pos = pos + index by omega, show pos + index + (1 + n + 1 + 1) = pos + index + (n + 3) by omega]

/-- **`<!-- .. -->` / `-!>`** (NULs tolerated after the first dash): the token spans exactly the bytes
before the first terminator `-` NUL* (`-`|`!`) `>` at or after the scan offset and tokenizing resumes
right after it; without one the token runs to end of input -/
theorem comment_first_terminator (h : H) (hp : h.pos ≤ h.s.length) :
    (∀ i n, ComEnd h.s i n → h.pos ≤ i → (∀ j m, h.pos ≤ j → j < i → ¬ ComEnd h.s j m) →
      stateComment h = foundAt h .tagComment i (n + 3)) ∧
    ((∀ i n, h.pos ≤ i → ¬ ComEnd h.s i n) → stateComment h = ranOut h .tagComment) :=
  commentLoop_first h hp _ _ (Nat.le_refl _) hp (by omega) (fun j n h1 h2 => by omega)

end LibInj.H5
