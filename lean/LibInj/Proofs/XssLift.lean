import LibInj.Proofs.XssTotal
import LibInj.Proofs.Index
import LibInj.Proofs.Case
set_option linter.unusedSimpArgs false
set_option linter.unusedVariables false
/-! C04: the tokenizer carries any blacklisted element name, after any `<`-free text and before any
text, to the classifier. -/
namespace LibInj.Xss
open LibInj LibInj.H5

theorem spnA_all (p : UInt8 → Bool) : ∀ (l : Bytes), l.all p = true → spn p l = l.length
  | [], _ => rfl
  | x :: xs, h => by
    simp only [List.all_cons, Bool.and_eq_true] at h
    simp [spn, h.1, spnA_all p xs h.2]

theorem spnA_stop (p : UInt8 → Bool) : ∀ (l : Bytes) (c : UInt8) (r : Bytes), l.all p = true → p c = false →
    spn p (l ++ c :: r) = l.length
  | [], c, r, _, hc => by simp [spn, hc]
  | x :: xs, c, r, h, hc => by
    simp only [List.all_cons, Bool.and_eq_true] at h
    simp [spn, h.1, spnA_stop p xs c r h.2 hc]

/-- an element name as the tokenizer scans it, followed by a byte that ends it (or by end of input) -/
structure NameAt (name rest : Bytes) : Prop where
  first : ∃ c t, name = c :: t ∧ (isAlpha c = true ∨ c = 0)
  bytes : name.all tagNameByte = true
  stop : rest = [] ∨ ∃ c t, rest = c :: t ∧ tagNameByte c = false

theorem spn_name (name rest : Bytes) (h : NameAt name rest) : spn tagNameByte (name ++ rest) = name.length := by
  rcases h.stop with rfl | ⟨c, t, rfl, hc⟩
  · simp only [List.append_nil]; exact spnA_all _ _ h.bytes
  · exact spnA_stop _ _ _ _ h.bytes hc

theorem indexByte_first (p : Bytes) (c : UInt8) (r : Bytes) (hp : c ∉ p) : indexByte (p ++ c :: r) c = some p.length := by
  rw [indexByte_some_iff]
  refine ⟨by simp, fun j hj => ?_⟩
  rw [List.getElem?_append_left hj]
  intro h
  exact hp (List.mem_of_getElem? h)

/-- a byte that ends a tag name is white space, `/` or `>` -/
theorem stop_byte (c : UInt8) (h : tagNameByte c = false) : isH5White c = true ∨ c = 47 ∨ c = 62 := by
  unfold tagNameByte at h
  simp only [Bool.not_eq_false', Bool.or_eq_true, beq_iff_eq] at h
  rcases h with (h | h) | h
  · exact Or.inl h
  · exact Or.inr (Or.inl h)
  · exact Or.inr (Or.inr h)

/-- **the tag-name state on a name**: one `tagNameOpen` token spanning exactly the name -/
theorem stateTagName_name (h : H) (pre name rest : Bytes) (hs : h.s = pre ++ name ++ rest) (hpos : h.pos = pre.length)
    (hclose : h.isClose = false) (hn : NameAt name rest) :
    ∃ h2, stateTagName h = .ok (true, h2) ∧ h2.s = h.s ∧ h2.tokType = .tagNameOpen ∧ h2.tokStart = pre.length ∧
      h2.tokLen = name.length ∧
      (∀ w t, rest = w :: t → isH5White w = true → h2.state = .beforeAttrName ∧ h2.pos = pre.length + name.length + 1) ∧
      (∀ t, rest = 47 :: t → h2.state = .selfClosing ∧ h2.pos = pre.length + name.length + 1) := by
  have hlen : h.s.length = pre.length + name.length + rest.length := by rw [hs]; simp; omega
  have hdrop : h.s.drop h.pos = name ++ rest := by
    rw [hs, hpos, List.append_assoc, List.drop_left]
  unfold stateTagName
  have hoff : offFrom h.s h.pos = .ok h.pos := by unfold offFrom; simp; omega
  simp only [hoff, bind, Except.bind, pure, Except.pure, hdrop, spn_name name rest hn]
  have hget : h.s[h.pos + name.length]? = rest[0]? := by
    rw [hs, hpos, List.append_assoc, List.getElem?_append_right (by omega)]
    rw [show pre.length + name.length - pre.length = name.length by omega]
    rw [List.getElem?_append_right (Nat.le_refl _)]
    simp
  rw [hget]
  rcases hn.stop with rfl | ⟨c, t, rfl, hc⟩
  · simp only [List.getElem?_nil]
    refine ⟨_, rfl, rfl, rfl, hpos, ?_, (fun w t h => by cases h), (fun t h => by cases h)⟩
    show h.s.length - h.pos = name.length
    rw [hlen, hpos]; simp
  · simp only [List.getElem?_cons_zero]
    rcases stop_byte c hc with hw | h47 | h62
    · simp only [hw, ↓reduceIte]
      exact ⟨_, rfl, rfl, rfl, hpos, by show h.pos + name.length - h.pos = name.length; omega,
        (fun w t _ _ => ⟨rfl, by show h.pos + name.length + 1 = _; rw [hpos]⟩),
        (fun t he => by simp only [List.cons.injEq] at he; rw [he.1] at hw; exact absurd hw (by decide))⟩
    · subst h47
      have : isH5White 47 = false := by decide
      simp only [this, Bool.false_eq_true, ↓reduceIte, beq_self_eq_true]
      exact ⟨_, rfl, rfl, rfl, hpos, by show h.pos + name.length - h.pos = name.length; omega,
        (fun w t he hw' => by simp only [List.cons.injEq] at he; rw [← he.1] at hw'; exact absurd hw' (by decide)),
        (fun t _ => ⟨rfl, by show h.pos + name.length + 1 = _; rw [hpos]⟩)⟩
    · subst h62
      have e1 : isH5White 62 = false := by decide
      have e2 : ((62 : UInt8) == 47) = false := by decide
      simp only [e1, e2, Bool.false_eq_true, ↓reduceIte, hclose]
      exact ⟨_, rfl, rfl, rfl, hpos, by show h.pos + name.length - h.pos = name.length; omega,
        (fun w t he hw' => by simp only [List.cons.injEq] at he; rw [← he.1] at hw'; exact absurd hw' (by decide)),
        (fun t he => by simp only [List.cons.injEq] at he; exact absurd he.1 (by decide))⟩

/-- **the tag-open state on a name** hands over to the tag-name state -/
theorem stateTagOpen_name (d : Nat) (h : H) (pre name rest : Bytes) (hs : h.s = pre ++ name ++ rest) (hpos : h.pos = pre.length)
    (hclose : h.isClose = false) (hn : NameAt name rest) :
    ∃ h2, stateTagOpen (d + 1) h = .ok (true, h2) ∧ h2.s = h.s ∧ h2.tokType = .tagNameOpen ∧ h2.tokStart = pre.length ∧
      h2.tokLen = name.length ∧
      (∀ w t, rest = w :: t → isH5White w = true → h2.state = .beforeAttrName ∧ h2.pos = pre.length + name.length + 1) ∧
      (∀ t, rest = 47 :: t → h2.state = .selfClosing ∧ h2.pos = pre.length + name.length + 1) := by
  obtain ⟨c, t, hname, hc⟩ := hn.first
  have hlen : h.s.length = pre.length + name.length + rest.length := by rw [hs]; simp; omega
  have hnl : 1 ≤ name.length := by rw [hname]; simp
  have hlt : h.pos < h.s.length := by omega
  have hch : h.s[h.pos] = c := by
    have : h.s[h.pos]? = some c := by
      rw [hs, hpos, List.append_assoc, List.getElem?_append_right (Nat.le_refl _), hname]; simp
    rw [List.getElem?_eq_getElem hlt] at this
    exact Option.some.inj this
  unfold stateTagOpen
  have hge : ¬ h.pos ≥ h.s.length := by omega
  simp only [hge, ↓reduceIte, at'_ok hlt, hch, bind, Except.bind, pure, Except.pure]
  have hne : (c == 33) = false ∧ (c == 47) = false ∧ (c == 63) = false ∧ (c == 37) = false := by
    rcases hc with hc | hc
    · have := forall_byte (fun c => !isAlpha c || (c != 33 && c != 47 && c != 63 && c != 37)) (by decide +kernel) c
      simp only [hc, Bool.not_true, Bool.false_or, Bool.and_eq_true, bne_iff_ne, ne_eq] at this
      obtain ⟨⟨⟨a1, a2⟩, a3⟩, a4⟩ := this
      simp [a1, a2, a3, a4]
    · subst hc; decide
  simp only [hne.1, hne.2.1, hne.2.2.1, hne.2.2.2, Bool.false_eq_true, ↓reduceIte]
  rcases hc with hc | hc
  · simp only [hc, ↓reduceIte]
    exact stateTagName_name h pre name rest hs hpos hclose hn
  · subst hc
    have : isAlpha 0 = false := by decide
    simp only [this, Bool.false_eq_true, ↓reduceIte, beq_self_eq_true]
    exact stateTagName_name h pre name rest hs hpos hclose hn

/-- the loop of `isXSS` on a `tagNameOpen` token whose text is blacklisted -/
theorem xssLoop_black_tag {name : Bytes} (h h2 : H) (attr fuel : Nat) (hnext : next h = .ok (true, h2)) (hty : h2.tokType = .tagNameOpen)
    (htok : slice h2.s h2.tokStart (h2.tokStart + h2.tokLen) = .ok name) (hb : isBlackTag name = true) :
    xssLoop h attr (fuel + 1) = .ok true := by
  unfold xssLoop
  simp only [hnext, bind, Except.bind, pure, Except.pure, Bool.not_true, Bool.false_eq_true, ↓reduceIte, hty, htok, hb]

/-- **C04, elements in element content**: after any `<`-free text, `<name` followed by a byte that
ends the name (or by end of input) and then by anything is reported, for every blacklisted name in
any spelling the classifier accepts -/
theorem black_tag_in_content (p name rest : Bytes) (hp : (60 : UInt8) ∉ p) (hn : NameAt name rest)
    (hb : isBlackTag name = true) : isXSSCtx (p ++ 60 :: (name ++ rest)) 0 = .ok true := by
  have hs' : p ++ 60 :: (name ++ rest) = (p ++ [60]) ++ name ++ rest := by simp
  unfold isXSSCtx xssFuel
  have hslice : ∀ (h2 : H), h2.s = p ++ 60 :: (name ++ rest) → h2.tokStart = (p ++ [60]).length → h2.tokLen = name.length →
      slice h2.s h2.tokStart (h2.tokStart + h2.tokLen) = .ok name := by
    intro h2 e1 e2 e3
    rw [e1, e2, e3, hs']
    unfold slice
    have hl : (p ++ [60]).length + name.length ≤ (p ++ [60] ++ name ++ rest).length := by simp; omega
    simp only [Nat.le_add_right, hl, and_self, ↓reduceIte]
    rw [List.append_assoc, List.drop_left, Nat.add_sub_cancel_left, List.take_left]
  by_cases hp0 : p = []
  · -- `<` is the first byte: the data state calls the tag-open state directly
    subst hp0
    have hnext : ∃ h2, next (init ([] ++ 60 :: (name ++ rest)) 0) = .ok (true, h2) ∧ h2.s = [] ++ 60 :: (name ++ rest) ∧
        h2.tokType = .tagNameOpen ∧ h2.tokStart = ([] ++ [60] : Bytes).length ∧ h2.tokLen = name.length ∧
        (∀ w t, rest = w :: t → isH5White w = true → h2.state = .beforeAttrName ∧ h2.pos = ([60] : Bytes).length + name.length + 1) ∧
        (∀ t, rest = 47 :: t → h2.state = .selfClosing ∧ h2.pos = ([60] : Bytes).length + name.length + 1) := by
      unfold next init
      simp only [List.nil_append]
      unfold stateData dataDepth
      simp only [offFrom, Nat.zero_le, ↓reduceIte, List.drop_zero, bind, Except.bind, pure, Except.pure]
      have hi : indexByte (60 :: (name ++ rest)) 60 = some 0 := by simp [indexByte]
      simp only [hi, beq_self_eq_true, ↓reduceIte]
      exact stateTagOpen_name 4 _ [60] name rest (by simp [emit]) (by simp [emit]) (by simp [emit]) hn
    obtain ⟨h2, e0, e1, e2, e3, e4, _, _⟩ := hnext
    exact xssLoop_black_tag _ h2 0 _ e0 e2 (hslice h2 e1 e3 e4) hb
  · -- some text first: a data token, then the tag-open state
    have hpl : 1 ≤ p.length := by cases p with | nil => exact absurd rfl hp0 | cons _ _ => simp
    have hidx : indexByte (p ++ 60 :: (name ++ rest)) 60 = some p.length := indexByte_first p 60 _ hp
    have hnext1 : next (init (p ++ 60 :: (name ++ rest)) 0) =
        .ok (true, emit (init (p ++ 60 :: (name ++ rest)) 0) 0 p.length .dataText (0 + p.length + 1) .tagOpen) := by
      unfold next init
      simp only []
      unfold stateData dataDepth
      simp only [offFrom, Nat.zero_le, ↓reduceIte, List.drop_zero, bind, Except.bind, pure, Except.pure, hidx]
      have : (p.length == 0) = false := by simp; omega
      simp only [this, Bool.false_eq_true, ↓reduceIte]
    obtain ⟨h2, e0, e1, e2, e3, e4, _⟩ := stateTagOpen_name 5
      (emit (init (p ++ 60 :: (name ++ rest)) 0) 0 p.length .dataText (0 + p.length + 1) .tagOpen) (p ++ [60]) name rest
      (by simp [emit, init]) (by simp [emit]) (by simp [emit, init]) hn
    have hnext2 : next (emit (init (p ++ 60 :: (name ++ rest)) 0) 0 p.length .dataText (0 + p.length + 1) .tagOpen) = .ok (true, h2) := by
      unfold next
      simp only [emit]
      exact e0
    have hfuel : 3 * (p ++ 60 :: (name ++ rest)).length + 4 = (3 * (p ++ 60 :: (name ++ rest)).length + 2) + 1 + 1 := by omega
    rw [hfuel]
    unfold xssLoop
    simp only [hnext1, bind, Except.bind, pure, Except.pure, Bool.not_true, Bool.false_eq_true, ↓reduceIte, emit]
    exact xssLoop_black_tag _ h2 0 _ hnext2 e2 (hslice h2 (by rw [e1]; simp [emit, init]) e3 e4) hb

/-! ## attributes -/

/-- an attribute name as the tokenizer scans it inside a tag, followed by `=` -/
structure AttrAt (name : Bytes) : Prop where
  first : ∃ c t, name = c :: t ∧ isSkipWhite c = false ∧ c ≠ 47 ∧ c ≠ 62 ∧ t.all attrNameByte = true

theorem skipWhite_run (h : H) (pre ws rest : Bytes) (c : UInt8) (hs : h.s = pre ++ ws ++ c :: rest) (hpos : h.pos = pre.length)
    (hws : ws.all isSkipWhite = true) (hc : isSkipWhite c = false) :
    skipWhite h = ({ h with pos := pre.length + ws.length }, some c) := by
  unfold skipWhite
  have hdrop : h.s.drop h.pos = ws ++ c :: rest := by rw [hs, hpos, List.append_assoc, List.drop_left]
  have hspn : spn isSkipWhite (ws ++ c :: rest) = ws.length := spnA_stop _ _ _ _ hws hc
  have hget : h.s[h.pos + ws.length]? = some c := by
    rw [hs, hpos, List.append_assoc, List.getElem?_append_right (by omega), show pre.length + ws.length - pre.length = ws.length by omega,
      List.getElem?_append_right (Nat.le_refl _)]
    simp
  rw [hpos] at hdrop hget
  simp only [hpos, hdrop, hspn, hget]

theorem eq_not_attrNameByte : attrNameByte 61 = false := by decide

/-- **the before-attribute-name state on `ws name = …`**: one `attrName` token spanning exactly the
name, and the before-attribute-value state right after the `=` -/
theorem beforeAttrName_name (d : Nat) (h : H) (pre ws name rest : Bytes) (hs : h.s = pre ++ ws ++ name ++ 61 :: rest)
    (hpos : h.pos = pre.length) (hws : ws.all isSkipWhite = true) (hn : AttrAt name) :
    ∃ h2, stateBeforeAttributeName (d + 1) h = .ok (true, h2) ∧ h2.s = h.s ∧ h2.tokType = .attrName ∧
      h2.tokStart = pre.length + ws.length ∧ h2.tokLen = name.length ∧ h2.state = .beforeAttrValue ∧
      h2.pos = pre.length + ws.length + name.length + 1 := by
  obtain ⟨c, t, hname, hcw, h47, h62, ht⟩ := hn.first
  have hs2 : h.s = pre ++ ws ++ c :: (t ++ 61 :: rest) := by rw [hs, hname]; simp
  have hlen : h.s.length = pre.length + ws.length + name.length + 1 + rest.length := by rw [hs]; simp; omega
  have hsk := skipWhite_run h pre ws (t ++ 61 :: rest) c hs2 hpos hws hcw
  unfold stateBeforeAttributeName
  -- the slash-skipping loop stops at once on `c`
  have hban : banLoop h (h.s.length + 1) = .ok ({ h with pos := pre.length + ws.length }, some c, false) := by
    unfold banLoop
    have hlt : h.pos < h.s.length := by rw [hlen, hpos, hname]; simp; omega
    have e47 : (c == 47) = false := by simpa using h47
    simp only [hlt, ↓reduceIte, hsk, e47, Bool.false_eq_true]
  have e62 : (c == 62) = false := by simpa using h62
  simp only [hban, bind, Except.bind, pure, Except.pure, Bool.false_eq_true, ↓reduceIte, e62]
  -- the attribute-name state
  unfold stateAttributeName
  have hoff : offFrom h.s (pre.length + ws.length) = .ok (pre.length + ws.length) := by unfold offFrom; simp; omega
  have hdrop : h.s.drop (pre.length + ws.length + 1) = t ++ 61 :: rest := by
    rw [hs2, show pre.length + ws.length + 1 = (pre ++ ws ++ [c]).length by simp; omega,
      show pre ++ ws ++ c :: (t ++ 61 :: rest) = (pre ++ ws ++ [c]) ++ (t ++ 61 :: rest) by simp, List.drop_left]
  have hspn : spn attrNameByte (t ++ 61 :: rest) = t.length := spnA_stop _ _ _ _ ht eq_not_attrNameByte
  have hget : h.s[pre.length + ws.length + 1 + t.length]? = some 61 := by
    rw [hs2, show pre ++ ws ++ c :: (t ++ 61 :: rest) = (pre ++ ws ++ [c]) ++ (t ++ 61 :: rest) by simp,
      List.getElem?_append_right (by simp; omega)]
    have : pre.length + ws.length + 1 + t.length - (pre ++ ws ++ [c]).length = t.length := by simp; omega
    rw [this, List.getElem?_append_right (Nat.le_refl _)]
    simp
  simp only [hoff, hdrop, hspn, hget, bind, Except.bind, pure, Except.pure]
  have w61 : isH5White 61 = false := by decide
  have s61 : ((61 : UInt8) == 47) = false := by decide
  simp only [w61, s61, Bool.false_eq_true, ↓reduceIte, beq_self_eq_true]
  have hnl : name.length = t.length + 1 := by rw [hname]; simp
  exact ⟨_, rfl, rfl, rfl, rfl, by show pre.length + ws.length + 1 + t.length - (pre.length + ws.length) = name.length; omega,
    rfl, by show pre.length + ws.length + 1 + t.length + 1 = _; omega⟩

/-- **the before-attribute-value state always emits an `attrValue` token when a non-blank byte follows** -/
theorem beforeAttrValue_token (h : H) (pre ws rest : Bytes) (c : UInt8) (hs : h.s = pre ++ ws ++ c :: rest) (hpos : h.pos = pre.length)
    (hws : ws.all isSkipWhite = true) (hc : isSkipWhite c = false) :
    ∃ h3, stateBeforeAttributeValue h = .ok (true, h3) ∧ h3.tokType = .attrValue ∧ h3.s = h.s := by
  have hlen : h.s.length = pre.length + ws.length + 1 + rest.length := by rw [hs]; simp; omega
  have hsk := skipWhite_run h pre ws rest c hs hpos hws hc
  unfold stateBeforeAttributeValue
  simp only [hsk]
  have quote : ∀ q : UInt8, ∃ h3, stateAttributeValueQuote q { h with pos := pre.length + ws.length } = .ok (true, h3) ∧
      h3.tokType = .attrValue ∧ h3.s = h.s := by
    intro q
    unfold stateAttributeValueQuote
    by_cases hp0 : pre.length + ws.length > 0
    · simp only [hp0, ↓reduceIte]
      have hoff : offFrom h.s (pre.length + ws.length + 1) = .ok (pre.length + ws.length + 1) := by unfold offFrom; simp; omega
      simp only [hoff, bind, Except.bind, pure, Except.pure]
      split <;> exact ⟨_, rfl, rfl, rfl⟩
    · simp only [hp0, ↓reduceIte]
      have hoff : offFrom h.s (pre.length + ws.length) = .ok (pre.length + ws.length) := by unfold offFrom; simp; omega
      simp only [hoff, bind, Except.bind, pure, Except.pure]
      split <;> exact ⟨_, rfl, rfl, rfl⟩
  by_cases c34 : (c == 34) = true
  · simp only [c34, ↓reduceIte]; exact quote 34
  simp only [c34, Bool.false_eq_true, ↓reduceIte]
  by_cases c39 : (c == 39) = true
  · simp only [c39, ↓reduceIte]; exact quote 39
  simp only [c39, Bool.false_eq_true, ↓reduceIte]
  by_cases c96 : (c == 96) = true
  · simp only [c96, ↓reduceIte]; exact quote 96
  simp only [c96, Bool.false_eq_true, ↓reduceIte]
  unfold stateAttributeValueNoQuote
  have hoff : offFrom h.s (pre.length + ws.length) = .ok (pre.length + ws.length) := by unfold offFrom; simp; omega
  simp only [hoff, bind, Except.bind, pure, Except.pure]
  split
  · exact ⟨_, rfl, rfl, rfl⟩
  · split <;> exact ⟨_, rfl, rfl, rfl⟩

/-- **C04, attributes**: from the before-attribute-name state, `ws name = ws2 v…` with a name the
classifier rates as an event handler / black attribute (1) or `style` (3) is reported as soon as any
value follows — quoted, back-quoted or bare, whatever it contains and whatever comes after -/
theorem xss_black_attr_core (h0 h : H) (d : Nat) (hnext0 : next h0 = stateBeforeAttributeName (d + 1) h)
    (pre ws name ws2 rest : Bytes) (c : UInt8)
    (hs : h.s = pre ++ ws ++ name ++ 61 :: (ws2 ++ c :: rest)) (hpos : h.pos = pre.length)
    (hws : ws.all isSkipWhite = true) (hws2 : ws2.all isSkipWhite = true) (hc : isSkipWhite c = false) (hn : AttrAt name)
    (hty : isBlackAttr name = 1 ∨ isBlackAttr name = 3) (attr fuel : Nat) : xssLoop h0 attr (fuel + 2) = .ok true := by
  obtain ⟨h2, e0, e1, e2, e3, e4, e5, e6⟩ := beforeAttrName_name d h pre ws name (ws2 ++ c :: rest) hs hpos hws hn
  have hnext1 : next h0 = .ok (true, h2) := by rw [hnext0]; exact e0
  have hslice : slice h2.s h2.tokStart (h2.tokStart + h2.tokLen) = .ok name := by
    rw [e1, e3, e4, hs]
    unfold slice
    have hl : pre.length + ws.length + name.length ≤ (pre ++ ws ++ name ++ 61 :: (ws2 ++ c :: rest)).length := by simp; omega
    simp only [Nat.le_add_right, hl, and_self, ↓reduceIte]
    rw [show pre ++ ws ++ name ++ 61 :: (ws2 ++ c :: rest) = (pre ++ ws) ++ (name ++ 61 :: (ws2 ++ c :: rest)) by simp,
      show pre.length + ws.length = (pre ++ ws).length by simp, List.drop_left, Nat.add_sub_cancel_left, List.take_left]
  obtain ⟨h3, f0, f1, _⟩ := beforeAttrValue_token h2 (pre ++ ws ++ name ++ [61]) ws2 rest c
    (by rw [e1, hs]; simp) (by rw [e6]; simp; omega) hws2 hc
  have hnext2 : next h2 = .ok (true, h3) := by unfold next; rw [e5]; exact f0
  unfold xssLoop
  simp only [hnext1, bind, Except.bind, pure, Except.pure, Bool.not_true, Bool.false_eq_true, ↓reduceIte, e2, hslice]
  unfold xssLoop
  simp only [hnext2, bind, Except.bind, pure, Except.pure, Bool.not_true, Bool.false_eq_true, ↓reduceIte, f1,
    bne_self_eq_false]
  rcases hty with h1 | h1 <;> simp [h1]

/-- … in the unquoted-attribute context itself (`x onerror=…`, after any blanks) -/
theorem black_attr_in_tag_context (ws name ws2 rest : Bytes) (c : UInt8) (hws : ws.all isSkipWhite = true)
    (hws2 : ws2.all isSkipWhite = true) (hc : isSkipWhite c = false) (hn : AttrAt name)
    (hty : isBlackAttr name = 1 ∨ isBlackAttr name = 3) :
    isXSSCtx (ws ++ name ++ 61 :: (ws2 ++ c :: rest)) 1 = .ok true := by
  unfold isXSSCtx xssFuel
  have hf : 3 * (ws ++ name ++ 61 :: (ws2 ++ c :: rest)).length + 4 = (3 * (ws ++ name ++ 61 :: (ws2 ++ c :: rest)).length + 2) + 2 := by omega
  rw [hf]
  exact xss_black_attr_core (init _ 1) (init _ 1) 3 rfl [] ws name ws2 rest c (by simp [init]) rfl hws hws2 hc hn hty 0 _

theorem valueQuote_at0 (h : H) (hp : h.pos = 0) (q : UInt8) (u rest : Bytes) (hs : h.s = u ++ q :: rest) (hu : q ∉ u) :
    stateAttributeValueQuote q h = .ok (true, emit h 0 u.length .attrValue (u.length + 1) .afterAttrValueQuoted) := by
  unfold stateAttributeValueQuote
  have hp0 : ¬ h.pos > 0 := by omega
  simp only [hp0, ↓reduceIte]
  have hoff : offFrom h.s 0 = .ok 0 := by unfold offFrom; simp
  have hidx : indexByte (h.s.drop 0) q = some u.length := by rw [hs]; exact indexByte_first u q _ hu
  simp only [hp, hoff, hidx, bind, Except.bind, pure, Except.pure, Nat.zero_add]

/-- … after breaking out of a quoted attribute value: `u q w name = v…`, the value `u` free of the
quote `q`, `w` a white-space byte (`ctx` 2, 3, 4 for `'`, `"` and the back-tick) -/
theorem black_attr_after_breakout (ctx : Nat) (q : UInt8) (hctx : ctx = 2 ∧ q = 39 ∨ ctx = 3 ∧ q = 34 ∨ ctx = 4 ∧ q = 96)
    (u ws name ws2 rest : Bytes) (w c : UInt8) (hu : q ∉ u) (hw : isH5White w = true)
    (hws : ws.all isSkipWhite = true) (hws2 : ws2.all isSkipWhite = true) (hc : isSkipWhite c = false) (hn : AttrAt name)
    (hty : isBlackAttr name = 1 ∨ isBlackAttr name = 3) :
    isXSSCtx (u ++ q :: w :: (ws ++ name ++ 61 :: (ws2 ++ c :: rest))) ctx = .ok true := by
  unfold isXSSCtx xssFuel
  generalize hS : u ++ q :: w :: (ws ++ name ++ 61 :: (ws2 ++ c :: rest)) = S
  have hSl : S.length = u.length + 2 + (ws ++ name ++ 61 :: (ws2 ++ c :: rest)).length := by rw [← hS]; simp; omega
  have hf : 3 * S.length + 4 = (3 * S.length + 1) + 2 + 1 := by omega
  rw [hf]
  -- first step: the quoted value up to the quote
  have hnext1 : next (init S ctx) = .ok (true, emit (init S ctx) 0 u.length .attrValue (u.length + 1) .afterAttrValueQuoted) := by
    have hq := valueQuote_at0 (init S ctx) rfl q u _ hS.symm hu
    unfold next
    rcases hctx with ⟨rfl, rfl⟩ | ⟨rfl, rfl⟩ | ⟨rfl, rfl⟩ <;> exact hq
  unfold xssLoop
  simp only [hnext1, bind, Except.bind, pure, Except.pure, Bool.not_true, Bool.false_eq_true, ↓reduceIte]
  have hty1 : (emit (init S ctx) 0 u.length Ty.attrValue (u.length + 1) St.afterAttrValueQuoted).tokType = Ty.attrValue := rfl
  simp only [hty1, bne_self_eq_false, Bool.false_eq_true, ↓reduceIte]
  -- second step: white space after the quote, then the attribute
  have hlt : u.length + 1 < S.length := by omega
  have hch : S[u.length + 1] = w := by
    have : S[u.length + 1]? = some w := by
      rw [← hS, List.getElem?_append_right (by omega)]; simp
    rw [List.getElem?_eq_getElem hlt] at this
    exact Option.some.inj this
  refine xss_black_attr_core _ (H.mk S (u.length + 1 + 1) false St.afterAttrValueQuoted 0 u.length Ty.attrValue) 3 ?_
      (u ++ [q, w]) ws name ws2 rest c (by rw [← hS]; simp) (by simp) hws hws2 hc hn hty _ _
  unfold next
  simp only [emit]
  unfold stateAfterAttributeValueQuotedState
  have hge : ¬ u.length + 1 ≥ S.length := by omega
  simp only [init, hge, ↓reduceIte, at'_ok hlt, hch, hw, bind, Except.bind, pure, Except.pure]
  rfl

/-- the loop of `isXSS` on a `tagNameOpen` token: blacklisted ⇒ done, otherwise it goes on -/
theorem xssLoop_tag_step (h h2 : H) (attr fuel : Nat) (name : Bytes) (hnext : next h = .ok (true, h2)) (hty : h2.tokType = .tagNameOpen)
    (htok : slice h2.s h2.tokStart (h2.tokStart + h2.tokLen) = .ok name) :
    xssLoop h attr (fuel + 1) = if isBlackTag name = true then .ok true else xssLoop h2 0 fuel := by
  conv => lhs; unfold xssLoop
  simp only [hnext, bind, Except.bind, pure, Except.pure, Bool.not_true, Bool.false_eq_true, ↓reduceIte, hty, htok]
  have : (Ty.tagNameOpen != Ty.attrValue) = true := by decide
  simp only [this, ↓reduceIte]

/-- in element content, after any `<`-free text: the loop reaches the token of the element name -/
theorem content_reaches_tag (p name rest : Bytes) (hp : (60 : UInt8) ∉ p) (hn : NameAt name rest) :
    ∃ h2 k, k ≤ 2 ∧ 1 ≤ k ∧ h2.s = p ++ 60 :: (name ++ rest) ∧
      (∀ fuel, xssLoop (init (p ++ 60 :: (name ++ rest)) 0) 0 (fuel + k) =
        if isBlackTag name = true then .ok true else xssLoop h2 0 fuel) ∧
      (∀ w t, rest = w :: t → isH5White w = true → h2.state = .beforeAttrName ∧ h2.pos = p.length + 1 + name.length + 1) ∧
      (∀ t, rest = 47 :: t → h2.state = .selfClosing ∧ h2.pos = p.length + 1 + name.length + 1) := by
  have hs' : p ++ 60 :: (name ++ rest) = (p ++ [60]) ++ name ++ rest := by simp
  have hslice : ∀ (h2 : H), h2.s = p ++ 60 :: (name ++ rest) → h2.tokStart = (p ++ [60]).length → h2.tokLen = name.length →
      slice h2.s h2.tokStart (h2.tokStart + h2.tokLen) = .ok name := by
    intro h2 e1 e2 e3
    rw [e1, e2, e3, hs']
    unfold slice
    have hl : (p ++ [60]).length + name.length ≤ (p ++ [60] ++ name ++ rest).length := by simp; omega
    simp only [Nat.le_add_right, hl, and_self, ↓reduceIte]
    rw [List.append_assoc, List.drop_left, Nat.add_sub_cancel_left, List.take_left]
  by_cases hp0 : p = []
  · subst hp0
    have hnext : ∃ h2, next (init ([] ++ 60 :: (name ++ rest)) 0) = .ok (true, h2) ∧ h2.s = [] ++ 60 :: (name ++ rest) ∧
        h2.tokType = .tagNameOpen ∧ h2.tokStart = ([] ++ [60] : Bytes).length ∧ h2.tokLen = name.length ∧
        (∀ w t, rest = w :: t → isH5White w = true → h2.state = .beforeAttrName ∧ h2.pos = ([60] : Bytes).length + name.length + 1) ∧
        (∀ t, rest = 47 :: t → h2.state = .selfClosing ∧ h2.pos = ([60] : Bytes).length + name.length + 1) := by
      unfold next init
      simp only [List.nil_append]
      unfold stateData dataDepth
      simp only [offFrom, Nat.zero_le, ↓reduceIte, List.drop_zero, bind, Except.bind, pure, Except.pure]
      have hi : indexByte (60 :: (name ++ rest)) 60 = some 0 := by simp [indexByte]
      simp only [hi, beq_self_eq_true, ↓reduceIte]
      exact stateTagOpen_name 4 _ [60] name rest (by simp [emit]) (by simp [emit]) (by simp [emit]) hn
    obtain ⟨h2, e0, e1, e2, e3, e4, e5, e6⟩ := hnext
    refine ⟨h2, 1, by omega, by omega, e1, fun fuel => xssLoop_tag_step _ h2 0 fuel name e0 e2 (hslice h2 e1 e3 e4), ?_, ?_⟩
    · intro w t hr hw
      have := e5 w t hr hw
      simpa using this
    · intro t hr
      have := e6 t hr
      simpa using this
  · have hpl : 1 ≤ p.length := by cases p with | nil => exact absurd rfl hp0 | cons _ _ => simp
    have hidx : indexByte (p ++ 60 :: (name ++ rest)) 60 = some p.length := indexByte_first p 60 _ hp
    have hnext1 : next (init (p ++ 60 :: (name ++ rest)) 0) =
        .ok (true, emit (init (p ++ 60 :: (name ++ rest)) 0) 0 p.length .dataText (0 + p.length + 1) .tagOpen) := by
      unfold next init
      simp only []
      unfold stateData dataDepth
      simp only [offFrom, Nat.zero_le, ↓reduceIte, List.drop_zero, bind, Except.bind, pure, Except.pure, hidx]
      have : (p.length == 0) = false := by simp; omega
      simp only [this, Bool.false_eq_true, ↓reduceIte]
    obtain ⟨h2, e0, e1, e2, e3, e4, e5, e6⟩ := stateTagOpen_name 5
      (emit (init (p ++ 60 :: (name ++ rest)) 0) 0 p.length .dataText (0 + p.length + 1) .tagOpen) (p ++ [60]) name rest
      (by simp [emit, init]) (by simp [emit]) (by simp [emit, init]) hn
    have hnext2 : next (emit (init (p ++ 60 :: (name ++ rest)) 0) 0 p.length .dataText (0 + p.length + 1) .tagOpen) = .ok (true, h2) := by
      unfold next
      simp only [emit]
      exact e0
    refine ⟨h2, 2, by omega, by omega, by rw [e1]; simp [emit, init], fun fuel => ?_, ?_, ?_⟩
    · rw [show fuel + 2 = (fuel + 1) + 1 by omega]
      conv => lhs; unfold xssLoop
      simp only [hnext1, bind, Except.bind, pure, Except.pure, Bool.not_true, Bool.false_eq_true, ↓reduceIte, emit]
      exact xssLoop_tag_step _ h2 0 fuel name hnext2 e2 (hslice h2 (by rw [e1]; simp [emit, init]) e3 e4)
    · intro w t hr hw
      have := e5 w t hr hw
      simpa using this
    · intro t hr
      have := e6 t hr
      simpa using this

/-- **C04, attributes of any element in element content**: `text <tag w … name = v…` -/
theorem black_attr_in_element (p tag ws name ws2 rest : Bytes) (w c : UInt8) (hp : (60 : UInt8) ∉ p)
    (hn : NameAt tag (w :: (ws ++ name ++ 61 :: (ws2 ++ c :: rest)))) (hw : isH5White w = true)
    (hws : ws.all isSkipWhite = true) (hws2 : ws2.all isSkipWhite = true) (hc : isSkipWhite c = false) (ha : AttrAt name)
    (hty : isBlackAttr name = 1 ∨ isBlackAttr name = 3) :
    isXSSCtx (p ++ 60 :: (tag ++ w :: (ws ++ name ++ 61 :: (ws2 ++ c :: rest)))) 0 = .ok true := by
  obtain ⟨h2, k, hk2, hk1, hs2, hloop, hst, _⟩ := content_reaches_tag p tag _ hp hn
  obtain ⟨hstate, hpos⟩ := hst w _ rfl hw
  unfold isXSSCtx xssFuel
  generalize hS : p ++ 60 :: (tag ++ w :: (ws ++ name ++ 61 :: (ws2 ++ c :: rest))) = S at hs2 hloop ⊢
  rw [show 3 * S.length + 4 = (3 * S.length + 4 - k) + k by omega, hloop]
  split
  · rfl
  · rw [show 3 * S.length + 4 - k = (3 * S.length + 2 - k) + 2 by omega]
    exact xss_black_attr_core h2 h2 3 (by unfold next; rw [hstate]; rfl) (p ++ 60 :: (tag ++ [w])) ws name ws2 rest c
      (by rw [hs2, ← hS]; simp) (by rw [hpos]; simp; omega) hws hws2 hc ha hty 0 _

/-- the before-attribute-value state on a quoted value `q u q`: the token is exactly `u` -/
theorem beforeAttrValue_quoted (h : H) (pre ws u rest : Bytes) (q : UInt8) (hq : q = 34 ∨ q = 39 ∨ q = 96)
    (hs : h.s = pre ++ ws ++ q :: (u ++ q :: rest)) (hpos : h.pos = pre.length) (hpre : 1 ≤ pre.length)
    (hws : ws.all isSkipWhite = true) (hu : q ∉ u) :
    ∃ h3, stateBeforeAttributeValue h = .ok (true, h3) ∧ h3.tokType = .attrValue ∧ h3.s = h.s ∧
      h3.tokStart = pre.length + ws.length + 1 ∧ h3.tokLen = u.length := by
  have hqw : isSkipWhite q = false := by rcases hq with rfl | rfl | rfl <;> decide
  have hlen : h.s.length = pre.length + ws.length + 1 + u.length + 1 + rest.length := by rw [hs]; simp; omega
  have hsk := skipWhite_run h pre ws (u ++ q :: rest) q hs hpos hws hqw
  unfold stateBeforeAttributeValue
  simp only [hsk]
  have quote : ∃ h3, stateAttributeValueQuote q { h with pos := pre.length + ws.length } = .ok (true, h3) ∧
      h3.tokType = .attrValue ∧ h3.s = h.s ∧ h3.tokStart = pre.length + ws.length + 1 ∧ h3.tokLen = u.length := by
    unfold stateAttributeValueQuote
    have hp0 : pre.length + ws.length > 0 := by omega
    simp only [hp0, ↓reduceIte]
    have hoff : offFrom h.s (pre.length + ws.length + 1) = .ok (pre.length + ws.length + 1) := by unfold offFrom; simp; omega
    have hdrop : h.s.drop (pre.length + ws.length + 1) = u ++ q :: rest := by
      rw [hs, show pre ++ ws ++ q :: (u ++ q :: rest) = (pre ++ ws ++ [q]) ++ (u ++ q :: rest) by simp,
        show pre.length + ws.length + 1 = (pre ++ ws ++ [q]).length by simp; omega, List.drop_left]
    simp only [hoff, hdrop, indexByte_first u q rest hu, bind, Except.bind, pure, Except.pure]
    exact ⟨_, rfl, rfl, rfl, rfl, rfl⟩
  rcases hq with rfl | rfl | rfl
  · simp only [beq_self_eq_true, ↓reduceIte]; exact quote
  · have : ((39 : UInt8) == 34) = false := by decide
    simp only [this, Bool.false_eq_true, ↓reduceIte, beq_self_eq_true]; exact quote
  · have e1 : ((96 : UInt8) == 34) = false := by decide
    have e2 : ((96 : UInt8) == 39) = false := by decide
    simp only [e1, e2, Bool.false_eq_true, ↓reduceIte, beq_self_eq_true]; exact quote

/-- **C04, URL attributes**: `ws name = ws2 q u q …` with a URL-bearing attribute name and a quoted
value `u` that the URL matcher judges dangerous is reported -/
theorem xss_url_attr_core (h0 h : H) (d : Nat) (hnext0 : next h0 = stateBeforeAttributeName (d + 1) h)
    (pre ws name ws2 u rest : Bytes) (q : UInt8) (hq : q = 34 ∨ q = 39 ∨ q = 96)
    (hs : h.s = pre ++ ws ++ name ++ 61 :: (ws2 ++ q :: (u ++ q :: rest))) (hpos : h.pos = pre.length)
    (hws : ws.all isSkipWhite = true) (hws2 : ws2.all isSkipWhite = true) (hu : q ∉ u) (hn : AttrAt name)
    (hty : isBlackAttr name = 2) (hurl : isBlackURL u = .ok true) (attr fuel : Nat) : xssLoop h0 attr (fuel + 2) = .ok true := by
  obtain ⟨h2, e0, e1, e2, e3, e4, e5, e6⟩ := beforeAttrName_name d h pre ws name (ws2 ++ q :: (u ++ q :: rest)) hs hpos hws hn
  have hnext1 : next h0 = .ok (true, h2) := by rw [hnext0]; exact e0
  have hslice : slice h2.s h2.tokStart (h2.tokStart + h2.tokLen) = .ok name := by
    rw [e1, e3, e4, hs]
    unfold slice
    have hl : pre.length + ws.length + name.length ≤ (pre ++ ws ++ name ++ 61 :: (ws2 ++ q :: (u ++ q :: rest))).length := by simp; omega
    simp only [Nat.le_add_right, hl, and_self, ↓reduceIte]
    rw [show pre ++ ws ++ name ++ 61 :: (ws2 ++ q :: (u ++ q :: rest)) = (pre ++ ws) ++ (name ++ 61 :: (ws2 ++ q :: (u ++ q :: rest))) by simp,
      show pre.length + ws.length = (pre ++ ws).length by simp, List.drop_left, Nat.add_sub_cancel_left, List.take_left]
  obtain ⟨h3, f0, f1, f2, f3, f4⟩ := beforeAttrValue_quoted h2 (pre ++ ws ++ name ++ [61]) ws2 u rest q hq
    (by rw [e1, hs]; simp) (by rw [e6]; simp; omega) (by simp; omega) hws2 hu
  have hnext2 : next h2 = .ok (true, h3) := by unfold next; rw [e5]; exact f0
  have hslice3 : slice h3.s h3.tokStart (h3.tokStart + h3.tokLen) = .ok u := by
    rw [f2, e1, f3, f4, hs]
    unfold slice
    have hl : (pre ++ ws ++ name ++ [61]).length + ws2.length + 1 + u.length ≤
        (pre ++ ws ++ name ++ 61 :: (ws2 ++ q :: (u ++ q :: rest))).length := by simp; omega
    simp only [Nat.le_add_right, hl, and_self, ↓reduceIte]
    have e7 : pre ++ ws ++ name ++ 61 :: (ws2 ++ q :: (u ++ q :: rest)) = (pre ++ ws ++ name ++ [61] ++ ws2 ++ [q]) ++ (u ++ q :: rest) := by simp
    have e8 : (pre ++ ws ++ name ++ [61]).length + ws2.length + 1 = (pre ++ ws ++ name ++ [61] ++ ws2 ++ [q]).length := by simp; omega
    rw [e8, e7, List.drop_left, Nat.add_sub_cancel_left, List.take_left]
  unfold xssLoop
  simp only [hnext1, bind, Except.bind, pure, Except.pure, Bool.not_true, Bool.false_eq_true, ↓reduceIte, e2, hslice]
  unfold xssLoop
  simp only [hnext2, bind, Except.bind, pure, Except.pure, Bool.not_true, Bool.false_eq_true, ↓reduceIte, f1,
    bne_self_eq_false, hty, hslice3, hurl]

/-- … in the unquoted-attribute context -/
theorem url_attr_in_tag_context (ws name ws2 u rest : Bytes) (q : UInt8) (hq : q = 34 ∨ q = 39 ∨ q = 96)
    (hws : ws.all isSkipWhite = true) (hws2 : ws2.all isSkipWhite = true) (hu : q ∉ u) (hn : AttrAt name)
    (hty : isBlackAttr name = 2) (hurl : isBlackURL u = .ok true) :
    isXSSCtx (ws ++ name ++ 61 :: (ws2 ++ q :: (u ++ q :: rest))) 1 = .ok true := by
  unfold isXSSCtx xssFuel
  have hf : 3 * (ws ++ name ++ 61 :: (ws2 ++ q :: (u ++ q :: rest))).length + 4 =
      (3 * (ws ++ name ++ 61 :: (ws2 ++ q :: (u ++ q :: rest))).length + 2) + 2 := by omega
  rw [hf]
  exact xss_url_attr_core (init _ 1) (init _ 1) 3 rfl [] ws name ws2 u rest q hq (by simp [init]) rfl hws hws2 hu hn hty hurl 0 _

/-- … on any element in element content: `text <tag w … name = q u q …` -/
theorem url_attr_in_element (p tag ws name ws2 u rest : Bytes) (w q : UInt8) (hq : q = 34 ∨ q = 39 ∨ q = 96) (hp : (60 : UInt8) ∉ p)
    (hn : NameAt tag (w :: (ws ++ name ++ 61 :: (ws2 ++ q :: (u ++ q :: rest))))) (hw : isH5White w = true)
    (hws : ws.all isSkipWhite = true) (hws2 : ws2.all isSkipWhite = true) (hu : q ∉ u) (ha : AttrAt name)
    (hty : isBlackAttr name = 2) (hurl : isBlackURL u = .ok true) :
    isXSSCtx (p ++ 60 :: (tag ++ w :: (ws ++ name ++ 61 :: (ws2 ++ q :: (u ++ q :: rest))))) 0 = .ok true := by
  obtain ⟨h2, k, hk2, hk1, hs2, hloop, hst, _⟩ := content_reaches_tag p tag _ hp hn
  obtain ⟨hstate, hpos⟩ := hst w _ rfl hw
  unfold isXSSCtx xssFuel
  generalize hS : p ++ 60 :: (tag ++ w :: (ws ++ name ++ 61 :: (ws2 ++ q :: (u ++ q :: rest)))) = S at hs2 hloop ⊢
  rw [show 3 * S.length + 4 = (3 * S.length + 4 - k) + k by omega, hloop]
  split
  · rfl
  · rw [show 3 * S.length + 4 - k = (3 * S.length + 2 - k) + 2 by omega]
    exact xss_url_attr_core h2 h2 3 (by unfold next; rw [hstate]; rfl) (p ++ 60 :: (tag ++ [w])) ws name ws2 u rest q hq
      (by rw [hs2, ← hS]; simp) (by rw [hpos]; simp; omega) hws hws2 hu ha hty hurl 0 _

/-! ## `/` as the separator between the element name and the first attribute -/

/-- the self-closing state on a byte other than `>` continues as the before-attribute-name state -/
theorem selfClosing_to_ban (h : H) (hst : h.state = .selfClosing) (c0 : UInt8) (hc : h.s[h.pos]? = some c0) (h62 : c0 ≠ 62) :
    next h = stateBeforeAttributeName 3 h := by
  have hlt : h.pos < h.s.length := getElem?_some_lt hc
  have hget : h.s[h.pos] = c0 := by
    rw [List.getElem?_eq_getElem hlt] at hc; exact Option.some.inj hc
  unfold next
  rw [hst]
  show stateSelfClosingStartTag (3 + 1) h = _
  unfold stateSelfClosingStartTag
  have hge : ¬ h.pos ≥ h.s.length := by omega
  have hne : (c0 == 62) = false := by simpa using h62
  simp only [hge, ↓reduceIte, at'_ok hlt, hget, hne, Bool.false_eq_true, bind, Except.bind]

/-- first byte of `ws ++ name ++ …` is not `>` -/
theorem attr_first_not_gt (ws name rest : Bytes) (hws : ws.all isSkipWhite = true) (ha : AttrAt name) :
    ∃ c0, (ws ++ name ++ rest)[0]? = some c0 ∧ c0 ≠ 62 := by
  obtain ⟨c, t, hname, _, _, h62, _⟩ := ha.first
  cases ws with
  | nil => exact ⟨c, by rw [hname]; rfl, h62⟩
  | cons x xs =>
    simp only [List.all_cons, Bool.and_eq_true] at hws
    refine ⟨x, rfl, ?_⟩
    intro hx; rw [hx] at hws; exact absurd hws.1 (by decide)

/-- **C04, `/` separator**: `text <tag/ … name = v…` -/
theorem black_attr_in_element_slash (p tag ws name ws2 rest : Bytes) (c : UInt8) (hp : (60 : UInt8) ∉ p)
    (hn : NameAt tag (47 :: (ws ++ name ++ 61 :: (ws2 ++ c :: rest))))
    (hws : ws.all isSkipWhite = true) (hws2 : ws2.all isSkipWhite = true) (hc : isSkipWhite c = false) (ha : AttrAt name)
    (hty : isBlackAttr name = 1 ∨ isBlackAttr name = 3) :
    isXSSCtx (p ++ 60 :: (tag ++ 47 :: (ws ++ name ++ 61 :: (ws2 ++ c :: rest)))) 0 = .ok true := by
  obtain ⟨h2, k, hk2, hk1, hs2, hloop, _, hst⟩ := content_reaches_tag p tag _ hp hn
  obtain ⟨hstate, hpos⟩ := hst _ rfl
  obtain ⟨c0, hc0, h62⟩ := attr_first_not_gt ws name (61 :: (ws2 ++ c :: rest)) hws ha
  have hget : h2.s[h2.pos]? = some c0 := by
    rw [hs2, hpos, show p ++ 60 :: (tag ++ 47 :: (ws ++ name ++ 61 :: (ws2 ++ c :: rest))) =
      (p ++ 60 :: (tag ++ [47])) ++ (ws ++ name ++ 61 :: (ws2 ++ c :: rest)) by simp,
      List.getElem?_append_right (by simp; omega)]
    have e0 : p.length + 1 + tag.length + 1 - (p ++ 60 :: (tag ++ [47])).length = 0 := by simp; omega
    rw [e0]
    exact hc0
  unfold isXSSCtx xssFuel
  generalize hS : p ++ 60 :: (tag ++ 47 :: (ws ++ name ++ 61 :: (ws2 ++ c :: rest))) = S at hs2 hloop ⊢
  rw [show 3 * S.length + 4 = (3 * S.length + 4 - k) + k by omega, hloop]
  split
  · rfl
  · rw [show 3 * S.length + 4 - k = (3 * S.length + 2 - k) + 2 by omega]
    exact xss_black_attr_core h2 h2 2 (selfClosing_to_ban h2 hstate c0 hget h62) (p ++ 60 :: (tag ++ [47])) ws name ws2 rest c
      (by rw [hs2, ← hS]; simp) (by rw [hpos]; simp; omega) hws hws2 hc ha hty 0 _

/-- … URL attributes after a `/` separator -/
theorem url_attr_in_element_slash (p tag ws name ws2 u rest : Bytes) (q : UInt8) (hq : q = 34 ∨ q = 39 ∨ q = 96) (hp : (60 : UInt8) ∉ p)
    (hn : NameAt tag (47 :: (ws ++ name ++ 61 :: (ws2 ++ q :: (u ++ q :: rest)))))
    (hws : ws.all isSkipWhite = true) (hws2 : ws2.all isSkipWhite = true) (hu : q ∉ u) (ha : AttrAt name)
    (hty : isBlackAttr name = 2) (hurl : isBlackURL u = .ok true) :
    isXSSCtx (p ++ 60 :: (tag ++ 47 :: (ws ++ name ++ 61 :: (ws2 ++ q :: (u ++ q :: rest))))) 0 = .ok true := by
  obtain ⟨h2, k, hk2, hk1, hs2, hloop, _, hst⟩ := content_reaches_tag p tag _ hp hn
  obtain ⟨hstate, hpos⟩ := hst _ rfl
  obtain ⟨c0, hc0, h62⟩ := attr_first_not_gt ws name (61 :: (ws2 ++ q :: (u ++ q :: rest))) hws ha
  have hget : h2.s[h2.pos]? = some c0 := by
    rw [hs2, hpos, show p ++ 60 :: (tag ++ 47 :: (ws ++ name ++ 61 :: (ws2 ++ q :: (u ++ q :: rest)))) =
      (p ++ 60 :: (tag ++ [47])) ++ (ws ++ name ++ 61 :: (ws2 ++ q :: (u ++ q :: rest))) by simp,
      List.getElem?_append_right (by simp; omega)]
    have e0 : p.length + 1 + tag.length + 1 - (p ++ 60 :: (tag ++ [47])).length = 0 := by simp; omega
    rw [e0]
    exact hc0
  unfold isXSSCtx xssFuel
  generalize hS : p ++ 60 :: (tag ++ 47 :: (ws ++ name ++ 61 :: (ws2 ++ q :: (u ++ q :: rest)))) = S at hs2 hloop ⊢
  rw [show 3 * S.length + 4 = (3 * S.length + 4 - k) + k by omega, hloop]
  split
  · rfl
  · rw [show 3 * S.length + 4 - k = (3 * S.length + 2 - k) + 2 by omega]
    exact xss_url_attr_core h2 h2 2 (selfClosing_to_ban h2 hstate c0 hget h62) (p ++ 60 :: (tag ++ [47])) ws name ws2 u rest q hq
      (by rw [hs2, ← hS]; simp) (by rw [hpos]; simp; omega) hws hws2 hu ha hty hurl 0 _

/-! ## unquoted URL values -/

/-- an unquoted attribute value as the tokenizer scans it, followed by a byte that ends it (or by end of input) -/
structure ValAt (u rest : Bytes) : Prop where
  first : ∃ c t, u = c :: t ∧ isSkipWhite c = false ∧ c ≠ 34 ∧ c ≠ 39 ∧ c ≠ 96
  bytes : u.all noQuoteByte = true
  stop : rest = [] ∨ ∃ c t, rest = c :: t ∧ noQuoteByte c = false

theorem spn_val (u rest : Bytes) (h : ValAt u rest) : spn noQuoteByte (u ++ rest) = u.length := by
  rcases h.stop with rfl | ⟨c, t, rfl, hc⟩
  · simp only [List.append_nil]; exact spnA_all _ _ h.bytes
  · exact spnA_stop _ _ _ _ h.bytes hc

/-- the before-attribute-value state on an unquoted value: the token is exactly `u` -/
theorem beforeAttrValue_unquoted (h : H) (pre ws u rest : Bytes) (hs : h.s = pre ++ ws ++ u ++ rest) (hpos : h.pos = pre.length)
    (hws : ws.all isSkipWhite = true) (hv : ValAt u rest) :
    ∃ h3, stateBeforeAttributeValue h = .ok (true, h3) ∧ h3.tokType = .attrValue ∧ h3.s = h.s ∧
      h3.tokStart = pre.length + ws.length ∧ h3.tokLen = u.length := by
  obtain ⟨c, t, hu, hcw, c34, c39, c96⟩ := hv.first
  have hlen : h.s.length = pre.length + ws.length + u.length + rest.length := by rw [hs]; simp; omega
  have hs2 : h.s = pre ++ ws ++ c :: (t ++ rest) := by rw [hs, hu]; simp
  have hsk := skipWhite_run h pre ws (t ++ rest) c hs2 hpos hws hcw
  unfold stateBeforeAttributeValue
  simp only [hsk]
  have e34 : (c == 34) = false := by simpa using c34
  have e39 : (c == 39) = false := by simpa using c39
  have e96 : (c == 96) = false := by simpa using c96
  simp only [e34, e39, e96, Bool.false_eq_true, ↓reduceIte]
  unfold stateAttributeValueNoQuote
  have hoff : offFrom h.s (pre.length + ws.length) = .ok (pre.length + ws.length) := by unfold offFrom; simp; omega
  have hdrop : h.s.drop (pre.length + ws.length) = u ++ rest := by
    rw [hs, show pre ++ ws ++ u ++ rest = (pre ++ ws) ++ (u ++ rest) by simp,
      show pre.length + ws.length = (pre ++ ws).length by simp, List.drop_left]
  have hget : h.s[pre.length + ws.length + u.length]? = rest[0]? := by
    rw [hs, show pre ++ ws ++ u ++ rest = (pre ++ ws ++ u) ++ rest by simp,
      List.getElem?_append_right (by simp; omega)]
    congr 1; simp; omega
  simp only [hoff, bind, Except.bind, pure, Except.pure, hdrop, spn_val u rest hv, hget]
  rcases hv.stop with rfl | ⟨c2, t2, rfl, hc2⟩
  · simp only [List.getElem?_nil]
    exact ⟨_, rfl, rfl, rfl, rfl, by show h.s.length - (pre.length + ws.length) = u.length; rw [hlen]; simp⟩
  · simp only [List.getElem?_cons_zero]
    split
    · exact ⟨_, rfl, rfl, rfl, rfl, by show pre.length + ws.length + u.length - (pre.length + ws.length) = u.length; omega⟩
    · exact ⟨_, rfl, rfl, rfl, rfl, by show pre.length + ws.length + u.length - (pre.length + ws.length) = u.length; omega⟩

/-- **C04, unquoted URL values**: `ws name = ws2 u` with a URL-bearing attribute name and an unquoted value
`u` that the URL matcher judges dangerous is reported -/
theorem xss_url_attr_unquoted_core (h0 h : H) (d : Nat) (hnext0 : next h0 = stateBeforeAttributeName (d + 1) h)
    (pre ws name ws2 u rest : Bytes)
    (hs : h.s = pre ++ ws ++ name ++ 61 :: (ws2 ++ u ++ rest)) (hpos : h.pos = pre.length)
    (hws : ws.all isSkipWhite = true) (hws2 : ws2.all isSkipWhite = true) (hv : ValAt u rest) (hn : AttrAt name)
    (hty : isBlackAttr name = 2) (hurl : isBlackURL u = .ok true) (attr fuel : Nat) : xssLoop h0 attr (fuel + 2) = .ok true := by
  obtain ⟨h2, e0, e1, e2, e3, e4, e5, e6⟩ := beforeAttrName_name d h pre ws name (ws2 ++ u ++ rest) hs hpos hws hn
  have hnext1 : next h0 = .ok (true, h2) := by rw [hnext0]; exact e0
  have hslice : slice h2.s h2.tokStart (h2.tokStart + h2.tokLen) = .ok name := by
    rw [e1, e3, e4, hs]
    unfold slice
    have hl : pre.length + ws.length + name.length ≤ (pre ++ ws ++ name ++ 61 :: (ws2 ++ u ++ rest)).length := by simp; omega
    simp only [Nat.le_add_right, hl, and_self, ↓reduceIte]
    rw [show pre ++ ws ++ name ++ 61 :: (ws2 ++ u ++ rest) = (pre ++ ws) ++ (name ++ 61 :: (ws2 ++ u ++ rest)) by simp,
      show pre.length + ws.length = (pre ++ ws).length by simp, List.drop_left, Nat.add_sub_cancel_left, List.take_left]
  obtain ⟨h3, f0, f1, f2, f3, f4⟩ := beforeAttrValue_unquoted h2 (pre ++ ws ++ name ++ [61]) ws2 u rest
    (by rw [e1, hs]; simp) (by rw [e6]; simp; omega) hws2 hv
  have hnext2 : next h2 = .ok (true, h3) := by unfold next; rw [e5]; exact f0
  have hslice3 : slice h3.s h3.tokStart (h3.tokStart + h3.tokLen) = .ok u := by
    rw [f2, e1, f3, f4, hs]
    unfold slice
    have hl : (pre ++ ws ++ name ++ [61]).length + ws2.length + u.length ≤
        (pre ++ ws ++ name ++ 61 :: (ws2 ++ u ++ rest)).length := by simp; omega
    simp only [Nat.le_add_right, hl, and_self, ↓reduceIte]
    have e7 : pre ++ ws ++ name ++ 61 :: (ws2 ++ u ++ rest) = (pre ++ ws ++ name ++ [61] ++ ws2) ++ (u ++ rest) := by simp
    have e8 : (pre ++ ws ++ name ++ [61]).length + ws2.length = (pre ++ ws ++ name ++ [61] ++ ws2).length := by simp only [List.length_append]
    rw [e8, e7, List.drop_left, Nat.add_sub_cancel_left, List.take_left]
  unfold xssLoop
  simp only [hnext1, bind, Except.bind, pure, Except.pure, Bool.not_true, Bool.false_eq_true, ↓reduceIte, e2, hslice]
  unfold xssLoop
  simp only [hnext2, bind, Except.bind, pure, Except.pure, Bool.not_true, Bool.false_eq_true, ↓reduceIte, f1,
    bne_self_eq_false, hty, hslice3, hurl]

/-- … in the unquoted-attribute context -/
theorem url_attr_unquoted_in_tag_context (ws name ws2 u rest : Bytes)
    (hws : ws.all isSkipWhite = true) (hws2 : ws2.all isSkipWhite = true) (hv : ValAt u rest) (hn : AttrAt name)
    (hty : isBlackAttr name = 2) (hurl : isBlackURL u = .ok true) :
    isXSSCtx (ws ++ name ++ 61 :: (ws2 ++ u ++ rest)) 1 = .ok true := by
  unfold isXSSCtx xssFuel
  have hf : 3 * (ws ++ name ++ 61 :: (ws2 ++ u ++ rest)).length + 4 =
      (3 * (ws ++ name ++ 61 :: (ws2 ++ u ++ rest)).length + 2) + 2 := by omega
  rw [hf]
  exact xss_url_attr_unquoted_core (init _ 1) (init _ 1) 3 rfl [] ws name ws2 u rest (by simp [init]) rfl hws hws2 hv hn hty hurl 0 _

/-- … on any element in element content: `text <tag w … name = u…` -/
theorem url_attr_unquoted_in_element (p tag ws name ws2 u rest : Bytes) (w : UInt8) (hp : (60 : UInt8) ∉ p)
    (hn : NameAt tag (w :: (ws ++ name ++ 61 :: (ws2 ++ u ++ rest)))) (hw : isH5White w = true)
    (hws : ws.all isSkipWhite = true) (hws2 : ws2.all isSkipWhite = true) (hv : ValAt u rest) (ha : AttrAt name)
    (hty : isBlackAttr name = 2) (hurl : isBlackURL u = .ok true) :
    isXSSCtx (p ++ 60 :: (tag ++ w :: (ws ++ name ++ 61 :: (ws2 ++ u ++ rest)))) 0 = .ok true := by
  obtain ⟨h2, k, hk2, hk1, hs2, hloop, hst, _⟩ := content_reaches_tag p tag _ hp hn
  obtain ⟨hstate, hpos⟩ := hst w _ rfl hw
  unfold isXSSCtx xssFuel
  generalize hS : p ++ 60 :: (tag ++ w :: (ws ++ name ++ 61 :: (ws2 ++ u ++ rest))) = S at hs2 hloop ⊢
  rw [show 3 * S.length + 4 = (3 * S.length + 4 - k) + k by omega, hloop]
  split
  · rfl
  · rw [show 3 * S.length + 4 - k = (3 * S.length + 2 - k) + 2 by omega]
    exact xss_url_attr_unquoted_core h2 h2 3 (by unfold next; rw [hstate]; rfl) (p ++ 60 :: (tag ++ [w])) ws name ws2 u rest
      (by rw [hs2, ← hS]; simp) (by rw [hpos]; simp; omega) hws hws2 hv ha hty hurl 0 _

end LibInj.Xss
