import LibInj.Sqli.Keyword
import LibInj.Gen.Xss
import LibInj.Gen.SqliConsts
/-! Boolean checkers over the regenerated tables and the lemmas that lift them to statements.
The checkers are evaluated by the kernel (`decide +kernel`) on every build. -/
namespace LibInj.Tables

abbrev Entry := Nat × Nat × Nat

/-! Checkers are written for the kernel's evaluator: only GMP-accelerated `Nat` primitives
(`Nat.beq`, `Nat.ble`, `%`, `/`, `&&&`, `>>>`) and short structural recursions. (Measured:
`List.contains` over a 27-element list costs ~1.5 ms per entry in the kernel, a bit test ~10 µs.) -/

/-- bytes of a base-256 key, given its length (most significant first) -/
def keyBytes : Nat → Nat → List Nat
  | 0, _ => []
  | l+1, n => keyBytes l (n / 256) ++ [n % 256]

/-- the documented class characters (sqli_const.go) -/
def classAlphabet : List Nat :=
  [107, 85, 66, 69, 116, 102, 110, 49, 118, 115, 111, 38, 99, 65, 40, 41, 123, 125, 46, 44, 58, 59, 84, 63, 88, 70, 92]

def upperNat (b : Nat) : Nat := if 97 ≤ b && b ≤ 122 then b - 32 else b

def maskOf (l : List Nat) : Nat := l.foldl (fun m c => m ||| (1 <<< c)) 0

/-- bit set of the class characters -/
def classMask : Nat := maskOf classAlphabet
/-- bit set of the class characters as they appear inside a fingerprint key (upper-cased) -/
def classMaskUpper : Nat := maskOf (classAlphabet.map upperNat)

def bitTest (mask v : Nat) : Bool := Nat.beq ((mask >>> v) &&& 1) 1

def isClass (v : Nat) : Bool := bitTest classMask v
def isClassUpper (v : Nat) : Bool := bitTest classMaskUpper v

/-- an ASCII byte that is not a lower-case letter: its own image under the case-folding look-up -/
def upFree (b : Nat) : Bool := Nat.blt b 128 && !(Nat.ble 97 b && Nat.ble b 122)

/-- the `l` bytes of `n` all satisfy `p`, and `n < 256^l` -/
def bytesAll (p : Nat → Bool) : Nat → Nat → Bool
  | 0, n => Nat.beq n 0
  | l+1, n => p (n % 256) && bytesAll p l (n / 256)

/-- the low `k` bytes are (upper-cased) class characters and what remains is the byte `0` -/
def fpBytes : Nat → Nat → Bool
  | 0, n => Nat.beq n 48
  | k+1, n => isClassUpper (n % 256) && fpBytes k (n / 256)

/-- none of the `k` low bytes is `b` -/
def noByte (b : Nat) : Nat → Nat → Bool
  | 0, _ => true
  | k+1, n => !(Nat.beq (n % 256) b) && noByte b k (n / 256)

/-- well-formedness of one keyword-table entry (C20): 1..31 bytes, every byte ASCII and not lower
case (so the key is the image of itself under the case-folding look-up and can be found), the value a
class character, a fingerprint key is `0` + 1..5 class characters, a function name has >= 2 bytes -/
def kwOK (e : Entry) : Bool :=
  Nat.ble 1 e.1 && Nat.ble e.1 31 && bytesAll upFree e.1 e.2.1 && isClass e.2.2 &&
  (!(Nat.beq e.2.2 70) || (Nat.ble 2 e.1 && Nat.ble e.1 6 && fpBytes (e.1 - 1) e.2.1)) &&
  (!(Nat.beq e.2.2 102) || Nat.ble 2 e.1)

/-- the comment class `C` (upper-cased `c`) occurs only in last position of a fingerprint key -/
def commentOnlyLast (e : Entry) : Bool :=
  !(Nat.beq e.2.2 70) || noByte 67 (e.1 - 1) (e.2.1 / 256)

def upperNulFree (s : List UInt8) : Bool := s.all (fun c => c != 0 && !(97 ≤ c && c ≤ 122)) && !s.isEmpty

def keyEq (b c : Entry) : Bool := Nat.beq b.1 c.1 && Nat.beq b.2.1 c.2.1

/-- linear merge: every entry of the (sorted) baseline occurs in the (sorted) current table with the same value -/
def subMerge : List Entry → List Entry → Bool
  | bs, [] => bs.isEmpty
  | bs, c :: cs =>
    match bs with
    | [] => true
    | b :: bs' => if keyEq b c then (Nat.beq b.2.2 c.2.2 && subMerge bs' cs) else subMerge bs cs

theorem subMerge_sound : ∀ (cs bs : List Entry), subMerge bs cs = true → ∀ e ∈ bs, e ∈ cs
  | [], bs, h, e, he => by
    simp only [subMerge, List.isEmpty_iff] at h
    subst h; cases he
  | c :: cs, [], _, e, he => by cases he
  | c :: cs, b :: bs, h, e, he => by
    simp only [subMerge] at h
    split at h
    · rename_i hk
      simp only [keyEq, Bool.and_eq_true] at hk h
      rcases List.mem_cons.mp he with rfl | he'
      · have : e = c := by
          rcases e with ⟨e1, e2, e3⟩; rcases c with ⟨c1, c2, c3⟩
          simp_all
        simp [this]
      · exact List.mem_cons_of_mem _ (subMerge_sound cs bs h.2 e he')
    · exact List.mem_cons_of_mem _ (subMerge_sound cs (b :: bs) h e he)

/-- membership in a strictly sorted table determines the look-up -/
theorem lookupIn_of_mem : ∀ (l : List Entry), Sqli.strictSorted l = true → ∀ a b v, (a, b, v) ∈ l →
    Sqli.lookupIn l a b = some v
  | [], _, _, _, _, h => by cases h
  | (l', n', v') :: t, hs, a, b, v, hm => by
    simp only [Sqli.lookupIn]
    rcases List.mem_cons.mp hm with heq | hm'
    · cases heq; simp
    · have hlt := Sqli.strictSorted_head_lt t (l', n', v') hs (a, b, v) hm'
      have hne : ¬ (a = l' ∧ b = n') := by
        unfold Sqli.keyLt at hlt; simp only at hlt; omega
      have : (Nat.beq a l' && Nat.beq b n') = false := by
        rw [Bool.and_eq_false_iff]
        by_cases h1 : a = l'
        · right
          cases hb : Nat.beq b n' with
          | false => rfl
          | true => exact absurd ⟨h1, Nat.eq_of_beq_eq_true hb⟩ hne
        · left
          cases ha : Nat.beq a l' with
          | false => rfl
          | true => exact absurd (Nat.eq_of_beq_eq_true ha) h1
      simp only [this, Bool.false_eq_true, ↓reduceIte]
      exact lookupIn_of_mem t (Sqli.strictSorted_tail t _ hs) a b v hm'

def namedSub (base cur : List (List UInt8 × Nat)) : Bool := base.all cur.contains
def tagsSub (base cur : List (List UInt8)) : Bool := base.all cur.contains

end LibInj.Tables
