import LibInj.Proofs.TokenizeOK
import LibInj.Proofs.Phrase
set_option linter.unusedSimpArgs false
set_option linter.unusedVariables false
/-! Safety of `fold`, part 1: token facts, the scanner/loop invariants (C01). -/
namespace LibInj.Sqli
open LibInj

/-- what `fold`'s accesses need from a token in the window -/
def TokF (t : Token) : Prop := TokInv t ∧ CatOK t

theorem tokF_default : TokF ({} : Token) :=
  ⟨⟨rfl, by simp⟩, ⟨Or.inl rfl, (fun h => absurd h (by decide)), (fun h => absurd h (by decide))⟩⟩

/-- re-categorising a token keeps it usable as long as the new class fits its length -/
theorem TokF.recat {t : Token} (h : TokF t) (c : UInt8) (hc : CatV c t.len) : TokF { t with cat := c } :=
  ⟨h.1, hc⟩

theorem isUnaryOp_ok (t : Token) (h : TokF t) : ∃ b, t.isUnaryOp = .ok b := by
  obtain ⟨⟨hv, hl⟩, _⟩ := h
  unfold Token.isUnaryOp
  by_cases hc : (t.cat != 111) = true
  · simp [hc, pure, Except.pure]
  · simp only [hc, Bool.false_eq_true, ↓reduceIte, bind, Except.bind, pure, Except.pure]
    split
    · rename_i h1
      simp only [at'_ok (show 0 < t.val.length by omega)]
      exact ⟨_, rfl⟩
    · rename_i h2
      simp only [andM, toBool, byteIs, at'_ok (show 0 < t.val.length by omega), at'_ok (show 1 < t.val.length by omega),
        bind, Except.bind, pure, Except.pure]
      split <;> exact ⟨_, rfl⟩
    · rename_i h3
      simp only [slice_ok t.val 0 3 (by omega) (by omega)]
      exact ⟨_, rfl⟩
    · exact ⟨_, rfl⟩

theorem isArithmeticOp_ok (t : Token) (h : TokF t) : ∃ b, t.isArithmeticOp = .ok b := by
  obtain ⟨⟨hv, hl⟩, _⟩ := h
  unfold Token.isArithmeticOp
  by_cases hc : (t.cat == 111 && t.len == 1) = true
  · have h1 : t.len = 1 := by simp only [Bool.and_eq_true, beq_iff_eq] at hc; exact hc.2
    simp only [hc, ↓reduceIte, at'_ok (show 0 < t.val.length by omega), bind, Except.bind, pure, Except.pure]
    exact ⟨_, rfl⟩
  · simp only [hc, Bool.false_eq_true, ↓reduceIte, pure, Except.pure]
    exact ⟨_, rfl⟩

theorem valOf_ok (t : Token) (h : TokF t) : valOf t = .ok t.val := by
  obtain ⟨⟨hv, hl⟩, _⟩ := h
  unfold valOf
  rw [slice_ok t.val 0 t.len (by omega) (by omega)]
  simp [← hv]

theorem merge_ok (a b : Token) (ha : TokF a) (hb : TokF b) :
    ∃ r, merge a b = .ok r ∧ ∀ a', r = some a' → TokF a' ∧ a'.cat ≠ 49 ∧ a'.cat ≠ 92 ∧ a'.cat ≠ 99 := by
  obtain ⟨⟨hva, hla⟩, _⟩ := ha
  obtain ⟨⟨hvb, hlb⟩, _⟩ := hb
  unfold merge
  simp only [bind, Except.bind, pure, Except.pure]
  split
  · exact ⟨none, rfl, fun a' h => by cases h⟩
  · split
    · exact ⟨none, rfl, fun a' h => by cases h⟩
    · split
      · exact ⟨none, rfl, fun a' h => by cases h⟩
      · rename_i hsz
        simp only [slice_ok a.val 0 a.len (by omega) (by omega), slice_ok b.val 0 b.len (by omega) (by omega)]
        split
        · rename_i hch
          have hcl := clip_le (((a.val.drop 0).take (a.len - 0) ++ [32] ++ (b.val.drop 0).take (b.len - 0)).length)
          rw [assign_ok _ _ _ _ _ hcl]
          refine ⟨_, rfl, fun a' h => ?_⟩
          cases h
          generalize htmp : (a.val.drop 0).take (a.len - 0) ++ [32] ++ (b.val.drop 0).take (b.len - 0) = tmp at hch hcl ⊢
          have h32 : (32 : UInt8) ∈ tmp := by rw [← htmp]; simp
          refine ⟨⟨⟨by simp [List.length_take]; omega, clip_le_31 _⟩, ?_⟩, searchKeyword_phrase tmp h32⟩
          rcases searchKeyword_cases tmp with h0 | ⟨hc1, hc2, hc3⟩
          · rw [h0] at hch; simp at hch
          · exact ⟨Or.inr hc1, (fun h => clip_two (hc2 h)), (fun _ => clip_pos hc3)⟩
        · exact ⟨none, rfl, fun a' h => by cases h⟩
end LibInj.Sqli

namespace LibInj.Sqli
open LibInj

/-- invariant of the scanner state inside `fold` -/
def SInv (s : State) : Prop :=
  s.tv.length = 8 ∧ s.pos ≤ s.input.length ∧ ∀ t ∈ s.tv, TokF t

/-- invariant of the loop variables of `fold` -/
def FInv (f : FS) : Prop := SInv f.s ∧ f.left ≤ f.pos ∧ f.pos ≤ 6 ∧ TokF f.lastComment

theorem tvGet_ok (s : State) (hs : SInv s) (i : Nat) (hi : i < 8) : ∃ t, tvGet s i = .ok t ∧ TokF t := by
  unfold tvGet
  have hlt : i < s.tv.length := by rw [hs.1]; exact hi
  rw [List.getElem?_eq_getElem hlt]
  exact ⟨_, rfl, hs.2.2 _ (List.getElem_mem hlt)⟩

theorem tvSet_inv (s : State) (hs : SInv s) (i : Nat) (hi : i < 8) (t : Token) (ht : TokF t) :
    ∃ s', tvSet s i t = .ok s' ∧ SInv s' ∧ s'.input = s.input ∧ s'.pos = s.pos ∧ s'.flags = s.flags := by
  have hlt : i < s.tv.length := by rw [hs.1]; exact hi
  rw [tvSet_ok s i t hlt]
  refine ⟨_, rfl, ⟨by simp; exact hs.1, hs.2.1, ?_⟩, rfl, rfl, rfl⟩
  intro x hx
  rcases List.mem_or_eq_of_mem_set hx with h | h
  · exact hs.2.2 x h
  · rw [h]; exact ht

theorem special5_ok (s : State) (hs : SInv s) : ∃ b, special5 s = .ok b := by
  unfold special5
  obtain ⟨t0, h0, _⟩ := tvGet_ok s hs 0 (by omega)
  obtain ⟨t1, h1, _⟩ := tvGet_ok s hs 1 (by omega)
  obtain ⟨t2, h2, _⟩ := tvGet_ok s hs 2 (by omega)
  obtain ⟨t3, h3, _⟩ := tvGet_ok s hs 3 (by omega)
  obtain ⟨t4, h4, _⟩ := tvGet_ok s hs 4 (by omega)
  simp only [h0, h1, h2, h3, h4, bind, Except.bind, pure, Except.pure]
  exact ⟨_, rfl⟩

theorem foldSpecial_ok (f : FS) (hf : FInv f) :
    ∃ f', foldSpecial f = .ok f' ∧ FInv f' ∧ f'.s.input = f.s.input ∧ f'.more = f.more := by
  obtain ⟨hs, hlp, hp6, hlc⟩ := hf
  unfold foldSpecial
  by_cases hp : f.pos ≥ maxTokens
  · obtain ⟨b, hb⟩ := special5_ok f.s hs
    simp only [hp, ↓reduceIte, hb, bind, Except.bind, pure, Except.pure]
    cases b with
    | true =>
      simp only [↓reduceIte]
      by_cases hp' : f.pos > maxTokens
      · obtain ⟨t5, h5, ht5⟩ := tvGet_ok f.s hs 5 (by omega)
        obtain ⟨s', hs', hinv', hi', hp'', _⟩ := tvSet_inv f.s hs 1 (by omega) t5 ht5
        simp only [hp', ↓reduceIte, h5, hs']
        exact ⟨_, rfl, ⟨hinv', by simp, by simp, hlc⟩, hi', rfl⟩
      · simp only [hp', ↓reduceIte]
        exact ⟨_, rfl, ⟨hs, by simp, by simp, hlc⟩, rfl, rfl⟩
    | false =>
      simp only [Bool.false_eq_true, ↓reduceIte]
      exact ⟨_, rfl, ⟨hs, hlp, hp6, hlc⟩, rfl, rfl⟩
  · simp only [hp, ↓reduceIte, pure, Except.pure]
    exact ⟨_, rfl, ⟨hs, hlp, hp6, hlc⟩, rfl, rfl⟩

/-- one `tokenize` call from a state satisfying the scanner invariant -/
theorem tokenize_sinv (s : State) (hs : SInv s) (hc : s.cur < 8) :
    ∃ more s', tokenize s = .ok (more, s') ∧ SInv s' ∧ TokStep s more s' := by
  have hcur : s.cur < s.tv.length := by rw [hs.1]; exact hc
  obtain ⟨more, s', hr, hstep⟩ := tokenize_ok s hs.2.1 hcur
  refine ⟨more, s', hr, ?_, hstep⟩
  obtain ⟨q1, q2, q3, q4, q5, q6, q7, q8, q9, q10, q11⟩ := hstep
  refine ⟨by rw [q4]; exact hs.1, by rw [q1]; exact q6, ?_⟩
  intro t ht
  obtain ⟨j, hj, hjt⟩ := List.mem_iff_getElem.mp ht
  have hget : s'.tv[j]? = some t := by rw [List.getElem?_eq_getElem hj, hjt]
  by_cases hjc : j = s.cur
  · rw [hjc] at hget
    rcases q10 t hget with h | h
    · exact h
    · exact hs.2.2 t (List.mem_of_getElem? h)
  · rw [q7 j hjc] at hget
    exact hs.2.2 t (List.mem_of_getElem? hget)

/-- after a `tokenize` call a token of the window is an old one or the one in slot `cur` -/
theorem mem_of_step {s s' : State} {more : Bool} (h : TokStep s more s') (t : Token) (ht : t ∈ s'.tv) :
    t ∈ s.tv ∨ s'.tv[s.cur]? = some t := by
  obtain ⟨j, hj, hjt⟩ := List.mem_iff_getElem.mp ht
  have hget : s'.tv[j]? = some t := by rw [List.getElem?_eq_getElem hj, hjt]
  by_cases hjc : j = s.cur
  · right; rw [← hjc]; exact hget
  · left
    rw [h.2.2.2.2.2.2.1 j hjc] at hget
    exact List.mem_of_getElem? hget

theorem tvGet_some {s : State} {i : Nat} {t : Token} (h : tvGet s i = .ok t) : s.tv[i]? = some t := by
  unfold tvGet at h
  cases hq : s.tv[i]? with
  | none => simp [hq] at h
  | some x => simp only [hq, Except.ok.injEq] at h; rw [h]

theorem tvSet_eq {s s' : State} {i : Nat} {t : Token} (h : tvSet s i t = .ok s') :
    s' = { s with tv := s.tv.set i t } := by
  unfold tvSet at h
  split at h
  · simp only [Except.ok.injEq] at h; exact h.symm
  · cases h

end LibInj.Sqli
