import LibInj.Proofs.XssShift
import LibInj.Proofs.XssLift
import LibInj.Proofs.NulClass
set_option linter.unusedSimpArgs false
set_option linter.unusedVariables false
/-! C11 / C04: the verdict on `text <name rest` is "`name` is a black tag, or the verdict of what follows the
name", where what follows is read from a state that depends on `rest` only. NUL bytes inside the first
element name therefore never change the element-content verdict. -/
namespace LibInj.Xss
open LibInj LibInj.H5

/-- the machine state right after an element name, over the rest of the input alone -/
def afterName : Bytes → H
  | [] => { s := [], state := .eof }
  | c :: t =>
    if isH5White c then { s := c :: t, pos := 1, state := .beforeAttrName }
    else if c == 47 then { s := c :: t, pos := 1, state := .selfClosing }
    else { s := c :: t, pos := 0, state := .tagNameClose }

theorem afterName_s (rest : Bytes) : (afterName rest).s = rest := by
  unfold afterName
  cases rest with
  | nil => rfl
  | cons c t => simp only []; split <;> (try split) <;> rfl

/-- the tag-name state on `pre ++ name ++ rest` (a delimiter follows): the name token, then the state after
the name shifted by `pre ++ name` -/
theorem tagName_after (h : H) (pre name : Bytes) (c : UInt8) (t : Bytes) (hs : h.s = pre ++ name ++ c :: t) (hpos : h.pos = pre.length)
    (hclose : h.isClose = false) (hn : NameAt name (c :: t)) :
    stateTagName h = .ok (true, shiftG (pre ++ name) pre.length name.length .tagNameOpen (afterName (c :: t))) := by
  have hlen : h.s.length = pre.length + name.length + (t.length + 1) := by rw [hs]; simp; omega
  have hdrop : h.s.drop h.pos = name ++ c :: t := by
    rw [hs, hpos, List.append_assoc, List.drop_left]
  have hc : tagNameByte c = false := by
    rcases hn.stop with h0 | ⟨c', t', he, hc'⟩
    · cases h0
    · cases he; exact hc'
  unfold stateTagName
  have hoff : offFrom h.s h.pos = .ok h.pos := by unfold offFrom; simp; omega
  simp only [hoff, bind, Except.bind, pure, Except.pure, hdrop, spn_name name (c :: t) hn]
  have hget : h.s[h.pos + name.length]? = some c := by
    rw [hs, hpos, List.append_assoc, List.getElem?_append_right (by omega)]
    rw [show pre.length + name.length - pre.length = name.length by omega]
    rw [List.getElem?_append_right (Nat.le_refl _)]
    simp
  rw [hget]
  simp only []
  unfold afterName
  rcases stop_byte c hc with hw | h47 | h62
  · simp only [hw, ↓reduceIte]
    congr 2
    refine H_eq _ _ ?_ ?_ ?_ rfl ?_ ?_ rfl <;> simp [emit, shiftG, hs, hpos, hclose] <;> omega
  · subst h47
    have : isH5White 47 = false := by decide
    simp only [this, Bool.false_eq_true, ↓reduceIte, beq_self_eq_true]
    congr 2
    refine H_eq _ _ ?_ ?_ ?_ rfl ?_ ?_ rfl <;> simp [emit, shiftG, hs, hpos, hclose] <;> omega
  · subst h62
    have e1 : isH5White 62 = false := by decide
    have e2 : ((62 : UInt8) == 47) = false := by decide
    simp only [e1, e2, Bool.false_eq_true, ↓reduceIte, hclose]
    congr 2
    refine H_eq _ _ ?_ ?_ ?_ rfl ?_ ?_ rfl <;> simp [emit, shiftG, hs, hpos, hclose] <;> omega

/-- the tag-open state on the first byte of a name hands over to the tag-name state -/
theorem tagOpen_is_tagName (d : Nat) (h : H) (pre name rest : Bytes) (hs : h.s = pre ++ name ++ rest) (hpos : h.pos = pre.length)
    (hn : NameAt name rest) : stateTagOpen (d + 1) h = stateTagName h := by
  obtain ⟨c, t, hname, hc⟩ := hn.first
  have hlen : h.s.length = pre.length + name.length + rest.length := by rw [hs]; simp; omega
  have hnl : 1 ≤ name.length := by rw [hname]; simp
  have hlt : h.pos < h.s.length := by omega
  have hch : h.s[h.pos] = c := by
    have : h.s[h.pos]? = some c := by
      rw [hs, hpos, List.append_assoc, List.getElem?_append_right (Nat.le_refl _), hname]; simp
    rw [List.getElem?_eq_getElem hlt] at this
    exact Option.some.inj this
  unfold stateTagOpen
  have hge : ¬ h.pos ≥ h.s.length := by omega
  simp only [hge, ↓reduceIte, at'_ok hlt, hch, bind, Except.bind, pure, Except.pure]
  have hne : (c == 33) = false ∧ (c == 47) = false ∧ (c == 63) = false ∧ (c == 37) = false := by
    rcases hc with hc | hc
    · have := forall_byte (fun c => !isAlpha c || (c != 33 && c != 47 && c != 63 && c != 37)) (by decide +kernel) c
      simp only [hc, Bool.not_true, Bool.false_or, Bool.and_eq_true, bne_iff_ne, ne_eq] at this
      obtain ⟨⟨⟨a1, a2⟩, a3⟩, a4⟩ := this
      simp [a1, a2, a3, a4]
    · subst hc; decide
  simp only [hne.1, hne.2.1, hne.2.2.1, hne.2.2.2, Bool.false_eq_true, ↓reduceIte]
  rcases hc with hc | hc
  · simp only [hc, ↓reduceIte]
  · subst hc
    have : isAlpha 0 = false := by decide
    simp only [this, Bool.false_eq_true, ↓reduceIte, beq_self_eq_true]

theorem afterName_inv (c : UInt8) (t : Bytes) : Inv (afterName (c :: t)) ∧ ShOK (afterName (c :: t)) ∧
    mu (afterName (c :: t)) ≤ 3 * (t.length + 1) + 1 := by
  unfold afterName
  by_cases hw : isH5White c = true
  · simp only [hw, ↓reduceIte]
    refine ⟨⟨by simp, ?_, ?_, ?_⟩, ⟨?_, ?_, ?_, ?_, ?_, ?_⟩, ?_⟩ <;> simp [mu, rank]
    omega
  · simp only [hw, Bool.false_eq_true, ↓reduceIte]
    by_cases h47 : (c == 47) = true
    · simp only [h47, ↓reduceIte]
      refine ⟨⟨by simp, ?_, ?_, ?_⟩, ⟨?_, ?_, ?_, ?_, ?_, ?_⟩, ?_⟩ <;> simp [mu, rank]
      omega
    · simp only [h47, Bool.false_eq_true, ↓reduceIte]
      refine ⟨⟨by simp, ?_, ?_, ?_⟩, ⟨?_, ?_, ?_, ?_, ?_, ?_⟩, ?_⟩ <;> simp [mu, rank]

/-- **the verdict on `<name rest` in element content**: the name is a black tag, or the verdict of what
follows the name (which depends on `rest` only) -/
theorem first_tag_verdict (name : Bytes) (c : UInt8) (t : Bytes) (hn : NameAt name (c :: t)) :
    isXSSCtx (60 :: (name ++ c :: t)) 0 =
      if isBlackTag name = true then .ok true else xssLoop (afterName (c :: t)) 0 (3 * (t.length + 1) + 2) := by
  have hs' : (60 : UInt8) :: (name ++ c :: t) = [60] ++ name ++ c :: t := by simp
  -- the first step: data state, `<` at offset 0, tag-open state, tag-name state
  have hnext : next (init (60 :: (name ++ c :: t)) 0) =
      .ok (true, shiftG ([60] ++ name) 1 name.length .tagNameOpen (afterName (c :: t))) := by
    unfold next init
    simp only []
    unfold stateData dataDepth
    simp only [offFrom, Nat.zero_le, ↓reduceIte, List.drop_zero, bind, Except.bind, pure, Except.pure]
    have hi : indexByte (60 :: (name ++ c :: t)) 60 = some 0 := by simp [indexByte]
    simp only [hi, beq_self_eq_true, ↓reduceIte]
    rw [tagOpen_is_tagName 4 _ [60] name (c :: t) (by simp [emit]) (by simp [emit]) hn]
    exact tagName_after _ [60] name c t (by simp [emit]) (by simp [emit]) (by simp [emit]) hn
  have hslice : slice (shiftG ([60] ++ name) 1 name.length .tagNameOpen (afterName (c :: t))).s 1 (1 + name.length) = .ok name := by
    show slice (([60] ++ name) ++ (afterName (c :: t)).s) 1 (1 + name.length) = .ok name
    rw [afterName_s]
    unfold slice
    have hl : 1 + name.length ≤ (([60] ++ name) ++ c :: t).length := by simp; omega
    simp only [Nat.le_add_right, hl, and_self, ↓reduceIte]
    simp
  unfold isXSSCtx xssFuel
  have hF : 3 * (60 :: (name ++ c :: t)).length + 4 = (3 * (60 :: (name ++ c :: t)).length + 3) + 1 := by omega
  rw [hF, xssLoop_tag_step _ _ 0 _ name hnext rfl hslice]
  split
  · rfl
  · obtain ⟨hi, ho, hm⟩ := afterName_inv c t
    exact xssLoop_sh _ _ _ _ _ _ (afterName (c :: t)) 0 hi ho (by omega) (by simp; omega)

/-- `<name` at the end of the input -/
theorem first_tag_verdict_eof (name : Bytes) (hn : NameAt name []) :
    isXSSCtx (60 :: name) 0 = .ok (isBlackTag name) := by
  have hnext : ∃ h2, next (init (60 :: (name ++ [])) 0) = .ok (true, h2) ∧ h2.s = 60 :: (name ++ []) ∧ h2.tokType = .tagNameOpen ∧
      h2.tokStart = 1 ∧ h2.tokLen = name.length ∧ h2.state = .eof := by
    unfold next init
    simp only []
    unfold stateData dataDepth
    simp only [offFrom, Nat.zero_le, ↓reduceIte, List.drop_zero, bind, Except.bind, pure, Except.pure]
    have hi : indexByte (60 :: (name ++ [])) 60 = some 0 := by simp [indexByte]
    simp only [hi, beq_self_eq_true, ↓reduceIte]
    rw [tagOpen_is_tagName 4 _ [60] name [] (by simp [emit]) (by simp [emit]) hn]
    unfold stateTagName
    simp only [emit, offFrom, List.length_cons, List.length_append, List.length_nil, bind, Except.bind, pure, Except.pure]
    have hsp : spn tagNameByte (List.drop 1 (60 :: (name ++ []))) = name.length := by
      simp only [List.drop_succ_cons, List.drop_zero, List.append_nil]
      exact spnA_all _ _ hn.bytes
    have hle : 1 ≤ name.length + 0 + 1 := by omega
    simp only [hle, ↓reduceIte, hsp]
    have hget : (60 :: (name ++ []))[1 + name.length]? = none := by
      apply List.getElem?_eq_none; simp; omega
    rw [hget]
    exact ⟨_, rfl, rfl, rfl, rfl, by simp, rfl⟩
  obtain ⟨h2, e0, e1, e2, e3, e4, e5⟩ := hnext
  simp only [List.append_nil] at e0 e1
  have hslice : slice h2.s h2.tokStart (h2.tokStart + h2.tokLen) = .ok name := by
    rw [e1, e3, e4]
    unfold slice
    have hl : 1 + name.length ≤ (60 :: name).length := by simp; omega
    simp only [Nat.le_add_right, hl, and_self, ↓reduceIte]
    simp
  unfold isXSSCtx xssFuel
  have hF : 3 * (60 :: name).length + 4 = (3 * (60 :: name).length + 2) + 1 + 1 := by omega
  rw [hF, xssLoop_tag_step _ h2 0 _ name e0 e2 hslice]
  cases isBlackTag name with
  | true => rfl
  | false =>
    simp only [Bool.false_eq_true, ↓reduceIte]
    exact xssLoop_eof h2 e5 0 _

/-- a name with a NUL inserted strictly inside is still a name the tokenizer scans in one piece -/
theorem nameAt_nul (n1 n2 rest : Bytes) (h1 : n1 ≠ []) (hn : NameAt (n1 ++ n2) rest) : NameAt (n1 ++ 0 :: n2) rest := by
  obtain ⟨c, t, hname, hc⟩ := hn.first
  refine ⟨?_, ?_, hn.stop⟩
  · cases n1 with
    | nil => exact absurd rfl h1
    | cons x xs =>
      simp only [List.cons_append, List.cons.injEq] at hname
      exact ⟨x, xs ++ 0 :: n2, rfl, by rw [hname.1]; exact hc⟩
  · have := hn.bytes
    simp only [List.all_append, List.all_cons, Bool.and_eq_true] at this ⊢
    exact ⟨this.1, by decide, this.2⟩

/-- **C11 / C04, NUL inside the first element name**: after any `<`-free text, inserting a NUL strictly inside
the element name never changes the element-content verdict -/
theorem nul_first_tag (p n1 n2 rest : Bytes) (hp : (60 : UInt8) ∉ p) (h1 : n1 ≠ []) (hn : NameAt (n1 ++ n2) rest) :
    isXSSCtx (p ++ 60 :: ((n1 ++ 0 :: n2) ++ rest)) 0 = isXSSCtx (p ++ 60 :: ((n1 ++ n2) ++ rest)) 0 := by
  rw [data_prefix _ p hp, data_prefix _ p hp]
  have hn' := nameAt_nul n1 n2 rest h1 hn
  have hb : isBlackTag (n1 ++ 0 :: n2) = isBlackTag (n1 ++ n2) := isBlackTag_nul n1 n2
  cases rest with
  | nil =>
    simp only [List.append_nil]
    rw [first_tag_verdict_eof _ hn', first_tag_verdict_eof _ hn, hb]
  | cons c t =>
    rw [first_tag_verdict _ c t hn', first_tag_verdict _ c t hn, hb]

end LibInj.Xss
