import LibInj.Proofs.FoldBase
set_option linter.unusedSimpArgs false
set_option linter.unusedVariables false
/-! Safety of `fold`, part 2: the termination measure of the main loop, the relation "this stage only
rewrote the window", and the token-count-conditional invariant behind `notWhitelist`'s raw reads of
the input (C01). -/
namespace LibInj.Sqli
open LibInj

/-! ## measure -/

/-- weight of a token class: every in-place re-categorisation rule of `fold` lowers it
(`k → o|n`, `n|v → f`, `o → f`, `f → T`, `n → t`, `n → X`, `\ → 1`), except `f → n` (the `USER(` rule),
which moves `left` forward instead -/
def wcat (c : UInt8) : Nat :=
  if c = 107 then 22 else if c = 110 ∨ c = 118 ∨ c = 111 then 21 else if c = 102 ∨ c = 92 then 20 else 0

theorem wcat_le (c : UInt8) : wcat c ≤ 22 := by
  unfold wcat; split
  · omega
  · split
    · omega
    · split <;> omega

/-- total weight of the first `p` tokens of the window -/
def phi : List Token → Nat → Nat
  | [], _ => 0
  | _ :: _, 0 => 0
  | t :: ts, p + 1 => wcat t.cat + phi ts p

theorem phi_le : ∀ (tv : List Token) (p : Nat), phi tv p ≤ 22 * p
  | [], _ => by simp [phi]
  | _ :: _, 0 => by simp [phi]
  | t :: ts, p + 1 => by
    have := phi_le ts p
    have := wcat_le t.cat
    simp only [phi]; omega

theorem phi_set : ∀ (tv : List Token) (p i : Nat) (a t : Token), tv[i]? = some a → i < p →
    phi (tv.set i t) p + wcat a.cat = phi tv p + wcat t.cat
  | [], _, _, _, _, h, _ => by simp at h
  | x :: xs, 0, _, _, _, _, hi => by omega
  | x :: xs, p + 1, 0, a, t, h, _ => by
    have : x = a := by simpa using h
    subst this
    simp only [List.set_cons_zero, phi]; omega
  | x :: xs, p + 1, i + 1, a, t, h, hi => by
    have h' : xs[i]? = some a := by simpa using h
    have := phi_set xs p i a t h' (by omega)
    simp only [List.set_cons_succ, phi]; omega

def mu (f : FS) : Nat := phi f.s.tv f.pos + 2 * (f.pos - f.left)

theorem mu_le (f : FS) (hp : f.pos ≤ 6) : mu f ≤ 144 := by
  have := phi_le f.s.tv f.pos
  unfold mu; omega

/-- the measure of the main loop: unread input, then window size, then weights and distance -/
def bigM (f : FS) : Nat := (f.s.input.length - f.s.pos) * 1015 + f.pos * 145 + mu f

/-! ## a stage that only rewrites the window -/

def isNum (t : Token) : Prop := t.cat = 49 ∨ t.cat = 92

/-- a token of the new window: an old one, or a new one that is neither a comment nor (unless it
re-categorises an old number-like token in place) number-like -/
def Derived (tv : List Token) (t' : Token) : Prop :=
  t' ∈ tv ∨ (t'.cat ≠ 99 ∧ (isNum t' → ∃ t ∈ tv, isNum t ∧ t.pos = t'.pos ∧ t.len = t'.len))

def Evol (f f' : FS) : Prop :=
  f'.s.input = f.s.input ∧ f'.s.pos = f.s.pos ∧ f'.s.toks = f.s.toks ∧ f'.lastComment = f.lastComment ∧
  f'.more = f.more ∧ ∀ t' ∈ f'.s.tv, Derived f.s.tv t'

theorem Evol.refl (f : FS) : Evol f f := ⟨rfl, rfl, rfl, rfl, rfl, fun _ h => Or.inl h⟩

theorem Evol.trans {f g h : FS} (h1 : Evol f g) (h2 : Evol g h) : Evol f h := by
  obtain ⟨a1, a2, a3, a4, a5, a6⟩ := h1
  obtain ⟨b1, b2, b3, b4, b5, b6⟩ := h2
  refine ⟨b1.trans a1, b2.trans a2, b3.trans a3, b4.trans a4, b5.trans a5, ?_⟩
  intro t'' ht''
  rcases b6 t'' ht'' with hm | ⟨hc, hn⟩
  · exact a6 t'' hm
  · right
    refine ⟨hc, fun hnum => ?_⟩
    obtain ⟨t', ht', hn', hp', hl'⟩ := hn hnum
    rcases a6 t' ht' with hm | ⟨_, hn2⟩
    · exact ⟨t', hm, hn', hp', hl'⟩
    · obtain ⟨t, ht, hn3, hp3, hl3⟩ := hn2 hn'
      exact ⟨t, ht, hn3, hp3.trans hp', hl3.trans hl'⟩

theorem evol_same (f f' : FS) (htv : f'.s.tv = f.s.tv) (h1 : f'.s.input = f.s.input) (h2 : f'.s.pos = f.s.pos)
    (h3 : f'.s.toks = f.s.toks) (h4 : f'.lastComment = f.lastComment) (h5 : f'.more = f.more) : Evol f f' :=
  ⟨h1, h2, h3, h4, h5, fun t' h => Or.inl (htv ▸ h)⟩

theorem evol_set (f f' : FS) (i : Nat) (t : Token) (htv : f'.s.tv = f.s.tv.set i t) (hd : Derived f.s.tv t)
    (h1 : f'.s.input = f.s.input) (h2 : f'.s.pos = f.s.pos)
    (h3 : f'.s.toks = f.s.toks) (h4 : f'.lastComment = f.lastComment) (h5 : f'.more = f.more) : Evol f f' := by
  refine ⟨h1, h2, h3, h4, h5, fun t' h => ?_⟩
  rw [htv] at h
  rcases List.mem_or_eq_of_mem_set h with h | h
  · exact Or.inl h
  · rw [h]; exact hd

/-- a token that is moved inside the window -/
theorem derived_mem {tv : List Token} {i : Nat} {t : Token} (h : tv[i]? = some t) : Derived tv t :=
  Or.inl (List.mem_of_getElem? h)

/-- a token re-categorised to a class that is neither comment nor number-like -/
theorem derived_recat (tv : List Token) (t : Token) (c : UInt8) (h99 : c ≠ 99) (h49 : c ≠ 49) (h92 : c ≠ 92) :
    Derived tv { t with cat := c } :=
  Or.inr ⟨h99, fun h => by rcases h with h | h; exact absurd h h49; exact absurd h h92⟩

/-- the `\ → 1` rule -/
theorem derived_num {tv : List Token} {i : Nat} {t : Token} (h : tv[i]? = some t) (hn : isNum t) :
    Derived tv { t with cat := 49 } :=
  Or.inr ⟨by show (49 : UInt8) ≠ 99; decide, fun _ => ⟨t, List.mem_of_getElem? h, hn, rfl, rfl⟩⟩

/-! ## decrease -/

def Lt (f f' : FS) : Prop := f'.pos < f.pos ∨ (f'.pos = f.pos ∧ mu f' < mu f)
def Le (f f' : FS) : Prop := f'.pos < f.pos ∨ (f'.pos = f.pos ∧ mu f' ≤ mu f)

theorem lt_set (f f' : FS) (i : Nat) (a t : Token) (hget : f.s.tv[i]? = some a) (hi : i < f.pos)
    (htv : f'.s.tv = f.s.tv.set i t) (hpos : f'.pos = f.pos)
    (hw : wcat t.cat + 2 * (f.pos - f'.left) < wcat a.cat + 2 * (f.pos - f.left)) : Lt f f' := by
  right
  refine ⟨hpos, ?_⟩
  have := phi_set f.s.tv f.pos i a t hget hi
  unfold mu; rw [htv, hpos]; omega

theorem le_set (f f' : FS) (i : Nat) (a t : Token) (hget : f.s.tv[i]? = some a) (hi : i < f.pos)
    (htv : f'.s.tv = f.s.tv.set i t) (hpos : f'.pos = f.pos)
    (hw : wcat t.cat + 2 * (f.pos - f'.left) ≤ wcat a.cat + 2 * (f.pos - f.left)) : Le f f' := by
  right
  refine ⟨hpos, ?_⟩
  have := phi_set f.s.tv f.pos i a t hget hi
  unfold mu; rw [htv, hpos]; omega

theorem lt_left (f f' : FS) (htv : f'.s.tv = f.s.tv) (hpos : f'.pos = f.pos)
    (h : f.pos - f'.left < f.pos - f.left) : Lt f f' := by
  right
  refine ⟨hpos, ?_⟩
  unfold mu; rw [htv, hpos]; omega

theorem le_left (f f' : FS) (htv : f'.s.tv = f.s.tv) (hpos : f'.pos = f.pos)
    (h : f.pos - f'.left ≤ f.pos - f.left) : Le f f' := by
  right
  refine ⟨hpos, ?_⟩
  unfold mu; rw [htv, hpos]; omega

theorem Lt.le {f f' : FS} (h : Lt f f') : Le f f' := by
  rcases h with h | ⟨h1, h2⟩
  · exact Or.inl h
  · exact Or.inr ⟨h1, Nat.le_of_lt h2⟩

theorem bigM_le_of_Le (f f' : FS) (hev : Evol f f') (h : Le f f') (hp' : f'.pos ≤ 6) : bigM f' ≤ bigM f := by
  have hm := mu_le f' hp'
  unfold bigM
  rw [hev.1, hev.2.1]
  rcases h with h | ⟨h1, h2⟩
  · have : f'.pos * 145 + 145 ≤ f.pos * 145 := by omega
    omega
  · rw [h1]; omega

theorem bigM_lt_of_Lt (f f' : FS) (hev : Evol f f') (h : Lt f f') (hp' : f'.pos ≤ 6) : bigM f' < bigM f := by
  have hm := mu_le f' hp'
  unfold bigM
  rw [hev.1, hev.2.1]
  rcases h with h | ⟨h1, h2⟩
  · have : f'.pos * 145 + 145 ≤ f.pos * 145 := by omega
    omega
  · rw [h1]; omega

/-- reading input dominates everything else -/
theorem bigM_lt_of_scan (f f' : FS) (hin : f'.s.input = f.s.input) (hsp : f.s.pos < f'.s.pos)
    (hle : f'.s.pos ≤ f'.s.input.length) (hp' : f'.pos ≤ 6) : bigM f' < bigM f := by
  have hm := mu_le f' hp'
  unfold bigM
  rw [hin] at hle ⊢
  have : (f.s.input.length - f'.s.pos) * 1015 + 1015 ≤ (f.s.input.length - f.s.pos) * 1015 := by omega
  have : f'.pos * 145 ≤ 870 := by omega
  omega

/-! ## the invariant behind `notWhitelist`'s reads of `input[tv[0].len]`, `input[tv[0].len+1]` -/

def hasCom (f : FS) : Prop := ∃ u, (u ∈ f.s.tv ∨ u = f.lastComment) ∧ u.cat = 99

/-- a scan offset at or after `b` where a token was dispatched; if the byte there is `/` or `-` and
the token was a comment, two bytes exist (`/*`, `--`) -/
def Wit (input : Bytes) (b : Nat) : Prop :=
  ∃ p, b ≤ p ∧ p < input.length ∧ ((input[p]? = some 47 ∨ input[p]? = some 45) → p + 2 ≤ input.length)

/-- while at most two tokens have been emitted: no comment before the second token; a number-like
token ends inside the scanned input and, once a comment exists, before the offset the comment was
dispatched at -/
def XInv (f : FS) : Prop :=
  1 ≤ f.s.toks ∧ (f.s.toks ≤ 1 → ¬ hasCom f) ∧
  (f.s.toks ≤ 2 → ∀ t ∈ f.s.tv, isNum t → t.pos + t.len ≤ f.s.pos ∧ (hasCom f → Wit f.s.input (t.pos + t.len)))

theorem hasCom_evol {f f' : FS} (h : Evol f f') (hc : hasCom f') : hasCom f := by
  obtain ⟨u, hu, h99⟩ := hc
  rcases hu with hu | hu
  · rcases h.2.2.2.2.2 u hu with hm | ⟨hne, _⟩
    · exact ⟨u, Or.inl hm, h99⟩
    · exact absurd h99 hne
  · exact ⟨u, Or.inr (hu.trans h.2.2.2.1), h99⟩

theorem xinv_evol {f f' : FS} (h : Evol f f') (hx : XInv f) : XInv f' := by
  obtain ⟨x1, x2, x3⟩ := hx
  have e1 := h.1; have e2 := h.2.1; have e3 := h.2.2.1
  refine ⟨by rw [e3]; exact x1, fun ht hc => x2 (by rw [← e3]; exact ht) (hasCom_evol h hc), ?_⟩
  intro ht t' ht' hn'
  have x3' := x3 (by rw [← e3]; exact ht)
  rw [e1, e2]
  rcases h.2.2.2.2.2 t' ht' with hm | ⟨_, hd⟩
  · obtain ⟨y1, y2⟩ := x3' t' hm hn'
    exact ⟨y1, fun hc => y2 (hasCom_evol h hc)⟩
  · obtain ⟨t, htm, hnt, hp, hl⟩ := hd hn'
    obtain ⟨y1, y2⟩ := x3' t htm hnt
    rw [← hp, ← hl]
    exact ⟨y1, fun hc => y2 (hasCom_evol h hc)⟩

end LibInj.Sqli
