import LibInj.Html5.Machine
/-! Shipped (pre-repair) variants of repaired loops, kept as kernel-checked regression witnesses. -/
namespace LibInj.H5
open LibInj

/-- `stateCData` as shipped at 0520984: the end-of-input guard is computed from the token start
`h.pos` instead of the scan offset `pos` -/
def cdataLoopShipped (h : H) (pos : Nat) : Nat → M (Bool × H)
  | 0 => .error .fuel
  | fuel + 1 => do
    let _ ← offFrom h.s pos
    let eofTok : M (Bool × H) := do
      let start ← offFrom h.s h.pos
      return (true, { h with state := .eof, tokStart := start, tokLen := h.s.length - h.pos, tokType := .dataText })
    match indexByte (h.s.drop pos) 93 with
    | none => eofTok
    | some index =>
      if h.pos + index + 3 > h.s.length then eofTok
      else
        let c1 ← at' h.s (pos + index + 1)
        let isEnd ← (if c1 == 93 then do let c2 ← at' h.s (pos + index + 2); pure (c2 == 62) else pure false)
        if isEnd then
          let start ← offFrom h.s h.pos
          return (true, emit h start (pos + index - h.pos) .dataText (pos + index + 3) .data)
        else cdataLoopShipped h (pos + index + 1) fuel

end LibInj.H5
