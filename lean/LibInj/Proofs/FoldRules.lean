import LibInj.Proofs.FoldFetch
set_option linter.unusedSimpArgs false
set_option linter.unusedVariables false
/-! Safety of `fold`, part 4: the two- and three-token rewrite rules never err, keep the invariants,
only rewrite the window, and strictly lower the measure (C01). -/
namespace LibInj.Sqli
open LibInj

theorem dec_ok (f : FS) (k : Nat) (hk : k ≤ f.pos) : f.dec k = .ok { f with pos := f.pos - k } := by
  simp [FS.dec, sub, hk, bind, Except.bind, pure, Except.pure]

/-- an iteration outcome that keeps the invariant and the input -/
def StepOK (input : Bytes) : Step → Prop
  | .cont f' => FInv f' ∧ f'.s.input = input
  | .brk f' => FInv f' ∧ f'.s.input = input
  | .ret n f' => FInv f' ∧ f'.s.input = input ∧ n ≤ 7

def TwoOK (f : FS) : Two → Prop
  | .done st => StepOK f.s.input st
  | .next f' => FInv f' ∧ f'.s.input = f.s.input ∧ f'.pos = f.pos ∧ f'.left ≤ f.left ∧ f'.more = f.more ∧ f'.s.pos = f.s.pos

/-- rebuilding the loop variables around an unchanged scanner state -/
theorem finv_vars (f : FS) (hf : FInv f) (p l folds : Nat) (hl : l ≤ p) (hp : p ≤ 6) :
    FInv { f with pos := p, left := l, s := { f.s with folds := folds } } :=
  ⟨⟨hf.1.1, hf.1.2.1, hf.1.2.2⟩, hl, hp, hf.2.2.2⟩

theorem finv_state (f : FS) (hf : FInv f) (s' : State) (hs' : SInv s') (p l folds : Nat) (hl : l ≤ p) (hp : p ≤ 6) :
    FInv { f with pos := p, left := l, s := { s' with folds := folds } } :=
  ⟨⟨hs'.1, hs'.2.1, hs'.2.2⟩, hl, hp, hf.2.2.2⟩

/-- a value whose upper-case image has at least `n` bytes has at least `n` bytes -/
theorem len_of_upper_eq (v lit : Bytes) (h : toUpperCmp lit v = true) : lit.length ≤ v.length := by
  unfold toUpperCmp at h
  have : lit = goUpper v := by simpa using h
  rw [this]
  exact goUpper_length_le _ v (Nat.le_refl _)

theorem funcNames_len (v : Bytes) (h : funcNames.any (fun n => toUpperCmp n v) = true) : 2 ≤ v.length := by
  simp only [List.any_eq_true] at h
  obtain ⟨n, hn, hcmp⟩ := h
  have hl := len_of_upper_eq v n hcmp
  have : 4 ≤ n.length := by
    simp only [funcNames, List.mem_cons, List.mem_nil_iff, or_false] at hn
    rcases hn with rfl | rfl | rfl | rfl | rfl | rfl | rfl | rfl | rfl | rfl | rfl <;> decide +kernel
  omega

theorem catV_lit (c : UInt8) (len : Nat) (h : CatLit c) : CatV c len := catLit_ok h

theorem like_len (v : Bytes) (h : (toUpperCmp (bs "LIKE") v || toUpperCmp (bs "NOT LIKE") v) = true) : 2 ≤ v.length := by
  rcases Bool.or_eq_true _ _ ▸ h with h | h
  · have := len_of_upper_eq v _ h
    have e : (bs "LIKE").length = 4 := by decide +kernel
    omega
  · have := len_of_upper_eq v _ h
    have e : (bs "NOT LIKE").length = 8 := by decide +kernel
    omega

theorem isIfToken_ok (a b : Token) (hb : TokF b) : ∃ v, isIfToken a b = .ok v := by
  unfold isIfToken
  by_cases cIF : (a.cat == 59 && b.cat == 102) = true
  · have hb102 : b.cat = 102 := by simp only [Bool.and_eq_true, beq_iff_eq] at cIF; exact cIF.2
    have hl2 : 2 ≤ b.val.length := by rw [hb.1.1]; exact hb.2.2.1 hb102
    simp only [cIF, ↓reduceIte, at'_ok (show 0 < b.val.length by omega), at'_ok (show 1 < b.val.length by omega),
      bind, Except.bind, pure, Except.pure]
    split <;> exact ⟨_, rfl⟩
  · simp only [cIF, Bool.false_eq_true, ↓reduceIte, pure, Except.pure]
    exact ⟨_, rfl⟩

theorem sinv_folds (s : State) (hs : SInv s) (k : Nat) : SInv { s with folds := k } := ⟨hs.1, hs.2.1, hs.2.2⟩

/-- store a token and rebuild the loop variables -/
theorem set_vars (f : FS) (hf : FInv f) (i : Nat) (t : Token) (hi : i < 8) (ht : TokF t) :
    ∃ s', tvSet f.s i t = .ok s' ∧ SInv s' ∧ s'.input = f.s.input ∧ s'.pos = f.s.pos ∧
      ∀ (p l : Nat), l ≤ p → p ≤ 6 →
        FInv { s := s', pos := p, left := l, more := f.more, lastComment := f.lastComment } ∧
        ∀ k, FInv { s := { s' with folds := k }, pos := p, left := l, more := f.more, lastComment := f.lastComment } := by
  obtain ⟨s', h1, h2, h3, h4, _⟩ := tvSet_inv f.s hf.1 i hi t ht
  exact ⟨s', h1, h2, h3, h4, fun p l hl hp => ⟨⟨h2, hl, hp, hf.2.2.2⟩, fun k => ⟨sinv_folds s' h2 k, hl, hp, hf.2.2.2⟩⟩⟩

/-- what a finished iteration did to the window and the measure -/
def StepRel (f : FS) : Step → Prop
  | .cont f' => Evol f f' ∧ Lt f f'
  | .brk f' => Evol f f'
  | .ret _ f' => Evol f f'

def TwoRel (f : FS) : Two → Prop
  | .done st => StepRel f st
  | .next f' => Evol f f' ∧ Le f f'

theorem set_facts {s s' : State} {i : Nat} {t : Token} (h : tvSet s i t = .ok s') :
    s'.tv = s.tv.set i t ∧ s'.input = s.input ∧ s'.pos = s.pos ∧ s'.toks = s.toks := by
  rw [tvSet_eq h]; exact ⟨rfl, rfl, rfl, rfl⟩

theorem evol_of_set (f : FS) (s' : State) (i : Nat) (t : Token) (h : tvSet f.s i t = .ok s') (hd : Derived f.s.tv t)
    (f' : FS) (hs : f'.s.tv = s'.tv) (hin : f'.s.input = s'.input) (hp : f'.s.pos = s'.pos) (ht : f'.s.toks = s'.toks)
    (hl : f'.lastComment = f.lastComment) (hm : f'.more = f.more) : Evol f f' := by
  obtain ⟨e1, e2, e3, e4⟩ := set_facts h
  exact evol_set f f' i t (hs.trans e1) hd (hin.trans e2) (hp.trans e3) (ht.trans e4) hl hm

theorem lt_of_set (f : FS) (s' : State) (i : Nat) (a t : Token) (h : tvSet f.s i t = .ok s')
    (hget : f.s.tv[i]? = some a) (hi : i < f.pos) (f' : FS) (hs : f'.s.tv = s'.tv) (hpos : f'.pos = f.pos)
    (hw : wcat t.cat + 2 * (f.pos - f'.left) < wcat a.cat + 2 * (f.pos - f.left)) : Lt f f' :=
  lt_set f f' i a t hget hi (hs.trans (set_facts h).1) hpos hw

theorem le_of_set (f : FS) (s' : State) (i : Nat) (a t : Token) (h : tvSet f.s i t = .ok s')
    (hget : f.s.tv[i]? = some a) (hi : i < f.pos) (f' : FS) (hs : f'.s.tv = s'.tv) (hpos : f'.pos = f.pos)
    (hw : wcat t.cat + 2 * (f.pos - f'.left) ≤ wcat a.cat + 2 * (f.pos - f.left)) : Le f f' :=
  le_set f f' i a t hget hi (hs.trans (set_facts h).1) hpos hw

theorem w102 : wcat 102 = 20 := by decide
theorem w92 : wcat 92 = 20 := by decide
theorem w110 : wcat 110 = 21 := by decide
theorem w118 : wcat 118 = 21 := by decide
theorem w111 : wcat 111 = 21 := by decide
theorem w107 : wcat 107 = 22 := by decide
theorem w84 : wcat 84 = 0 := by decide
theorem w116 : wcat 116 = 0 := by decide
theorem w88 : wcat 88 = 0 := by decide
theorem w49 : wcat 49 = 0 := by decide

theorem derived_cat (tv : List Token) (t : Token) (h99 : t.cat ≠ 99) (h49 : t.cat ≠ 49) (h92 : t.cat ≠ 92) :
    Derived tv t :=
  Or.inr ⟨h99, fun h => by rcases h with h | h; exact absurd h h49; exact absurd h h92⟩

theorem isIfToken_true (a b : Token) (h : isIfToken a b = .ok true) : b.cat = 102 := by
  unfold isIfToken at h
  by_cases c : (a.cat == 59 && b.cat == 102) = true
  · simp only [Bool.and_eq_true, beq_iff_eq] at c; exact c.2
  · simp only [c, Bool.false_eq_true, ↓reduceIte, pure, Except.pure, Except.ok.injEq] at h

/-- a stage that lowers `pos` and leaves the window alone -/
theorem rel_dec (f f' : FS) (a : f'.s.tv = f.s.tv) (b : f'.s.input = f.s.input) (c : f'.s.pos = f.s.pos)
    (d : f'.s.toks = f.s.toks) (e : f'.lastComment = f.lastComment) (g : f'.more = f.more) (h : f'.pos < f.pos) :
    StepRel f (.cont f') := ⟨evol_same f f' a b c d e g, Or.inl h⟩

/-- a stage that stores a token, lowers `pos` -/
theorem rel_set_dec (f : FS) (s' : State) (i : Nat) (t : Token) (h : tvSet f.s i t = .ok s') (hd : Derived f.s.tv t)
    (f' : FS) (hs : f'.s.tv = s'.tv) (hin : f'.s.input = s'.input) (hp : f'.s.pos = s'.pos) (ht : f'.s.toks = s'.toks)
    (hl : f'.lastComment = f.lastComment) (hm : f'.more = f.more) (hlt : f'.pos < f.pos) : StepRel f (.cont f') :=
  ⟨evol_of_set f s' i t h hd f' hs hin hp ht hl hm, Or.inl hlt⟩

set_option maxHeartbeats 1000000 in
/-- **the two-token stage never errs, keeps the invariant, only rewrites the window and lowers the
measure** -/
theorem foldTwo_ok (f : FS) (hf : FInv f) (h2 : f.left + 2 ≤ f.pos) :
    ∃ r, foldTwo f = .ok r ∧ TwoOK f r ∧ TwoRel f r := by
  have hfull := hf
  obtain ⟨hs, hlp, hp6, hlc⟩ := hf
  obtain ⟨a, ha, hta⟩ := tvGet_ok f.s hs f.left (by omega)
  obtain ⟨b, hb, htb⟩ := tvGet_ok f.s hs (f.left + 1) (by omega)
  have ga := tvGet_some ha
  have gb := tvGet_some hb
  have hLa : f.left < f.pos := by omega
  have hLb : f.left + 1 < f.pos := by omega
  obtain ⟨bu, hbu⟩ := isUnaryOp_ok b htb
  obtain ⟨mr, hmr, hmok⟩ := merge_ok a b hta htb
  obtain ⟨ba, hba⟩ := isArithmeticOp_ok b htb
  obtain ⟨isIF, hIF⟩ := isIfToken_ok a b htb
  have hva := valOf_ok a hta
  have d1 := dec_ok f 1 (by omega)
  have d2 := dec_ok f 2 (by omega)
  -- shapes of the outcomes
  have done1 : ∀ l, l ≤ f.pos - 1 → TwoOK f (.done (.cont { ({ f with pos := f.pos - 1 } : FS).folds 1 with left := l })) := by
    intro l hl
    exact ⟨finv_vars f hfull (f.pos - 1) l (f.s.folds + 1) hl (by omega), rfl⟩
  have done1' : TwoOK f (.done (.cont (({ f with pos := f.pos - 1 } : FS).folds 1))) := by
    exact ⟨finv_vars f hfull (f.pos - 1) f.left (f.s.folds + 1) (by omega) (by omega), rfl⟩
  have rdone1 : ∀ l, TwoRel f (.done (.cont { ({ f with pos := f.pos - 1 } : FS).folds 1 with left := l })) := by
    intro l
    exact rel_dec f _ rfl rfl rfl rfl rfl rfl (by show f.pos - 1 < f.pos; omega)
  have rdone1' : TwoRel f (.done (.cont (({ f with pos := f.pos - 1 } : FS).folds 1))) := by
    exact rel_dec f _ rfl rfl rfl rfl rfl rfl (by show f.pos - 1 < f.pos; omega)
  have setdone : ∀ (i : Nat) (t : Token), i < 8 → TokF t → ∀ (p l k : Nat), l ≤ p → p ≤ 6 →
      ∃ s', tvSet f.s i t = .ok s' ∧
        FInv { f with s := { s' with folds := s'.folds + k }, pos := p, left := l } ∧ s'.input = f.s.input ∧ s'.pos = f.s.pos ∧ SInv s' := by
    intro i t hi ht p l k hl hp
    obtain ⟨s', h1, h2', h3, h4, _⟩ := tvSet_inv f.s hs i (by omega) t ht
    exact ⟨s', h1, ⟨⟨h2'.1, h2'.2.1, h2'.2.2⟩, hl, hp, hlc⟩, h3, h4, h2'⟩
  unfold foldTwo
  simp only [ha, hb, hbu, bind, Except.bind]
  simp only [hmr]
  simp only [hba]
  simp only [hva]
  simp only [hIF]
  simp only [d1]
  simp only [d2]
  simp only [pure, Except.pure]
  by_cases c1 : (a.cat == 115 && b.cat == 115) = true
  · rw [if_pos c1]; exact ⟨_, rfl, done1', rdone1'⟩
  rw [if_neg c1]
  by_cases c2 : (a.cat == 59 && b.cat == 59) = true
  · rw [if_pos c2]; exact ⟨_, rfl, done1', rdone1'⟩
  rw [if_neg c2]
  by_cases c3 : ((a.cat == 111 || a.cat == 38) && (bu || b.cat == 116)) = true
  · rw [if_pos c3]; exact ⟨_, rfl, done1 0 (by omega), rdone1 0⟩
  rw [if_neg c3]
  by_cases c4 : (a.cat == 40 && bu) = true
  · rw [if_pos c4]
    refine ⟨_, rfl, ?_, rdone1 _⟩
    show TwoOK f (.done (.cont { ({ f with pos := f.pos - 1 } : FS).folds 1 with left := _ }))
    apply done1
    simp only [FS.folds]
    by_cases h0 : f.left > 0 <;> simp [h0] <;> omega
  rw [if_neg c4]
  -- merge
  cases mr with
  | some a' =>
    simp only []
    obtain ⟨hta', n49, n92, n99⟩ := hmok a' rfl
    obtain ⟨s', h1, _, h3, h4, hsi⟩ := setdone f.left a' (by omega) hta' 0 0 0 (by omega) (by omega)
    simp only [h1, dec_ok { f with s := s' } 1 (by show 1 ≤ f.pos; omega)]
    refine ⟨_, rfl, ?_, ?_⟩
    · refine ⟨⟨⟨hsi.1, hsi.2.1, hsi.2.2⟩, ?_, by show f.pos - 1 ≤ 6; omega, hlc⟩, h3⟩
      show (if f.left > 0 then f.left - 1 else f.left) ≤ f.pos - 1
      by_cases h0 : f.left > 0 <;> simp [h0] <;> omega
    · exact rel_set_dec f s' f.left a' h1 (derived_cat _ a' n99 n49 n92) _ rfl rfl rfl rfl rfl rfl
        (by show f.pos - 1 < f.pos; omega)
  | none =>
    simp only []
    -- a rule that stores token `t` in slot `i` and continues with unchanged loop variables
    have setcont : ∀ (i : Nat) (t : Token), i < 8 → TokF t →
        ∃ s', tvSet f.s i t = .ok s' ∧
          TwoOK f (Two.done (Step.cont { s := s', pos := f.pos, left := f.left, more := f.more, lastComment := f.lastComment })) := by
      intro i t hi ht
      obtain ⟨s', h1, _, h3, _, hv⟩ := set_vars f hfull i t hi ht
      exact ⟨s', h1, (hv f.pos f.left hlp hp6).1, h3⟩
    have setdrop : ∀ (i : Nat) (t : Token), i < 8 → TokF t →
        ∃ s', tvSet f.s i t = .ok s' ∧
          ({ s := s', pos := f.pos, left := f.left, more := f.more, lastComment := f.lastComment } : FS).dec 1 =
            .ok { s := s', pos := f.pos - 1, left := f.left, more := f.more, lastComment := f.lastComment } ∧
          TwoOK f (Two.done (Step.cont
            { s := (({ s := s', pos := f.pos - 1, left := f.left, more := f.more, lastComment := f.lastComment } : FS).folds 1).s,
              pos := (({ s := s', pos := f.pos - 1, left := f.left, more := f.more, lastComment := f.lastComment } : FS).folds 1).pos,
              left := 0,
              more := (({ s := s', pos := f.pos - 1, left := f.left, more := f.more, lastComment := f.lastComment } : FS).folds 1).more,
              lastComment := (({ s := s', pos := f.pos - 1, left := f.left, more := f.more, lastComment := f.lastComment } : FS).folds 1).lastComment })) := by
      intro i t hi ht
      obtain ⟨s', h1, _, h3, _, hv⟩ := set_vars f hfull i t hi ht
      refine ⟨s', h1, dec_ok _ 1 (by show 1 ≤ f.pos; omega), ?_⟩
      exact ⟨(hv (f.pos - 1) 0 (by omega) (by omega)).2 _, h3⟩
    have next_same : TwoOK f (.next f) := ⟨hfull, rfl, rfl, Nat.le_refl _, rfl, rfl⟩
    have rnext_same : TwoRel f (.next f) := ⟨Evol.refl f, Or.inr ⟨rfl, Nat.le_refl _⟩⟩
    by_cases c5 : isIF = true
    · rw [if_pos c5]
      have hb102 : b.cat = 102 := isIfToken_true a b (c5 ▸ hIF)
      obtain ⟨s', h1, h2⟩ := setcont (f.left + 1) { b with cat := 84 } (by omega) (htb.recat 84 (catLit_ok (by decide)))
      simp only [h1]
      refine ⟨_, rfl, h2, evol_of_set f s' _ _ h1 (derived_recat _ b 84 (by decide) (by decide) (by decide)) _ rfl rfl rfl rfl rfl rfl, ?_⟩
      refine lt_of_set f s' _ b _ h1 gb hLb _ rfl rfl ?_
      show wcat 84 + 2 * (f.pos - f.left) < wcat b.cat + 2 * (f.pos - f.left)
      rw [hb102, w84, w102]; omega
    rw [if_neg c5]
    by_cases c6 : ((a.cat == 110 || a.cat == 118) && b.cat == 40 && funcNames.any fun n => toUpperCmp n a.val) = true
    · rw [if_pos c6]
      have hfn : funcNames.any (fun n => toUpperCmp n a.val) = true := by
        simp only [Bool.and_eq_true] at c6; exact c6.2
      have hwa : wcat a.cat = 21 := by
        simp only [Bool.and_eq_true, Bool.or_eq_true, beq_iff_eq] at c6
        rcases c6.1.1 with h | h <;> rw [h] <;> decide
      have hl := funcNames_len a.val hfn
      obtain ⟨s', h1, h2⟩ := setcont f.left { a with cat := 102 } (by omega)
        (hta.recat 102 ⟨Or.inr (by decide), (fun _ => by rw [← hta.1.1]; exact hl), (fun h => absurd h (by decide))⟩)
      simp only [h1]
      refine ⟨_, rfl, h2, evol_of_set f s' _ _ h1 (derived_recat _ a 102 (by decide) (by decide) (by decide)) _ rfl rfl rfl rfl rfl rfl, ?_⟩
      refine lt_of_set f s' _ a _ h1 ga hLa _ rfl rfl ?_
      show wcat 102 + 2 * (f.pos - f.left) < wcat a.cat + 2 * (f.pos - f.left)
      rw [hwa, w102]; omega
    rw [if_neg c6]
    by_cases c7 : (a.cat == 107 && (toUpperCmp (bs "IN") a.val || toUpperCmp (bs "NOT IN") a.val)) = true
    · rw [if_pos c7]
      have ha107 : a.cat = 107 := by simp only [Bool.and_eq_true, beq_iff_eq] at c7; exact c7.1
      obtain ⟨s', h1, h2⟩ := setcont f.left { a with cat := if (b.cat == 40) = true then 111 else 110 } (by omega)
        (hta.recat _ (by split <;> exact catLit_ok (by decide)))
      simp only [h1]
      refine ⟨_, rfl, h2, evol_of_set f s' _ _ h1 (derived_recat _ a _ ?_ ?_ ?_) _ rfl rfl rfl rfl rfl rfl, ?_⟩
      · split <;> decide
      · split <;> decide
      · split <;> decide
      refine lt_of_set f s' _ a _ h1 ga hLa _ rfl rfl ?_
      show wcat (if (b.cat == 40) = true then 111 else 110) + 2 * (f.pos - f.left) < wcat a.cat + 2 * (f.pos - f.left)
      rw [ha107, w107]
      split
      · rw [w111]; omega
      · rw [w110]; omega
    rw [if_neg c7]
    by_cases c8 : (a.cat == 111 && (toUpperCmp (bs "LIKE") a.val || toUpperCmp (bs "NOT LIKE") a.val)) = true
    · rw [if_pos c8]
      have ha111 : a.cat = 111 := by simp only [Bool.and_eq_true, beq_iff_eq] at c8; exact c8.1
      by_cases c8b : (b.cat == 40) = true
      · rw [if_pos c8b]
        have hl := like_len a.val (by simp only [Bool.and_eq_true] at c8; exact c8.2)
        obtain ⟨s', h1, _, h3, h4, hv⟩ := set_vars f hfull f.left { a with cat := 102 } (by omega)
          (hta.recat 102 ⟨Or.inr (by decide), (fun _ => by rw [← hta.1.1]; exact hl), (fun h => absurd h (by decide))⟩)
        simp only [h1]
        refine ⟨_, rfl, ⟨(hv f.pos f.left hlp hp6).1, h3, rfl, Nat.le_refl _, rfl, h4⟩,
          evol_of_set f s' _ _ h1 (derived_recat _ a 102 (by decide) (by decide) (by decide)) _ rfl rfl rfl rfl rfl rfl, ?_⟩
        refine le_of_set f s' _ a _ h1 ga hLa _ rfl rfl ?_
        show wcat 102 + 2 * (f.pos - f.left) ≤ wcat a.cat + 2 * (f.pos - f.left)
        rw [ha111, w111, w102]; omega
      · rw [if_neg c8b]
        exact ⟨_, rfl, next_same, rnext_same⟩
    rw [if_neg c8]
    by_cases c9 : (a.cat == 116 && (b.cat == 110 || b.cat == 49 || b.cat == 116 || b.cat == 40 || b.cat == 102 || b.cat == 118 || b.cat == 115)) = true
    · rw [if_pos c9]
      obtain ⟨s', h1, h2, h3⟩ := setdrop f.left b (by omega) htb
      simp only [h1]; simp only [h2]
      exact ⟨_, rfl, h3, rel_set_dec f s' f.left b h1 (derived_mem gb) _ rfl rfl rfl rfl rfl rfl (by show f.pos - 1 < f.pos; omega)⟩
    rw [if_neg c9]
    by_cases c10 : (a.cat == 65 && b.cat == 110) = true
    · rw [if_pos c10]
      have hb110 : b.cat = 110 := by simp only [Bool.and_eq_true, beq_iff_eq] at c10; exact c10.2
      by_cases c10b : (indexByte b.val 95).isSome = true
      · rw [if_pos c10b]
        obtain ⟨s', h1, _, h3, h4, hv⟩ := set_vars f hfull (f.left + 1) { b with cat := 116 } (by omega)
          (htb.recat 116 (catLit_ok (by decide)))
        simp only [h1]
        refine ⟨_, rfl, ⟨(hv f.pos 0 (by omega) hp6).1, h3, rfl, Nat.zero_le _, rfl, h4⟩,
          evol_of_set f s' _ _ h1 (derived_recat _ b 116 (by decide) (by decide) (by decide)) _ rfl rfl rfl rfl rfl rfl, ?_⟩
        refine le_of_set f s' _ b _ h1 gb hLb _ rfl rfl ?_
        show wcat 116 + 2 * (f.pos - 0) ≤ wcat b.cat + 2 * (f.pos - f.left)
        rw [hb110, w110, w116]; omega
      · rw [if_neg c10b]
        exact ⟨_, rfl, next_same, rnext_same⟩
    rw [if_neg c10]
    by_cases c11 : (a.cat == 92) = true
    · rw [if_pos c11]
      have ha92 : a.cat = 92 := by simpa using c11
      by_cases c11b : ba = true
      · rw [if_pos c11b]
        obtain ⟨s', h1, _, h3, _, hv⟩ := set_vars f hfull f.left { a with cat := 49 } (by omega)
          (hta.recat 49 (catLit_ok (by decide)))
        simp only [h1]
        refine ⟨_, rfl, ⟨(hv f.pos 0 (by omega) hp6).1, h3⟩,
          evol_of_set f s' _ _ h1 (derived_num ga (Or.inr ha92)) _ rfl rfl rfl rfl rfl rfl, ?_⟩
        refine lt_of_set f s' _ a _ h1 ga hLa _ rfl rfl ?_
        show wcat 49 + 2 * (f.pos - 0) < wcat a.cat + 2 * (f.pos - f.left)
        rw [ha92, w92, w49]; omega
      · rw [if_neg c11b]
        obtain ⟨s', h1, h2, h3⟩ := setdrop f.left b (by omega) htb
        simp only [h1]; simp only [h2]
        exact ⟨_, rfl, h3, rel_set_dec f s' f.left b h1 (derived_mem gb) _ rfl rfl rfl rfl rfl rfl (by show f.pos - 1 < f.pos; omega)⟩
    rw [if_neg c11]
    by_cases c12 : (a.cat == 40 && b.cat == 40) = true
    · rw [if_pos c12]; exact ⟨_, rfl, done1 0 (by omega), rdone1 0⟩
    rw [if_neg c12]
    by_cases c13 : (a.cat == 41 && b.cat == 41) = true
    · rw [if_pos c13]; exact ⟨_, rfl, done1 0 (by omega), rdone1 0⟩
    rw [if_neg c13]
    by_cases c14 : (a.cat == 123 && b.cat == 110) = true
    · rw [if_pos c14]
      by_cases c14b : (b.len == 0) = true
      · rw [if_pos c14b]
        obtain ⟨s', h1, _, h3, _, hv⟩ := set_vars f hfull (f.left + 1) { b with cat := 88 } (by omega)
          (htb.recat 88 (catLit_ok (by decide)))
        simp only [h1]
        exact ⟨_, rfl, ⟨(hv f.pos f.left hlp hp6).1, h3, by omega⟩,
          evol_of_set f s' _ _ h1 (derived_recat _ b 88 (by decide) (by decide) (by decide)) _ rfl rfl rfl rfl rfl rfl⟩
      · rw [if_neg c14b]
        refine ⟨_, rfl, ?_, rel_dec f _ rfl rfl rfl rfl rfl rfl (by show f.pos - 2 < f.pos; omega)⟩
        exact ⟨finv_vars f hfull (f.pos - 2) 0 (f.s.folds + 2) (by omega) (by omega), rfl⟩
    rw [if_neg c14]
    by_cases c15 : (b.cat == 125) = true
    · rw [if_pos c15]; exact ⟨_, rfl, done1 0 (by omega), rdone1 0⟩
    rw [if_neg c15]
    exact ⟨_, rfl, next_same, rnext_same⟩

end LibInj.Sqli

namespace LibInj.Sqli
open LibInj

/-- an iteration outcome that keeps the invariant and the input, together with what it did -/
def StepAll (f : FS) (st : Step) : Prop := StepOK f.s.input st ∧ StepRel f st

set_option maxHeartbeats 1000000 in
/-- **the three-token stage never errs, keeps the invariant, only rewrites the window and lowers the
measure** -/
theorem foldThree_ok (f : FS) (hf : FInv f) (h3 : f.left + 3 ≤ f.pos) :
    ∃ st, foldThree f = .ok st ∧ StepOK f.s.input st ∧ StepRel f st := by
  have hfull := hf
  obtain ⟨hs, hlp, hp6, hlc⟩ := hf
  obtain ⟨a, ha, hta⟩ := tvGet_ok f.s hs f.left (by omega)
  obtain ⟨b, hb, htb⟩ := tvGet_ok f.s hs (f.left + 1) (by omega)
  obtain ⟨c, hc, htc⟩ := tvGet_ok f.s hs (f.left + 2) (by omega)
  have ga := tvGet_some ha
  have gc := tvGet_some hc
  have hLa : f.left < f.pos := by omega
  obtain ⟨bu, hbu⟩ := isUnaryOp_ok b htb
  have hva := valOf_ok a hta
  have hvb := valOf_ok b htb
  have d2 := dec_ok f 2 (by omega)
  have drop2 : StepOK f.s.input (.cont { s := f.s, pos := f.pos - 2, left := 0, more := f.more, lastComment := f.lastComment }) :=
    ⟨⟨hs, Nat.zero_le _, by show f.pos - 2 ≤ 6; omega, hlc⟩, rfl⟩
  have rdrop2 : StepRel f (.cont { s := f.s, pos := f.pos - 2, left := 0, more := f.more, lastComment := f.lastComment }) :=
    rel_dec f _ rfl rfl rfl rfl rfl rfl (by show f.pos - 2 < f.pos; omega)
  -- store `c` in the middle slot, drop `k` tokens, restart
  have setdrop : ∀ (k : Nat), 1 ≤ k → k ≤ f.pos →
      ∃ s', tvSet f.s (f.left + 1) c = .ok s' ∧
        ({ s := s', pos := f.pos, left := f.left, more := f.more, lastComment := f.lastComment } : FS).dec k =
          .ok { s := s', pos := f.pos - k, left := f.left, more := f.more, lastComment := f.lastComment } ∧
        StepOK f.s.input (.cont { s := s', pos := f.pos - k, left := 0, more := f.more, lastComment := f.lastComment }) ∧
        StepRel f (.cont { s := s', pos := f.pos - k, left := 0, more := f.more, lastComment := f.lastComment }) := by
    intro k hk1 hk
    obtain ⟨s', h1, _, hi, _, hv⟩ := set_vars f hfull (f.left + 1) c (by omega) htc
    exact ⟨s', h1, dec_ok _ k hk, ⟨(hv (f.pos - k) 0 (Nat.zero_le _) (by omega)).1, hi⟩,
      rel_set_dec f s' _ c h1 (derived_mem gc) _ rfl rfl rfl rfl rfl rfl (by show f.pos - k < f.pos; omega)⟩
  unfold foldThree
  simp only [ha, hb, hc, hbu, bind, Except.bind]
  simp only [hva]
  simp only [hvb]
  simp only [d2]
  simp only [pure, Except.pure]
  by_cases c1 : (a.cat == 49 && b.cat == 111 && c.cat == 49) = true
  · rw [if_pos c1]; exact ⟨_, rfl, drop2, rdrop2⟩
  rw [if_neg c1]
  by_cases c2 : (a.cat == 111 && b.cat != 40 && c.cat == 111) = true
  · rw [if_pos c2]; exact ⟨_, rfl, drop2, rdrop2⟩
  rw [if_neg c2]
  by_cases c3 : (a.cat == 38 && c.cat == 38) = true
  · rw [if_pos c3]; exact ⟨_, rfl, drop2, rdrop2⟩
  rw [if_neg c3]
  by_cases c4 : (a.cat == 118 && b.cat == 111 && (c.cat == 118 || c.cat == 49 || c.cat == 110)) = true
  · rw [if_pos c4]; exact ⟨_, rfl, drop2, rdrop2⟩
  rw [if_neg c4]
  by_cases c5 : ((a.cat == 110 || a.cat == 49) && b.cat == 111 && (c.cat == 49 || c.cat == 110)) = true
  · rw [if_pos c5]; exact ⟨_, rfl, drop2, rdrop2⟩
  rw [if_neg c5]
  by_cases c6 : ((a.cat == 110 || a.cat == 49 || a.cat == 118 || a.cat == 115) && b.cat == 111 &&
      b.val == [58, 58] && c.cat == 116) = true
  · rw [if_pos c6]
    exact ⟨_, rfl, ⟨finv_vars f hfull (f.pos - 2) 0 (f.s.folds + 2) (Nat.zero_le _) (by omega), rfl⟩,
      rel_dec f _ rfl rfl rfl rfl rfl rfl (by show f.pos - 2 < f.pos; omega)⟩
  rw [if_neg c6]
  by_cases c7 : ((a.cat == 110 || a.cat == 49 || a.cat == 115 || a.cat == 118) && b.cat == 44 &&
      (c.cat == 49 || c.cat == 110 || c.cat == 115 || c.cat == 118)) = true
  · rw [if_pos c7]; exact ⟨_, rfl, drop2, rdrop2⟩
  rw [if_neg c7]
  by_cases c8 : ((a.cat == 69 || a.cat == 66 || a.cat == 44) && bu && c.cat == 40) = true
  · rw [if_pos c8]
    obtain ⟨s', h1, h2, h3, h4⟩ := setdrop 1 (by omega) (by omega)
    simp only [h1]; simp only [h2]; exact ⟨_, rfl, h3, h4⟩
  rw [if_neg c8]
  by_cases c9 : ((a.cat == 107 || a.cat == 69 || a.cat == 66) && bu &&
      (c.cat == 49 || c.cat == 110 || c.cat == 118 || c.cat == 115 || c.cat == 102)) = true
  · rw [if_pos c9]
    obtain ⟨s', h1, h2, h3, h4⟩ := setdrop 1 (by omega) (by omega)
    simp only [h1]; simp only [h2]; exact ⟨_, rfl, h3, h4⟩
  rw [if_neg c9]
  by_cases c10 : (a.cat == 44 && bu && (c.cat == 49 || c.cat == 110 || c.cat == 118 || c.cat == 115)) = true
  · rw [if_pos c10]
    obtain ⟨s', h1, h2, h3, h4⟩ := setdrop 3 (by omega) (by omega)
    simp only [h1]; simp only [h2]; exact ⟨_, rfl, h3, h4⟩
  rw [if_neg c10]
  by_cases c11 : (a.cat == 44 && bu && c.cat == 102) = true
  · rw [if_pos c11]
    obtain ⟨s', h1, h2, h3, h4⟩ := setdrop 1 (by omega) (by omega)
    simp only [h1]; simp only [h2]; exact ⟨_, rfl, h3, h4⟩
  rw [if_neg c11]
  by_cases c12 : (a.cat == 110 && b.cat == 46 && c.cat == 110) = true
  · rw [if_pos c12]; exact ⟨_, rfl, drop2, rdrop2⟩
  rw [if_neg c12]
  by_cases c13 : (a.cat == 69 && b.cat == 46 && c.cat == 110) = true
  · rw [if_pos c13]
    obtain ⟨s', h1, h2, h3, h4⟩ := setdrop 1 (by omega) (by omega)
    simp only [h1]; simp only [h2]; exact ⟨_, rfl, h3, h4⟩
  rw [if_neg c13]
  have hnext : StepOK f.s.input (.cont { s := f.s, pos := f.pos, left := f.left + 1, more := f.more, lastComment := f.lastComment }) :=
    ⟨⟨hs, by show f.left + 1 ≤ f.pos; omega, hp6, hlc⟩, rfl⟩
  have rnext : StepRel f (.cont { s := f.s, pos := f.pos, left := f.left + 1, more := f.more, lastComment := f.lastComment }) :=
    ⟨evol_same f _ rfl rfl rfl rfl rfl rfl, lt_left f _ rfl rfl (by show f.pos - (f.left + 1) < f.pos - f.left; omega)⟩
  by_cases c14 : (a.cat == 102 && b.cat == 40 && c.cat != 41) = true
  · rw [if_pos c14]
    have ha102 : a.cat = 102 := by simp only [Bool.and_eq_true, beq_iff_eq] at c14; exact c14.1.1
    by_cases c14b : toUpperCmp (bs "USER") a.val = true
    · rw [if_pos c14b]
      obtain ⟨s', h1, _, hi, _, hv⟩ := set_vars f hfull f.left { a with cat := 110 } (by omega)
        (hta.recat 110 (catLit_ok (by decide)))
      simp only [h1]
      refine ⟨_, rfl, ⟨(hv f.pos (f.left + 1) (by omega) hp6).1, hi⟩,
        evol_of_set f s' _ _ h1 (derived_recat _ a 110 (by decide) (by decide) (by decide)) _ rfl rfl rfl rfl rfl rfl, ?_⟩
      refine lt_of_set f s' _ a _ h1 ga hLa _ rfl rfl ?_
      show wcat 110 + 2 * (f.pos - (f.left + 1)) < wcat a.cat + 2 * (f.pos - f.left)
      rw [ha102, w102, w110]; omega
    · rw [if_neg c14b]
      exact ⟨_, rfl, hnext, rnext⟩
  rw [if_neg c14]
  exact ⟨_, rfl, hnext, rnext⟩

end LibInj.Sqli
