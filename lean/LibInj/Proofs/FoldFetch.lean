import LibInj.Proofs.FoldRel
set_option linter.unusedSimpArgs false
set_option linter.unusedVariables false
/-! Safety of `fold`, part 3: the 5-token special cases and the token-fetching loops (C01). -/
namespace LibInj.Sqli
open LibInj

theorem foldSpecial_ok' (f : FS) (hf : FInv f) :
    ∃ f', foldSpecial f = .ok f' ∧ FInv f' ∧ Evol f f' ∧ (f' = f ∨ f'.pos < f.pos) ∧ (∀ t ∈ f'.s.tv, t ∈ f.s.tv) := by
  obtain ⟨hs, hlp, hp6, hlc⟩ := hf
  unfold foldSpecial
  by_cases hp : f.pos ≥ maxTokens
  · obtain ⟨b, hb⟩ := special5_ok f.s hs
    simp only [hp, ↓reduceIte, hb, bind, Except.bind, pure, Except.pure]
    have hp5 : 5 ≤ f.pos := hp
    cases b with
    | true =>
      simp only [↓reduceIte]
      by_cases hp' : f.pos > maxTokens
      · obtain ⟨t5, h5, ht5⟩ := tvGet_ok f.s hs 5 (by omega)
        obtain ⟨s', hs', hinv', hi', hp'', _⟩ := tvSet_inv f.s hs 1 (by omega) t5 ht5
        simp only [hp', ↓reduceIte, h5, hs']
        have e := tvSet_eq hs'
        refine ⟨_, rfl, ⟨hinv', by simp, by simp, hlc⟩, ?_, Or.inr (by show 2 < f.pos; omega), ?_⟩
        · exact evol_set f _ 1 t5 (by rw [e]) (derived_mem (tvGet_some h5)) (by rw [e]) (by rw [e]) (by rw [e]) rfl rfl
        · intro t ht
          have ht' : t ∈ f.s.tv.set 1 t5 := by rw [e] at ht; exact ht
          rcases List.mem_or_eq_of_mem_set ht' with h | h
          · exact h
          · rw [h]; exact List.mem_of_getElem? (tvGet_some h5)
      · simp only [hp', ↓reduceIte]
        refine ⟨_, rfl, ⟨hs, by simp, by simp, hlc⟩, evol_same f _ rfl rfl rfl rfl rfl rfl, Or.inr (by show 1 < f.pos; omega), fun t h => h⟩
    | false =>
      simp only [Bool.false_eq_true, ↓reduceIte]
      exact ⟨_, rfl, ⟨hs, hlp, hp6, hlc⟩, Evol.refl f, Or.inl rfl, fun t h => h⟩
  · simp only [hp, ↓reduceIte, pure, Except.pure]
    exact ⟨_, rfl, ⟨hs, hlp, hp6, hlc⟩, Evol.refl f, Or.inl rfl, fun t h => h⟩

/-- the loop condition of `fetch` -/
def fetchCond (f : FS) (k : Nat) : Prop :=
  (f.more && decide (f.pos ≤ maxTokens) && decide (f.pos - f.left < k)) = true

/-- one successful `tokenize` inside `fetch`, comment case: the invariant behind `notWhitelist` -/
theorem xinv_fetch_comment (f : FS) (s' : State) (t' : Token)
    (hstep : TokStep { f.s with cur := f.pos } true s') (hget : s'.tv[f.pos]? = some t') (h99 : t'.cat = 99)
    (hx : XInv f) : XInv { f with s := s', more := true, lastComment := t' } := by
  have hstep0 := hstep
  obtain ⟨q1, q2, q3, q4, q5, q6, q7, q8, q9, q10, q11, q12, q13⟩ := hstep
  simp only at q1 q2 q3 q4 q5 q6 q7 q8 q9 q10 q11 q12 q13
  obtain ⟨x1, x2, x3⟩ := hx
  obtain ⟨etoks, p, p1, p2, p3⟩ := q12 trivial
  refine ⟨by show 1 ≤ s'.toks; omega, fun h => by have : s'.toks ≤ 1 := h; omega, ?_⟩
  intro htk t ht hn
  have htk' : f.s.toks ≤ 1 := by have : s'.toks ≤ 2 := htk; omega
  have hnc := x2 htk'
  have htold : t ∈ f.s.tv := by
    rcases mem_of_step hstep0 t ht with h | h
    · exact h
    · have : t = t' := by simp only at h; rw [hget] at h; exact (Option.some.inj h).symm
      rw [this] at hn
      rcases hn with hn | hn <;> (rw [h99] at hn; exact absurd hn (by decide))
  obtain ⟨y1, _⟩ := x3 (by omega) t htold hn
  show t.pos + t.len ≤ s'.pos ∧ (_ → Wit s'.input _)
  rw [q1]
  refine ⟨by omega, fun _ => ⟨p, by omega, p2, ?_⟩⟩
  exact p3 t' hget h99

/-- one successful `tokenize` inside `fetch`, non-comment case -/
theorem xinv_fetch_token (f : FS) (s' : State) (t' : Token) (lc : Token) (hlc : lc.cat = 0)
    (hstep : TokStep { f.s with cur := f.pos } true s') (hget : s'.tv[f.pos]? = some t') (h99 : t'.cat ≠ 99)
    (hat : t'.pos + t'.len ≤ s'.pos)
    (hx : XInv f) : XInv { f with s := s', more := true, lastComment := lc, pos := f.pos + 1 } := by
  have hstep0 := hstep
  obtain ⟨q1, q2, q3, q4, q5, q6, q7, q8, q9, q10, q11, q12, q13⟩ := hstep
  simp only at q1 q2 q3 q4 q5 q6 q7 q8 q9 q10 q11 q12 q13
  obtain ⟨x1, x2, x3⟩ := hx
  obtain ⟨etoks, _⟩ := q12 trivial
  refine ⟨by show 1 ≤ s'.toks; omega, fun h => by have : s'.toks ≤ 1 := h; omega, ?_⟩
  intro htk t ht hn
  have htk' : f.s.toks ≤ 1 := by have : s'.toks ≤ 2 := htk; omega
  have hnc := x2 htk'
  -- no comment in the new window either
  have hnc' : ¬ hasCom { f with s := s', more := true, lastComment := lc, pos := f.pos + 1 } := by
    rintro ⟨u, hu, hu99⟩
    rcases hu with hu | hu
    · rcases mem_of_step hstep0 u hu with h | h
      · exact hnc ⟨u, Or.inl h, hu99⟩
      · have : u = t' := by simp only at h; rw [hget] at h; exact (Option.some.inj h).symm
        rw [this] at hu99; exact h99 hu99
    · have : u = lc := hu
      rw [this, hlc] at hu99; exact absurd hu99 (by decide)
  show t.pos + t.len ≤ s'.pos ∧ (_ → Wit s'.input _)
  refine ⟨?_, fun hc => absurd hc hnc'⟩
  rcases mem_of_step hstep0 t ht with h | h
  · have := (x3 (by omega) t h hn).1; omega
  · have : t = t' := by simp only at h; rw [hget] at h; exact (Option.some.inj h).symm
    rw [this]; exact hat

/-- `tokenize` reporting end of input -/
theorem xinv_fetch_end (f : FS) (s' : State)
    (hstep : TokStep { f.s with cur := f.pos } false s') (hx : XInv f) : XInv { f with s := s', more := false } := by
  have hstep0 := hstep
  obtain ⟨q1, q2, q3, q4, q5, q6, q7, q8, q9, q10, q11, q12, q13⟩ := hstep
  simp only at q1 q2 q3 q4 q5 q6 q7 q8 q9 q10 q11 q12 q13
  obtain ⟨x1, x2, x3⟩ := hx
  have hmem : ∀ t, t ∈ s'.tv → t ∈ f.s.tv ∨ t.cat = 0 := by
    intro t ht
    rcases mem_of_step hstep0 t ht with h | h
    · exact Or.inl h
    · rcases q13 trivial t h with h0 | h0
      · exact Or.inr h0
      · exact Or.inl (List.mem_of_getElem? h0)
  have hcom : hasCom { f with s := s', more := false } → hasCom f := by
    rintro ⟨u, hu, hu99⟩
    rcases hu with hu | hu
    · rcases hmem u hu with h | h
      · exact ⟨u, Or.inl h, hu99⟩
      · rw [h] at hu99; exact absurd hu99 (by decide)
    · exact ⟨u, Or.inr hu, hu99⟩
  refine ⟨by show 1 ≤ s'.toks; omega, fun h hc => x2 (by have : s'.toks ≤ 1 := h; omega) (hcom hc), ?_⟩
  intro htk t ht hn
  have htk' : f.s.toks ≤ 2 := by have : s'.toks ≤ 2 := htk; omega
  show t.pos + t.len ≤ s'.pos ∧ (_ → Wit s'.input _)
  rw [q1]
  rcases hmem t ht with h | h
  · obtain ⟨y1, y2⟩ := x3 htk' t h hn
    exact ⟨by omega, fun hc => y2 (hcom hc)⟩
  · rcases hn with hn | hn <;> (rw [h] at hn; exact absurd hn (by decide))

/-- the token-fetching loop: total (given enough fuel), keeps the invariants, never lowers `pos`,
keeps `left`; it either did nothing (its condition was false), or ended the input, or read input -/
theorem fetch_ok' (k : Nat) (fuel : Nat) : ∀ (f : FS), FInv f → f.s.input.length - f.s.pos + 1 < fuel →
    ∃ f', fetch f k fuel = .ok f' ∧ FInv f' ∧ f'.left = f.left ∧ f.pos ≤ f'.pos ∧ f'.s.input = f.s.input ∧
      f.s.pos ≤ f'.s.pos ∧ (XInv f → XInv f') ∧
      ((f' = f ∧ ¬ fetchCond f k) ∨ f'.more = false ∨ f.s.pos < f'.s.pos) ∧ (f.more = false → f' = f) := by
  induction fuel with
  | zero => intro f _ hf; omega
  | succ fuel ih =>
    intro f hf hfu
    obtain ⟨hs, hlp, hp6, hlc⟩ := hf
    unfold fetch
    by_cases hc : (f.more && decide (f.pos ≤ maxTokens) && decide (f.pos - f.left < k)) = true
    · have hp5 : f.pos ≤ 5 := by
        simp only [Bool.and_eq_true, decide_eq_true_eq] at hc; exact hc.1.2
      obtain ⟨more, s', hr, hs', hstep⟩ := tokenize_sinv { f.s with cur := f.pos } ⟨hs.1, hs.2.1, hs.2.2⟩ (by show f.pos < 8; omega)
      have hstep' := hstep
      obtain ⟨q1, q2, q3, q4, q5, q6, q7, q8, q9, q10, q11⟩ := hstep
      simp only at q1 q2 q3 q4 q5 q6 q7 q8 q9 q10
      simp only [hc, ↓reduceIte, hr, bind, Except.bind, pure, Except.pure]
      cases more with
      | false =>
        simp only [Bool.false_eq_true, ↓reduceIte]
        cases fuel with
        | zero => omega
        | succ fuel' =>
          unfold fetch
          simp only [Bool.false_and, Bool.false_eq_true, ↓reduceIte, pure, Except.pure]
          have hm : f.more = true := by simp only [Bool.and_eq_true] at hc; exact hc.1.1
          exact ⟨_, rfl, ⟨hs', hlp, hp6, hlc⟩, rfl, Nat.le_refl _, q1, q5, xinv_fetch_end f s' hstep', Or.inr (Or.inl rfl),
            fun h => by rw [hm] at h; cases h⟩
      | true =>
        obtain ⟨hadv, t', ht', htc, ⟨ti, tlo, thi, _, tcat⟩⟩ := q8 rfl
        have hget : tvGet s' s'.cur = .ok t' := by
          unfold tvGet; rw [q3]; show (match s'.tv[f.pos]? with | some t => Except.ok t | none => Except.error Err.tv) = _; rw [ht']
        simp only [↓reduceIte, hget]
        have hfuel : s'.input.length - s'.pos + 1 < fuel := by
          rw [q1]
          show f.s.input.length - s'.pos + 1 < fuel
          have : f.s.pos < s'.pos := hadv
          omega
        by_cases hcm : (t'.cat == 99) = true
        · rw [if_pos hcm]
          have h99 : t'.cat = 99 := by simpa using hcm
          obtain ⟨f', hf', hi', hl', hp', hin', hsp', hx', _, _⟩ := ih { f with s := s', more := true, lastComment := t' }
            ⟨hs', hlp, hp6, ⟨ti, tcat⟩⟩ hfuel
          have hm : f.more = true := by simp only [Bool.and_eq_true] at hc; exact hc.1.1
          refine ⟨f', hf', hi', hl', hp', by rw [hin']; exact q1, ?_, fun hx => hx' (xinv_fetch_comment f s' t' hstep' ht' h99 hx), Or.inr (Or.inr ?_),
            fun h => by rw [hm] at h; cases h⟩
          · have : s'.pos ≤ f'.s.pos := hsp'; omega
          · have : s'.pos ≤ f'.s.pos := hsp'; omega
        · rw [if_neg hcm]
          have h99 : t'.cat ≠ 99 := by simpa using hcm
          obtain ⟨f', hf', hi', hl', hp', hin', hsp', hx', _, _⟩ := ih
            { f with s := s', more := true, lastComment := { f.lastComment with cat := 0 }, pos := f.pos + 1 }
            ⟨hs', by simp; omega, by simp; omega,
              hlc.recat 0 ⟨Or.inl rfl, (fun h => absurd h (by decide)), (fun h => absurd h (by decide))⟩⟩ hfuel
          have hm : f.more = true := by simp only [Bool.and_eq_true] at hc; exact hc.1.1
          refine ⟨f', hf', hi', hl', by simp at hp'; omega, by rw [hin']; exact q1, ?_,
            fun hx => hx' (xinv_fetch_token f s' t' _ rfl hstep' ht' h99 thi hx), Or.inr (Or.inr ?_),
            fun h => by rw [hm] at h; cases h⟩
          · have : s'.pos ≤ f'.s.pos := hsp'; omega
          · have : s'.pos ≤ f'.s.pos := hsp'; omega
    · simp only [hc, Bool.false_eq_true, ↓reduceIte, pure, Except.pure]
      exact ⟨f, rfl, ⟨hs, hlp, hp6, hlc⟩, rfl, Nat.le_refl _, rfl, Nat.le_refl _, id, Or.inl ⟨rfl, hc⟩, fun _ => rfl⟩

theorem fetch_fuel_ok (f : FS) : f.s.input.length - f.s.pos + 1 < fetchFuel f.s.input.length := by
  unfold fetchFuel; omega

end LibInj.Sqli
