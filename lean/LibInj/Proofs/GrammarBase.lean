import LibInj.Proofs.SqlCase
import LibInj.Spec.SqliGrammar
set_option linter.unusedSimpArgs false
/-! C03: kernel evaluation of the canonical grammar on the model, and the lift of every evaluated
member to all of its letter-case variants (through C10). -/
namespace LibInj.Sqli
open LibInj LibInj.Spec.SqliGrammar

def isDetected : M (Bool × Bytes) → Bool | .ok (true, _) => true | _ => false

/-- the exempt positions of C10, strong form: no `\N`/`\n`, no `$`+letter, no `q'`+letter -/
def exemptAt (inp : Bytes) (i : Nat) : Bool :=
  (inp[i]? != some 92 || (inp[i+1]? != some 78 && inp[i+1]? != some 110)) &&
  (inp[i]? != some 36 || (inp[i+1]?).all (fun c => !isLetter c)) &&
  (!(inp[i]? == some 113 || inp[i]? == some 81) || inp[i+1]? != some 39 || (inp[i+2]?).all (fun c => !isLetter c))

def exemptFree (inp : Bytes) : Bool := (List.range inp.length).all (exemptAt inp)

/-- what the kernel evaluates per member: the model reports SQLi, and the member has no case-exempt position -/
def memberOK (s : Bytes) : Bool :=
  isDetected (isSQLi s) && exemptFree s && !contains (H5.L s) spPassword

def chunkOK (l : List Bytes) (k n : Nat) : Bool := ((l.drop k).take n).all memberOK

theorem all_step (l : List Bytes) (k n : Nat) (h1 : chunkOK l k n = true) (h2 : (l.drop (k + n)).all memberOK = true) :
    (l.drop k).all memberOK = true := by
  unfold chunkOK at h1
  have : l.drop k = (l.drop k).take n ++ l.drop (k + n) := by
    rw [← List.drop_drop, List.take_append_drop]
  rw [this, List.all_append, h1, h2]; rfl

theorem exemptFree_sound (inp : Bytes) (h : exemptFree inp = true) :
    (∀ i : Nat, inp[i]? = some (92 : UInt8) → inp[i+1]? ≠ some (78 : UInt8) ∧ inp[i+1]? ≠ some (110 : UInt8)) ∧
    (∀ i : Nat, inp[i]? = some (36 : UInt8) → ∀ c, inp[i+1]? = some c → isLetter c = false) ∧
    (∀ i : Nat, (inp[i]? = some (113 : UInt8) ∨ inp[i]? = some (81 : UInt8)) → inp[i+1]? = some (39 : UInt8) →
      ∀ c, inp[i+2]? = some c → isLetter c = false) := by
  have hat : ∀ i : Nat, inp[i]? ≠ none → exemptAt inp i = true := by
    intro i hi
    unfold exemptFree at h
    rw [List.all_eq_true] at h
    apply h
    rw [List.mem_range]
    rcases Nat.lt_or_ge i inp.length with hlt | hge
    · exact hlt
    · exact absurd (List.getElem?_eq_none hge) hi
  refine ⟨?_, ?_, ?_⟩
  · intro i hi
    have := hat i (by rw [hi]; simp)
    unfold exemptAt at this
    simp [hi] at this
    exact this
  · intro i hi c hc
    have := hat i (by rw [hi]; simp)
    unfold exemptAt at this
    simp [hi, hc] at this
    exact this
  · intro i hi hi1 c hc
    have := hat i (by rcases hi with h | h <;> rw [h] <;> simp)
    unfold exemptAt at this
    rcases hi with h | h <;> simp [h, hi1, hc] at this <;> exact this

/-- **lift through C10**: a member the kernel evaluated as detected is detected in every letter case -/
theorem memberOK_any_case (a s' : Bytes) (h : memberOK a = true) (heq : H5.L a = H5.L s') :
    ∃ fp, isSQLi s' = .ok (true, fp) := by
  unfold memberOK at h
  simp only [Bool.and_eq_true, Bool.not_eq_true'] at h
  obtain ⟨⟨hd, he⟩, hsp⟩ := h
  obtain ⟨h1, h2, h3⟩ := exemptFree_sound a he
  have ok1 := caseOK_of_lower a a rfl h1 h2 h3
  have ok2 := caseOK_of_lower a s' heq h1 h2 h3
  have e : isSQLi s' = isSQLi a := by
    rw [← isSQLi_L a ok1 hsp, ← isSQLi_L s' ok2 (by rw [← heq]; exact hsp), heq]
  rw [e]
  unfold isDetected at hd
  split at hd
  · rename_i fp hr; exact ⟨fp, hr⟩
  · cases hd

/-- the `k`-th skeleton -/
def skel (k : Nat) : List Bytes := (skeletons[k]?).getD []

end LibInj.Sqli
