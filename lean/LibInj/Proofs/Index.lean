import LibInj.Bytes
/-! Meaning of the search primitives: `indexByte` / `indexOf` return the *first* occurrence. -/
namespace LibInj

theorem indexByte_none_iff (s : Bytes) (c : UInt8) : indexByte s c = none ↔ c ∉ s := by
  induction s with
  | nil => simp [indexByte]
  | cons x xs ih =>
    by_cases h : (x == c) = true
    · have : x = c := by simpa using h
      simp [indexByte, h, this]
    · have hne : x ≠ c := by simpa using h
      have h' : (x == c) = false := by simpa using h
      simp only [indexByte, h', Bool.false_eq_true, ↓reduceIte, Option.map_eq_none_iff, ih, List.mem_cons, not_or]
      exact ⟨fun hh => ⟨fun e => hne e.symm, hh⟩, fun hh => hh.2⟩

/-- `indexByte` finds the first occurrence -/
theorem indexByte_some_iff (s : Bytes) (c : UInt8) (i : Nat) :
    indexByte s c = some i ↔ (s[i]? = some c ∧ ∀ j < i, s[j]? ≠ some c) := by
  induction s generalizing i with
  | nil => simp [indexByte]
  | cons x xs ih =>
    by_cases h : (x == c) = true
    · have hx : x = c := by simpa using h
      simp only [indexByte, h, ↓reduceIte, Option.some.injEq]
      constructor
      · intro hi; subst hi; simp [hx]
      · intro ⟨h1, h2⟩
        cases i with
        | zero => rfl
        | succ i => exact absurd (by simp [hx]) (h2 0 (by omega))
    · have hne : x ≠ c := by simpa using h
      have h' : (x == c) = false := by simpa using h
      simp only [indexByte, h', Bool.false_eq_true, ↓reduceIte]
      cases i with
      | zero => simp [hne]
      | succ i =>
        simp only [Option.map_eq_some_iff, Nat.add_right_cancel_iff, exists_eq_right, ih i, List.getElem?_cons_succ]
        constructor
        · intro ⟨h1, h2⟩
          refine ⟨h1, fun j hj => ?_⟩
          cases j with
          | zero => simp [hne]
          | succ j => simpa using h2 j (by omega)
        · intro ⟨h1, h2⟩
          exact ⟨h1, fun j hj => by simpa using h2 (j+1) (by omega)⟩

theorem indexByte_lt {s : Bytes} {c : UInt8} {i : Nat} (h : indexByte s c = some i) : i < s.length := by
  have := ((indexByte_some_iff s c i).mp h).1
  rcases Nat.lt_or_ge i s.length with h' | h'
  · exact h'
  · simp [List.getElem?_eq_none h'] at this

/-- `indexOf` finds the first position where the needle is a prefix of the remaining text -/
theorem indexOf_some_iff (h n : Bytes) (i : Nat) :
    indexOf h n = some i ↔ (i ≤ h.length ∧ isPrefix n (h.drop i) = true ∧ ∀ j < i, isPrefix n (h.drop j) = false) := by
  induction h generalizing i with
  | nil =>
    unfold indexOf
    by_cases hp : isPrefix n [] = true
    · simp only [hp, ↓reduceIte, Option.some.injEq, List.length_nil, Nat.le_zero_eq, List.drop_nil]
      constructor
      · intro h0; subst h0; simp
      · intro ⟨h0, _, _⟩; exact h0.symm
    · simp [hp]
  | cons x t ih =>
    unfold indexOf
    by_cases hp : isPrefix n (x :: t) = true
    · simp only [hp, ↓reduceIte, Option.some.injEq]
      constructor
      · intro h0; subst h0; simp [hp]
      · intro ⟨_, _, h3⟩
        cases i with
        | zero => rfl
        | succ i => have := h3 0 (by omega); simp [hp] at this
    · have hp' : isPrefix n (x :: t) = false := by simpa using hp
      simp only [hp', Bool.false_eq_true, ↓reduceIte]
      cases i with
      | zero => simp [hp']
      | succ i =>
        simp only [Option.map_eq_some_iff, Nat.add_right_cancel_iff, exists_eq_right, ih i, List.length_cons,
          Nat.add_le_add_iff_right, List.drop_succ_cons]
        constructor
        · intro ⟨h1, h2, h3⟩
          refine ⟨h1, h2, fun j hj => ?_⟩
          cases j with
          | zero => simpa using hp'
          | succ j => simpa using h3 j (by omega)
        · intro ⟨h1, h2, h3⟩
          exact ⟨h1, h2, fun j hj => by simpa using h3 (j+1) (by omega)⟩

theorem indexOf_le {h n : Bytes} {i : Nat} (hi : indexOf h n = some i) : i ≤ h.length :=
  ((indexOf_some_iff h n i).mp hi).1

theorem spn_le (p : UInt8 → Bool) (s : Bytes) : spn p s ≤ s.length := by
  induction s with
  | nil => simp [spn]
  | cons x xs ih => simp only [spn]; split <;> simp <;> omega

end LibInj
