import LibInj.Proofs.FingerprintOK
set_option linter.unusedSimpArgs false
set_option linter.unusedVariables false
/-! Safety of the blacklist / whitelist stage and totality of `IsSQLi` (C01). -/
namespace LibInj.Sqli
open LibInj LibInj.Tables

/-- table fact: a blacklisted fingerprint of two classes ends in `C` (comment) or `U` (union) -/
def twoFpOK (e : Entry) : Bool :=
  !(Nat.beq e.1 3 && Nat.beq e.2.2 70) || (Nat.beq (e.2.1 % 256) 67 || Nat.beq (e.2.1 % 256) 85)

set_option maxRecDepth 200000 in
theorem keywords_twoFpOK : Gen.keywords.all twoFpOK = true := by decide +kernel

theorem goUpper_plain : ∀ (w : Bytes), (∀ c ∈ w, c ≠ 0xC4 ∧ c ≠ 0xC5) → goUpper w = w.map upperAscii
  | [], _ => rfl
  | c :: t, h => by
    have hc := h c List.mem_cons_self
    rw [goUpper_cons_generic c t (fun hh => hc.1 hh.1) (fun hh => hc.2 hh.1),
      goUpper_plain t (fun x hx => h x (List.mem_cons_of_mem _ hx))]
    rfl

/-- a class byte (or 0), upper-cased, is ASCII; and upper-casing is idempotent on it -/
theorem class_upper (c : UInt8) (h : c = 0 ∨ isClassU8 c = true) :
    upperAscii c ≠ 0xC4 ∧ upperAscii c ≠ 0xC5 ∧ upperAscii (upperAscii c) = upperAscii c := by
  have := forall_byte (fun c => !(c == 0 || isClassU8 c) ||
    (upperAscii c != 0xC4 && upperAscii c != 0xC5 && upperAscii (upperAscii c) == upperAscii c)) (by decide +kernel) c
  have hc : (c == 0 || isClassU8 c) = true := by
    rcases h with h | h
    · simp [h]
    · simp [h]
  simp only [hc, Bool.not_true, Bool.false_or, Bool.and_eq_true, bne_iff_ne, ne_eq, beq_iff_eq] at this
  exact ⟨this.1.1, this.1.2, this.2⟩

/-- a class byte (or 0) whose upper-case image is `C` or `U` is the comment or the union class -/
theorem class_CU (c : UInt8) (h : c = 0 ∨ isClassU8 c = true) (hu : upperAscii c = 67 ∨ upperAscii c = 85) :
    c = 99 ∨ c = 85 := by
  have := forall_byte (fun c => !((c == 0 || isClassU8 c) && (upperAscii c == 67 || upperAscii c == 85)) ||
    (c == 99 || c == 85)) (by decide +kernel) c
  have hc : (c == 0 || isClassU8 c) = true := by
    rcases h with h | h
    · simp [h]
    · simp [h]
  have hu' : (upperAscii c == 67 || upperAscii c == 85) = true := by
    rcases hu with hu | hu <;> simp [hu]
  simp only [hc, hu', Bool.and_self, Bool.not_true, Bool.false_or, Bool.or_eq_true, beq_iff_eq] at this
  exact this

/-- **a blacklisted two-class fingerprint ends in the comment or the union class** -/
theorem blacklisted_two (c0 c1 : UInt8) (h0 : c0 = 0 ∨ isClassU8 c0 = true) (h1 : c1 = 0 ∨ isClassU8 c1 = true)
    (hb : searchKeyword (fpKey [c0, c1]) = 70) : c1 = 99 ∨ c1 = 85 := by
  obtain ⟨a1, a2, a3⟩ := class_upper c0 h0
  obtain ⟨b1, b2, b3⟩ := class_upper c1 h1
  have hg : goUpper (fpKey [c0, c1]) = [48, upperAscii c0, upperAscii c1] := by
    unfold fpKey
    rw [goUpper_plain]
    · simp only [List.map_cons, List.map_nil, a3, b3]
      rfl
    · intro x hx
      simp only [List.map_cons, List.map_nil, List.mem_cons, List.mem_nil_iff, or_false] at hx
      rcases hx with rfl | rfl | rfl
      · decide
      · exact ⟨a1, a2⟩
      · exact ⟨b1, b2⟩
  rw [searchKeyword_eq] at hb; unfold searchKeywordSpec at hb
  simp only [hg] at hb
  cases hl : lookupKw ([48, upperAscii c0, upperAscii c1] : Bytes).length (keyNat [48, upperAscii c0, upperAscii c1]) with
  | none => rw [hl] at hb; simp at hb
  | some v =>
    rw [hl] at hb
    simp only [] at hb
    have hm := lookupIn_some_mem _ _ _ _ hl
    have hv := List.all_eq_true.mp keywords_valOK _ hm
    have ht := List.all_eq_true.mp keywords_twoFpOK _ hm
    simp only [valOK, Bool.and_eq_true, Nat.blt_eq] at hv
    have hv128 : v < 128 := hv.1.1.1
    have hv70 : v = 70 := by
      have := congrArg UInt8.toNat hb
      simp at this
      omega
    subst hv70
    simp only [twoFpOK, List.length_cons, List.length_nil] at ht
    have hkey : keyNat [48, upperAscii c0, upperAscii c1] % 256 = (upperAscii c1).toNat := by
      have := (upperAscii c1).toNat_lt
      simp only [keyNat, List.foldl_cons, List.foldl_nil]
      omega
    rw [hkey] at ht
    have hcu : (upperAscii c1).toNat = 67 ∨ (upperAscii c1).toNat = 85 := by
      simp only [Bool.or_eq_true, Bool.not_eq_true'] at ht
      rcases ht with ht | ht
      · simp at ht
      · rcases ht with ht | ht
        · left; exact Nat.eq_of_beq_eq_true ht
        · right; exact Nat.eq_of_beq_eq_true ht
    apply class_CU c1 h1
    rcases hcu with h | h
    · left; exact UInt8.toNat_inj.mp h
    · right; exact UInt8.toNat_inj.mp h

end LibInj.Sqli

namespace LibInj.Sqli
open LibInj LibInj.Tables

/-- the raw reads of the input next to the leading number are in range -/
theorem wlNumComment_ok (s : State) (t0 : Token) (hw : s.toks ≤ 2 → Wit s.input t0.len) :
    ∃ b, wlNumComment s t0 = .ok b := by
  unfold wlNumComment
  by_cases ht : s.toks > 2
  · simp only [ht, ↓reduceIte, pure, Except.pure]; exact ⟨_, rfl⟩
  · obtain ⟨p, p1, p2, p3⟩ := hw (by omega)
    have hlt : t0.len < s.input.length := by omega
    simp only [ht, ↓reduceIte, at'_ok hlt, bind, Except.bind, pure, Except.pure]
    by_cases c1 : s.input[t0.len] ≤ 32
    · simp only [c1, ↓reduceIte]; exact ⟨_, rfl⟩
    · simp only [c1, ↓reduceIte, g, andM, toBool, byteIs, bind, Except.bind, pure, Except.pure]
      -- when the byte is `/` or `-` the next one exists
      have hnext : (s.input[t0.len] = 47 ∨ s.input[t0.len] = 45) → t0.len + 1 < s.input.length := by
        intro hch
        rcases Nat.lt_or_ge t0.len p with h | h
        · omega
        · have hp : p = t0.len := by omega
          subst hp
          have := p3 (by rw [List.getElem?_eq_getElem hlt]; rcases hch with h | h <;> simp [h])
          omega
      by_cases c2 : (s.input[t0.len] == 47) = true
      · have h47 : s.input[t0.len] = 47 := by simpa using c2
        have hn := hnext (Or.inl h47)
        simp only [c2, ↓reduceIte, at'_ok hn]
        split
        · exact ⟨_, rfl⟩
        · have c3 : (s.input[t0.len] == 45) = false := by rw [h47]; decide
          simp only [c3, Bool.false_eq_true, ↓reduceIte]
          exact ⟨_, rfl⟩
      · simp only [c2, Bool.false_eq_true, ↓reduceIte]
        by_cases c3 : (s.input[t0.len] == 45) = true
        · have h45 : s.input[t0.len] = 45 := by simpa using c3
          have hn := hnext (Or.inr h45)
          simp only [c3, ↓reduceIte, at'_ok hn]
          split <;> exact ⟨_, rfl⟩
        · simp only [c3, Bool.false_eq_true, ↓reduceIte]
          exact ⟨_, rfl⟩

/-- `notWhitelist` on a blacklisted fingerprint of length 2 -/
theorem wlTwo_ok (s : State) (hs : SInv s) (hx : XFin s) (t0 t1 : Token)
    (h0 : s.tv[0]? = some t0) (h1 : s.tv[1]? = some t1)
    (hb : searchKeyword (fpKey [t0.cat, t1.cat]) = 70) :
    ∃ b, wlTwo s [t0.cat, t1.cat] = .ok b := by
  have hm0 : t0 ∈ s.tv := List.mem_of_getElem? h0
  have hm1 : t1 ∈ s.tv := List.mem_of_getElem? h1
  have hf0 := hs.2.2 t0 hm0
  have hf1 := hs.2.2 t1 hm1
  have g0 : tvGet s 0 = .ok t0 := by unfold tvGet; rw [h0]
  have g1 : tvGet s 1 = .ok t1 := by unfold tvGet; rw [h1]
  unfold wlTwo
  simp only [g0, g1, bind, Except.bind, pure, Except.pure]
  by_cases cU : (([t0.cat, t1.cat] : Bytes)[1]? == some 85) = true
  · simp only [cU, ↓reduceIte]; exact ⟨_, rfl⟩
  · simp only [cU, Bool.false_eq_true, ↓reduceIte]
    have hne85 : t1.cat ≠ 85 := by
      intro h; apply cU; simp [h]
    have h99 : t1.cat = 99 := by
      rcases blacklisted_two t0.cat t1.cat hf0.2.1 hf1.2.1 hb with h | h
      · exact h
      · exact absurd h hne85
    have hl1 : 0 < t1.val.length := by
      have := hf1.2.2.2 h99
      rw [hf1.1.1]; omega
    simp only [at'_ok hl1]
    by_cases c1 : (t1.val[0] == 35) = true
    · simp only [c1, ↓reduceIte]; exact ⟨_, rfl⟩
    simp only [c1, Bool.false_eq_true, ↓reduceIte]
    by_cases c2 : (t0.cat == 110 && t1.cat == 99 && t1.val[0] != 47) = true
    · simp only [c2, ↓reduceIte]; exact ⟨_, rfl⟩
    simp only [c2, Bool.false_eq_true, ↓reduceIte]
    by_cases c3 : (t0.cat == 49 && t1.cat == 99 && t1.val[0] != 47) = true
    · simp only [c3, ↓reduceIte]; exact ⟨_, rfl⟩
    simp only [c3, Bool.false_eq_true, ↓reduceIte]
    by_cases c4 : (t0.cat == 49 && t1.cat == 99) = true
    · simp only [c4, ↓reduceIte]
      have h49 : t0.cat = 49 := by simp only [Bool.and_eq_true, beq_iff_eq] at c4; exact c4.1
      apply wlNumComment_ok
      intro htk
      obtain ⟨p, p1, p2, p3⟩ := hx htk t0 hm0 (Or.inl h49) ⟨t1, hm1, h99⟩
      exact ⟨p, by omega, p2, p3⟩
    · simp only [c4, Bool.false_eq_true, ↓reduceIte]
      split <;> exact ⟨_, rfl⟩

/-- `notWhitelist` on a fingerprint of length 3 -/
theorem wlThree_ok (s : State) (hs : SInvW s) (fp : Bytes) : ∃ b, wlThree s fp = .ok b := by
  obtain ⟨t0, g0, _, _⟩ := tvGetW s hs 0 (by omega)
  obtain ⟨t1, g1, hi1, _⟩ := tvGetW s hs 1 (by omega)
  obtain ⟨t2, g2, _, _⟩ := tvGetW s hs 2 (by omega)
  unfold wlThree
  simp only [g0, g1, g2, bind, Except.bind, pure, Except.pure]
  by_cases c1 : (fp == bs "sos" || fp == bs "s&s") = true
  · simp only [c1, ↓reduceIte]
    split <;> exact ⟨_, rfl⟩
  simp only [c1, Bool.false_eq_true, ↓reduceIte]
  have tail : ∃ b, wlInto t1 = .ok b := by
    unfold wlInto
    simp only [bind, Except.bind, pure, Except.pure]
    by_cases c3 : (t1.cat == 107) = true
    · rw [if_pos c3]
      by_cases c4 : t1.len < 5
      · rw [if_pos c4]; exact ⟨_, rfl⟩
      · rw [if_neg c4, slice_ok t1.val 0 4 (by omega) (by rw [hi1.1]; omega)]
        simp only []
        split <;> exact ⟨_, rfl⟩
    · rw [if_neg c3]; exact ⟨_, rfl⟩
  by_cases c2 : (fp == bs "s&n" || fp == bs "n&1" || fp == bs "1&1" || fp == bs "1&v" || fp == bs "1&s") = true
  · simp only [c2, ↓reduceIte]
    by_cases c2b : (s.toks == 3) = true
    · simp only [c2b, ↓reduceIte]; exact ⟨_, rfl⟩
    · simp only [c2b, Bool.false_eq_true, ↓reduceIte]
      exact tail
  · simp only [c2, Bool.false_eq_true, ↓reduceIte]
    exact tail

end LibInj.Sqli

namespace LibInj.Sqli
open LibInj LibInj.Tables

theorem take_two_cats (tv : List Token) (h : tv.length = 8) :
    ∃ t0 t1, tv[0]? = some t0 ∧ tv[1]? = some t1 ∧ (tv.take 2).map (·.cat) = [t0.cat, t1.cat] := by
  match tv, h with
  | t0 :: t1 :: _, _ => exact ⟨t0, t1, rfl, rfl, rfl⟩

/-- **the whitelist stage never errs** on a blacklisted fingerprint -/
theorem notWhitelist_ok (input : Bytes) (st : State) (h : FpInv input st) (hb : blacklist st = true) :
    ∃ b, notWhitelist st = .ok b := by
  obtain ⟨_, hfp⟩ := h
  unfold notWhitelist
  simp only [bind, Except.bind, pure, Except.pure]
  -- the `sp_password` shortcut either returns or falls through
  have key : (∃ b, (if st.fingerprint.length == 2 then wlTwo st st.fingerprint
      else if st.fingerprint.length == 3 then wlThree st st.fingerprint else (Except.ok true : M Bool)) = .ok b) := by
    rcases hfp with hX | ⟨hw, n, hn, hfpn, h2⟩
    · rw [hX]; exact ⟨_, rfl⟩
    · by_cases c2 : (st.fingerprint.length == 2) = true
      · rw [if_pos c2]
        have hlen : st.fingerprint.length = 2 := by simpa using c2
        have hn2 : n = 2 := by
          rw [hfpn, List.length_map, List.length_take, hw.1] at hlen
          omega
        subst hn2
        obtain ⟨hs, hx⟩ := h2 (Nat.le_refl _)
        obtain ⟨t0, t1, g0, g1, hcats⟩ := take_two_cats st.tv hw.1
        have hfp2 : st.fingerprint = [t0.cat, t1.cat] := by rw [hfpn, hcats]
        rw [hfp2]
        apply wlTwo_ok st hs (hx (by decide)) t0 t1 g0 g1
        unfold blacklist at hb
        rw [hfp2] at hb
        simpa using hb
      · rw [if_neg c2]
        by_cases c3 : (st.fingerprint.length == 3) = true
        · rw [if_pos c3]; exact wlThree_ok st hw _
        · rw [if_neg c3]; exact ⟨_, rfl⟩
  by_cases c1 : (decide (st.fingerprint.length > 1) && st.fingerprint[st.fingerprint.length - 1]? == some 99) = true
  · rw [if_pos c1]
    by_cases c1b : contains st.input spPassword = true
    · rw [if_pos c1b]; exact ⟨_, rfl⟩
    · rw [if_neg c1b]; exact key
  · rw [if_neg c1]; exact key

theorem checkFingerprint_ok (input : Bytes) (st : State) (h : FpInv input st) : ∃ b, checkFingerprint st = .ok b := by
  unfold checkFingerprint
  by_cases hb : blacklist st = true
  · simp only [hb, ↓reduceIte]; exact notWhitelist_ok input st h hb
  · simp only [hb, Bool.false_eq_true, ↓reduceIte, pure, Except.pure]; exact ⟨_, rfl⟩

/-- **one parsing context never errs** -/
theorem pass_ok (input : Bytes) (flags : Nat) : ∃ r, pass input flags = .ok r := by
  unfold pass
  obtain ⟨st, h1, hinv⟩ := fingerprint_ok input flags
  obtain ⟨b, h2⟩ := checkFingerprint_ok input st hinv
  simp only [h1, h2, bind, Except.bind, pure, Except.pure]
  exact ⟨_, rfl⟩

end LibInj.Sqli
