import LibInj.Proofs.FoldLoop
set_option linter.unusedSimpArgs false
set_option linter.unusedVariables false
/-! C14: on a window that holds only barewords (that are not the first word of any phrase of the
keyword table) and numbers, no rule of `fold` fires. -/
namespace LibInj.Sqli
open LibInj

/-- `v` is not the first word of any key of the table: `v ++ " " ++ y` is never found -/
def PhraseFree (v : Bytes) : Prop := ∀ y, searchKeyword (v ++ [32] ++ y) = 0

/-- an empty slot, a number, a variable, or a bareword that `merge` cannot join with a following word (its value
fills the 31-byte clip, or it starts no phrase) -/
def BenignTok (t : Token) : Prop :=
  t.cat = 0 ∨ t.cat = 49 ∨ (t.cat = 110 ∧ 1 ≤ t.len ∧ (t.len = 31 ∨ PhraseFree t.val)) ∨ t.cat = 118 ∨
  t.cat = 44 ∨ t.cat = 63 ∨ t.cat = 58

def BInv (f : FS) : Prop := (∀ t ∈ f.s.tv, BenignTok t) ∧ BenignTok f.lastComment

theorem BenignTok.cats {t : Token} (h : BenignTok t) :
    t.cat = 0 ∨ t.cat = 49 ∨ t.cat = 110 ∨ t.cat = 118 ∨ t.cat = 44 ∨ t.cat = 63 ∨ t.cat = 58 := by
  rcases h with h | h | h | h | h | h | h
  · exact Or.inl h
  · exact Or.inr (Or.inl h)
  · exact Or.inr (Or.inr (Or.inl h.1))
  · exact Or.inr (Or.inr (Or.inr (Or.inl h)))
  · exact Or.inr (Or.inr (Or.inr (Or.inr (Or.inl h))))
  · exact Or.inr (Or.inr (Or.inr (Or.inr (Or.inr (Or.inl h)))))
  · exact Or.inr (Or.inr (Or.inr (Or.inr (Or.inr (Or.inr h)))))

/-- a benign token's class differs from `k` whenever `k` is none of `0`, `1`, `n`, `v` -/
theorem BenignTok.ne {t : Token} (h : BenignTok t) (k : UInt8) (h0 : k ≠ 0) (h1 : k ≠ 49) (h2 : k ≠ 110) (h3 : k ≠ 118)
    (h4 : k ≠ 44 ∧ k ≠ 63 ∧ k ≠ 58 := by decide) :
    (t.cat == k) = false := by
  rcases h.cats with e | e | e | e | e | e | e <;>
    (rw [e]; simp; first | exact h0.symm | exact h1.symm | exact h2.symm | exact h3.symm | exact h4.1.symm | exact h4.2.1.symm | exact h4.2.2.symm)

theorem merge_benign (a b : Token) (ha : TokF a) (hb : TokF b) (ba : BenignTok a) (bb : BenignTok b) :
    merge a b = .ok none := by
  obtain ⟨⟨hva, hla⟩, _⟩ := ha
  obtain ⟨⟨hvb, hlb⟩, _⟩ := hb
  unfold merge
  simp only [bind, Except.bind, pure, Except.pure]
  by_cases cA : (!mergeA a.cat) = true
  · rw [if_pos cA]
  rw [if_neg cA]
  by_cases cB : (!mergeB b.cat) = true
  · rw [if_pos cB]
  rw [if_neg cB]
  -- both are barewords
  have ha110 : a.cat = 110 := by
    rcases ba.cats with e | e | e | e | e | e | e
    · rw [e] at cA; exact absurd cA (by decide)
    · rw [e] at cA; exact absurd cA (by decide)
    · exact e
    · rw [e] at cA; exact absurd cA (by decide)
    · rw [e] at cA; exact absurd cA (by decide)
    · rw [e] at cA; exact absurd cA (by decide)
    · rw [e] at cA; exact absurd cA (by decide)
  have hb110 : b.cat = 110 := by
    rcases bb.cats with e | e | e | e | e | e | e
    · rw [e] at cB; exact absurd cB (by decide)
    · rw [e] at cB; exact absurd cB (by decide)
    · exact e
    · rw [e] at cB; exact absurd cB (by decide)
    · rw [e] at cB; exact absurd cB (by decide)
    · rw [e] at cB; exact absurd cB (by decide)
    · rw [e] at cB; exact absurd cB (by decide)
  have hblen : 1 ≤ b.len := by
    rcases bb with e | e | e | e | e | e | e
    · rw [hb110] at e; exact absurd e (by decide)
    · rw [hb110] at e; exact absurd e (by decide)
    · exact e.2.1
    · rw [hb110] at e; exact absurd e (by decide)
    · rw [hb110] at e; exact absurd e (by decide)
    · rw [hb110] at e; exact absurd e (by decide)
    · rw [hb110] at e; exact absurd e (by decide)
  have haF : a.len = 31 ∨ PhraseFree a.val := by
    rcases ba with e | e | e | e | e | e | e
    · rw [ha110] at e; exact absurd e (by decide)
    · rw [ha110] at e; exact absurd e (by decide)
    · exact e.2.2
    · rw [ha110] at e; exact absurd e (by decide)
    · rw [ha110] at e; exact absurd e (by decide)
    · rw [ha110] at e; exact absurd e (by decide)
    · rw [ha110] at e; exact absurd e (by decide)
  by_cases cL : a.len + b.len + 1 > tokenSize
  · rw [if_pos cL]
  rw [if_neg cL]
  have hts : tokenSize = 32 := rfl
  rcases haF with h31 | hpf
  · rw [hts] at cL; omega
  · simp only [slice_ok a.val 0 a.len (by omega) (by omega), slice_ok b.val 0 b.len (by omega) (by omega)]
    have e1 : (a.val.drop 0).take (a.len - 0) = a.val := by
      simp only [List.drop_zero, Nat.sub_zero]; exact List.take_of_length_le (by omega)
    have e2 : (b.val.drop 0).take (b.len - 0) = b.val := by
      simp only [List.drop_zero, Nat.sub_zero]; exact List.take_of_length_le (by omega)
    rw [e1, e2, hpf b.val]
    simp

theorem isIfToken_benign (a b : Token) (ba : BenignTok a) : isIfToken a b = .ok false := by
  unfold isIfToken
  have : (a.cat == 59) = false := ba.ne 59 (by decide) (by decide) (by decide) (by decide) (by decide)
  simp only [this, Bool.false_and, Bool.false_eq_true, ↓reduceIte, pure, Except.pure]

set_option maxHeartbeats 1000000 in
/-- **no two-token rule fires on a benign window** -/
theorem foldTwo_benign (f : FS) (hf : FInv f) (hbn : BInv f) (h2 : f.left + 2 ≤ f.pos) :
    foldTwo f = .ok (.next f) := by
  obtain ⟨hs, hlp, hp6, hlc⟩ := hf
  obtain ⟨a, ha, hta⟩ := tvGet_ok f.s hs f.left (by omega)
  obtain ⟨b, hb, htb⟩ := tvGet_ok f.s hs (f.left + 1) (by omega)
  have bna := hbn.1 a (List.mem_of_getElem? (tvGet_some ha))
  have bnb := hbn.1 b (List.mem_of_getElem? (tvGet_some hb))
  obtain ⟨bu, hbu⟩ := isUnaryOp_ok b htb
  obtain ⟨ba, hba⟩ := isArithmeticOp_ok b htb
  have hva := valOf_ok a hta
  have d1 := dec_ok f 1 (by omega)
  have d2 := dec_ok f 2 (by omega)
  have A := fun k h0 h1 h2 h3 h4 => bna.ne k h0 h1 h2 h3 h4
  have B := fun k h0 h1 h2 h3 h4 => bnb.ne k h0 h1 h2 h3 h4
  unfold foldTwo
  simp only [ha, hb, hbu, bind, Except.bind]
  simp only [merge_benign a b hta htb bna bnb]
  simp only [hba]
  simp only [hva]
  simp only [isIfToken_benign a b bna]
  simp only [d1]
  simp only [d2]
  simp only [pure, Except.pure]
  have a115 := A 115 (by decide) (by decide) (by decide) (by decide) (by decide)
  have a59 := A 59 (by decide) (by decide) (by decide) (by decide) (by decide)
  have a111 := A 111 (by decide) (by decide) (by decide) (by decide) (by decide)
  have a38 := A 38 (by decide) (by decide) (by decide) (by decide) (by decide)
  have a40 := A 40 (by decide) (by decide) (by decide) (by decide) (by decide)
  have a107 := A 107 (by decide) (by decide) (by decide) (by decide) (by decide)
  have a116 := A 116 (by decide) (by decide) (by decide) (by decide) (by decide)
  have a65 := A 65 (by decide) (by decide) (by decide) (by decide) (by decide)
  have a92 := A 92 (by decide) (by decide) (by decide) (by decide) (by decide)
  have a41 := A 41 (by decide) (by decide) (by decide) (by decide) (by decide)
  have a123 := A 123 (by decide) (by decide) (by decide) (by decide) (by decide)
  have b40 := B 40 (by decide) (by decide) (by decide) (by decide) (by decide)
  have b125 := B 125 (by decide) (by decide) (by decide) (by decide) (by decide)
  rw [if_neg (by simp only [a115, Bool.false_and, Bool.false_eq_true, not_false_eq_true])]
  rw [if_neg (by simp only [a59, Bool.false_and, Bool.false_eq_true, not_false_eq_true])]
  rw [if_neg (by simp only [a111, a38, Bool.or_self, Bool.false_and, Bool.false_eq_true, not_false_eq_true])]
  rw [if_neg (by simp only [a40, Bool.false_and, Bool.false_eq_true, not_false_eq_true])]
  rw [if_neg (by simp only [Bool.false_eq_true, not_false_eq_true])]
  rw [if_neg (by simp only [b40, Bool.and_false, Bool.false_and, Bool.false_eq_true, not_false_eq_true])]
  rw [if_neg (by simp only [a107, Bool.false_and, Bool.false_eq_true, not_false_eq_true])]
  rw [if_neg (by simp only [a111, Bool.false_and, Bool.false_eq_true, not_false_eq_true])]
  rw [if_neg (by simp only [a116, Bool.false_and, Bool.false_eq_true, not_false_eq_true])]
  rw [if_neg (by simp only [a65, Bool.false_and, Bool.false_eq_true, not_false_eq_true])]
  rw [if_neg (by simp only [a92, Bool.false_eq_true, not_false_eq_true])]
  rw [if_neg (by simp only [a40, Bool.false_and, Bool.false_eq_true, not_false_eq_true])]
  rw [if_neg (by simp only [a41, Bool.false_and, Bool.false_eq_true, not_false_eq_true])]
  rw [if_neg (by simp only [a123, Bool.false_and, Bool.false_eq_true, not_false_eq_true])]
  rw [if_neg (by simp only [b125, Bool.false_eq_true, not_false_eq_true])]

theorem isUnaryOp_benign (b : Token) (hb : BenignTok b) : b.isUnaryOp = .ok false := by
  unfold Token.isUnaryOp
  have : (b.cat != 111) = true := by
    have := hb.ne 111 (by decide) (by decide) (by decide) (by decide) (by decide)
    simp only [bne, this, Bool.not_false]
  simp only [this, ↓reduceIte, pure, Except.pure]

set_option maxHeartbeats 1000000 in
/-- **on a benign window the only three-token rule that can fire is `x , y` → `x`**; otherwise the cursor moves one slot -/
theorem foldThree_benign (f : FS) (hf : FInv f) (hbn : BInv f) (h3 : f.left + 3 ≤ f.pos) :
    foldThree f = .ok (.cont { f with left := f.left + 1 }) ∨
    foldThree f = .ok (.cont { f with pos := f.pos - 2, left := 0 }) := by
  obtain ⟨hs, hlp, hp6, hlc⟩ := hf
  obtain ⟨a, ha, hta⟩ := tvGet_ok f.s hs f.left (by omega)
  obtain ⟨b, hb, htb⟩ := tvGet_ok f.s hs (f.left + 1) (by omega)
  obtain ⟨c, hc, htc⟩ := tvGet_ok f.s hs (f.left + 2) (by omega)
  have bna := hbn.1 a (List.mem_of_getElem? (tvGet_some ha))
  have bnb := hbn.1 b (List.mem_of_getElem? (tvGet_some hb))
  have hbu := isUnaryOp_benign b bnb
  have hva := valOf_ok a hta
  have hvb := valOf_ok b htb
  have d2 := dec_ok f 2 (by omega)
  have A := fun k h0 h1 h2 h3 h4 => bna.ne k h0 h1 h2 h3 h4
  have B := fun k h0 h1 h2 h3 h4 => bnb.ne k h0 h1 h2 h3 h4
  have a111 := A 111 (by decide) (by decide) (by decide) (by decide) (by decide)
  have a38 := A 38 (by decide) (by decide) (by decide) (by decide) (by decide)
  have a69 := A 69 (by decide) (by decide) (by decide) (by decide) (by decide)
  have a66 := A 66 (by decide) (by decide) (by decide) (by decide) (by decide)
  have a107 := A 107 (by decide) (by decide) (by decide) (by decide) (by decide)
  have a102 := A 102 (by decide) (by decide) (by decide) (by decide) (by decide)
  have b111 := B 111 (by decide) (by decide) (by decide) (by decide) (by decide)
  have b46 := B 46 (by decide) (by decide) (by decide) (by decide) (by decide)
  unfold foldThree
  simp only [ha, hb, hc, hbu, bind, Except.bind]
  simp only [hva]
  simp only [hvb]
  simp only [d2]
  simp only [pure, Except.pure]
  rw [if_neg (by simp only [b111, Bool.and_false, Bool.false_and, Bool.false_eq_true, not_false_eq_true])]
  rw [if_neg (by simp only [a111, Bool.false_and, Bool.false_eq_true, not_false_eq_true])]
  rw [if_neg (by simp only [a38, Bool.false_and, Bool.false_eq_true, not_false_eq_true])]
  rw [if_neg (by simp only [b111, Bool.and_false, Bool.false_and, Bool.false_eq_true, not_false_eq_true])]
  rw [if_neg (by simp only [b111, Bool.and_false, Bool.false_and, Bool.false_eq_true, not_false_eq_true])]
  rw [if_neg (by simp only [b111, Bool.and_false, Bool.false_and, Bool.false_eq_true, not_false_eq_true])]
  by_cases h7 : ((a.cat == 110 || a.cat == 49 || a.cat == 115 || a.cat == 118) && b.cat == 44 &&
      (c.cat == 49 || c.cat == 110 || c.cat == 115 || c.cat == 118)) = true
  · right
    rw [if_pos h7]
  · left
    rw [if_neg h7]
    rw [if_neg (by simp only [Bool.and_false, Bool.false_and, Bool.false_eq_true, not_false_eq_true])]
    rw [if_neg (by simp only [Bool.and_false, Bool.false_and, Bool.false_eq_true, not_false_eq_true])]
    rw [if_neg (by simp only [Bool.and_false, Bool.false_and, Bool.false_eq_true, not_false_eq_true])]
    rw [if_neg (by simp only [Bool.and_false, Bool.false_and, Bool.false_eq_true, not_false_eq_true])]
    rw [if_neg (by simp only [b46, Bool.and_false, Bool.false_and, Bool.false_eq_true, not_false_eq_true])]
    rw [if_neg (by simp only [a69, Bool.false_and, Bool.false_eq_true, not_false_eq_true])]
    rw [if_neg (by simp only [a102, Bool.false_and, Bool.false_eq_true, not_false_eq_true])]

/-- what one iteration does to a benign window: nothing but moving tokens and the cursor -/
def BenignStep (P : FS → Prop) : Step → Prop
  | .cont f' => P f'
  | .brk f' => P f'
  | .ret _ _ => False

/-- **one iteration of the main loop on a benign window**, for any property `P` of the loop state
that the scanner steps preserve: `P` survives and the iteration never returns early -/
theorem foldBody_benign (P : FS → Prop)
    (hP : ∀ f, P f → FInv f ∧ BInv f)
    (hvars : ∀ f pos left, P f → FInv { f with pos := pos, left := left } → P { f with pos := pos, left := left })
    (hspecial : ∀ f f', P f → foldSpecial f = .ok f' → P f')
    (hfetch : ∀ f k f', P f → fetch f k (fetchFuel f.s.input.length) = .ok f' → P f')
    (f : FS) (hp : P f) : ∃ st, foldBody f = .ok st ∧ BenignStep P st := by
  obtain ⟨hf, _⟩ := hP f hp
  unfold foldBody
  obtain ⟨f1, h1, hf1, _, _, _⟩ := foldSpecial_ok' f hf
  have p1 := hspecial f f1 hp h1
  simp only [h1, bind, Except.bind, pure, Except.pure]
  by_cases cb : (!f1.more || decide (f1.left ≥ maxTokens)) = true
  · rw [if_pos cb]
    exact ⟨_, rfl, hvars f1 f1.pos f1.pos p1 ⟨hf1.1, Nat.le_refl _, hf1.2.2.1, hf1.2.2.2⟩⟩
  rw [if_neg cb]
  obtain ⟨f2, h2, hf2, _⟩ := fetch_ok' 2 _ f1 hf1 (fetch_fuel_ok f1)
  have p2 := hfetch f1 2 f2 p1 h2
  simp only [h2]
  by_cases c2 : f2.pos - f2.left < 2
  · rw [if_pos c2]
    exact ⟨_, rfl, hvars f2 f2.pos f2.pos p2 ⟨hf2.1, Nat.le_refl _, hf2.2.2.1, hf2.2.2.2⟩⟩
  rw [if_neg c2]
  rw [foldTwo_benign f2 hf2 (hP f2 p2).2 (by omega)]
  simp only []
  obtain ⟨f4, h4, hf4, _⟩ := fetch_ok' 3 _ f2 hf2 (fetch_fuel_ok f2)
  have p4 := hfetch f2 3 f4 p2 h4
  simp only [h4]
  by_cases c3 : f4.pos - f4.left < 3
  · rw [if_pos c3]
    exact ⟨_, rfl, hvars f4 f4.pos f4.pos p4 ⟨hf4.1, Nat.le_refl _, hf4.2.2.1, hf4.2.2.2⟩⟩
  rw [if_neg c3]
  rcases foldThree_benign f4 hf4 (hP f4 p4).2 (by omega) with h3 | h3
  · rw [h3]
    exact ⟨_, rfl, hvars f4 f4.pos (f4.left + 1) p4 ⟨hf4.1, by show f4.left + 1 ≤ f4.pos; omega, hf4.2.2.1, hf4.2.2.2⟩⟩
  · rw [h3]
    exact ⟨_, rfl, hvars f4 (f4.pos - 2) 0 p4 ⟨hf4.1, by show 0 ≤ f4.pos - 2; omega, by show f4.pos - 2 ≤ 6; have := hf4.2.2.1; omega, hf4.2.2.2⟩⟩

/-- **the main loop on a benign window** returns a state that still satisfies `P` (and has not stored
a trailing comment) -/
theorem foldLoop_benign (P : FS → Prop)
    (hP : ∀ f, P f → FInv f ∧ BInv f)
    (hvars : ∀ f pos left, P f → FInv { f with pos := pos, left := left } → P { f with pos := pos, left := left })
    (hspecial : ∀ f f', P f → foldSpecial f = .ok f' → P f')
    (hfetch : ∀ f k f', P f → fetch f k (fetchFuel f.s.input.length) = .ok f' → P f') :
    ∀ (fuel : Nat) (f : FS) (n : Nat) (f' : FS), P f → foldLoop f fuel = .ok (n, f') → P f' ∧ n ≤ 5 := by
  intro fuel
  induction fuel with
  | zero => intro f n f' _ h; simp [foldLoop] at h
  | succ fuel ih =>
    intro f n f' hp h
    unfold foldLoop at h
    obtain ⟨st, hst, hbs⟩ := foldBody_benign P hP hvars hspecial hfetch f hp
    simp only [hst, bind, Except.bind, pure, Except.pure] at h
    cases st with
    | cont f1 => exact ih f1 n f' hbs h
    | ret k f1 => exact absurd hbs (by simp [BenignStep])
    | brk f1 =>
      have p1 : P f1 := hbs
      have hlc := (hP f1 p1).2.2
      have hc99 : (f1.lastComment.cat == 99) = false := hlc.ne 99 (by decide) (by decide) (by decide) (by decide) (by decide)
      simp only [hc99, Bool.and_false, Bool.false_eq_true, ↓reduceIte, Except.ok.injEq, Prod.mk.injEq] at h
      obtain ⟨hn, hf'⟩ := h
      rw [← hf', ← hn]
      refine ⟨p1, ?_⟩
      rw [maxTokens_eq]
      split <;> omega

end LibInj.Sqli
