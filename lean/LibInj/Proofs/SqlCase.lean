import LibInj.Proofs.H5Case
import LibInj.Proofs.FoldOK
import LibInj.Proofs.FingerprintOK
set_option linter.unusedSimpArgs false
set_option linter.unusedVariables false
/-! C10: `fold` commutes with ASCII lower-casing of the input and of the token values. -/
namespace LibInj.Sqli
open LibInj LibInj.H5

def lowerTok (t : Token) : Token := { t with val := L t.val }
def lowerS (s : State) : State := { s with input := L s.input, tv := s.tv.map lowerTok }
def lowerF (f : FS) : FS := { f with s := lowerS f.s, lastComment := lowerTok f.lastComment }

theorem tvGet_lower (s : State) (i : Nat) : tvGet (lowerS s) i = (tvGet s i).map lowerTok := by
  unfold tvGet lowerS
  simp only [List.getElem?_map]
  cases s.tv[i]? <;> rfl

theorem tvSet_lower (s : State) (i : Nat) (t : Token) : tvSet (lowerS s) i (lowerTok t) = (tvSet s i t).map lowerS := by
  unfold tvSet lowerS
  simp only [List.length_map]
  split
  · simp [Except.map, List.map_set]
  · rfl

theorem goUpper_LS (t : Bytes) : goUpper (L t) = goUpper t := by
  apply goUpper_case_invariant
  unfold CaseEq L
  simp [List.map_map, Function.comp_def, lower_idem]

theorem toUpperCmp_L (lit v : Bytes) : toUpperCmp lit (L v) = toUpperCmp lit v := by
  unfold toUpperCmp; rw [goUpper_LS]

theorem searchKeyword_L (w : Bytes) : searchKeyword (L w) = searchKeyword w := by
  rw [searchKeyword_eq, searchKeyword_eq]; unfold searchKeywordSpec; rw [goUpper_LS]

theorem slice_LS (s : Bytes) (a b : Nat) : slice (L s) a b = (slice s a b).map L := by
  unfold slice
  simp only [L_length]
  split
  · show Except.ok (((L s).drop a).take (b - a)) = Except.ok (L ((s.drop a).take (b - a)))
    rw [L_drop, L_take]
  · rfl

theorem valOf_lower (t : Token) : valOf (lowerTok t) = (valOf t).map L := by
  unfold valOf lowerTok
  exact slice_LS _ _ _

theorem isUnaryOp_lower (t : Token) : (lowerTok t).isUnaryOp = t.isUnaryOp := by
  unfold Token.isUnaryOp lowerTok
  simp only []
  split
  · rfl
  · split
    · simp only [at'_L]
      cases at' t.val 0 with
      | error e => rfl
      | ok c =>
        simp only [Except.map, bind, Except.bind, pure, Except.pure, nl 43 (by decide), nl 45 (by decide), nl 33 (by decide),
          nl 126 (by decide)]
    · simp only [andM, toBool, byteIs, at'_L, bind, Except.bind, pure, Except.pure]
      cases at' t.val 0 with
      | error e => rfl
      | ok c =>
        simp only [Except.map, nl 33 (by decide)]
        split
        · cases at' t.val 1 with
          | error e => rfl
          | ok c1 => simp only [Except.map, nl 33 (by decide)]
        · rfl
    · simp only [slice_LS]
      cases slice t.val 0 3 with
      | error e => rfl
      | ok v => simp only [Except.map, bind, Except.bind, pure, Except.pure, toUpperCmp_L]
    · rfl

theorem isArithmeticOp_lower (t : Token) : (lowerTok t).isArithmeticOp = t.isArithmeticOp := by
  unfold Token.isArithmeticOp lowerTok
  simp only []
  split
  · simp only [at'_L]
    cases at' t.val 0 with
    | error e => rfl
    | ok c =>
      simp only [Except.map, bind, Except.bind, pure, Except.pure, nl 42 (by decide), nl 47 (by decide), nl 43 (by decide),
        nl 45 (by decide), nl 37 (by decide)]
  · rfl

theorem assign_lower (t : Token) (cat : UInt8) (pos length : Nat) (value : Bytes) :
    assign (lowerTok t) cat pos length (L value) = (assign t cat pos length value).map lowerTok := by
  unfold assign
  simp only [slice_LS]
  cases slice value 0 (if length < tokenSize then length else tokenSize - 1) with
  | error e => rfl
  | ok v => rfl

theorem merge_lower (a b : Token) : merge (lowerTok a) (lowerTok b) = (merge a b).map (Option.map lowerTok) := by
  unfold merge
  have ea : (lowerTok a).cat = a.cat := rfl
  have eb : (lowerTok b).cat = b.cat := rfl
  have la : (lowerTok a).len = a.len := rfl
  have lb : (lowerTok b).len = b.len := rfl
  have pa : (lowerTok a).pos = a.pos := rfl
  have va : (lowerTok a).val = L a.val := rfl
  have vb : (lowerTok b).val = L b.val := rfl
  simp only [ea, eb, la, lb, pa, va, vb, slice_LS]
  split
  · rfl
  · split
    · rfl
    · split
      · rfl
      · cases slice a.val 0 a.len with
        | error e => rfl
        | ok x =>
          cases slice b.val 0 b.len with
          | error e => rfl
          | ok y =>
            simp only [Except.map, bind, Except.bind, pure, Except.pure]
            have e1 : L x ++ [32] ++ L y = L (x ++ [32] ++ y) := by
              simp only [L, List.map_append, List.map_cons, List.map_nil]; rfl
            rw [e1, searchKeyword_L, L_length]
            split
            · rw [assign_lower]
              cases assign a (searchKeyword (x ++ [32] ++ y)) a.pos (x ++ [32] ++ y).length (x ++ [32] ++ y) <;> rfl
            · rfl

theorem isIfToken_lower (a b : Token) : isIfToken (lowerTok a) (lowerTok b) = isIfToken a b := by
  unfold isIfToken
  have ea : (lowerTok a).cat = a.cat := rfl
  have eb : (lowerTok b).cat = b.cat := rfl
  have vb : (lowerTok b).val = L b.val := rfl
  simp only [ea, eb, vb, at'_L]
  split
  · cases at' b.val 0 with
    | error e => rfl
    | ok v0 =>
      have h0 : (lowerAscii v0 == 73 || lowerAscii v0 == 105) = (v0 == 73 || v0 == 105) := by
        have := forall_byte (fun c => (lowerAscii c == 73 || lowerAscii c == 105) == (c == 73 || c == 105)) (by decide +kernel) v0
        simpa using this
      simp only [Except.map, bind, Except.bind, pure, Except.pure, h0]
      split
      · cases at' b.val 1 with
        | error e => rfl
        | ok v1 =>
          have h1 : (lowerAscii v1 == 70 || lowerAscii v1 == 102) = (v1 == 70 || v1 == 102) := by
            have := forall_byte (fun c => (lowerAscii c == 70 || lowerAscii c == 102) == (c == 70 || c == 102)) (by decide +kernel) v1
            simpa using this
          simp only [Except.map, h1]
      · rfl
  · rfl

/-! ## lexers -/

def lowerLex (r : Lex) : Lex := { r with tok := lowerTok r.tok }

theorem sliceFrom_LS (s : Bytes) (a : Nat) : sliceFrom (L s) a = (sliceFrom s a).map L := by
  unfold sliceFrom
  simp only [L_length]
  split
  · show Except.ok ((L s).drop a) = Except.ok (L (s.drop a))
    rw [L_drop]
  · rfl

theorem assign_L (t : Token) (cat : UInt8) (pos length : Nat) (value : Bytes) :
    assign t cat pos length (L value) = (assign t cat pos length value).map lowerTok := by
  unfold assign
  simp only [slice_LS]
  cases slice value 0 (if length < tokenSize then length else tokenSize - 1) with
  | error e => rfl
  | ok v => rfl

theorem byteFact (p : UInt8 → Bool) (h : (List.range 256).all (fun n => p (lowerAscii n.toUInt8) == p n.toUInt8) = true) (x : UInt8) :
    p (lowerAscii x) = p x := by
  have := forall_byte (fun c => p (lowerAscii c) == p c) h x
  simpa using this

theorem q_notWord (x : UInt8) : notWordAccept (lowerAscii x) = notWordAccept x := byteFact _ (by decide +kernel) x
theorem q_notVar (x : UInt8) : notVarAccept (lowerAscii x) = notVarAccept x := byteFact _ (by decide +kernel) x
theorem q_digit (x : UInt8) : isDigit (lowerAscii x) = isDigit x := byteFact _ (by decide +kernel) x
theorem q_hex (x : UInt8) : mem hexDigits (lowerAscii x) = mem hexDigits x := byteFact _ (by decide +kernel) x
theorem q_hexLU (x : UInt8) : mem hexDigitsLU (lowerAscii x) = mem hexDigitsLU x := byteFact _ (by decide +kernel) x
theorem q_bin (x : UInt8) : mem binDigits (lowerAscii x) = mem binDigits x := byteFact _ (by decide +kernel) x
theorem q_white (x : UInt8) : isWhite (lowerAscii x) = isWhite x := byteFact _ (by decide +kernel) x
theorem q_bs (x : UInt8) : isBackslash (lowerAscii x) = isBackslash x := byteFact _ (by decide +kernel) x

/-- needles without letters -/
def NL (n : Bytes) : Prop := ∀ k ∈ n, NonLetter k

theorem isPrefix_L : ∀ (n : Bytes), NL n → ∀ (h : Bytes), isPrefix n (L h) = isPrefix n h
  | [], _, _ => by simp [isPrefix]
  | a :: n, hn, [] => by simp [isPrefix, L]
  | a :: n, hn, b :: h => by
    have ha : NonLetter a := hn a (by simp)
    have e : (a == lowerAscii b) = (a == b) := by
      have := ha b
      rw [Bool.eq_iff_iff] at this ⊢
      simp only [beq_iff_eq] at this ⊢
      constructor
      · intro h; exact (this.mp h.symm).symm
      · intro h; exact (this.mpr h.symm).symm
    show isPrefix (a :: n) (lowerAscii b :: L h) = isPrefix (a :: n) (b :: h)
    simp only [isPrefix, e]
    rw [isPrefix_L n (fun k hk => hn k (by simp [hk])) h]

theorem indexOf_L (n : Bytes) (hn : NL n) : ∀ (h : Bytes), indexOf (L h) n = indexOf h n
  | [] => by rfl
  | b :: h => by
    show indexOf (lowerAscii b :: L h) n = indexOf (b :: h) n
    unfold indexOf
    have := isPrefix_L n hn (b :: h)
    simp only [L, List.map_cons] at this
    rw [this]
    split
    · rfl
    · have ih := indexOf_L n hn h
      show Option.map (fun x => x + 1) (indexOf (L h) n) = Option.map (fun x => x + 1) (indexOf h n)
      rw [ih]

theorem contains_L (n : Bytes) (hn : NL n) (h : Bytes) : contains (L h) n = contains h n := by
  unfold contains; rw [indexOf_L n hn]

theorem nl2 (a b : UInt8) (ha : (isLowerAscii a || isUpperAscii a) = false) (hb : (isLowerAscii b || isUpperAscii b) = false) : NL [a, b] := by
  intro k hk
  simp only [List.mem_cons, List.not_mem_nil, or_false] at hk
  rcases hk with rfl | rfl
  · exact nonLetter_of _ ha
  · exact nonLetter_of _ hb

theorem L_reverse (s : Bytes) : (L s).reverse = L s.reverse := by simp [L]

theorem takeWhile_L (p : UInt8 → Bool) (hp : ∀ x, p (lowerAscii x) = p x) : ∀ (s : Bytes), (L s).takeWhile p = L (s.takeWhile p)
  | [] => rfl
  | a :: s => by
    show (lowerAscii a :: L s).takeWhile p = L ((a :: s).takeWhile p)
    simp only [List.takeWhile_cons, hp]
    split
    · rw [takeWhile_L p hp s]; rfl
    · rfl

theorem escaped_L (s : Bytes) : isBackslashEscaped (L s) = isBackslashEscaped s := by
  unfold isBackslashEscaped trailingBs
  rw [L_reverse, takeWhile_L _ q_bs, L_length]

theorem coreLoop_L (d : UInt8) (hd : NonLetter d) (content : Bytes) : ∀ (fuel k : Nat),
    coreLoop (L content) d k fuel = coreLoop content d k fuel
  | 0, _ => rfl
  | fuel + 1, k => by
    unfold coreLoop
    rw [L_drop, indexByte_L d hd]
    cases indexByte (content.drop k) d with
    | none => rfl
    | some i =>
      simp only [L_take, escaped_L, L_get]
      have e : ((content[k + i + 1]?).map lowerAscii = some d) = (content[k + i + 1]? = some d) := by
        cases content[k + i + 1]? with
        | none => simp
        | some x =>
          have := hd x
          simp only [Option.map_some, Option.some.injEq]
          rw [Bool.eq_iff_iff] at this
          simp only [beq_iff_eq] at this
          exact propext this
      simp only [e, coreLoop_L d hd content fuel]

theorem parseStringCore_L (t : Token) (rest : Bytes) (offset : Nat) (d : UInt8) (hd : NonLetter d) :
    parseStringCore t (L rest) offset d = (parseStringCore t rest offset d).map lowerLex := by
  unfold parseStringCore
  simp only [sliceFrom_LS, L_length]
  cases sliceFrom rest offset with
  | error e => rfl
  | ok content =>
    simp only [Except.map, bind, Except.bind, L_length, coreLoop_L d hd, assign_L]
    cases coreLoop content d 0 (content.length + 1) with
    | error e => rfl
    | ok o =>
      cases o with
      | none =>
        simp only []
        cases assign { t with strOpen := if offset > 0 then d else 0 } 115 offset (rest.length - offset) content <;> rfl
      | some q =>
        simp only []
        cases assign { t with strOpen := if offset > 0 then d else 0 } 115 offset q content <;> rfl

theorem assignLexL (t : Token) (cat : UInt8) (pos len : Nat) (v : Bytes) (n d h : Nat) :
    (do let x ← assign t cat pos len (L v); pure ({ tok := x, next := n, ddx := d, hash := h } : Lex)) =
    (do let x ← assign t cat pos len v; pure ({ tok := x, next := n, ddx := d, hash := h } : Lex) : M Lex).map lowerLex := by
  rw [assign_L]
  cases assign t cat pos len v <;> rfl

theorem assignLexC (t : Token) (cat : UInt8) (pos len : Nat) (v : Bytes) (hv : L v = v) (n d h : Nat) :
    (do let x ← assign t cat pos len v; pure ({ tok := x, next := n, ddx := d, hash := h } : Lex)) =
    (do let x ← assign t cat pos len v; pure ({ tok := x, next := n, ddx := d, hash := h } : Lex) : M Lex).map lowerLex := by
  have := assignLexL t cat pos len v n d h
  rw [hv] at this
  exact this

theorem parseWhite_L (rest : Bytes) : parseWhite (L rest) = (parseWhite rest).map lowerLex := rfl

theorem parseOperator1_L (rest : Bytes) : parseOperator1 (L rest) = (parseOperator1 rest).map lowerLex := by
  unfold parseOperator1; exact assignLexL _ _ _ _ _ _ _ _

theorem parseOther_L (rest : Bytes) : parseOther (L rest) = (parseOther rest).map lowerLex := by
  unfold parseOther; exact assignLexL _ _ _ _ _ _ _ _

theorem parseByte_L (rest : Bytes) (c0 : UInt8) (h0 : rest[0]? = some c0) (hc : lowerAscii c0 = c0) :
    parseByte (L rest) = (parseByte rest).map lowerLex := by
  unfold parseByte
  have e1 : at' rest 0 = .ok c0 := by simp [at', h0]
  simp only [at'_L, e1, Except.map, bind, Except.bind, hc]
  exact assignLexL _ _ _ _ _ _ _ _

theorem parseEolComment_L (rest : Bytes) : parseEolComment (L rest) = (parseEolComment rest).map lowerLex := by
  unfold parseEolComment
  rw [indexByte_L 10 (nonLetter_of 10 (by decide))]
  cases indexByte rest 10 with
  | none => simp only [L_length]; exact assignLexL _ _ _ _ _ _ _ _
  | some i => exact assignLexL _ _ _ _ _ _ _ _

theorem parseHash_L (flags : Nat) (rest : Bytes) : parseHash flags (L rest) = (parseHash flags rest).map lowerLex := by
  unfold parseHash
  split
  · rw [parseEolComment_L]
    cases parseEolComment rest <;> rfl
  · exact assignLexC _ _ _ _ _ rfl _ _ _

theorem byteIs_L (rest : Bytes) (i : Nat) (k : UInt8) (hk : (isLowerAscii k || isUpperAscii k) = false) :
    byteIs (L rest) i k = byteIs rest i k := by
  unfold byteIs
  rw [at'_L]
  cases at' rest i with
  | error e => rfl
  | ok c => simp only [Except.map, bind, Except.bind, pure, Except.pure, nl k hk]

theorem byteNe_L (rest : Bytes) (i : Nat) (k : UInt8) (hk : (isLowerAscii k || isUpperAscii k) = false) :
    byteNe (L rest) i k = byteNe rest i k := by
  unfold byteNe
  rw [at'_L]
  cases at' rest i with
  | error e => rfl
  | ok c => simp only [Except.map, bind, Except.bind, pure, Except.pure, nl_ne k hk]

theorem atP_L (p : UInt8 → Bool) (hp : ∀ x, p (lowerAscii x) = p x) (rest : Bytes) (i : Nat) :
    (do let c ← at' (L rest) i; pure (p c) : M Bool) = (do let c ← at' rest i; pure (p c)) := by
  rw [at'_L]
  cases at' rest i with
  | error e => rfl
  | ok c => simp only [Except.map, bind, Except.bind, pure, Except.pure, hp]

theorem parseDash_L (flags : Nat) (rest : Bytes) : parseDash flags (L rest) = (parseDash flags rest).map lowerLex := by
  unfold parseDash
  simp only [L_length, byteIs_L rest 1 45 (by decide), atP_L isWhite q_white]
  cases (g (2 < rest.length) <&&> byteIs rest 1 45 <&&> (do return isWhite (← at' rest 2)) : M Bool) with
  | error e => rfl
  | ok b1 =>
    cases b1 with
    | true => exact parseEolComment_L rest
    | false =>
      simp only [bind, Except.bind, Bool.false_eq_true, ↓reduceIte]
      cases (g (2 == rest.length) <&&> byteIs rest 1 45 : M Bool) with
      | error e => rfl
      | ok b2 =>
        cases b2 with
        | true => exact parseEolComment_L rest
        | false =>
          simp only [Bool.false_eq_true, ↓reduceIte]
          cases (g (1 < rest.length) <&&> byteIs rest 1 45 <&&> g (hasFlag flags flagAnsi) : M Bool) with
          | error e => rfl
          | ok b3 =>
            cases b3 with
            | true =>
              simp only [↓reduceIte]
              rw [parseEolComment_L]
              cases parseEolComment rest <;> rfl
            | false => exact assignLexC {} 111 0 1 [45] rfl _ _ _

theorem parseBackSlash_L (rest : Bytes) (h1 : rest[1]? ≠ some 78) :
    parseBackSlash (L rest) = (parseBackSlash rest).map lowerLex := by
  unfold parseBackSlash
  have e1 : byteIs rest 1 78 = (do let c ← at' rest 1; pure false) := by
    unfold byteIs at'
    cases h : rest[1]? with
    | none => rfl
    | some c =>
      have : c ≠ 78 := by intro hc; rw [h, hc] at h1; exact h1 rfl
      simp [bind, Except.bind, pure, Except.pure, this]
  have e2 : byteIs (L rest) 1 78 = (do let c ← at' rest 1; pure false) := by
    unfold byteIs
    rw [at'_L]
    cases at' rest 1 with
    | error e => rfl
    | ok c =>
      have : (lowerAscii c == 78) = false := by
        have := forall_byte (fun c => !(lowerAscii c == 78)) (by decide +kernel) c
        simpa using this
      simp only [Except.map, bind, Except.bind, pure, Except.pure, this]
  rw [e1, e2, L_length]
  cases (g (1 < rest.length) <&&> (do let c ← at' rest 1; pure false) : M Bool) with
  | error e => rfl
  | ok b =>
    cases b with
    | true => exact assignLexL _ _ _ _ _ _ _ _
    | false => exact assignLexL _ _ _ _ _ _ _ _

theorem bmc {α : Type} (x : M α) (f g : α → M Lex) (h : ∀ a, f a = (g a).map lowerLex) :
    (x >>= f) = (x >>= g).map lowerLex := by
  cases x with
  | error e => rfl
  | ok a => exact h a

theorem bmc2 {α : Type} (x : M α) (m : α → α) (f g : α → M Lex) (h : ∀ a, f (m a) = (g a).map lowerLex) :
    (x.map m >>= f) = (x >>= g).map lowerLex := by
  cases x with
  | error e => rfl
  | ok a => exact h a

theorem iteM {β : Type} (φ : β → β) (c : Prop) [Decidable c] (A B A' B' : M β) (hA : A = A'.map φ) (hB : B = B'.map φ) :
    (if c then A else B) = (if c then A' else B').map φ := by
  split <;> assumption

theorem parseSlash_L (rest : Bytes) : parseSlash (L rest) = (parseSlash rest).map lowerLex := by
  unfold parseSlash
  have e : (do let c ← at' (L rest) 2; pure (c == 33) : M Bool) = (do let c ← at' rest 2; pure (c == 33)) :=
    atP_L (fun c => c == 33) (nl 33 (by decide)) rest 2
  simp only [L_length, byteNe_L rest 1 42 (by decide), sliceFrom_LS, slice_LS, e]
  refine bmc _ _ _ (fun b => ?_)
  cases b with
  | true => exact parseOperator1_L rest
  | false =>
    simp only [Bool.false_eq_true, ↓reduceIte]
    refine bmc2 _ _ _ _ (fun tail => ?_)
    simp only [indexOf_L [42, 47] (nl2 42 47 (by decide) (by decide))]
    cases indexOf tail [42, 47] with
    | none =>
      simp only []
      refine bmc _ _ _ (fun ev => ?_)
      exact assignLexL _ _ _ _ _ _ _ _
    | some i =>
      simp only []
      have e2 : ∀ inner : Bytes, contains (L inner) [47, 42] = contains inner [47, 42] :=
        contains_L [47, 42] (nl2 47 42 (by decide) (by decide))
      have e3 : (do let inner ← Except.map L (slice rest 2 (2 + i + 1))
                    if contains inner [47, 42] = true then pure true
                    else if 2 < rest.length then (do let c ← at' rest 2; pure (c == 33)) else pure false : M Bool) =
                (do let inner ← slice rest 2 (2 + i + 1)
                    if contains inner [47, 42] = true then pure true
                    else if 2 < rest.length then (do let c ← at' rest 2; pure (c == 33)) else pure false) := by
        cases slice rest 2 (2 + i + 1) with
        | error e => rfl
        | ok inner => simp only [Except.map, bind, Except.bind, e2]
      rw [e3]
      refine bmc _ _ _ (fun ev => ?_)
      exact assignLexL _ _ _ _ _ _ _ _

theorem bmG {α β : Type} (φ : β → β) (x : M α) (f g : α → M β) (h : ∀ a, f a = (g a).map φ) :
    (x >>= f) = (x >>= g).map φ := by
  cases x with
  | error e => rfl
  | ok a => exact h a

theorem bmG2 {α β : Type} (φ : β → β) (x : M α) (m : α → α) (f g : α → M β) (h : ∀ a, f (m a) = (g a).map φ) :
    (x.map m >>= f) = (x >>= g).map φ := by
  cases x with
  | error e => rfl
  | ok a => exact h a

@[simp] theorem lowerTok_len (t : Token) : (lowerTok t).len = t.len := rfl
@[simp] theorem lowerTok_cat (t : Token) : (lowerTok t).cat = t.cat := rfl
@[simp] theorem lowerTok_val (t : Token) : (lowerTok t).val = L t.val := rfl
@[simp] theorem lowerTok_pos (t : Token) : (lowerTok t).pos = t.pos := rfl
@[simp] theorem lowerLex_tok (r : Lex) : (lowerLex r).tok = lowerTok r.tok := rfl

theorem parseOperator2_L (rest : Bytes) : parseOperator2 (L rest) = (parseOperator2 rest).map lowerLex := by
  unfold parseOperator2
  simp only [L_length, byteIs_L rest 0 60 (by decide), byteIs_L rest 1 61 (by decide), byteIs_L rest 2 62 (by decide),
    slice_LS, at'_L]
  split
  · exact parseOperator1_L rest
  · refine bmc _ _ _ (fun b => ?_)
    cases b with
    | true => exact assignLexL _ _ _ _ _ _ _ _
    | false =>
      simp only [Bool.false_eq_true, ↓reduceIte]
      refine bmc2 _ _ _ _ (fun v => ?_)
      simp only [searchKeyword_L]
      split
      · exact assignLexL _ _ _ _ _ _ _ _
      · refine bmc2 _ _ _ _ (fun c => ?_)
        simp only [nl 58 (by decide)]
        split
        · exact assignLexL _ _ _ _ _ _ _ _
        · exact parseOperator1_L rest

theorem lower_fix (c : UInt8) (hc : (isLowerAscii c || isUpperAscii c) = false) : lowerAscii c = c := by
  have := nl c hc c
  simpa using this

theorem parseString_L (t : Token) (rest : Bytes) (h0 : ∀ c0, rest[0]? = some c0 → (isLowerAscii c0 || isUpperAscii c0) = false) :
    parseString t (L rest) = (parseString t rest).map lowerLex := by
  unfold parseString
  rw [at'_L]
  unfold at'
  cases h : rest[0]? with
  | none => rfl
  | some c =>
    have hc := h0 c h
    show parseStringCore t (L rest) 1 (lowerAscii c) = _
    rw [lower_fix c hc]
    exact parseStringCore_L t rest 1 c (nonLetter_of c hc)

theorem splitLoop_L (rest : Bytes) (t : Token) : ∀ (fuel i : Nat),
    splitLoop (L rest) (lowerTok t) i fuel = (splitLoop rest t i fuel).map (Option.map lowerLex)
  | 0, _ => rfl
  | fuel + 1, i => by
    unfold splitLoop
    simp only [lowerTok_len, lowerTok_val, at'_L, slice_LS]
    split
    · refine bmG2 _ _ _ _ _ (fun d => ?_)
      simp only [nl 46 (by decide), nl 96 (by decide)]
      split
      · refine bmG2 _ _ _ _ _ (fun v => ?_)
        simp only [searchKeyword_L]
        split
        · rw [assign_L]
          cases assign {} (searchKeyword v) 0 i rest <;> rfl
        · exact splitLoop_L rest t fuel (i + 1)
      · exact splitLoop_L rest t fuel (i + 1)
    · rfl

theorem parseWord_L (rest : Bytes) : parseWord (L rest) = (parseWord rest).map lowerLex := by
  unfold parseWord
  simp only [spn_L _ q_notWord, assign_L]
  refine bmc2 _ _ _ _ (fun t => ?_)
  simp only [splitLoop_L, lowerTok_len, lowerTok_val, slice_LS]
  refine bmG2 _ _ _ _ _ (fun o => ?_)
  cases o with
  | some r => rfl
  | none =>
    simp only [Option.map_none]
    split
    · refine bmc2 _ _ _ _ (fun v => ?_)
      simp only [searchKeyword_L]
      rfl
    · rfl

theorem parseTick_L (t : Token) (rest : Bytes) : parseTick t (L rest) = (parseTick t rest).map lowerLex := by
  unfold parseTick
  rw [parseStringCore_L t rest 1 96 (nonLetter_of 96 (by decide))]
  refine bmc2 _ _ _ _ (fun r => ?_)
  simp only [lowerLex_tok, lowerTok_len, lowerTok_val, slice_LS]
  refine bmc2 _ _ _ _ (fun v => ?_)
  simp only [searchKeyword_L]
  rfl

theorem get_eq_L (rest : Bytes) (i : Nat) (k : UInt8) (hk : (isLowerAscii k || isUpperAscii k) = false) :
    ((L rest)[i]? == some k) = (rest[i]? == some k) := by
  rw [L_get]
  cases rest[i]? with
  | none => rfl
  | some x =>
    have := nl k hk x
    simp only [Option.map_some]
    rw [Bool.eq_iff_iff] at this ⊢
    simpa using this

theorem shift_lower (r : Lex) (p : Nat) : shift (lowerLex r) p = lowerLex (shift r p) := rfl

theorem parseVar_L (rest : Bytes) : parseVar (L rest) = (parseVar rest).map lowerLex := by
  unfold parseVar
  simp only [L_length, get_eq_L rest 1 64 (by decide)]
  generalize (if (decide (1 < rest.length) && rest[1]? == some 64) = true then ((2 : Nat), (2 : Nat)) else (1, 1)) = pc
  obtain ⟨p, count⟩ := pc
  simp only [at'_L, sliceFrom_LS]
  split
  · cases hc : at' rest p with
    | error e => rfl
    | ok c =>
    show _ = Except.map lowerLex (if (c == 96) = true then _ else _)
    simp only [Except.map, bind, Except.bind]
    simp only [nl 96 (by decide), nl 39 (by decide), nl 34 (by decide)]
    split
    · refine bmc2 _ _ _ _ (fun tail => ?_)
      rw [parseTick_L]
      refine bmc2 _ _ _ _ (fun r => ?_)
      rfl
    · split
      · rename_i hq
        cases hs : sliceFrom rest p with
        | error e => rfl
        | ok tail =>
          show (parseString { count := count } (L tail) >>= _) = _
          have h0 : ∀ c0, tail[0]? = some c0 → (isLowerAscii c0 || isUpperAscii c0) = false := by
            intro c0 hc0
            have ht : tail = rest.drop p := by
              unfold sliceFrom at hs
              split at hs
              · cases hs; rfl
              · cases hs
            have hcp : rest[p]? = some c := by
              unfold at' at hc
              cases h : rest[p]? with
              | none => rw [h] at hc; cases hc
              | some x => rw [h] at hc; cases hc; rfl
            rw [ht, List.getElem?_drop, Nat.add_zero, hcp] at hc0
            cases hc0
            simp only [Bool.or_eq_true, beq_iff_eq] at hq
            rcases hq with rfl | rfl <;> decide
          rw [parseString_L _ tail h0]
          refine bmc2 _ _ _ _ (fun r => ?_)
          rfl
      · refine bmc2 _ _ _ _ (fun tail => ?_)
        simp only [spn_L _ q_notVar]
        exact assignLexL _ _ _ _ _ _ _ _
  · refine bmc2 _ _ _ _ (fun tail => ?_)
    exact assignLexL _ _ _ _ _ _ _ _

theorem beq2 {α β : Type} (x : M α) (m : α → α) (f g : α → M β) (h : ∀ a, f (m a) = g a) :
    (x.map m >>= f) = (x >>= g) := by
  cases x with
  | error e => rfl
  | ok a => exact h a

theorem bF2 (a b : UInt8) (h : (List.range 256).all (fun n => (lowerAscii n.toUInt8 == a || lowerAscii n.toUInt8 == b) == (n.toUInt8 == a || n.toUInt8 == b)) = true)
    (x : UInt8) : (lowerAscii x == a || lowerAscii x == b) = (x == a || x == b) :=
  byteFact (fun c => c == a || c == b) h x

theorem ok_bind {α β : Type} (a : α) (f : α → M β) : ((Except.ok a : M α) >>= f) = f a := rfl

theorem numPrefixed_L (ds : Bytes) (hds : ∀ x, mem ds (lowerAscii x) = mem ds x) (rest : Bytes) :
    numPrefixed ds (L rest) = (numPrefixed ds rest).map lowerLex := by
  unfold numPrefixed
  simp only [sliceFrom_LS]
  refine bmc2 _ _ _ _ (fun tail => ?_)
  simp only [spn_L _ hds]
  split
  · exact assignLexL _ _ _ _ _ _ _ _
  · exact assignLexL _ _ _ _ _ _ _ _

theorem numDigitSet_L (rest : Bytes) (c0 : UInt8) : numDigitSet (L rest) (lowerAscii c0) = numDigitSet rest c0 := by
  unfold numDigitSet
  simp only [L_length, nl 48 (by decide), at'_L]
  split
  · refine beq2 _ _ _ _ (fun c1 => ?_)
    simp only [bF2 88 120 (by decide +kernel), bF2 66 98 (by decide +kernel)]
  · rfl

theorem numDot_L (rest : Bytes) (pos : Nat) : numDot (L rest) pos = numDot rest pos := by
  unfold numDot
  simp only [L_length, byteIs_L rest pos 46 (by decide), sliceFrom_LS]
  cases (g (pos < rest.length) <&&> byteIs rest pos 46 : M Bool) with
  | error e => rfl
  | ok b =>
    cases b with
    | false => rfl
    | true =>
      show (Except.map L (sliceFrom rest (pos + 1)) >>= _) = (sliceFrom rest (pos + 1) >>= _)
      refine beq2 _ _ _ _ (fun tail => ?_)
      simp only [spn_L _ q_digit]

theorem numExp_L (rest : Bytes) (pos : Nat) : numExp (L rest) pos = numExp rest pos := by
  unfold numExp
  simp only [L_length, at'_L, sliceFrom_LS]
  split
  · refine beq2 _ _ _ _ (fun c => ?_)
    simp only [bF2 69 101 (by decide +kernel)]
    split
    · have e : (if pos + 1 < rest.length then (do let c ← Except.map lowerAscii (at' rest (pos + 1)); pure (if (c == 43 || c == 45) = true then pos + 1 + 1 else pos + 1)) else pure (pos + 1) : M Nat) =
          (if pos + 1 < rest.length then (do let c ← at' rest (pos + 1); pure (if (c == 43 || c == 45) = true then pos + 1 + 1 else pos + 1)) else pure (pos + 1)) := by
        split
        · refine beq2 _ _ _ _ (fun c => ?_)
          simp only [nl 43 (by decide), nl 45 (by decide)]
        · rfl
      rw [e]
      congr 1
      funext p'
      refine beq2 _ _ _ _ (fun tail => ?_)
      simp only [spn_L _ q_digit]
    · rfl
  · rfl

theorem numSuffix_L (rest : Bytes) (pos : Nat) : numSuffix (L rest) pos = numSuffix rest pos := by
  unfold numSuffix
  simp only [L_length, at'_L]
  split
  · refine beq2 _ _ _ _ (fun c => ?_)
    have e : (lowerAscii c == 100 || lowerAscii c == 68 || lowerAscii c == 102 || lowerAscii c == 70) =
        (c == 100 || c == 68 || c == 102 || c == 70) :=
      byteFact (fun c => c == 100 || c == 68 || c == 102 || c == 70) (by decide +kernel) c
    simp only [e]
    split
    · split
      · rfl
      · refine beq2 _ _ _ _ (fun c1 => ?_)
        simp only [q_white, nl 59 (by decide), bF2 117 85 (by decide +kernel)]
    · rfl
  · rfl

theorem parseNumber_L (rest : Bytes) : parseNumber (L rest) = (parseNumber rest).map lowerLex := by
  unfold parseNumber
  simp only [at'_L]
  refine bmc2 _ _ _ _ (fun c0 => ?_)
  rw [numDigitSet_L]
  cases hds : numDigitSet rest c0 with
  | error e => rfl
  | ok o =>
  simp only [ok_bind]
  cases o with
  | some ds =>
    have hd : ds = hexDigits ∨ ds = binDigits := by
      unfold numDigitSet at hds
      split at hds
      · cases hc : at' rest 1 with
        | error e => rw [hc] at hds; cases hds
        | ok c1 =>
          rw [hc] at hds
          simp only [bind, Except.bind, pure, Except.pure] at hds
          split at hds
          · cases hds; exact Or.inl rfl
          · split at hds
            · cases hds; exact Or.inr rfl
            · cases hds
      · cases hds
    rcases hd with rfl | rfl
    · exact numPrefixed_L _ q_hex rest
    · exact numPrefixed_L _ q_bin rest
  | none =>
    simp only [spn_L _ q_digit, numDot_L]
    refine bmc _ _ _ (fun pd => ?_)
    obtain ⟨pos, dotOnly⟩ := pd
    simp only []
    split
    · exact assignLexC {} 46 0 1 [46] rfl _ _ _
    · simp only [numExp_L]
      refine bmc _ _ _ (fun pe => ?_)
      obtain ⟨pos, haveE, haveExp⟩ := pe
      simp only [numSuffix_L]
      refine bmc _ _ _ (fun pos => ?_)
      split
      · exact assignLexL _ _ _ _ _ _ _ _
      · exact assignLexL _ _ _ _ _ _ _ _

theorem andM_true (x y : M Bool) (h : (x <&&> y) = .ok true) : x = .ok true ∧ y = .ok true := by
  cases x with
  | error e => cases h
  | ok b =>
    cases b with
    | false => cases h
    | true => exact ⟨rfl, h⟩

theorem byteIs_true (rest : Bytes) (i : Nat) (k : UInt8) (h : byteIs rest i k = .ok true) : rest[i]? = some k := by
  unfold byteIs at' at h
  cases hr : rest[i]? with
  | none => rw [hr] at h; cases h
  | some x =>
    rw [hr] at h
    simp only [bind, Except.bind, pure, Except.pure, Except.ok.injEq, beq_iff_eq] at h
    rw [h]

theorem sliceFrom_okd (rest tail : Bytes) (p : Nat) (h : sliceFrom rest p = .ok tail) : tail = rest.drop p := by
  unfold sliceFrom at h
  split at h
  · cases h; rfl
  · cases h

theorem parseUString_L (rest : Bytes) : parseUString (L rest) = (parseUString rest).map lowerLex := by
  unfold parseUString
  simp only [L_length, byteIs_L rest 1 38 (by decide), byteIs_L rest 2 39 (by decide), sliceFrom_LS]
  cases hb : (g (2 < rest.length) <&&> byteIs rest 1 38 <&&> byteIs rest 2 39 : M Bool) with
  | error e => rfl
  | ok b =>
    cases b with
    | false => exact parseWord_L rest
    | true =>
      simp only [ok_bind, ↓reduceIte]
      have h2 : rest[2]? = some 39 := byteIs_true _ _ _ (andM_true _ _ (andM_true _ _ hb).2).2
      cases hs : sliceFrom rest 2 with
      | error e => rfl
      | ok tail =>
        have ht := sliceFrom_okd _ _ _ hs
        have h0 : ∀ c0, tail[0]? = some c0 → (isLowerAscii c0 || isUpperAscii c0) = false := by
          intro c0 hc0
          rw [ht, List.getElem?_drop, Nat.add_zero, h2] at hc0
          cases hc0; decide
        show (parseString {} (L tail) >>= _) = _
        rw [parseString_L _ tail h0]
        refine bmc2 _ _ _ _ (fun r => ?_)
        rfl

theorem parseEString_L (rest : Bytes) : parseEString (L rest) = (parseEString rest).map lowerLex := by
  unfold parseEString
  simp only [L_length, byteNe_L rest 1 39 (by decide)]
  refine bmc _ _ _ (fun b => ?_)
  cases b with
  | true => exact parseWord_L rest
  | false => exact parseStringCore_L _ _ _ _ (nonLetter_of 39 (by decide))

/-- the guard of `parseQStringCore` -/
def qBad (rest : Bytes) (p : Nat) : M Bool :=
  if p ≥ rest.length then pure true else do
    let c ← at' rest p
    if c != 113 && c != 81 then pure true
    else if p + 2 ≥ rest.length then pure true
    else pure ((← at' rest (p + 1)) != 39)

theorem qBad_L (rest : Bytes) (p : Nat) : qBad (L rest) p = qBad rest p := by
  unfold qBad
  simp only [L_length, at'_L]
  split
  · rfl
  · refine beq2 _ _ _ _ (fun c => ?_)
    have e : (lowerAscii c != 113 && lowerAscii c != 81) = (c != 113 && c != 81) :=
      byteFact (fun c => c != 113 && c != 81) (by decide +kernel) c
    simp only [e]
    split
    · rfl
    · split
      · rfl
      · refine beq2 _ _ _ _ (fun c1 => ?_)
        simp only [nl_ne 39 (by decide)]

theorem qBad_false (rest : Bytes) (p : Nat) (h : qBad rest p = .ok false) :
    (rest[p]? = some 113 ∨ rest[p]? = some 81) ∧ rest[p + 1]? = some 39 := by
  unfold qBad at h
  split at h
  · cases h
  · unfold at' at h
    cases h0 : rest[p]? with
    | none => rw [h0] at h; cases h
    | some c =>
      rw [h0] at h
      simp only [bind, Except.bind, pure, Except.pure] at h
      split at h
      · cases h
      · rename_i hc
        split at h
        · cases h
        · cases h1 : rest[p + 1]? with
          | none => rw [h1] at h; cases h
          | some c1 =>
            rw [h1] at h
            simp only [Except.ok.injEq, bne_eq_false_iff_eq] at h
            refine ⟨?_, by rw [h]⟩
            simp only [Bool.and_eq_true, bne_iff_ne, ne_eq, not_and, Decidable.not_not] at hc
            by_cases h113 : c = 113
            · left; rw [h113]
            · right; rw [hc h113]

theorem parseQStringCore_eq (rest : Bytes) (p : Nat) : parseQStringCore rest p =
    (do let bad ← qBad rest p
        if bad then parseWord rest
        else
          let ch ← at' rest (p + 2)
          if ch < 33 then parseWord rest
          else
            let ch := qClose ch
            let tail ← sliceFrom rest (p + 3)
            match indexOf tail [ch, 39] with
            | none =>
              let t ← assign {} 115 (p + 3) (rest.length - p - 3) tail
              return { tok := { t with strOpen := 113, strClose := 0 }, next := rest.length }
            | some i =>
              let t ← assign {} 115 (p + 3) i tail
              return { tok := { t with strOpen := 113, strClose := 113 }, next := p + 3 + i + 2 }) := rfl

theorem at'_okd (rest : Bytes) (i : Nat) (c : UInt8) (h : at' rest i = .ok c) : rest[i]? = some c := by
  unfold at' at h
  cases hr : rest[i]? with
  | none => rw [hr] at h; cases h
  | some x => rw [hr] at h; cases h; rfl

theorem qClose_nl (c : UInt8) (h : isLetter c = false) : (isLowerAscii (qClose c) || isUpperAscii (qClose c)) = false := by
  have := forall_byte (fun c => isLetter c || !(isLowerAscii (qClose c) || isUpperAscii (qClose c))) (by decide +kernel) c
  rw [h] at this
  simpa using this

theorem parseQStringCore_L (rest : Bytes) (p : Nat)
    (hq : (rest[p]? = some 113 ∨ rest[p]? = some 81) → rest[p + 1]? = some 39 →
      ∀ c, rest[p + 2]? = some c → isLetter c = false) :
    parseQStringCore (L rest) p = (parseQStringCore rest p).map lowerLex := by
  rw [parseQStringCore_eq, parseQStringCore_eq, qBad_L]
  cases hb : qBad rest p with
  | error e => rfl
  | ok b =>
    cases b with
    | true => exact parseWord_L rest
    | false =>
      have hqb := qBad_false rest p hb
      simp only [ok_bind, Bool.false_eq_true, ↓reduceIte, at'_L, sliceFrom_LS, L_length]
      cases hc : at' rest (p + 2) with
      | error e => rfl
      | ok ch =>
        have hch : isLetter ch = false := hq hqb.1 hqb.2 ch (at'_okd _ _ _ hc)
        simp only [Except.map, ok_bind, lower_fix ch hch]
        refine iteM _ _ _ _ _ _ (parseWord_L rest) ?_
        refine bmc2 _ _ _ _ (fun tail => ?_)
        simp only [indexOf_L [qClose ch, 39] (nl2 (qClose ch) 39 (qClose_nl ch hch) (by decide)), assign_L]
        cases indexOf tail [qClose ch, 39] with
        | none => exact bmc2 _ _ _ _ (fun t => rfl)
        | some i => exact bmc2 _ _ _ _ (fun t => rfl)

theorem parseNqString_L (rest : Bytes)
    (hq : (rest[1]? = some 113 ∨ rest[1]? = some 81) → rest[2]? = some 39 → ∀ c, rest[3]? = some c → isLetter c = false) :
    parseNqString (L rest) = (parseNqString rest).map lowerLex := by
  unfold parseNqString
  simp only [L_length, byteIs_L rest 1 39 (by decide)]
  refine bmc _ _ _ (fun b => ?_)
  cases b with
  | true => exact parseEString_L rest
  | false => exact parseQStringCore_L rest 1 hq

theorem parseXBString_L (ds : Bytes) (hds : ∀ x, mem ds (lowerAscii x) = mem ds x) (rest : Bytes) :
    parseXBString ds (L rest) = (parseXBString ds rest).map lowerLex := by
  unfold parseXBString
  simp only [L_length, byteNe_L rest 1 39 (by decide), sliceFrom_LS]
  refine bmc _ _ _ (fun b => ?_)
  cases b with
  | true => exact parseWord_L rest
  | false =>
    simp only [Bool.false_eq_true, ↓reduceIte]
    refine bmc2 _ _ _ _ (fun tail => ?_)
    simp only [spn_L _ hds, byteNe_L rest _ 39 (by decide)]
    refine bmc _ _ _ (fun b2 => ?_)
    cases b2 with
    | true => exact parseWord_L rest
    | false => exact assignLexL _ _ _ _ _ _ _ _

theorem parseBWord_L (rest : Bytes) : parseBWord (L rest) = (parseBWord rest).map lowerLex := by
  unfold parseBWord
  rw [indexByte_L 93 (nonLetter_of 93 (by decide))]
  cases indexByte rest 93 with
  | none => simp only [L_length]; exact assignLexL _ _ _ _ _ _ _ _
  | some i => exact assignLexL _ _ _ _ _ _ _ _

theorem q_money (x : UInt8) : isMoneyChar (lowerAscii x) = isMoneyChar x := byteFact _ (by decide +kernel) x
theorem q_letter (x : UInt8) : isLetter (lowerAscii x) = isLetter x := byteFact _ (by decide +kernel) x

theorem spn_head_zero (p : UInt8 → Bool) (l : Bytes) (h : ∀ c, l[0]? = some c → p c = false) : spn p l = 0 := by
  cases l with
  | nil => rfl
  | cons x xs =>
    have := h x rfl
    simp [spn, this]

theorem parseMoney_L (rest : Bytes) (hl : ∀ c, rest[1]? = some c → isLetter c = false) :
    parseMoney (L rest) = (parseMoney rest).map lowerLex := by
  unfold parseMoney
  simp only [L_length, sliceFrom_LS, at'_L, byteIs_L rest 1 46 (by decide)]
  refine iteM _ _ _ _ _ _ (assignLexC {} 110 0 1 [36] rfl _ _ _) ?_
  cases hs : sliceFrom rest 1 with
  | error e => rfl
  | ok tail1 =>
    have ht := sliceFrom_okd _ _ _ hs
    simp only [Except.map, ok_bind, spn_L _ q_money, spn_L _ q_letter]
    by_cases h0 : (spn isMoneyChar tail1 == 0) = true
    · simp only [h0, ↓reduceIte]
      refine bmc2 _ _ _ _ (fun c1 => ?_)
      simp only [nl 36 (by decide)]
      refine iteM _ _ _ _ _ _ ?_ ?_
      · refine bmc2 _ _ _ _ (fun tail2 => ?_)
        simp only [indexOf_L [36, 36] (nl2 36 36 (by decide) (by decide)), assign_L]
        cases indexOf tail2 [36, 36] with
        | none => exact bmc2 _ _ _ _ (fun t => rfl)
        | some i => exact bmc2 _ _ _ _ (fun t => rfl)
      · have hz : spn isLetter tail1 = 0 := by
          apply spn_head_zero
          intro c hc
          rw [ht, List.getElem?_drop] at hc
          exact hl c hc
        simp only [hz, beq_self_eq_true, ↓reduceIte]
        exact assignLexC {} 110 0 1 [36] rfl _ _ _
    · simp only [h0, Bool.false_eq_true, ↓reduceIte]
      refine bmc _ _ _ (fun b => ?_)
      cases b with
      | true => exact parseWord_L rest
      | false => exact assignLexL _ _ _ _ _ _ _ _

theorem dispatch_caseFacts (c : UInt8) :
    dispatch (lowerAscii c) = dispatch c ∧
    (dispatch c = .byte → (isLowerAscii c || isUpperAscii c) = false) ∧
    (dispatch c = .string → (isLowerAscii c || isUpperAscii c) = false) ∧
    (dispatch c = .backslash → c = 92) ∧ (dispatch c = .money → c = 36) ∧
    (dispatch c = .qstring → c = 113 ∨ c = 81) := by
  have := forall_byte (fun c => dispatch (lowerAscii c) == dispatch c &&
    (!(dispatch c == .byte) || !(isLowerAscii c || isUpperAscii c)) &&
    (!(dispatch c == .string) || !(isLowerAscii c || isUpperAscii c)) &&
    (!(dispatch c == .backslash) || c == 92) && (!(dispatch c == .money) || c == 36) &&
    (!(dispatch c == .qstring) || (c == 113 || c == 81))) (by decide +kernel) c
  simp only [Bool.and_eq_true, Bool.or_eq_true, Bool.not_eq_true', beq_iff_eq, beq_eq_false_iff_ne, ne_eq] at this
  obtain ⟨⟨⟨⟨⟨a, b⟩, c'⟩, d⟩, e⟩, f⟩ := this
  refine ⟨a, ?_, ?_, ?_, ?_, ?_⟩
  · intro h; rcases b with b | b
    · exact absurd h b
    · simpa using b
  · intro h; rcases c' with b | b
    · exact absurd h b
    · simpa using b
  · intro h; rcases d with b | b
    · exact absurd h b
    · exact b
  · intro h; rcases e with b | b
    · exact absurd h b
    · exact b
  · intro h; rcases f with b | b
    · exact absurd h b
    · exact b

theorem runP_L (flags : Nat) (rest : Bytes) (c0 : UInt8) (h0 : rest[0]? = some c0)
    (hbn : c0 = 92 → rest[1]? ≠ some 78) (hd : c0 = 36 → ∀ c, rest[1]? = some c → isLetter c = false)
    (hq0 : (c0 = 113 ∨ c0 = 81) → rest[1]? = some 39 → ∀ c, rest[2]? = some c → isLetter c = false)
    (hq1 : (rest[1]? = some 113 ∨ rest[1]? = some 81) → rest[2]? = some 39 → ∀ c, rest[3]? = some c → isLetter c = false) :
    runP flags (L rest) (dispatch c0) = (runP flags rest (dispatch c0)).map lowerLex := by
  obtain ⟨_, fb, fs, fbs, fm, fq⟩ := dispatch_caseFacts c0
  generalize hp : dispatch c0 = p at *
  cases p with
  | white => exact parseWhite_L rest
  | op1 => exact parseOperator1_L rest
  | op2 => exact parseOperator2_L rest
  | other => exact parseOther_L rest
  | byte => exact parseByte_L rest c0 h0 (lower_fix c0 (fb rfl))
  | hash => exact parseHash_L flags rest
  | dash => exact parseDash_L flags rest
  | slash => exact parseSlash_L rest
  | backslash => exact parseBackSlash_L rest (hbn (fbs rfl))
  | string => exact parseString_L {} rest (fun c hc => by rw [h0] at hc; cases hc; exact fs rfl)
  | word => exact parseWord_L rest
  | var => exact parseVar_L rest
  | number => exact parseNumber_L rest
  | tick => exact parseTick_L {} rest
  | ustring => exact parseUString_L rest
  | qstring => exact parseQStringCore_L rest 0 (fun _ => hq0 (fq rfl))
  | nqstring => exact parseNqString_L rest hq1
  | xstring => exact parseXBString_L _ q_hexLU rest
  | bstring => exact parseXBString_L _ q_bin rest
  | estring => exact parseEString_L rest
  | bword => exact parseBWord_L rest
  | money => exact parseMoney_L rest (hd (fm rfl))
  | unknown => rfl

/-! ## tokenize -/

/-- the positions where the lexers compare a letter case-sensitively do not occur -/
def CaseOK (inp : Bytes) : Prop :=
  (∀ i : Nat, inp[i]? = some (92 : UInt8) → inp[i + 1]? ≠ some (78 : UInt8)) ∧
  (∀ i : Nat, inp[i]? = some (36 : UInt8) → ∀ c, inp[i + 1]? = some c → isLetter c = false) ∧
  (∀ i : Nat, (inp[i]? = some (113 : UInt8) ∨ inp[i]? = some (81 : UInt8)) → inp[i + 1]? = some (39 : UInt8) →
    ∀ c, inp[i + 2]? = some c → isLetter c = false)

@[simp] theorem lowerS_pos (s : State) : (lowerS s).pos = s.pos := rfl
@[simp] theorem lowerS_input (s : State) : (lowerS s).input = L s.input := rfl
@[simp] theorem lowerS_flags (s : State) : (lowerS s).flags = s.flags := rfl
@[simp] theorem lowerS_cur (s : State) : (lowerS s).cur = s.cur := rfl
@[simp] theorem lowerS_toks (s : State) : (lowerS s).toks = s.toks := rfl

def mapTS (r : M (Bool × State)) : M (Bool × State) := r.map (fun p => (p.1, lowerS p.2))

theorem tvSet_input (s s' : State) (i : Nat) (t : Token) (h : tvSet s i t = .ok s') : s'.input = s.input := by
  unfold tvSet at h
  split at h
  · cases h; rfl
  · cases h

theorem tokLoop_L : ∀ (fuel : Nat) (s : State), CaseOK s.input → tokLoop (lowerS s) fuel = mapTS (tokLoop s fuel)
  | 0, _, _ => rfl
  | fuel + 1, s, hok => by
    unfold tokLoop
    simp only [lowerS_pos, lowerS_input, lowerS_flags, lowerS_cur, L_length, sliceFrom_LS]
    split
    · cases hs : sliceFrom s.input s.pos with
      | error e => rfl
      | ok rest =>
        have hr := sliceFrom_okd _ _ _ hs
        simp only [Except.map, ok_bind, at'_L]
        cases hc : at' rest 0 with
        | error e => rfl
        | ok c0 =>
          have h0 := at'_okd _ _ _ hc
          have hget : ∀ i, rest[i]? = s.input[s.pos + i]? := by
            intro i; rw [hr, List.getElem?_drop]
          have hget0 : rest[0]? = s.input[s.pos]? := by rw [hget 0]; rfl
          simp only [Except.map, ok_bind, (dispatch_caseFacts c0).1]
          have hrun := runP_L s.flags rest c0 h0
            (by intro h92; rw [hget 1]; apply hok.1; rw [← hget0, h0, h92])
            (by intro h36 c hc; rw [hget 1] at hc; apply hok.2.1 s.pos _ c hc
                rw [← hget0, h0, h36])
            (by intro hq h39 c hc; rw [hget 1] at h39; rw [hget 2] at hc
                refine hok.2.2 s.pos ?_ h39 c hc
                rw [← hget0, h0]; rcases hq with h | h <;> rw [h] <;> simp)
            (by intro hq h39 c hc; rw [hget 1] at hq; rw [hget 2] at h39; rw [hget 3] at hc
                exact hok.2.2 (s.pos + 1) hq h39 c hc)
          rw [hrun]
          unfold mapTS
          refine bmG2 _ _ _ _ _ (fun r => ?_)
          show (tvSet (lowerS s) s.cur (lowerTok { r.tok with pos := r.tok.pos + s.pos }) >>= _) = _
          rw [tvSet_lower]
          cases hs1 : tvSet s s.cur { r.tok with pos := r.tok.pos + s.pos } with
          | error e => rfl
          | ok s1 =>
            simp only [Except.map, ok_bind, lowerTok_cat, lowerLex_tok]
            by_cases hcat : (r.tok.cat != 0) = true
            · simp only [hcat, ↓reduceIte]; rfl
            · simp only [hcat, ↓reduceIte]
              have hin : s1.input = s.input := tvSet_input _ _ _ _ hs1
              exact tokLoop_L fuel { s1 with pos := s1.pos + r.next, ddx := s1.ddx + r.ddx, hash := s1.hash + r.hash }
                (by show CaseOK s1.input; rw [hin]; exact hok)
    · rfl

theorem flag2Delim_nl (flags : Nat) : NonLetter (flag2Delim flags) := by
  unfold flag2Delim
  split
  · exact nonLetter_of 39 (by decide)
  · split
    · exact nonLetter_of 34 (by decide)
    · exact nonLetter_of 0 (by decide)

theorem lowerTok_empty : lowerTok {} = {} := rfl

theorem tokenize_L (s : State) (hok : CaseOK s.input) : tokenize (lowerS s) = mapTS (tokenize s) := by
  unfold tokenize
  simp only [lowerS_input, lowerS_cur, L_length]
  by_cases hlen : (s.input.length == 0) = true
  · simp only [hlen, ↓reduceIte]; rfl
  · simp only [hlen, Bool.false_eq_true, ↓reduceIte]
    have e0 : tvSet (lowerS s) s.cur {} = (tvSet s s.cur {}).map lowerS := by
      have := tvSet_lower s s.cur {}
      rw [lowerTok_empty] at this
      exact this
    show ((tvSet (lowerS s) s.cur {}) >>= _) = _
    rw [e0]
    cases hs1 : tvSet s s.cur {} with
    | error e => rfl
    | ok s1 =>
      have hin : s1.input = s.input := tvSet_input _ _ _ _ hs1
      simp only [Except.map, ok_bind, lowerS_pos, lowerS_flags, lowerS_input, lowerS_cur, L_length]
      by_cases hq : (s1.pos == 0 && (hasFlag s1.flags flagQuoteSingle || hasFlag s1.flags flagQuoteDouble)) = true
      · simp only [hq, ↓reduceIte]
        rw [parseStringCore_L _ _ _ _ (flag2Delim_nl s1.flags)]
        unfold mapTS
        refine bmG2 _ _ _ _ _ (fun r => ?_)
        simp only [lowerLex_tok, tvSet_lower]
        refine bmG2 _ _ _ _ _ (fun s2 => ?_)
        rfl
      · simp only [hq, Bool.false_eq_true, ↓reduceIte]
        exact tokLoop_L _ s1 (by rw [hin]; exact hok)

theorem tokLoop_input : ∀ (fuel : Nat) (s s' : State) (m : Bool), tokLoop s fuel = .ok (m, s') → s'.input = s.input
  | 0, _, _, _, h => by cases h
  | fuel + 1, s, s', m, h => by
    unfold tokLoop at h
    split at h
    · cases hs : sliceFrom s.input s.pos with
      | error e => rw [hs] at h; cases h
      | ok rest =>
        rw [hs] at h
        simp only [ok_bind] at h
        cases hc : at' rest 0 with
        | error e => rw [hc] at h; cases h
        | ok c0 =>
          rw [hc] at h
          simp only [ok_bind] at h
          cases hr : runP s.flags rest (dispatch c0) with
          | error e => rw [hr] at h; cases h
          | ok r =>
            rw [hr] at h
            simp only [ok_bind] at h
            cases hs1 : tvSet s s.cur { r.tok with pos := r.tok.pos + s.pos } with
            | error e => rw [hs1] at h; cases h
            | ok s1 =>
              rw [hs1] at h
              simp only [ok_bind] at h
              have hin := tvSet_input _ _ _ _ hs1
              split at h
              · cases h; exact hin
              · have := tokLoop_input fuel _ _ _ h
                rw [this]; exact hin
    · cases h; rfl

theorem tokenize_input (s s' : State) (m : Bool) (h : tokenize s = .ok (m, s')) : s'.input = s.input := by
  unfold tokenize at h
  split at h
  · cases h; rfl
  · cases hs1 : tvSet s s.cur {} with
    | error e => rw [hs1] at h; cases h
    | ok s1 =>
      rw [hs1] at h
      simp only [ok_bind] at h
      have hin := tvSet_input _ _ _ _ hs1
      split at h
      · cases hr : parseStringCore {} s1.input 0 (flag2Delim s1.flags) with
        | error e => rw [hr] at h; cases h
        | ok r =>
          rw [hr] at h
          simp only [ok_bind] at h
          cases hs2 : tvSet s1 s1.cur r.tok with
          | error e => rw [hs2] at h; cases h
          | ok s2 =>
            rw [hs2] at h
            cases h
            show s2.input = s.input
            rw [tvSet_input _ _ _ _ hs2, hin]
      · rw [tokLoop_input _ _ _ _ h, hin]

/-! ## fold -/

@[simp] theorem lowerF_pos (f : FS) : (lowerF f).pos = f.pos := rfl
@[simp] theorem lowerF_left (f : FS) : (lowerF f).left = f.left := rfl
@[simp] theorem lowerF_more (f : FS) : (lowerF f).more = f.more := rfl
@[simp] theorem lowerF_s (f : FS) : (lowerF f).s = lowerS f.s := rfl
@[simp] theorem lowerF_lc (f : FS) : (lowerF f).lastComment = lowerTok f.lastComment := rfl

def lowerStep : Step → Step
  | .cont f => .cont (lowerF f)
  | .brk f => .brk (lowerF f)
  | .ret n f => .ret n (lowerF f)

def lowerTwo : Two → Two
  | .done s => .done (lowerStep s)
  | .next f => .next (lowerF f)

theorem tvSet_lower' (s : State) (i : Nat) (t' t : Token) (h : t' = lowerTok t) :
    tvSet (lowerS s) i t' = (tvSet s i t).map lowerS := by
  rw [h]; exact tvSet_lower s i t

theorem dec_lowerG (g f : FS) (k : Nat) (h : g = lowerF f) : g.dec k = (f.dec k).map lowerF := by
  rw [h]
  unfold FS.dec sub
  simp only [lowerF_pos]
  by_cases hk : k ≤ f.pos
  · simp only [hk, ↓reduceIte]; rfl
  · simp only [hk, ↓reduceIte]; rfl

theorem dec_lower (f : FS) (k : Nat) : (lowerF f).dec k = (f.dec k).map lowerF := dec_lowerG _ f k rfl

macro "leafdec" : tactic =>
  `(tactic| (rw [dec_lower]; refine bmG2 _ _ _ _ _ (fun x => ?_); rfl))

theorem tvSet_bind {β : Type} (φ : β → β) (s : State) (i : Nat) (t' t : Token) (ht : t' = lowerTok t)
    (F G : State → M β) (h : ∀ s', F (lowerS s') = (G s').map φ) :
    (tvSet (lowerS s) i t' >>= F) = (tvSet s i t >>= G).map φ := by
  rw [tvSet_lower' s i t' t ht]; exact bmG2 φ _ _ F G h

theorem dec_bind {β : Type} (φ : β → β) (g f : FS) (k : Nat) (hg : g = lowerF f)
    (F G : FS → M β) (h : ∀ x, F (lowerF x) = (G x).map φ) :
    (g.dec k >>= F) = (f.dec k >>= G).map φ := by
  rw [dec_lowerG g f k hg]; exact bmG2 φ _ _ F G h

macro "leafsetdec" f:term:max t:term:max : tactic =>
  `(tactic| (refine tvSet_bind _ _ _ _ $t rfl _ _ (fun s' => ?_);
             exact dec_bind _ _ { $f with s := s' } _ rfl _ _ (fun x => rfl)))

theorem bmG3 {α β : Type} (φ : β → β) (x' x : M α) (m : α → α) (f g : α → M β) (hx : x' = x.map m)
    (h : ∀ a, f (m a) = (g a).map φ) : (x' >>= f) = (x >>= g).map φ := by
  rw [hx]; exact bmG2 φ x m f g h

theorem dashes_L : ∀ (t : Bytes), (L t == [58, 58]) = (t == [58, 58])
  | [] => rfl
  | [a] => by simp [L]
  | [a, b] => by
    have ha := nl 58 (by decide) a
    have hb := nl 58 (by decide) b
    rw [Bool.eq_iff_iff] at ha hb ⊢
    simp only [beq_iff_eq] at ha hb
    simp [L, ha, hb]
  | a :: b :: c :: t => by simp [L]

theorem foldThree_L (f : FS) : foldThree (lowerF f) = (foldThree f).map lowerStep := by
  unfold foldThree
  simp only [lowerF_s, lowerF_left, tvGet_lower]
  refine bmG2 _ _ _ _ _ (fun a => ?_)
  refine bmG2 _ _ _ _ _ (fun b => ?_)
  refine bmG2 _ _ _ _ _ (fun c => ?_)
  simp only [isUnaryOp_lower, lowerTok_cat, valOf_lower]
  refine bmG _ _ _ _ (fun bUnary => ?_)
  refine iteM _ _ _ _ _ _ (by leafdec) ?_
  refine iteM _ _ _ _ _ _ (by leafdec) ?_
  refine iteM _ _ _ _ _ _ (by leafdec) ?_
  refine iteM _ _ _ _ _ _ (by leafdec) ?_
  refine iteM _ _ _ _ _ _ (by leafdec) ?_
  refine bmG2 _ _ _ _ _ (fun vb => ?_)
  simp only [dashes_L]
  refine iteM _ _ _ _ _ _ (by leafdec) ?_
  refine iteM _ _ _ _ _ _ (by leafdec) ?_
  refine iteM _ _ _ _ _ _ (by leafsetdec f c) ?_
  refine iteM _ _ _ _ _ _ (by leafsetdec f c) ?_
  refine iteM _ _ _ _ _ _ (by leafsetdec f c) ?_
  refine iteM _ _ _ _ _ _ (by leafsetdec f c) ?_
  refine iteM _ _ _ _ _ _ (by leafdec) ?_
  refine iteM _ _ _ _ _ _ (by leafsetdec f c) ?_
  refine bmG3 _ _ _ lowerF _ _ ?_ (fun f' => rfl)
  refine iteM _ _ _ _ _ _ ?_ rfl
  refine bmG2 _ _ _ _ _ (fun va => ?_)
  simp only [toUpperCmp_L]
  refine iteM _ _ _ _ _ _ ?_ rfl
  exact tvSet_bind _ _ _ _ { a with cat := 110 } rfl _ _ (fun s' => rfl)

theorem matchOptM {β : Type} (φ : β → β) (o : Option Token) (S S' : Token → M β) (N N' : M β)
    (hS : ∀ t, S (lowerTok t) = (S' t).map φ) (hN : N = N'.map φ) :
    (match o.map lowerTok with | some t => S t | none => N) = (match o with | some t => S' t | none => N').map φ := by
  cases o with
  | none => exact hN
  | some t => exact hS t

theorem foldTwo_L (f : FS) : foldTwo (lowerF f) = (foldTwo f).map lowerTwo := by
  unfold foldTwo
  simp only [lowerF_s, lowerF_left, tvGet_lower]
  refine bmG2 _ _ _ _ _ (fun a => ?_)
  refine bmG2 _ _ _ _ _ (fun b => ?_)
  simp only [isUnaryOp_lower, isArithmeticOp_lower, lowerTok_cat, lowerTok_len, lowerTok_val, valOf_lower, merge_lower,
    isIfToken_lower, indexByte_L 95 (nonLetter_of 95 (by decide))]
  refine bmG _ _ _ _ (fun bUnary => ?_)
  refine iteM _ _ _ _ _ _ (by leafdec) ?_
  refine iteM _ _ _ _ _ _ (by leafdec) ?_
  refine iteM _ _ _ _ _ _ (by leafdec) ?_
  refine iteM _ _ _ _ _ _ (by leafdec) ?_
  refine bmG2 _ _ _ _ _ (fun o => ?_)
  refine matchOptM _ _ _ _ _ _ (fun a' => ?_) ?_
  · leafsetdec f a'
  refine bmG _ _ _ _ (fun isIF => ?_)
  refine iteM _ _ _ _ _ _ ?_ ?_
  · exact tvSet_bind _ _ _ _ { b with cat := 84 } rfl _ _ (fun s' => rfl)
  refine bmG2 _ _ _ _ _ (fun av => ?_)
  simp only [toUpperCmp_L]
  refine iteM _ _ _ _ _ _ ?_ ?_
  · exact tvSet_bind _ _ _ _ { a with cat := 102 } rfl _ _ (fun s' => rfl)
  refine iteM _ _ _ _ _ _ ?_ ?_
  · exact tvSet_bind _ _ _ _ { a with cat := if b.cat == 40 then 111 else 110 } rfl _ _ (fun s' => rfl)
  refine iteM _ _ _ _ _ _ ?_ ?_
  · refine iteM _ _ _ _ _ _ ?_ rfl
    exact tvSet_bind _ _ _ _ { a with cat := 102 } rfl _ _ (fun s' => rfl)
  refine iteM _ _ _ _ _ _ (by leafsetdec f b) ?_
  refine iteM _ _ _ _ _ _ ?_ ?_
  · refine iteM _ _ _ _ _ _ ?_ rfl
    exact tvSet_bind _ _ _ _ { b with cat := 116 } rfl _ _ (fun s' => rfl)
  refine iteM _ _ _ _ _ _ ?_ ?_
  · refine bmG _ _ _ _ (fun ar => ?_)
    refine iteM _ _ _ _ _ _ ?_ (by leafsetdec f b)
    exact tvSet_bind _ _ _ _ { a with cat := 49 } rfl _ _ (fun s' => rfl)
  refine iteM _ _ _ _ _ _ (by leafdec) ?_
  refine iteM _ _ _ _ _ _ (by leafdec) ?_
  refine iteM _ _ _ _ _ _ ?_ ?_
  · refine iteM _ _ _ _ _ _ ?_ (by leafdec)
    exact tvSet_bind _ _ _ _ { b with cat := 88 } rfl _ _ (fun s' => rfl)
  refine iteM _ _ _ _ _ _ (by leafdec) ?_
  rfl

theorem special5_L (s : State) : special5 (lowerS s) = special5 s := by
  unfold special5
  simp only [tvGet_lower]
  cases tvGet s 0 <;> cases tvGet s 1 <;> cases tvGet s 2 <;> cases tvGet s 3 <;> cases tvGet s 4 <;> rfl

theorem foldSpecial_L (f : FS) : foldSpecial (lowerF f) = (foldSpecial f).map lowerF := by
  unfold foldSpecial
  simp only [lowerF_pos, lowerF_s, special5_L, tvGet_lower]
  refine iteM _ _ _ _ _ _ ?_ rfl
  refine bmG _ _ _ _ (fun b => ?_)
  refine iteM _ _ _ _ _ _ ?_ rfl
  refine iteM _ _ _ _ _ _ ?_ rfl
  refine bmG2 _ _ _ _ _ (fun t5 => ?_)
  exact tvSet_bind _ _ _ _ t5 rfl _ _ (fun s' => rfl)

theorem fetch_L (k : Nat) : ∀ (fuel : Nat) (f : FS), CaseOK f.s.input →
    fetch (lowerF f) k fuel = (fetch f k fuel).map lowerF
  | 0, _, _ => rfl
  | fuel + 1, f, hok => by
    unfold fetch
    simp only [lowerF_pos, lowerF_left, lowerF_more, lowerF_s]
    refine iteM _ _ _ _ _ _ ?_ rfl
    have e : tokenize { lowerS f.s with cur := f.pos } = mapTS (tokenize { f.s with cur := f.pos }) :=
      tokenize_L { f.s with cur := f.pos } hok
    rw [e]
    cases ht : tokenize { f.s with cur := f.pos } with
    | error e => rfl
    | ok p =>
      obtain ⟨more, s1⟩ := p
      have hin : s1.input = f.s.input := tokenize_input { f.s with cur := f.pos } _ _ ht
      simp only [mapTS, Except.map, ok_bind]
      cases more with
      | false =>
        simp only [Bool.false_eq_true, ↓reduceIte]
        exact fetch_L k fuel { f with s := s1, more := false } (by show CaseOK s1.input; rw [hin]; exact hok)
      | true =>
        simp only [↓reduceIte, lowerS_cur, tvGet_lower]
        cases hc : tvGet s1 s1.cur with
        | error e => rfl
        | ok cur =>
          simp only [Except.map, ok_bind, lowerTok_cat]
          by_cases h99 : (cur.cat == 99) = true
          · simp only [h99, ↓reduceIte]
            exact fetch_L k fuel { f with s := s1, more := true, lastComment := cur } (by show CaseOK s1.input; rw [hin]; exact hok)
          · simp only [h99, Bool.false_eq_true, ↓reduceIte]
            exact fetch_L k fuel { f with s := s1, more := true, lastComment := { f.lastComment with cat := 0 }, pos := f.pos + 1 }
              (by show CaseOK s1.input; rw [hin]; exact hok)

theorem foldBody_L (f : FS) (hf : FInv f) (hok : CaseOK f.s.input) :
    foldBody (lowerF f) = (foldBody f).map lowerStep := by
  unfold foldBody
  rw [foldSpecial_L]
  obtain ⟨f1, h1, hf1, hev1, _, _⟩ := foldSpecial_ok' f hf
  have hi1 : f1.s.input = f.s.input := hev1.1
  rw [h1]
  simp only [Except.map, ok_bind, lowerF_more, lowerF_left, lowerF_pos, lowerF_s, lowerS_input, L_length]
  refine iteM _ _ _ _ _ _ rfl ?_
  rw [fetch_L 2 _ f1 (by rw [hi1]; exact hok)]
  obtain ⟨f2, h2, hf2, _, _, hi2, _⟩ := fetch_ok' 2 _ f1 hf1 (fetch_fuel_ok f1)
  rw [h2]
  simp only [Except.map, ok_bind, lowerF_more, lowerF_left, lowerF_pos, lowerF_s, lowerS_input, L_length]
  by_cases c2 : f2.pos - f2.left < 2
  · simp only [c2, ↓reduceIte]; rfl
  simp only [c2, ↓reduceIte]
  rw [foldTwo_L]
  obtain ⟨r, hr, hrok, _⟩ := foldTwo_ok f2 hf2 (by omega)
  rw [hr]
  cases r with
  | done st => rfl
  | next f3 =>
    obtain ⟨hf3, hi3, _⟩ := hrok
    simp only [Except.map, ok_bind, lowerTwo, lowerF_s, lowerS_input, L_length]
    rw [fetch_L 3 _ f3 (by rw [hi3, hi2, hi1]; exact hok)]
    refine bmG2 _ _ _ _ _ (fun f4 => ?_)
    simp only [lowerF_left, lowerF_pos]
    refine iteM _ _ _ _ _ _ rfl ?_
    exact foldThree_L f4

def mapNF (r : M (Nat × FS)) : M (Nat × FS) := r.map (fun p => (p.1, lowerF p.2))
def mapNS (r : M (Nat × State)) : M (Nat × State) := r.map (fun p => (p.1, lowerS p.2))

theorem foldLoop_L : ∀ (fuel : Nat) (f : FS), FInv f → CaseOK f.s.input →
    foldLoop (lowerF f) fuel = mapNF (foldLoop f fuel)
  | 0, _, _, _ => rfl
  | fuel + 1, f, hf, hok => by
    unfold foldLoop
    rw [foldBody_L f hf hok]
    obtain ⟨st, hst, hbok⟩ := foldBody_ok f hf
    rw [hst]
    cases st with
    | cont f' =>
      simp only [Except.map, ok_bind, lowerStep]
      exact foldLoop_L fuel f' hbok.1 (by rw [hbok.2.1]; exact hok)
    | brk f' =>
      simp only [Except.map, ok_bind, lowerStep, lowerF_left, lowerF_lc, lowerTok_cat, lowerF_s]
      unfold mapNF
      refine bmG3 _ _ _ lowerF _ _ ?_ (fun f'' => rfl)
      refine iteM _ _ _ _ _ _ ?_ rfl
      exact tvSet_bind _ _ _ _ f'.lastComment rfl _ _ (fun s' => rfl)
    | ret n f' => rfl

theorem skipLoop_L : ∀ (fuel : Nat) (s : State), CaseOK s.input → skipLoop (lowerS s) fuel = mapTS (skipLoop s fuel)
  | 0, _, _ => rfl
  | fuel + 1, s, hok => by
    unfold skipLoop
    rw [tokenize_L s hok]
    cases ht : tokenize s with
    | error e => rfl
    | ok p =>
      obtain ⟨more, s1⟩ := p
      have hin : s1.input = s.input := tokenize_input _ _ _ ht
      simp only [mapTS, Except.map, ok_bind]
      cases more with
      | false => rfl
      | true =>
        simp only [Bool.not_true, Bool.false_eq_true, ↓reduceIte, lowerS_cur, tvGet_lower]
        cases hc : tvGet s1 s1.cur with
        | error e => rfl
        | ok cur =>
          simp only [Except.map, ok_bind, lowerTok_cat, isUnaryOp_lower]
          cases hg : (g (cur.cat == 99 || cur.cat == 40 || cur.cat == 116) <||> cur.isUnaryOp : M Bool) with
          | error e => rfl
          | ok b =>
            simp only [ok_bind]
            cases b with
            | false => rfl
            | true =>
              simp only [Bool.not_true, Bool.false_eq_true, ↓reduceIte]
              exact skipLoop_L fuel s1 (by rw [hin]; exact hok)

theorem fold_L (s : State) (hs : SInv s) (hz : ∀ j t, j ≠ 0 → s.tv[j]? = some t → t.cat = 0) (hok : CaseOK s.input) :
    fold (lowerS s) = mapNS (fold s) := by
  unfold fold
  have e : ∀ n, skipLoop { lowerS s with cur := 0 } n = mapTS (skipLoop { s with cur := 0 } n) :=
    fun n => skipLoop_L n { s with cur := 0 } hok
  obtain ⟨more, s1, h1, hs1, hi1, hc1, hpost⟩ := skipLoop_ok (s.input.length + 2) { s with cur := 0 }
    ⟨hs.1, hs.2.1, hs.2.2⟩ rfl hz (by show s.input.length - s.pos + 1 < s.input.length + 2; omega)
  dsimp only []
  rw [e, lowerS_input, L_length, h1]
  simp only [mapTS, Except.map, ok_bind]
  cases more with
  | false => rfl
  | true =>
    simp only [Bool.not_true, Bool.false_eq_true, ↓reduceIte, lowerS_input, L_length]
    have hf0 : FInv { s := s1, pos := 1, left := 0, more := true, lastComment := {} } :=
      ⟨hs1, Nat.zero_le _, by show 1 ≤ 6; omega, tokF_default⟩
    have hl := foldLoop_L (foldFuel s1.input.length) { s := s1, pos := 1, left := 0, more := true, lastComment := {} } hf0
      (by show CaseOK s1.input; rw [hi1]; exact hok)
    have e2 : lowerF { s := s1, pos := 1, left := 0, more := true, lastComment := {} } =
        { s := lowerS s1, pos := 1, left := 0, more := true, lastComment := {} } := rfl
    rw [e2] at hl
    rw [hl]
    unfold mapNF mapNS
    refine bmG2 _ _ _ _ _ (fun p => ?_)
    rfl

/-! ## fingerprint, whitelist, cascade -/

theorem L_idem (s : Bytes) : L (L s) = L s := by
  simp [L, List.map_map, Function.comp_def, lower_idem]

theorem lowerTok_idem (t : Token) : lowerTok (lowerTok t) = lowerTok t := by
  unfold lowerTok; simp only [L_idem]

theorem map_lowerTok_idem (l : List Token) : (l.map lowerTok).map lowerTok = l.map lowerTok := by
  rw [List.map_map]
  apply List.map_congr_left
  intro t _
  exact lowerTok_idem t

theorem lowerS_idem (s : State) : lowerS (lowerS s) = lowerS s := by
  unfold lowerS
  simp only [L_idem, map_lowerTok_idem]

theorem lowerS_fp (s : State) (fp : Bytes) :
    lowerS { lowerS s with fingerprint := fp } = lowerS { s with fingerprint := fp } := by
  unfold lowerS
  simp only [L_idem, map_lowerTok_idem]

theorem sqliInit_L (input : Bytes) (flags : Nat) : sqliInit (L input) flags = lowerS (sqliInit input flags) := rfl

theorem recatLast_L (s : State) (n : Nat) : recatLast (lowerS s) n = (recatLast s n).map lowerS := by
  unfold recatLast
  simp only [tvGet_lower]
  refine iteM _ _ _ _ _ _ ?_ rfl
  refine bmG2 _ _ _ _ _ (fun t => ?_)
  refine iteM _ _ _ _ _ _ ?_ rfl
  exact tvSet_lower' _ _ _ { t with cat := 99 } rfl

theorem buildFp_L (s : State) (n : Nat) : ∀ (fuel i : Nat) (acc : Bytes), buildFp (lowerS s) n i acc fuel = buildFp s n i acc fuel
  | 0, _, _ => rfl
  | fuel + 1, i, acc => by
    unfold buildFp
    simp only [tvGet_lower]
    split
    · cases tvGet s i with
      | error e => rfl
      | ok t =>
        simp only [Except.map, ok_bind, lowerTok_cat]
        by_cases h88 : (t.cat == 88) = true
        · simp only [h88, ↓reduceIte]
        · simp only [h88, Bool.false_eq_true, ↓reduceIte]
          exact buildFp_L s n fuel _ _
    · rfl

theorem fingerprint_L (input : Bytes) (flags : Nat) (hok : CaseOK input) :
    (fingerprint (L input) flags).map lowerS = (fingerprint input flags).map lowerS := by
  unfold fingerprint
  dsimp only []
  rw [sqliInit_L, fold_L _ (sinv_init input flags) (init_empty input flags) hok]
  cases fold (sqliInit input flags) with
  | error e => rfl
  | ok p =>
    obtain ⟨n, s1⟩ := p
    simp only [mapNS, Except.map, ok_bind, recatLast_L]
    cases recatLast s1 n with
    | error e => rfl
    | ok s2 =>
      simp only [Except.map, ok_bind, buildFp_L, tvGet_lower]
      cases buildFp s2 n 0 [] 8 with
      | error e => rfl
      | ok o =>
        simp only [ok_bind]
        cases o with
        | some fp =>
          show Except.ok (lowerS { lowerS s2 with fingerprint := fp }) = Except.ok (lowerS { s2 with fingerprint := fp })
          rw [lowerS_fp]
        | none =>
          simp only []
          cases tvGet s2 0 with
          | error e => rfl
          | ok t0 =>
            simp only [Except.map, ok_bind]
            unfold tvSet
            simp only [lowerS, List.length_map]
            by_cases hl : 0 < s2.tv.length
            · simp only [hl, ↓reduceIte, ok_bind, pure, Except.pure, Except.map, L_idem, List.map_set, map_lowerTok_idem]
              rfl
            · simp only [hl, ↓reduceIte]

theorem isPrefix_mono : ∀ (n h : Bytes), isPrefix n h = true → isPrefix (L n) (L h) = true
  | [], _, _ => by simp [isPrefix, L]
  | a :: n, [], hp => by simp [isPrefix] at hp
  | a :: n, b :: h, hp => by
    simp only [isPrefix, Bool.and_eq_true, beq_iff_eq] at hp
    show isPrefix (lowerAscii a :: L n) (lowerAscii b :: L h) = true
    simp only [isPrefix, Bool.and_eq_true, beq_iff_eq]
    exact ⟨by rw [hp.1], isPrefix_mono n h hp.2⟩

theorem contains_cons (b : UInt8) (h n : Bytes) : contains (b :: h) n = (isPrefix n (b :: h) || contains h n) := by
  unfold contains
  rw [indexOf]
  by_cases hp : isPrefix n (b :: h) = true
  · simp [hp]
  · simp [hp]

theorem contains_nil (n : Bytes) : contains [] n = isPrefix n [] := by
  unfold contains
  rw [indexOf]
  by_cases hp : isPrefix n [] = true
  · simp [hp]
  · simp [hp]

theorem contains_mono (n : Bytes) : ∀ (h : Bytes), contains h n = true → contains (L h) (L n) = true
  | [], hc => by
    rw [contains_nil] at hc
    have := isPrefix_mono n [] hc
    show contains [] (L n) = true
    rw [contains_nil]; exact this
  | b :: h, hc => by
    rw [contains_cons, Bool.or_eq_true] at hc
    show contains (lowerAscii b :: L h) (L n) = true
    rw [contains_cons, Bool.or_eq_true]
    rcases hc with hc | hc
    · left; exact isPrefix_mono n (b :: h) hc
    · right; exact contains_mono n h hc

theorem spPassword_L : L spPassword = spPassword := by decide +kernel

theorem no_sp (input : Bytes) (h : contains (L input) spPassword = false) : contains input spPassword = false := by
  cases hc : contains input spPassword with
  | false => rfl
  | true =>
    have := contains_mono spPassword input hc
    rw [spPassword_L, h] at this
    cases this

theorem le32_L (c : UInt8) : (decide (lowerAscii c ≤ 32)) = decide (c ≤ 32) :=
  byteFact (fun c => decide (c ≤ 32)) (by decide +kernel) c

theorem wlNumComment_L (s : State) (t0 : Token) : wlNumComment (lowerS s) (lowerTok t0) = wlNumComment s t0 := by
  unfold wlNumComment
  simp only [lowerS_toks, lowerS_input, lowerTok_len, at'_L, byteIs_L s.input _ 42 (by decide), byteIs_L s.input _ 45 (by decide)]
  split
  · rfl
  · refine beq2 _ _ _ _ (fun ch => ?_)
    have e := le32_L ch
    simp only [decide_eq_decide] at e
    simp only [e, nl 47 (by decide), nl 45 (by decide)]

theorem wlTwo_L (s : State) (fp : Bytes) : wlTwo (lowerS s) fp = wlTwo s fp := by
  unfold wlTwo
  simp only [tvGet_lower, lowerS_toks]
  refine beq2 _ _ _ _ (fun t0 => ?_)
  refine beq2 _ _ _ _ (fun t1 => ?_)
  simp only [lowerTok_val, lowerTok_cat, lowerTok_len, at'_L, wlNumComment_L]
  split
  · rfl
  · refine beq2 _ _ _ _ (fun v0 => ?_)
    simp only [nl 35 (by decide), nl_ne 47 (by decide), nl 45 (by decide)]
    rfl

theorem wlInto_L (t1 : Token) : wlInto (lowerTok t1) = wlInto t1 := by
  unfold wlInto
  simp only [lowerTok_cat, lowerTok_len, lowerTok_val, slice_LS]
  split
  · split
    · rfl
    · refine beq2 _ _ _ _ (fun v => ?_)
      simp only [toUpperCmp_L]
  · rfl

theorem wlThree_L (s : State) (fp : Bytes) : wlThree (lowerS s) fp = wlThree s fp := by
  unfold wlThree
  simp only [tvGet_lower, lowerS_toks]
  refine beq2 _ _ _ _ (fun t0 => ?_)
  refine beq2 _ _ _ _ (fun t1 => ?_)
  refine beq2 _ _ _ _ (fun t2 => ?_)
  simp only [wlInto_L]
  rfl

theorem notWhitelist_L (s : State) (h : contains (L s.input) spPassword = false) :
    notWhitelist (lowerS s) = notWhitelist s := by
  unfold notWhitelist
  have e1 : (lowerS s).fingerprint = s.fingerprint := rfl
  simp only [e1, lowerS_input, h, no_sp s.input h, wlTwo_L, wlThree_L]

theorem checkFingerprint_L (s : State) (h : contains (L s.input) spPassword = false) :
    checkFingerprint (lowerS s) = checkFingerprint s := by
  unfold checkFingerprint
  have e1 : blacklist (lowerS s) = blacklist s := rfl
  rw [e1, notWhitelist_L s h]

/-- what `pass` observes of the final state -/
def passK (s : State) : M (Bool × Bytes × Bool) := do
  return (← checkFingerprint s, s.fingerprint, reparseAsMySQL s)

theorem pass_eq (input : Bytes) (flags : Nat) : pass input flags = (fingerprint input flags >>= passK) := rfl

theorem passK_L (s : State) (h : contains (L s.input) spPassword = false) : passK (lowerS s) = passK s := by
  unfold passK
  rw [checkFingerprint_L s h]
  rfl

theorem pass_L (input : Bytes) (flags : Nat) (hok : CaseOK input) (hsp : contains (L input) spPassword = false) :
    pass (L input) flags = pass input flags := by
  rw [pass_eq, pass_eq]
  have hfp := fingerprint_L input flags hok
  obtain ⟨sa, ha, hia, _⟩ := fingerprint_ok (L input) flags
  obtain ⟨sb, hb, hib, _⟩ := fingerprint_ok input flags
  rw [ha, hb] at hfp
  have hl : lowerS sa = lowerS sb := by
    have : Except.ok (lowerS sa) = (Except.ok (lowerS sb) : M State) := hfp
    exact Except.ok.inj this
  rw [ha, hb]
  show passK sa = passK sb
  rw [← passK_L sa (by rw [hia, L_idem]; exact hsp), ← passK_L sb (by rw [hib]; exact hsp), hl]

theorem isSQLi_L (input : Bytes) (hok : CaseOK input) (hsp : contains (L input) spPassword = false) :
    isSQLi (L input) = isSQLi input := by
  unfold isSQLi
  simp only [L_length, pass_L input _ hok hsp, indexByte_L 39 (nonLetter_of 39 (by decide)),
    indexByte_L 34 (nonLetter_of 34 (by decide))]

theorem lower_eq_nl (k x : UInt8) (hk : (isLowerAscii k || isUpperAscii k) = false) (h : lowerAscii x = k) : x = k := by
  have := nl k hk x
  rw [h] at this
  simpa using this.symm

theorem caseOK_of_lower (s s' : Bytes) (heq : L s = L s')
    (h1 : ∀ i : Nat, s[i]? = some (92 : UInt8) → s[i+1]? ≠ some (78 : UInt8) ∧ s[i+1]? ≠ some (110 : UInt8))
    (h2 : ∀ i : Nat, s[i]? = some (36 : UInt8) → ∀ c, s[i+1]? = some c → isLetter c = false)
    (h3 : ∀ i : Nat, (s[i]? = some (113 : UInt8) ∨ s[i]? = some (81 : UInt8)) → s[i+1]? = some (39 : UInt8) →
      ∀ c, s[i+2]? = some c → isLetter c = false) :
    CaseOK s' := by
  have hget : ∀ i : Nat, (s[i]?).map lowerAscii = (s'[i]?).map lowerAscii := by
    intro i; rw [← L_get, ← L_get, heq]
  refine ⟨?_, ?_, ?_⟩
  · intro i hi hi1
    have g0 := hget i
    have g1 := hget (i + 1)
    rw [hi] at g0; rw [hi1] at g1
    cases hs0 : s[i]? with
    | none => rw [hs0] at g0; cases g0
    | some x =>
      rw [hs0] at g0
      have hx : x = 92 := lower_eq_nl 92 x (by decide) (Option.some.inj g0)
      cases hs1 : s[i+1]? with
      | none => rw [hs1] at g1; cases g1
      | some y =>
        rw [hs1] at g1
        have hy : lowerAscii y = 110 := Option.some.inj g1
        have hy2 : y = 78 ∨ y = 110 := by
          have := forall_byte (fun c => !(lowerAscii c == 110) || (c == 78 || c == 110)) (by decide +kernel) y
          simpa [hy] using this
        have := h1 i (by rw [hs0, hx])
        rw [hs1] at this
        rcases hy2 with rfl | rfl
        · exact this.1 rfl
        · exact this.2 rfl
  · intro i hi c hc
    have g0 := hget i
    have g1 := hget (i + 1)
    rw [hi] at g0; rw [hc] at g1
    cases hs0 : s[i]? with
    | none => rw [hs0] at g0; cases g0
    | some x =>
      rw [hs0] at g0
      have hx : x = 36 := lower_eq_nl 36 x (by decide) (Option.some.inj g0)
      cases hs1 : s[i+1]? with
      | none => rw [hs1] at g1; cases g1
      | some y =>
        rw [hs1] at g1
        have hy : lowerAscii y = lowerAscii c := Option.some.inj g1
        have := h2 i (by rw [hs0, hx]) y hs1
        rw [← q_letter c, ← hy, q_letter y]
        exact this
  · intro i hi hi1 c hc
    have g0 := hget i
    have g1 := hget (i + 1)
    have g2 := hget (i + 2)
    rw [hi1] at g1; rw [hc] at g2
    cases hs1 : s[i+1]? with
    | none => rw [hs1] at g1; cases g1
    | some y =>
      rw [hs1] at g1
      have hy : y = 39 := lower_eq_nl 39 y (by decide) (Option.some.inj g1)
      cases hs0 : s[i]? with
      | none => rw [hs0] at g0; rcases hi with h | h <;> rw [h] at g0 <;> cases g0
      | some x =>
        rw [hs0] at g0
        have hx : lowerAscii x = 113 := by
          rcases hi with h | h <;> rw [h] at g0 <;> exact Option.some.inj g0
        have hx2 : x = 113 ∨ x = 81 := by
          have := forall_byte (fun c => !(lowerAscii c == 113) || (c == 113 || c == 81)) (by decide +kernel) x
          simpa [hx] using this
        cases hs2 : s[i+2]? with
        | none => rw [hs2] at g2; cases g2
        | some z =>
          rw [hs2] at g2
          have hz : lowerAscii z = lowerAscii c := Option.some.inj g2
          have := h3 i (by rw [hs0]; rcases hx2 with rfl | rfl; exact Or.inl rfl; exact Or.inr rfl) (by rw [hs1, hy]) z hs2
          rw [← q_letter c, ← hz, q_letter z]
          exact this

/-- executable form of `CaseOK` -/
def caseOKAt (inp : Bytes) (i : Nat) : Bool :=
  (inp[i]? != some 92 || inp[i+1]? != some 78) &&
  (inp[i]? != some 36 || (inp[i+1]?).all (fun c => !isLetter c)) &&
  (!(inp[i]? == some 113 || inp[i]? == some 81) || inp[i+1]? != some 39 || (inp[i+2]?).all (fun c => !isLetter c))

def caseOKb (inp : Bytes) : Bool := (List.range inp.length).all (caseOKAt inp)

theorem caseOKb_sound (inp : Bytes) (h : caseOKb inp = true) : CaseOK inp := by
  have hat : ∀ i : Nat, inp[i]? ≠ none → caseOKAt inp i = true := by
    intro i hi
    unfold caseOKb at h
    rw [List.all_eq_true] at h
    apply h
    rw [List.mem_range]
    rcases Nat.lt_or_ge i inp.length with hlt | hge
    · exact hlt
    · exact absurd (List.getElem?_eq_none hge) hi
  refine ⟨?_, ?_, ?_⟩
  · intro i hi hi1
    have := hat i (by rw [hi]; simp)
    unfold caseOKAt at this
    simp [hi, hi1] at this
  · intro i hi c hc
    have := hat i (by rw [hi]; simp)
    unfold caseOKAt at this
    simp [hi, hc] at this
    exact this
  · intro i hi hi1 c hc
    have := hat i (by rcases hi with h | h <;> rw [h] <;> simp)
    unfold caseOKAt at this
    rcases hi with h | h <;> simp [h, hi1, hc] at this <;> exact this

end LibInj.Sqli
