import LibInj.Html5.Machine
import LibInj.Proofs.Index
set_option linter.unusedSimpArgs false
set_option linter.unusedVariables false
/-! Totality, bounds and progress of every HTML5 state function (C02, C17). -/
namespace LibInj.H5
open LibInj

theorem at'_ok {s : Bytes} {i : Nat} (h : i < s.length) : at' s i = .ok s[i] := by
  simp [at', List.getElem?_eq_getElem h]

theorem offFrom_ok {s : Bytes} {i : Nat} (h : i ≤ s.length) : offFrom s i = .ok i := by
  simp [offFrom, h]

theorem getElem?_some_lt {s : Bytes} {i : Nat} {c : UInt8} (h : s[i]? = some c) : i < s.length := by
  rcases Nat.lt_or_ge i s.length with h' | h'
  · exact h'
  · simp [List.getElem?_eq_none h'] at h

/-- a state leaves `pos` unadvanced only when it hands over to one of these -/
def Resting (st : St) : Prop := st = .eof ∨ st = .tagNameClose

/-- state-dependent facts the next step relies on: `selfClosing`/`tagOpen` are entered after a byte
was consumed (they look at `pos-1`), `tagNameClose` is entered at a `>` inside the input, and the three
quoted-value start states are initial states only -/
def StOK (h : H) : Prop :=
  (h.state = .selfClosing → 1 ≤ h.pos) ∧ (h.state = .tagOpen → 1 ≤ h.pos) ∧
  (h.state = .tagNameClose → h.pos < h.s.length) ∧
  h.state ≠ .valSingle ∧ h.state ≠ .valDouble ∧ h.state ≠ .valBack

/-- postcondition shared by all state functions: no error; the input is untouched; `pos` stays inside
and never moves back; an emitted token lies inside the input; an emitting step either advances `pos`
or hands over to a state of lower rank (`eof`, `tagNameClose`). -/
def Good (h : H) (r : M (Bool × H)) : Prop :=
  ∃ b h', r = .ok (b, h') ∧ h'.s = h.s ∧ h'.pos ≤ h.s.length ∧ h.pos ≤ h'.pos ∧
    (b = true → h'.tokStart + h'.tokLen ≤ h.s.length ∧ h'.tokStart ≤ h'.tokStart + h'.tokLen ∧
      (h.pos < h'.pos ∨ Resting h'.state) ∧ StOK h')

macro "fin_good" : tactic =>
  `(tactic| (refine ⟨true, _, rfl, ?_⟩; simp [emit, Resting, StOK] <;> omega))

theorem Good.mono {h0 h : H} {r : M (Bool × H)} (hs : h.s = h0.s) (hp : h0.pos ≤ h.pos) (g : Good h r) : Good h0 r := by
  obtain ⟨b, h', hr, h1, h2, h3, h4⟩ := g
  refine ⟨b, h', hr, by rw [h1, hs], by rw [← hs]; exact h2, by omega, fun hb => ?_⟩
  obtain ⟨a1, a2, a3, a4⟩ := h4 hb
  refine ⟨by rw [← hs]; exact a1, a2, ?_, a4⟩
  rcases a3 with a3 | a3
  · left; omega
  · right; exact a3

/-- as `mono`, but the caller has itself consumed at least one byte -/
theorem Good.mono_lt {h0 h : H} {r : M (Bool × H)} (hs : h.s = h0.s) (hp : h0.pos < h.pos) (g : Good h r) : Good h0 r := by
  obtain ⟨b, h', hr, h1, h2, h3, h4⟩ := g
  refine ⟨b, h', hr, by rw [h1, hs], by rw [← hs]; exact h2, by omega, fun hb => ?_⟩
  obtain ⟨a1, a2, a3, a4⟩ := h4 hb
  exact ⟨by rw [← hs]; exact a1, a2, Or.inl (by omega), a4⟩

/-- as `Good`, but an emitting step may also leave `pos` where it is and hand over to `data`
(only `stateTagOpen` does: the `<` it re-emits as text was consumed by the preceding `stateData`) -/
def GoodT (h : H) (r : M (Bool × H)) : Prop :=
  ∃ b h', r = .ok (b, h') ∧ h'.s = h.s ∧ h'.pos ≤ h.s.length ∧ h.pos ≤ h'.pos ∧
    (b = true → h'.tokStart + h'.tokLen ≤ h.s.length ∧ h'.tokStart ≤ h'.tokStart + h'.tokLen ∧
      (h.pos < h'.pos ∨ Resting h'.state ∨ h'.state = .data) ∧ StOK h')

theorem Good.toT {h : H} {r : M (Bool × H)} (g : Good h r) : GoodT h r := by
  obtain ⟨b, h', hr, h1, h2, h3, h4⟩ := g
  refine ⟨b, h', hr, h1, h2, h3, fun hb => ?_⟩
  obtain ⟨a1, a2, a3, a4⟩ := h4 hb
  exact ⟨a1, a2, by rcases a3 with a3 | a3; exact Or.inl a3; exact Or.inr (Or.inl a3), a4⟩

theorem GoodT.mono_lt {h0 h : H} {r : M (Bool × H)} (hs : h.s = h0.s) (hp : h0.pos < h.pos) (g : GoodT h r) : Good h0 r := by
  obtain ⟨b, h', hr, h1, h2, h3, h4⟩ := g
  refine ⟨b, h', hr, by rw [h1, hs], by rw [← hs]; exact h2, by omega, fun hb => ?_⟩
  obtain ⟨a1, a2, a3, a4⟩ := h4 hb
  exact ⟨by rw [← hs]; exact a1, a2, Or.inl (by omega), a4⟩

theorem stateBogusComment_good (h : H) (hp : h.pos ≤ h.s.length) : Good h (stateBogusComment h) := by
  unfold stateBogusComment
  simp only [offFrom_ok hp, bind, Except.bind, pure, Except.pure]
  split
  · fin_good
  · rename_i i hi
    have := indexByte_lt hi
    simp at this
    fin_good

theorem stateDoctype_good (h : H) (hp : h.pos ≤ h.s.length) : Good h (stateDoctype h) := by
  unfold stateDoctype
  simp only [offFrom_ok hp, bind, Except.bind, pure, Except.pure]
  split
  · fin_good
  · rename_i i hi
    have := indexByte_lt hi
    simp at this
    fin_good

theorem stateTagNameClose_good (h : H) (hp : h.pos < h.s.length) :
    ∃ h', stateTagNameClose h = .ok (true, h') ∧ h'.s = h.s ∧ h'.pos = h.pos + 1 ∧ h'.tokStart = h.pos ∧ h'.tokLen = 1 := by
  unfold stateTagNameClose
  simp only [offFrom_ok (Nat.le_of_lt hp), bind, Except.bind, pure, Except.pure]
  exact ⟨_, rfl, rfl, rfl, rfl, rfl⟩

theorem bogus2Loop_good (h : H) (hp : h.pos ≤ h.s.length) :
    ∀ fuel pos, h.pos ≤ pos → pos ≤ h.s.length → h.s.length - pos < fuel → Good h (bogus2Loop h pos fuel) := by
  intro fuel
  induction fuel with
  | zero => intro pos _ _ hf; omega
  | succ fuel ih =>
    intro pos h1 h2 hf
    unfold bogus2Loop
    simp only [offFrom_ok h2, offFrom_ok hp, bind, Except.bind, pure, Except.pure]
    cases hi : indexByte (h.s.drop pos) 37 with
    | none => fin_good
    | some index =>
      have hlt := indexByte_lt hi
      simp at hlt
      simp only []
      split
      · fin_good
      · rename_i hg
        rw [at'_ok (by omega : pos + index + 1 < h.s.length)]
        simp only []
        split
        · exact ih (pos + index + 1) (by omega) (by omega) (by omega)
        · fin_good

theorem stateBogusComment2_good (h : H) (hp : h.pos ≤ h.s.length) : Good h (stateBogusComment2 h) :=
  bogus2Loop_good h hp _ _ (Nat.le_refl _) hp (by omega)

theorem cdataLoop_good (h : H) (hp : h.pos ≤ h.s.length) :
    ∀ fuel pos, h.pos ≤ pos → pos ≤ h.s.length → h.s.length - pos < fuel → Good h (cdataLoop h pos fuel) := by
  intro fuel
  induction fuel with
  | zero => intro pos _ _ hf; omega
  | succ fuel ih =>
    intro pos h1 h2 hf
    unfold cdataLoop
    simp only [offFrom_ok h2, offFrom_ok hp, bind, Except.bind, pure, Except.pure]
    cases hi : indexByte (h.s.drop pos) 93 with
    | none => fin_good
    | some index =>
      have hlt := indexByte_lt hi
      simp at hlt
      simp only []
      split
      · fin_good
      · rename_i hg
        have h3 : pos + index + 2 < h.s.length := by omega
        rw [at'_ok (by omega : pos + index + 1 < h.s.length)]
        simp only []
        by_cases hc1 : h.s[pos + index + 1] = 93
        · simp only [hc1, beq_self_eq_true, ite_true, at'_ok h3]
          by_cases hc2 : h.s[pos + index + 2] = 62
          · have : (h.s[pos + index + 2] == 62) = true := by simp [hc2]
            simp only [this, ite_true]
            fin_good
          · have : (h.s[pos + index + 2] == 62) = false := by simpa using hc2
            simp only [this, Bool.false_eq_true, ite_false]
            exact ih (pos + index + 1) (by omega) (by omega) (by omega)
        · have : (h.s[pos + index + 1] == 93) = false := by simpa using hc1
          simp only [this, Bool.false_eq_true, ite_false]
          exact ih (pos + index + 1) (by omega) (by omega) (by omega)

theorem stateCData_good (h : H) (hp : h.pos ≤ h.s.length) : Good h (stateCData h) :=
  cdataLoop_good h hp _ _ (Nat.le_refl _) hp (by omega)

theorem commentLoop_good (h : H) (hp : h.pos ≤ h.s.length) :
    ∀ fuel pos, h.pos ≤ pos → pos ≤ h.s.length → h.s.length - pos < fuel → Good h (commentLoop h pos fuel) := by
  intro fuel
  induction fuel with
  | zero => intro pos _ _ hf; omega
  | succ fuel ih =>
    intro pos h1 h2 hf
    unfold commentLoop
    simp only [offFrom_ok h2, offFrom_ok hp, bind, Except.bind, pure, Except.pure]
    have eofGood : Good h (Except.ok (true, { h with state := .eof, tokStart := h.pos, tokLen := h.s.length - h.pos, tokType := .tagComment })) := by
      fin_good
    cases hi : indexByte (h.s.drop pos) 45 with
    | none => exact eofGood
    | some index =>
      have hlt := indexByte_lt hi
      simp at hlt
      simp only []
      split
      · exact eofGood
      · rename_i hg
        have hn := spn_le isNul (h.s.drop (pos + index + 1))
        simp at hn
        generalize spn isNul (h.s.drop (pos + index + 1)) = nulls at hn ⊢
        split
        · exact eofGood
        · rename_i he1
          have hb1 : pos + index + (1 + nulls) < h.s.length := by
            have : ¬ (pos + index + (1 + nulls) = h.s.length) := by simpa using he1
            omega
          rw [at'_ok hb1]
          simp only []
          split
          · exact ih (pos + index + 1) (by omega) (by omega) (by omega)
          · split
            · exact eofGood
            · rename_i he2
              have hb2 : pos + index + (1 + nulls + 1) < h.s.length := by
                have : ¬ (pos + index + (1 + nulls + 1) = h.s.length) := by simpa using he2
                omega
              rw [at'_ok hb2]
              simp only []
              split
              · exact ih (pos + index + 1) (by omega) (by omega) (by omega)
              · fin_good

theorem stateComment_good (h : H) (hp : h.pos ≤ h.s.length) : Good h (stateComment h) :=
  commentLoop_good h hp _ _ (Nat.le_refl _) hp (by omega)

theorem stateMarkupDeclarationOpen_good (h : H) (hp : h.pos ≤ h.s.length) :
    Good h (stateMarkupDeclarationOpen h) := by
  unfold stateMarkupDeclarationOpen
  simp only []
  split
  · exact stateDoctype_good h hp
  · split
    · rename_i _ hc
      have h7 : h.s.length - h.pos ≥ 7 := by
        simp only [Bool.and_eq_true, decide_eq_true_eq] at hc; exact hc.1
      exact Good.mono (h := { h with pos := h.pos + 7 }) rfl (by simp) (stateCData_good _ (by simp; omega))
    · split
      · rename_i _ _ hc
        have h2 : h.s.length - h.pos ≥ 2 := by
          simp only [Bool.and_eq_true, decide_eq_true_eq] at hc; exact hc.1
        exact Good.mono (h := { h with pos := h.pos + 2 }) rfl (by simp) (stateComment_good _ (by simp; omega))
      · exact stateBogusComment_good h hp

theorem stateTagName_good (h : H) (hp : h.pos < h.s.length) : Good h (stateTagName h) := by
  unfold stateTagName
  simp only [offFrom_ok (Nat.le_of_lt hp), bind, Except.bind, pure, Except.pure]
  have hs := spn_le tagNameByte (h.s.drop h.pos)
  generalize spn tagNameByte (h.s.drop h.pos) = n at hs ⊢
  simp at hs
  split
  · fin_good
  · rename_i ch hch
    have := getElem?_some_lt hch
    split
    · fin_good
    · split
      · fin_good
      · split
        · fin_good
        · fin_good

theorem stateAttributeName_good (h : H) (hp : h.pos < h.s.length) : Good h (stateAttributeName h) := by
  unfold stateAttributeName
  simp only [offFrom_ok (Nat.le_of_lt hp), bind, Except.bind, pure, Except.pure]
  have hs := spn_le attrNameByte (h.s.drop (h.pos + 1))
  generalize spn attrNameByte (h.s.drop (h.pos + 1)) = n at hs ⊢
  simp at hs
  split
  · fin_good
  · rename_i ch hch
    have := getElem?_some_lt hch
    repeat' split
    all_goals (fin_good)

theorem stateAttributeValueNoQuote_good (h : H) (hp : h.pos ≤ h.s.length) : Good h (stateAttributeValueNoQuote h) := by
  unfold stateAttributeValueNoQuote
  simp only [offFrom_ok hp, bind, Except.bind, pure, Except.pure]
  have hs := spn_le noQuoteByte (h.s.drop h.pos)
  generalize spn noQuoteByte (h.s.drop h.pos) = n at hs ⊢
  simp at hs
  split
  · fin_good
  · rename_i ch hch
    have := getElem?_some_lt hch
    split
    · fin_good
    · fin_good

theorem stateAttributeValueQuote_good (q : UInt8) (h : H) (hp : h.pos < h.s.length ∨ h.pos = 0) :
    Good h (stateAttributeValueQuote q h) := by
  unfold stateAttributeValueQuote
  by_cases h0 : h.pos > 0
  · have hlt : h.pos < h.s.length := by rcases hp with hp | hp <;> omega
    simp only [h0, ↓reduceIte, offFrom_ok (show h.pos + 1 ≤ h.s.length by omega), bind, Except.bind, pure, Except.pure]
    split
    · fin_good
    · rename_i i hi
      have := indexByte_lt hi
      simp at this
      fin_good
  · have hz : h.pos = 0 := by omega
    simp only [h0, ↓reduceIte, offFrom_ok (show h.pos ≤ h.s.length by omega), bind, Except.bind, pure, Except.pure]
    split
    · fin_good
    · rename_i i hi
      have := indexByte_lt hi
      simp at this
      fin_good

/-- `skipWhite` only moves forward, stays inside, and reports the byte at the new position -/
theorem skipWhite_spec (h : H) (hp : h.pos ≤ h.s.length) :
    (skipWhite h).1.s = h.s ∧ h.pos ≤ (skipWhite h).1.pos ∧ (skipWhite h).1.pos ≤ h.s.length ∧
    (skipWhite h).2 = h.s[(skipWhite h).1.pos]? ∧ (skipWhite h).1.state = h.state := by
  unfold skipWhite
  have hs := spn_le isSkipWhite (h.s.drop h.pos)
  simp at hs
  simp
  omega

theorem stateBeforeAttributeValue_good (h : H) (hp : h.pos ≤ h.s.length) : Good h (stateBeforeAttributeValue h) := by
  unfold stateBeforeAttributeValue
  obtain ⟨e1, e2, e3, e4, e5⟩ := skipWhite_spec h hp
  generalize skipWhite h = sw at e1 e2 e3 e4 e5 ⊢
  obtain ⟨h1, ch⟩ := sw
  simp only at e1 e2 e3 e4 e5 ⊢
  cases ch with
  | none => refine ⟨false, _, rfl, ?_⟩; simp [e1]; omega
  | some c =>
    have hlt : h1.pos < h1.s.length := by rw [e1]; exact getElem?_some_lt e4.symm
    have hq : ∀ q, Good h (stateAttributeValueQuote q h1) :=
      fun q => Good.mono e1 e2 (stateAttributeValueQuote_good q h1 (Or.inl hlt))
    simp only []
    split
    · exact hq _
    · split
      · exact hq _
      · split
        · exact hq _
        · exact Good.mono e1 e2 (stateAttributeValueNoQuote_good h1 (Nat.le_of_lt hlt))

/-- the slash-skipping loop only moves forward and stays inside; when it reports a slash the byte at the
new position is `>` or the input has ended; otherwise it reports the byte at the new position -/
theorem banLoop_spec (h : H) (hp : h.pos ≤ h.s.length) :
    ∀ fuel, h.s.length - h.pos < fuel →
      ∃ h' ch slash, banLoop h fuel = .ok (h', ch, slash) ∧ h'.s = h.s ∧ h.pos ≤ h'.pos ∧ h'.pos ≤ h.s.length ∧
        (slash = true → (h.pos < h'.pos ∧ (h'.pos = h.s.length ∨ h.s[h'.pos]? = some 62))) ∧
        (slash = false → ch = h.s[h'.pos]? ∧ (ch = none ∨ ch ≠ some 47)) := by
  intro fuel
  induction fuel generalizing h with
  | zero => intro hf; omega
  | succ fuel ih =>
    intro hf
    unfold banLoop
    by_cases hlt : h.pos < h.s.length
    · simp only [hlt, ↓reduceIte]
      obtain ⟨e1, e2, e3, e4, e5⟩ := skipWhite_spec h hp
      generalize skipWhite h = sw at e1 e2 e3 e4 e5 ⊢
      obtain ⟨h1, ch⟩ := sw
      simp only at e1 e2 e3 e4 e5 ⊢
      cases ch with
      | none => exact ⟨h1, none, false, rfl, e1, e2, e3, by simp, by simp [e4]⟩
      | some c =>
        have hlt1 : h1.pos < h.s.length := getElem?_some_lt e4.symm
        simp only []
        by_cases hc : c = 47
        · subst hc
          simp only [beq_self_eq_true, ↓reduceIte]
          cases hn : h1.s[h1.pos + 1]? with
          | none =>
            have : h1.pos + 1 ≥ h.s.length := by
              rcases Nat.lt_or_ge (h1.pos + 1) h1.s.length with h' | h'
              · simp [List.getElem?_eq_getElem h'] at hn
              · rw [e1] at h'; exact h'
            refine ⟨{ h1 with pos := h1.pos + 1 }, some 47, true, by simp [hn], e1, by simp; omega, by simp; omega, ?_, by simp⟩
            intro _; simp; omega
          | some c2 =>
            have hlt2 : h1.pos + 1 < h.s.length := by rw [← e1]; exact getElem?_some_lt hn
            by_cases hc2 : c2 = 62
            · subst hc2
              refine ⟨{ h1 with pos := h1.pos + 1 }, some 47, true, by simp [hn], e1, by simp; omega, by simp; omega, ?_, by simp⟩
              intro _; simp; rw [← e1]; exact ⟨by omega, Or.inr hn⟩
            · have hne : (c2 != 62) = true := by simpa using hc2
              simp only [hn, hne, ↓reduceIte]
              obtain ⟨h', ch', sl, hr, a1, a2, a3, a4, a5⟩ := ih { h1 with pos := h1.pos + 1 } (by simp; rw [e1]; omega) (by simp; rw [e1]; omega)
              simp at a1 a2 a3 a4 a5
              refine ⟨h', ch', sl, hr, by rw [a1, e1], by omega, by rw [← e1]; exact a3, ?_, ?_⟩
              · intro hs; have := a4 hs; rw [e1] at this; exact ⟨by omega, this.2⟩
              · intro hs; have := a5 hs; rw [e1] at this; exact this
        · have hne : (c == 47) = false := by simpa using hc
          simp only [hne, Bool.false_eq_true, ↓reduceIte]
          refine ⟨h1, some c, false, rfl, e1, e2, e3, by simp, ?_⟩
          intro _; exact ⟨e4, Or.inr (by simpa using hc)⟩
    · simp only [hlt, ↓reduceIte]
      have : h.pos = h.s.length := by omega
      refine ⟨h, none, false, rfl, rfl, Nat.le_refl _, hp, by simp, ?_⟩
      intro _; simp [List.getElem?_eq_none (show h.s.length ≤ h.pos by omega)]

theorem SC_base (d : Nat) (h : H) (hp : h.pos ≤ h.s.length) (h1 : 1 ≤ h.pos)
    (hgt : h.pos ≥ h.s.length ∨ h.s[h.pos]? = some 62) : Good h (stateSelfClosingStartTag (d + 1) h) := by
  unfold stateSelfClosingStartTag
  by_cases hge : h.pos ≥ h.s.length
  · simp only [hge, ↓reduceIte, pure, Except.pure]
    refine ⟨false, h, rfl, rfl, hp, Nat.le_refl _, by simp⟩
  · have hlt : h.pos < h.s.length := by omega
    have hc : h.s[h.pos] = 62 := by
      rcases hgt with hgt | hgt
      · omega
      · simpa [List.getElem?_eq_getElem hlt] using hgt
    have h0 : ¬ (h.pos = 0) := by omega
    simp only [hge, ↓reduceIte, at'_ok hlt, hc, beq_self_eq_true, h0, bind, Except.bind, pure, Except.pure]
    fin_good

theorem BAN_good (d : Nat) (h : H) (hp : h.pos ≤ h.s.length) : Good h (stateBeforeAttributeName (d + 2) h) := by
  unfold stateBeforeAttributeName
  obtain ⟨h', ch, slash, hr, a1, a2, a3, a4, a5⟩ := banLoop_spec h hp (h.s.length + 1) (by omega)
  simp only [hr, bind, Except.bind]
  cases slash with
  | true =>
    simp only [↓reduceIte]
    obtain ⟨b1, b2⟩ := a4 rfl
    have := SC_base d h' (by rw [a1]; exact a3) (by omega) (by
      rcases b2 with b2 | b2
      · left; rw [a1]; omega
      · right; rw [a1]; exact b2)
    exact Good.mono_lt a1 b1 this
  | false =>
    simp only [Bool.false_eq_true, ↓reduceIte]
    obtain ⟨c1, c2⟩ := a5 rfl
    cases ch with
    | none => refine ⟨false, h', rfl, a1, a3, a2, by simp⟩
    | some c =>
      have hlt : h'.pos < h.s.length := getElem?_some_lt c1.symm
      simp only []
      split
      · simp only [offFrom_ok (show h'.pos ≤ h'.s.length by rw [a1]; omega), bind, Except.bind, pure, Except.pure]
        refine ⟨true, _, rfl, ?_⟩
        simp [emit, Resting, StOK, a1]; omega
      · exact Good.mono a1 a2 (stateAttributeName_good h' (by rw [a1]; exact hlt))

theorem SC_good (d : Nat) (h : H) (hp : h.pos ≤ h.s.length) (h1 : 1 ≤ h.pos) :
    Good h (stateSelfClosingStartTag (d + 3) h) := by
  unfold stateSelfClosingStartTag
  by_cases hge : h.pos ≥ h.s.length
  · simp only [hge, ↓reduceIte, pure, Except.pure]
    refine ⟨false, h, rfl, rfl, hp, Nat.le_refl _, by simp⟩
  · have hlt : h.pos < h.s.length := by omega
    simp only [hge, ↓reduceIte, at'_ok hlt, bind, Except.bind, pure, Except.pure]
    split
    · have h0 : ¬ (h.pos = 0) := by omega
      simp only [h0, ↓reduceIte]
      fin_good
    · exact BAN_good d h hp

theorem stateAfterAttributeName_good (h : H) (hp : h.pos ≤ h.s.length) : Good h (stateAfterAttributeName h) := by
  unfold stateAfterAttributeName
  obtain ⟨e1, e2, e3, e4, e5⟩ := skipWhite_spec h hp
  generalize skipWhite h = sw at e1 e2 e3 e4 e5 ⊢
  obtain ⟨h1, ch⟩ := sw
  simp only at e1 e2 e3 e4 e5 ⊢
  cases ch with
  | none => refine ⟨false, _, rfl, ?_⟩; simp [e1]; omega
  | some c =>
    have hlt : h1.pos < h.s.length := getElem?_some_lt e4.symm
    simp only []
    split
    · exact Good.mono_lt (h := { h1 with pos := h1.pos + 1 }) e1 (by simp; omega)
        (SC_good 1 _ (by simp; rw [e1]; omega) (by simp))
    · split
      · exact Good.mono_lt (h := { h1 with pos := h1.pos + 1 }) e1 (by simp; omega)
          (stateBeforeAttributeValue_good _ (by simp; rw [e1]; omega))
      · split
        · obtain ⟨h', hr, b1, b2, b3, b4⟩ := stateTagNameClose_good h1 (by rw [e1]; exact hlt)
          refine ⟨true, h', hr, by rw [b1, e1], by rw [b2]; omega, by omega, fun _ => ?_⟩
          refine ⟨by rw [b3, b4]; omega, by omega, Or.inl (by omega), ?_⟩
          unfold stateTagNameClose at hr
          simp only [offFrom_ok (show h1.pos ≤ h1.s.length by rw [e1]; omega), bind, Except.bind, pure, Except.pure,
            Except.ok.injEq, Prod.mk.injEq, true_and] at hr
          subst hr
          simp [StOK]
          split <;> simp
        · exact Good.mono e1 e2 (stateAttributeName_good h1 (by rw [e1]; exact hlt))

theorem stateAfterAttributeValueQuotedState_good (h : H) (hp : h.pos ≤ h.s.length) :
    Good h (stateAfterAttributeValueQuotedState h) := by
  unfold stateAfterAttributeValueQuotedState
  by_cases hge : h.pos ≥ h.s.length
  · simp only [hge, ↓reduceIte, pure, Except.pure]
    refine ⟨false, h, rfl, rfl, hp, Nat.le_refl _, by simp⟩
  · have hlt : h.pos < h.s.length := by omega
    simp only [hge, ↓reduceIte, at'_ok hlt, bind, Except.bind, pure, Except.pure]
    split
    · exact Good.mono_lt (h := { h with pos := h.pos + 1 }) rfl (by simp) (BAN_good 2 _ (by simp; omega))
    · split
      · exact Good.mono_lt (h := { h with pos := h.pos + 1 }) rfl (by simp) (SC_good 1 _ (by simp; omega) (by simp))
      · split
        · simp only [offFrom_ok hp, bind, Except.bind, pure, Except.pure]
          fin_good
        · exact BAN_good 2 h hp

/-- `stateData` when the next byte is not `<` (no call into `stateTagOpen`) -/
theorem stateData_noLT (d : Nat) (h : H) (hp : h.pos ≤ h.s.length) (hne : h.s[h.pos]? ≠ some 60) :
    Good h (stateData (d + 1) h) := by
  unfold stateData
  simp only [offFrom_ok hp, bind, Except.bind, pure, Except.pure]
  cases hi : indexByte (h.s.drop h.pos) 60 with
  | none =>
    simp only []
    refine ⟨_, _, rfl, by simp, by simp; omega, by simp, ?_⟩
    intro _
    simp [Resting, StOK]; omega
  | some i =>
    have hlt := indexByte_lt hi
    simp at hlt
    have hi0 : i ≠ 0 := by
      intro h0; subst h0
      have := ((indexByte_some_iff _ _ _).mp hi).1
      simp at this
      exact hne (by simpa using this)
    have : (i == 0) = false := by simpa using hi0
    simp only [this, Bool.false_eq_true, ↓reduceIte]
    fin_good

theorem stateEndTagOpen_good (d : Nat) (h : H) (hp : h.pos ≤ h.s.length) : Good h (stateEndTagOpen (d + 2) h) := by
  unfold stateEndTagOpen
  by_cases hge : h.pos ≥ h.s.length
  · simp only [hge, ↓reduceIte, pure, Except.pure]
    refine ⟨false, h, rfl, rfl, hp, Nat.le_refl _, by simp⟩
  · have hlt : h.pos < h.s.length := by omega
    simp only [hge, ↓reduceIte, at'_ok hlt, bind, Except.bind, pure, Except.pure]
    split
    · rename_i hc
      have hc' : h.s[h.pos] = 62 := by simpa using hc
      exact stateData_noLT d h hp (by simp [List.getElem?_eq_getElem hlt, hc'])
    · split
      · exact stateTagName_good h hlt
      · exact Good.mono (h := { h with isClose := false }) rfl (Nat.le_refl _) (stateBogusComment_good _ hp)

/-- `stateTagOpen` after at least one consumed byte -/
theorem stateTagOpen_pos (d : Nat) (h : H) (hp : h.pos ≤ h.s.length) (h1 : 1 ≤ h.pos) :
    GoodT h (stateTagOpen (d + 3) h) := by
  unfold stateTagOpen
  by_cases hge : h.pos ≥ h.s.length
  · simp only [hge, ↓reduceIte, pure, Except.pure]
    exact Good.toT ⟨false, h, rfl, rfl, hp, Nat.le_refl _, by simp⟩
  · have hlt : h.pos < h.s.length := by omega
    simp only [hge, ↓reduceIte, at'_ok hlt, bind, Except.bind, pure, Except.pure]
    split
    · exact (Good.mono_lt (h0 := h) (h := { h with pos := h.pos + 1 }) rfl (by simp) (stateMarkupDeclarationOpen_good _ (by simp; omega))).toT
    · split
      · exact (Good.mono_lt (h0 := h) (h := { h with pos := h.pos + 1, isClose := true }) rfl (by simp)
          (stateEndTagOpen_good d _ (by simp; omega))).toT
      · split
        · exact (Good.mono_lt (h0 := h) (h := { h with pos := h.pos + 1 }) rfl (by simp) (stateBogusComment_good _ (by simp; omega))).toT
        · split
          · exact (Good.mono_lt (h0 := h) (h := { h with pos := h.pos + 1 }) rfl (by simp) (stateBogusComment2_good _ (by simp; omega))).toT
          · split
            · exact (stateTagName_good h hlt).toT
            · split
              · exact (stateTagName_good h hlt).toT
              · have h0 : (h.pos == 0) = false := by simp; omega
                simp only [h0, Bool.false_eq_true, ↓reduceIte]
                refine ⟨true, _, rfl, ?_⟩
                simp [emit, StOK, Resting]
                omega

theorem stateData_good (d : Nat) (h : H) (hp : h.pos ≤ h.s.length) : Good h (stateData (d + 4) h) := by
  unfold stateData
  simp only [offFrom_ok hp, bind, Except.bind, pure, Except.pure]
  cases hi : indexByte (h.s.drop h.pos) 60 with
  | none =>
    simp only []
    refine ⟨_, _, rfl, by simp, by simp; omega, by simp, ?_⟩
    intro _
    simp [Resting, StOK]; omega
  | some i =>
    have hlt := indexByte_lt hi
    simp at hlt
    simp only []
    split
    · exact GoodT.mono_lt (h0 := h) (h := emit h h.pos i .dataText (h.pos + i + 1) .tagOpen) rfl (by simp [emit]; omega)
        (stateTagOpen_pos d _ (by simp [emit]; omega) (by simp [emit]))
    · fin_good

/-- `stateTagOpen` at any position (depth 5 is enough: at most `tagOpen → data → tagOpen → endTagOpen → data`) -/
theorem stateTagOpen_good (d : Nat) (h : H) (hp : h.pos ≤ h.s.length) : GoodT h (stateTagOpen (d + 5) h) := by
  by_cases h1 : 1 ≤ h.pos
  · exact stateTagOpen_pos (d + 2) h hp h1
  · have h0 : h.pos = 0 := by omega
    unfold stateTagOpen
    by_cases hge : h.pos ≥ h.s.length
    · simp only [hge, ↓reduceIte, pure, Except.pure]
      exact Good.toT ⟨false, h, rfl, rfl, hp, Nat.le_refl _, by simp⟩
    · have hlt : h.pos < h.s.length := by omega
      simp only [hge, ↓reduceIte, at'_ok hlt, bind, Except.bind, pure, Except.pure]
      split
      · exact (Good.mono_lt (h0 := h) (h := { h with pos := h.pos + 1 }) rfl (by simp) (stateMarkupDeclarationOpen_good _ (by simp; omega))).toT
      · split
        · exact (Good.mono_lt (h0 := h) (h := { h with pos := h.pos + 1, isClose := true }) rfl (by simp)
            (stateEndTagOpen_good (d + 2) _ (by simp; omega))).toT
        · split
          · exact (Good.mono_lt (h0 := h) (h := { h with pos := h.pos + 1 }) rfl (by simp) (stateBogusComment_good _ (by simp; omega))).toT
          · split
            · exact (Good.mono_lt (h0 := h) (h := { h with pos := h.pos + 1 }) rfl (by simp) (stateBogusComment2_good _ (by simp; omega))).toT
            · split
              · exact (stateTagName_good h hlt).toT
              · split
                · exact (stateTagName_good h hlt).toT
                · have hz : (h.pos == 0) = true := by simp [h0]
                  simp only [hz, ↓reduceIte]
                  exact (stateData_good d h hp).toT

/-! ## The dispatcher, progress measure, and totality of the token loop -/

/-- what `next` relies on about the state it is entered in -/
def Inv (h : H) : Prop :=
  h.pos ≤ h.s.length ∧ (h.state = .selfClosing → 1 ≤ h.pos) ∧ (h.state = .tagNameClose → h.pos < h.s.length) ∧
  ((h.state = .valSingle ∨ h.state = .valDouble ∨ h.state = .valBack) → h.pos = 0)

theorem init_inv (s : Bytes) (ctx : Nat) : Inv (init s ctx) := by
  unfold init Inv
  simp
  split <;> simp

def rank : St → Nat
  | .eof => 0
  | .tagNameClose => 1
  | .data => 2
  | _ => 3

/-- progress measure: lexicographic in (bytes left, rank of the state) -/
def mu (h : H) : Nat := 3 * (h.s.length - h.pos) + rank h.state

/-- the advancing form of `Good`: an emitting step strictly advances `pos` -/
def GoodAdv (h : H) (r : M (Bool × H)) : Prop :=
  ∃ h', r = .ok (true, h') ∧ h'.s = h.s ∧ h'.pos ≤ h.s.length ∧ h.pos < h'.pos ∧
    h'.tokStart + h'.tokLen ≤ h.s.length ∧ StOK h'

theorem next_cases (h : H) (hi : Inv h) :
    (h.state = .eof ∧ next h = .ok (false, h)) ∨
    (h.state = .tagNameClose ∧ GoodAdv h (next h)) ∨
    (h.state = .tagOpen ∧ GoodT h (next h)) ∨
    (rank h.state ≥ 2 ∧ Good h (next h)) := by
  obtain ⟨hp, i1, i2, i3⟩ := hi
  unfold next
  split
  · rename_i hs; exact Or.inl ⟨hs, rfl⟩
  · rename_i hs; exact Or.inr (Or.inr (Or.inr ⟨by simp [hs, rank], stateData_good 2 h hp⟩))
  · rename_i hs; exact Or.inr (Or.inr (Or.inl ⟨hs, stateTagOpen_good 1 h hp⟩))
  · rename_i hs; exact Or.inr (Or.inr (Or.inr ⟨by simp [hs, rank], BAN_good 2 h hp⟩))
  · rename_i hs; exact Or.inr (Or.inr (Or.inr ⟨by simp [hs, rank], SC_good 1 h hp (i1 hs)⟩))
  · rename_i hs
    refine Or.inr (Or.inl ⟨hs, ?_⟩)
    obtain ⟨h', hr, b1, b2, b3, b4⟩ := stateTagNameClose_good h (i2 hs)
    refine ⟨h', hr, b1, by rw [b2]; have := i2 hs; omega, by omega, by rw [b3, b4]; have := i2 hs; omega, ?_⟩
    unfold stateTagNameClose at hr
    simp only [offFrom_ok hp, bind, Except.bind, pure, Except.pure, Except.ok.injEq, Prod.mk.injEq, true_and] at hr
    subst hr
    simp [StOK]
    split <;> simp
  · rename_i hs; exact Or.inr (Or.inr (Or.inr ⟨by simp [hs, rank], stateAfterAttributeName_good h hp⟩))
  · rename_i hs; exact Or.inr (Or.inr (Or.inr ⟨by simp [hs, rank], stateBeforeAttributeValue_good h hp⟩))
  · rename_i hs; exact Or.inr (Or.inr (Or.inr ⟨by simp [hs, rank], stateAfterAttributeValueQuotedState_good h hp⟩))
  · rename_i hs; exact Or.inr (Or.inr (Or.inr ⟨by simp [hs, rank], stateAttributeValueQuote_good 39 h (Or.inr (i3 (Or.inl hs)))⟩))
  · rename_i hs; exact Or.inr (Or.inr (Or.inr ⟨by simp [hs, rank], stateAttributeValueQuote_good 34 h (Or.inr (i3 (Or.inr (Or.inl hs))))⟩))
  · rename_i hs; exact Or.inr (Or.inr (Or.inr ⟨by simp [hs, rank], stateAttributeValueQuote_good 96 h (Or.inr (i3 (Or.inr (Or.inr hs))))⟩))

theorem rank_le (st : St) : rank st ≤ 3 := by cases st <;> simp [rank]

theorem inv_of_stOK (h h' : H) (hs : h'.s = h.s) (hp : h'.pos ≤ h.s.length) (ho : StOK h') : Inv h' := by
  obtain ⟨o1, o2, o3, o4, o5, o6⟩ := ho
  refine ⟨by rw [hs]; exact hp, o1, o3, ?_⟩
  rintro (hv | hv | hv)
  · exact absurd hv o4
  · exact absurd hv o5
  · exact absurd hv o6

theorem mu_lt (h h' : H) (hs : h'.s = h.s) (hp' : h'.pos ≤ h.s.length) (hle : h.pos ≤ h'.pos)
    (hcase : (h.pos < h'.pos ∧ 1 ≤ rank h.state) ∨ (rank h'.state < rank h.state)) : mu h' < mu h := by
  unfold mu
  rw [hs]
  have := rank_le h'.state
  omega

/-- **`next` is total, stays inside the input, and makes progress**: it never errs; when it emits a
token the token lies inside the input, the progress measure strictly decreases, and the invariant
is re-established; when it does not emit, the token loop stops. -/
theorem next_spec (h : H) (hi : Inv h) :
    ∃ b h', next h = .ok (b, h') ∧ h'.s = h.s ∧
      (b = true → mu h' < mu h ∧ Inv h' ∧ h'.tokStart + h'.tokLen ≤ h.s.length ∧ h.pos ≤ h'.pos) := by
  have hpos := hi.1
  rcases next_cases h hi with ⟨hs, hr⟩ | ⟨hs, g⟩ | ⟨hs, g⟩ | ⟨hs, g⟩
  · exact ⟨false, h, hr, rfl, by simp⟩
  · obtain ⟨h', hr, a1, a2, a3, a4, a5⟩ := g
    refine ⟨true, h', hr, a1, fun _ => ⟨?_, inv_of_stOK h h' a1 a2 a5, a4, by omega⟩⟩
    exact mu_lt h h' a1 a2 (by omega) (Or.inl ⟨a3, by rw [hs]; simp [rank]⟩)
  · obtain ⟨b, h', hr, a1, a2, a3, a4⟩ := g
    refine ⟨b, h', hr, a1, fun hb => ?_⟩
    obtain ⟨c1, c2, c3, c4⟩ := a4 hb
    refine ⟨?_, inv_of_stOK h h' a1 a2 c4, c1, a3⟩
    have hr3 : rank h.state = 3 := by rw [hs]; rfl
    apply mu_lt h h' a1 a2 a3
    rcases c3 with c3 | c3 | c3
    · exact Or.inl ⟨c3, by omega⟩
    · right; rcases c3 with c3 | c3 <;> (rw [c3, hr3]; simp [rank])
    · right; rw [c3, hr3]; simp [rank]
  · obtain ⟨b, h', hr, a1, a2, a3, a4⟩ := g
    refine ⟨b, h', hr, a1, fun hb => ?_⟩
    obtain ⟨c1, c2, c3, c4⟩ := a4 hb
    refine ⟨?_, inv_of_stOK h h' a1 a2 c4, c1, a3⟩
    apply mu_lt h h' a1 a2 a3
    rcases c3 with c3 | c3
    · exact Or.inl ⟨c3, by omega⟩
    · right
      have e0 : rank St.eof = 0 := rfl
      have e1 : rank St.tagNameClose = 1 := rfl
      rcases c3 with c3 | c3 <;> (rw [c3]; omega)

/-- every emitted token lies inside the input, offsets never decrease, and the loop returns -/
def TokOK (n : Nat) (ts : List Tok) : Prop := ∀ t ∈ ts, t.off + t.len ≤ n

theorem tokensLoop_total (h : H) (hi : Inv h) :
    ∀ fuel, mu h < fuel → ∃ ts, tokensLoop h fuel = .ok ts ∧ TokOK h.s.length ts ∧ ts.length ≤ mu h := by
  intro fuel
  induction fuel generalizing h with
  | zero => intro hf; omega
  | succ fuel ih =>
    intro hf
    unfold tokensLoop
    obtain ⟨b, h', hr, hs, hb⟩ := next_spec h hi
    simp only [hr, bind, Except.bind, pure, Except.pure]
    cases b with
    | false => exact ⟨[], rfl, by simp [TokOK], by simp⟩
    | true =>
      obtain ⟨hmu, hinv, htok, _⟩ := hb rfl
      obtain ⟨ts, hts, hok, hlen⟩ := ih h' hinv (by omega)
      simp only [↓reduceIte, hts]
      refine ⟨_, rfl, ?_, by simp; omega⟩
      intro t ht
      rcases List.mem_cons.mp ht with rfl | ht
      · simpa using htok
      · have := hok t ht; rw [hs] at this; exact this

/-- **C02/C17 (tokenizer part).** From every start context the tokenizer returns (no index or slice
error, no fuel or depth exhaustion with recursion depths 4 and 6 and loop fuel `3|s|+4`), every token
lies inside the input, and there are at most `3|s|+3` of them. -/
theorem tokens_total (s : Bytes) (ctx : Nat) :
    ∃ ts, tokens s ctx = .ok ts ∧ TokOK s.length ts ∧ ts.length ≤ 3 * s.length + 3 := by
  unfold tokens
  have hi := init_inv s ctx
  have hs : (init s ctx).s = s := by unfold init; rfl
  have hp : (init s ctx).pos = 0 := by unfold init; rfl
  have hmu : mu (init s ctx) ≤ 3 * s.length + 3 := by
    unfold mu; rw [hs, hp]; have := rank_le (init s ctx).state; omega
  obtain ⟨ts, h1, h2, h3⟩ := tokensLoop_total (init s ctx) hi (tokFuel s.length) (by unfold tokFuel; omega)
  exact ⟨ts, h1, by rw [hs] at h2; exact h2, by omega⟩

end LibInj.H5
