import LibInj.Proofs.StringCore
import LibInj.Sqli.Lexers
import LibInj.Proofs.Index
set_option linter.unusedSimpArgs false
/-! Oracle q-strings and PostgreSQL dollar strings end at the first occurrence of their terminator. -/
namespace LibInj.Sqli
open LibInj LibInj.Spec

theorem tokenSize_eq : tokenSize = 32 := rfl

/-- **Oracle q-string** `q'<b>body`: for *every* delimiter byte `b >= 33` (all 223 of them) the literal
ends at the first occurrence of `close(b)` followed by a quote; otherwise it runs to end of input. -/
theorem qstring_spec (qc b : UInt8) (hq : qc = 113 ∨ qc = 81) (hb : 33 ≤ b) (body : Bytes) :
    parseQStringCore (qc :: 39 :: b :: body) 0 = .ok (
      match indexOf body [qClose b, 39] with
      | none => { tok := { cat := 115, pos := 3, len := clip body.length, val := body.take (clip body.length),
                           strOpen := 113, strClose := 0 }, next := 3 + body.length }
      | some i => { tok := { cat := 115, pos := 3, len := clip i, val := body.take (clip i),
                             strOpen := 113, strClose := 113 }, next := 3 + i + 2 }) := by
  have hb' : (b < 33) = False := by simp; exact hb
  have hqc : (qc != 113 && qc != 81) = false := by rcases hq with rfl | rfl <;> decide
  unfold parseQStringCore
  simp only [List.length_cons, at', sliceFrom, bind, Except.bind, pure, Except.pure,
    List.getElem?_cons_zero, List.getElem?_cons_succ, Nat.zero_add, hqc, Bool.false_eq_true, ↓reduceIte,
    show ¬ (0 ≥ body.length + 1 + 1 + 1) by omega, show ¬ (0 + 2 ≥ body.length + 1 + 1 + 1) by omega,
    bne_self_eq_false, hb', List.drop_succ_cons, List.drop_zero,
    show 0 + 3 ≤ body.length + 1 + 1 + 1 by omega]
  cases hi : indexOf body [qClose b, 39] with
  | none =>
    simp only []
    have e : body.length + 1 + 1 + 1 - 0 - 3 = body.length := by omega
    rw [e, assign_ok _ _ _ _ _ (by have := clip_le body.length; omega)]
    simp
    omega
  | some i =>
    have := indexOf_le hi
    simp only []
    rw [assign_ok _ _ _ _ _ (by have := clip_le i; omega)]

end LibInj.Sqli

namespace LibInj.Sqli
open LibInj LibInj.Spec

theorem spn_append_stop (p : UInt8 → Bool) (l : Bytes) (c : UInt8) (r : Bytes)
    (hl : l.all p = true) (hc : p c = false) : spn p (l ++ c :: r) = l.length := by
  induction l with
  | nil => simp [spn, hc]
  | cons x xs ih =>
    simp only [List.all_cons, Bool.and_eq_true] at hl
    simp [spn, hl.1, ih hl.2]

/-- **`$$body`**: the literal ends at the first `$$`. -/
theorem dollar_dollar_spec (body : Bytes) :
    parseMoney (36 :: 36 :: body) = .ok (
      match indexOf body [36, 36] with
      | none => { tok := { cat := 115, pos := 2, len := clip body.length, val := body.take (clip body.length),
                           strOpen := 36, strClose := 0 }, next := 2 + body.length }
      | some i => { tok := { cat := 115, pos := 2, len := clip i, val := body.take (clip i),
                             strOpen := 36, strClose := 36 }, next := 2 + i + 2 }) := by
  have h36 : isMoneyChar 36 = false := by decide
  unfold parseMoney
  simp only [List.length_cons, at', sliceFrom, bind, Except.bind, pure, Except.pure,
    List.getElem?_cons_zero, List.getElem?_cons_succ, List.drop_succ_cons, List.drop_zero, spn, h36,
    Bool.false_eq_true, ↓reduceIte, beq_self_eq_true,
    show ¬ ((1 == body.length + 1 + 1) = true) by simp,
    show 1 ≤ body.length + 1 + 1 by omega, show 2 ≤ body.length + 1 + 1 by omega]
  cases hi : indexOf body [36, 36] with
  | none =>
    simp only []
    have e : body.length + 1 + 1 - 2 = body.length := by omega
    rw [e, assign_ok _ _ _ _ _ (by have := clip_le body.length; omega)]
    simp
    omega
  | some i =>
    have := indexOf_le hi
    simp only []
    rw [assign_ok _ _ _ _ _ (by have := clip_le i; omega)]

theorem isLetter_not_money (c : UInt8) (h : isLetter c = true) : isMoneyChar c = false := by
  cases hm : isMoneyChar c with
  | false => rfl
  | true =>
    simp [isMoneyChar, mem, moneyChars] at hm
    rcases hm with h1|h1|h1|h1|h1|h1|h1|h1|h1|h1|h1|h1 <;> (subst h1; revert h; decide)
theorem isLetter_ne_36 (c : UInt8) (h : isLetter c = true) : (c == 36) = false := by
  cases hm : c == 36 with
  | false => rfl
  | true => have : c = 36 := by simpa using hm
            subst this; revert h; decide

/-- **`$tag$body`** (tag a non-empty run of ASCII letters): the literal ends at the first repetition
of `$tag$`. -/
theorem dollar_tag_spec (t0 : UInt8) (tag body : Bytes) (h0 : isLetter t0 = true) (ht : tag.all isLetter = true) :
    parseMoney (36 :: t0 :: (tag ++ 36 :: body)) = .ok (
      let opener : Bytes := 36 :: t0 :: (tag ++ [36])
      match indexOf body opener with
      | none => { tok := { cat := 115, pos := opener.length, len := clip body.length, val := body.take (clip body.length),
                           strOpen := 36, strClose := 0 }, next := opener.length + body.length }
      | some i => { tok := { cat := 115, pos := opener.length, len := clip i, val := body.take (clip i),
                             strOpen := 36, strClose := 36 }, next := opener.length + i + opener.length }) := by
  have hm : isMoneyChar t0 = false := isLetter_not_money t0 h0
  have hne : (t0 == 36) = false := isLetter_ne_36 t0 h0
  have hl36 : isLetter 36 = false := by decide
  have hx : spn isLetter (t0 :: (tag ++ 36 :: body)) = tag.length + 1 := by
    have := spn_append_stop isLetter (t0 :: tag) 36 body (by simp [h0, ht]) hl36
    simpa using this
  have hmoney : spn isMoneyChar (t0 :: (tag ++ 36 :: body)) = 0 := by simp [spn, hm]
  have hlen : (36 :: t0 :: (tag ++ 36 :: body)).length = tag.length + body.length + 3 := by simp; omega
  have hget : (36 :: t0 :: (tag ++ 36 :: body))[tag.length + 1 + 1]? = some 36 := by
    simp [List.getElem?_append_right]
  have hdrop : (36 :: t0 :: (tag ++ 36 :: body)).drop (tag.length + 1 + 2) = body := by
    simp [List.drop_append]
  have htake : (36 :: t0 :: (tag ++ 36 :: body)).take (tag.length + 1 + 2 - 0) = 36 :: t0 :: (tag ++ [36]) := by
    simp [List.take_append, List.take_of_length_le]
  have hdrop2 : (tag ++ 36 :: body).drop (tag.length + 1) = body := by
    simp [List.drop_append]
  unfold parseMoney
  simp only [hlen, at', sliceFrom, slice, bind, Except.bind, pure, Except.pure,
    List.getElem?_cons_zero, List.getElem?_cons_succ, List.drop_succ_cons, List.drop_zero, hmoney, hx, hne,
    Bool.false_eq_true, ↓reduceIte, beq_self_eq_true,
    show ¬ ((1 == tag.length + body.length + 3) = true) by simp,
    show 1 ≤ tag.length + body.length + 3 by omega,
    show ¬ ((tag.length + 1 == 0) = true) by simp,
    show ¬ ((tag.length + 1 + 1 == tag.length + body.length + 3) = true) by simp; omega,
    g, byteNe, hget, HOrElse.hOrElse, OrElse.orElse, bne_self_eq_false, Bool.or_false,
    show tag.length + 1 + 2 ≤ tag.length + body.length + 3 by omega,
    show (0 ≤ tag.length + 1 + 2 ∧ tag.length + 1 + 2 ≤ tag.length + body.length + 3) by omega]
  simp only [htake, hdrop2, orM, toBool, bind, Except.bind, pure, Except.pure, Bool.false_eq_true, ↓reduceIte, and_self]
  cases hi : indexOf body (36 :: t0 :: (tag ++ [36])) with
  | none =>
    simp only []
    have e : tag.length + body.length + 3 - (tag.length + 1) - 2 = body.length := by omega
    rw [e, assign_ok _ _ _ _ _ (by have := clip_le body.length; omega)]
    simp
    omega
  | some i =>
    have := indexOf_le hi
    simp only []
    rw [assign_ok _ _ _ _ _ (by have := clip_le i; omega)]
    simp
    omega

end LibInj.Sqli
