import LibInj.Proofs.KwFacts
set_option linter.unusedSimpArgs false
/-! Table fact used by `fold`'s `merge`: a key that contains a space (a phrase such as `GROUP BY`) never
has the class of a number (`1`), a backslash (`\`) or a comment (`c`). Re-checked by the kernel
against the regenerated table on every build. -/
namespace LibInj.Sqli
open LibInj LibInj.Tables

def phraseOK (e : Entry) : Bool :=
  !(Nat.beq e.2.2 49 || Nat.beq e.2.2 92 || Nat.beq e.2.2 99) || noByte 32 e.1 e.2.1

set_option maxRecDepth 200000 in
theorem keywords_phraseOK : Gen.keywords.all phraseOK = true := by decide +kernel

theorem keyNat_append (w : Bytes) (c : UInt8) : keyNat (w ++ [c]) = keyNat w * 256 + c.toNat := by
  simp [keyNat, List.foldl_append]

theorem noByte_keyNat_rev : ∀ (r : Bytes), (32 : UInt8) ∈ r → noByte 32 r.length (keyNat r.reverse) = false
  | [], h => by cases h
  | c :: r', h => by
    have hc : c.toNat < 256 := c.toNat_lt
    simp only [List.reverse_cons, keyNat_append, List.length_cons, noByte]
    have e1 : (keyNat r'.reverse * 256 + c.toNat) % 256 = c.toNat := by omega
    have e2 : (keyNat r'.reverse * 256 + c.toNat) / 256 = keyNat r'.reverse := by omega
    rw [e1, e2]
    rcases List.mem_cons.mp h with h32 | h32
    · subst h32; rfl
    · rw [noByte_keyNat_rev r' h32]; simp

theorem noByte_keyNat (w : Bytes) (h : (32 : UInt8) ∈ w) : noByte 32 w.length (keyNat w) = false := by
  have := noByte_keyNat_rev w.reverse (by simpa using h)
  simpa using this

theorem upper32 : upperAscii 32 = 32 := by decide

theorem mem32_goUpper : ∀ (n : Nat) (w : Bytes), w.length ≤ n → (32 : UInt8) ∈ w → (32 : UInt8) ∈ goUpper w := by
  intro n
  induction n with
  | zero => intro w hl h; have : w = [] := List.eq_nil_of_length_eq_zero (by omega); subst this; cases h
  | succ n ih =>
    intro w hl h
    match w, hl, h with
    | [], _, h => cases h
    | [c], _, h =>
      have : c = 32 := by simp at h; exact h.symm
      subst this; decide
    | c :: d :: t, hl, h =>
      by_cases h1 : c = 0xC4 ∧ d = 0xB1
      · obtain ⟨rfl, rfl⟩ := h1
        have ht : (32 : UInt8) ∈ t := by
          rcases List.mem_cons.mp h with h | h
          · exact absurd h (by decide)
          · rcases List.mem_cons.mp h with h | h
            · exact absurd h (by decide)
            · exact h
        simp only [goUpper]
        exact List.mem_cons_of_mem _ (ih t (by simp at hl; omega) ht)
      · by_cases h2 : c = 0xC5 ∧ d = 0xBF
        · obtain ⟨rfl, rfl⟩ := h2
          have ht : (32 : UInt8) ∈ t := by
            rcases List.mem_cons.mp h with h | h
            · exact absurd h (by decide)
            · rcases List.mem_cons.mp h with h | h
              · exact absurd h (by decide)
              · exact h
          simp only [goUpper]
          exact List.mem_cons_of_mem _ (ih t (by simp at hl; omega) ht)
        · have hg : goUpper (c :: d :: t) = upperAscii c :: goUpper (d :: t) := by
            rw [goUpper.eq_def]
            split
            · rename_i heq; cases heq
            · rename_i heq; simp only [List.cons.injEq] at heq; exact absurd ⟨heq.1, heq.2.1⟩ h1
            · rename_i heq; simp only [List.cons.injEq] at heq; exact absurd ⟨heq.1, heq.2.1⟩ h2
            · rename_i heq; simp only [List.cons.injEq] at heq; rw [heq.1, heq.2]
          rw [hg]
          rcases List.mem_cons.mp h with h | h
          · rw [← h, upper32]; exact List.mem_cons_self
          · exact List.mem_cons_of_mem _ (ih (d :: t) (by simp at hl ⊢; omega) h)

/-- **a phrase is never a number, a backslash or a comment** -/
theorem searchKeyword_phrase (w : Bytes) (h : (32 : UInt8) ∈ w) :
    searchKeyword w ≠ 49 ∧ searchKeyword w ≠ 92 ∧ searchKeyword w ≠ 99 := by
  rw [searchKeyword_eq]; unfold searchKeywordSpec
  simp only []
  cases hl : lookupKw (goUpper w).length (keyNat (goUpper w)) with
  | none => simp only []; decide
  | some v =>
    simp only []
    have hm := lookupIn_some_mem _ _ _ _ hl
    have hv := List.all_eq_true.mp keywords_valOK _ hm
    have hp := List.all_eq_true.mp keywords_phraseOK _ hm
    simp only [valOK, Bool.and_eq_true, Nat.blt_eq] at hv
    have hv128 : v < 128 := hv.1.1.1
    simp only [phraseOK, Bool.or_eq_true, Bool.not_eq_true'] at hp
    have hnb := noByte_keyNat (goUpper w) (mem32_goUpper w.length w (Nat.le_refl _) h)
    rcases hp with hp | hp
    · simp only [Bool.or_eq_false_iff] at hp
      obtain ⟨⟨p1, p2⟩, p3⟩ := hp
      have q1 : v ≠ 49 := fun e => by rw [e] at p1; exact absurd p1 (by decide)
      have q2 : v ≠ 92 := fun e => by rw [e] at p2; exact absurd p2 (by decide)
      have q3 : v ≠ 99 := fun e => by rw [e] at p3; exact absurd p3 (by decide)
      have conv : ∀ k : Nat, k < 128 → v.toUInt8 = k.toUInt8 → v = k := by
        intro k hk e
        have := congrArg UInt8.toNat e
        simp at this
        omega
      exact ⟨fun e => q1 (conv 49 (by omega) e), fun e => q2 (conv 92 (by omega) e), fun e => q3 (conv 99 (by omega) e)⟩
    · rw [hp] at hnb; cases hnb

end LibInj.Sqli
