import LibInj.Proofs.XssShift
import LibInj.Proofs.H5Term
import LibInj.Proofs.H5Ins
set_option linter.unusedSimpArgs false
set_option linter.unusedVariables false
/-! C04, markup forms for arbitrary content: after any `<`-free text, `<!doctype…` in any letter case followed by
anything; and a `<? … >` / `<! … >` / `<!-- … -->` / `<% … %>` construct whose text carries one of the markers the
classifier looks for (a back-tick anywhere, `[if`, `xml`, `import`, `entity` at its start, in any case) are
reported, whatever follows. -/
namespace LibInj.Xss
open LibInj LibInj.H5

/-- what the comment tests of `isXSS` look for in the text `T` of a comment-like token -/
def Marker (T : Bytes) : Prop :=
  T.contains 96 = true ∨
  (∃ c1 c2 c3 T', T = 91 :: c1 :: c2 :: c3 :: T' ∧ goUpper [c1, c2] = IF_) ∨
  (∃ c0 c1 c2 c3 T', T = c0 :: c1 :: c2 :: c3 :: T' ∧ goUpper [c0, c1, c2] = XML) ∨
  (∃ c0 c1 c2 c3 c4 c5 T', T = c0 :: c1 :: c2 :: c3 :: c4 :: c5 :: T' ∧
    (goUpper (stripNul [c0, c1, c2, c3, c4, c5]) = IMPORT ∨ goUpper (stripNul [c0, c1, c2, c3, c4, c5]) = ENTITY))

theorem slice_app (T R : Bytes) (x y : Nat) (hxy : x ≤ y) (hy : y ≤ T.length) :
    slice (T ++ R) x y = .ok ((T.drop x).take (y - x)) := by
  unfold slice
  have : x ≤ y ∧ y ≤ (T ++ R).length := ⟨hxy, by simp; omega⟩
  simp only [this, and_self, ↓reduceIte]
  rw [List.drop_append_of_le_length (by omega), List.take_append_of_le_length (by simp; omega)]

/-- a comment-like token whose text carries a marker is reported by the comment tests -/
theorem commentIsXSS_true (h : H) (T R : Bytes) (hdrop : h.s.drop h.tokStart = T ++ R) (hl : h.tokLen = T.length)
    (hs : h.tokStart ≤ h.s.length) (hm : Marker T) : commentIsXSS h = .ok true := by
  have hlen : h.s.length = h.tokStart + (T.length + R.length) := by
    have := congrArg List.length hdrop
    simp at this; omega
  have hsl : slice h.s h.tokStart (h.tokStart + h.tokLen) = .ok T := by
    unfold slice
    have : h.tokStart ≤ h.tokStart + h.tokLen ∧ h.tokStart + h.tokLen ≤ h.s.length := ⟨by omega, by omega⟩
    simp only [this, and_self, ↓reduceIte, hdrop]
    rw [show h.tokStart + h.tokLen - h.tokStart = T.length by omega, List.take_left]
  unfold commentIsXSS
  simp only [hsl, offFrom_ok hs, hdrop, bind, Except.bind, pure, Except.pure]
  by_cases hbt : T.contains 96 = true
  · simp only [hbt, ↓reduceIte]
  · simp only [hbt, Bool.false_eq_true, ↓reduceIte]
    rcases hm with hm | ⟨c1, c2, c3, T', rfl, hif⟩ | ⟨c0, c1, c2, c3, T', rfl, hx⟩ | ⟨c0, c1, c2, c3, c4, c5, T', rfl, hie⟩
    · exact absurd hm hbt
    · have h3 : h.tokLen > 3 := by rw [hl]; simp
      have s13 : slice ((91 :: c1 :: c2 :: c3 :: T') ++ R) 1 3 = .ok [c1, c2] := by
        rw [slice_app _ R 1 3 (by omega) (by simp)]; rfl
      simp only [h3, ↓reduceIte, s13, hif]
      simp [at']
    · have h3 : h.tokLen > 3 := by rw [hl]; simp
      have s03 : slice ((c0 :: c1 :: c2 :: c3 :: T') ++ R) 0 3 = .ok [c0, c1, c2] := by
        rw [slice_app _ R 0 3 (by omega) (by simp)]; rfl
      have s13 : slice ((c0 :: c1 :: c2 :: c3 :: T') ++ R) 1 3 = .ok [c1, c2] := by
        rw [slice_app _ R 1 3 (by omega) (by simp)]; rfl
      have a0 : at' ((c0 :: c1 :: c2 :: c3 :: T') ++ R) 0 = .ok c0 := by simp [at']
      simp only [h3, ↓reduceIte, s03, s13, a0, hx]
      split
      · rfl
      · simp
    · have h3 : h.tokLen > 3 := by rw [hl]; simp
      have h5 : h.tokLen > 5 := by rw [hl]; simp
      have s06 : slice ((c0 :: c1 :: c2 :: c3 :: c4 :: c5 :: T') ++ R) 0 6 = .ok [c0, c1, c2, c3, c4, c5] := by
        rw [slice_app _ R 0 6 (by omega) (by simp)]; rfl
      have s13 : slice ((c0 :: c1 :: c2 :: c3 :: c4 :: c5 :: T') ++ R) 1 3 = .ok [c1, c2] := by
        rw [slice_app _ R 1 3 (by omega) (by simp)]; rfl
      have s03 : slice ((c0 :: c1 :: c2 :: c3 :: c4 :: c5 :: T') ++ R) 0 3 = .ok [c0, c1, c2] := by
        rw [slice_app _ R 0 3 (by omega) (by simp)]; rfl
      have a0 : at' ((c0 :: c1 :: c2 :: c3 :: c4 :: c5 :: T') ++ R) 0 = .ok c0 := by simp [at']
      simp only [h3, h5, ↓reduceIte, s06, s13, s03, a0]
      have hor : (goUpper (stripNul [c0, c1, c2, c3, c4, c5]) == IMPORT || goUpper (stripNul [c0, c1, c2, c3, c4, c5]) == ENTITY) = true := by
        rcases hie with h | h <;> simp [h]
      split
      · rfl
      · split
        · rfl
        · simp only [hor, ↓reduceIte]

/-- the loop of `isXSS` reports a doctype token, and a comment token that passes the comment tests -/
theorem xssLoop_doctype (h x : H) (attr fuel : Nat) (hn : next h = .ok (true, x)) (ht : x.tokType = .docType) :
    xssLoop h attr (fuel + 1) = .ok true := by
  unfold xssLoop
  simp only [hn, bind, Except.bind, pure, Except.pure, Bool.not_true, Bool.false_eq_true, ↓reduceIte, ht]

theorem xssLoop_comment (h x : H) (attr fuel : Nat) (hn : next h = .ok (true, x)) (ht : x.tokType = .tagComment)
    (hc : commentIsXSS x = .ok true) : xssLoop h attr (fuel + 1) = .ok true := by
  unfold xssLoop
  simp only [hn, bind, Except.bind, pure, Except.pure, Bool.not_true, Bool.false_eq_true, ↓reduceIte, ht, hc]

/-- the first step on `<` `c` … in element content hands over to the tag-open state on `c` -/
theorem first_lt (c : UInt8) (body : Bytes) :
    next (init (60 :: c :: body) 0) = stateTagOpen 5 (emit (init (60 :: c :: body) 0) 0 0 .dataText 1 .tagOpen) := by
  unfold next init
  simp only []
  have hi : indexByte ((60 :: c :: body).drop 0) 60 = some 0 := by simp [indexByte]
  rw [show dataDepth = 5 + 1 from rfl, stateData_some 5 _ 0 (by simp) hi]
  rfl

theorem first_bang (body : Bytes) :
    next (init (60 :: 33 :: body) 0) =
      stateMarkupDeclarationOpen { (emit (init (60 :: 33 :: body) 0) 0 0 .dataText 1 .tagOpen) with pos := 2 } := by
  rw [first_lt]
  unfold stateTagOpen
  simp [emit, init, at', bind, Except.bind]

theorem first_question (body : Bytes) :
    next (init (60 :: 63 :: body) 0) =
      stateBogusComment { (emit (init (60 :: 63 :: body) 0) 0 0 .dataText 1 .tagOpen) with pos := 2 } := by
  rw [first_lt]
  unfold stateTagOpen
  simp [emit, init, at', bind, Except.bind]

theorem first_percent (body : Bytes) :
    next (init (60 :: 37 :: body) 0) =
      stateBogusComment2 { (emit (init (60 :: 37 :: body) 0) 0 0 .dataText 1 .tagOpen) with pos := 2 } := by
  rw [first_lt]
  unfold stateTagOpen
  simp [emit, init, at', bind, Except.bind]

/-- **`<!doctype`** in any letter case, followed by anything -/
theorem doctype_detected (p w rest : Bytes) (hp : (60 : UInt8) ∉ p) (hw : w.length = 7) (hlow : goLowerAscii w = doctypeLower) :
    isXSSCtx (p ++ 60 :: 33 :: (w ++ rest)) 0 = .ok true := by
  rw [data_prefix _ p hp]
  unfold isXSSCtx xssFuel
  rw [show 3 * (60 :: 33 :: (w ++ rest)).length + 4 = (3 * (60 :: 33 :: (w ++ rest)).length + 3) + 1 by omega]
  have hstep : ∃ x, next (init (60 :: 33 :: (w ++ rest)) 0) = .ok (true, x) ∧ x.tokType = .docType := by
    rw [first_bang]
    unfold stateMarkupDeclarationOpen
    have hwin : (((60 : UInt8) :: 33 :: (w ++ rest)).drop 2).take 7 = w := by
      simp only [List.drop_succ_cons, List.drop_zero]
      rw [List.take_append_of_le_length (by omega), List.take_of_length_le (by omega)]
    have hrem : decide ((60 :: 33 :: (w ++ rest)).length - 2 ≥ 7) = true := by simp; omega
    simp only [emit, init, hwin, hlow, hrem, beq_self_eq_true, Bool.and_self, ↓reduceIte]
    unfold stateDoctype
    simp only [offFrom, bind, Except.bind, pure, Except.pure]
    have : 2 ≤ (60 :: 33 :: (w ++ rest)).length := by simp
    simp only [this, ↓reduceIte]
    split
    · exact ⟨_, rfl, rfl⟩
    · exact ⟨_, rfl, rfl⟩
  obtain ⟨x, hn, ht⟩ := hstep
  exact xssLoop_doctype _ x 0 _ hn ht

theorem indexByte_stop (c : UInt8) : ∀ (T rest : Bytes), c ∉ T → indexByte (T ++ c :: rest) c = some T.length
  | [], rest, _ => by simp [indexByte]
  | x :: T, rest, h => by
    have hx : (x == c) = false := by
      simp only [List.mem_cons, not_or] at h
      simp only [beq_eq_false_iff_ne, ne_eq]
      exact fun e => h.1 e.symm
    have ht : c ∉ T := fun hm => h (List.mem_cons_of_mem _ hm)
    simp only [List.cons_append, indexByte, hx, Bool.false_eq_true, ↓reduceIte, indexByte_stop c T rest ht, Option.map_some, List.length_cons]

theorem indexByte_absent (c : UInt8) (T : Bytes) (h : c ∉ T) : indexByte T c = none :=
  (indexByte_none_iff T c).mpr h

/-- a marker-carrying token, the rest of the loop: reported -/
theorem comment_token_reported (s : Bytes) (x : H) (T R : Bytes) (start : Nat) (hn : next (init s 0) = .ok (true, x))
    (hxs : x.s = s) (hty : x.tokType = .tagComment) (hst : x.tokStart = start) (hlen : x.tokLen = T.length)
    (hdrop : s.drop start = T ++ R) (hle : start ≤ s.length) (hm : Marker T) : isXSSCtx s 0 = .ok true := by
  unfold isXSSCtx xssFuel
  rw [show 3 * s.length + 4 = (3 * s.length + 3) + 1 by omega]
  exact xssLoop_comment _ x 0 _ hn hty
    (commentIsXSS_true x T R (by rw [hxs, hst]; exact hdrop) hlen (by rw [hxs, hst]; exact hle) hm)

/-- **`<? … >`** (processing instruction: `<?xml …`, `<?import …`, a back-tick): the text up to the first `>` (or to the
end of input) carries a marker -/
theorem pi_detected (p T tail : Bytes) (hp : (60 : UInt8) ∉ p) (hT : (62 : UInt8) ∉ T) (htail : tail = [] ∨ ∃ r, tail = 62 :: r)
    (hm : Marker T) : isXSSCtx (p ++ 60 :: 63 :: (T ++ tail)) 0 = .ok true := by
  rw [data_prefix _ p hp]
  have hn := first_question (T ++ tail)
  unfold stateBogusComment at hn
  simp only [emit, init, offFrom, bind, Except.bind, pure, Except.pure] at hn
  have h2 : 2 ≤ (60 :: 63 :: (T ++ tail)).length := by simp
  simp only [h2, ↓reduceIte, List.drop_succ_cons, List.drop_zero] at hn
  rcases htail with rfl | ⟨r, rfl⟩
  · rw [List.append_nil] at hn ⊢
    rw [indexByte_absent 62 T hT] at hn
    exact comment_token_reported _ _ T [] 2 hn rfl rfl rfl (by simp) (by simp) (by simp) hm
  · rw [indexByte_stop 62 T r hT] at hn
    exact comment_token_reported _ _ T (62 :: r) 2 hn rfl rfl rfl rfl (by simp) (by simp) hm

/-- the first byte of the 7-byte window decides against `doctype` and `[CDATA[` -/
theorem win_first (w : Bytes) (c : UInt8) (t : Bytes) (hw : w = c :: t) (h1 : lowerAscii c ≠ 100) (h2 : c ≠ 91) :
    (goLowerAscii w == doctypeLower) = false ∧ (w == cdataOpen) = false := by
  subst hw
  constructor
  · cases hc : goLowerAscii (c :: t) == doctypeLower with
    | false => rfl
    | true =>
      exfalso
      have he : goLowerAscii (c :: t) = doctypeLower := by simpa using hc
      unfold goLowerAscii doctypeLower at he
      simp only [List.map_cons, List.cons.injEq] at he
      exact h1 he.1
  · cases hc : (c :: t) == cdataOpen with
    | false => rfl
    | true =>
      exfalso
      have he : c :: t = cdataOpen := by simpa using hc
      unfold cdataOpen at he
      simp only [List.cons.injEq] at he
      exact h2 he.1

/-- **`<! … >`** that is neither a doctype, a CDATA section nor a comment (`<!ENTITY …`, a back-tick): the text up to the
first `>` carries a marker -/
theorem decl_detected (p T' tail : Bytes) (c : UInt8) (hp : (60 : UInt8) ∉ p) (hT : (62 : UInt8) ∉ (c :: T'))
    (htail : tail = [] ∨ ∃ r, tail = 62 :: r) (h1 : lowerAscii c ≠ 100) (h2 : c ≠ 91) (h3 : c ≠ 45)
    (hm : Marker (c :: T')) : isXSSCtx (p ++ 60 :: 33 :: ((c :: T') ++ tail)) 0 = .ok true := by
  rw [data_prefix _ p hp]
  have hn := first_bang ((c :: T') ++ tail)
  unfold stateMarkupDeclarationOpen at hn
  simp only [emit, init, List.drop_succ_cons, List.drop_zero] at hn
  obtain ⟨w1, w2⟩ := win_first (((c :: T') ++ tail).take 7) c ((T' ++ tail).take 6) (by simp) h1 h2
  have w3 : ((((c :: T') ++ tail).take 2) == [45, 45]) = false := by
    cases hc : (((c :: T') ++ tail).take 2) == [45, 45] with
    | false => rfl
    | true =>
      exfalso
      have he : ((c :: T') ++ tail).take 2 = [45, 45] := by simpa using hc
      have := congrArg List.head? he
      simp at this
      exact h3 this
  simp only [w1, w2, w3, Bool.and_false, Bool.false_eq_true, ↓reduceIte] at hn
  unfold stateBogusComment at hn
  simp only [offFrom, bind, Except.bind, pure, Except.pure] at hn
  have hl2 : 2 ≤ (60 :: 33 :: ((c :: T') ++ tail)).length := by simp
  simp only [hl2, ↓reduceIte, List.drop_succ_cons, List.drop_zero] at hn
  rcases htail with rfl | ⟨r, rfl⟩
  · rw [List.append_nil] at hn ⊢
    rw [indexByte_absent 62 (c :: T') hT] at hn
    exact comment_token_reported _ _ (c :: T') [] 2 hn rfl rfl rfl (by simp [emit]) (by simp) (by simp) hm
  · rw [indexByte_stop 62 (c :: T') r hT] at hn
    exact comment_token_reported _ _ (c :: T') (62 :: r) 2 hn rfl rfl rfl rfl (by simp) (by simp) hm

theorem not_mem_get (c : UInt8) (T : Bytes) (h : c ∉ T) (k : Nat) : T[k]? ≠ some c := by
  intro hk
  exact h (List.mem_of_getElem? hk)

/-- the comment state at offset 4 of `<!--` `T` `-->…` (or `<!--` `T` to the end of input), `T` free of dashes -/
theorem comment_state_result (h4 : H) (T tail : Bytes) (hs4 : h4.s = 60 :: 33 :: 45 :: 45 :: (T ++ tail)) (hp4 : h4.pos = 4)
    (hT : (45 : UInt8) ∉ T) (htail : tail = [] ∨ ∃ r, tail = 45 :: 45 :: 62 :: r) :
    ∃ x, stateComment h4 = .ok (true, x) ∧ x.s = h4.s ∧ x.tokType = .tagComment ∧ x.tokStart = 4 ∧ x.tokLen = T.length := by
  have hget : ∀ k, (60 :: 33 :: 45 :: 45 :: (T ++ tail) : Bytes)[4 + k]? = (T ++ tail)[k]? := by
    intro k; rw [show 4 + k = k + 1 + 1 + 1 + 1 by omega]; simp
  have hlen : (60 :: 33 :: 45 :: 45 :: (T ++ tail) : Bytes).length = 4 + (T.length + tail.length) := by simp; omega
  have hle4 : h4.pos ≤ h4.s.length := by rw [hs4, hp4, hlen]; omega
  obtain ⟨hfound, hnone⟩ := comment_first_terminator h4 hle4
  have hearly : ∀ j n, h4.pos ≤ j → j < 4 + T.length → ¬ ComEnd h4.s j n := by
    intro j n hj hlt hce
    have := hce.1
    rw [hp4] at hj
    rw [hs4, show j = 4 + (j - 4) by omega, hget, List.getElem?_append_left (by omega)] at this
    exact not_mem_get 45 T hT _ this
  rcases htail with rfl | ⟨r, rfl⟩
  · have hno : ∀ i n, h4.pos ≤ i → ¬ ComEnd h4.s i n := by
      intro i n hi hce
      by_cases hlt : i < 4 + T.length
      · exact hearly i n hi hlt hce
      · have := hce.1
        rw [hs4, List.getElem?_eq_none (by rw [hlen]; simp; omega)] at this
        cases this
    rw [hnone hno]
    unfold ranOut
    refine ⟨_, rfl, rfl, rfl, hp4, ?_⟩
    simp only [hs4, hp4, hlen]; simp
  · have hce : ComEnd h4.s (4 + T.length) 0 := by
      rw [hs4]
      refine ⟨?_, fun k hk => absurd hk (by omega), Or.inl ?_, ?_⟩
      · rw [hget, List.getElem?_append_right (Nat.le_refl _)]; simp
      · rw [show 4 + T.length + 1 + 0 = 4 + (T.length + 1) by omega, hget, List.getElem?_append_right (by omega)]; simp
      · rw [show 4 + T.length + 2 + 0 = 4 + (T.length + 2) by omega, hget, List.getElem?_append_right (by omega)]; simp
    rw [hfound (4 + T.length) 0 hce (by omega) (fun j m hj hlt => hearly j m hj hlt)]
    unfold foundAt
    refine ⟨_, rfl, rfl, rfl, hp4, ?_⟩
    simp [emit, hp4]

/-- **`<!-- … -->`** (IE conditional comment `<!--[if …`, a back-tick): the text up to `-->` (or to the end of input),
free of dashes, carries a marker -/
theorem comment_detected (p T tail : Bytes) (hp : (60 : UInt8) ∉ p) (hT : (45 : UInt8) ∉ T)
    (htail : tail = [] ∨ ∃ r, tail = 45 :: 45 :: 62 :: r) (hm : Marker T) :
    isXSSCtx (p ++ 60 :: 33 :: 45 :: 45 :: (T ++ tail)) 0 = .ok true := by
  rw [data_prefix _ p hp]
  have hn := first_bang (45 :: 45 :: (T ++ tail))
  unfold stateMarkupDeclarationOpen at hn
  simp only [emit, init, List.drop_succ_cons, List.drop_zero] at hn
  simp only [List.take_succ_cons] at hn
  obtain ⟨w1, w2⟩ := win_first (45 :: 45 :: (T ++ tail).take 5) 45 (45 :: (T ++ tail).take 5) rfl (by decide) (by decide)
  have w3 : decide ((60 :: 33 :: 45 :: 45 :: (T ++ tail)).length - 2 ≥ 2) = true := by simp
  simp only [w1, w2, w3, Bool.and_false, Bool.false_eq_true, ↓reduceIte, List.take_succ_cons, List.take_zero, beq_self_eq_true,
    Bool.and_self] at hn
  obtain ⟨x, hx, hxs, hty, hst, hl⟩ := comment_state_result
    ({ s := 60 :: 33 :: 45 :: 45 :: (T ++ tail), pos := 2 + 2, state := St.tagOpen } : H) T tail rfl rfl hT htail
  rw [hx] at hn
  exact comment_token_reported _ x T tail 4 hn hxs hty hst hl (by simp) (by simp) hm

/-- the comment state at offset 4 of `<!--` `T` followed by end of input or by a terminator `--…>` / `-!>`, where no terminator
(`-` NUL* (`-`|`!`) `>`) starts inside `T` — dashes inside `T` are allowed -/
theorem comment_state_general (h4 : H) (T tail : Bytes) (hs4 : h4.s = 60 :: 33 :: 45 :: 45 :: (T ++ tail)) (hp4 : h4.pos = 4)
    (hT : ∀ j n, j < T.length → ¬ ComEnd (T ++ tail) j n)
    (htail : tail = [] ∨ ∃ e r, (e = 45 ∨ e = 33) ∧ tail = 45 :: e :: 62 :: r) :
    ∃ x, stateComment h4 = .ok (true, x) ∧ x.s = h4.s ∧ x.tokType = .tagComment ∧ x.tokStart = 4 ∧ x.tokLen = T.length := by
  have hget : ∀ k, (60 :: 33 :: 45 :: 45 :: (T ++ tail) : Bytes)[4 + k]? = (T ++ tail)[k]? := by
    intro k; rw [show 4 + k = k + 1 + 1 + 1 + 1 by omega]; simp
  have hlen : (60 :: 33 :: 45 :: 45 :: (T ++ tail) : Bytes).length = 4 + (T.length + tail.length) := by simp; omega
  have hle4 : h4.pos ≤ h4.s.length := by rw [hs4, hp4, hlen]; omega
  obtain ⟨hfound, hnone⟩ := comment_first_terminator h4 hle4
  have hshift : ∀ j n, ComEnd h4.s (4 + j) n → ComEnd (T ++ tail) j n := by
    intro j n ⟨c1, c2, c3, c4⟩
    rw [hs4] at c1 c2 c3 c4
    refine ⟨by rw [← hget]; exact c1, fun k hk => ?_, ?_, ?_⟩
    · have := c2 k hk
      rw [show 4 + j + 1 + k = 4 + (j + 1 + k) by omega, hget] at this; exact this
    · rw [show 4 + j + 1 + n = 4 + (j + 1 + n) by omega, hget] at c3; exact c3
    · rw [show 4 + j + 2 + n = 4 + (j + 2 + n) by omega, hget] at c4; exact c4
  have hearly : ∀ j n, h4.pos ≤ j → j < 4 + T.length → ¬ ComEnd h4.s j n := by
    intro j n hj hlt hce
    rw [hp4] at hj
    rw [show j = 4 + (j - 4) by omega] at hce
    exact hT (j - 4) n (by omega) (hshift _ _ hce)
  rcases htail with rfl | ⟨e, r, he, rfl⟩
  · have hno : ∀ i n, h4.pos ≤ i → ¬ ComEnd h4.s i n := by
      intro i n hi hce
      by_cases hlt : i < 4 + T.length
      · exact hearly i n hi hlt hce
      · have := hce.1
        rw [hs4, List.getElem?_eq_none (by rw [hlen]; simp; omega)] at this
        cases this
    rw [hnone hno]
    unfold ranOut
    refine ⟨_, rfl, rfl, rfl, hp4, ?_⟩
    simp only [hs4, hp4, hlen]; simp
  · have hce : ComEnd h4.s (4 + T.length) 0 := by
      rw [hs4]
      refine ⟨?_, fun k hk => absurd hk (by omega), ?_, ?_⟩
      · rw [hget, List.getElem?_append_right (Nat.le_refl _)]; simp
      · rw [show 4 + T.length + 1 + 0 = 4 + (T.length + 1) by omega, hget, List.getElem?_append_right (by omega)]
        rcases he with rfl | rfl <;> simp
      · rw [show 4 + T.length + 2 + 0 = 4 + (T.length + 2) by omega, hget, List.getElem?_append_right (by omega)]; simp
    rw [hfound (4 + T.length) 0 hce (by omega) (fun j m hj hlt => hearly j m hj hlt)]
    unfold foundAt
    refine ⟨_, rfl, rfl, rfl, hp4, ?_⟩
    simp [emit, hp4]

/-- **`<!-- … -->`, general form**: the text up to the first comment terminator (or to the end of input) carries a marker;
dashes inside the text are allowed as long as no terminator `-` NUL* (`-`|`!`) `>` starts inside it -/
theorem comment_detected_general (p T tail : Bytes) (hp : (60 : UInt8) ∉ p)
    (hT : ∀ j n, j < T.length → ¬ ComEnd (T ++ tail) j n)
    (htail : tail = [] ∨ ∃ e r, (e = 45 ∨ e = 33) ∧ tail = 45 :: e :: 62 :: r) (hm : Marker T) :
    isXSSCtx (p ++ 60 :: 33 :: 45 :: 45 :: (T ++ tail)) 0 = .ok true := by
  rw [data_prefix _ p hp]
  have hn := first_bang (45 :: 45 :: (T ++ tail))
  unfold stateMarkupDeclarationOpen at hn
  simp only [emit, init, List.drop_succ_cons, List.drop_zero] at hn
  simp only [List.take_succ_cons] at hn
  obtain ⟨w1, w2⟩ := win_first (45 :: 45 :: (T ++ tail).take 5) 45 (45 :: (T ++ tail).take 5) rfl (by decide) (by decide)
  have w3 : decide ((60 :: 33 :: 45 :: 45 :: (T ++ tail)).length - 2 ≥ 2) = true := by simp
  simp only [w1, w2, w3, Bool.and_false, Bool.false_eq_true, ↓reduceIte, List.take_succ_cons, List.take_zero, beq_self_eq_true,
    Bool.and_self] at hn
  obtain ⟨x, hx, hxs, hty, hst, hl⟩ := comment_state_general
    ({ s := 60 :: 33 :: 45 :: 45 :: (T ++ tail), pos := 2 + 2, state := St.tagOpen } : H) T tail rfl rfl hT htail
  rw [hx] at hn
  exact comment_token_reported _ x T tail 4 hn hxs hty hst hl (by simp) (by simp) hm

/-- a text free of `>` holds no comment terminator, and none that starts in it reaches into the `-->` / `-!>` after it -/
theorem no_comEnd_of_gt_free (T tail : Bytes) (hT : (62 : UInt8) ∉ T)
    (htail : tail = [] ∨ ∃ e r, (e = 45 ∨ e = 33) ∧ tail = 45 :: e :: 62 :: r) :
    ∀ j n, j < T.length → ¬ ComEnd (T ++ tail) j n := by
  intro j n hj ⟨_, hz, _, hgt⟩
  by_cases hin : j + 2 + n < T.length
  · rw [List.getElem?_append_left hin] at hgt
    exact not_mem_get 62 T hT _ hgt
  · rcases htail with rfl | ⟨e, r, he, rfl⟩
    · rw [List.getElem?_eq_none (by simp; omega)] at hgt; cases hgt
    · -- the dash that opens the tail sits where the terminator needs a NUL or its `>`
      by_cases hn0 : j + 2 + n = T.length
      · rw [hn0, List.getElem?_append_right (Nat.le_refl _)] at hgt
        simp at hgt
      · by_cases hn1 : j + 2 + n = T.length + 1
        · rw [hn1, List.getElem?_append_right (by omega)] at hgt
          simp only [show T.length + 1 - T.length = 1 by omega] at hgt
          rcases he with rfl | rfl <;> simp at hgt
        · -- `j + 2 + n ≥ |T| + 2`: index `|T|` lies in the NUL run
          have := hz (T.length - (j + 1)) (by omega)
          rw [show j + 1 + (T.length - (j + 1)) = T.length by omega, List.getElem?_append_right (Nat.le_refl _)] at this
          simp at this

/-- **`<!-- … -->` with dashes in the body**: a text free of `>` (dashes allowed), followed by end of input, `-->` or `-!>`
(hence also `--!>`), carries a marker -/
theorem comment_detected_dashes (p T tail : Bytes) (hp : (60 : UInt8) ∉ p) (hT : (62 : UInt8) ∉ T)
    (htail : tail = [] ∨ ∃ e r, (e = 45 ∨ e = 33) ∧ tail = 45 :: e :: 62 :: r) (hm : Marker T) :
    isXSSCtx (p ++ 60 :: 33 :: 45 :: 45 :: (T ++ tail)) 0 = .ok true :=
  comment_detected_general p T tail hp (no_comEnd_of_gt_free T tail hT htail) htail hm

/-- the `<%` state at offset 2 of `<%` `T` `%>…` (or `<%` `T` to the end of input), `T` free of `%` -/
theorem percent_state_result (h2 : H) (T tail : Bytes) (hs2 : h2.s = 60 :: 37 :: (T ++ tail)) (hp2 : h2.pos = 2)
    (hT : (37 : UInt8) ∉ T) (htail : tail = [] ∨ ∃ r, tail = 37 :: 62 :: r) :
    ∃ x, stateBogusComment2 h2 = .ok (true, x) ∧ x.s = h2.s ∧ x.tokType = .tagComment ∧ x.tokStart = 2 ∧ x.tokLen = T.length := by
  have hget : ∀ k, (60 :: 37 :: (T ++ tail) : Bytes)[2 + k]? = (T ++ tail)[k]? := by
    intro k; rw [show 2 + k = k + 1 + 1 by omega]; simp
  have hlen : (60 :: 37 :: (T ++ tail) : Bytes).length = 2 + (T.length + tail.length) := by simp; omega
  have hle2 : h2.pos ≤ h2.s.length := by rw [hs2, hp2, hlen]; omega
  obtain ⟨hfound, hnone⟩ := percent_first_terminator h2 hle2
  have hearly : ∀ j, h2.pos ≤ j → j < 2 + T.length → ¬ Term2 h2.s 37 62 j := by
    intro j hj hlt hce
    have := hce.1
    rw [hp2] at hj
    rw [hs2, show j = 2 + (j - 2) by omega, hget, List.getElem?_append_left (by omega)] at this
    exact not_mem_get 37 T hT _ this
  rcases htail with rfl | ⟨r, rfl⟩
  · have hno : ∀ i, h2.pos ≤ i → ¬ Term2 h2.s 37 62 i := by
      intro i hi hce
      by_cases hlt : i < 2 + T.length
      · exact hearly i hi hlt hce
      · have := hce.1
        rw [hs2, List.getElem?_eq_none (by rw [hlen]; simp; omega)] at this
        cases this
    rw [hnone hno]
    unfold ranOutEnd
    refine ⟨_, rfl, rfl, rfl, by simp [emit, hp2], ?_⟩
    simp only [emit, hs2, hp2, hlen]; simp
  · have hce : Term2 h2.s 37 62 (2 + T.length) := by
      rw [hs2]
      refine ⟨?_, ?_⟩
      · rw [hget, List.getElem?_append_right (Nat.le_refl _)]; simp
      · rw [show 2 + T.length + 1 = 2 + (T.length + 1) by omega, hget, List.getElem?_append_right (by omega)]; simp
    rw [hfound (2 + T.length) hce (by omega) (fun j hj hlt => hearly j hj hlt)]
    unfold foundAt
    refine ⟨_, rfl, rfl, rfl, by simp [emit, hp2], ?_⟩
    simp [emit, hp2]

/-- **`<% … %>`**: the text up to `%>` (or to the end of input), free of `%`, carries a marker -/
theorem percent_detected (p T tail : Bytes) (hp : (60 : UInt8) ∉ p) (hT : (37 : UInt8) ∉ T)
    (htail : tail = [] ∨ ∃ r, tail = 37 :: 62 :: r) (hm : Marker T) :
    isXSSCtx (p ++ 60 :: 37 :: (T ++ tail)) 0 = .ok true := by
  rw [data_prefix _ p hp]
  have hn := first_percent (T ++ tail)
  simp only [emit, init] at hn
  obtain ⟨x, hx, hxs, hty, hst, hl⟩ := percent_state_result
    ({ s := 60 :: 37 :: (T ++ tail), pos := 2, state := St.tagOpen } : H) T tail rfl rfl hT htail
  rw [hx] at hn
  exact comment_token_reported _ x T tail 2 hn hxs hty hst hl (by simp) (by simp) hm

end LibInj.Xss
