import LibInj.Xss.Classify
import LibInj.Proofs.Index
set_option linter.unusedSimpArgs false
set_option linter.unusedVariables false
/-! Totality and bounds of the character-reference decoder and of the URL matcher (C19, C02). -/
namespace LibInj.Xss
open LibInj

theorem at'_ok {s : Bytes} {i : Nat} (h : i < s.length) : at' s i = .ok s[i] := by
  simp [at', List.getElem?_eq_getElem h]

/-- table fact: the hex map has an entry for every byte, each a digit value or the sentinel 256 -/
theorem hexMap_facts : Gen.hexMap.length = 256 ∧ Gen.hexMap.all (fun v => v < 16 || v == 256) = true := by
  decide +kernel

theorem hexDec_ok (c : UInt8) : ∃ v, hexDec c = .ok v ∧ (v < 16 ∨ v = 256) := by
  unfold hexDec
  have hlt : c.toNat < Gen.hexMap.length := by rw [hexMap_facts.1]; exact c.toNat_lt
  rw [List.getElem?_eq_getElem hlt]
  refine ⟨_, rfl, ?_⟩
  have := List.all_eq_true.mp hexMap_facts.2 _ (List.getElem_mem hlt)
  simpa using this

/-- decoder results: a value in range, and between 1 and `|s|` bytes consumed -/
def DecOK (s : Bytes) (r : M (Int × Nat)) : Prop :=
  ∃ v c, r = .ok (v, c) ∧ 0 ≤ v ∧ v ≤ 0x1000FF ∧ 1 ≤ c ∧ c ≤ s.length

theorem decHexLoop_ok (s : Bytes) (hs : 1 ≤ s.length) :
    ∀ fuel val i, val ≤ 0x1000FF → 1 ≤ i → i ≤ s.length → s.length - i < fuel → DecOK s (decHexLoop s val i fuel) := by
  intro fuel
  induction fuel with
  | zero => intro val i _ _ _ hf; omega
  | succ fuel ih =>
    intro val i hv h1 h2 hf
    unfold decHexLoop
    by_cases hlt : i < s.length
    · simp only [hlt, ↓reduceIte, at'_ok hlt, bind, Except.bind, pure, Except.pure]
      split
      · exact ⟨val, i + 1, rfl, by omega, by omega, by omega, by omega⟩
      · obtain ⟨d, hd, hdv⟩ := hexDec_ok s[i]
        simp only [hd]
        split
        · exact ⟨val, i, rfl, by omega, by omega, h1, h2⟩
        · split
          · exact ⟨38, 1, rfl, by omega, by omega, by omega, hs⟩
          · rename_i hnot
            exact ih (val * 16 + d) (i + 1) (by omega) (by omega) (by omega) (by omega)
    · simp only [hlt, ↓reduceIte, pure, Except.pure]
      exact ⟨val, i, rfl, by omega, by omega, h1, h2⟩

theorem decDecLoop_ok (s : Bytes) (hs : 1 ≤ s.length) :
    ∀ fuel val i, val ≤ 0x1000FF → 1 ≤ i → i ≤ s.length → s.length - i < fuel → DecOK s (decDecLoop s val i fuel) := by
  intro fuel
  induction fuel with
  | zero => intro val i _ _ _ hf; omega
  | succ fuel ih =>
    intro val i hv h1 h2 hf
    unfold decDecLoop
    by_cases hlt : i < s.length
    · simp only [hlt, ↓reduceIte, at'_ok hlt, bind, Except.bind, pure, Except.pure]
      split
      · exact ⟨val, i + 1, rfl, by omega, by omega, by omega, by omega⟩
      · split
        · exact ⟨val, i, rfl, by omega, by omega, h1, h2⟩
        · split
          · exact ⟨38, 1, rfl, by omega, by omega, by omega, hs⟩
          · exact ih _ (i + 1) (by omega) (by omega) (by omega) (by omega)
    · simp only [hlt, ↓reduceIte, pure, Except.pure]
      exact ⟨val, i, rfl, by omega, by omega, h1, h2⟩

/-- **C19, decoder bounds.** On a non-empty input the decoder returns, consumes between 1 and `|s|`
bytes and yields a value in `0..0x1000FF` (an overflowing reference is a literal `&`, never a wrap-around). -/
theorem htmlDecodeByteAt_ok (s : Bytes) (hs : s ≠ []) : DecOK s (htmlDecodeByteAt s) := by
  have hlen : 1 ≤ s.length := by
    cases s with
    | nil => exact absurd rfl hs
    | cons _ _ => simp
  have h0 : (s.length == 0) = false := by simp; omega
  unfold htmlDecodeByteAt
  simp only [h0, Bool.false_eq_true, ↓reduceIte, at'_ok (show 0 < s.length by omega), bind, Except.bind, pure, Except.pure]
  split
  · refine ⟨_, 1, rfl, by simp, ?_, by omega, hlen⟩
    have := s[0].toNat_lt
    simp; omega
  · rename_i hc
    have h2 : 2 ≤ s.length := by
      simp only [Bool.or_eq_true, bne_iff_ne, ne_eq, decide_eq_true_eq, not_or, Decidable.not_not, Nat.not_lt] at hc
      exact hc.2
    simp only [at'_ok (show 1 < s.length by omega)]
    split
    · exact ⟨38, 1, rfl, by omega, by omega, by omega, hlen⟩
    · rename_i hc2
      have h3 : 3 ≤ s.length := by
        simp only [Bool.or_eq_true, bne_iff_ne, ne_eq, decide_eq_true_eq, not_or, Decidable.not_not, Nat.not_lt] at hc2
        exact hc2.2
      simp only [at'_ok (show 2 < s.length by omega)]
      split
      · split
        · exact ⟨38, 1, rfl, by omega, by omega, by omega, hlen⟩
        · rename_i h4
          have h4' : 4 ≤ s.length := by simpa using h4
          simp only [at'_ok (show 3 < s.length by omega)]
          obtain ⟨d, hd, hdv⟩ := hexDec_ok s[3]
          simp only [hd]
          split
          · exact ⟨38, 1, rfl, by omega, by omega, by omega, hlen⟩
          · rename_i hne
            have : d < 16 := by
              rcases hdv with h | h
              · exact h
              · exact absurd (by simp [h]) hne
            exact decHexLoop_ok s hlen _ d 4 (by omega) (by omega) h4' (by omega)
      · split
        · exact ⟨38, 1, rfl, by omega, by omega, by omega, hlen⟩
        · have := s[2].toNat_lt
          exact decDecLoop_ok s hlen _ (s[2].toNat - 48) 3 (by omega) (by omega) h3 (by omega)

theorem htmlDecodeByteAt_nil : htmlDecodeByteAt [] = .ok (-1, 0) := by
  simp [htmlDecodeByteAt, pure, Except.pure]

theorem startsLoop_ok : ∀ fuel (b : Bytes) (first : Bool) (acc : Bytes), b.length < fuel →
    ∃ r, startsLoop b first acc fuel = .ok r := by
  intro fuel
  induction fuel with
  | zero => intro b _ _ hf; omega
  | succ fuel ih =>
    intro b first acc hf
    unfold startsLoop
    by_cases hb : b.length > 0
    · have hne : b ≠ [] := by intro h; simp [h] at hb
      obtain ⟨v, c, hr, _, _, hc1, hc2⟩ := htmlDecodeByteAt_ok b hne
      simp only [hb, ↓reduceIte, hr, hc2, bind, Except.bind, pure, Except.pure]
      have hdrop : (b.drop c).length < fuel := by simp; omega
      split
      · exact ih _ _ _ hdrop
      · split
        · exact ih _ _ _ hdrop
        · exact ih _ _ _ hdrop
    · simp only [hb, ↓reduceIte, pure, Except.pure]
      exact ⟨acc, rfl⟩

theorem htmlEncodeStartsWith_ok (a b : Bytes) : ∃ r, htmlEncodeStartsWith a b = .ok r := by
  unfold htmlEncodeStartsWith
  obtain ⟨acc, h⟩ := startsLoop_ok (b.length + 1) b true [] (by omega)
  simp only [h, bind, Except.bind, pure, Except.pure]
  exact ⟨_, rfl⟩

theorem anyStarts_ok (str : Bytes) : ∀ us, ∃ r, anyStarts str us = .ok r
  | [] => ⟨false, rfl⟩
  | u :: us => by
    unfold anyStarts
    obtain ⟨r, hr⟩ := htmlEncodeStartsWith_ok u str
    simp only [hr, bind, Except.bind, pure, Except.pure]
    cases r with
    | true => exact ⟨true, rfl⟩
    | false => simpa using anyStarts_ok str us

/-- the URL matcher is total -/
theorem isBlackURL_ok (s : Bytes) : ∃ r, isBlackURL s = .ok r := anyStarts_ok _ _

end LibInj.Xss
