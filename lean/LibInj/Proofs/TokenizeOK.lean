import LibInj.Proofs.LexOK
import LibInj.Sqli.Raw
set_option linter.unusedSimpArgs false
set_option linter.unusedVariables false
/-! `tokenize` and the raw token stream: totality, progress, faithfulness (C01 lexing part, C16). -/
namespace LibInj.Sqli
open LibInj

/-- a token as stored by `tokenize`: well-formed, inside `[lo, hi)`, value = input bytes at its offset -/
def TokAt (input : Bytes) (lo hi : Nat) (t : Token) : Prop :=
  TokInv t ∧ lo ≤ t.pos ∧ t.pos + t.len ≤ hi ∧ t.val = (input.drop t.pos).take t.len ∧ CatOK t

theorem tvSet_ok (s : State) (i : Nat) (t : Token) (h : i < s.tv.length) :
    tvSet s i t = .ok { s with tv := s.tv.set i t } := by
  simp [tvSet, h]

/-- token counting, and the scan offset `p` at which the reported token was dispatched: a comment
dispatched on `/` or `-` has at least two bytes of input from there (`/*`, `--`) -/
def TokCount (s : State) (more : Bool) (s' : State) : Prop :=
  s.toks ≤ s'.toks ∧
  (more = true → s'.toks = s.toks + 1 ∧ ∃ p, s.pos ≤ p ∧ p < s.input.length ∧
    ∀ t, s'.tv[s.cur]? = some t → t.cat = 99 → (s.input[p]? = some 47 ∨ s.input[p]? = some 45) → p + 2 ≤ s.input.length) ∧
  (more = false → ∀ t, s'.tv[s.cur]? = some t → t.cat = 0 ∨ s.tv[s.cur]? = some t)

/-- result of a `tokenize` call -/
def TokStep (s : State) (more : Bool) (s' : State) : Prop :=
  s'.input = s.input ∧ s'.flags = s.flags ∧ s'.cur = s.cur ∧ s'.tv.length = s.tv.length ∧
  s.pos ≤ s'.pos ∧ s'.pos ≤ s.input.length ∧
  (∀ j, j ≠ s.cur → s'.tv[j]? = s.tv[j]?) ∧
  (more = true → s.pos < s'.pos ∧ ∃ t, s'.tv[s.cur]? = some t ∧ t.cat ≠ 0 ∧ TokAt s.input s.pos s'.pos t) ∧
  (more = false → s'.pos = s.input.length ∨ s.input = []) ∧
  (∀ t, s'.tv[s.cur]? = some t → (TokInv t ∧ CatOK t) ∨ s.tv[s.cur]? = some t) ∧
  TokCount s more s'

theorem slash_comment (rest : Bytes) (r : Lex) (h : parseSlash rest = .ok r) (hc : r.tok.cat = 99) : 2 ≤ rest.length := by
  rcases Nat.lt_or_ge rest.length 2 with hlt | hge
  · exfalso
    unfold parseSlash at h
    simp only [g, orM, toBool, byteNe, bind, Except.bind, pure, Except.pure] at h
    by_cases h1 : (1 == rest.length) = true
    · simp only [h1, ↓reduceIte] at h
      unfold parseOperator1 at h
      have hl : 1 ≤ rest.length := by simp at h1; omega
      rw [assign_ok _ _ _ _ _ (by rw [clip_one]; exact hl)] at h
      simp only [bind, Except.bind, pure, Except.pure, Except.ok.injEq] at h
      rw [← h] at hc
      simp at hc
    · have h0 : rest.length = 0 := by simp at h1; omega
      simp only [h1, Bool.false_eq_true, ↓reduceIte, at', List.getElem?_eq_none (show rest.length ≤ 1 by omega)] at h
      cases h
  · exact hge

theorem dash_comment (flags : Nat) (rest : Bytes) (r : Lex) (h : parseDash flags rest = .ok r) (hc : r.tok.cat = 99) :
    2 ≤ rest.length := by
  rcases Nat.lt_or_ge rest.length 2 with hlt | hge
  · exfalso
    unfold parseDash at h
    have e1 : decide (2 < rest.length) = false := by simp; omega
    have e2 : (2 == rest.length) = false := by simp; omega
    have e3 : decide (1 < rest.length) = false := by simp; omega
    simp only [g, andM, toBool, byteIs, bind, Except.bind, pure, Except.pure, e1, e2, e3, Bool.false_eq_true, ↓reduceIte] at h
    rw [assign_ok _ _ _ _ _ (by rw [clip_one]; simp)] at h
    simp only [Except.ok.injEq] at h
    rw [← h] at hc
    simp at hc
  · exact hge

theorem dispatch_47 : dispatch 47 = .slash := by decide +kernel
theorem dispatch_45 : dispatch 45 = .dash := by decide +kernel

theorem tokLoop_ok (fuel : Nat) : ∀ (s : State), s.pos ≤ s.input.length → s.cur < s.tv.length →
    s.input.length - s.pos < fuel → ∃ more s', tokLoop s fuel = .ok (more, s') ∧ TokStep s more s' := by
  induction fuel with
  | zero => intro s _ _ hf; omega
  | succ fuel ih =>
    intro s hp hc hf
    unfold tokLoop
    by_cases hlt : s.pos < s.input.length
    · have hrest0 : (s.input.drop s.pos)[0]? = some s.input[s.pos] := by
        simp [List.getElem?_drop, List.getElem?_eq_getElem hlt]
      have hrl : 0 < (s.input.drop s.pos).length := by simp; omega
      obtain ⟨r, hr, n1, n2, ⟨v1, v2⟩, b1, f1, c1⟩ := runP_ok s.flags (s.input.drop s.pos) s.input[s.pos] hrest0
      rw [List.length_drop] at n2
      have h0 : (s.input.drop s.pos)[0] = s.input[s.pos] := by simp
      simp only [hlt, ↓reduceIte, sliceFrom_ok s.input s.pos hp, at'_ok hrl, h0, hr, bind, Except.bind, pure, Except.pure,
        tvSet_ok s s.cur _ hc]
      -- the token as stored (absolute offset)
      have hfaith : ({ r.tok with pos := r.tok.pos + s.pos } : Token).val =
          (s.input.drop ({ r.tok with pos := r.tok.pos + s.pos } : Token).pos).take r.tok.len := by
        show r.tok.val = (s.input.drop (r.tok.pos + s.pos)).take r.tok.len
        rw [f1, List.drop_drop]
        congr 1
        rw [Nat.add_comm]
      -- a comment dispatched on `/` or `-` needs two bytes
      have hcom : r.tok.cat = 99 → (s.input[s.pos]? = some 47 ∨ s.input[s.pos]? = some 45) → s.pos + 2 ≤ s.input.length := by
        intro h99 hb
        rw [List.getElem?_eq_getElem hlt] at hb
        have : 2 ≤ (s.input.drop s.pos).length := by
          rcases hb with hb | hb
          · have hb' : s.input[s.pos] = 47 := by simpa using hb
            rw [hb', dispatch_47] at hr
            exact slash_comment _ r hr h99
          · have hb' : s.input[s.pos] = 45 := by simpa using hb
            rw [hb', dispatch_45] at hr
            exact dash_comment _ _ r hr h99
        rw [List.length_drop] at this
        omega
      split
      · rename_i hcat
        refine ⟨true, _, rfl, rfl, rfl, rfl, by simp, by simp, by simp; omega, ?_, ?_, by simp, ?_, ?_⟩
        · intro j hj
          simp [List.getElem?_set, Ne.symm hj]
        · intro _
          refine ⟨by simp; omega, { r.tok with pos := r.tok.pos + s.pos }, by simp [List.getElem?_set, hc], by simpa using hcat, ?_⟩
          exact ⟨⟨v1, v2⟩, by simp, by simp; omega, hfaith, c1⟩
        · intro t ht
          left
          simp [List.getElem?_set, hc] at ht
          rw [← ht]
          exact ⟨⟨v1, v2⟩, c1⟩
        · refine ⟨by simp, fun _ => ⟨by simp, s.pos, Nat.le_refl _, hlt, ?_⟩, fun h => by cases h⟩
          intro t ht h99
          simp [List.getElem?_set, hc] at ht
          rw [← ht] at h99
          exact hcom h99
      · obtain ⟨more, s', hs', q1, q2, q3, q4, q5, q6, q7, q8, q9, q10, q11⟩ := ih
          { s with tv := s.tv.set s.cur { r.tok with pos := r.tok.pos + s.pos }, pos := s.pos + r.next,
                   ddx := s.ddx + r.ddx, hash := s.hash + r.hash }
          (by simp; omega) (by simp; exact hc) (by simp; omega)
        unfold TokCount at q11
        simp at q1 q2 q3 q4 q5 q6 q7 q8 q9 q10 q11
        refine ⟨more, s', hs', q1, q2, q3, q4, by omega, q6, ?_, ?_, q9, ?_, ?_⟩
        · intro j hj
          rw [q7 j hj]
          simp [List.getElem?_set, Ne.symm hj]
        · intro hm
          obtain ⟨w1, t, w2, w3, ⟨w4, w5, w6, w7, w8⟩⟩ := q8 hm
          exact ⟨by omega, t, w2, w3, ⟨w4, by omega, w6, w7, w8⟩⟩
        · intro t ht
          rcases q10 t ht with h | h
          · exact Or.inl h
          · left
            simp [List.getElem?_set, hc] at h
            rw [← h]
            exact ⟨⟨v1, v2⟩, c1⟩
        · refine ⟨q11.1, fun hm => ?_, fun hm t ht => ?_⟩
          · obtain ⟨e1, p, p1, p2, p3⟩ := q11.2.1 hm
            exact ⟨e1, p, by omega, p2, p3⟩
          · rcases q11.2.2 hm t ht with h | h
            · exact Or.inl h
            · left
              simp [List.getElem?_set, hc] at h
              rw [← h]
              rename_i hcat
              simpa using hcat
    · simp only [hlt, ↓reduceIte, pure, Except.pure]
      refine ⟨false, s, rfl, rfl, rfl, rfl, rfl, Nat.le_refl _, hp, fun _ _ => rfl, by simp, ?_, fun t ht => Or.inr ht, Nat.le_refl _, by simp, fun _ t ht => Or.inr ht⟩
      intro _; left; omega

theorem flag2Delim_ne (flags : Nat) (h : (hasFlag flags flagQuoteSingle || hasFlag flags flagQuoteDouble) = true) :
    flag2Delim flags ≠ 92 := by
  unfold flag2Delim
  split
  · decide
  · split
    · decide
    · rename_i h1 h2; simp [h1, h2] at h

/-- **`tokenize` is total and makes progress**: it never errs; when it reports a token, at least one
byte was consumed and the token (in slot `cur`) is well-formed, lies inside the consumed span and its
value is the input at its offset; when it reports none, the scan is at end of input. -/
theorem tokenize_ok (s : State) (hp : s.pos ≤ s.input.length) (hc : s.cur < s.tv.length) :
    ∃ more s', tokenize s = .ok (more, s') ∧ TokStep s more s' := by
  unfold tokenize
  by_cases he : (s.input.length == 0) = true
  · simp only [he, ↓reduceIte, pure, Except.pure]
    have : s.input = [] := by
      have : s.input.length = 0 := by simpa using he
      exact List.eq_nil_of_length_eq_zero this
    exact ⟨false, s, rfl, rfl, rfl, rfl, rfl, Nat.le_refl _, hp, fun _ _ => rfl, by simp, fun _ => Or.inr this, fun t ht => Or.inr ht, Nat.le_refl _, by simp, fun _ t ht => Or.inr ht⟩
  · have hlen : 1 ≤ s.input.length := by
      have : ¬ s.input.length = 0 := by simpa using he
      omega
    simp only [he, Bool.false_eq_true, ↓reduceIte, tvSet_ok s s.cur _ hc, bind, Except.bind, pure, Except.pure]
    by_cases hq : (s.pos == 0 && (hasFlag s.flags flagQuoteSingle || hasFlag s.flags flagQuoteDouble)) = true
    · have hp0 : s.pos = 0 := by
        simp only [Bool.and_eq_true, beq_iff_eq] at hq; exact hq.1
      have hfl := (Bool.and_eq_true _ _ ▸ hq).2
      simp only [hq, ↓reduceIte]
      obtain ⟨r, hr, ⟨n1, n2, ⟨v1, v2⟩, b1, f1, c1⟩, hcat, _⟩ :=
        parseStringCore_lex {} s.input 0 (flag2Delim s.flags) (flag2Delim_ne s.flags hfl) (by omega) hlen
      simp only [hr]
      have hc' : s.cur < (s.tv.set s.cur {}).length := by simp; exact hc
      simp only [tvSet_ok { s with tv := s.tv.set s.cur {} } s.cur r.tok hc']
      refine ⟨true, _, rfl, rfl, rfl, rfl, by simp, by simp; omega, by simp; exact n2, ?_, ?_, by simp, ?_, ?_⟩
      · intro j hj
        simp [List.getElem?_set, Ne.symm hj]
      · intro _
        refine ⟨by simp; omega, r.tok, by simp [List.getElem?_set, hc], by rw [hcat]; decide, ?_⟩
        exact ⟨⟨v1, v2⟩, by omega, by simpa using b1, f1, c1⟩
      · intro t ht
        left
        simp [List.getElem?_set, hc] at ht
        rw [← ht]
        exact ⟨⟨v1, v2⟩, c1⟩
      · refine ⟨by simp, fun _ => ⟨by simp, 0, by omega, by omega, ?_⟩, fun h => by cases h⟩
        intro t ht h99
        simp [List.getElem?_set, hc] at ht
        rw [← ht, hcat] at h99
        exact absurd h99 (by decide)
    · simp only [hq, Bool.false_eq_true, ↓reduceIte]
      obtain ⟨more, s', hs', q1, q2, q3, q4, q5, q6, q7, q8, q9, q10, q11⟩ := tokLoop_ok (s.input.length + 1)
        { s with tv := s.tv.set s.cur {} } hp (by simp; exact hc) (by simp; omega)
      unfold TokCount at q11
      simp at q1 q2 q3 q4 q5 q6 q7 q8 q9 q10 q11
      refine ⟨more, s', hs', q1, q2, q3, q4, q5, q6, ?_, q8, q9, ?_, q11.1, q11.2.1, ?_⟩
      rotate_left 2
      · intro hm t ht
        rcases q11.2.2 hm t ht with h | h
        · exact Or.inl h
        · left
          simp [List.getElem?_set, hc] at h
          rw [← h]
      · intro j hj
        rw [q7 j hj]
        simp [List.getElem?_set, Ne.symm hj]
      · intro t ht
        rcases q10 t ht with h | h
        · exact Or.inl h
        · left
          simp [List.getElem?_set, hc] at h
          rw [← h]
          exact ⟨⟨rfl, by simp⟩, ⟨Or.inl rfl, (fun h => absurd h (by decide)), (fun h => absurd h (by decide))⟩⟩

end LibInj.Sqli

namespace LibInj.Sqli
open LibInj

/-- what C16 says about one raw token -/
def RawOK (input : Bytes) (rt : RawTok) : Prop :=
  rt.tok.val = (input.drop rt.tok.pos).take rt.tok.len ∧ rt.tok.val.length = rt.tok.len ∧ rt.tok.len ≤ 31 ∧
  rt.before ≤ rt.tok.pos ∧ rt.tok.pos + rt.tok.len ≤ rt.after ∧ rt.before < rt.after ∧ rt.after ≤ input.length ∧
  rt.tok.cat ≠ 0 ∧ isClassU8 rt.tok.cat = true

/-- consecutive scan steps are adjacent and start where the stream starts -/
def Chained : Nat → List RawTok → Prop
  | _, [] => True
  | p, rt :: rest => rt.before = p ∧ Chained rt.after rest

theorem rawLoop_ok (fuel : Nat) : ∀ (s : State), s.pos ≤ s.input.length → s.cur < s.tv.length →
    s.input.length - s.pos < fuel →
    ∃ ts sf, rawLoop s fuel = .ok (ts, sf) ∧ (∀ rt ∈ ts, RawOK s.input rt) ∧ Chained s.pos ts ∧
      ts.length ≤ s.input.length - s.pos ∧ (s.input ≠ [] → sf.pos = s.input.length) ∧ sf.input = s.input := by
  induction fuel with
  | zero => intro s _ _ hf; omega
  | succ fuel ih =>
    intro s hp hc hf
    unfold rawLoop
    obtain ⟨more, s', hs', q1, q2, q3, q4, q5, q6, q7, q8, q9, _⟩ := tokenize_ok s hp hc
    simp only [hs', bind, Except.bind, pure, Except.pure]
    cases more with
    | false =>
      simp only [Bool.false_eq_true, ↓reduceIte]
      refine ⟨[], s', rfl, by simp, trivial, by simp, ?_, q1⟩
      intro hne
      rcases q9 rfl with h | h
      · exact h
      · exact absurd h hne
    | true =>
      obtain ⟨w1, t, w2, w3, ⟨⟨v1, v2⟩, w5, w6, w7, w8⟩⟩ := q8 rfl
      have hget : tvGet s' s'.cur = .ok t := by
        unfold tvGet; rw [q3, w2]
      obtain ⟨ts, sf, hr, r1, r2, r3, r4, r5⟩ := ih s' (by rw [q1]; exact q6) (by rw [q3, q4]; exact hc) (by rw [q1]; omega)
      simp only [↓reduceIte, hget, hr]
      refine ⟨_, sf, rfl, ?_, ⟨rfl, r2⟩, by simp; rw [q1] at r3; omega, by rw [q1] at r4; exact r4, by rw [r5, q1]⟩
      intro rt hrt
      rcases List.mem_cons.mp hrt with rfl | hrt
      · exact ⟨w7, v1, v2, w5, w6, w1, q6, w3, by rcases w8.1 with h0 | h0; exact absurd h0 w3; exact h0⟩
      · have := r1 rt hrt; rw [q1] at this; exact this

/-- **C16 on the model.** In every parsing mode the raw token stream exists (the scanner returns),
each token's value is exactly the input bytes at its recorded offset, clipped to 31 bytes; each token
lies inside the span consumed by its scan step; every scan step consumes at least one byte; scan steps
are adjacent, in increasing order, starting at 0; the scan ends exactly at end of input; and there are
at most `|s|` tokens. -/
theorem rawTokens_faithful (input : Bytes) (flags : Nat) :
    ∃ ts sf, rawTokens input flags = .ok (ts, sf) ∧ (∀ rt ∈ ts, RawOK input rt) ∧ Chained 0 ts ∧
      ts.length ≤ input.length ∧ (input ≠ [] → sf.pos = input.length) := by
  unfold rawTokens rawFuel
  have hs : (sqliInit input flags).input = input := rfl
  have hp : (sqliInit input flags).pos = 0 := rfl
  obtain ⟨ts, sf, h1, h2, h3, h4, h5, _⟩ := rawLoop_ok (input.length + 2) (sqliInit input flags)
    (by rw [hp]; omega) (by simp [sqliInit]) (by rw [hs, hp]; omega)
  rw [hs] at h2 h4 h5
  rw [hp] at h3 h4
  exact ⟨ts, sf, h1, h2, h3, by omega, h5⟩

end LibInj.Sqli
