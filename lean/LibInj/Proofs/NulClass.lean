import LibInj.Proofs.Case
import LibInj.Xss.IsXSS
set_option linter.unusedSimpArgs false
/-! NUL bytes inside names are invisible to the classifiers (C11, C04). -/
namespace LibInj.Xss
open LibInj

theorem isBlackAttr_nul (a b : Bytes) : isBlackAttr (a ++ 0 :: b) = isBlackAttr (a ++ b) := by
  unfold isBlackAttr
  rw [stripNul_insert]

/-- table fact: every black tag (and `SVT`, `XSL`) has at least 3 bytes -/
theorem black_tags_min_length : Gen.blackTags.all (fun t => decide (3 ≤ t.length)) = true ∧ SVT.length = 3 ∧ XSL.length = 3 := by
  decide +kernel

theorem isBlackTag_nul (a b : Bytes) : isBlackTag (a ++ 0 :: b) = isBlackTag (a ++ b) := by
  unfold isBlackTag
  rw [stripNul_insert]
  by_cases h3 : (a ++ b).length < 3
  · -- the shorter name is rejected by the raw-length guard; the longer one cannot match a list entry
    have hl : ¬ (a ++ 0 :: b).length < 3 ∨ (a ++ 0 :: b).length < 3 := by omega
    simp only [h3, ↓reduceIte]
    by_cases h3' : (a ++ 0 :: b).length < 3
    · simp only [h3', ↓reduceIte]
    · simp only [h3', ↓reduceIte]
      have hu : (goUpper (stripNul (a ++ b))).length < 3 := by
        have h1 := goUpper_length_le _ (stripNul (a ++ b)) (Nat.le_refl _)
        have h2 : (stripNul (a ++ b)).length ≤ (a ++ b).length := by unfold stripNul; exact List.length_filter_le _ _
        omega
      obtain ⟨t1, t2, t3⟩ := black_tags_min_length
      have hc : Gen.blackTags.contains (goUpper (stripNul (a ++ b))) = false := by
        cases hcc : Gen.blackTags.contains (goUpper (stripNul (a ++ b))) with
        | false => rfl
        | true =>
          have hm : goUpper (stripNul (a ++ b)) ∈ Gen.blackTags := by simpa using hcc
          have := List.all_eq_true.mp t1 _ hm
          simp at this; omega
      have hs : (goUpper (stripNul (a ++ b)) == SVT) = false := by
        cases hcc : goUpper (stripNul (a ++ b)) == SVT with
        | false => rfl
        | true => have : goUpper (stripNul (a ++ b)) = SVT := by simpa using hcc
                  rw [this, t2] at hu; omega
      have hx : (goUpper (stripNul (a ++ b)) == XSL) = false := by
        cases hcc : goUpper (stripNul (a ++ b)) == XSL with
        | false => rfl
        | true => have : goUpper (stripNul (a ++ b)) = XSL := by simpa using hcc
                  rw [this, t3] at hu; omega
      rw [hc, hs, hx]; rfl
  · have h3' : ¬ (a ++ 0 :: b).length < 3 := by simp at h3 ⊢; omega
    simp only [h3, h3', ↓reduceIte]


end LibInj.Xss
