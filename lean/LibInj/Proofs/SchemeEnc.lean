import LibInj.Proofs.Decode
import LibInj.Proofs.Case
set_option linter.unusedSimpArgs false
set_option linter.unusedVariables false
/-! C19: a scheme spelled through any mix of character encodings is recognised. -/
namespace LibInj.Xss
open LibInj

/-- the byte the matcher accumulates for a decoded value -/
def accByte (v : Int) : UInt8 := UInt8.ofNat (((if (decide (v ≥ 97) && decide (v ≤ 122)) = true then v - 32 else v).toNat) % 256)

/-- `u` is consumed by the decoder as one unit of value `v` when followed by `e` -/
def DecUnit (u e : Bytes) (v : Int) : Prop := u ≠ [] ∧ htmlDecodeByteAt (u ++ e) = .ok (v, u.length)

/-- `e` spells `sc`: units that decode to its bytes (up to the matcher's case folding), NUL / LF units
anywhere in between, anything after -/
inductive Enc : Bytes → Bytes → Prop
  | done (rest : Bytes) : Enc [] rest
  | skip {sc e : Bytes} (u : Bytes) (v : Int) : DecUnit u e v → (v = 0 ∨ v = 10) → Enc sc e → Enc sc (u ++ e)
  | char {sc e : Bytes} (c : UInt8) (u : Bytes) (v : Int) : DecUnit u e v → 32 < v → accByte v = c → Enc sc e →
      Enc (c :: sc) (u ++ e)

/-- the accumulator is only ever extended -/
theorem startsLoop_prefix : ∀ fuel (b : Bytes) (first : Bool) (acc : Bytes), b.length < fuel →
    ∃ tail, startsLoop b first acc fuel = .ok (acc ++ tail) := by
  intro fuel
  induction fuel with
  | zero => intro b _ _ hf; omega
  | succ fuel ih =>
    intro b first acc hf
    unfold startsLoop
    by_cases hb : b.length > 0
    · have hne : b ≠ [] := by intro h; simp [h] at hb
      obtain ⟨v, c, hr, _, _, hc1, hc2⟩ := htmlDecodeByteAt_ok b hne
      simp only [hb, ↓reduceIte, hr, hc2, bind, Except.bind, pure, Except.pure]
      have hdrop : (b.drop c).length < fuel := by simp; omega
      split
      · exact ih _ _ _ hdrop
      · split
        · exact ih _ _ _ hdrop
        · obtain ⟨tail, ht⟩ := ih (b.drop c) false (acc ++ [UInt8.ofNat ((if v ≥ 97 && v ≤ 122 then v - 32 else v).toNat % 256)]) hdrop
          exact ⟨UInt8.ofNat ((if v ≥ 97 && v ≤ 122 then v - 32 else v).toNat % 256) :: tail, by rw [ht]; simp⟩
    · simp only [hb, ↓reduceIte, pure, Except.pure]
      exact ⟨[], by simp⟩

/-- **the decoding loop on an encoded scheme accumulates the scheme** -/
theorem starts_enc {sc e : Bytes} (h : Enc sc e) : ∀ (first : Bool) (acc : Bytes) (fuel : Nat), e.length < fuel →
    ∃ tail, startsLoop e first acc fuel = .ok (acc ++ sc ++ tail) := by
  induction h with
  | done rest =>
    intro first acc fuel hf
    obtain ⟨tail, ht⟩ := startsLoop_prefix fuel rest first acc hf
    exact ⟨tail, by rw [ht]; simp⟩
  | @skip sc e u v hu hv _ ih =>
    intro first acc fuel hf
    obtain ⟨hne, hdec⟩ := hu
    have hul : 1 ≤ u.length := by cases u with | nil => exact absurd rfl hne | cons _ _ => simp
    cases fuel with
    | zero => omega
    | succ fuel =>
      unfold startsLoop
      have hb : (u ++ e).length > 0 := by simp; omega
      simp only [hb, ↓reduceIte, hdec, bind, Except.bind, pure, Except.pure, show u.length ≤ (u ++ e).length by simp,
        List.drop_left]
      have hf' : e.length < fuel := by simp at hf; omega
      by_cases c1 : (first && decide (v ≤ 32)) = true
      · rw [if_pos c1]; exact ih first acc fuel hf'
      · rw [if_neg c1]
        have c2 : (v == 0 || v == 10) = true := by rcases hv with rfl | rfl <;> decide
        rw [if_pos c2]; exact ih false acc fuel hf'
  | @char sc e c u v hu hv hc _ ih =>
    intro first acc fuel hf
    obtain ⟨hne, hdec⟩ := hu
    have hul : 1 ≤ u.length := by cases u with | nil => exact absurd rfl hne | cons _ _ => simp
    cases fuel with
    | zero => omega
    | succ fuel =>
      unfold startsLoop
      have hb : (u ++ e).length > 0 := by simp; omega
      simp only [hb, ↓reduceIte, hdec, bind, Except.bind, pure, Except.pure, show u.length ≤ (u ++ e).length by simp,
        List.drop_left]
      have hf' : e.length < fuel := by simp at hf; omega
      have c1 : (first && decide (v ≤ 32)) = false := by
        have : ¬ (v ≤ 32) := by omega
        simp [this]
      have c2 : (v == 0 || v == 10) = false := by
        have h0 : v ≠ 0 := by omega
        have h10 : v ≠ 10 := by omega
        simp [h0, h10]
      rw [if_neg (by rw [c1]; decide), if_neg (by rw [c2]; decide)]
      obtain ⟨tail, ht⟩ := ih false (acc ++ [accByte v]) fuel hf'
      refine ⟨tail, ?_⟩
      unfold accByte at ht hc
      rw [ht, ← hc]
      simp

theorem isInfix_prefix : ∀ (n t : Bytes), isInfix n (n ++ t) = true
  | [], [] => by simp [isInfix]
  | [], x :: t => by simp [isInfix]
  | a :: n, t => by
    simp only [List.cons_append, isInfix, Bool.or_eq_true]
    left
    have : (a :: n) <+: (a :: (n ++ t)) := by
      rw [← List.cons_append]; exact List.prefix_append _ _
    exact List.isPrefixOf_iff_prefix.mpr this

theorem htmlEncodeStartsWith_enc (a e : Bytes) (h : Enc a e) : htmlEncodeStartsWith a e = .ok true := by
  unfold htmlEncodeStartsWith
  obtain ⟨tail, ht⟩ := starts_enc h true [] (e.length + 1) (by omega)
  simp only [ht, bind, Except.bind, pure, Except.pure, List.nil_append, isInfix_prefix]

theorem anyStarts_mem (str : Bytes) : ∀ (us : List Bytes) (u : Bytes), u ∈ us → htmlEncodeStartsWith u str = .ok true →
    anyStarts str us = .ok true
  | [], _, h, _ => by cases h
  | x :: us, u, h, hu => by
    unfold anyStarts
    obtain ⟨r, hr⟩ := htmlEncodeStartsWith_ok x str
    simp only [hr, bind, Except.bind, pure, Except.pure]
    cases r with
    | true => rfl
    | false =>
      simp only [Bool.false_eq_true, ↓reduceIte]
      rcases List.mem_cons.mp h with rfl | h'
      · rw [hu] at hr; cases hr
      · exact anyStarts_mem str us u h' hu

theorem decode_lit (c0 : UInt8) (t : Bytes) (h : c0 ≠ 38) : htmlDecodeByteAt (c0 :: t) = .ok (c0.toNat, 1) := by
  unfold htmlDecodeByteAt
  have e : (c0 != 38) = true := by simpa using h
  simp [at', e, bind, Except.bind, pure, Except.pure]

theorem urlJunk_38 : urlJunk 38 = false := by decide

theorem dropWhile_junk (junk e : Bytes) (hj : ∀ c ∈ junk, urlJunk c = true) :
    (junk ++ e).dropWhile urlJunk = e.dropWhile urlJunk := by
  induction junk with
  | nil => rfl
  | cons x xs ih =>
    simp only [List.cons_append, List.dropWhile_cons, hj x List.mem_cons_self, ↓reduceIte]
    exact ih (fun c hc => hj c (List.mem_cons_of_mem _ hc))

/-- leading literal bytes that the URL matcher strips are NUL / LF units: what remains still spells the scheme -/
theorem enc_dropWhile {sc e : Bytes} (h : Enc sc e) (hne : sc ≠ []) (h127 : ∀ c ∈ sc, c < 127) :
    Enc sc (e.dropWhile urlJunk) := by
  induction h with
  | done rest => exact absurd rfl hne
  | @skip sc e u v hu hv henc ih =>
    obtain ⟨hune, hdec⟩ := hu
    match u, hune, hdec with
    | c0 :: u', _, hdec =>
      by_cases h38 : c0 = 38
      · subst h38
        simp only [List.cons_append, List.dropWhile_cons, urlJunk_38, Bool.false_eq_true, ↓reduceIte]
        exact Enc.skip (38 :: u') v ⟨by simp, hdec⟩ hv henc
      · rw [List.cons_append, decode_lit c0 _ h38] at hdec
        simp only [Except.ok.injEq, Prod.mk.injEq, List.length_cons] at hdec
        have hu' : u' = [] := List.eq_nil_of_length_eq_zero (by omega)
        subst hu'
        have hj : urlJunk c0 = true := by
          have hv' : c0.toNat = 0 ∨ c0.toNat = 10 := by
            rcases hv with h | h <;> (rw [← hdec.1] at h; omega)
          have : c0 = 0 ∨ c0 = 10 := by
            rcases hv' with h | h
            · left; exact UInt8.toNat_inj.mp h
            · right; exact UInt8.toNat_inj.mp h
          rcases this with rfl | rfl <;> decide
        simp only [List.cons_append, List.nil_append, List.dropWhile_cons, hj, ↓reduceIte]
        exact ih hne h127
  | @char sc e c u v hu hv hc henc ih =>
    obtain ⟨hune, hdec⟩ := hu
    match u, hune, hdec with
    | c0 :: u', _, hdec =>
      by_cases h38 : c0 = 38
      · subst h38
        simp only [List.cons_append, List.dropWhile_cons, urlJunk_38, Bool.false_eq_true, ↓reduceIte]
        exact Enc.char c (38 :: u') v ⟨by simp, hdec⟩ hv hc henc
      · have hdec0 := hdec
        rw [List.cons_append, decode_lit c0 _ h38] at hdec
        simp only [Except.ok.injEq, Prod.mk.injEq, List.length_cons] at hdec
        have hu' : u' = [] := List.eq_nil_of_length_eq_zero (by omega)
        subst hu'
        have hj : urlJunk c0 = false := by
          have hv32 : 32 < c0.toNat := by rw [← hdec.1] at hv; omega
          have hc127 := h127 c List.mem_cons_self
          -- a literal byte >= 127 accumulates as itself, which is not a scheme byte
          have hlt : c0.toNat < 127 := by
            rcases Nat.lt_or_ge c0.toNat 127 with hl | hg
            · exact hl
            · exfalso
              have hacc : accByte (c0.toNat : Int) = c0 := by
                unfold accByte
                have : ¬ ((c0.toNat : Int) ≤ 122) := by omega
                simp only [this, decide_false, Bool.and_false, Bool.false_eq_true, ↓reduceIte, Int.toNat_natCast]
                have := c0.toNat_lt
                rw [Nat.mod_eq_of_lt this]
                exact UInt8.ofNat_toNat
              rw [← hdec.1, hacc] at hc
              rw [← hc] at hc127
              have : c0.toNat < 127 := hc127
              omega
          unfold urlJunk
          have a1 : ¬ (c0 ≤ 32) := by
            intro hle; have : c0.toNat ≤ 32 := hle; omega
          have a2 : ¬ (c0 ≥ 127) := by
            intro hge; have : 127 ≤ c0.toNat := hge; omega
          simp [a1, a2]
        simp only [List.cons_append, List.nil_append, List.dropWhile_cons, hj, Bool.false_eq_true, ↓reduceIte]
        exact Enc.char c [c0] v ⟨by simp, hdec0⟩ hv hc henc

theorem urls_facts : ∀ sc ∈ urls, sc ≠ [] ∧ ∀ c ∈ sc, c < 127 := by decide

/-- **C19 on the model**: a URL value made of stripped leading bytes followed by any encoding of one of
the scheme prefixes the matcher knows is judged dangerous, whatever follows -/
theorem scheme_enc_detected (junk e sc : Bytes) (hj : ∀ c ∈ junk, urlJunk c = true) (hsc : sc ∈ urls) (h : Enc sc e) :
    isBlackURL (junk ++ e) = .ok true := by
  unfold isBlackURL
  rw [dropWhile_junk junk e hj]
  obtain ⟨hne, h127⟩ := urls_facts sc hsc
  exact anyStarts_mem _ urls sc hsc (htmlEncodeStartsWith_enc sc _ (enc_dropWhile h hne h127))

/-- a longer scheme spelled out also spells its prefix -/
theorem enc_prefix : ∀ {a b e : Bytes}, Enc (a ++ b) e → Enc a e := by
  intro a
  induction a with
  | nil => intro b e _; exact Enc.done e
  | cons x xs ih =>
    intro b e h
    generalize hsc : (x :: xs) ++ b = sc at h
    induction h with
    | done rest => cases hsc
    | skip u v hu hv _ ih2 => exact Enc.skip u v hu hv (ih2 hsc)
    | char c u v hu hv hc henc _ =>
      simp only [List.cons_append, List.cons.injEq] at hsc
      obtain ⟨rfl, rfl⟩ := hsc
      exact Enc.char _ u v hu hv hc (ih henc)

/-! ## the syntactic forms of a unit -/

/-- a literal byte other than `&` -/
theorem unit_lit (c0 : UInt8) (e : Bytes) (h : c0 ≠ 38) : DecUnit [c0] e c0.toNat :=
  ⟨by simp, by simpa using decode_lit c0 e h⟩

def isDig (c : UInt8) : Bool := 48 ≤ c && c ≤ 57
def decStep (a : Nat) (d : UInt8) : Nat := a * 10 + (d.toNat - 48)
/-- value of a decimal digit string continuing from `a` (leading zeros are harmless) -/
def decFrom (a : Nat) (ds : Bytes) : Nat := ds.foldl decStep a

theorem decFrom_ge : ∀ (ds : Bytes) (a : Nat), a ≤ decFrom a ds
  | [], a => Nat.le_refl _
  | d :: ds, a => by
    have := decFrom_ge ds (decStep a d)
    unfold decFrom at *
    simp only [List.foldl_cons]
    unfold decStep at *
    omega

/-- the decimal loop on `… ds ;`: reads all digits, stops after the `;` -/
theorem decDecLoop_semi (s : Bytes) : ∀ (ds : Bytes) (val i fuel : Nat) (e : Bytes),
    ds.all isDig = true → s.drop i = ds ++ 59 :: e → decFrom val ds ≤ 0x1000FF → ds.length < fuel →
    decDecLoop s val i fuel = .ok ((decFrom val ds : Nat), i + ds.length + 1)
  | [], val, i, fuel, e, _, hs, _, hf => by
    cases fuel with
    | zero => omega
    | succ fuel =>
      have hlt : i < s.length := by
        rcases Nat.lt_or_ge i s.length with h | h
        · exact h
        · rw [List.drop_of_length_le h] at hs; cases hs
      have hget : s[i] = 59 := by
        have := congrArg (fun l => l[0]?) hs
        simp only [List.getElem?_drop, Nat.add_zero, List.nil_append, List.getElem?_cons_zero] at this
        rw [List.getElem?_eq_getElem hlt] at this
        exact Option.some.inj this
      unfold decDecLoop
      simp [hlt, at'_ok hlt, hget, bind, Except.bind, pure, Except.pure, decFrom]
  | d :: ds, val, i, fuel, e, hall, hs, hv, hf => by
    cases fuel with
    | zero => omega
    | succ fuel =>
      simp only [List.all_cons, Bool.and_eq_true] at hall
      have hlt : i < s.length := by
        rcases Nat.lt_or_ge i s.length with h | h
        · exact h
        · rw [List.drop_of_length_le h] at hs; cases hs
      have hget : s[i] = d := by
        have := congrArg (fun l => l[0]?) hs
        simp only [List.getElem?_drop, Nat.add_zero, List.cons_append, List.getElem?_cons_zero] at this
        rw [List.getElem?_eq_getElem hlt] at this
        exact Option.some.inj this
      have hd := hall.1
      unfold isDig at hd
      simp only [Bool.and_eq_true, decide_eq_true_eq] at hd
      have hne59 : (d == 59) = false := by
        have : d.toNat ≤ 57 := hd.2
        have : d ≠ 59 := by intro h; rw [h] at this; exact absurd this (by decide)
        simpa using this
      have hrange : (d < 48 || d > 57) = false := by
        have h1 : ¬ d < 48 := by intro h; exact absurd hd.1 (by simpa using h)
        have h2 : ¬ d > 57 := by intro h; exact absurd hd.2 (by simpa using h)
        simp [h1, h2]
      have hstep : decFrom val (d :: ds) = decFrom (decStep val d) ds := rfl
      have hle := decFrom_ge ds (decStep val d)
      rw [hstep] at hv
      have hov : ¬ (val * 10 + (d.toNat - 48) > 0x1000FF) := by unfold decStep at hle hv; omega
      have hs' : s.drop (i + 1) = ds ++ 59 :: e := by
        have : s.drop (i + 1) = (s.drop i).drop 1 := by rw [List.drop_drop]
        rw [this, hs]; rfl
      unfold decDecLoop
      simp only [hlt, ↓reduceIte, at'_ok hlt, hget, hne59, Bool.false_eq_true, hrange, hov, bind, Except.bind, pure, Except.pure]
      rw [decDecLoop_semi s ds (val * 10 + (d.toNat - 48)) (i + 1) fuel e hall.2 hs' hv (by simp at hf; omega), hstep]
      simp only [decStep, List.length_cons]
      congr 2
      omega

/-- **decimal reference with `;`**, any number of leading zeros -/
theorem unit_dec (ds e : Bytes) (hne : ds ≠ []) (hall : ds.all isDig = true) (hv : decFrom 0 ds ≤ 0x1000FF) :
    DecUnit ([38, 35] ++ ds ++ [59]) e (decFrom 0 ds : Nat) := by
  refine ⟨by simp, ?_⟩
  match ds, hne, hall, hv with
  | d :: ds', _, hall, hv =>
    simp only [List.all_cons, Bool.and_eq_true] at hall
    have hd := hall.1
    unfold isDig at hd
    simp only [Bool.and_eq_true, decide_eq_true_eq] at hd
    have hx : (d == 120 || d == 88) = false := by
      have h1 : d ≠ 120 := by intro h; rw [h] at hd; exact absurd hd.2 (by decide)
      have h2 : d ≠ 88 := by intro h; rw [h] at hd; exact absurd hd.2 (by decide)
      simp [h1, h2]
    have hrange : (d < 48 || d > 57) = false := by
      have h1 : ¬ d < 48 := by intro h; exact absurd hd.1 (by simpa using h)
      have h2 : ¬ d > 57 := by intro h; exact absurd hd.2 (by simpa using h)
      simp [h1, h2]
    unfold htmlDecodeByteAt
    simp only [List.cons_append, List.nil_append, List.length_cons, List.length_append, at', List.getElem?_cons_zero,
      List.getElem?_cons_succ, bind, Except.bind, pure, Except.pure, hx, hrange, Bool.false_eq_true, ↓reduceIte,
      bne_self_eq_false, Bool.false_or]
    rw [if_neg (by simp), if_neg (by simp), if_neg (by simp)]
    have e1 : decFrom 0 (d :: ds') = decFrom (d.toNat - 48) ds' := by
      show decFrom (decStep 0 d) ds' = _
      unfold decStep; simp
    rw [decDecLoop_semi _ ds' (d.toNat - 48) 3 _ e hall.2 (by simp) (by rw [← e1]; exact hv) (by simp; omega), e1]
    simp only [List.length_nil, List.length_cons, List.length_append]
    congr 2
    omega

/-- value of a hexadecimal digit, `256` for any other byte -/
def hexValN (c : UInt8) : Nat :=
  if 48 ≤ c && c ≤ 57 then c.toNat - 48 else if 97 ≤ c && c ≤ 102 then c.toNat - 87
  else if 65 ≤ c && c ≤ 70 then c.toNat - 55 else 256
def isHex (c : UInt8) : Bool := (48 ≤ c && c ≤ 57) || (97 ≤ c && c ≤ 102) || (65 ≤ c && c ≤ 70)

/-- table fact: the regenerated hex map is the hexadecimal digit value (256 for non-digits) -/
theorem hexDec_eq (c : UInt8) : hexDec c = .ok (hexValN c) := by
  have := forall_byte (fun c => match hexDec c with | .ok v => v == hexValN c | _ => false) (by decide +kernel) c
  cases h : hexDec c with
  | error e => simp [h] at this
  | ok v => simp only [h, beq_iff_eq] at this; rw [this]

theorem hexVal_facts (c : UInt8) (h : isHex c = true) : hexValN c < 16 ∧ c ≠ 59 := by
  have := forall_byte (fun c => !isHex c || (decide (hexValN c < 16) && c != 59)) (by decide +kernel) c
  simp only [h, Bool.not_true, Bool.false_or, Bool.and_eq_true, decide_eq_true_eq, bne_iff_ne, ne_eq] at this
  exact this

def hexStep (a : Nat) (d : UInt8) : Nat := a * 16 + hexValN d
def hexFrom (a : Nat) (ds : Bytes) : Nat := ds.foldl hexStep a

theorem hexFrom_ge : ∀ (ds : Bytes) (a : Nat), a ≤ hexFrom a ds
  | [], a => Nat.le_refl _
  | d :: ds, a => by
    have := hexFrom_ge ds (hexStep a d)
    unfold hexFrom at *
    simp only [List.foldl_cons]
    unfold hexStep at *
    omega

theorem decHexLoop_semi (s : Bytes) : ∀ (ds : Bytes) (val i fuel : Nat) (e : Bytes),
    ds.all isHex = true → s.drop i = ds ++ 59 :: e → hexFrom val ds ≤ 0x1000FF → ds.length < fuel →
    decHexLoop s val i fuel = .ok ((hexFrom val ds : Nat), i + ds.length + 1)
  | [], val, i, fuel, e, _, hs, _, hf => by
    cases fuel with
    | zero => omega
    | succ fuel =>
      have hlt : i < s.length := by
        rcases Nat.lt_or_ge i s.length with h | h
        · exact h
        · rw [List.drop_of_length_le h] at hs; cases hs
      have hget : s[i] = 59 := by
        have := congrArg (fun l => l[0]?) hs
        simp only [List.getElem?_drop, Nat.add_zero, List.nil_append, List.getElem?_cons_zero] at this
        rw [List.getElem?_eq_getElem hlt] at this
        exact Option.some.inj this
      unfold decHexLoop
      simp [hlt, at'_ok hlt, hget, bind, Except.bind, pure, Except.pure, hexFrom]
  | d :: ds, val, i, fuel, e, hall, hs, hv, hf => by
    cases fuel with
    | zero => omega
    | succ fuel =>
      simp only [List.all_cons, Bool.and_eq_true] at hall
      have hlt : i < s.length := by
        rcases Nat.lt_or_ge i s.length with h | h
        · exact h
        · rw [List.drop_of_length_le h] at hs; cases hs
      have hget : s[i] = d := by
        have := congrArg (fun l => l[0]?) hs
        simp only [List.getElem?_drop, Nat.add_zero, List.cons_append, List.getElem?_cons_zero] at this
        rw [List.getElem?_eq_getElem hlt] at this
        exact Option.some.inj this
      obtain ⟨h16, hn59⟩ := hexVal_facts d hall.1
      have hne59 : (d == 59) = false := by simpa using hn59
      have hn256 : (hexValN d == 256) = false := by
        have : hexValN d ≠ 256 := by omega
        simpa using this
      have hstep : hexFrom val (d :: ds) = hexFrom (hexStep val d) ds := rfl
      have hle := hexFrom_ge ds (hexStep val d)
      rw [hstep] at hv
      have hov : ¬ (val * 16 + hexValN d > 0x1000FF) := by unfold hexStep at hle hv; omega
      have hs' : s.drop (i + 1) = ds ++ 59 :: e := by
        have : s.drop (i + 1) = (s.drop i).drop 1 := by rw [List.drop_drop]
        rw [this, hs]; rfl
      unfold decHexLoop
      simp only [hlt, ↓reduceIte, at'_ok hlt, hget, hne59, Bool.false_eq_true, hexDec_eq, hn256, hov, bind, Except.bind,
        pure, Except.pure]
      rw [decHexLoop_semi s ds (val * 16 + hexValN d) (i + 1) fuel e hall.2 hs' hv (by simp at hf; omega), hstep]
      simp only [hexStep, List.length_cons]
      congr 2
      omega

/-- **hexadecimal reference with `;`**, either case of `x` and of the digits, any number of leading zeros -/
theorem unit_hex (x : UInt8) (hx : x = 120 ∨ x = 88) (ds e : Bytes) (hne : ds ≠ []) (hall : ds.all isHex = true)
    (hv : hexFrom 0 ds ≤ 0x1000FF) : DecUnit ([38, 35, x] ++ ds ++ [59]) e (hexFrom 0 ds : Nat) := by
  refine ⟨by simp, ?_⟩
  match ds, hne, hall, hv with
  | d :: ds', _, hall, hv =>
    simp only [List.all_cons, Bool.and_eq_true] at hall
    obtain ⟨h16, _⟩ := hexVal_facts d hall.1
    have hxx : (x == 120 || x == 88) = true := by rcases hx with rfl | rfl <;> decide
    have hn256 : (hexValN d == 256) = false := by
      have : hexValN d ≠ 256 := by omega
      simpa using this
    unfold htmlDecodeByteAt
    simp only [List.cons_append, List.nil_append, List.length_cons, List.length_append, at', List.getElem?_cons_zero,
      List.getElem?_cons_succ, bind, Except.bind, pure, Except.pure, hxx, ↓reduceIte, hexDec_eq, hn256,
      bne_self_eq_false, Bool.false_or, Bool.false_eq_true]
    rw [if_neg (by simp), if_neg (by simp), if_neg (by simp), if_neg (by simp)]
    have e1 : hexFrom 0 (d :: ds') = hexFrom (hexValN d) ds' := by
      show hexFrom (hexStep 0 d) ds' = _
      unfold hexStep; simp
    rw [decHexLoop_semi _ ds' (hexValN d) 4 _ e hall.2 (by simp) (by rw [← e1]; exact hv) (by simp; omega), e1]
    simp only [List.length_nil, List.length_cons, List.length_append]
    congr 2
    omega

/-- what may follow a reference that has no `;`: end of the value, or a byte that is neither `;` nor a digit of its base -/
def Stops (dig : UInt8 → Bool) (e : Bytes) : Prop := e = [] ∨ ∃ c t, e = c :: t ∧ dig c = false ∧ c ≠ 59

theorem decDecLoop_stop (s : Bytes) : ∀ (ds : Bytes) (val i fuel : Nat) (e : Bytes),
    ds.all isDig = true → s.drop i = ds ++ e → Stops isDig e → decFrom val ds ≤ 0x1000FF → ds.length < fuel →
    decDecLoop s val i fuel = .ok ((decFrom val ds : Nat), i + ds.length)
  | [], val, i, fuel, e, _, hs, hst, _, hf => by
    cases fuel with
    | zero => omega
    | succ fuel =>
      unfold decDecLoop
      rcases hst with rfl | ⟨c, t, rfl, hc, hc59⟩
      · have hge : ¬ i < s.length := by
          intro hlt
          have := congrArg List.length hs
          simp at this; omega
        simp [hge, pure, Except.pure, decFrom]
      · have hlt : i < s.length := by
          rcases Nat.lt_or_ge i s.length with h | h
          · exact h
          · rw [List.drop_of_length_le h] at hs; cases hs
        have hget : s[i] = c := by
          have := congrArg (fun l => l[0]?) hs
          simp only [List.getElem?_drop, Nat.add_zero, List.nil_append, List.getElem?_cons_zero] at this
          rw [List.getElem?_eq_getElem hlt] at this
          exact Option.some.inj this
        have h59 : (c == 59) = false := by simpa using hc59
        have hr : (c < 48 || c > 57) = true := by
          unfold isDig at hc
          by_cases h1 : c < 48
          · simp [h1]
          · have h1' : 48 ≤ c := by simpa using h1
            have : ¬ c ≤ 57 := by intro h2; simp [h1', h2] at hc
            have : c > 57 := by simpa using this
            simp [this]
        simp [hlt, at'_ok hlt, hget, h59, hr, bind, Except.bind, pure, Except.pure, decFrom]
  | d :: ds, val, i, fuel, e, hall, hs, hst, hv, hf => by
    cases fuel with
    | zero => omega
    | succ fuel =>
      simp only [List.all_cons, Bool.and_eq_true] at hall
      have hlt : i < s.length := by
        rcases Nat.lt_or_ge i s.length with h | h
        · exact h
        · rw [List.drop_of_length_le h] at hs; cases hs
      have hget : s[i] = d := by
        have := congrArg (fun l => l[0]?) hs
        simp only [List.getElem?_drop, Nat.add_zero, List.cons_append, List.getElem?_cons_zero] at this
        rw [List.getElem?_eq_getElem hlt] at this
        exact Option.some.inj this
      have hd := hall.1
      unfold isDig at hd
      simp only [Bool.and_eq_true, decide_eq_true_eq] at hd
      have hne59 : (d == 59) = false := by
        have : d.toNat ≤ 57 := hd.2
        have : d ≠ 59 := by intro h; rw [h] at this; exact absurd this (by decide)
        simpa using this
      have hrange : (d < 48 || d > 57) = false := by
        have h1 : ¬ d < 48 := by intro h; exact absurd hd.1 (by simpa using h)
        have h2 : ¬ d > 57 := by intro h; exact absurd hd.2 (by simpa using h)
        simp [h1, h2]
      have hstep : decFrom val (d :: ds) = decFrom (decStep val d) ds := rfl
      have hle := decFrom_ge ds (decStep val d)
      rw [hstep] at hv
      have hov : ¬ (val * 10 + (d.toNat - 48) > 0x1000FF) := by unfold decStep at hle hv; omega
      have hs' : s.drop (i + 1) = ds ++ e := by
        have : s.drop (i + 1) = (s.drop i).drop 1 := by rw [List.drop_drop]
        rw [this, hs]; rfl
      unfold decDecLoop
      simp only [hlt, ↓reduceIte, at'_ok hlt, hget, hne59, Bool.false_eq_true, hrange, hov, bind, Except.bind, pure, Except.pure]
      rw [decDecLoop_stop s ds (val * 10 + (d.toNat - 48)) (i + 1) fuel e hall.2 hs' hst hv (by simp at hf; omega), hstep]
      simp only [decStep, List.length_cons]
      congr 2
      omega

/-- **decimal reference without `;`**, followed by a byte that does not continue it -/
theorem unit_dec_open (ds e : Bytes) (hne : ds ≠ []) (hall : ds.all isDig = true) (hv : decFrom 0 ds ≤ 0x1000FF)
    (hst : Stops isDig e) : DecUnit ([38, 35] ++ ds) e (decFrom 0 ds : Nat) := by
  refine ⟨by simp, ?_⟩
  match ds, hne, hall, hv with
  | d :: ds', _, hall, hv =>
    simp only [List.all_cons, Bool.and_eq_true] at hall
    have hd := hall.1
    unfold isDig at hd
    simp only [Bool.and_eq_true, decide_eq_true_eq] at hd
    have hx : (d == 120 || d == 88) = false := by
      have h1 : d ≠ 120 := by intro h; rw [h] at hd; exact absurd hd.2 (by decide)
      have h2 : d ≠ 88 := by intro h; rw [h] at hd; exact absurd hd.2 (by decide)
      simp [h1, h2]
    have hrange : (d < 48 || d > 57) = false := by
      have h1 : ¬ d < 48 := by intro h; exact absurd hd.1 (by simpa using h)
      have h2 : ¬ d > 57 := by intro h; exact absurd hd.2 (by simpa using h)
      simp [h1, h2]
    unfold htmlDecodeByteAt
    simp only [List.cons_append, List.nil_append, List.length_cons, List.length_append, at', List.getElem?_cons_zero,
      List.getElem?_cons_succ, bind, Except.bind, pure, Except.pure, hx, hrange, Bool.false_eq_true, ↓reduceIte,
      bne_self_eq_false, Bool.false_or]
    rw [if_neg (by simp), if_neg (by simp), if_neg (by simp)]
    have e1 : decFrom 0 (d :: ds') = decFrom (d.toNat - 48) ds' := by
      show decFrom (decStep 0 d) ds' = _
      unfold decStep; simp
    rw [decDecLoop_stop _ ds' (d.toNat - 48) 3 _ e hall.2 rfl hst (by rw [← e1]; exact hv) (by omega), e1]
    congr 2
    omega

theorem hexVal_non (c : UInt8) (h : isHex c = false) : hexValN c = 256 := by
  have := forall_byte (fun c => isHex c || hexValN c == 256) (by decide +kernel) c
  rw [h] at this
  simpa using this

theorem decHexLoop_stop (s : Bytes) : ∀ (ds : Bytes) (val i fuel : Nat) (e : Bytes),
    ds.all isHex = true → s.drop i = ds ++ e → Stops isHex e → hexFrom val ds ≤ 0x1000FF → ds.length < fuel →
    decHexLoop s val i fuel = .ok ((hexFrom val ds : Nat), i + ds.length)
  | [], val, i, fuel, e, _, hs, hst, _, hf => by
    cases fuel with
    | zero => omega
    | succ fuel =>
      unfold decHexLoop
      rcases hst with rfl | ⟨c, t, rfl, hc, hc59⟩
      · have hge : ¬ i < s.length := by
          intro hlt
          have := congrArg List.length hs
          simp at this; omega
        simp [hge, pure, Except.pure, hexFrom]
      · have hlt : i < s.length := by
          rcases Nat.lt_or_ge i s.length with h | h
          · exact h
          · rw [List.drop_of_length_le h] at hs; cases hs
        have hget : s[i] = c := by
          have := congrArg (fun l => l[0]?) hs
          simp only [List.getElem?_drop, Nat.add_zero, List.nil_append, List.getElem?_cons_zero] at this
          rw [List.getElem?_eq_getElem hlt] at this
          exact Option.some.inj this
        have h59 : (c == 59) = false := by simpa using hc59
        simp [hlt, at'_ok hlt, hget, h59, hexDec_eq, hexVal_non c hc, bind, Except.bind, pure, Except.pure, hexFrom]
  | d :: ds, val, i, fuel, e, hall, hs, hst, hv, hf => by
    cases fuel with
    | zero => omega
    | succ fuel =>
      simp only [List.all_cons, Bool.and_eq_true] at hall
      have hlt : i < s.length := by
        rcases Nat.lt_or_ge i s.length with h | h
        · exact h
        · rw [List.drop_of_length_le h] at hs; cases hs
      have hget : s[i] = d := by
        have := congrArg (fun l => l[0]?) hs
        simp only [List.getElem?_drop, Nat.add_zero, List.cons_append, List.getElem?_cons_zero] at this
        rw [List.getElem?_eq_getElem hlt] at this
        exact Option.some.inj this
      obtain ⟨h16, hn59⟩ := hexVal_facts d hall.1
      have hne59 : (d == 59) = false := by simpa using hn59
      have hn256 : (hexValN d == 256) = false := by
        have : hexValN d ≠ 256 := by omega
        simpa using this
      have hstep : hexFrom val (d :: ds) = hexFrom (hexStep val d) ds := rfl
      have hle := hexFrom_ge ds (hexStep val d)
      rw [hstep] at hv
      have hov : ¬ (val * 16 + hexValN d > 0x1000FF) := by unfold hexStep at hle hv; omega
      have hs' : s.drop (i + 1) = ds ++ e := by
        have : s.drop (i + 1) = (s.drop i).drop 1 := by rw [List.drop_drop]
        rw [this, hs]; rfl
      unfold decHexLoop
      simp only [hlt, ↓reduceIte, at'_ok hlt, hget, hne59, Bool.false_eq_true, hexDec_eq, hn256, hov, bind, Except.bind,
        pure, Except.pure]
      rw [decHexLoop_stop s ds (val * 16 + hexValN d) (i + 1) fuel e hall.2 hs' hst hv (by simp at hf; omega), hstep]
      simp only [hexStep, List.length_cons]
      congr 2
      omega

/-- **hexadecimal reference without `;`**, followed by a byte that does not continue it -/
theorem unit_hex_open (x : UInt8) (hx : x = 120 ∨ x = 88) (ds e : Bytes) (hne : ds ≠ []) (hall : ds.all isHex = true)
    (hv : hexFrom 0 ds ≤ 0x1000FF) (hst : Stops isHex e) : DecUnit ([38, 35, x] ++ ds) e (hexFrom 0 ds : Nat) := by
  refine ⟨by simp, ?_⟩
  match ds, hne, hall, hv with
  | d :: ds', _, hall, hv =>
    simp only [List.all_cons, Bool.and_eq_true] at hall
    obtain ⟨h16, _⟩ := hexVal_facts d hall.1
    have hxx : (x == 120 || x == 88) = true := by rcases hx with rfl | rfl <;> decide
    have hn256 : (hexValN d == 256) = false := by
      have : hexValN d ≠ 256 := by omega
      simpa using this
    unfold htmlDecodeByteAt
    simp only [List.cons_append, List.nil_append, List.length_cons, List.length_append, at', List.getElem?_cons_zero,
      List.getElem?_cons_succ, bind, Except.bind, pure, Except.pure, hxx, ↓reduceIte, hexDec_eq, hn256,
      bne_self_eq_false, Bool.false_or, Bool.false_eq_true]
    rw [if_neg (by simp), if_neg (by simp), if_neg (by simp), if_neg (by simp)]
    have e1 : hexFrom 0 (d :: ds') = hexFrom (hexValN d) ds' := by
      show hexFrom (hexStep 0 d) ds' = _
      unfold hexStep; simp
    rw [decHexLoop_stop _ ds' (hexValN d) 4 _ e hall.2 rfl hst (by rw [← e1]; exact hv) (by omega), e1]
    congr 2
    omega

end LibInj.Xss
