import LibInj.Bytes
set_option linter.unusedSimpArgs false
set_option linter.unusedVariables false
/-! ASCII case re-assignment and the case-folding primitives. -/
namespace LibInj

/-- `s'` is a re-assignment of the case of the ASCII letters of `s` -/
def CaseEq (s s' : Bytes) : Prop := s.map lowerAscii = s'.map lowerAscii

theorem CaseEq.refl (s : Bytes) : CaseEq s s := rfl
theorem CaseEq.symm {s s' : Bytes} (h : CaseEq s s') : CaseEq s' s := Eq.symm h

theorem CaseEq.length {s s' : Bytes} (h : CaseEq s s') : s.length = s'.length := by
  have := congrArg List.length h
  simpa using this

theorem caseEq_cons {a b : UInt8} {s t : Bytes} : CaseEq (a :: s) (b :: t) ↔ lowerAscii a = lowerAscii b ∧ CaseEq s t := by
  simp [CaseEq]

theorem caseEq_nil_left {t : Bytes} : CaseEq [] t ↔ t = [] := by
  simp [CaseEq, eq_comm]

/-- a Boolean fact checked for all 256 bytes holds for every byte -/
theorem forall_byte (p : UInt8 → Bool) (h : (List.range 256).all (fun n => p n.toUInt8) = true) (c : UInt8) : p c = true := by
  have := List.all_eq_true.mp h c.toNat (List.mem_range.mpr c.toNat_lt)
  simpa using this

theorem upper_lower (c : UInt8) : upperAscii (lowerAscii c) = upperAscii c := by
  have := forall_byte (fun c => upperAscii (lowerAscii c) == upperAscii c) (by decide +kernel) c
  simpa using this

theorem lower_fixed_of_nonletter_image (b : UInt8) (h : (isLowerAscii (lowerAscii b) || isUpperAscii (lowerAscii b)) = false) :
    lowerAscii b = b := by
  have := forall_byte (fun b => (isLowerAscii (lowerAscii b) || isUpperAscii (lowerAscii b)) || lowerAscii b == b) (by decide +kernel) b
  rw [h] at this
  simpa using this

theorem lower_fixed_of_nonletter (a : UInt8) (h : (isLowerAscii a || isUpperAscii a) = false) : lowerAscii a = a := by
  have := forall_byte (fun a => (isLowerAscii a || isUpperAscii a) || lowerAscii a == a) (by decide +kernel) a
  rw [h] at this
  simpa using this

theorem lower_nonzero (a : UInt8) : (lowerAscii a != 0) = (a != 0) := by
  have := forall_byte (fun a => (lowerAscii a != 0) == (a != 0)) (by decide +kernel) a
  simpa using this

/-- bytes with the same lower-case image have the same upper-case image -/
theorem upper_of_lower_eq (a b : UInt8) (h : lowerAscii a = lowerAscii b) : upperAscii a = upperAscii b := by
  rw [← upper_lower a, ← upper_lower b, h]

/-- a byte whose lower-case image is that of a non-letter is that byte -/
theorem lower_eq_nonletter (a b : UInt8) (h : lowerAscii a = lowerAscii b) (hn : (isLowerAscii a || isUpperAscii a) = false) : b = a := by
  have ha := lower_fixed_of_nonletter a hn
  rw [ha] at h
  have hb := lower_fixed_of_nonletter_image b (by rw [← h]; exact hn)
  rw [hb] at h
  exact h.symm

theorem c4_nonletter : (isLowerAscii 0xC4 || isUpperAscii 0xC4) = false := by decide
theorem c5_nonletter : (isLowerAscii 0xC5 || isUpperAscii 0xC5) = false := by decide
theorem b1_nonletter : (isLowerAscii 0xB1 || isUpperAscii 0xB1) = false := by decide
theorem bf_nonletter : (isLowerAscii 0xBF || isUpperAscii 0xBF) = false := by decide

theorem goUpper_cons_generic (c : UInt8) (t : Bytes)
    (h1 : ¬ (c = 0xC4 ∧ ∃ t', t = 0xB1 :: t')) (h2 : ¬ (c = 0xC5 ∧ ∃ t', t = 0xBF :: t')) :
    goUpper (c :: t) = upperAscii c :: goUpper t := by
  cases t with
  | nil => simp [goUpper]
  | cons d t' =>
    by_cases hc4 : c = 0xC4
    · subst hc4
      by_cases hd : d = 0xB1
      · subst hd; exact absurd ⟨rfl, t', rfl⟩ h1
      · simp [goUpper, hd]
    · by_cases hc5 : c = 0xC5
      · subst hc5
        by_cases hd : d = 0xBF
        · subst hd; exact absurd ⟨rfl, t', rfl⟩ h2
        · simp [goUpper, hd]
      · simp [goUpper, hc4, hc5]

/-- **`strings.ToUpper` (as modelled) is invariant under ASCII case re-assignment** -/
theorem goUpper_caseEq : ∀ (n : Nat) (s s' : Bytes), s.length ≤ n → CaseEq s s' → goUpper s = goUpper s' := by
  intro n
  induction n with
  | zero =>
    intro s s' hl h
    have : s = [] := List.eq_nil_of_length_eq_zero (by omega)
    subst this
    rw [caseEq_nil_left.mp h]
  | succ n ih =>
    intro s s' hl h
    cases s with
    | nil => rw [caseEq_nil_left.mp h]
    | cons a t =>
      cases s' with
      | nil => exact absurd (CaseEq.length h) (by simp)
      | cons b t' =>
        obtain ⟨hab, htt⟩ := caseEq_cons.mp h
        -- the special two-byte patterns consist of non-letters, so both sides have them or neither
        by_cases p1 : a = 0xC4 ∧ ∃ u, t = 0xB1 :: u
        · obtain ⟨rfl, u, rfl⟩ := p1
          have hb : b = 0xC4 := lower_eq_nonletter _ _ hab c4_nonletter
          subst hb
          cases t' with
          | nil => exact absurd (CaseEq.length htt) (by simp)
          | cons d u' =>
            obtain ⟨hd, huu⟩ := caseEq_cons.mp htt
            have hd' : d = 0xB1 := lower_eq_nonletter _ _ hd b1_nonletter
            subst hd'
            simp only [goUpper]
            rw [ih u u' (by simp at hl; omega) huu]
        · by_cases p2 : a = 0xC5 ∧ ∃ u, t = 0xBF :: u
          · obtain ⟨rfl, u, rfl⟩ := p2
            have hb : b = 0xC5 := lower_eq_nonletter _ _ hab c5_nonletter
            subst hb
            cases t' with
            | nil => exact absurd (CaseEq.length htt) (by simp)
            | cons d u' =>
              obtain ⟨hd, huu⟩ := caseEq_cons.mp htt
              have hd' : d = 0xBF := lower_eq_nonletter _ _ hd bf_nonletter
              subst hd'
              simp only [goUpper]
              rw [ih u u' (by simp at hl; omega) huu]
          · -- generic on the left; show generic on the right
            have q1 : ¬ (b = 0xC4 ∧ ∃ u, t' = 0xB1 :: u) := by
              rintro ⟨rfl, u, rfl⟩
              have ha : a = 0xC4 := lower_eq_nonletter _ _ hab.symm c4_nonletter
              cases t with
              | nil => exact absurd (CaseEq.length htt) (by simp)
              | cons d u0 =>
                obtain ⟨hd, _⟩ := caseEq_cons.mp htt
                have hd' : d = 0xB1 := lower_eq_nonletter _ _ hd.symm b1_nonletter
                exact p1 ⟨ha, u0, by rw [hd']⟩
            have q2 : ¬ (b = 0xC5 ∧ ∃ u, t' = 0xBF :: u) := by
              rintro ⟨rfl, u, rfl⟩
              have ha : a = 0xC5 := lower_eq_nonletter _ _ hab.symm c5_nonletter
              cases t with
              | nil => exact absurd (CaseEq.length htt) (by simp)
              | cons d u0 =>
                obtain ⟨hd, _⟩ := caseEq_cons.mp htt
                have hd' : d = 0xBF := lower_eq_nonletter _ _ hd.symm bf_nonletter
                exact p2 ⟨ha, u0, by rw [hd']⟩
            rw [goUpper_cons_generic a t p1 p2, goUpper_cons_generic b t' q1 q2, upper_of_lower_eq a b hab,
              ih t t' (by simp at hl; omega) htt]

theorem goUpper_length_le : ∀ (n : Nat) (s : Bytes), s.length ≤ n → (goUpper s).length ≤ s.length := by
  intro n
  induction n with
  | zero => intro s h; have : s = [] := List.eq_nil_of_length_eq_zero (by omega); subst this; simp [goUpper]
  | succ n ih =>
    intro s h
    match s with
    | [] => simp [goUpper]
    | [c] =>
      by_cases h1 : c = 0xC4 <;> by_cases h2 : c = 0xC5 <;> simp [goUpper]
    | c :: d :: t =>
      by_cases p1 : c = 0xC4 ∧ d = 0xB1
      · obtain ⟨rfl, rfl⟩ := p1
        simp only [goUpper, List.length_cons]
        have := ih t (by simp at h; omega); omega
      · by_cases p2 : c = 0xC5 ∧ d = 0xBF
        · obtain ⟨rfl, rfl⟩ := p2
          simp only [goUpper, List.length_cons]
          have := ih t (by simp at h; omega); omega
        · have := goUpper_cons_generic c (d :: t) (by rintro ⟨rfl, u, hu⟩; cases hu; exact p1 ⟨rfl, rfl⟩)
            (by rintro ⟨rfl, u, hu⟩; cases hu; exact p2 ⟨rfl, rfl⟩)
          rw [this]
          have := ih (d :: t) (by simp at h ⊢; omega)
          simp at this ⊢; omega

theorem goUpper_case_invariant (s s' : Bytes) (h : CaseEq s s') : goUpper s = goUpper s' :=
  goUpper_caseEq s.length s s' (Nat.le_refl _) h

/-- NUL is not a letter: stripping NULs commutes with case re-assignment -/
theorem stripNul_caseEq : ∀ (s s' : Bytes), CaseEq s s' → CaseEq (stripNul s) (stripNul s')
  | [], s', h => by rw [caseEq_nil_left.mp h]; exact CaseEq.refl _
  | a :: t, [], h => absurd (CaseEq.length h) (by simp)
  | a :: t, b :: t', h => by
    obtain ⟨hab, htt⟩ := caseEq_cons.mp h
    have ih := stripNul_caseEq t t' htt
    have hz : (a != 0) = (b != 0) := by
      rw [← lower_nonzero a, ← lower_nonzero b, hab]
    unfold stripNul at ih ⊢
    simp only [List.filter_cons]
    rw [hz]
    split
    · exact caseEq_cons.mpr ⟨hab, ih⟩
    · exact ih

theorem stripNul_insert (a b : Bytes) : stripNul (a ++ 0 :: b) = stripNul (a ++ b) := by
  simp [stripNul, List.filter_append]

end LibInj
