import LibInj.Proofs.H5Good
import LibInj.Proofs.Decode
import LibInj.Xss.IsXSS
set_option linter.unusedSimpArgs false
set_option linter.unusedVariables false
/-! Totality of the XSS loop and of `IsXSS` (C02). -/
namespace LibInj.Xss
open LibInj LibInj.H5

theorem slice_ok (s : Bytes) (a b : Nat) (h1 : a ≤ b) (h2 : b ≤ s.length) :
    slice s a b = .ok ((s.drop a).take (b - a)) := by
  simp [slice, h1, h2]

theorem commentIsXSS_ok (h : H) (hb : h.tokStart + h.tokLen ≤ h.s.length) : ∃ r, commentIsXSS h = .ok r := by
  unfold commentIsXSS
  have hl : (h.s.drop h.tokStart).length = h.s.length - h.tokStart := by simp
  simp only [slice_ok h.s h.tokStart (h.tokStart + h.tokLen) (by omega) hb,
    H5.offFrom_ok (show h.tokStart ≤ h.s.length by omega), bind, Except.bind, pure, Except.pure]
  split
  · exact ⟨true, rfl⟩
  · by_cases h3 : h.tokLen > 3
    · have hts : 3 < (h.s.drop h.tokStart).length := by rw [hl]; omega
      have e0 := at'_ok (show 0 < (h.s.drop h.tokStart).length by omega)
      have e1 := slice_ok (h.s.drop h.tokStart) 1 3 (by omega) (by omega)
      have e2 := slice_ok (h.s.drop h.tokStart) 0 3 (by omega) (by omega)
      simp only [h3, ↓reduceIte, e0, e1, e2]
      split
      · exact ⟨true, rfl⟩
      · split
        · exact ⟨true, rfl⟩
        · by_cases h5 : h.tokLen > 5
          · have e3 := slice_ok (h.s.drop h.tokStart) 0 6 (by omega) (by rw [hl]; omega)
            simp only [h5, ↓reduceIte, e3]
            split
            · exact ⟨true, rfl⟩
            · exact ⟨false, rfl⟩
          · simp only [h5, ↓reduceIte]
            exact ⟨false, rfl⟩
    · have h5 : ¬ h.tokLen > 5 := by omega
      simp only [h3, h5, ↓reduceIte]
      exact ⟨false, rfl⟩

theorem xssLoop_total (fuel : Nat) : ∀ (h : H) (attr : Nat), Inv h → mu h < fuel → ∃ b, xssLoop h attr fuel = .ok b := by
  induction fuel with
  | zero => intro h _ _ hf; omega
  | succ fuel ih =>
    intro h attr hi hf
    unfold xssLoop
    obtain ⟨b, h', hr, hs, hb⟩ := next_spec h hi
    simp only [hr, bind, Except.bind, pure, Except.pure]
    cases b with
    | false => exact ⟨false, by simp⟩
    | true =>
      obtain ⟨hmu, hinv, htok, _⟩ := hb rfl
      have hrec : ∀ a, ∃ b, xssLoop h' a fuel = .ok b := fun a => ih h' a hinv (by omega)
      have htok' : h'.tokStart + h'.tokLen ≤ h'.s.length := by rw [hs]; exact htok
      have esl := slice_ok h'.s h'.tokStart (h'.tokStart + h'.tokLen) (by omega) htok'
      simp only [Bool.not_true, Bool.false_eq_true, ↓reduceIte]
      cases htt : h'.tokType <;> simp only [htt, esl]
      case docType => exact ⟨true, rfl⟩
      case tagNameOpen => split <;> first | exact ⟨true, rfl⟩ | exact hrec _
      case attrName => exact hrec _
      case attrValue =>
        split
        · exact ⟨true, rfl⟩
        · obtain ⟨r, hr2⟩ := isBlackURL_ok ((h'.s.drop h'.tokStart).take (h'.tokStart + h'.tokLen - h'.tokStart))
          simp only [hr2]
          split <;> first | exact ⟨true, rfl⟩ | exact hrec _
        · exact ⟨true, rfl⟩
        · split <;> first | exact ⟨true, rfl⟩ | exact hrec _
        · exact hrec _
      case tagComment =>
        obtain ⟨r, hr2⟩ := commentIsXSS_ok h' htok'
        simp only [hr2]
        split <;> first | exact ⟨true, rfl⟩ | exact hrec _
      all_goals exact hrec _

theorem isXSSCtx_total (s : Bytes) (ctx : Nat) : ∃ b, isXSSCtx s ctx = .ok b := by
  unfold isXSSCtx
  have hi := init_inv s ctx
  have hs : (init s ctx).s = s := by unfold init; rfl
  have hp : (init s ctx).pos = 0 := by unfold init; rfl
  apply xssLoop_total _ _ _ hi
  unfold mu xssFuel; rw [hs, hp]; have := rank_le (init s ctx).state; omega

/-- **C02.** `IsXSS` returns a verdict for every byte string. -/
theorem isXSS_total (s : Bytes) : ∃ b, isXSS s = .ok b := by
  unfold isXSS
  obtain ⟨b0, h0⟩ := isXSSCtx_total s 0
  obtain ⟨b1, h1⟩ := isXSSCtx_total s 1
  obtain ⟨b2, h2⟩ := isXSSCtx_total s 2
  obtain ⟨b3, h3⟩ := isXSSCtx_total s 3
  obtain ⟨b4, h4⟩ := isXSSCtx_total s 4
  simp only [h0, h1, h2, h3, h4, bind, Except.bind, pure, Except.pure]
  cases b0 <;> cases b1 <;> cases b2 <;> cases b3 <;> simp

end LibInj.Xss
